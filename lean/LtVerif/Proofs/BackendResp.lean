/-
  Helper lemmas for the C10 models: the backend chunked decoder (Model/HttpChunkDecode.lean),
  FastCGI record reassembly (Model/FcgiRecv.lean) and the relay composite (Model/BackendResp.lean).
-/
import LtVerif.Model.BackendResp
namespace LtVerif.BeResp
open LtVerif B

/-! ## backend chunked decoder -/

theorem dcFeed_nil (s : DcSt) : dcFeed s [] = s := rfl
theorem dcFeed_cons (s : DcSt) (b : UInt8) (bs : Bytes) : dcFeed s (b :: bs) = dcFeed (dcStep s b) bs := rfl
theorem dcFeed_append (s : DcSt) (a b : Bytes) : dcFeed s (a ++ b) = dcFeed (dcFeed s a) b := by
  simp [dcFeed, List.foldl_append]

/-- a chunk-size line (with its LF) that the decoder accepts for a chunk of `n` bytes: any
    spelling (leading zeros, upper/lower-case hex, BWS, chunk extensions) -/
structure DcGoodLine (l : Bytes) (n : Nat) : Prop where
  parse : dcParseLine l = some n
  pre : ∃ p, l = p ++ [lf] ∧ lf ∉ p
  short : l.length ≤ 1024

/-- `t` is what follows the last-chunk line `l` up to and including the first empty line -/
structure DcTrailerEnd (l t : Bytes) : Prop where
  nonempty : t ≠ []
  ends : endsCrlfCrlf (l ++ t) = true
  first : ∀ q r, t = q ++ r → r ≠ [] → q ≠ [] → endsCrlfCrlf (l ++ q) = false

theorem dcFeed_hdr_pre (p : Bytes) : ∀ (acc out : Bytes),
    lf ∉ p → acc.length + p.length < 1024 →
    dcFeed { mode := .hdr acc, out := out } p = { mode := .hdr (acc ++ p), out := out } := by
  induction p with
  | nil => intro acc out _ _; simp [dcFeed_nil]
  | cons b rest ih =>
    intro acc out hlf hlen
    have hb : b ≠ lf := fun e => hlf (by simp [e])
    have hrest : lf ∉ rest := fun e => hlf (by simp [e])
    simp only [List.length_cons] at hlen
    rw [dcFeed_cons]
    have hstep : dcStep { mode := .hdr acc, out := out } b = { mode := .hdr (acc ++ [b]), out := out } := by
      simp [dcStep, hb]
      omega
    rw [hstep, ih (acc ++ [b]) out hrest (by simp; omega)]
    simp

theorem dcFeed_goodline {l : Bytes} {n : Nat} (h : DcGoodLine l n) (hn : n ≠ 0) (out : Bytes) :
    dcFeed { mode := .hdr [], out := out } l = { mode := .data n, out := out } := by
  obtain ⟨p, hl, hlf⟩ := h.pre
  have hshort := h.short
  have hp := h.parse
  subst hl
  simp only [List.length_append, List.length_singleton] at hshort
  rw [dcFeed_append, dcFeed_hdr_pre p [] out hlf (by simp; omega)]
  simp only [List.nil_append, dcFeed_cons, dcFeed_nil]
  cases n with
  | zero => exact absurd rfl hn
  | succ k => simp [dcStep, hp]

theorem dcFeed_lastline {l : Bytes} (h : DcGoodLine l 0) (out : Bytes) :
    dcFeed { mode := .hdr [], out := out } l = { mode := .trailer l, out := out } := by
  obtain ⟨p, hl, hlf⟩ := h.pre
  have hshort := h.short
  have hp := h.parse
  subst hl
  simp only [List.length_append, List.length_singleton] at hshort
  rw [dcFeed_append, dcFeed_hdr_pre p [] out hlf (by simp; omega)]
  simp only [List.nil_append, dcFeed_cons, dcFeed_nil]
  simp [dcStep, hp]

theorem dcFeed_data (d : Bytes) : ∀ (n : Nat) (out : Bytes), d ≠ [] → d.length = n →
    dcFeed { mode := .data n, out := out } d = { mode := .cr, out := out ++ d } := by
  induction d with
  | nil => intro n out h; exact absurd rfl h
  | cons b rest ih =>
    intro n out _ hlen
    rw [dcFeed_cons]
    cases rest with
    | nil =>
      simp only [List.length_cons, List.length_nil] at hlen
      subst hlen
      simp [dcStep, dcFeed_nil]
    | cons c rest' =>
      simp only [List.length_cons] at hlen
      have hn : ¬ n ≤ 1 := by omega
      have hstep : dcStep { mode := .data n, out := out } b = { mode := .data (n - 1), out := out ++ [b] } := by
        simp [dcStep, hn]
      rw [hstep, ih (n - 1) (out ++ [b]) (by simp) (by simp; omega)]
      simp

theorem dcFeed_crlf (out : Bytes) :
    dcFeed { mode := .cr, out := out } [cr, lf] = { mode := .hdr [], out := out } := by
  simp [dcFeed_cons, dcFeed_nil, dcStep]

theorem dcFeed_chunk {l d : Bytes} (h : DcGoodLine l d.length) (hd : d ≠ []) (out : Bytes) :
    dcFeed { mode := .hdr [], out := out } (l ++ d ++ [cr, lf]) = { mode := .hdr [], out := out ++ d } := by
  have hn : d.length ≠ 0 := fun e => hd (List.length_eq_zero_iff.mp e)
  rw [dcFeed_append, dcFeed_append, dcFeed_goodline h hn, dcFeed_data d d.length out hd rfl, dcFeed_crlf]

/-- the trailer section is consumed up to its first empty line -/
theorem dcFeed_trailer (out : Bytes) : ∀ (t acc : Bytes), t ≠ [] →
    endsCrlfCrlf (acc ++ t) = true →
    (∀ q r, t = q ++ r → r ≠ [] → q ≠ [] → endsCrlfCrlf (acc ++ q) = false) →
    dcFeed { mode := .trailer acc, out := out } t = { mode := .done (acc ++ t), out := out } := by
  intro t
  induction t with
  | nil => intro acc h; exact absurd rfl h
  | cons b rest ih =>
    intro acc _ hend hfirst
    rw [dcFeed_cons]
    cases rest with
    | nil => simp [dcStep, dcFeed_nil, hend]
    | cons c rest' =>
      have hq : endsCrlfCrlf (acc ++ [b]) = false := hfirst [b] (c :: rest') rfl (by simp) (by simp)
      have hstep : dcStep { mode := .trailer acc, out := out } b
          = { mode := .trailer (acc ++ [b]), out := out } := by
        simp [dcStep, hq]
      rw [hstep, ih (acc ++ [b]) (by simp) (by simpa using hend)]
      · simp
      · intro q r hqr hr _
        have := hfirst (b :: q) r (by simp [hqr]) hr (by simp)
        simpa using this

theorem dcFeed_final {l t : Bytes} (hl : DcGoodLine l 0) (ht : DcTrailerEnd l t) (out : Bytes) :
    dcFeed { mode := .hdr [], out := out } (l ++ t) = { mode := .done (l ++ t), out := out } := by
  rw [dcFeed_append, dcFeed_lastline hl]
  exact dcFeed_trailer out t l ht.nonempty ht.ends ht.first

theorem dcFeed_err (bs : Bytes) (out : Bytes) : dcFeed { mode := .err, out := out } bs = { mode := .err, out := out } := by
  induction bs with
  | nil => rfl
  | cons b rest ih => rw [dcFeed_cons]; simpa [dcStep] using ih

theorem dcFeed_done_excess (acc out : Bytes) (bs : Bytes) (h : bs ≠ []) :
    dcFeed { mode := .done acc, out := out } bs = { mode := .err, out := out } := by
  cases bs with
  | nil => exact absurd rfl h
  | cons b rest => rw [dcFeed_cons]; simpa [dcStep] using dcFeed_err rest out


/-! ## FastCGI record reassembly -/

theorem frFeed_nil (s : FrSt) : frFeed s [] = s := rfl
theorem frFeed_cons (s : FrSt) (b : UInt8) (bs : Bytes) : frFeed s (b :: bs) = frFeed (frStep s b) bs := rfl
theorem frFeed_append (s : FrSt) (a b : Bytes) : frFeed s (a ++ b) = frFeed (frFeed s a) b := by
  simp [frFeed, List.foldl_append]

/-- between records: no partial record pending, request not ended -/
def FrIdle (s : FrSt) : Prop :=
  s.hdr = [] ∧ s.inRec = false ∧ s.ended = false ∧ s.got = 0 ∧ s.acc = [] ∧ s.need = 0 ∧ s.pad = 0 ∧ s.typ = 0

theorem toUInt8_toNat_of_lt {n : Nat} (h : n < 256) : n.toUInt8.toNat = n := by
  simp [Nat.toUInt8, UInt8.toNat, UInt8.ofNat]
  omega

/-- content bytes are collected (most recent first) as long as the record is not complete -/
theorem frFeed_content (c : Bytes) : ∀ (s : FrSt), s.ended = false → s.inRec = true →
    c.length < s.need ∨ (c.length = s.need ∧ s.pad > 0) →
    frFeed s c = { s with need := s.need - c.length, acc := c.reverse ++ s.acc, got := s.got + c.length } := by
  induction c with
  | nil => intro s _ _ _; simp [frFeed_nil]
  | cons b rest ih =>
    intro s he hi hn
    rw [frFeed_cons]
    simp only [List.length_cons] at hn
    have hstep : frStep s b = { s with need := s.need - 1, acc := b :: s.acc, got := s.got + 1 } := by
      unfold frStep
      simp only [he, hi]
      rcases hn with hn | ⟨hn, hp⟩
      · have h1 : s.need > 0 := by omega
        have h2 : ¬ (s.need = 1) := by omega
        simp [h1, h2]
      · have h1 : s.need > 0 := by omega
        have : ¬ (s.pad = 0) := by omega
        simp [h1, this]
    rw [hstep, ih]
    · simp; constructor <;> omega
    · exact he
    · exact hi
    · rcases hn with hn | ⟨hn, hp⟩
      · left; simp; omega
      · right; simp; constructor <;> omega

/-- padding bytes are skipped as long as the record is not complete -/
theorem frFeed_pad (p : Bytes) : ∀ (s : FrSt), s.ended = false → s.inRec = true → s.need = 0 →
    p.length < s.pad →
    frFeed s p = { s with pad := s.pad - p.length, got := s.got + p.length } := by
  induction p with
  | nil => intro s _ _ _ _; simp [frFeed_nil]
  | cons b rest ih =>
    intro s he hi hn hp
    rw [frFeed_cons]
    simp only [List.length_cons] at hp
    have hstep : frStep s b = { s with pad := s.pad - 1, got := s.got + 1 } := by
      unfold frStep
      have : ¬ (s.pad ≤ 1) := by omega
      simp [he, hi, hn, this]
    rw [hstep, ih]
    · simp; constructor <;> omega
    · exact he
    · exact hi
    · exact hn
    · simp; omega

/-- the state after a completed record -/
def frAfter (s : FrSt) (t : UInt8) (content : Bytes) : FrSt :=
  { hdr := [], inRec := false, typ := 0, need := 0, pad := 0, acc := [], got := 0,
    ended := frEvent t content = .endRequest, evs := s.evs ++ [frEvent t content] }

theorem frFeed_header (s : FrSt) (t : UInt8) (rid clen plen : Nat) (x : UInt8)
    (h0 : s.hdr = []) (hi : s.inRec = false) (he : s.ended = false)
    (hc : clen < 65536) (hp : plen < 256) :
    frFeed s [1, t, (rid / 256).toUInt8, (rid % 256).toUInt8, (clen / 256).toUInt8, (clen % 256).toUInt8,
              plen.toUInt8, x]
      = if clen + plen = 0 then frAfter s t []
        else { s with hdr := [], inRec := true, typ := t, need := clen, pad := plen, acc := [], got := s.got + 8 } := by
  have h1 : (clen / 256).toUInt8.toNat = clen / 256 := toUInt8_toNat_of_lt (by omega)
  have h2 : (clen % 256).toUInt8.toNat = clen % 256 := toUInt8_toNat_of_lt (by omega)
  have h3 : plen.toUInt8.toNat = plen := toUInt8_toNat_of_lt hp
  have h4 : clen / 256 * 256 + clen % 256 = clen := by omega
  simp only [frFeed_cons, frFeed_nil]
  simp [frStep, h0, hi, he, h1, h2, h3, h4, frEmit, frAfter]


theorem frFeed_record (s : FrSt) (t : UInt8) (rid : Nat) (content pad : Bytes)
    (h0 : s.hdr = []) (hi : s.inRec = false) (he : s.ended = false)
    (hc : content.length < 65536) (hp : pad.length < 256) :
    frFeed s (frEncode t rid content pad) = frAfter s t content := by
  unfold frEncode
  rw [frFeed_append, frFeed_append, frFeed_header s t rid content.length pad.length 0 h0 hi he hc hp]
  rcases List.eq_nil_or_concat pad with hpad | ⟨pinit, plast, hpad⟩
  · -- no padding
    subst hpad
    rcases List.eq_nil_or_concat content with hcon | ⟨cinit, clast, hcon⟩
    · subst hcon; simp [frFeed_nil]
    · rw [List.concat_eq_append] at hcon
      subst hcon
      have hne : ¬ ((cinit ++ [clast]).length + ([] : Bytes).length = 0) := by simp
      rw [if_neg hne, frFeed_append, frFeed_content cinit _ (by simpa using he) (by simp) (by left; simp)]
      simp [frFeed_cons, frFeed_nil, frStep, he, frEmit, frAfter]
  · rw [List.concat_eq_append] at hpad
    subst hpad
    have hne : ¬ (content.length + (pinit ++ [plast]).length = 0) := by simp
    rw [if_neg hne, frFeed_content content _ (by simpa using he) (by simp) (by right; simp),
        frFeed_append, frFeed_pad pinit _ (by simpa using he) (by simp) (by simp) (by simp)]
    simp [frFeed_cons, frFeed_nil, frStep, he, frEmit, frAfter]

theorem frAfter_idle (s : FrSt) (t : UInt8) (c : Bytes) (h : frEvent t c ≠ .endRequest) :
    (frAfter s t c).hdr = [] ∧ (frAfter s t c).inRec = false ∧ (frAfter s t c).ended = false := by
  simp [frAfter, h]

/-- after END_REQUEST nothing is parsed any more -/
theorem frFeed_ended (bs : Bytes) (s : FrSt) (h : s.ended = true) : frFeed s bs = s := by
  induction bs with
  | nil => rfl
  | cons b rest ih => rw [frFeed_cons]; simp [frStep, h, ih]


/-- fewer than 8 header bytes: nothing happens yet -/
theorem frFeed_hdr_partial (r : Bytes) : ∀ (s : FrSt), s.inRec = false → s.ended = false →
    s.hdr.length + r.length < 8 →
    frFeed s r = { s with hdr := s.hdr ++ r, got := s.got + r.length } := by
  induction r with
  | nil => intro s _ _ _; simp [frFeed_nil]
  | cons b rest ih =>
    intro s hi he hl
    rw [frFeed_cons]
    simp only [List.length_cons] at hl
    have hstep : frStep s b = { s with hdr := s.hdr ++ [b], got := s.got + 1 } := by
      unfold frStep
      have : s.hdr.length + 1 < 8 := by omega
      simp [hi, he, this]
    rw [hstep, ih]
    · simp; omega
    · exact hi
    · exact he
    · simp; omega

/-- a record that is not yet complete produces no event and does not end the request -/
theorem frFeed_partial_record (s : FrSt) (t : UInt8) (rid : Nat) (content pad : Bytes) (k : Nat)
    (h0 : s.hdr = []) (hi : s.inRec = false) (he : s.ended = false)
    (hc : content.length < 65536) (hp : pad.length < 256)
    (hk : k < (frEncode t rid content pad).length) :
    (frFeed s ((frEncode t rid content pad).take k)).ended = false ∧
    (frFeed s ((frEncode t rid content pad).take k)).evs = s.evs := by
  unfold frEncode at hk ⊢
  simp only [List.length_append, List.length_cons, List.length_nil] at hk
  by_cases hk8 : k < 8
  · -- inside the header
    rw [List.append_assoc, List.take_append_of_le_length (by simp; omega)]
    rw [frFeed_hdr_partial _ s hi he (by simp [h0]; omega)]
    simp [he]
  · have hk8' : 8 ≤ k := by omega
    rw [List.append_assoc, List.take_append, List.take_of_length_le (by simp; omega), frFeed_append,
        frFeed_header s t rid content.length pad.length 0 h0 hi he hc hp]
    have hne : ¬ (content.length + pad.length = 0) := by omega
    rw [if_neg hne]
    simp only [List.length_cons, List.length_nil]
    generalize hj : k - (0 + 1 + 1 + 1 + 1 + 1 + 1 + 1 + 1) = j
    have hjlt : j < content.length + pad.length := by omega
    generalize hs1 : ({ s with hdr := [], inRec := true, typ := t, need := content.length, pad := pad.length,
                               acc := [], got := s.got + 8 } : FrSt) = s1
    have e1 : s1.ended = false := by rw [← hs1]; exact he
    have i1 : s1.inRec = true := by rw [← hs1]
    have n1 : s1.need = content.length := by rw [← hs1]
    have p1 : s1.pad = pad.length := by rw [← hs1]
    have v1 : s1.evs = s.evs := by rw [← hs1]
    by_cases hjc : j ≤ content.length
    · rw [List.take_append_of_le_length hjc]
      rw [frFeed_content _ s1 e1 i1 (by
        simp only [List.length_take]
        by_cases hj2 : j < content.length
        · left; omega
        · right; omega)]
      simp [e1, v1]
    · rw [List.take_append, List.take_of_length_le (by omega), frFeed_append]
      rw [frFeed_content _ s1 e1 i1 (by right; omega)]
      rw [frFeed_pad _ _ (by simpa using e1) (by simpa using i1) (by simp; omega) (by simp; omega)]
      simp [e1, v1]


/-- a FastCGI record as the backend writes it -/
structure FrRec where
  typ : UInt8
  rid : Nat
  content : Bytes
  pad : Bytes

def FrRec.ok (r : FrRec) : Prop := r.content.length < 65536 ∧ r.pad.length < 256
def FrRec.enc (r : FrRec) : Bytes := frEncode r.typ r.rid r.content r.pad
def FrRec.ev (r : FrRec) : FrEv := frEvent r.typ r.content

theorem frFeed_records (rs : List FrRec) : ∀ (s : FrSt), s.hdr = [] → s.inRec = false → s.ended = false →
    (∀ r ∈ rs, r.ok ∧ r.ev ≠ .endRequest) →
    (frFeed s (rs.flatMap FrRec.enc)).hdr = [] ∧ (frFeed s (rs.flatMap FrRec.enc)).inRec = false ∧
    (frFeed s (rs.flatMap FrRec.enc)).ended = false ∧
    (frFeed s (rs.flatMap FrRec.enc)).evs = s.evs ++ rs.map FrRec.ev := by
  induction rs with
  | nil => intro s h0 hi he _; simp [frFeed_nil, h0, hi, he]
  | cons r rest ih =>
    intro s h0 hi he hall
    have hr := hall r (by simp)
    have hrest : ∀ x ∈ rest, x.ok ∧ x.ev ≠ .endRequest := fun x hx => hall x (by simp [hx])
    simp only [List.flatMap_cons, frFeed_append]
    have hrec : frFeed s r.enc = frAfter s r.typ r.content :=
      frFeed_record s r.typ r.rid r.content r.pad h0 hi he hr.1.1 hr.1.2
    rw [hrec]
    obtain ⟨a, b, c⟩ := frAfter_idle s r.typ r.content hr.2
    obtain ⟨i1, i2, i3, i4⟩ := ih (frAfter s r.typ r.content) a b c hrest
    refine ⟨i1, i2, i3, ?_⟩
    rw [i4]
    simp [frAfter, FrRec.ev]


/-! ## relay composite -/

/-! ## relay composite: end-of-stream classification and response start -/

theorem gwRecvEnd_pre (cfg : Cfg) (st : St) (e : End)
    (hc : st.cstate = .handle) (hs : st.started = false)
    (hh : st.handler = true) (hst : st.status = 0) (he : e ≠ .none) (hfe : st.fcgi.ended = false) :
    gwRecvEnd cfg st e = { st with open_ := false, status := 500, handler := false } := by
  cases e <;> simp [gwRecvEnd, gwBackendError, gwClose, backendError, backendDone, hc, hs, hh, hst, hfe] at he ⊢

/-- the fields of the state the error document leaves alone -/
theorem staticErrdoc_proj (st : St) (hh : st.handler = false) :
    (staticErrdoc st).status = st.status ∧ (staticErrdoc st).keepAlive = st.keepAlive ∧
    (staticErrdoc st).handler = false ∧ (staticErrdoc st).wq = errorPage st.status ∧
    (staticErrdoc st).evs = st.evs ∧ (staticErrdoc st).cstate = st.cstate ∧
    (staticErrdoc st).open_ = st.open_ ∧ (staticErrdoc st).finished = true ∧ (staticErrdoc st).dc = none := by
  unfold staticErrdoc
  simp only [hh, Bool.false_eq_true, if_false]
  split <;> simp [bodyClear]

theorem wpStatus_errdoc (st : St) (h4 : 400 ≤ st.status) (h6 : st.status < 600) :
    wpStatus st = staticErrdoc st := by
  have n1 : ¬ (st.status = 204 ∨ st.status = 205) := by omega
  have n2 : ¬ (st.status = 304) := by omega
  have n3 : ¬ (st.status = 200) := by omega
  simp [wpStatus, n1, n2, n3, h4, h6]

theorem mergeTrailers_dc_none (cfg : Cfg) (st : St) (h : st.dc = none) : mergeTrailers cfg st = st := by
  simp [mergeTrailers, h]

/-- announcing the length only touches the header fields -/
theorem wpSetLength_proj (cfg : Cfg) (st : St) :
    (wpSetLength cfg st).status = st.status ∧ (wpSetLength cfg st).keepAlive = st.keepAlive ∧
    (wpSetLength cfg st).handler = st.handler ∧ (wpSetLength cfg st).wq = st.wq ∧
    (wpSetLength cfg st).evs = st.evs ∧ (wpSetLength cfg st).cstate = st.cstate ∧
    (wpSetLength cfg st).open_ = st.open_ ∧ (wpSetLength cfg st).finished = st.finished ∧
    (wpSetLength cfg st).sendChunked = st.sendChunked := by
  unfold wpSetLength
  (repeat' split) <;> simp

theorem wpHead_proj (cfg : Cfg) (st : St) (hf : st.finished = true) :
    (wpHead cfg st).status = st.status ∧ (wpHead cfg st).keepAlive = st.keepAlive ∧
    (wpHead cfg st).handler = st.handler ∧ (wpHead cfg st).wq = (if cfg.head then [] else st.wq) ∧
    (wpHead cfg st).evs = st.evs ∧ (wpHead cfg st).cstate = st.cstate ∧
    (wpHead cfg st).open_ = st.open_ ∧ (wpHead cfg st).finished = true := by
  unfold wpHead
  split <;> simp_all [bodyClear]

/-- http_response_write_prepare() for a response lighttpd answers itself with an error document -/
theorem writePrepare_errdoc (cfg : Cfg) (st : St) (hh : st.handler = false)
    (h4 : 400 ≤ st.status) (h6 : st.status < 600) :
    (writePrepare cfg st).status = st.status ∧ (writePrepare cfg st).keepAlive = st.keepAlive ∧
    (writePrepare cfg st).wq = (if cfg.head then [] else errorPage st.status) ∧
    (writePrepare cfg st).evs = st.evs ∧ (writePrepare cfg st).cstate = st.cstate ∧
    (writePrepare cfg st).open_ = st.open_ ∧ (writePrepare cfg st).finished = true := by
  obtain ⟨e1, e2, e3, e4, e5, e6, e7, e8, e9⟩ := staticErrdoc_proj st hh
  unfold writePrepare
  rw [wpStatus_errdoc st h4 h6, mergeTrailers_dc_none cfg _ e9]
  have hl : wpLength cfg (staticErrdoc st) = wpSetLength cfg (staticErrdoc st) := by simp [wpLength, e8]
  rw [hl]
  obtain ⟨a1, a2, a3, a4, a5, a6, a7, a8, a9⟩ := wpSetLength_proj cfg (staticErrdoc st)
  obtain ⟨b1, b2, b3, b4, b5, b6, b7, b8⟩ := wpHead_proj cfg (wpSetLength cfg (staticErrdoc st)) (by rw [a8, e8])
  refine ⟨by rw [b1, a1, e1], by rw [b2, a2, e2], by rw [b4, a4, e4], by rw [b5, a5, e5], by rw [b6, a6, e6],
          by rw [b7, a7, e7], b8⟩

/-- h1_send_headers(): the status line of the current status, the field lines, the empty line,
    then the queued body; nothing else that matters changes -/
theorem h1SendHeaders_proj (cfg : Cfg) (st : St) :
    (h1SendHeaders cfg st).wq =
        h1StatusLine cfg st.status ++ h1FieldLines (h1HeaderSet cfg st) ++ crlf ++ crlf ++ st.wq ∧
    (h1SendHeaders cfg st).status = st.status ∧ (h1SendHeaders cfg st).keepAlive = st.keepAlive ∧
    (h1SendHeaders cfg st).finished = st.finished ∧ (h1SendHeaders cfg st).evs = st.evs ∧
    (h1SendHeaders cfg st).open_ = st.open_ ∧ (h1SendHeaders cfg st).handler = st.handler :=
  ⟨rfl, rfl, rfl, rfl, rfl, rfl, rfl⟩

/-- response start on HTTP/1.x for a state whose body is complete after write-prepare -/
theorem startResponse_h1_finished (cfg : Cfg) (st : St) (hv : cfg.ver ≤ 1) (hst : st.status ≠ 0)
    (hf : (writePrepare cfg st).finished = true) :
    (startResponse cfg st).cstate = .done ∧
    (startResponse cfg st).status = (writePrepare cfg st).status ∧
    (startResponse cfg st).keepAlive = (writePrepare cfg st).keepAlive ∧
    (startResponse cfg st).evs = pushW (writePrepare cfg st).evs
      (h1StatusLine cfg (writePrepare cfg st).status ++
       h1FieldLines (h1HeaderSet cfg (writePrepare cfg st)) ++ crlf ++ crlf ++ (writePrepare cfg st).wq) := by
  have hv2 : ¬ (cfg.ver ≥ 2) := by omega
  unfold startResponse
  simp only [hst, if_false, hv2]
  simp [h1Progress, flush, h1SendHeaders, hf]


theorem onEnd_active (cfg : Cfg) (st : St) (e : End) (hc : st.cstate = .handle ∨ st.cstate = .write)
    (ho : st.open_ = true) (he : e ≠ .none) (hl : lostHandler st = false) :
    onEnd cfg st e = conStep cfg (gwRecvEnd cfg st e) := by
  unfold onEnd
  have hg : (st.cstate = .done || st.cstate = .redispatch || !st.open_ || e = .none) = false := by
    rcases hc with hc | hc <;> simp [hc, ho, he]
  rw [if_neg (by simpa using hg), if_neg (by simp [hl])]



/-! ## response header store -/

theorem hdrFind_append_none (hs : List (Bytes × Bytes)) (n k v : Bytes) (h : hdrFind hs n = none) :
    hdrFind (hs ++ [(k, v)]) n = if lower k = n then some (k, v) else none := by
  unfold hdrFind at h ⊢
  rw [List.find?_append, h]
  simp [List.find?]
  split <;> simp_all

theorem hdrFind_mapFirst (f : Bytes × Bytes → Bytes × Bytes) (n : Bytes) (hf : ∀ kv, (f kv).1 = kv.1) :
    ∀ hs, hdrFind (hdrMapFirst f n hs) n = (hdrFind hs n).map f := by
  intro hs
  induction hs with
  | nil => rfl
  | cons kv rest ih =>
    unfold hdrMapFirst
    by_cases h : lower kv.1 = n
    · simp [h, hdrFind, List.find?, hf]
    · simp only [h, if_false]
      unfold hdrFind at ih ⊢
      simp [List.find?, h, ih]

theorem hasHdr_hdrSet (hs : List (Bytes × Bytes)) (k v : Bytes) :
    hasHdr (hdrSet hs k v) (lower k) = !v.isEmpty := by
  unfold hdrSet hasHdr
  cases hf : hdrFind hs (lower k) with
  | none => simp [hdrFind_append_none hs (lower k) k v hf]
  | some kv =>
    simp only
    rw [hdrFind_mapFirst (fun kv => (kv.1, v)) (lower k) (fun _ => rfl), hf]
    simp

theorem hasHdr_hdrAppend (hs : List (Bytes × Bytes)) (k v : Bytes) (hv : v ≠ []) :
    hasHdr (hdrAppend hs k v) (lower k) = true := by
  have hv' : v.isEmpty = false := by cases v <;> simp_all
  unfold hdrAppend hasHdr
  simp only [hv', Bool.false_eq_true, if_false]
  cases hf : hdrFind hs (lower k) with
  | none => simp [hdrFind_append_none hs (lower k) k v hf, hv']
  | some kv =>
    simp only
    rw [hdrFind_mapFirst (fun kv => if kv.2.isEmpty then (kv.1, v) else (kv.1, kv.2 ++ [44, sp] ++ v)) (lower k)
        (by intro kv; split <;> rfl), hf]
    simp only [Option.map_some]
    split <;> simp_all

theorem decBytes_ne_nil (n : Nat) : decBytes n ≠ [] := by
  unfold decBytes decDigits
  split <;> simp

theorem lower_cl : lower (ofString "Content-Length") = nContentLength := by decide
theorem lower_te : lower (ofString "Transfer-Encoding") = nTransferEncoding := by decide

/-- **A kept-alive HTTP/1.x response always announces its length.**  After
    http_response_write_prepare(), for a response that carries a body (not HEAD, not 204/304),
    keep-alive survives only if Content-Length, Transfer-Encoding or Upgrade is set. -/
theorem writePrepare_keepalive_framed (cfg : Cfg) (st : St) (hv : cfg.ver ≤ 1) (hh : cfg.head = false)
    (hk : (writePrepare cfg st).keepAlive = true) :
    (writePrepare cfg st).status = 204 ∨ (writePrepare cfg st).status = 304 ∨
    hasHdr (writePrepare cfg st).headers nContentLength = true ∨
    hasHdr (writePrepare cfg st).headers nTransferEncoding = true ∨
    hasHdr (writePrepare cfg st).headers nUpgrade = true := by
  unfold writePrepare at hk ⊢
  generalize mergeTrailers cfg (wpStatus st) = s2 at hk ⊢
  have hhd : ∀ s, wpHead cfg s = s := by intro s; simp [wpHead, hh]
  rw [hhd] at hk ⊢
  unfold wpLength at hk ⊢
  by_cases hf : s2.finished = true
  · simp only [hf, if_true] at hk ⊢
    unfold wpSetLength at hk ⊢
    by_cases hn : noLen s2 = true
    · simp only [hn, if_true] at hk ⊢
      by_cases hq : s2.wq.length > 0
      · simp only [hq, if_true]
        right; right; left
        have := hasHdr_hdrSet s2.headers (ofString "Content-Length") (decBytes s2.wq.length)
        rw [lower_cl] at this
        simp [this, decBytes_ne_nil]
      · simp only [hq, if_false, hh]
        by_cases h2 : s2.status = 204
        · left; simp [h2]
        · by_cases h3 : s2.status = 304
          · right; left; simp [h2, h3]
          · right; right; left
            have := hasHdr_hdrSet s2.headers (ofString "Content-Length") (ofString "0")
            rw [lower_cl, show (!(ofString "0").isEmpty) = true by decide] at this
            simp only [h2, h3, ne_eq, not_false_eq_true, decide_true, Bool.not_false, Bool.and_self, if_true]
            exact this
    · simp only [hn, if_false] at hk ⊢
      simp only [noLen, Bool.and_eq_true, Bool.not_eq_true', not_and, Bool.not_eq_false] at hn
      by_cases hcl : hasHdr s2.headers nContentLength = true
      · right; right; left; exact hcl
      · right; right; right; left
        exact hn (by simpa using hcl)
  · have hv2 : ¬ (cfg.ver ≥ 2) := by omega
    simp only [hf, if_false, hv2] at hk ⊢
    unfold wpStartStreaming at hk ⊢
    by_cases hc : (noLen s2 && !hasHdr s2.headers nUpgrade) = true
    · simp only [hc, if_true] at hk ⊢
      by_cases h1 : cfg.ver = 1
      · simp only [h1, if_true]
        right; right; right; left
        have := hasHdr_hdrAppend s2.headers (ofString "Transfer-Encoding") (ofString "chunked") (by decide)
        rw [lower_te] at this
        simpa using this
      · simp [h1] at hk
    · simp only [hc, if_false] at hk ⊢
      simp only [noLen, Bool.and_eq_true, Bool.not_eq_true', not_and, Bool.not_eq_false] at hc
      by_cases hcl : hasHdr s2.headers nContentLength = true
      · right; right; left; exact hcl
      · by_cases hte : hasHdr s2.headers nTransferEncoding = true
        · right; right; right; left; exact hte
        · right; right; right; right
          exact hc ⟨by simpa using hcl, by simpa using hte⟩



theorem findIdx_skip (p : UInt8 → Bool) (k : Bytes) : ∀ (rest : Bytes) (i : Nat), (∀ b ∈ k, p b = false) →
    findIdx p (k ++ rest) i = findIdx p rest (i + k.length) := by
  induction k with
  | nil => intro rest i _; simp
  | cons x xs ih =>
    intro rest i h
    have hx : p x = false := h x (by simp)
    simp only [List.cons_append, findIdx, hx, Bool.false_eq_true, if_false]
    rw [ih rest (i + 1) (fun b hb => h b (by simp [hb]))]
    simp only [List.length_cons]
    congr 1
    omega

/-- names lighttpd treats specially in a backend response head -/
def specialNames : List Bytes :=
  [nStatus, nUpgrade, nConnection, nContentType, nContentLength, nTransferEncoding, nHttp2Settings]

/-- an ordinary end-to-end field as a backend may send it: `name ": " value CRLF` -/
structure PlainField (k v : Bytes) : Prop where
  kne : k ≠ []
  kcolon : ∀ b ∈ k, (b = colon) = false
  klast : endsWs k = false
  kspecial : lower k ∉ specialNames
  vne : v ≠ []
  vhead : isWs (v.headD 0) = false

def fieldLine (k v : Bytes) : Bytes := k ++ [colon, sp] ++ v ++ [cr, lf]

theorem fieldOfLine_fieldLine {k v : Bytes} (h : PlainField k v) : fieldOfLine (fieldLine k v) = some (k, v) := by
  unfold fieldOfLine fieldLine
  have hbody : (k ++ [colon, sp] ++ v ++ [cr, lf]).dropLast = k ++ (colon :: sp :: (v ++ [cr])) := by
    have : k ++ [colon, sp] ++ v ++ [cr, lf] = (k ++ (colon :: sp :: (v ++ [cr]))) ++ [lf] := by simp
    rw [this, List.dropLast_concat]
  simp only [hbody]
  rw [findIdx_skip (· = colon) k _ 0 (by intro b hb; simpa using h.kcolon b hb)]
  simp only [findIdx, decide_true, if_true, Nat.zero_add]
  have hk : k.isEmpty = false := by
    cases hk : k with
    | nil => exact absurd hk h.kne
    | cons a as => rfl
  have htake : (k ++ colon :: sp :: (v ++ [cr])).take k.length = k := by simp
  have hdrop : (k ++ colon :: sp :: (v ++ [cr])).drop (k.length + 1) = sp :: (v ++ [cr]) := by
    rw [List.drop_append]; simp
  simp only [htake, hk, Bool.false_eq_true, if_false, hdrop]
  obtain ⟨x, xs, hv⟩ : ∃ x xs, v = x :: xs := by
    cases v with
    | nil => exact absurd rfl h.vne
    | cons x xs => exact ⟨x, xs, rfl⟩
  have hx : isWs x = false := by simpa [hv] using h.vhead
  have hsp : isWs sp = true := by decide
  have hdw : (sp :: (v ++ [cr])).dropWhile isWs = v ++ [cr] := by
    rw [List.dropWhile_cons, if_pos hsp, hv, List.cons_append, List.dropWhile_cons, if_neg (by simp [hx])]
  rw [hdw]
  simp


theorem applyField_plain (cfg : Cfg) (st : St) {k v : Bytes} (h : PlainField k v) :
    applyField cfg st k v = { st with headers := hdrInsert (cfg.ver ≥ 2) st.headers k v } := by
  have hs := h.kspecial
  simp only [specialNames, List.mem_cons, List.not_mem_nil, or_false, not_or] at hs
  obtain ⟨h1, h2, h3, h4, h5, h6, h7⟩ := hs
  unfold applyField
  simp only [h1, h2, h3, h4, h5, h6, h7, if_false, h.klast, Bool.false_eq_true]

theorem applyLine_plain (cfg : Cfg) (st : St) {k v : Bytes} (h : PlainField k v) :
    applyLine cfg st (fieldLine k v) = { st with headers := hdrInsert (cfg.ver ≥ 2) st.headers k v } := by
  unfold applyLine
  rw [fieldOfLine_fieldLine h]
  exact applyField_plain cfg st h

/-- a fresh name is appended to the stored fields -/
theorem hdrInsert_fresh (h2 : Bool) (hs : List (Bytes × Bytes)) (k v : Bytes) (hv : v ≠ [])
    (hf : hdrFind hs (lower k) = none) : hdrInsert h2 hs k v = hs ++ [(k, v)] := by
  have hv' : v.isEmpty = false := by cases v <;> simp_all
  simp [hdrInsert, hv', hf]


theorem foldl_applyLine_plain (cfg : Cfg) (fs : List (Bytes × Bytes)) : ∀ (st : St),
    (∀ f ∈ fs, PlainField f.1 f.2) →
    (fs.map fun f => fieldLine f.1 f.2).foldl (applyLine cfg) st =
      { st with headers := fs.foldl (fun hs f => hdrInsert (cfg.ver ≥ 2) hs f.1 f.2) st.headers } := by
  induction fs with
  | nil => intro st _; rfl
  | cons f rest ih =>
    intro st h
    simp only [List.map_cons, List.foldl_cons]
    rw [applyLine_plain cfg st (h f (by simp)), ih _ (fun g hg => h g (by simp [hg]))]

theorem hdrFind_none_of_not_mem (hs : List (Bytes × Bytes)) (n : Bytes)
    (h : n ∉ hs.map fun kv => lower kv.1) : hdrFind hs n = none := by
  induction hs with
  | nil => rfl
  | cons kv rest ih =>
    simp only [List.map_cons, List.mem_cons, not_or] at h
    unfold hdrFind
    simp only [List.find?]
    have : (lower kv.1 = n) = False := by simp; exact fun e => h.1 e.symm
    simp only [this, decide_false]
    exact ih h.2

/-- fields with pairwise different (case-insensitive) names that are not yet stored are
    appended in order, name spelling and value untouched -/
theorem foldl_hdrInsert_fresh (h2 : Bool) (fs : List (Bytes × Bytes)) : ∀ (hs : List (Bytes × Bytes)),
    (∀ f ∈ fs, f.2 ≠ []) → ((hs ++ fs).map fun kv => lower kv.1).Nodup →
    fs.foldl (fun hs f => hdrInsert h2 hs f.1 f.2) hs = hs ++ fs := by
  induction fs with
  | nil => intro hs _ _; simp
  | cons f rest ih =>
    intro hs hv hnd
    simp only [List.foldl_cons]
    have hfresh : hdrFind hs (lower f.1) = none := by
      apply hdrFind_none_of_not_mem
      simp only [List.map_append, List.map_cons] at hnd
      have := List.nodup_append.mp hnd
      intro hmem
      exact this.2.2 _ hmem _ (by simp) rfl
    rw [hdrInsert_fresh h2 hs f.1 f.2 (hv f (by simp)) hfresh, ih _ (fun g hg => hv g (by simp [hg]))]
    · simp
    · simpa using hnd


theorem readPlain_incomplete (cfg : Cfg) (st st' : St) (seg : Bytes) (hs : st.started = false)
    (hp : headerStep cfg st seg = (st', .goOn))
    (hs' : st'.started = false) : readPlain cfg st seg = (st', .goOn) := by
  unfold readPlain
  rw [if_pos (by simp [hs]), hp]
  simp [hs']


theorem onData_incomplete (cfg : Cfg) (st st' : St) (seg : Bytes) (hbe : cfg.be ≠ .fcgi)
    (hc : st.cstate = .handle) (ho : st.open_ = true) (hs : st.started = false) (hh : st.handler = true)
    (hseg : seg ≠ [])
    (hp : headerStep cfg st seg = (st', .goOn))
    (hs' : st'.started = false) (hf' : st'.finished = false) (hc' : st'.cstate = .handle) (ho' : st'.open_ = true) :
    onData cfg st seg = st' := by
  have hseg' : seg.isEmpty = false := by cases seg <;> simp_all
  have hl : lostHandler st = false := by simp [lostHandler, hh]
  have hr : gwRecvData cfg st seg = st' := by
    unfold gwRecvData
    rw [if_neg hbe, readPlain_incomplete cfg st st' seg hs hp hs']
  unfold onData
  rw [if_neg (by simp [hc, ho, hseg']), if_neg (by simp [hl]), hr]
  simp [conStep, hc', handlerStarts, subrequestWaits, ho', hf', hs']


theorem headerStep_append (cfg : Cfg) (st : St) (a b : Bytes) :
    headerStep cfg { st with hbuf := st.hbuf ++ a } b = headerStep cfg st (a ++ b) := by
  simp [headerStep, List.append_assoc, Nat.add_assoc]


theorem chunkAppend_plain (st : St) (data : Bytes) (hsc : st.sendChunked = false) :
    chunkAppend st data = { st with wq := st.wq ++ data } := by
  unfold chunkAppend
  cases data with
  | nil => simp
  | cons x xs => simp [hsc]


/-- http_response_append_mem() without chunked decoding / encoding, in closed form -/
theorem appendMem_plain (st : St) (data : Bytes) (hd : st.decodeChunked = false) (hsc : st.sendChunked = false) :
    (appendMem st data).1 =
      if st.scratch > 0 then
        if st.scratch - (data.length : Int) ≤ 0 then
          { st with scratch := 0, finished := true, wq := st.wq ++ data.take st.scratch.toNat }
        else { st with scratch := st.scratch - data.length, wq := st.wq ++ data }
      else if st.scratch = 0 then st
      else { st with wq := st.wq ++ data } := by
  unfold appendMem
  rw [if_neg (by simp [hd])]
  by_cases h1 : st.scratch > 0
  · rw [if_pos h1, if_pos h1]
    by_cases h2 : st.scratch - (data.length : Int) ≤ 0
    · rw [if_pos h2, if_pos h2, chunkAppend_plain _ _ (by simpa using hsc)]
    · rw [if_neg h2, if_neg h2, chunkAppend_plain _ _ (by simpa using hsc)]
  · rw [if_neg h1, if_neg h1]
    by_cases h2 : st.scratch = 0
    · rw [if_pos h2, if_pos h2]
    · rw [if_neg h2, if_neg h2, chunkAppend_plain _ _ hsc]


end LtVerif.BeResp
