/-
  Helper lemmas for the C10 models: the backend chunked decoder (Model/HttpChunkDecode.lean),
  FastCGI record reassembly (Model/FcgiRecv.lean) and the relay composite (Model/BackendResp.lean).
-/
import LtVerif.Model.BackendResp
namespace LtVerif.BeResp
open LtVerif B

/-! ## backend chunked decoder -/

theorem dcFeed_nil (s : DcSt) : dcFeed s [] = s := rfl
theorem dcFeed_cons (s : DcSt) (b : UInt8) (bs : Bytes) : dcFeed s (b :: bs) = dcFeed (dcStep s b) bs := rfl
theorem dcFeed_append (s : DcSt) (a b : Bytes) : dcFeed s (a ++ b) = dcFeed (dcFeed s a) b := by
  simp [dcFeed, List.foldl_append]

/-- a chunk-size line (with its LF) that the decoder accepts for a chunk of `n` bytes: any
    spelling (leading zeros, upper/lower-case hex, BWS, chunk extensions) -/
structure DcGoodLine (l : Bytes) (n : Nat) : Prop where
  parse : dcParseLine l = some n
  pre : ∃ p, l = p ++ [lf] ∧ lf ∉ p
  short : l.length ≤ 1024

/-- `t` is what follows the last-chunk line `l` up to and including the first empty line -/
structure DcTrailerEnd (l t : Bytes) : Prop where
  nonempty : t ≠ []
  noNul : (l ++ t).contains 0 = false
  ends : endsCrlfCrlf (l ++ t) = true
  first : ∀ q r, t = q ++ r → r ≠ [] → q ≠ [] → endsCrlfCrlf (l ++ q) = false

theorem dcFeed_hdr_pre (p : Bytes) : ∀ (acc out : Bytes),
    lf ∉ p → acc.length + p.length < 1024 →
    dcFeed { mode := .hdr acc, out := out } p = { mode := .hdr (acc ++ p), out := out } := by
  induction p with
  | nil => intro acc out _ _; simp [dcFeed_nil]
  | cons b rest ih =>
    intro acc out hlf hlen
    have hb : b ≠ lf := fun e => hlf (by simp [e])
    have hrest : lf ∉ rest := fun e => hlf (by simp [e])
    simp only [List.length_cons] at hlen
    rw [dcFeed_cons]
    have hstep : dcStep { mode := .hdr acc, out := out } b = { mode := .hdr (acc ++ [b]), out := out } := by
      simp [dcStep, hb]
      omega
    rw [hstep, ih (acc ++ [b]) out hrest (by simp; omega)]
    simp

theorem dcFeed_goodline {l : Bytes} {n : Nat} (h : DcGoodLine l n) (hn : n ≠ 0) (out : Bytes) :
    dcFeed { mode := .hdr [], out := out } l = { mode := .data n, out := out } := by
  obtain ⟨p, hl, hlf⟩ := h.pre
  have hshort := h.short
  have hp := h.parse
  subst hl
  simp only [List.length_append, List.length_singleton] at hshort
  rw [dcFeed_append, dcFeed_hdr_pre p [] out hlf (by simp; omega)]
  simp only [List.nil_append, dcFeed_cons, dcFeed_nil]
  cases n with
  | zero => exact absurd rfl hn
  | succ k => simp [dcStep, hp]

theorem dcFeed_lastline {l : Bytes} (h : DcGoodLine l 0) (out : Bytes) :
    dcFeed { mode := .hdr [], out := out } l = { mode := .trailer l, out := out } := by
  obtain ⟨p, hl, hlf⟩ := h.pre
  have hshort := h.short
  have hp := h.parse
  subst hl
  simp only [List.length_append, List.length_singleton] at hshort
  rw [dcFeed_append, dcFeed_hdr_pre p [] out hlf (by simp; omega)]
  simp only [List.nil_append, dcFeed_cons, dcFeed_nil]
  simp [dcStep, hp]

theorem dcFeed_data (d : Bytes) : ∀ (n : Nat) (out : Bytes), d ≠ [] → d.length = n →
    dcFeed { mode := .data n, out := out } d = { mode := .cr, out := out ++ d } := by
  induction d with
  | nil => intro n out h; exact absurd rfl h
  | cons b rest ih =>
    intro n out _ hlen
    rw [dcFeed_cons]
    cases rest with
    | nil =>
      simp only [List.length_cons, List.length_nil] at hlen
      subst hlen
      simp [dcStep, dcFeed_nil]
    | cons c rest' =>
      simp only [List.length_cons] at hlen
      have hn : ¬ n ≤ 1 := by omega
      have hstep : dcStep { mode := .data n, out := out } b = { mode := .data (n - 1), out := out ++ [b] } := by
        simp [dcStep, hn]
      rw [hstep, ih (n - 1) (out ++ [b]) (by simp) (by simp; omega)]
      simp

theorem dcFeed_crlf (out : Bytes) :
    dcFeed { mode := .cr, out := out } [cr, lf] = { mode := .hdr [], out := out } := by
  simp [dcFeed_cons, dcFeed_nil, dcStep]

theorem dcFeed_chunk {l d : Bytes} (h : DcGoodLine l d.length) (hd : d ≠ []) (out : Bytes) :
    dcFeed { mode := .hdr [], out := out } (l ++ d ++ [cr, lf]) = { mode := .hdr [], out := out ++ d } := by
  have hn : d.length ≠ 0 := fun e => hd (List.length_eq_zero_iff.mp e)
  rw [dcFeed_append, dcFeed_append, dcFeed_goodline h hn, dcFeed_data d d.length out hd rfl, dcFeed_crlf]

/-- the trailer section is consumed up to its first empty line -/
theorem dcFeed_trailer (out : Bytes) : ∀ (t acc : Bytes), t ≠ [] →
    (acc ++ t).contains 0 = false → endsCrlfCrlf (acc ++ t) = true →
    (∀ q r, t = q ++ r → r ≠ [] → q ≠ [] → endsCrlfCrlf (acc ++ q) = false) →
    dcFeed { mode := .trailer acc, out := out } t = { mode := .done (acc ++ t), out := out } := by
  intro t
  induction t with
  | nil => intro acc h; exact absurd rfl h
  | cons b rest ih =>
    intro acc _ hnul hend hfirst
    rw [dcFeed_cons]
    cases rest with
    | nil =>
      have hn' : ¬ (0 : UInt8) ∈ acc ∧ ¬ (0 : UInt8) = b := by simpa using hnul
      simp [dcStep, dcFeed_nil, hend, hn'.1, hn'.2]
    | cons c rest' =>
      have hq : endsCrlfCrlf (acc ++ [b]) = false := hfirst [b] (c :: rest') rfl (by simp) (by simp)
      have hstep : dcStep { mode := .trailer acc, out := out } b
          = { mode := .trailer (acc ++ [b]), out := out } := by
        simp [dcStep, hq]
      rw [hstep, ih (acc ++ [b]) (by simp) (by simpa using hnul) (by simpa using hend)]
      · simp
      · intro q r hqr hr _
        have := hfirst (b :: q) r (by simp [hqr]) hr (by simp)
        simpa using this

theorem dcFeed_final {l t : Bytes} (hl : DcGoodLine l 0) (ht : DcTrailerEnd l t) (out : Bytes) :
    dcFeed { mode := .hdr [], out := out } (l ++ t) = { mode := .done (l ++ t), out := out } := by
  rw [dcFeed_append, dcFeed_lastline hl]
  exact dcFeed_trailer out t l ht.nonempty ht.noNul ht.ends ht.first

theorem dcFeed_err (bs : Bytes) (out : Bytes) : dcFeed { mode := .err, out := out } bs = { mode := .err, out := out } := by
  induction bs with
  | nil => rfl
  | cons b rest ih => rw [dcFeed_cons]; simpa [dcStep] using ih

theorem dcFeed_done_excess (acc out : Bytes) (bs : Bytes) (h : bs ≠ []) :
    dcFeed { mode := .done acc, out := out } bs = { mode := .err, out := out } := by
  cases bs with
  | nil => exact absurd rfl h
  | cons b rest => rw [dcFeed_cons]; simpa [dcStep] using dcFeed_err rest out


/-! ## FastCGI record reassembly -/

theorem frFeed_nil (s : FrSt) : frFeed s [] = s := rfl
theorem frFeed_cons (s : FrSt) (b : UInt8) (bs : Bytes) : frFeed s (b :: bs) = frFeed (frStep s b) bs := rfl
theorem frFeed_append (s : FrSt) (a b : Bytes) : frFeed s (a ++ b) = frFeed (frFeed s a) b := by
  simp [frFeed, List.foldl_append]

/-- between records: no partial record pending, request not ended -/
def FrIdle (s : FrSt) : Prop :=
  s.hdr = [] ∧ s.inRec = false ∧ s.ended = false ∧ s.got = 0 ∧ s.acc = [] ∧ s.need = 0 ∧ s.pad = 0 ∧ s.typ = 0

theorem toUInt8_toNat_of_lt {n : Nat} (h : n < 256) : n.toUInt8.toNat = n := by
  simp [Nat.toUInt8, UInt8.toNat, UInt8.ofNat]
  omega

/-- content bytes are collected (most recent first) as long as the record is not complete -/
theorem frFeed_content (c : Bytes) : ∀ (s : FrSt), s.ended = false → s.inRec = true →
    c.length < s.need ∨ (c.length = s.need ∧ s.pad > 0) →
    frFeed s c = { s with need := s.need - c.length, acc := c.reverse ++ s.acc, got := s.got + c.length } := by
  induction c with
  | nil => intro s _ _ _; simp [frFeed_nil]
  | cons b rest ih =>
    intro s he hi hn
    rw [frFeed_cons]
    simp only [List.length_cons] at hn
    have hstep : frStep s b = { s with need := s.need - 1, acc := b :: s.acc, got := s.got + 1 } := by
      unfold frStep
      simp only [he, hi]
      rcases hn with hn | ⟨hn, hp⟩
      · have h1 : s.need > 0 := by omega
        have h2 : ¬ (s.need = 1) := by omega
        simp [h1, h2]
      · have h1 : s.need > 0 := by omega
        have : ¬ (s.pad = 0) := by omega
        simp [h1, this]
    rw [hstep, ih]
    · simp; constructor <;> omega
    · exact he
    · exact hi
    · rcases hn with hn | ⟨hn, hp⟩
      · left; simp; omega
      · right; simp; constructor <;> omega

/-- padding bytes are skipped as long as the record is not complete -/
theorem frFeed_pad (p : Bytes) : ∀ (s : FrSt), s.ended = false → s.inRec = true → s.need = 0 →
    p.length < s.pad →
    frFeed s p = { s with pad := s.pad - p.length, got := s.got + p.length } := by
  induction p with
  | nil => intro s _ _ _ _; simp [frFeed_nil]
  | cons b rest ih =>
    intro s he hi hn hp
    rw [frFeed_cons]
    simp only [List.length_cons] at hp
    have hstep : frStep s b = { s with pad := s.pad - 1, got := s.got + 1 } := by
      unfold frStep
      have : ¬ (s.pad ≤ 1) := by omega
      simp [he, hi, hn, this]
    rw [hstep, ih]
    · simp; constructor <;> omega
    · exact he
    · exact hi
    · exact hn
    · simp; omega

/-- the state after a completed record -/
def frAfter (s : FrSt) (t : UInt8) (content : Bytes) : FrSt :=
  { hdr := [], inRec := false, typ := 0, need := 0, pad := 0, acc := [], got := 0,
    ended := frEvent t content = .endRequest, evs := s.evs ++ [frEvent t content] }

theorem frFeed_header (s : FrSt) (t : UInt8) (rid clen plen : Nat) (x : UInt8)
    (h0 : s.hdr = []) (hi : s.inRec = false) (he : s.ended = false)
    (hc : clen < 65536) (hp : plen < 256) :
    frFeed s [1, t, (rid / 256).toUInt8, (rid % 256).toUInt8, (clen / 256).toUInt8, (clen % 256).toUInt8,
              plen.toUInt8, x]
      = if clen + plen = 0 then frAfter s t []
        else { s with hdr := [], inRec := true, typ := t, need := clen, pad := plen, acc := [], got := s.got + 8 } := by
  have h1 : (clen / 256).toUInt8.toNat = clen / 256 := toUInt8_toNat_of_lt (by omega)
  have h2 : (clen % 256).toUInt8.toNat = clen % 256 := toUInt8_toNat_of_lt (by omega)
  have h3 : plen.toUInt8.toNat = plen := toUInt8_toNat_of_lt hp
  have h4 : clen / 256 * 256 + clen % 256 = clen := by omega
  simp only [frFeed_cons, frFeed_nil]
  simp [frStep, h0, hi, he, h1, h2, h3, h4, frEmit, frAfter]


theorem frFeed_record (s : FrSt) (t : UInt8) (rid : Nat) (content pad : Bytes)
    (h0 : s.hdr = []) (hi : s.inRec = false) (he : s.ended = false)
    (hc : content.length < 65536) (hp : pad.length < 256) :
    frFeed s (frEncode t rid content pad) = frAfter s t content := by
  unfold frEncode
  rw [frFeed_append, frFeed_append, frFeed_header s t rid content.length pad.length 0 h0 hi he hc hp]
  rcases List.eq_nil_or_concat pad with hpad | ⟨pinit, plast, hpad⟩
  · -- no padding
    subst hpad
    rcases List.eq_nil_or_concat content with hcon | ⟨cinit, clast, hcon⟩
    · subst hcon; simp [frFeed_nil]
    · rw [List.concat_eq_append] at hcon
      subst hcon
      have hne : ¬ ((cinit ++ [clast]).length + ([] : Bytes).length = 0) := by simp
      rw [if_neg hne, frFeed_append, frFeed_content cinit _ (by simpa using he) (by simp) (by left; simp)]
      simp [frFeed_cons, frFeed_nil, frStep, he, frEmit, frAfter]
  · rw [List.concat_eq_append] at hpad
    subst hpad
    have hne : ¬ (content.length + (pinit ++ [plast]).length = 0) := by simp
    rw [if_neg hne, frFeed_content content _ (by simpa using he) (by simp) (by right; simp),
        frFeed_append, frFeed_pad pinit _ (by simpa using he) (by simp) (by simp) (by simp)]
    simp [frFeed_cons, frFeed_nil, frStep, he, frEmit, frAfter]

theorem frAfter_idle (s : FrSt) (t : UInt8) (c : Bytes) (h : frEvent t c ≠ .endRequest) :
    (frAfter s t c).hdr = [] ∧ (frAfter s t c).inRec = false ∧ (frAfter s t c).ended = false := by
  simp [frAfter, h]

/-- after END_REQUEST nothing is parsed any more -/
theorem frFeed_ended (bs : Bytes) (s : FrSt) (h : s.ended = true) : frFeed s bs = s := by
  induction bs with
  | nil => rfl
  | cons b rest ih => rw [frFeed_cons]; simp [frStep, h, ih]


/-- fewer than 8 header bytes: nothing happens yet -/
theorem frFeed_hdr_partial (r : Bytes) : ∀ (s : FrSt), s.inRec = false → s.ended = false →
    s.hdr.length + r.length < 8 →
    frFeed s r = { s with hdr := s.hdr ++ r, got := s.got + r.length } := by
  induction r with
  | nil => intro s _ _ _; simp [frFeed_nil]
  | cons b rest ih =>
    intro s hi he hl
    rw [frFeed_cons]
    simp only [List.length_cons] at hl
    have hstep : frStep s b = { s with hdr := s.hdr ++ [b], got := s.got + 1 } := by
      unfold frStep
      have : s.hdr.length + 1 < 8 := by omega
      simp [hi, he, this]
    rw [hstep, ih]
    · simp; omega
    · exact hi
    · exact he
    · simp; omega

/-- a record that is not yet complete produces no event and does not end the request -/
theorem frFeed_partial_record (s : FrSt) (t : UInt8) (rid : Nat) (content pad : Bytes) (k : Nat)
    (h0 : s.hdr = []) (hi : s.inRec = false) (he : s.ended = false)
    (hc : content.length < 65536) (hp : pad.length < 256)
    (hk : k < (frEncode t rid content pad).length) :
    (frFeed s ((frEncode t rid content pad).take k)).ended = false ∧
    (frFeed s ((frEncode t rid content pad).take k)).evs = s.evs := by
  unfold frEncode at hk ⊢
  simp only [List.length_append, List.length_cons, List.length_nil] at hk
  by_cases hk8 : k < 8
  · -- inside the header
    rw [List.append_assoc, List.take_append_of_le_length (by simp; omega)]
    rw [frFeed_hdr_partial _ s hi he (by simp [h0]; omega)]
    simp [he]
  · have hk8' : 8 ≤ k := by omega
    rw [List.append_assoc, List.take_append, List.take_of_length_le (by simp; omega), frFeed_append,
        frFeed_header s t rid content.length pad.length 0 h0 hi he hc hp]
    have hne : ¬ (content.length + pad.length = 0) := by omega
    rw [if_neg hne]
    simp only [List.length_cons, List.length_nil]
    generalize hj : k - (0 + 1 + 1 + 1 + 1 + 1 + 1 + 1 + 1) = j
    have hjlt : j < content.length + pad.length := by omega
    generalize hs1 : ({ s with hdr := [], inRec := true, typ := t, need := content.length, pad := pad.length,
                               acc := [], got := s.got + 8 } : FrSt) = s1
    have e1 : s1.ended = false := by rw [← hs1]; exact he
    have i1 : s1.inRec = true := by rw [← hs1]
    have n1 : s1.need = content.length := by rw [← hs1]
    have p1 : s1.pad = pad.length := by rw [← hs1]
    have v1 : s1.evs = s.evs := by rw [← hs1]
    by_cases hjc : j ≤ content.length
    · rw [List.take_append_of_le_length hjc]
      rw [frFeed_content _ s1 e1 i1 (by
        simp only [List.length_take]
        by_cases hj2 : j < content.length
        · left; omega
        · right; omega)]
      simp [e1, v1]
    · rw [List.take_append, List.take_of_length_le (by omega), frFeed_append]
      rw [frFeed_content _ s1 e1 i1 (by right; omega)]
      rw [frFeed_pad _ _ (by simpa using e1) (by simpa using i1) (by simp; omega) (by simp; omega)]
      simp [e1, v1]


/-- a FastCGI record as the backend writes it -/
structure FrRec where
  typ : UInt8
  rid : Nat
  content : Bytes
  pad : Bytes

def FrRec.ok (r : FrRec) : Prop := r.content.length < 65536 ∧ r.pad.length < 256
def FrRec.enc (r : FrRec) : Bytes := frEncode r.typ r.rid r.content r.pad
def FrRec.ev (r : FrRec) : FrEv := frEvent r.typ r.content

theorem frFeed_records (rs : List FrRec) : ∀ (s : FrSt), s.hdr = [] → s.inRec = false → s.ended = false →
    (∀ r ∈ rs, r.ok ∧ r.ev ≠ .endRequest) →
    (frFeed s (rs.flatMap FrRec.enc)).hdr = [] ∧ (frFeed s (rs.flatMap FrRec.enc)).inRec = false ∧
    (frFeed s (rs.flatMap FrRec.enc)).ended = false ∧
    (frFeed s (rs.flatMap FrRec.enc)).evs = s.evs ++ rs.map FrRec.ev := by
  induction rs with
  | nil => intro s h0 hi he _; simp [frFeed_nil, h0, hi, he]
  | cons r rest ih =>
    intro s h0 hi he hall
    have hr := hall r (by simp)
    have hrest : ∀ x ∈ rest, x.ok ∧ x.ev ≠ .endRequest := fun x hx => hall x (by simp [hx])
    simp only [List.flatMap_cons, frFeed_append]
    have hrec : frFeed s r.enc = frAfter s r.typ r.content :=
      frFeed_record s r.typ r.rid r.content r.pad h0 hi he hr.1.1 hr.1.2
    rw [hrec]
    obtain ⟨a, b, c⟩ := frAfter_idle s r.typ r.content hr.2
    obtain ⟨i1, i2, i3, i4⟩ := ih (frAfter s r.typ r.content) a b c hrest
    refine ⟨i1, i2, i3, ?_⟩
    rw [i4]
    simp [frAfter, FrRec.ev]


/-! ## relay composite -/

/-! ## relay composite: end-of-stream classification and response start -/

theorem gwRecvEnd_pre (cfg : Cfg) (st : St) (e : End)
    (hc : st.cstate = .handle) (hs : st.started = false)
    (hh : st.handler = true) (hst : st.status = 0) (he : e ≠ .none) (hfe : st.fcgi.ended = false) :
    gwRecvEnd cfg st e = { st with open_ := false, status := 500, handler := false } := by
  cases e <;> simp [gwRecvEnd, gwBackendError, gwClose, backendError, backendDone, hc, hs, hh, hst, hfe] at he ⊢

/-- the fields of the state the error document leaves alone -/
theorem staticErrdoc_proj (st : St) (hh : st.handler = false) :
    (staticErrdoc st).status = st.status ∧ (staticErrdoc st).keepAlive = st.keepAlive ∧
    (staticErrdoc st).handler = false ∧ (staticErrdoc st).wq = errorPage st.status ∧
    (staticErrdoc st).evs = st.evs ∧ (staticErrdoc st).cstate = st.cstate ∧
    (staticErrdoc st).open_ = st.open_ ∧ (staticErrdoc st).finished = true ∧ (staticErrdoc st).dc = none := by
  unfold staticErrdoc
  simp only [hh, Bool.false_eq_true, if_false]
  split <;> simp [bodyClear]

theorem wpStatus_errdoc (st : St) (h4 : 400 ≤ st.status) (h6 : st.status < 600) :
    wpStatus st = staticErrdoc st := by
  have n1 : ¬ (st.status = 204 ∨ st.status = 205) := by omega
  have n2 : ¬ (st.status = 304) := by omega
  have n3 : ¬ (st.status = 200) := by omega
  simp [wpStatus, n1, n2, n3, h4, h6]

theorem mergeTrailers_dc_none (cfg : Cfg) (st : St) (h : st.dc = none) : mergeTrailers cfg st = st := by
  simp [mergeTrailers, h]

/-- announcing the length only touches the header fields -/
theorem wpSetLength_proj (cfg : Cfg) (st : St) :
    (wpSetLength cfg st).status = st.status ∧ (wpSetLength cfg st).keepAlive = st.keepAlive ∧
    (wpSetLength cfg st).handler = st.handler ∧ (wpSetLength cfg st).wq = st.wq ∧
    (wpSetLength cfg st).evs = st.evs ∧ (wpSetLength cfg st).cstate = st.cstate ∧
    (wpSetLength cfg st).open_ = st.open_ ∧ (wpSetLength cfg st).finished = st.finished ∧
    (wpSetLength cfg st).sendChunked = st.sendChunked := by
  unfold wpSetLength
  (repeat' split) <;> simp

theorem wpHead_proj (cfg : Cfg) (st : St) (hf : st.finished = true) :
    (wpHead cfg st).status = st.status ∧ (wpHead cfg st).keepAlive = st.keepAlive ∧
    (wpHead cfg st).handler = st.handler ∧ (wpHead cfg st).wq = (if cfg.head then [] else st.wq) ∧
    (wpHead cfg st).evs = st.evs ∧ (wpHead cfg st).cstate = st.cstate ∧
    (wpHead cfg st).open_ = st.open_ ∧ (wpHead cfg st).finished = true := by
  unfold wpHead
  split <;> simp_all [bodyClear]

/-- http_response_write_prepare() for a response lighttpd answers itself with an error document -/
theorem writePrepare_errdoc (cfg : Cfg) (st : St) (hh : st.handler = false)
    (h4 : 400 ≤ st.status) (h6 : st.status < 600) :
    (writePrepare cfg st).status = st.status ∧ (writePrepare cfg st).keepAlive = st.keepAlive ∧
    (writePrepare cfg st).wq = (if cfg.head then [] else errorPage st.status) ∧
    (writePrepare cfg st).evs = st.evs ∧ (writePrepare cfg st).cstate = st.cstate ∧
    (writePrepare cfg st).open_ = st.open_ ∧ (writePrepare cfg st).finished = true := by
  obtain ⟨e1, e2, e3, e4, e5, e6, e7, e8, e9⟩ := staticErrdoc_proj st hh
  unfold writePrepare
  rw [wpStatus_errdoc st h4 h6, mergeTrailers_dc_none cfg _ e9]
  have hl : wpLength cfg (staticErrdoc st) = wpSetLength cfg (staticErrdoc st) := by simp [wpLength, e8]
  rw [hl]
  obtain ⟨a1, a2, a3, a4, a5, a6, a7, a8, a9⟩ := wpSetLength_proj cfg (staticErrdoc st)
  obtain ⟨b1, b2, b3, b4, b5, b6, b7, b8⟩ := wpHead_proj cfg (wpSetLength cfg (staticErrdoc st)) (by rw [a8, e8])
  refine ⟨by rw [b1, a1, e1], by rw [b2, a2, e2], by rw [b4, a4, e4], by rw [b5, a5, e5], by rw [b6, a6, e6],
          by rw [b7, a7, e7], b8⟩

/-- h1_send_headers(): the status line of the current status, the field lines, the empty line,
    then the queued body; nothing else that matters changes -/
theorem h1SendHeaders_proj (cfg : Cfg) (st : St) :
    (h1SendHeaders cfg st).wq =
        h1StatusLine cfg st.status ++ h1FieldLines (h1HeaderSet cfg st) ++ crlf ++ crlf ++ st.wq ∧
    (h1SendHeaders cfg st).status = st.status ∧ (h1SendHeaders cfg st).keepAlive = st.keepAlive ∧
    (h1SendHeaders cfg st).finished = st.finished ∧ (h1SendHeaders cfg st).evs = st.evs ∧
    (h1SendHeaders cfg st).open_ = st.open_ ∧ (h1SendHeaders cfg st).handler = st.handler :=
  ⟨rfl, rfl, rfl, rfl, rfl, rfl, rfl⟩

/-- response start on HTTP/1.x for a state whose body is complete after write-prepare -/
theorem startResponse_h1_finished (cfg : Cfg) (st : St) (hv : cfg.ver ≤ 1) (hst : st.status ≠ 0)
    (hf : (writePrepare cfg st).finished = true) :
    (startResponse cfg st).cstate = .done ∧
    (startResponse cfg st).status = (writePrepare cfg st).status ∧
    (startResponse cfg st).keepAlive = (writePrepare cfg st).keepAlive ∧
    (startResponse cfg st).evs = pushW (writePrepare cfg st).evs
      (h1StatusLine cfg (writePrepare cfg st).status ++
       h1FieldLines (h1HeaderSet cfg (writePrepare cfg st)) ++ crlf ++ crlf ++ (writePrepare cfg st).wq) := by
  have hv2 : ¬ (cfg.ver ≥ 2) := by omega
  unfold startResponse
  simp only [hst, if_false, hv2]
  simp [h1Progress, flush, h1SendHeaders, hf]


theorem onEnd_active (cfg : Cfg) (st : St) (e : End) (hc : st.cstate = .handle ∨ st.cstate = .write)
    (ho : st.open_ = true) (he : e ≠ .none) (hl : lostHandler st = false) :
    onEnd cfg st e = conStep cfg (gwRecvEnd cfg st e) := by
  unfold onEnd
  have hg : (st.cstate = .done || st.cstate = .redispatch || !st.open_ || e = .none) = false := by
    rcases hc with hc | hc <;> simp [hc, ho, he]
  rw [if_neg (by simpa using hg), if_neg (by simp [hl])]



/-! ## response header store -/

theorem hdrFind_append_none (hs : List (Bytes × Bytes)) (n k v : Bytes) (h : hdrFind hs n = none) :
    hdrFind (hs ++ [(k, v)]) n = if lower k = n then some (k, v) else none := by
  unfold hdrFind at h ⊢
  rw [List.find?_append, h]
  simp [List.find?]
  split <;> simp_all

theorem hdrFind_mapFirst (f : Bytes × Bytes → Bytes × Bytes) (n : Bytes) (hf : ∀ kv, (f kv).1 = kv.1) :
    ∀ hs, hdrFind (hdrMapFirst f n hs) n = (hdrFind hs n).map f := by
  intro hs
  induction hs with
  | nil => rfl
  | cons kv rest ih =>
    unfold hdrMapFirst
    by_cases h : lower kv.1 = n
    · simp [h, hdrFind, List.find?, hf]
    · simp only [h, if_false]
      unfold hdrFind at ih ⊢
      simp [List.find?, h, ih]

theorem hasHdr_hdrSet (hs : List (Bytes × Bytes)) (k v : Bytes) :
    hasHdr (hdrSet hs k v) (lower k) = !v.isEmpty := by
  unfold hdrSet hasHdr
  cases hf : hdrFind hs (lower k) with
  | none => simp [hdrFind_append_none hs (lower k) k v hf]
  | some kv =>
    simp only
    rw [hdrFind_mapFirst (fun kv => (kv.1, v)) (lower k) (fun _ => rfl), hf]
    simp

theorem hasHdr_hdrAppend (hs : List (Bytes × Bytes)) (k v : Bytes) (hv : v ≠ []) :
    hasHdr (hdrAppend hs k v) (lower k) = true := by
  have hv' : v.isEmpty = false := by cases v <;> simp_all
  unfold hdrAppend hasHdr
  simp only [hv', Bool.false_eq_true, if_false]
  cases hf : hdrFind hs (lower k) with
  | none => simp [hdrFind_append_none hs (lower k) k v hf, hv']
  | some kv =>
    simp only
    rw [hdrFind_mapFirst (fun kv => if kv.2.isEmpty then (kv.1, v) else (kv.1, kv.2 ++ [44, sp] ++ v)) (lower k)
        (by intro kv; split <;> rfl), hf]
    simp only [Option.map_some]
    split <;> simp_all

theorem decBytes_ne_nil (n : Nat) : decBytes n ≠ [] := by
  unfold decBytes decDigits
  split <;> simp

theorem lower_cl : lower (ofString "Content-Length") = nContentLength := by decide
theorem lower_te : lower (ofString "Transfer-Encoding") = nTransferEncoding := by decide

/-- **A kept-alive HTTP/1.x response always announces its length.**  After
    http_response_write_prepare(), for a response that carries a body (not HEAD, not 204/304),
    keep-alive survives only if Content-Length, Transfer-Encoding or Upgrade is set. -/
theorem writePrepare_keepalive_framed (cfg : Cfg) (st : St) (hv : cfg.ver ≤ 1) (hh : cfg.head = false)
    (hk : (writePrepare cfg st).keepAlive = true) :
    (writePrepare cfg st).status = 204 ∨ (writePrepare cfg st).status = 304 ∨
    hasHdr (writePrepare cfg st).headers nContentLength = true ∨
    hasHdr (writePrepare cfg st).headers nTransferEncoding = true ∨
    hasHdr (writePrepare cfg st).headers nUpgrade = true := by
  unfold writePrepare at hk ⊢
  generalize mergeTrailers cfg (wpStatus st) = s2 at hk ⊢
  have hhd : ∀ s, wpHead cfg s = s := by intro s; simp [wpHead, hh]
  rw [hhd] at hk ⊢
  unfold wpLength at hk ⊢
  by_cases hf : s2.finished = true
  · simp only [hf, if_true] at hk ⊢
    unfold wpSetLength at hk ⊢
    by_cases hn : noLen s2 = true
    · simp only [hn, if_true] at hk ⊢
      by_cases hq : s2.wq.length > 0
      · simp only [hq, if_true]
        right; right; left
        have := hasHdr_hdrSet s2.headers (ofString "Content-Length") (decBytes s2.wq.length)
        rw [lower_cl] at this
        simp [this, decBytes_ne_nil]
      · simp only [hq, if_false, hh]
        by_cases h2 : s2.status = 204
        · left; simp [h2]
        · by_cases h3 : s2.status = 304
          · right; left; simp [h2, h3]
          · right; right; left
            have := hasHdr_hdrSet s2.headers (ofString "Content-Length") (ofString "0")
            rw [lower_cl, show (!(ofString "0").isEmpty) = true by decide] at this
            simp only [h2, h3, ne_eq, not_false_eq_true, decide_true, Bool.not_false, Bool.and_self, if_true]
            exact this
    · simp only [hn, if_false] at hk ⊢
      simp only [noLen, Bool.and_eq_true, Bool.not_eq_true', not_and, Bool.not_eq_false] at hn
      by_cases hcl : hasHdr s2.headers nContentLength = true
      · right; right; left; exact hcl
      · right; right; right; left
        exact hn (by simpa using hcl)
  · have hv2 : ¬ (cfg.ver ≥ 2) := by omega
    simp only [hf, if_false, hv2] at hk ⊢
    unfold wpStartStreaming at hk ⊢
    by_cases hc : (noLen s2 && !hasHdr s2.headers nUpgrade) = true
    · simp only [hc, if_true] at hk ⊢
      by_cases h1 : cfg.ver = 1
      · simp only [h1, if_true]
        right; right; right; left
        have := hasHdr_hdrAppend s2.headers (ofString "Transfer-Encoding") (ofString "chunked") (by decide)
        rw [lower_te] at this
        simpa using this
      · simp [h1] at hk
    · simp only [hc, if_false] at hk ⊢
      simp only [noLen, Bool.and_eq_true, Bool.not_eq_true', not_and, Bool.not_eq_false] at hc
      by_cases hcl : hasHdr s2.headers nContentLength = true
      · right; right; left; exact hcl
      · by_cases hte : hasHdr s2.headers nTransferEncoding = true
        · right; right; right; left; exact hte
        · right; right; right; right
          exact hc ⟨by simpa using hcl, by simpa using hte⟩



theorem findIdx_skip (p : UInt8 → Bool) (k : Bytes) : ∀ (rest : Bytes) (i : Nat), (∀ b ∈ k, p b = false) →
    findIdx p (k ++ rest) i = findIdx p rest (i + k.length) := by
  induction k with
  | nil => intro rest i _; simp
  | cons x xs ih =>
    intro rest i h
    have hx : p x = false := h x (by simp)
    simp only [List.cons_append, findIdx, hx, Bool.false_eq_true, if_false]
    rw [ih rest (i + 1) (fun b hb => h b (by simp [hb]))]
    simp only [List.length_cons]
    congr 1
    omega

/-- names lighttpd treats specially in a backend response head -/
def specialNames : List Bytes :=
  [nStatus, nUpgrade, nConnection, nContentType, nContentLength, nTransferEncoding, nHttp2Settings]

/-- an ordinary end-to-end field as a backend may send it: `name ": " value CRLF` -/
structure PlainField (k v : Bytes) : Prop where
  kne : k ≠ []
  kcolon : ∀ b ∈ k, (b = colon) = false
  klast : endsWs k = false
  kspecial : lower k ∉ specialNames
  vne : v ≠ []
  vhead : isWs (v.headD 0) = false

def fieldLine (k v : Bytes) : Bytes := k ++ [colon, sp] ++ v ++ [cr, lf]

theorem fieldOfLine_fieldLine {k v : Bytes} (h : PlainField k v) : fieldOfLine (fieldLine k v) = some (k, v) := by
  unfold fieldOfLine fieldLine
  have hbody : (k ++ [colon, sp] ++ v ++ [cr, lf]).dropLast = k ++ (colon :: sp :: (v ++ [cr])) := by
    have : k ++ [colon, sp] ++ v ++ [cr, lf] = (k ++ (colon :: sp :: (v ++ [cr]))) ++ [lf] := by simp
    rw [this, List.dropLast_concat]
  simp only [hbody]
  rw [findIdx_skip (· = colon) k _ 0 (by intro b hb; simpa using h.kcolon b hb)]
  simp only [findIdx, decide_true, if_true, Nat.zero_add]
  have hk : k.isEmpty = false := by
    cases hk : k with
    | nil => exact absurd hk h.kne
    | cons a as => rfl
  have htake : (k ++ colon :: sp :: (v ++ [cr])).take k.length = k := by simp
  have hdrop : (k ++ colon :: sp :: (v ++ [cr])).drop (k.length + 1) = sp :: (v ++ [cr]) := by
    rw [List.drop_append]; simp
  simp only [htake, hk, Bool.false_eq_true, if_false, hdrop]
  obtain ⟨x, xs, hv⟩ : ∃ x xs, v = x :: xs := by
    cases v with
    | nil => exact absurd rfl h.vne
    | cons x xs => exact ⟨x, xs, rfl⟩
  have hx : isWs x = false := by simpa [hv] using h.vhead
  have hsp : isWs sp = true := by decide
  have hdw : (sp :: (v ++ [cr])).dropWhile isWs = v ++ [cr] := by
    rw [List.dropWhile_cons, if_pos hsp, hv, List.cons_append, List.dropWhile_cons, if_neg (by simp [hx])]
  rw [hdw]
  simp


theorem applyField_plain (cfg : Cfg) (st : St) {k v : Bytes} (h : PlainField k v) :
    applyField cfg st k v = { st with headers := hdrInsert (cfg.ver ≥ 2) st.headers k v } := by
  have hs := h.kspecial
  simp only [specialNames, List.mem_cons, List.not_mem_nil, or_false, not_or] at hs
  obtain ⟨h1, h2, h3, h4, h5, h6, h7⟩ := hs
  unfold applyField
  simp only [h1, h2, h3, h4, h5, h6, h7, if_false, h.klast, Bool.false_eq_true]

theorem applyLine_plain (cfg : Cfg) (st : St) {k v : Bytes} (h : PlainField k v) :
    applyLine cfg st (fieldLine k v) = { st with headers := hdrInsert (cfg.ver ≥ 2) st.headers k v } := by
  unfold applyLine
  rw [fieldOfLine_fieldLine h]
  exact applyField_plain cfg st h

/-- a fresh name is appended to the stored fields -/
theorem hdrInsert_fresh (h2 : Bool) (hs : List (Bytes × Bytes)) (k v : Bytes) (hv : v ≠ [])
    (hf : hdrFind hs (lower k) = none) : hdrInsert h2 hs k v = hs ++ [(k, v)] := by
  have hv' : v.isEmpty = false := by cases v <;> simp_all
  simp [hdrInsert, hv', hf]


theorem foldl_applyLine_plain (cfg : Cfg) (fs : List (Bytes × Bytes)) : ∀ (st : St),
    (∀ f ∈ fs, PlainField f.1 f.2) →
    (fs.map fun f => fieldLine f.1 f.2).foldl (applyLine cfg) st =
      { st with headers := fs.foldl (fun hs f => hdrInsert (cfg.ver ≥ 2) hs f.1 f.2) st.headers } := by
  induction fs with
  | nil => intro st _; rfl
  | cons f rest ih =>
    intro st h
    simp only [List.map_cons, List.foldl_cons]
    rw [applyLine_plain cfg st (h f (by simp)), ih _ (fun g hg => h g (by simp [hg]))]

theorem hdrFind_none_of_not_mem (hs : List (Bytes × Bytes)) (n : Bytes)
    (h : n ∉ hs.map fun kv => lower kv.1) : hdrFind hs n = none := by
  induction hs with
  | nil => rfl
  | cons kv rest ih =>
    simp only [List.map_cons, List.mem_cons, not_or] at h
    unfold hdrFind
    simp only [List.find?]
    have : (lower kv.1 = n) = False := by simp; exact fun e => h.1 e.symm
    simp only [this, decide_false]
    exact ih h.2

/-- fields with pairwise different (case-insensitive) names that are not yet stored are
    appended in order, name spelling and value untouched -/
theorem foldl_hdrInsert_fresh (h2 : Bool) (fs : List (Bytes × Bytes)) : ∀ (hs : List (Bytes × Bytes)),
    (∀ f ∈ fs, f.2 ≠ []) → ((hs ++ fs).map fun kv => lower kv.1).Nodup →
    fs.foldl (fun hs f => hdrInsert h2 hs f.1 f.2) hs = hs ++ fs := by
  induction fs with
  | nil => intro hs _ _; simp
  | cons f rest ih =>
    intro hs hv hnd
    simp only [List.foldl_cons]
    have hfresh : hdrFind hs (lower f.1) = none := by
      apply hdrFind_none_of_not_mem
      simp only [List.map_append, List.map_cons] at hnd
      have := List.nodup_append.mp hnd
      intro hmem
      exact this.2.2 _ hmem _ (by simp) rfl
    rw [hdrInsert_fresh h2 hs f.1 f.2 (hv f (by simp)) hfresh, ih _ (fun g hg => hv g (by simp [hg]))]
    · simp
    · simpa using hnd


theorem readPlain_incomplete (cfg : Cfg) (st st' : St) (seg : Bytes) (hs : st.started = false)
    (hp : headerStep cfg st seg = (st', .goOn))
    (hs' : st'.started = false) : readPlain cfg st seg = (st', .goOn) := by
  unfold readPlain
  rw [if_pos (by simp [hs]), hp]
  simp [hs']


theorem onData_incomplete (cfg : Cfg) (st st' : St) (seg : Bytes) (hbe : cfg.be ≠ .fcgi)
    (hc : st.cstate = .handle) (ho : st.open_ = true) (hs : st.started = false) (hh : st.handler = true)
    (hseg : seg ≠ [])
    (hp : headerStep cfg st seg = (st', .goOn))
    (hs' : st'.started = false) (hf' : st'.finished = false) (hc' : st'.cstate = .handle) (ho' : st'.open_ = true) :
    onData cfg st seg = st' := by
  have hseg' : seg.isEmpty = false := by cases seg <;> simp_all
  have hl : lostHandler st = false := by simp [lostHandler, hh]
  have hr : gwRecvData cfg st seg = st' := by
    unfold gwRecvData
    rw [if_neg hbe, readPlain_incomplete cfg st st' seg hs hp hs']
  unfold onData
  rw [if_neg (by simp [hc, ho, hseg']), if_neg (by simp [hl]), hr]
  simp [conStep, hc', handlerStarts, subrequestWaits, ho', hf', hs']


theorem headerStep_append (cfg : Cfg) (st : St) (a b : Bytes) :
    headerStep cfg { st with hbuf := st.hbuf ++ a } b = headerStep cfg st (a ++ b) := by
  simp [headerStep, List.append_assoc, Nat.add_assoc]


theorem chunkAppend_plain (st : St) (data : Bytes) (hsc : st.sendChunked = false) :
    chunkAppend st data = { st with wq := st.wq ++ data } := by
  unfold chunkAppend
  cases data with
  | nil => simp
  | cons x xs => simp [hsc]


/-- http_response_append_mem() without chunked decoding / encoding, in closed form -/
theorem appendMem_plain (st : St) (data : Bytes) (hd : st.decodeChunked = false) (hsc : st.sendChunked = false) :
    (appendMem st data).1 =
      if st.scratch > 0 then
        if st.scratch - (data.length : Int) ≤ 0 then
          { st with scratch := 0, finished := true, wq := st.wq ++ data.take st.scratch.toNat }
        else { st with scratch := st.scratch - data.length, wq := st.wq ++ data }
      else if st.scratch = 0 then st
      else { st with wq := st.wq ++ data } := by
  unfold appendMem
  rw [if_neg (by simp [hd])]
  by_cases h1 : st.scratch > 0
  · rw [if_pos h1, if_pos h1]
    by_cases h2 : st.scratch - (data.length : Int) ≤ 0
    · rw [if_pos h2, if_pos h2, chunkAppend_plain _ _ (by simpa using hsc)]
    · rw [if_neg h2, if_neg h2, chunkAppend_plain _ _ (by simpa using hsc)]
  · rw [if_neg h1, if_neg h1]
    by_cases h2 : st.scratch = 0
    · rw [if_pos h2, if_pos h2]
    · rw [if_neg h2, if_neg h2, chunkAppend_plain _ _ hsc]


/-! ## http_header_parse_hoff on a well-formed head -/

theorem hoffGo_noLf (p : Bytes) : ∀ (rest cur : Bytes) (lines : List Bytes) (n : Nat), lf ∉ p →
    hoffGo (p ++ rest) cur lines n = hoffGo rest (cur ++ p) lines (n + p.length) := by
  induction p with
  | nil => intro rest cur lines n _; simp
  | cons x xs ih =>
    intro rest cur lines n h
    have hx : ¬ (x = lf) := fun e => h (by simp [e])
    simp only [List.cons_append, hoffGo, hx, if_false]
    rw [ih rest (cur ++ [x]) lines (n + 1) (fun e => h (by simp [e]))]
    simp only [List.append_assoc, List.singleton_append, List.length_cons]
    congr 1
    omega

/-- a header line: no LF inside, terminated by LF, not the empty line -/
structure WfLine (l : Bytes) : Prop where
  pre : ∃ p, l = p ++ [lf] ∧ lf ∉ p
  notBlank : l ≠ [lf] ∧ l ≠ [cr, lf]

theorem hoffGo_line {l : Bytes} (h : WfLine l) (rest : Bytes) (lines : List Bytes) (n : Nat)
    (hn : lines.length + 1 < 8190) :
    hoffGo (l ++ rest) [] lines n = hoffGo rest [] (l :: lines) (n + l.length) := by
  obtain ⟨p, hl, hlf⟩ := h.pre
  have hnb := h.notBlank
  subst hl
  rw [List.append_assoc, hoffGo_noLf p _ [] lines n hlf]
  simp only [List.nil_append, List.singleton_append, hoffGo, if_true]
  have h1 : (decide (p ++ [lf] = [lf]) || decide (p ++ [lf] = [cr, lf])) = false := by
    simp [hnb.1, hnb.2]
  have h2 : ¬ (lines.length + 1 ≥ 8190) := by omega
  rw [if_neg (by rw [h1]; simp), if_neg h2]
  simp only [List.length_append, List.length_singleton, Nat.add_assoc]

theorem hoffGo_lines (ls : List Bytes) : ∀ (rest : Bytes) (lines : List Bytes) (n : Nat),
    (∀ l ∈ ls, WfLine l) → lines.length + ls.length < 8190 →
    hoffGo (ls.flatten ++ rest) [] lines n = hoffGo rest [] (ls.reverse ++ lines) (n + ls.flatten.length) := by
  induction ls with
  | nil => intro rest lines n _ _; simp
  | cons l more ih =>
    intro rest lines n hw hn
    simp only [List.flatten_cons, List.append_assoc, List.length_cons] at hn ⊢
    rw [hoffGo_line (hw l (by simp)) _ lines n (by omega),
        ih rest (l :: lines) (n + l.length) (fun x hx => hw x (by simp [hx])) (by simp; omega)]
    simp only [List.reverse_cons, List.append_assoc, List.singleton_append, List.length_append]
    congr 1
    omega

/-- the head `lines ++ CRLF` is found complete, with exactly these lines and its exact length -/
theorem hoff_head (ls : List Bytes) (rest : Bytes) (hw : ∀ l ∈ ls, WfLine l) (hn : ls.length < 8190) :
    hoff (ls.flatten ++ [cr, lf] ++ rest) = (ls, ls.flatten.length + 2) := by
  unfold hoff
  rw [List.append_assoc, hoffGo_lines ls _ [] 0 hw (by simpa using hn)]
  have : hoffGo ([cr, lf] ++ rest) [] (ls.reverse ++ []) (0 + ls.flatten.length)
      = ((ls.reverse ++ []).reverse, 0 + ls.flatten.length + 1 + 1) := by
    simp [hoffGo, cr, lf]
  rw [this]
  simp

theorem firstLine_line {l : Bytes} (h : WfLine l) (rest : Bytes) : firstLine (l ++ rest) = some l := by
  obtain ⟨p, hl, hlf⟩ := h.pre
  subst hl
  unfold firstLine
  rw [List.append_assoc, findIdx_skip (· = lf) p _ 0 (by intro b hb; simp; exact fun e => hlf (e ▸ hb))]
  have hf : findIdx (fun x => decide (x = lf)) ([lf] ++ rest) (0 + p.length) = some p.length := by
    simp [findIdx]
  rw [hf]
  simp only
  have : p ++ ([lf] ++ rest) = (p ++ [lf]) ++ rest := by simp
  rw [this, List.take_append_of_le_length (by simp), List.take_of_length_le (by simp)]


theorem fields_relayed_aux (cfg : Cfg) (st : St) (fs : List (Bytes × Bytes))
    (hp : ∀ f ∈ fs, PlainField f.1 f.2)
    (hnd : ((st.headers ++ fs).map fun kv => lower kv.1).Nodup) :
    (fs.map fun f => fieldLine f.1 f.2).foldl (applyLine cfg) st = { st with headers := st.headers ++ fs } := by
  rw [foldl_applyLine_plain cfg fs st hp,
      foldl_hdrInsert_fresh _ fs st.headers (fun f hf => (hp f hf).vne) hnd]

/-! ## a complete Content-Length response from an HTTP backend, in one read -/

/-- `HTTP/1.1 d1d2d3 reason CRLF` -/
def statusLineBytes (d1 d2 d3 : UInt8) (reason : Bytes) : Bytes :=
  72 :: 84 :: 84 :: 80 :: 47 :: 49 :: 46 :: 49 :: 32 :: d1 :: d2 :: d3 :: 32 :: (reason ++ [cr, lf])

def codeOf (d1 d2 d3 : UInt8) : Nat := (d1 - 48).toNat * 100 + (d2 - 48).toNat * 10 + (d3 - 48).toNat

theorem statusLine_wf (d1 d2 d3 : UInt8) (reason : Bytes) (hd : isDigit d1 ∧ isDigit d2 ∧ isDigit d3)
    (hr : lf ∉ reason) : WfLine (statusLineBytes d1 d2 d3 reason) := by
  have hne : ∀ d : UInt8, isDigit d = true → d ≠ lf := by
    intro d h e; subst e; simp [isDigit, lf] at h
  refine ⟨⟨72 :: 84 :: 84 :: 80 :: 47 :: 49 :: 46 :: 49 :: 32 :: d1 :: d2 :: d3 :: 32 :: (reason ++ [cr]), ?_, ?_⟩, ?_, ?_⟩
  · simp [statusLineBytes]
  · simp only [List.mem_cons, List.mem_append, List.mem_singleton, not_or]
    refine ⟨by decide, by decide, by decide, by decide, by decide, by decide, by decide, by decide, by decide,
            fun e => hne d1 hd.1 e.symm, fun e => hne d2 hd.2.1 e.symm, fun e => hne d3 hd.2.2 e.symm, by decide, hr, by decide, ?_⟩
    simp
  · simp [statusLineBytes]
  · simp [statusLineBytes]

theorem nphStatus_statusLine (cfg : Cfg) (d1 d2 d3 : UInt8) (reason rest : Bytes)
    (hd : isDigit d1 ∧ isDigit d2 ∧ isDigit d3) (hc : codeOf d1 d2 d3 ≥ 100) :
    nphStatus cfg (statusLineBytes d1 d2 d3 reason ++ rest) = some (codeOf d1 d2 d3) := by
  unfold nphStatus statusLineBytes
  simp [List.getD, hd.1, hd.2.1, hd.2.2, dot, sp, cr, lf, ht, codeOf] 
  exact hc


theorem fieldLine_wf (k v : Bytes) (hk : lf ∉ k) (hv : lf ∉ v) : WfLine (fieldLine k v) := by
  refine ⟨⟨k ++ [colon, sp] ++ v ++ [cr], by simp [fieldLine], ?_⟩, ?_, ?_⟩
  · simp only [List.mem_append, List.mem_cons, List.not_mem_nil, or_false, not_or]
    exact ⟨⟨⟨hk, by decide, by decide⟩, hv⟩, by decide⟩
  · intro e
    have := congrArg List.length e
    simp [fieldLine] at this
    omega
  · intro e
    have := congrArg List.length e
    simp [fieldLine] at this
    omega

/-- the Content-Length field of the backend: sets the expected body length, relayed verbatim -/
theorem applyLine_contentLength (cfg : Cfg) (st : St) (clv : Bytes) (n : Nat)
    (hne : clv ≠ []) (hhead : isWs (clv.headD 0) = false) (hplus : clv.head? ≠ some 43)
    (htrim : trimRightWs clv = clv) (hnum : strtoI64 clv = some n)
    (hdc : st.decodeChunked = false) (hno : hdrFind st.headers nContentLength = none) :
    applyLine cfg st (fieldLine (ofString "Content-Length") clv) =
      { st with scratch := n, headers := st.headers ++ [(ofString "Content-Length", clv)] } := by
  have hfl : fieldOfLine (fieldLine (ofString "Content-Length") clv) = some (ofString "Content-Length", clv) := by
    -- same shape as a plain field
    unfold fieldOfLine fieldLine
    have hbody : (ofString "Content-Length" ++ [colon, sp] ++ clv ++ [cr, lf]).dropLast
        = ofString "Content-Length" ++ (colon :: sp :: (clv ++ [cr])) := by
      have : ofString "Content-Length" ++ [colon, sp] ++ clv ++ [cr, lf]
          = (ofString "Content-Length" ++ (colon :: sp :: (clv ++ [cr]))) ++ [lf] := by simp
      rw [this, List.dropLast_concat]
    simp only [hbody]
    rw [findIdx_skip (· = colon) (ofString "Content-Length") _ 0 (by decide)]
    simp only [findIdx, decide_true, if_true, Nat.zero_add]
    have htake : (ofString "Content-Length" ++ colon :: sp :: (clv ++ [cr])).take (ofString "Content-Length").length
        = ofString "Content-Length" := by simp
    have hdrop : (ofString "Content-Length" ++ colon :: sp :: (clv ++ [cr])).drop ((ofString "Content-Length").length + 1)
        = sp :: (clv ++ [cr]) := by rw [List.drop_append]; simp
    have hk : (ofString "Content-Length").isEmpty = false := by decide
    simp only [htake, hk, Bool.false_eq_true, if_false, hdrop]
    obtain ⟨x, xs, hv⟩ : ∃ x xs, clv = x :: xs := by
      cases clv with
      | nil => exact absurd rfl hne
      | cons x xs => exact ⟨x, xs, rfl⟩
    have hx : isWs x = false := by simpa [hv] using hhead
    have hsp : isWs sp = true := by decide
    have hdw : (sp :: (clv ++ [cr])).dropWhile isWs = clv ++ [cr] := by
      rw [List.dropWhile_cons, if_pos hsp, hv, List.cons_append, List.dropWhile_cons, if_neg (by simp [hx])]
    rw [hdw]
    simp
  unfold applyLine
  rw [hfl]
  have hl : lower (ofString "Content-Length") = nContentLength := by decide
  have h1 : ¬ (nContentLength = nStatus) := by decide
  have h2 : ¬ (nContentLength = nUpgrade) := by decide
  have h3 : ¬ (nContentLength = nConnection) := by decide
  have h4 : ¬ (nContentLength = nContentType) := by decide
  have hhas : hasHdr st.headers nContentLength = false := by simp [hasHdr, hno]
  have hte : clv.isEmpty = false := by cases clv <;> simp_all
  unfold applyField
  simp only [hl, h1, h2, h3, h4, if_false, if_true, hplus, hdc, hhas, Bool.not_false, Bool.and_self, htrim, hte,
    Bool.false_eq_true, hnum]
  have hins : hdrInsert (decide (cfg.ver ≥ 2)) st.headers (ofString "Content-Length") clv
      = st.headers ++ [(ofString "Content-Length", clv)] :=
    hdrInsert_fresh _ st.headers _ clv hne (by rw [hl]; exact hno)
  rw [hins]


/-- a plain field that can stand on a header line: additionally no LF in name and value -/
structure LineField (k v : Bytes) : Prop extends PlainField k v where
  klf : lf ∉ k
  vlf : lf ∉ v

/-- the head of a Content-Length response: status line, plain fields, Content-Length, empty line -/
def clLines (d1 d2 d3 : UInt8) (reason : Bytes) (fs : List (Bytes × Bytes)) (clv : Bytes) : List Bytes :=
  statusLineBytes d1 d2 d3 reason :: ((fs.map fun f => fieldLine f.1 f.2) ++ [fieldLine (ofString "Content-Length") clv])

def clHead (d1 d2 d3 : UInt8) (reason : Bytes) (fs : List (Bytes × Bytes)) (clv : Bytes) : Bytes :=
  (clLines d1 d2 d3 reason fs clv).flatten ++ [cr, lf]

theorem processHeaders_cl (cfg : Cfg) (st : St) (d1 d2 d3 : UInt8) (reason rest : Bytes)
    (fs : List (Bytes × Bytes)) (clv : Bytes) (n : Nat)
    (hd : isDigit d1 ∧ isDigit d2 ∧ isDigit d3) (hc : codeOf d1 d2 d3 ≥ 100)
    (hfs : ∀ f ∈ fs, PlainField f.1 f.2) (hnd : (fs.map fun kv => lower kv.1).Nodup)
    (hne : clv ≠ []) (hhead : isWs (clv.headD 0) = false) (hplus : clv.head? ≠ some 43)
    (htrim : trimRightWs clv = clv) (hnum : strtoI64 clv = some n)
    (hh : st.headers = []) (hdc : st.decodeChunked = false) :
    processHeaders cfg st (statusLineBytes d1 d2 d3 reason ++ rest) (clLines d1 d2 d3 reason fs clv) true =
      { st with status := codeOf d1 d2 d3, scratch := n, headers := fs ++ [(ofString "Content-Length", clv)] } := by
  have hdrop : (clLines d1 d2 d3 reason fs clv).drop 1
      = (fs.map fun f => fieldLine f.1 f.2) ++ [fieldLine (ofString "Content-Length") clv] := by
    simp [clLines]
  have hno : hdrFind ([] ++ fs) nContentLength = none := by
    apply hdrFind_none_of_not_mem
    intro hmem
    simp only [List.nil_append, List.mem_map] at hmem
    obtain ⟨f, hf, he⟩ := hmem
    have := (hfs f hf).kspecial
    simp only [specialNames, List.mem_cons, List.not_mem_nil, or_false, not_or] at this
    exact this.2.2.2.2.1 he
  have hfold : ((fs.map fun f => fieldLine f.1 f.2) ++ [fieldLine (ofString "Content-Length") clv]).foldl
      (applyLine cfg) { st with status := codeOf d1 d2 d3 }
      = { st with status := codeOf d1 d2 d3, scratch := n,
                  headers := fs ++ [(ofString "Content-Length", clv)] } := by
    rw [List.foldl_append, fields_relayed_aux cfg _ fs hfs (by simpa [hh] using hnd)]
    simp only [List.foldl_cons, List.foldl_nil]
    rw [applyLine_contentLength cfg _ clv n hne hhead hplus htrim hnum (by simpa using hdc) (by simpa [hh] using hno)]
    simp [hh]
  have hcode : ¬ (codeOf d1 d2 d3 = 0) := by omega
  unfold processHeaders
  simp only [if_true, nphStatus_statusLine cfg d1 d2 d3 reason rest hd hc, hdrop]
  unfold applyLines
  simp only [hfold, hcode, decide_false, Bool.false_and, Bool.false_eq_true, if_false]


theorem clLines_wf (d1 d2 d3 : UInt8) (reason : Bytes) (fs : List (Bytes × Bytes)) (clv : Bytes)
    (hd : isDigit d1 ∧ isDigit d2 ∧ isDigit d3) (hr : lf ∉ reason)
    (hfs : ∀ f ∈ fs, LineField f.1 f.2) (hclv : lf ∉ clv) :
    ∀ l ∈ clLines d1 d2 d3 reason fs clv, WfLine l := by
  intro l hl
  simp only [clLines, List.mem_cons, List.mem_append, List.mem_map, List.mem_singleton, List.not_mem_nil,
    or_false] at hl
  rcases hl with rfl | ⟨f, hf, rfl⟩ | rfl
  · exact statusLine_wf d1 d2 d3 reason hd hr
  · exact fieldLine_wf f.1 f.2 (hfs f hf).klf (hfs f hf).vlf
  · exact fieldLine_wf _ clv (by decide) hclv

/-- the response state right after such a response was parsed -/
def clState (d1 d2 d3 : UInt8) (reason : Bytes) (fs : List (Bytes × Bytes)) (clv body : Bytes) : St :=
  { hbuf := clHead d1 d2 d3 reason fs clv ++ body, status := codeOf d1 d2 d3, started := true,
    finished := true, scratch := 0, headers := fs ++ [(ofString "Content-Length", clv)], wq := body }

/-- http_response_parse_headers() on a complete Content-Length response received in one piece -/
theorem parseHeaders_cl (cfg : Cfg) (d1 d2 d3 : UInt8) (reason : Bytes)
    (fs : List (Bytes × Bytes)) (clv body : Bytes) (fuel : Nat)
    (hd : isDigit d1 ∧ isDigit d2 ∧ isDigit d3) (hc : codeOf d1 d2 d3 ≥ 200) (hr : lf ∉ reason)
    (hfs : ∀ f ∈ fs, LineField f.1 f.2) (hnd : (fs.map fun kv => lower kv.1).Nodup)
    (hne : clv ≠ []) (hhead : isWs (clv.headD 0) = false) (hplus : clv.head? ≠ some 43)
    (htrim : trimRightWs clv = clv) (hclv : lf ∉ clv) (hnum : strtoI64 clv = some body.length)
    (hbody : body ≠ []) (hsize : (clHead d1 d2 d3 reason fs clv).length ≤ 65535) (hcount : fs.length + 2 < 8190) :
    parseHeaders cfg (fuel + 1) { hbuf := clHead d1 d2 d3 reason fs clv ++ body } =
      (clState d1 d2 d3 reason fs clv body, .goOn) := by
  unfold clState
  have hw := clLines_wf d1 d2 d3 reason fs clv hd hr hfs hclv
  have hlen : (clLines d1 d2 d3 reason fs clv).length < 8190 := by simp [clLines]; omega
  have hb : clHead d1 d2 d3 reason fs clv ++ body
      = (clLines d1 d2 d3 reason fs clv).flatten ++ [cr, lf] ++ body := by simp [clHead]
  have hhoff := hoff_head (clLines d1 d2 d3 reason fs clv) body hw hlen
  have hheadlen : (clHead d1 d2 d3 reason fs clv).length = (clLines d1 d2 d3 reason fs clv).flatten.length + 2 := by
    simp [clHead]
  have hsl : clHead d1 d2 d3 reason fs clv ++ body
      = statusLineBytes d1 d2 d3 reason ++
        (((fs.map fun f => fieldLine f.1 f.2) ++ [fieldLine (ofString "Content-Length") clv]).flatten ++ [cr, lf] ++ body) := by
    simp [clHead, clLines]
  have hfirst : firstLine (clHead d1 d2 d3 reason fs clv ++ body) = some (statusLineBytes d1 d2 d3 reason) := by
    rw [hsl]; exact firstLine_line (statusLine_wf d1 d2 d3 reason hd hr) _
  have htake5 : (clHead d1 d2 d3 reason fs clv ++ body).take 5 = ofString "HTTP/" := by
    rw [hsl]; simp [statusLineBytes, ofString]
  have hsll : (statusLineBytes d1 d2 d3 reason).length ≥ 12 := by simp [statusLineBytes]
  have hdropb : (clHead d1 d2 d3 reason fs clv ++ body).drop ((clLines d1 d2 d3 reason fs clv).flatten.length + 2) = body := by
    rw [← hheadlen]; simp
  have hproc := processHeaders_cl cfg ({ hbuf := clHead d1 d2 d3 reason fs clv ++ body } : St) d1 d2 d3 reason
    (((fs.map fun f => fieldLine f.1 f.2) ++ [fieldLine (ofString "Content-Length") clv]).flatten ++ [cr, lf] ++ body)
    fs clv body.length hd (by omega) (fun f hf => (hfs f hf).toPlainField) hnd hne hhead hplus htrim hnum rfl rfl
  rw [← hsl] at hproc
  have hbl : body.length > 0 := by cases body <;> simp_all
  have hbe : body.isEmpty = false := by cases body <;> simp_all
  rw [hb] at hfirst htake5 hdropb hproc ⊢
  have h1 : ¬ ((clLines d1 d2 d3 reason fs clv).flatten.length + 2 = 0) := by omega
  have h2 : ¬ ((clLines d1 d2 d3 reason fs clv).flatten.length + 2 > Extracted.maxHttpResponseFieldSize) := by
    have : Extracted.maxHttpResponseFieldSize = 65535 := by decide
    omega
  have h3 : ¬ (codeOf d1 d2 d3 < 200) := by omega
  unfold parseHeaders
  simp only [hhoff, hfirst, htake5, hsll, decide_true, Bool.and_self, Bool.not_true, Bool.false_and,
    Bool.false_eq_true, if_false, hdropb, hproc, h1, h2, h3, ne_eq, not_false_eq_true, if_true, decide_false,
    Bool.not_false, hbe]
  simp [appendMem, hbl, chunkAppend, hbe]


theorem hasHdr_cl_appended (fs : List (Bytes × Bytes)) (clv : Bytes) (hne : clv ≠ [])
    (hfs : ∀ f ∈ fs, PlainField f.1 f.2) :
    hasHdr (fs ++ [(ofString "Content-Length", clv)]) nContentLength = true := by
  have hno : hdrFind fs nContentLength = none := by
    apply hdrFind_none_of_not_mem
    intro hmem
    simp only [List.mem_map] at hmem
    obtain ⟨f, hf, he⟩ := hmem
    have := (hfs f hf).kspecial
    simp only [specialNames, List.mem_cons, List.not_mem_nil, or_false, not_or] at this
    exact this.2.2.2.2.1 he
  have hl : lower (ofString "Content-Length") = nContentLength := by decide
  have hv : clv.isEmpty = false := by cases clv <;> simp_all
  simp [hasHdr, hdrFind_append_none fs nContentLength _ clv hno, hl, hv]

/-- write-prepare leaves a finished response with Content-Length from a live handler alone -/
theorem writePrepare_cl_id (cfg : Cfg) (st : St) (hh : cfg.head = false) (hhd : st.handler = true)
    (hf : st.finished = true) (hdc : st.dc = none)
    (hcode : st.status ≠ 204 ∧ st.status ≠ 205 ∧ st.status ≠ 304)
    (hcl : hasHdr st.headers nContentLength = true) : writePrepare cfg st = st := by
  have hs : wpStatus st = st := by
    unfold wpStatus
    simp only [hcode.1, hcode.2.1, hcode.2.2, decide_false, Bool.or_self, Bool.false_eq_true, if_false]
    split
    · rfl
    · split
      · simp [staticErrdoc, hhd]
      · rfl
  unfold writePrepare
  rw [hs, mergeTrailers_dc_none cfg st hdc]
  have hl : wpLength cfg st = st := by
    simp [wpLength, hf, wpSetLength, noLen, hcl]
  rw [hl]
  simp [wpHead, hh]

/-- **One-shot relay of a Content-Length response (HTTP/1.1 client, HTTP backend).** -/
theorem relay_cl_exact (cfg : Cfg) (d1 d2 d3 : UInt8) (reason : Bytes)
    (fs : List (Bytes × Bytes)) (clv body : Bytes) (e : End)
    (hbe : cfg.be = .proxy) (hv : cfg.ver = 1) (hh : cfg.head = false)
    (hd : isDigit d1 ∧ isDigit d2 ∧ isDigit d3) (hc : codeOf d1 d2 d3 ≥ 200) (hr : lf ∉ reason)
    (hcode : codeOf d1 d2 d3 ≠ 204 ∧ codeOf d1 d2 d3 ≠ 205 ∧ codeOf d1 d2 d3 ≠ 304)
    (hfs : ∀ f ∈ fs, LineField f.1 f.2) (hnd : (fs.map fun kv => lower kv.1).Nodup)
    (hne : clv ≠ []) (hhead : isWs (clv.headD 0) = false) (hplus : clv.head? ≠ some 43)
    (htrim : trimRightWs clv = clv) (hclv : lf ∉ clv) (hnum : strtoI64 clv = some body.length)
    (hbody : body ≠ []) (hsize : (clHead d1 d2 d3 reason fs clv).length ≤ 65535) (hcount : fs.length + 2 < 8190) :
    (relay cfg [clHead d1 d2 d3 reason fs clv ++ body] e).evs =
      [.w (h1StatusLine cfg (codeOf d1 d2 d3) ++ h1FieldLines (fs ++ [(ofString "Content-Length", clv)]) ++
           crlf ++ crlf ++ body)] ∧
    (relay cfg [clHead d1 d2 d3 reason fs clv ++ body] e).keepAlive = true ∧
    (relay cfg [clHead d1 d2 d3 reason fs clv ++ body] e).cstate = .done ∧
    (relay cfg [clHead d1 d2 d3 reason fs clv ++ body] e).status = codeOf d1 d2 d3 := by
  have hbe' : cfg.be ≠ .fcgi := by rw [hbe]; decide
  have hseg : (clHead d1 d2 d3 reason fs clv ++ body).isEmpty = false := by cases body <;> simp_all
  have hparse := parseHeaders_cl cfg d1 d2 d3 reason fs clv body (clHead d1 d2 d3 reason fs clv ++ body).length
    hd hc hr hfs hnd hne hhead hplus htrim hclv hnum hbody hsize hcount
  -- the state after the read
  generalize hst1 : clState d1 d2 d3 reason fs clv body = st1 at hparse
  unfold clState at hst1
  have hhs : headerStep cfg {} (clHead d1 d2 d3 reason fs clv ++ body) = (st1, .goOn) := by
    unfold headerStep
    simpa using hparse
  have hread : readPlain cfg {} (clHead d1 d2 d3 reason fs clv ++ body) = ({ st1 with hbuf := [] }, .finished) := by
    unfold readPlain
    rw [if_pos (by rfl), hhs]
    subst hst1
    simp
  have hrecv : gwRecvData cfg {} (clHead d1 d2 d3 reason fs clv ++ body) = { st1 with hbuf := [], open_ := false } := by
    unfold gwRecvData
    rw [if_neg hbe', hread]
    subst hst1
    simp [gwClose, backendDone]
  generalize hst2 : ({ st1 with hbuf := [], open_ := false } : St) = st2 at hrecv
  have f1 : st2.status = codeOf d1 d2 d3 := by subst hst2 hst1; rfl
  have f2 : st2.finished = true := by subst hst2 hst1; rfl
  have f3 : st2.handler = true := by subst hst2 hst1; rfl
  have f4 : st2.dc = none := by subst hst2 hst1; rfl
  have f5 : st2.headers = fs ++ [(ofString "Content-Length", clv)] := by subst hst2 hst1; rfl
  have f6 : st2.wq = body := by subst hst2 hst1; rfl
  have f7 : st2.keepAlive = true := by subst hst2 hst1; rfl
  have f8 : st2.cstate = .handle := by subst hst2 hst1; rfl
  have f9 : st2.open_ = false := by subst hst2 hst1; rfl
  have f10 : st2.evs = [] := by subst hst2 hst1; rfl
  have hwp : writePrepare cfg st2 = st2 :=
    writePrepare_cl_id cfg st2 hh f3 f2 f4 (by rw [f1]; exact hcode)
      (by rw [f5]; exact hasHdr_cl_appended fs clv hne (fun f hf => (hfs f hf).toPlainField))
  have hset : h1HeaderSet cfg st2 = st2.headers := by
    have h0 : ¬ (cfg.ver = 0) := by omega
    simp [h1HeaderSet, f7, h0, f1, hcode.2.2]
  have hcon : conStep cfg st2 =
      { (h1SendHeaders cfg st2) with cstate := .done, wq := [], evs := [.w (h1SendHeaders cfg st2).wq] } := by
    have hv2 : ¬ (cfg.ver ≥ 2) := by omega
    have hs0 : ¬ (st2.status = 0) := by rw [f1]; omega
    have hwne : (h1SendHeaders cfg st2).wq.isEmpty = false := by
      simp [h1SendHeaders, h1StatusLine, hv, ofString]
    unfold conStep
    simp only [f8, handlerStarts, subrequestWaits, f9, Bool.false_eq_true, if_false, if_true]
    unfold startResponse
    simp only [hs0, if_false, hwp, hv2]
    have hpw : pushW [] (h1SendHeaders cfg st2).wq = [.w (h1SendHeaders cfg st2).wq] := by
      simp [pushW, hwne]
    have hev : (h1SendHeaders cfg st2).evs = [] := by simp [h1SendHeaders, f10]
    have hfin : (h1SendHeaders cfg st2).finished = true := by simp [h1SendHeaders, f2]
    simp only [h1Progress, flush, hev, hpw, hfin, if_true]
  have hdata : onData cfg {} (clHead d1 d2 d3 reason fs clv ++ body) = conStep cfg st2 := by
    unfold onData
    rw [if_neg (by simp [hseg]), if_neg (by simp [lostHandler]), hrecv]
  have hrel : relay cfg [clHead d1 d2 d3 reason fs clv ++ body] e = conStep cfg st2 := by
    unfold relay
    simp only [List.foldl_cons, List.foldl_nil, hdata]
    unfold onEnd
    rw [if_pos (by rw [hcon]; simp)]
  rw [hrel, hcon]
  refine ⟨?_, ?_, rfl, ?_⟩
  · simp [h1SendHeaders, hset, f5, f6, f1]
  · simp [h1SendHeaders, f7]
  · simp [h1SendHeaders, f1]


/-! ## failure / truncation of the backend stream (repaired code) -/

/-- response start for a state lighttpd answers itself with an error document (HTTP/1.x) -/
theorem conStep_errdoc (cfg : Cfg) (st1 : St) (hv : cfg.ver ≤ 1) (hc : st1.cstate = .handle)
    (ho : st1.open_ = false) (hh : st1.handler = false) (h4 : 400 ≤ st1.status) (h6 : st1.status < 600) :
    (conStep cfg st1).status = st1.status ∧ (conStep cfg st1).cstate = .done ∧
    (conStep cfg st1).keepAlive = st1.keepAlive ∧
    ∃ fields, (conStep cfg st1).evs = pushW st1.evs
      (h1StatusLine cfg st1.status ++ fields ++ crlf ++ crlf ++ (if cfg.head then [] else errorPage st1.status)) := by
  obtain ⟨w1, w2, w3, w4, w5, w6, w7⟩ := writePrepare_errdoc cfg st1 hh h4 h6
  have hstart : conStep cfg st1 = startResponse cfg st1 := by
    unfold conStep
    simp [hc, handlerStarts, subrequestWaits, ho]
  rw [hstart]
  obtain ⟨r1, r2, r3, r4⟩ := startResponse_h1_finished cfg st1 hv (by omega) w7
  refine ⟨by rw [r2, w1], r1, by rw [r3, w2], ⟨h1FieldLines (h1HeaderSet cfg (writePrepare cfg st1)), ?_⟩⟩
  rw [r4, w1, w3, w4]

theorem backendIncomplete_proj (st : St) :
    (backendIncomplete st).status = 502 ∧ (backendIncomplete st).handler = false ∧
    (backendIncomplete st).cstate = st.cstate ∧ (backendIncomplete st).keepAlive = st.keepAlive ∧
    (backendIncomplete st).evs = st.evs ∧ (backendIncomplete st).open_ = st.open_ := by
  simp [backendIncomplete, bodyClear]

/-- a backend failure event: reset / socket error, or FastCGI end of stream without END_REQUEST -/
def FailEnd (cfg : Cfg) (st : St) (e : End) : Prop :=
  e = .rst ∨ e = .err ∨ (cfg.be = .fcgi ∧ (e = .eof ∨ e = .hup) ∧ st.fcgi.ended = false)

theorem FailEnd.ne_none {cfg : Cfg} {st : St} {e : End} (h : FailEnd cfg st e) : e ≠ .none := by
  rcases h with h | h | ⟨_, h | h, _⟩ <;> simp [h]

theorem gwRecvEnd_fail (cfg : Cfg) (st : St) (e : End) (hs : st.started = true) (he : FailEnd cfg st e) :
    gwRecvEnd cfg st e = gwBackendError cfg st := by
  rcases he with h | h | ⟨hb, h | h, hfe⟩
  · subst h; rfl
  · subst h; rfl
  · subst h; simp [gwRecvEnd, hb, hfe]
  · subst h; simp [gwRecvEnd, hb, hfe, hs]

theorem gwBackendError_unsent (cfg : Cfg) (st : St) (hs : st.started = true) (hn : st.hdrSent = false) :
    gwBackendError cfg st = { (backendIncomplete st) with open_ := false } := by
  simp [gwBackendError, backendError, hs, hn, gwClose, backendIncomplete]

theorem gwBackendError_sent (cfg : Cfg) (st : St) (hs : st.started = true) (hn : st.hdrSent = true) :
    gwBackendError cfg st =
      { st with open_ := false, handler := false, keepAlive := false, finished := true,
                cerr := st.cerr || decide (cfg.ver ≥ 2) } := by
  simp [gwBackendError, backendError, hs, hn, gwClose, backendAbort]


theorem chunkClose_noappend (st : St) (h : st.sendChunked = true → st.dc.isSome = true) :
    (chunkClose st).wq = st.wq ∧ (chunkClose st).evs = st.evs ∧ (chunkClose st).cstate = st.cstate ∧
    (chunkClose st).open_ = st.open_ ∧ (chunkClose st).cerr = st.cerr ∧
    ((chunkClose st).keepAlive = true → st.keepAlive = true) := by
  unfold chunkClose
  by_cases hs : st.sendChunked = true
  · have := h hs
    simp only [hs, Bool.not_true, Bool.false_eq_true, if_false, this, if_true]
    split <;> simp
  · simp [hs]


theorem backendDone_truncated_unsent (cfg : Cfg) (st : St) (hc : st.cstate = .handle) (hs : st.started = true)
    (hf : st.finished = false) (hsent : st.hdrSent = false) (ht : bodyTruncated cfg st = true) :
    backendDone cfg st = backendIncomplete st := by
  unfold backendDone
  rw [if_neg (by simp [hc]), if_neg (by simp [hs]), if_pos (by simp [hf]), if_pos (by simp [ht, hsent])]

theorem backendDone_truncated_sent (cfg : Cfg) (st : St) (hc : st.cstate = .write)
    (hf : st.finished = false) (hsent : st.hdrSent = true) (ht : bodyTruncated cfg st = true) :
    backendDone cfg st =
      { (if cfg.ver = 1 then chunkClose (backendAbort cfg st) else backendAbort cfg st) with finished := true } := by
  unfold backendDone
  rw [if_neg (by simp [hc]), if_neg (by simp [hc]), if_pos (by simp [hf]), if_neg (by simp [hsent])]
  simp only [ht, if_true]

theorem gwClose_handler (cfg : Cfg) (st : St) (hh : st.handler = true) :
    gwClose cfg st = backendDone cfg { st with open_ := false } := by
  unfold gwClose
  simp only [hh, if_true]

end LtVerif.BeResp
