/-
  Helper lemmas for C09: header-name mapping, meta-variable list, path-info split,
  request-target split (Model/Cgi.lean, Model/Burl.lean `parseTarget`).
-/
import LtVerif.Model.Cgi
import LtVerif.Model.Burl
namespace LtVerif
open LtVerif B

theorem c09_u8_all {P : UInt8 → Prop} (h : ∀ n : Fin 256, P (UInt8.ofNat n.val)) : ∀ b, P b := by
  intro b
  have := h ⟨b.toNat, b.toNat_lt⟩
  simpa using this

/-! ### header name -> variable name -/

/-- the five letters of PROXY: the mapped byte is the upper-case letter exactly when the
    header byte is that letter in either case -/
theorem enc_letter_iff : ∀ c : UInt8,
    (encodeVarnameByte c = 80 ↔ toLower c = 112) ∧ (encodeVarnameByte c = 82 ↔ toLower c = 114) ∧
    (encodeVarnameByte c = 79 ↔ toLower c = 111) ∧ (encodeVarnameByte c = 88 ↔ toLower c = 120) ∧
    (encodeVarnameByte c = 89 ↔ toLower c = 121) := by
  apply c09_u8_all; set_option maxRecDepth 100000 in decide

/-- every mapped byte is an upper-case letter, a digit or '_' -/
theorem enc_charset : ∀ c : UInt8,
    isUpper (encodeVarnameByte c) = true ∨ isDigit (encodeVarnameByte c) = true ∨
      encodeVarnameByte c = uscore := by
  apply c09_u8_all; set_option maxRecDepth 100000 in decide

theorem map_enc_proxy (n : Bytes) :
    n.map encodeVarnameByte = [80, 82, 79, 88, 89] ↔ n.map toLower = [112, 114, 111, 120, 121] := by
  match n with
  | [] => simp
  | [_] => simp
  | [_, _] => simp
  | [_, _, _] => simp
  | [_, _, _, _] => simp
  | [a, b, c, d, e] =>
    have ha := enc_letter_iff a
    have hb := enc_letter_iff b
    have hc := enc_letter_iff c
    have hd := enc_letter_iff d
    have he := enc_letter_iff e
    simp only [List.map_cons, List.map_nil, List.cons.injEq, and_true]
    rw [ha.1, hb.2.1, hc.2.2.1, hd.2.2.2.1, he.2.2.2.2]
  | _ :: _ :: _ :: _ :: _ :: _ :: _ => simp

theorem encodeVarname_hdr (n : Bytes) : encodeVarname true n = httpPrefix ++ n.map encodeVarnameByte := by
  simp [encodeVarname]

theorem encodeVarname_proxy_iff (n : Bytes) :
    encodeVarname true n = ofString "HTTP_PROXY" ↔ eqIcase n (ofString "Proxy") = true := by
  have h1 : ofString "HTTP_PROXY" = httpPrefix ++ [80, 82, 79, 88, 89] := by decide
  have h2 : (ofString "Proxy").map toLower = [112, 114, 111, 120, 121] := by decide
  rw [encodeVarname_hdr, h1, List.append_cancel_left_eq, map_enc_proxy]
  simp only [eqIcase, h2, beq_iff_eq]

/-! ### the meta-variable list -/

/-- names of the server-defined variables -/
def metaNamesS : List String :=
  ["CONTENT_LENGTH", "QUERY_STRING", "REQUEST_URI", "REDIRECT_URI", "REDIRECT_STATUS", "SCRIPT_NAME",
   "PATH_INFO", "PATH_TRANSLATED", "SCRIPT_FILENAME", "DOCUMENT_ROOT", "REQUEST_METHOD",
   "SERVER_PROTOCOL", "SERVER_SOFTWARE", "GATEWAY_INTERFACE", "REQUEST_SCHEME", "HTTPS", "SERVER_PORT",
   "SERVER_ADDR", "SERVER_NAME", "REMOTE_ADDR", "REMOTE_PORT"]

def metaNames : List Bytes := metaNamesS.map ofString

/-- the three request-header look-alikes synthesised for an HTTP/2 extended CONNECT -/
def h2ExtNamesS : List String := ["HTTP_SEC_WEBSOCKET_KEY", "HTTP_UPGRADE", "HTTP_CONNECTION"]

theorem contentType_not_meta : ofString "CONTENT_TYPE" ∉ metaNames := by decide

theorem metaNames_no_http_prefix : ∀ m ∈ metaNames, httpPrefix.isPrefixOf m = false := by decide

theorem encodeVarname_not_meta (n : Bytes) : encodeVarname true n ∉ metaNames := by
  intro h
  have := metaNames_no_http_prefix _ h
  rw [encodeVarname_hdr] at this
  have hp : httpPrefix.isPrefixOf (httpPrefix ++ n.map encodeVarnameByte) = true := by
    rw [List.isPrefixOf_iff_prefix]; exact List.prefix_append _ _
  rw [hp] at this
  exact absurd this (by simp)

theorem optE_eq_some (c : Bool) (x y : String × Bytes) : optE c x = some y ↔ c = true ∧ x = y := by
  unfold optE; cases c <;> simp

theorem cgiMetaS_names (o : CgiOpts) (r : CgiReq) :
    ∀ p ∈ cgiMetaS o r, p.1 ∈ metaNamesS ∨ (r.h2ConnectExt = true ∧ p.1 ∈ h2ExtNamesS) := by
  intro p hp
  simp only [cgiMetaS, List.mem_filterMap, id_eq, exists_eq_right, List.mem_cons, List.not_mem_nil,
    or_false] at hp
  simp only [eq_comm (a := some p), optE_eq_some, Option.some.injEq] at hp
  rcases hp with h | h | h | h | h | h | h | h | h | h | h | h | h | h | h | h | h | h | h | h | h | h | h | h
  all_goals first
    | (obtain ⟨_, rfl⟩ := h; simp [metaNamesS]; done)
    | (subst h; simp [metaNamesS]; done)
    | (obtain ⟨hc, rfl⟩ := h
       right
       try simp only [Bool.and_eq_true] at hc
       first
         | exact ⟨hc.1, by simp [h2ExtNamesS]⟩
         | exact ⟨hc, by simp [h2ExtNamesS]⟩)

/-! ### path-info split -/

theorem indexOf_spec (x : UInt8) : ∀ (l : Bytes) (k i : Nat), indexOf x l k = some i →
    k ≤ i ∧ i - k < l.length ∧ l.getD (i - k) 0 = x := by
  intro l
  induction l with
  | nil => intro k i h; simp [indexOf] at h
  | cons b t ih =>
    intro k i h
    unfold indexOf at h
    by_cases hb : b = x
    · simp only [hb, ↓reduceIte, Option.some.injEq] at h
      subst h; simp [hb]
    · simp only [hb, ↓reduceIte] at h
      obtain ⟨h1, h2, h3⟩ := ih (k + 1) i h
      refine ⟨by omega, by simp only [List.length_cons]; omega, ?_⟩
      have : i - k = (i - (k + 1)) + 1 := by omega
      rw [this, List.getD_cons_succ]; exact h3

theorem gwPathinfoSplit_concat (key : Bytes) (fix : Bool) (path : Bytes) :
    (gwPathinfoSplit key fix path).1 ++ (gwPathinfoSplit key fix path).2 = path := by
  unfold gwPathinfoSplit
  split
  · simp
  · split
    · split
      · simp only [List.take_append_drop]
      · simp
    · simp

theorem gwPathinfoSplit_pathinfo (key : Bytes) (fix : Bool) (path : Bytes)
    (hp : path.head? = some slash) :
    (gwPathinfoSplit key fix path).2 = [] ∨ (gwPathinfoSplit key fix path).2.head? = some slash := by
  unfold gwPathinfoSplit
  split
  · right; exact hp
  · split
    · split
      · rename_i i hi
        right
        obtain ⟨_, h2, h3⟩ := indexOf_spec slash _ 0 i hi
        simp only [Nat.sub_zero, List.length_drop] at h2 h3
        rw [List.getD_eq_getElem?_getD, List.getElem?_drop] at h3
        rw [List.head?_drop]
        have hlt : key.length + i < path.length := by omega
        rw [List.getElem?_eq_getElem hlt] at h3 ⊢
        simp only [Option.getD_some] at h3
        rw [h3]
      · left; rfl
    · left; rfl

/-! ### request-target split without URL normalisation -/

theorem findIdx_spec (p : UInt8 → Bool) : ∀ (l : Bytes) (k : Nat),
    (∀ i, findIdx p l k = some i →
      k ≤ i ∧ ∃ x, l = l.take (i - k) ++ x :: l.drop (i - k + 1) ∧ p x = true ∧
        ∀ y ∈ l.take (i - k), p y = false) ∧
    (findIdx p l k = none → ∀ y ∈ l, p y = false) := by
  intro l
  induction l with
  | nil => intro k; simp [findIdx]
  | cons b t ih =>
    intro k
    unfold findIdx
    by_cases hb : p b = true
    · simp only [hb, ↓reduceIte, Option.some.injEq, reduceCtorEq, false_imp_iff, and_true]
      intro i hi
      subst hi
      exact ⟨Nat.le_refl _, b, by simp, hb, by simp⟩
    · simp only [hb, Bool.false_eq_true, ↓reduceIte]
      obtain ⟨h1, h2⟩ := ih (k + 1)
      constructor
      · intro i hi
        obtain ⟨hle, x, hx1, hx2, hx3⟩ := h1 i hi
        have e : i - k = (i - (k + 1)) + 1 := by omega
        refine ⟨by omega, x, ?_, hx2, ?_⟩
        · rw [e]; simp only [List.take_succ_cons, List.drop_succ_cons, List.cons_append]
          congr 1
        · rw [e]; simp only [List.take_succ_cons, List.mem_cons]
          intro y hy
          rcases hy with rfl | hy
          · simpa using hb
          · exact hx3 y hy
      · intro hn y hy
        rcases List.mem_cons.mp hy with rfl | hy
        · simpa using hb
        · exact h2 hn y hy

/-! ### HTTP/2 DATA frames -/

def framesData (fs : List DataFrame) : Bytes := (fs.map (·.payload)).flatten

theorem h2_fold_open (fs : List DataFrame) (hne : ∀ f ∈ fs, f.endStream = false) :
    ∀ (st : H2Body), st.state = .open →
      (st.bodyLen = -1 ∨ ((st.out.length + (framesData fs).length : Nat) : Int) ≤ st.bodyLen) →
      fs.foldl h2RecvData st = { st with out := st.out ++ framesData fs } := by
  induction fs with
  | nil => intro st _ _; simp [framesData]
  | cons f tl ih =>
    intro st hopen hb
    have hf : f.endStream = false := hne f (by simp)
    have hdata : framesData (f :: tl) = f.payload ++ framesData tl := by simp [framesData]
    have hstep : h2RecvData st f = { st with out := st.out ++ f.payload } := by
      unfold h2RecvData
      have h1 : ¬ (st.state ≠ .open) := by simp [hopen]
      have h2 : ¬ (st.bodyLen ≥ 0 ∧ st.bodyLen < ((st.out.length + f.payload.length : Nat) : Int)) := by
        rcases hb with hb | hb
        · omega
        · rw [hdata, List.length_append] at hb
          push_cast at hb ⊢
          omega
      simp only [h1, h2, hf, ↓reduceIte, Bool.false_eq_true]
    simp only [List.foldl_cons, hstep]
    have hb' : ({ st with out := st.out ++ f.payload } : H2Body).bodyLen = -1 ∨
        (((({ st with out := st.out ++ f.payload } : H2Body).out.length + (framesData tl).length : Nat)) : Int)
          ≤ ({ st with out := st.out ++ f.payload } : H2Body).bodyLen := by
      rcases hb with hb | hb
      · left; exact hb
      · right
        rw [hdata] at hb
        simp only [List.length_append] at hb ⊢
        push_cast at hb ⊢
        omega
    have := ih (fun x hx => hne x (by simp [hx])) { st with out := st.out ++ f.payload } hopen hb'
    rw [this]
    simp [hdata, List.append_assoc]

end LtVerif
