/-
  Helper lemmas for C09: header-name mapping, meta-variable list, path-info split,
  request-target split (Model/Cgi.lean, Model/Burl.lean `parseTarget`).
-/
import LtVerif.Model.Cgi
import LtVerif.Model.Burl
namespace LtVerif
open LtVerif B

theorem c09_u8_all {P : UInt8 → Prop} (h : ∀ n : Fin 256, P (UInt8.ofNat n.val)) : ∀ b, P b := by
  intro b
  have := h ⟨b.toNat, b.toNat_lt⟩
  simpa using this

/-! ### header name -> variable name -/

/-- the five letters of PROXY: the mapped byte is the upper-case letter exactly when the
    header byte is that letter in either case -/
theorem enc_letter_iff : ∀ c : UInt8,
    (encodeVarnameByte c = 80 ↔ toLower c = 112) ∧ (encodeVarnameByte c = 82 ↔ toLower c = 114) ∧
    (encodeVarnameByte c = 79 ↔ toLower c = 111) ∧ (encodeVarnameByte c = 88 ↔ toLower c = 120) ∧
    (encodeVarnameByte c = 89 ↔ toLower c = 121) := by
  apply c09_u8_all; set_option maxRecDepth 100000 in decide

/-- every mapped byte is an upper-case letter, a digit or '_' -/
theorem enc_charset : ∀ c : UInt8,
    isUpper (encodeVarnameByte c) = true ∨ isDigit (encodeVarnameByte c) = true ∨
      encodeVarnameByte c = uscore := by
  apply c09_u8_all; set_option maxRecDepth 100000 in decide

theorem map_enc_proxy (n : Bytes) :
    n.map encodeVarnameByte = [80, 82, 79, 88, 89] ↔ n.map toLower = [112, 114, 111, 120, 121] := by
  match n with
  | [] => simp
  | [_] => simp
  | [_, _] => simp
  | [_, _, _] => simp
  | [_, _, _, _] => simp
  | [a, b, c, d, e] =>
    have ha := enc_letter_iff a
    have hb := enc_letter_iff b
    have hc := enc_letter_iff c
    have hd := enc_letter_iff d
    have he := enc_letter_iff e
    simp only [List.map_cons, List.map_nil, List.cons.injEq, and_true]
    rw [ha.1, hb.2.1, hc.2.2.1, hd.2.2.2.1, he.2.2.2.2]
  | _ :: _ :: _ :: _ :: _ :: _ :: _ => simp

theorem encodeVarname_hdr (n : Bytes) : encodeVarname true n = httpPrefix ++ n.map encodeVarnameByte := by
  simp [encodeVarname]

theorem encodeVarname_proxy_iff (n : Bytes) :
    encodeVarname true n = ofString "HTTP_PROXY" ↔ eqIcase n (ofString "Proxy") = true := by
  have h1 : ofString "HTTP_PROXY" = httpPrefix ++ [80, 82, 79, 88, 89] := by decide
  have h2 : (ofString "Proxy").map toLower = [112, 114, 111, 120, 121] := by decide
  rw [encodeVarname_hdr, h1, List.append_cancel_left_eq, map_enc_proxy]
  simp only [eqIcase, h2, beq_iff_eq]

/-! ### the meta-variable list -/

theorem contentType_not_meta : ofString "CONTENT_TYPE" ∉ metaNames := by decide

theorem metaNames_no_http_prefix : ∀ m ∈ metaNames, httpPrefix.isPrefixOf m = false := by decide

theorem encodeVarname_not_meta (n : Bytes) : encodeVarname true n ∉ metaNames := by
  intro h
  have := metaNames_no_http_prefix _ h
  rw [encodeVarname_hdr] at this
  have hp : httpPrefix.isPrefixOf (httpPrefix ++ n.map encodeVarnameByte) = true := by
    rw [List.isPrefixOf_iff_prefix]; exact List.prefix_append _ _
  rw [hp] at this
  exact absurd this (by simp)

theorem optE_eq_some (c : Bool) (x y : String × Bytes) : optE c x = some y ↔ c = true ∧ x = y := by
  unfold optE; cases c <;> simp

theorem cgiMetaS_names (o : CgiOpts) (r : CgiReq) :
    ∀ p ∈ cgiMetaS o r, p.1 ∈ metaNamesS ∨ (r.h2ConnectExt = true ∧ p.1 ∈ h2ExtNamesS) := by
  intro p hp
  simp only [cgiMetaS, List.mem_filterMap, id_eq, exists_eq_right, List.mem_cons, List.not_mem_nil,
    or_false] at hp
  simp only [eq_comm (a := some p), optE_eq_some, Option.some.injEq] at hp
  rcases hp with h | h | h | h | h | h | h | h | h | h | h | h | h | h | h | h | h | h | h | h | h | h | h | h
  all_goals first
    | (obtain ⟨_, rfl⟩ := h; simp [metaNamesS]; done)
    | (subst h; simp [metaNamesS]; done)
    | (obtain ⟨hc, rfl⟩ := h
       right
       try simp only [Bool.and_eq_true] at hc
       first
         | exact ⟨hc.1, by simp [h2ExtNamesS]⟩
         | exact ⟨hc, by simp [h2ExtNamesS]⟩)

/-- what the client's fields become: never HTTP_PROXY, never a server-defined name, always from a
    field of the request with that value -/
theorem headerVars_sound (hs : List (Bytes × Bytes)) :
    ∀ p ∈ headerVars hs,
      p.1 ≠ ofString "HTTP_PROXY" ∧ p.1 ∉ metaNames ∧
      ∃ k, (k, p.2) ∈ hs ∧ p.2 ≠ [] ∧ eqIcase k (ofString "Proxy") = false ∧
        ((eqIcase k (ofString "Content-Type") = true ∧ p.1 = ofString "CONTENT_TYPE") ∨
         (eqIcase k (ofString "Content-Type") = false ∧ p.1 = encodeVarname true k)) := by
  intro p hp
  simp only [headerVars, List.mem_filterMap] at hp
  obtain ⟨⟨k, v⟩, hmem, hv⟩ := hp
  simp only [headerVar] at hv
  by_cases h1 : v.isEmpty = true
  · simp [h1] at hv
  · by_cases h2 : eqIcase k (ofString "Proxy") = true
    · simp [h1, h2] at hv
    · have hvne : v ≠ [] := by intro e; apply h1; rw [e]; rfl
      have h2' : eqIcase k (ofString "Proxy") = false := by simpa using h2
      by_cases h3 : eqIcase k (ofString "Content-Type") = true
      · simp only [h1, Bool.false_eq_true, ↓reduceIte, h2, h3, Option.some.injEq] at hv
        subst hv
        exact ⟨by show ofString "CONTENT_TYPE" ≠ ofString "HTTP_PROXY"; decide,
               contentType_not_meta, k, hmem, hvne, h2', Or.inl ⟨h3, rfl⟩⟩
      · simp only [h1, Bool.false_eq_true, ↓reduceIte, h2, h3, Option.some.injEq] at hv
        subst hv
        refine ⟨?_, encodeVarname_not_meta k, k, hmem, hvne, h2', Or.inr ⟨by simpa using h3, rfl⟩⟩
        intro e
        exact h2 ((encodeVarname_proxy_iff k).mp e)

/-- the value each of the request-derived names has in the fixed list (and that it has no other) -/
theorem cgiMetaS_values (o : CgiOpts) (r : CgiReq) (v : Bytes) :
    (("QUERY_STRING", v) ∈ cgiMetaS o r ↔ v = r.query) ∧
    (("REQUEST_URI", v) ∈ cgiMetaS o r ↔ v = requestUri o.stripRequestUri r.targetOrig) ∧
    (("CONTENT_LENGTH", v) ∈ cgiMetaS o r ↔ o.authorizer = false ∧ v = intDec r.bodyLen) ∧
    (("SCRIPT_NAME", v) ∈ cgiMetaS o r ↔ o.authorizer = false ∧ v = r.path) ∧
    (("PATH_INFO", v) ∈ cgiMetaS o r ↔ o.authorizer = false ∧ r.pathinfo ≠ [] ∧ v = r.pathinfo) ∧
    (("REQUEST_METHOD", v) ∈ cgiMetaS o r ↔
        v = if r.h2ConnectExt then ofString "GET" else r.method) ∧
    (("SERVER_PROTOCOL", v) ∈ cgiMetaS o r ↔
        v = if r.h2ConnectExt then ofString "HTTP/1.1" else versionName r.version) ∧
    (("REMOTE_ADDR", v) ∈ cgiMetaS o r ↔ v = r.remoteAddr) := by
  have hne : ∀ l : Bytes, (!l.isEmpty) = true ↔ l ≠ [] := by intro l; cases l <;> simp
  refine ⟨?_, ?_, ?_, ?_, ?_, ?_, ?_, ?_⟩ <;>
    simp [cgiMetaS, List.mem_filterMap, optE, eq_comm (a := v), hne, and_assoc]

/-- distinct variable names are distinct byte strings -/
theorem names_inj : ∀ a ∈ metaNamesS ++ h2ExtNamesS, ∀ b ∈ metaNamesS ++ h2ExtNamesS,
    ofString a = ofString b → a = b := by decide

/-- in the WHOLE variable list a server-defined name `n` has exactly the values it has in the
    fixed part: client fields can never produce it, and `r->env` does not when no module put a
    variable of that name there -/
theorem cgiEnv_meta_iff (o : CgiOpts) (r : CgiReq) (n : String) (hn : n ∈ metaNamesS) (v : Bytes)
    (henv : ∀ e ∈ r.env, encodeVarname false e.1 ≠ ofString n) :
    (ofString n, v) ∈ cgiEnv o r ↔ (n, v) ∈ cgiMetaS o r := by
  simp only [cgiEnv, List.mem_append, cgiMeta, List.mem_map, envVars]
  constructor
  · rintro ((⟨s, hs, he⟩ | hh) | ⟨e, he, hee⟩)
    · simp only [Prod.mk.injEq] at he
      have hs1 : s.1 ∈ metaNamesS ++ h2ExtNamesS := by
        rcases cgiMetaS_names o r s hs with h | ⟨_, h⟩
        · exact List.mem_append_left _ h
        · exact List.mem_append_right _ h
      have := names_inj s.1 hs1 n (List.mem_append_left _ hn) he.1
      rw [← this, ← he.2]; exact hs
    · have := (headerVars_sound r.headers _ hh).2.1
      exact absurd (List.mem_map.mpr ⟨n, hn, rfl⟩) this
    · simp only [Prod.mk.injEq] at hee
      exact absurd hee.1 (henv e he)
  · intro h
    exact Or.inl (Or.inl ⟨(n, v), h, rfl⟩)

/-! ### path-info split -/

theorem indexOf_spec (x : UInt8) : ∀ (l : Bytes) (k i : Nat), indexOf x l k = some i →
    k ≤ i ∧ i - k < l.length ∧ l.getD (i - k) 0 = x := by
  intro l
  induction l with
  | nil => intro k i h; simp [indexOf] at h
  | cons b t ih =>
    intro k i h
    unfold indexOf at h
    by_cases hb : b = x
    · simp only [hb, ↓reduceIte, Option.some.injEq] at h
      subst h; simp [hb]
    · simp only [hb, ↓reduceIte] at h
      obtain ⟨h1, h2, h3⟩ := ih (k + 1) i h
      refine ⟨by omega, by simp only [List.length_cons]; omega, ?_⟩
      have : i - k = (i - (k + 1)) + 1 := by omega
      rw [this, List.getD_cons_succ]; exact h3

theorem gwPathinfoSplit_concat (key : Bytes) (fix : Bool) (path : Bytes) :
    (gwPathinfoSplit key fix path).1 ++ (gwPathinfoSplit key fix path).2 = path := by
  unfold gwPathinfoSplit
  split
  · simp
  · split
    · split
      · simp only [List.take_append_drop]
      · simp
    · simp

theorem gwPathinfoSplit_pathinfo (key : Bytes) (fix : Bool) (path : Bytes)
    (hp : path.head? = some slash) :
    (gwPathinfoSplit key fix path).2 = [] ∨ (gwPathinfoSplit key fix path).2.head? = some slash := by
  unfold gwPathinfoSplit
  split
  · right; exact hp
  · split
    · split
      · rename_i i hi
        right
        obtain ⟨_, h2, h3⟩ := indexOf_spec slash _ 0 i hi
        simp only [Nat.sub_zero, List.length_drop] at h2 h3
        rw [List.getD_eq_getElem?_getD, List.getElem?_drop] at h3
        rw [List.head?_drop]
        have hlt : key.length + i < path.length := by omega
        rw [List.getElem?_eq_getElem hlt] at h3 ⊢
        simp only [Option.getD_some] at h3
        rw [h3]
      · left; rfl
    · left; rfl

/-! ### request-target split without URL normalisation -/

theorem findIdx_spec (p : UInt8 → Bool) : ∀ (l : Bytes) (k : Nat),
    (∀ i, findIdx p l k = some i →
      k ≤ i ∧ ∃ x, l = l.take (i - k) ++ x :: l.drop (i - k + 1) ∧ p x = true ∧
        ∀ y ∈ l.take (i - k), p y = false) ∧
    (findIdx p l k = none → ∀ y ∈ l, p y = false) := by
  intro l
  induction l with
  | nil => intro k; simp [findIdx]
  | cons b t ih =>
    intro k
    unfold findIdx
    by_cases hb : p b = true
    · simp only [hb, ↓reduceIte, Option.some.injEq, reduceCtorEq, false_imp_iff, and_true]
      intro i hi
      subst hi
      exact ⟨Nat.le_refl _, b, by simp, hb, by simp⟩
    · simp only [hb, Bool.false_eq_true, ↓reduceIte]
      obtain ⟨h1, h2⟩ := ih (k + 1)
      constructor
      · intro i hi
        obtain ⟨hle, x, hx1, hx2, hx3⟩ := h1 i hi
        have e : i - k = (i - (k + 1)) + 1 := by omega
        refine ⟨by omega, x, ?_, hx2, ?_⟩
        · rw [e]; simp only [List.take_succ_cons, List.drop_succ_cons, List.cons_append]
          congr 1
        · rw [e]; simp only [List.take_succ_cons, List.mem_cons]
          intro y hy
          rcases hy with rfl | hy
          · simpa using hb
          · exact hx3 y hy
      · intro hn y hy
        rcases List.mem_cons.mp hy with rfl | hy
        · simpa using hb
        · exact h2 hn y hy

/-! ### HTTP/2 DATA frames -/

/-- a well-formed padded / unpadded frame carries exactly its data: Pad Length octet and padding
    are stripped -/
theorem data_mk' (d : Bytes) (pad : Option Nat) (e : Bool) (hp : ∀ n, pad = some n → n < 256) :
    (DataFrame.mk' d pad e).data = some d := by
  cases pad with
  | none => simp [DataFrame.mk', DataFrame.data]
  | some n =>
    have hn : n < 256 := hp n rfl
    have e1 : n.toUInt8.toNat = n := by
      simp [Nat.toUInt8, UInt8.toNat_ofNat']; omega
    simp only [DataFrame.mk', DataFrame.data, ↓reduceIte]
    show (if n.toUInt8.toNat ≥ (n.toUInt8 :: (d ++ List.replicate n 0)).length then none
          else some (List.take ((d ++ List.replicate n 0).length - n.toUInt8.toNat) (d ++ List.replicate n 0))) = some d
    rw [e1]
    simp only [List.length_cons, List.length_append, List.length_replicate]
    have h1 : ¬ (n ≥ d.length + n + 1) := by omega
    rw [if_neg h1]
    have : d.length + n - n = d.length := by omega
    rw [this, List.take_left]

theorem framesData_cons (f : DataFrame) (tl : List DataFrame) (d : Bytes) (h : f.data = some d) :
    framesData (f :: tl) = d ++ framesData tl := by
  simp [framesData, h]

theorem mk'_endStream (d : Bytes) (p : Option Nat) (e : Bool) : (DataFrame.mk' d p e).endStream = e := by
  cases p <;> rfl

theorem framesData_mk' (ds : List (Bytes × Option Nat)) (hp : ∀ x ∈ ds, ∀ n, x.2 = some n → n < 256) :
    framesData (ds.map fun x => DataFrame.mk' x.1 x.2 false) = (ds.map (·.1)).flatten := by
  induction ds with
  | nil => rfl
  | cons x tl ih =>
    simp only [List.map_cons, List.flatten_cons]
    rw [framesData_cons _ _ x.1 (data_mk' x.1 x.2 false (hp x (by simp))),
      ih (fun y hy => hp y (by simp [hy]))]

theorem h2_fold_open (c : H2Cfg) (fs : List DataFrame)
    (hne : ∀ f ∈ fs, f.endStream = false ∧ f.data.isSome = true) :
    ∀ (st : H2Body), st.state = .open → st.goaway = false →
      (st.bodyLen = -1 ∨ ((st.out.length + (framesData fs).length : Nat) : Int) ≤ st.bodyLen) →
      (c.maxSize = 0 ∨ st.out.length + (framesData fs).length ≤ c.maxSize * 1024) →
      fs.foldl (h2RecvData c) st = { st with out := st.out ++ framesData fs } := by
  induction fs with
  | nil => intro st _ _ _ _; simp [framesData]
  | cons f tl ih =>
    intro st hopen hga hb hm
    obtain ⟨hf, hd⟩ := hne f (by simp)
    obtain ⟨d, hdd⟩ := Option.isSome_iff_exists.mp hd
    have hdata := framesData_cons f tl d hdd
    have hstep : h2RecvData c st f = { st with out := st.out ++ d } := by
      unfold h2RecvData
      simp only [hga, Bool.false_eq_true, ↓reduceIte, hdd, hopen, ne_eq, not_true_eq_false, hf]
      have h2 : ¬ (st.bodyLen ≥ 0 ∧ st.bodyLen < ((st.out.length + d.length : Nat) : Int)) := by
        rcases hb with hb | hb
        · omega
        · rw [hdata, List.length_append] at hb
          push_cast at hb ⊢
          omega
      simp only [h2, ↓reduceIte]
      by_cases hz0 : c.maxSize = 0
      · simp only [hz0, ↓reduceIte]
      · simp only [hz0, ↓reduceIte]
        have hn : ((c.maxSize * 1024 : Nat) : Int) - ((st.out.length + d.length : Nat) : Int) ≥ 0 := by
          rcases hm with hm | hm
          · exact absurd hm hz0
          · rw [hdata, List.length_append] at hm
            omega
        rw [if_pos hn]
    simp only [List.foldl_cons, hstep]
    have hb' : ({ st with out := st.out ++ d } : H2Body).bodyLen = -1 ∨
        (((({ st with out := st.out ++ d } : H2Body).out.length + (framesData tl).length : Nat)) : Int)
          ≤ ({ st with out := st.out ++ d } : H2Body).bodyLen := by
      rcases hb with hb | hb
      · left; exact hb
      · right
        rw [hdata] at hb
        simp only [List.length_append] at hb ⊢
        push_cast at hb ⊢
        omega
    have hm' : c.maxSize = 0 ∨
        ({ st with out := st.out ++ d } : H2Body).out.length + (framesData tl).length ≤ c.maxSize * 1024 := by
      rcases hm with hm | hm
      · left; exact hm
      · right; rw [hdata] at hm; simp only [List.length_append] at hm ⊢; omega
    have := ih (fun x hx => hne x (by simp [hx])) { st with out := st.out ++ d } hopen hga hb' hm'
    rw [this]
    simp [hdata, List.append_assoc]

/-- with a Content-Length, whatever frames arrive: reqbody_length is never changed and never more
    than Content-Length bytes are accepted -/
theorem h2_bounded_step (c : H2Cfg) (cl : Int) (hcl : cl ≥ 0) (st : H2Body) (f : DataFrame)
    (h : st.bodyLen = cl ∧ (st.out.length : Int) ≤ cl) :
    (h2RecvData c st f).bodyLen = cl ∧ ((h2RecvData c st f).out.length : Int) ≤ cl := by
  obtain ⟨h1, h2⟩ := h
  unfold h2RecvData
  split
  · exact ⟨h1, h2⟩
  · split
    · exact ⟨h1, h2⟩
    · rename_i d _
      have hneg : ¬ (st.bodyLen = -1) := by omega
      have key : ¬ (st.bodyLen ≥ 0 ∧ st.bodyLen < ((st.out.length + d.length : Nat) : Int)) →
          (((st.out ++ d).length : Nat) : Int) ≤ cl := by
        intro hh
        rw [List.length_append]
        omega
      simp only [hneg, ↓reduceIte]
      repeat' split
      all_goals first
        | exact ⟨h1, h2⟩
        | (refine ⟨h1, ?_⟩; apply key; assumption)

theorem h2_bounded (c : H2Cfg) (cl : Int) (hcl : cl ≥ 0) (fs : List DataFrame) :
    ∀ st : H2Body, st.bodyLen = cl ∧ (st.out.length : Int) ≤ cl →
      (fs.foldl (h2RecvData c) st).bodyLen = cl ∧ ((fs.foldl (h2RecvData c) st).out.length : Int) ≤ cl := by
  induction fs with
  | nil => intro st h; exact h
  | cons f tl ih =>
    intro st h
    simp only [List.foldl_cons]
    exact ih _ (h2_bounded_step c cl hcl st f h)

end LtVerif
