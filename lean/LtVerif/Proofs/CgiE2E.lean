/-
  Helper lemmas for C09: the variables of a NUL-free request are NUL-free (so the SCGI / envp
  round trips apply to `cgiEnv`), and the end-to-end statements tying CONTENT_LENGTH to the body.
-/
import LtVerif.Proofs.Cgi
import LtVerif.Proofs.FcgiRun
import LtVerif.Proofs.Scgi
namespace LtVerif
open LtVerif B

theorem nulFree_sub {a b : Bytes} (h : a.Sublist b) (hb : NulFree b) : NulFree a :=
  fun hm => hb (h.subset hm)

theorem nulFree_append {a b : Bytes} (ha : NulFree a) (hb : NulFree b) : NulFree (a ++ b) := by
  intro hm
  rcases List.mem_append.mp hm with h | h
  · exact ha h
  · exact hb h

theorem nulFree_nil : NulFree [] := by simp [NulFree]

theorem nulFree_natDec (n : Nat) : NulFree (natDec n) := by
  intro hm
  have := (natDec_spec n).2.1 0 hm
  exact absurd this (by decide)

theorem nulFree_intDec (i : Int) : NulFree (intDec i) := by
  unfold intDec
  split
  · intro hm
    rcases List.mem_cons.mp hm with h | h
    · exact absurd h (by decide)
    · exact nulFree_natDec _ h
  · exact nulFree_natDec _

theorem nulFree_pathJoin {a b : Bytes} (ha : NulFree a) (hb : NulFree b) : NulFree (pathJoin a b) := by
  unfold pathJoin
  simp only
  split
  · split
    · exact nulFree_append ha (nulFree_sub (List.drop_sublist _ _) hb)
    · exact nulFree_append ha hb
  · split
    · exact nulFree_append ha hb
    · apply nulFree_append ha
      intro hm
      rcases List.mem_cons.mp hm with h | h
      · exact absurd h (by decide)
      · exact hb h

theorem nulFree_requestUri (strip : Option Bytes) {t : Bytes} (ht : NulFree t) :
    NulFree (requestUri strip t) := by
  unfold requestUri
  split
  · exact ht
  · split
    · exact ht
    · split
      · exact nulFree_sub (List.drop_sublist _ _) ht
      · exact ht

theorem nulFree_versionName (v : Nat) : NulFree (versionName v) := by
  match v with
  | 0 => show (0 : UInt8) ∉ versionName 0; decide
  | 1 => show (0 : UInt8) ∉ versionName 1; decide
  | 2 => show (0 : UInt8) ∉ versionName 2; decide
  | n + 3 => simp [versionName, Extracted.C09.httpVersionNames, NulFree, ofString]

theorem nulFree_encodeVarname (isHdr : Bool) (k : Bytes) : NulFree (encodeVarname isHdr k) := by
  unfold encodeVarname
  apply nulFree_append
  · cases isHdr
    · exact nulFree_nil
    · show (0 : UInt8) ∉ httpPrefix; decide
  · intro hm
    obtain ⟨c, _, hc⟩ := List.mem_map.mp hm
    rcases enc_charset c with h | h | h
    · rw [hc] at h; exact absurd h (by decide)
    · rw [hc] at h; exact absurd h (by decide)
    · rw [hc] at h; exact absurd h (by decide)

theorem nulFree_names : ∀ n ∈ metaNamesS ++ h2ExtNamesS, NulFree (ofString n) := by
  intro n hn
  have : ∀ n ∈ metaNamesS ++ h2ExtNamesS, ((ofString n).contains (0 : UInt8)) = false := by decide
  have h := this n hn
  intro hm
  simp only [List.contains_eq_mem, decide_eq_false_iff_not] at h
  exact h hm

theorem nulFree_getD (d : Option Bytes) {b : Bytes} (hd : NulFree (d.getD [])) (hb : NulFree b) :
    NulFree (d.getD b) := by
  cases d with
  | none => exact hb
  | some x => exact hd

/-- every value of the fixed part is NUL-free -/
theorem cgiMetaS_nulFree (o : CgiOpts) (r : CgiReq) (h : ReqNulFree o r) :
    ∀ p ∈ cgiMetaS o r, NulFree p.2 := by
  intro p hp
  simp only [cgiMetaS, List.mem_filterMap, id_eq, exists_eq_right, List.mem_cons, List.not_mem_nil,
    or_false] at hp
  simp only [eq_comm (a := some p), optE_eq_some, Option.some.injEq] at hp
  have hlit : ∀ s : String, ((ofString s).contains (0 : UInt8)) = false → NulFree (ofString s) := by
    intro s hs hm
    simp only [List.contains_eq_mem, decide_eq_false_iff_not] at hs
    exact hs hm
  have hdr : NulFree (o.docroot.getD r.basedir) := nulFree_getD _ h.docroot h.basedir
  rcases hp with hh | hh | hh | hh | hh | hh | hh | hh | hh | hh | hh | hh | hh | hh | hh | hh | hh | hh |
    hh | hh | hh | hh | hh | hh
  · obtain ⟨_, rfl⟩ := hh; exact nulFree_intDec _
  · subst hh; exact h.query
  · subst hh; exact nulFree_requestUri _ h.targetOrig
  · obtain ⟨_, rfl⟩ := hh; exact h.target
  · obtain ⟨_, rfl⟩ := hh; exact hlit _ (by decide)
  · obtain ⟨_, rfl⟩ := hh; exact h.path
  · obtain ⟨_, rfl⟩ := hh; exact h.pathinfo
  · obtain ⟨_, rfl⟩ := hh; exact nulFree_pathJoin hdr h.pathinfo
  · subst hh
    show NulFree (match o.docroot with
      | some d => pathJoin d r.path
      | none => if o.breakScriptFilenameForPhp then pathJoin r.physPath r.pathinfo else r.physPath)
    cases hd : o.docroot with
    | some d =>
      have : NulFree d := by have := h.docroot; rw [hd] at this; exact this
      exact nulFree_pathJoin this h.path
    | none =>
      simp only
      split
      · exact nulFree_pathJoin h.physPath h.pathinfo
      · exact h.physPath
  · subst hh; exact hdr
  · subst hh
    show NulFree (if r.h2ConnectExt then ofString "GET" else r.method)
    split
    · exact hlit _ (by decide)
    · exact h.method
  · subst hh
    show NulFree (if r.h2ConnectExt then ofString "HTTP/1.1" else versionName r.version)
    split
    · exact hlit _ (by decide)
    · exact nulFree_versionName _
  · obtain ⟨_, rfl⟩ := hh; exact hlit _ (by decide)
  · obtain ⟨_, rfl⟩ := hh; exact hlit _ (by decide)
  · obtain ⟨_, rfl⟩ := hh; exact hlit _ (by decide)
  · subst hh; exact h.serverTag
  · subst hh; exact hlit _ (by decide)
  · subst hh; exact h.scheme
  · obtain ⟨_, rfl⟩ := hh; exact hlit _ (by decide)
  · subst hh
    show NulFree (serverPort r)
    unfold serverPort
    split
    · exact nulFree_sub (List.drop_sublist _ _) h.srvToken
    · show (0 : UInt8) ∉ [48]; decide
  · subst hh
    show NulFree (serverAddr r)
    unfold serverAddr
    split
    · split
      · exact h.localAddr
      · exact nulFree_sub (List.take_sublist _ _) h.srvToken
    · exact nulFree_nil
  · subst hh
    show NulFree (serverNameVar r)
    unfold serverNameVar
    simp only
    split
    · exact nulFree_nil
    · split
      · split
        · exact nulFree_sub (List.take_sublist _ _) h.serverName
        · exact h.serverName
      · split
        · exact nulFree_sub (List.take_sublist _ _) h.serverName
        · exact h.serverName
  · subst hh; exact h.remoteAddr
  · subst hh; exact nulFree_natDec _

/-- the variables handed to the backend are NUL-free when the request is -/
theorem cgiEnv_nulFree (o : CgiOpts) (r : CgiReq) (h : ReqNulFree o r) : EnvNulFree (cgiEnv o r) := by
  intro p hp
  simp only [cgiEnv, List.mem_append, cgiMeta, List.mem_map, envVars] at hp
  rcases hp with (⟨s, hs, rfl⟩ | hh) | ⟨e, he, rfl⟩
  · constructor
    · have hs1 : s.1 ∈ metaNamesS ++ h2ExtNamesS := by
        rcases cgiMetaS_names o r s hs with h' | ⟨_, h'⟩
        · exact List.mem_append_left _ h'
        · exact List.mem_append_right _ h'
      exact nulFree_names _ hs1
    · exact cgiMetaS_nulFree o r h s hs
  · obtain ⟨_, _, k, hk, _, _, hname⟩ := headerVars_sound r.headers p hh
    constructor
    · rcases hname with ⟨_, e⟩ | ⟨_, e⟩
      · rw [e]; show (0 : UInt8) ∉ ofString "CONTENT_TYPE"; decide
      · rw [e]; exact nulFree_encodeVarname _ _
    · exact h.headers (k, p.2) hk
  · exact ⟨nulFree_encodeVarname _ _, h.env e he⟩

theorem intDec_ofNat (n : Nat) : intDec (n : Int) = natDec n := by
  unfold intDec
  have : ¬ ((n : Int) < 0) := by omega
  simp [this]

end LtVerif
