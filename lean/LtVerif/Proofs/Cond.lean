/-
  Helper lemmas for C14: specification of conditional configuration (`spec`, `Applies`),
  cache coherence of `check`, correctness of the clear walk (`clearNode`) and of
  `resetItem`, directive merge, host[:port] rule.
-/
import LtVerif.Model.Cond
namespace LtVerif.Cond
open LtVerif B

/-! ### cache columns -/

theorem colGet_colSet (l : Col) (i : Nat) (v : Res) (j : Nat) :
    colGet (colSet l i v) j = if j = i ∧ i < l.length then v else colGet l j := by
  unfold colGet colSet
  simp only [List.getD_eq_getElem?_getD, List.getElem?_set]
  by_cases h : i = j
  · subst h
    by_cases h2 : i < l.length <;> simp [h2]
  · have : ¬ j = i := fun e => h e.symm
    simp [h, this]

theorem colGet_colSet_eq {l : Col} {i : Nat} (v : Res) (h : i < l.length) :
    colGet (colSet l i v) i = v := by simp [colGet_colSet, h]

theorem colGet_colSet_ne {l : Col} {i j : Nat} (v : Res) (h : j ≠ i) :
    colGet (colSet l i v) j = colGet l j := by simp [colGet_colSet, h]

@[simp] theorem length_colSet (l : Col) (i : Nat) (v : Res) : (colSet l i v).length = l.length := by
  simp [colSet]

theorem colGet_replicate (n j : Nat) : colGet (List.replicate n Res.unset) j = .unset := by
  unfold colGet
  simp only [List.getD_eq_getElem?_getD, List.getElem?_replicate]
  split <;> simp

/-! ### well-formed trees (what configparser.y builds) -/

/-- parent and prev point to earlier blocks; an else-branch has the parent of the branch
    before it; `next` is the inverse of `prev`; `children` lists exactly the blocks
    whose parent is this block. -/
structure WF (t : Tree) : Prop where
  parent_lt : ∀ i, i < t.length → (t.node i).parent ≠ 0 → (t.node i).parent < i
  prev_ok : ∀ i, i < t.length → ∀ q ∈ (t.node i).prev,
      1 ≤ q ∧ q < i ∧ (t.node q).parent = (t.node i).parent ∧ (t.node q).next = some i
  next_ok : ∀ i, i < t.length → ∀ k ∈ (t.node i).next, k < t.length ∧ (t.node k).prev = some i
  children_sub : ∀ i, i < t.length → ∀ j ∈ (t.node i).children,
      1 ≤ j ∧ j < t.length ∧ (t.node j).parent = i
  children_sup : ∀ j, j < t.length → 1 ≤ j → j ∈ (t.node (t.node j).parent).children

theorem wf_iff (t : Tree) : WF t ↔
    (∀ i, i < t.length → (t.node i).parent ≠ 0 → (t.node i).parent < i) ∧
    (∀ i, i < t.length → ∀ q ∈ (t.node i).prev,
      1 ≤ q ∧ q < i ∧ (t.node q).parent = (t.node i).parent ∧ (t.node q).next = some i) ∧
    (∀ i, i < t.length → ∀ k ∈ (t.node i).next, k < t.length ∧ (t.node k).prev = some i) ∧
    (∀ i, i < t.length → ∀ j ∈ (t.node i).children,
      1 ≤ j ∧ j < t.length ∧ (t.node j).parent = i) ∧
    (∀ j, j < t.length → 1 ≤ j → j ∈ (t.node (t.node j).parent).children) :=
  ⟨fun h => ⟨h.1, h.2, h.3, h.4, h.5⟩, fun h => ⟨h.1, h.2.1, h.2.2.1, h.2.2.2.1, h.2.2.2.2⟩⟩

instance (t : Tree) : Decidable (WF t) := decidable_of_iff _ (wf_iff t).symm

example : WF (link [{}, {comp := .host, cond := .eq}, {parent := 1, comp := .url, cond := .eq}, {parent := 1, prev := some 2, comp := .url, cond := .else_}]) := by decide


/-! ### the specification: what the configuration language says -/

/-- how a block's own condition combines with its parent's and previous branch's outcome -/
def combine (pr qr l : Res) : Res :=
  match pr with
  | .true_ =>
    (match qr with
     | .false_ => l
     | .unset => .unset
     | _ => .skip)
  | .unset => .unset
  | _ => .skip

/-- four-valued outcome of block `i` for attributes `e`, by recursion on the tree
    (first argument: fuel; `spec` supplies enough) -/
def spec4 (t : Tree) (e : Env) : Nat → Nat → Res
  | 0, _ => .unset
  | f + 1, i =>
    combine (if (t.node i).parent ≠ 0 then spec4 t e f (t.node i).parent else .true_)
      (match (t.node i).prev with | some q => spec4 t e f q | none => .false_)
      (Res.ofBool (evalLocal (t.node i) e))

def spec (t : Tree) (e : Env) (i : Nat) : Res := spec4 t e (i + 1) i

theorem spec4_stable {t : Tree} (hwf : WF t) (e : Env) :
    ∀ f f' i, i < t.length → i < f → i < f' → spec4 t e f i = spec4 t e f' i := by
  intro f
  induction f with
  | zero => intro f' i _ h; omega
  | succ f ih =>
    intro f' i hi hf hf'
    cases f' with
    | zero => omega
    | succ f' =>
      simp only [spec4]
      have hp : (if (t.node i).parent ≠ 0 then spec4 t e f (t.node i).parent else Res.true_) =
          (if (t.node i).parent ≠ 0 then spec4 t e f' (t.node i).parent else Res.true_) := by
        by_cases h0 : (t.node i).parent = 0
        · simp [h0]
        · have hlt := hwf.parent_lt i hi h0
          simp only [ne_eq, h0, not_false_eq_true, if_true]
          exact ih f' _ (by omega) (by omega) (by omega)
      have hq : (match (t.node i).prev with | some q => spec4 t e f q | none => Res.false_) =
          (match (t.node i).prev with | some q => spec4 t e f' q | none => Res.false_) := by
        cases hpv : (t.node i).prev with
        | none => rfl
        | some q =>
          have := hwf.prev_ok i hi q (by simp [hpv])
          simp only
          exact ih f' q (by omega) (by omega) (by omega)
      rw [hp, hq]

theorem spec_unfold {t : Tree} (hwf : WF t) (e : Env) {i : Nat} (hi : i < t.length) :
    spec t e i =
      combine (if (t.node i).parent ≠ 0 then spec t e (t.node i).parent else .true_)
        (match (t.node i).prev with | some q => spec t e q | none => .false_)
        (Res.ofBool (evalLocal (t.node i) e)) := by
  unfold spec
  rw [spec4]
  congr 1
  · by_cases h0 : (t.node i).parent = 0
    · simp [h0]
    · have hlt := hwf.parent_lt i hi h0
      simp only [ne_eq, h0, not_false_eq_true, if_true]
      exact spec4_stable hwf e _ _ _ (by omega) (by omega) (by omega)
  · cases hpv : (t.node i).prev with
    | none => rfl
    | some q =>
      have := hwf.prev_ok i hi q (by simp [hpv])
      simp only
      exact spec4_stable hwf e _ _ _ (by omega) (by omega) (by omega)

theorem ofBool_ne_unset (b : Bool) : Res.ofBool b ≠ .unset := by
  cases b <;> simp [Res.ofBool]

theorem ofBool_ne_skip (b : Bool) : Res.ofBool b ≠ .skip := by
  cases b <;> simp [Res.ofBool]

theorem combine_ne_unset {pr qr l : Res} (hp : pr ≠ .unset) (hq : qr ≠ .unset) (hl : l ≠ .unset) :
    combine pr qr l ≠ .unset := by
  cases pr <;> cases qr <;> simp_all [combine]

theorem spec_ne_unset {t : Tree} (hwf : WF t) (e : Env) :
    ∀ i, i < t.length → spec t e i ≠ .unset := by
  intro i
  induction i using Nat.strongRecOn with
  | _ i ih =>
    intro hi
    rw [spec_unfold hwf e hi]
    apply combine_ne_unset
    · by_cases h0 : (t.node i).parent = 0
      · simp [h0]
      · have hlt := hwf.parent_lt i hi h0
        simp only [ne_eq, h0, not_false_eq_true, if_true]
        exact ih _ hlt (by omega)
    · cases hpv : (t.node i).prev with
      | none => simp
      | some q =>
        have := hwf.prev_ok i hi q (by simp [hpv])
        exact ih q (by omega) (by omega)
    · exact ofBool_ne_unset _

/-! ### cache coherence -/

/-- a set entry implies the parent's entry is set (so clearing can stop at unset entries) -/
def Closed (t : Tree) (res : Col) : Prop :=
  ∀ j, j < t.length → colGet res j ≠ .unset → (t.node j).parent ≠ 0 →
    colGet res (t.node j).parent ≠ .unset

/-- the cache agrees with the specification on the current attributes wherever it is set -/
structure Coh (t : Tree) (e : Env) (c : Cache) : Prop where
  len_res : c.res.length = t.length
  len_loc : c.loc.length = t.length
  loc_ok : ∀ j, j < t.length → colGet c.loc j ≠ .unset →
      colGet c.loc j = Res.ofBool (evalLocal (t.node j) e)
  res_ok : ∀ j, j < t.length → colGet c.res j ≠ .unset → colGet c.res j = spec t e j
  closed : Closed t c.res

theorem coh_empty (t : Tree) (e : Env) : Coh t e (Cache.empty t.length) := by
  refine ⟨by simp [Cache.empty], by simp [Cache.empty], ?_, ?_, ?_⟩
  · intro j _ h; simp [Cache.empty, colGet_replicate] at h
  · intro j _ h; simp [Cache.empty, colGet_replicate] at h
  · intro j _ h; simp [Cache.empty, colGet_replicate] at h

theorem Coh.setRes {t : Tree} (hwf : WF t) {e : Env} {c : Cache} (h : Coh t e c) {i : Nat} {r : Res}
    (hi : i < t.length) (hr : r = spec t e i)
    (hp : (t.node i).parent ≠ 0 → colGet c.res (t.node i).parent ≠ .unset) :
    Coh t e (c.setRes i r) := by
  refine ⟨by simp [Cache.setRes, h.len_res], by simp [Cache.setRes, h.len_loc], ?_, ?_, ?_⟩
  · exact h.loc_ok
  · intro j hj hne
    simp only [Cache.setRes, colGet_colSet] at hne ⊢
    by_cases hji : j = i
    · subst hji; simp [h.len_res, hj, hr]
    · simp only [hji, false_and, if_false] at hne ⊢
      exact h.res_ok j hj hne
  · intro j hj hne hpar
    simp only [Cache.setRes, colGet_colSet] at hne ⊢
    have hrne : r ≠ .unset := by rw [hr]; exact spec_ne_unset hwf e i hi
    by_cases hpj : (t.node j).parent = i
    · simp only [hpj, true_and, h.len_res, hi, if_true]; exact hrne
    · simp only [hpj, false_and, if_false]
      by_cases hji : j = i
      · subst hji; exact hp hpar
      · simp only [hji, false_and, if_false] at hne
        exact h.closed j hj hne hpar

theorem Coh.setLoc {t : Tree} {e : Env} {c : Cache} (h : Coh t e c) {i : Nat} {r : Res}
    (hr : r = Res.ofBool (evalLocal (t.node i) e)) : Coh t e (c.setLoc i r) := by
  refine ⟨by simp [Cache.setLoc, h.len_res], by simp [Cache.setLoc, h.len_loc], ?_, h.res_ok, h.closed⟩
  intro j hj hne
  simp only [Cache.setLoc, colGet_colSet] at hne ⊢
  by_cases hji : j = i
  · subst hji; simp [h.len_loc, hj, hr]
  · simp only [hji, false_and, if_false] at hne ⊢
    exact h.loc_ok j hj hne

theorem combine_true_false (l : Res) : combine .true_ .false_ l = l := rfl

/-- `Deps t i k`: the outcome of block `i` may depend on field `k`: the field it tests, those
    its enclosing blocks test, and those the earlier branches of its and their chains test -/
inductive Deps (t : Tree) : Nat → Comp → Prop
  | self (i : Nat) : Deps t i (t.node i).comp
  | parent {i : Nat} {k : Comp} : (t.node i).parent ≠ 0 → Deps t (t.node i).parent k → Deps t i k
  | prev {i q : Nat} {k : Comp} : (t.node i).prev = some q → Deps t q k → Deps t i k

/-- every field block `i` may depend on is available (bits of r->conditional_is_valid) -/
def DepsValid (t : Tree) (valid : Comp → Bool) (i : Nat) : Prop := ∀ k, Deps t i k → valid k = true

/-- every field tested anywhere in the configuration is available (the mask
    http_response_comeback() / http_request_headers_fin() establish) -/
def TreeValid (t : Tree) (valid : Comp → Bool) : Prop :=
  ∀ i, 1 ≤ i → i < t.length → valid (t.node i).comp = true

/-- postcondition of one `check` call -/
def CheckPost (t : Tree) (e : Env) (valid : Comp → Bool) (i : Nat) (c : Cache)
    (out : Res × Cache) : Prop :=
  Coh t e out.2 ∧
  (out.1 ≠ .unset → out.1 = spec t e i ∧ colGet out.2.res i = out.1) ∧
  (∀ j, colGet c.res j ≠ .unset → colGet out.2.res j = colGet c.res j) ∧
  (DepsValid t valid i → out.1 ≠ .unset)

theorem localStep_post {t : Tree} (hwf : WF t) {e : Env} (valid : Comp → Bool) {c : Cache} {i : Nat}
    (h : Coh t e c) (hi : i < t.length)
    (hp : (t.node i).parent ≠ 0 → colGet c.res (t.node i).parent ≠ .unset)
    (hs : spec t e i = Res.ofBool (evalLocal (t.node i) e)) :
    Coh t e (localStep valid (t.node i) e i c).2 ∧
    ((localStep valid (t.node i) e i c).1 ≠ .unset →
      (localStep valid (t.node i) e i c).1 = spec t e i ∧
      colGet (localStep valid (t.node i) e i c).2.res i = (localStep valid (t.node i) e i c).1) ∧
    (∀ j, j ≠ i → colGet (localStep valid (t.node i) e i c).2.res j = colGet c.res j) ∧
    (valid (t.node i).comp = true → (localStep valid (t.node i) e i c).1 ≠ .unset) := by
  unfold localStep
  by_cases hv : valid (t.node i).comp = true
  · simp only [hv, Bool.not_true, Bool.false_eq_true, if_false]
    have hl := h.loc_ok i hi
    cases hloc : colGet c.loc i with
    | true_ =>
      have : Res.true_ = spec t e i := by rw [hs, ← hl (by simp [hloc]), hloc]
      refine ⟨h.setRes hwf hi this hp, fun _ => ⟨this, ?_⟩, ?_, fun _ => by simp⟩
      · simp [Cache.setRes, colGet_colSet, h.len_res, hi]
      · intro j hj; simp [Cache.setRes, colGet_colSet_ne _ hj]
    | false_ =>
      have : Res.false_ = spec t e i := by rw [hs, ← hl (by simp [hloc]), hloc]
      refine ⟨h.setRes hwf hi this hp, fun _ => ⟨this, ?_⟩, ?_, fun _ => by simp⟩
      · simp [Cache.setRes, colGet_colSet, h.len_res, hi]
      · intro j hj; simp [Cache.setRes, colGet_colSet_ne _ hj]
    | unset =>
      simp only
      have h1 : Coh t e (c.setLoc i (Res.ofBool (evalLocal (t.node i) e))) := h.setLoc rfl
      refine ⟨h1.setRes hwf hi hs.symm (by simpa [Cache.setLoc] using hp),
        fun _ => ⟨hs.symm, ?_⟩, ?_, fun _ => ofBool_ne_unset _⟩
      · simp [Cache.setRes, Cache.setLoc, colGet_colSet, h.len_res, hi]
      · intro j hj; simp [Cache.setRes, Cache.setLoc, colGet_colSet_ne _ hj]
    | skip =>
      simp only
      have h1 : Coh t e (c.setLoc i (Res.ofBool (evalLocal (t.node i) e))) := h.setLoc rfl
      refine ⟨h1.setRes hwf hi hs.symm (by simpa [Cache.setLoc] using hp),
        fun _ => ⟨hs.symm, ?_⟩, ?_, fun _ => ofBool_ne_unset _⟩
      · simp [Cache.setRes, Cache.setLoc, colGet_colSet, h.len_res, hi]
      · intro j hj; simp [Cache.setRes, Cache.setLoc, colGet_colSet_ne _ hj]
  · have hv' : valid (t.node i).comp = false := by simpa using hv
    simp only [hv', Bool.not_false, if_true]
    refine ⟨h, ?_, ?_, ?_⟩
    · intro hne; exact absurd rfl hne
    · intro j _; trivial
    · intro hall; simp at hall

theorem combine_skip_left {pr : Res} (qr l : Res) (h : pr = .skip ∨ pr = .false_) :
    combine pr qr l = .skip := by
  rcases h with h | h <;> subst h <;> rfl

theorem combine_skip_mid {qr : Res} (l : Res) (h : qr = .skip ∨ qr = .true_) :
    combine .true_ qr l = .skip := by
  rcases h with h | h <;> subst h <;> rfl

theorem afterPrev_post {t : Tree} (hwf : WF t) {e : Env} (valid : Comp → Bool) {c : Cache} {i : Nat}
    (hi : i < t.length) (hun : colGet c.res i = .unset) (Q : Res × Cache)
    (hQ1 : Coh t e Q.2)
    (hQs : Q.1 ≠ .unset → spec t e i = combine .true_ Q.1 (Res.ofBool (evalLocal (t.node i) e)))
    (hmono : ∀ j, colGet c.res j ≠ .unset → colGet Q.2.res j = colGet c.res j)
    (hQpar : (t.node i).parent ≠ 0 → colGet Q.2.res (t.node i).parent ≠ .unset)
    (hQ4 : DepsValid t valid i → Q.1 ≠ .unset) :
    CheckPost t e valid i c (afterPrev valid (t.node i) e i Q) := by
  unfold afterPrev
  have hskipQ : (Q.1 = .skip ∨ Q.1 = .true_) →
      CheckPost t e valid i c (Res.skip, Q.2.setRes i .skip) := by
    intro hsk
    have hne : Q.1 ≠ .unset := by rcases hsk with h | h <;> simp [h]
    have hs : Res.skip = spec t e i := by
      rw [hQs hne]; exact (combine_skip_mid _ hsk).symm
    refine ⟨hQ1.setRes hwf hi hs hQpar, fun _ => ⟨hs, ?_⟩, ?_, fun _ => by simp⟩
    · simp [Cache.setRes, colGet_colSet, hQ1.len_res, hi]
    · intro j hj
      have hji : j ≠ i := fun h => hj (h ▸ hun)
      simp only [Cache.setRes, colGet_colSet_ne _ hji]
      exact hmono j hj
  cases hq1 : Q.1 with
  | unset =>
    exact ⟨hQ1, fun h => absurd rfl h, hmono, fun hall => absurd hq1 (hQ4 hall)⟩
  | skip => exact hskipQ (Or.inl hq1)
  | true_ => exact hskipQ (Or.inr hq1)
  | false_ =>
    have hQne : Q.1 ≠ .unset := by simp [hq1]
    have hs : spec t e i = Res.ofBool (evalLocal (t.node i) e) := by
      rw [hQs hQne, hq1]; rfl
    obtain ⟨l1, l2, l3, l4⟩ := localStep_post hwf valid hQ1 hi hQpar hs
    refine ⟨l1, l2, ?_, fun hall => l4 (hall _ (Deps.self i))⟩
    intro j hj
    have hji : j ≠ i := fun h => hj (h ▸ hun)
    show colGet (localStep valid (t.node i) e i Q.2).2.res j = colGet c.res j
    rw [l3 j hji]; exact hmono j hj

theorem check_post {t : Tree} (hwf : WF t) (e : Env) (valid : Comp → Bool) :
    ∀ f i c, i < t.length → i < f → Coh t e c →
      CheckPost t e valid i c (check t e valid f i c) := by
  intro f
  induction f with
  | zero => intro i c _ h; omega
  | succ f ih =>
    intro i c hi hf hc
    rw [check]
    by_cases hcached : colGet c.res i ≠ .unset
    · simp only [hcached, ne_eq, not_false_eq_true, if_true]
      exact ⟨hc, fun _ => ⟨hc.res_ok i hi hcached, rfl⟩, fun _ _ => rfl, fun _ => hcached⟩
    · have hun : colGet c.res i = .unset := by simpa using hcached
      simp only [hun, ne_eq, not_true_eq_false, if_false]
      -- parent step
      generalize hP : parentStep (check t e valid f) (t.node i) c = P
      have hPpost : Coh t e P.2 ∧
          (P.1 ≠ .unset →
            P.1 = (if (t.node i).parent ≠ 0 then spec t e (t.node i).parent else .true_) ∧
            ((t.node i).parent ≠ 0 → colGet P.2.res (t.node i).parent ≠ .unset)) ∧
          (∀ j, colGet c.res j ≠ .unset → colGet P.2.res j = colGet c.res j) ∧
          (DepsValid t valid i → P.1 ≠ .unset) := by
        unfold parentStep at hP
        by_cases h0 : (t.node i).parent = 0
        · simp only [h0, ne_eq, not_true_eq_false, if_false] at hP ⊢
          subst hP
          exact ⟨hc, fun _ => ⟨rfl, fun h => by simp at h⟩, fun _ _ => rfl, fun _ => by simp⟩
        · have hlt := hwf.parent_lt i hi h0
          simp only [ne_eq, h0, not_false_eq_true, if_true] at hP ⊢
          have := ih (t.node i).parent c (by omega) (by omega) hc
          rw [hP] at this
          obtain ⟨h1, h2, h3, h4⟩ := this
          exact ⟨h1, fun hne => ⟨(h2 hne).1, fun _ => by rw [(h2 hne).2]; exact hne⟩, h3,
            fun hall => h4 (fun k hk => hall k (Deps.parent h0 hk))⟩
      obtain ⟨hP1, hP2, hP3, hP4⟩ := hPpost
      have hspec := spec_unfold hwf e hi
      have hskipP : (P.1 = .skip ∨ P.1 = .false_) →
          CheckPost t e valid i c (Res.skip, P.2.setRes i .skip) := by
        intro hsk
        have hne : P.1 ≠ .unset := by rcases hsk with h | h <;> simp [h]
        have hs : Res.skip = spec t e i := by
          rw [hspec, ← (hP2 hne).1]; exact (combine_skip_left _ _ hsk).symm
        refine ⟨hP1.setRes hwf hi hs (hP2 hne).2, fun _ => ⟨hs, ?_⟩, ?_, fun _ => by simp⟩
        · simp [Cache.setRes, colGet_colSet, hP1.len_res, hi]
        · intro j hj
          have hji : j ≠ i := fun h => hj (h ▸ hun)
          simp only [Cache.setRes, colGet_colSet_ne _ hji]
          exact hP3 j hj
      cases hp1 : P.1 with
      | unset =>
        exact ⟨hP1, fun h => absurd rfl h, hP3, fun hall => absurd hp1 (hP4 hall)⟩
      | skip => exact hskipP (Or.inl hp1)
      | false_ => exact hskipP (Or.inr hp1)
      | true_ =>
        have hPne : P.1 ≠ .unset := by simp [hp1]
        have hPs := (hP2 hPne).1
        have hPpar := (hP2 hPne).2
        rw [hp1] at hPs
        -- prev step
        generalize hQ : prevStep (check t e valid f) (t.node i) P.2 = Q
        have hQpost : Coh t e Q.2 ∧
            (Q.1 ≠ .unset →
              Q.1 = (match (t.node i).prev with | some q => spec t e q | none => .false_)) ∧
            (∀ j, colGet P.2.res j ≠ .unset → colGet Q.2.res j = colGet P.2.res j) ∧
            (DepsValid t valid i → Q.1 ≠ .unset) := by
          unfold prevStep at hQ
          cases hpv : (t.node i).prev with
          | none =>
            simp only [hpv] at hQ
            subst hQ
            exact ⟨hP1, fun _ => rfl, fun _ _ => rfl, fun _ => by simp⟩
          | some q =>
            simp only [hpv] at hQ
            have hq := hwf.prev_ok i hi q (by simp [hpv])
            have := ih q P.2 (by omega) (by omega) hP1
            rw [hQ] at this
            obtain ⟨h1, h2, h3, h4⟩ := this
            exact ⟨h1, fun hne => (h2 hne).1, h3,
              fun hall => h4 (fun k hk => hall k (Deps.prev hpv hk))⟩
        obtain ⟨hQ1, hQ2, hQ3, hQ4⟩ := hQpost
        apply afterPrev_post hwf valid hi hun Q hQ1 _ _ _ hQ4
        · intro hne
          rw [hspec, ← hPs, ← hQ2 hne]
        · intro j hj
          rw [hQ3 j (by rw [hP3 j hj]; exact hj), hP3 j hj]
        · intro h0
          rw [hQ3 _ (hPpar h0)]; exact hPpar h0

/-! ### config_cond_clear_node() -/

theorem wf_child_gt {t : Tree} (hwf : WF t) {i h : Nat} (hi : i < t.length)
    (hh : h ∈ (t.node i).children) : i < h ∧ h < t.length ∧ (t.node h).parent = i := by
  obtain ⟨h1, h2, h3⟩ := hwf.children_sub i hi h hh
  refine ⟨?_, h2, h3⟩
  by_cases h0 : i = 0
  · omega
  · have := hwf.parent_lt h h2 (by rw [h3]; exact h0)
    omega

theorem wf_next_gt {t : Tree} (hwf : WF t) {i k : Nat} (hi : i < t.length)
    (hk : (t.node i).next = some k) : i < k ∧ k < t.length ∧ (t.node k).prev = some i := by
  obtain ⟨h1, h2⟩ := hwf.next_ok i hi k (by simp [hk])
  have := hwf.prev_ok k h1 i (by simp [h2])
  exact ⟨by omega, h1, h2⟩

/-- bookkeeping for one run of the clear walk: `res0` = the column before the walk,
    `S` = blocks the walk has been called on, `Pnd` = blocks whose call is still open -/
structure CInv (t : Tree) (res0 res : Col) (S Pnd : Nat → Prop) : Prop where
  len : res.length = res0.length
  cleared : ∀ i, S i → colGet res i = .unset
  changed : ∀ j, colGet res j = colGet res0 j ∨ (colGet res j = .unset ∧ (S j ∨ Pnd j))
  next_closed : ∀ i k, S i → (t.node i).next = some k → S k
  heads : ∀ i h, S i → colGet res0 i ≠ .unset → h ∈ (t.node i).children →
      (t.node h).prev = none → S h
  inrange : ∀ i, S i → i < t.length

theorem clearNode_unset_stays (always : Bool) (t : Tree) :
    ∀ f i res j, colGet res j = .unset → colGet (clearNode always t f i res) j = .unset := by
  intro f
  induction f with
  | zero => intro i res j h; simpa [clearNode] using h
  | succ f ih =>
    intro i res j h
    rw [clearNode]
    have hfold : ∀ (L : List Nat) (r : Col), colGet r j = .unset →
        colGet (L.foldl (fun r ch => clearNode always t f ch r) r) j = .unset := by
      intro L
      induction L with
      | nil => intro r hr; simpa using hr
      | cons x xs ihL => intro r hr; simp only [List.foldl_cons]; exact ihL _ (ih x r j hr)
    by_cases hc : colGet res i ≠ .unset
    · simp only [hc, ne_eq, not_false_eq_true, if_true]
      have h1 : colGet (colSet res i .unset) j = .unset := by
        rw [colGet_colSet]; split <;> simp [h]
      cases hn : (t.node i).next with
      | none => simp only; exact hfold _ _ h1
      | some k => simp only; exact ih _ _ _ (hfold _ _ h1)
    · simp only [hc, if_false]
      cases always with
      | false => simpa using h
      | true =>
        simp only [if_true]
        cases hn : (t.node i).next with
        | none => simpa using h
        | some k => simp only; exact ih _ _ _ h

theorem clearNode_length (always : Bool) (t : Tree) :
    ∀ f i res, (clearNode always t f i res).length = res.length := by
  intro f
  induction f with
  | zero => intro i res; simp [clearNode]
  | succ f ih =>
    intro i res
    rw [clearNode]
    have hfold : ∀ (L : List Nat) (r : Col),
        (L.foldl (fun r ch => clearNode always t f ch r) r).length = r.length := by
      intro L
      induction L with
      | nil => intro r; rfl
      | cons x xs ihL => intro r; simp only [List.foldl_cons]; rw [ihL, ih]
    by_cases hc : colGet res i ≠ .unset
    · simp only [hc, ne_eq, not_false_eq_true, if_true]
      cases hn : (t.node i).next with
      | none => simp only; rw [hfold]; simp
      | some k => simp only; rw [ih, hfold]; simp
    · simp only [hc, if_false]
      cases always with
      | false => simp
      | true =>
        simp only [if_true]
        cases hn : (t.node i).next with
        | none => simp
        | some k => simp only; rw [ih]

theorem clearNode_inv {t : Tree} (hwf : WF t) (res0 : Col) (hlen0 : res0.length = t.length) :
    ∀ f i res (S Pnd : Nat → Prop), i < t.length → t.length - i ≤ f →
      CInv t res0 res S Pnd → (∀ p, Pnd p → p < i) →
      ∃ S', CInv t res0 (clearNode true t f i res) S' Pnd ∧ (∀ x, S x → S' x) ∧ S' i := by
  intro f
  induction f with
  | zero => intro i res S Pnd hi hf; omega
  | succ f ih =>
    intro i res S Pnd hi hf hinv hpnd
    rw [clearNode]
    -- the walk along `next`, shared by both branches
    have hnext : ∀ (r : Col) (S1 Pnd1 : Nat → Prop), CInv t res0 r S1 Pnd1 →
        (∀ p, Pnd1 p → p ≤ i) →
        ∃ S2, CInv t res0 (match (t.node i).next with
            | some k => clearNode true t f k r
            | none => r) S2 Pnd1 ∧ (∀ x, S1 x → S2 x) ∧
          (∀ k, (t.node i).next = some k → S2 k) := by
      intro r S1 Pnd1 h1 hp1
      cases hn : (t.node i).next with
      | none => exact ⟨S1, h1, fun _ h => h, fun k hk => by simp at hk⟩
      | some k =>
        obtain ⟨hik, hkn, _⟩ := wf_next_gt hwf hi hn
        obtain ⟨S2, h2, hsub, hk⟩ := ih k r S1 Pnd1 hkn (by omega) h1
          (fun p hp => by have := hp1 p hp; omega)
        exact ⟨S2, h2, hsub, fun k' hk' => by simp at hk'; subst hk'; exact hk⟩
    by_cases hc : colGet res i ≠ .unset
    · simp only [hc, ne_eq, not_false_eq_true, if_true]
      have hnS : ¬ S i := fun h => hc (hinv.cleared i h)
      have hres0 : colGet res0 i ≠ .unset := by
        rcases hinv.changed i with h | h
        · rw [← h]; exact hc
        · exact absurd h.1 hc
      -- open the call on i
      let Pnd1 : Nat → Prop := fun p => Pnd p ∨ p = i
      have hilen : i < res.length := by rw [hinv.len, hlen0]; exact hi
      have h1 : CInv t res0 (colSet res i .unset) S Pnd1 := by
        refine ⟨by simp [hinv.len], ?_, ?_, hinv.next_closed, hinv.heads, hinv.inrange⟩
        · intro x hx
          have hxi : x ≠ i := fun h => hnS (h ▸ hx)
          rw [colGet_colSet_ne _ hxi]; exact hinv.cleared x hx
        · intro j
          by_cases hji : j = i
          · subst hji
            right
            exact ⟨colGet_colSet_eq _ hilen, Or.inr (Or.inr rfl)⟩
          · rw [colGet_colSet_ne _ hji]
            rcases hinv.changed j with h | ⟨h, h'⟩
            · exact Or.inl h
            · exact Or.inr ⟨h, h'.elim Or.inl (fun x => Or.inr (Or.inl x))⟩
      -- the heads of the children chains
      have hfold : ∀ (L : List Nat), (∀ h ∈ L, h ∈ (t.node i).children) →
          ∀ (r : Col) (S1 : Nat → Prop), CInv t res0 r S1 Pnd1 →
          ∃ S2, CInv t res0 (L.foldl (fun r ch => clearNode true t f ch r) r) S2 Pnd1 ∧
            (∀ x, S1 x → S2 x) ∧ (∀ h ∈ L, S2 h) := by
        intro L
        induction L with
        | nil => intro _ r S1 hr; exact ⟨S1, hr, fun _ h => h, fun h hh => by simp at hh⟩
        | cons x xs ihL =>
          intro hL r S1 hr
          obtain ⟨hix, hxn, _⟩ := wf_child_gt hwf hi (hL x (by simp))
          obtain ⟨S2, h2, hsub2, hx2⟩ := ih x r S1 Pnd1 hxn (by omega) hr
            (fun p hp => by
              rcases hp with hp | hp
              · have := hpnd p hp; omega
              · omega)
          obtain ⟨S3, h3, hsub3, hx3⟩ := ihL (fun h hh => hL h (by simp [hh])) _ S2 h2
          refine ⟨S3, by simpa using h3, fun y hy => hsub3 y (hsub2 y hy), ?_⟩
          intro h hh
          simp only [List.mem_cons] at hh
          rcases hh with hh | hh
          · subst hh; exact hsub3 _ hx2
          · exact hx3 h hh
      obtain ⟨S2, h2, hsub2, hheads⟩ := hfold
        ((t.node i).children.filter fun ch => (t.node ch).prev.isNone)
        (fun h hh => (List.mem_filter.mp hh).1) _ S h1
      obtain ⟨S3, h3, hsub3, hnx⟩ := hnext _ S2 Pnd1 h2 (fun p hp => by
        rcases hp with hp | hp
        · have := hpnd p hp; omega
        · omega)
      -- close the call on i
      refine ⟨fun x => S3 x ∨ x = i, ?_, fun x hx => Or.inl (hsub3 x (hsub2 x hx)), Or.inr rfl⟩
      have hi_unset : colGet (match (t.node i).next with
            | some k => clearNode true t f k
                (List.foldl (fun r ch => clearNode true t f ch r) (colSet res i Res.unset)
                  (List.filter (fun ch => (t.node ch).prev.isNone) (t.node i).children))
            | none => List.foldl (fun r ch => clearNode true t f ch r) (colSet res i Res.unset)
                  (List.filter (fun ch => (t.node ch).prev.isNone) (t.node i).children)) i = .unset := by
        rcases h3.changed i with h | h
        · -- unchanged w.r.t. res0 is impossible to use directly; use monotonicity instead
          have hfoldmono : ∀ (L : List Nat) (r : Col), colGet r i = .unset →
              colGet (L.foldl (fun r ch => clearNode true t f ch r) r) i = .unset := by
            intro L
            induction L with
            | nil => intro r hr; simpa using hr
            | cons x xs ihL =>
              intro r hr; simp only [List.foldl_cons]
              exact ihL _ (clearNode_unset_stays true t f x r i hr)
          have h0 := hfoldmono ((t.node i).children.filter fun ch => (t.node ch).prev.isNone) _
            (colGet_colSet_eq .unset hilen)
          cases hn : (t.node i).next with
          | none => simp only; exact h0
          | some k => simp only; exact clearNode_unset_stays true t f k _ i h0
        · exact h.1
      refine ⟨h3.len, ?_, ?_, ?_, ?_, ?_⟩
      · intro x hx
        rcases hx with hx | hx
        · exact h3.cleared x hx
        · subst hx; exact hi_unset
      · intro j
        rcases h3.changed j with h | ⟨h, h'⟩
        · exact Or.inl h
        · right
          refine ⟨h, ?_⟩
          rcases h' with h' | h' | h'
          · exact Or.inl (Or.inl h')
          · exact Or.inr h'
          · exact Or.inl (Or.inr h')
      · intro x k hx hk
        rcases hx with hx | hx
        · exact Or.inl (h3.next_closed x k hx hk)
        · subst hx; exact Or.inl (hnx k hk)
      · intro x h hx hx0 hh hp
        rcases hx with hx | hx
        · exact Or.inl (h3.heads x h hx hx0 hh hp)
        · subst hx
          exact Or.inl (hsub3 h (hheads h (List.mem_filter.mpr ⟨hh, by simp [hp]⟩)))
      · intro x hx
        rcases hx with hx | hx
        · exact h3.inrange x hx
        · subst hx; exact hi
    · have hun : colGet res i = .unset := by simpa using hc
      simp only [hun, ne_eq, not_true_eq_false, if_false, if_true]
      obtain ⟨S2, h2, hsub2, hnx⟩ := hnext res S Pnd hinv (fun p hp => by have := hpnd p hp; omega)
      refine ⟨fun x => S2 x ∨ x = i, ?_, fun x hx => Or.inl (hsub2 x hx), Or.inr rfl⟩
      have hi_unset : colGet (match (t.node i).next with
            | some k => clearNode true t f k res
            | none => res) i = .unset := by
        cases hn : (t.node i).next with
        | none => simp only; exact hun
        | some k => simp only; exact clearNode_unset_stays true t f k _ i hun
      refine ⟨h2.len, ?_, ?_, ?_, ?_, ?_⟩
      · intro x hx
        rcases hx with hx | hx
        · exact h2.cleared x hx
        · subst hx; exact hi_unset
      · intro j
        rcases h2.changed j with h | ⟨h, h'⟩
        · exact Or.inl h
        · exact Or.inr ⟨h, h'.elim (fun x => Or.inl (Or.inl x)) Or.inr⟩
      · intro x k hx hk
        rcases hx with hx | hx
        · exact Or.inl (h2.next_closed x k hx hk)
        · subst hx; exact Or.inl (hnx k hk)
      · intro x h hx hx0 hh hp
        rcases hx with hx | hx
        · exact Or.inl (h2.heads x h hx hx0 hh hp)
        · subst hx
          -- i was already unset when the walk reached it: either it never was set, or an
          -- earlier call of this walk cleared it (and then visited its children)
          rcases hinv.changed x with h' | ⟨_, h'⟩
          · exact absurd (h' ▸ hun) hx0
          · rcases h' with h' | h'
            · exact Or.inl (hsub2 h (hinv.heads x h h' hx0 hh hp))
            · exact absurd (hpnd x h') (by omega)
      · intro x hx
        rcases hx with hx | hx
        · exact h2.inrange x hx
        · subst hx; exact hi

/-! ### config_cond_cache_reset_item() -/

/-- one step of the reset loop -/
def resetStep (t : Tree) (a : Comp) (c : Cache) (i : Nat) : Cache :=
  if (t.node i).comp = a then
    { res := clearNode true t t.length i c.res, loc := colSet c.loc i .unset }
  else c

theorem resetItem_eq (t : Tree) (a : Comp) (c : Cache) :
    resetItem true t a c = (List.range t.length).foldl (resetStep t a) c := rfl

theorem resetLoop_inv {t : Tree} (hwf : WF t) (a : Comp) (res0 : Col) (hlen0 : res0.length = t.length) :
    ∀ (L : List Nat), (∀ i ∈ L, i < t.length) → ∀ (c : Cache) (S : Nat → Prop),
      CInv t res0 c.res S (fun _ => False) →
      ∃ S', CInv t res0 (L.foldl (resetStep t a) c).res S' (fun _ => False) ∧ (∀ x, S x → S' x) ∧
        (∀ i ∈ L, (t.node i).comp = a → S' i) ∧
        (L.foldl (resetStep t a) c).loc.length = c.loc.length ∧
        (∀ j, (j ∈ L ∧ (t.node j).comp = a ∧ j < c.loc.length →
                colGet (L.foldl (resetStep t a) c).loc j = .unset) ∧
              (¬ (j ∈ L ∧ (t.node j).comp = a) →
                colGet (L.foldl (resetStep t a) c).loc j = colGet c.loc j)) := by
  intro L
  induction L with
  | nil =>
    intro _ c S h
    exact ⟨S, h, fun _ h => h, fun i hi => by simp at hi, rfl,
      fun j => ⟨fun h => by simp at h, fun _ => rfl⟩⟩
  | cons x xs ih =>
    intro hL c S h
    simp only [List.foldl_cons]
    have hx : x < t.length := hL x (by simp)
    by_cases hxa : (t.node x).comp = a
    · have hstep : resetStep t a c x =
          { res := clearNode true t t.length x c.res, loc := colSet c.loc x .unset } := by
        simp [resetStep, hxa]
      obtain ⟨S1, h1, hsub1, hx1⟩ := clearNode_inv hwf res0 hlen0 t.length x c.res S (fun _ => False)
        hx (by omega) h (fun p hp => hp.elim)
      obtain ⟨S2, h2, hsub2, hall2, hlen2, hloc2⟩ := ih (fun i hi => hL i (by simp [hi]))
        (resetStep t a c x) S1 (by rw [hstep]; exact h1)
      refine ⟨S2, h2, fun y hy => hsub2 y (hsub1 y hy), ?_, ?_, ?_⟩
      · intro i hi hia
        simp only [List.mem_cons] at hi
        rcases hi with hi | hi
        · subst hi; exact hsub2 _ hx1
        · exact hall2 i hi hia
      · rw [hlen2, hstep]; simp
      · intro j
        constructor
        · rintro ⟨hj, hja, hjl⟩
          by_cases hjx : j ∈ xs
          · exact (hloc2 j).1 ⟨hjx, hja, by rw [hstep]; simpa using hjl⟩
          · have : j = x := by simpa [hjx] using hj
            subst this
            rw [(hloc2 j).2 (fun h => hjx h.1), hstep]
            exact colGet_colSet_eq _ hjl
        · intro hn
          have hjx : j ≠ x := fun h => hn ⟨by simp [h], h ▸ hxa⟩
          rw [(hloc2 j).2 (fun h => hn ⟨by simp [h.1], h.2⟩), hstep]
          exact colGet_colSet_ne _ hjx
    · have hstep : resetStep t a c x = c := by simp [resetStep, hxa]
      rw [hstep]
      obtain ⟨S2, h2, hsub2, hall2, hlen2, hloc2⟩ := ih (fun i hi => hL i (by simp [hi])) c S h
      refine ⟨S2, h2, hsub2, ?_, hlen2, ?_⟩
      · intro i hi hia
        simp only [List.mem_cons] at hi
        rcases hi with hi | hi
        · subst hi; exact absurd hia hxa
        · exact hall2 i hi hia
      · intro j
        constructor
        · rintro ⟨hj, hja, hjl⟩
          have hjx : j ∈ xs := by
            simp only [List.mem_cons] at hj
            rcases hj with hj | hj
            · subst hj; exact absurd hja hxa
            · exact hj
          exact (hloc2 j).1 ⟨hjx, hja, hjl⟩
        · intro hn
          exact (hloc2 j).2 (fun h => hn ⟨by simp [h.1], h.2⟩)

/-- blocks whose own chain position depends on attribute `a`: the block itself or an
    earlier branch of its chain tests `a` -/
inductive AffSelf (t : Tree) (a : Comp) : Nat → Prop
  | self {j} : j < t.length → (t.node j).comp = a → AffSelf t a j
  | chain {j q} : j < t.length → (t.node j).prev = some q → AffSelf t a q → AffSelf t a j

/-- blocks whose outcome may depend on attribute `a` -/
inductive Aff (t : Tree) (a : Comp) : Nat → Prop
  | here {j} : AffSelf t a j → Aff t a j
  | par {j} : j < t.length → (t.node j).parent ≠ 0 → Aff t a (t.node j).parent → Aff t a j

theorem spec_unaffected {t : Tree} (hwf : WF t) (a : Comp) (e e' : Env)
    (hagree : ∀ j, j < t.length → (t.node j).comp ≠ a →
      evalLocal (t.node j) e' = evalLocal (t.node j) e) :
    ∀ j, j < t.length → ¬ Aff t a j → spec t e' j = spec t e j := by
  intro j
  induction j using Nat.strongRecOn with
  | _ j ih =>
    intro hj hna
    rw [spec_unfold hwf e' hj, spec_unfold hwf e hj]
    have hcomp : (t.node j).comp ≠ a := fun h => hna (.here (.self hj h))
    rw [hagree j hj hcomp]
    congr 1
    · by_cases h0 : (t.node j).parent = 0
      · simp [h0]
      · have hlt := hwf.parent_lt j hj h0
        simp only [ne_eq, h0, not_false_eq_true, if_true]
        exact ih _ hlt (by omega) (fun h => hna (.par hj h0 h))
    · cases hpv : (t.node j).prev with
      | none => rfl
      | some q =>
        obtain ⟨_, hqj, hqp, _⟩ := hwf.prev_ok j hj q (by simp [hpv])
        simp only
        apply ih q hqj (by omega)
        intro haq
        cases haq with
        | here hs => exact hna (.here (.chain hj hpv hs))
        | par _ hq0 hq => exact hna (.par hj (by rw [← hqp]; exact hq0) (by rw [← hqp]; exact hq))

theorem S_of_parent {t : Tree} (hwf : WF t) {res0 res : Col} {S : Nat → Prop}
    (h : CInv t res0 res S (fun _ => False)) {p : Nat} (hp : S p) (hp0 : colGet res0 p ≠ .unset) :
    ∀ j, j < t.length → 1 ≤ j → (t.node j).parent = p → S j := by
  intro j
  induction j using Nat.strongRecOn with
  | _ j ih =>
    intro hj h1 hjp
    cases hpv : (t.node j).prev with
    | none =>
      have := hwf.children_sup j hj h1
      rw [hjp] at this
      exact h.heads p j hp hp0 this hpv
    | some q =>
      obtain ⟨hq1, hqj, hqp, hqn⟩ := hwf.prev_ok j hj q (by simp [hpv])
      exact h.next_closed q j (ih q hqj (by omega) hq1 (by rw [hqp, hjp])) hqn

theorem resetItem_coh {t : Tree} (hwf : WF t) (a : Comp) {e e' : Env} {c : Cache}
    (hc : Coh t e c)
    (hagree : ∀ j, j < t.length → (t.node j).comp ≠ a →
      evalLocal (t.node j) e' = evalLocal (t.node j) e) :
    Coh t e' (resetItem true t a c) := by
  rw [resetItem_eq]
  have h0 : CInv t c.res c.res (fun _ => False) (fun _ => False) :=
    ⟨rfl, fun _ h => h.elim, fun _ => Or.inl rfl, fun _ _ h => h.elim, fun _ _ h => h.elim,
      fun _ h => h.elim⟩
  obtain ⟨S, hS, _, hall, hloclen, hloc⟩ := resetLoop_inv hwf a c.res hc.len_res
    (List.range t.length) (fun i hi => by simpa using hi) c (fun _ => False) h0
  generalize (List.range t.length).foldl (resetStep t a) c = c' at hS hloclen hloc
  have hSself : ∀ j, AffSelf t a j → S j := by
    intro j hj
    induction hj with
    | self hj ha => exact hall _ (by simpa using hj) ha
    | chain hj hpv _ ih =>
      obtain ⟨_, _, _, hqn⟩ := hwf.prev_ok _ hj _ (Option.mem_def.mpr hpv)
      exact hS.next_closed _ _ ih hqn
  have hSchild : ∀ p, S p → colGet c.res p ≠ .unset → ∀ j, j < t.length → (t.node j).parent = p →
      (t.node j).parent ≠ 0 → S j := by
    intro p hp hp0 j hj hjp hj0
    have h1 : 1 ≤ j := by
      rcases Nat.eq_zero_or_pos j with h | h
      · subst h
        have := hwf.parent_lt 0 hj hj0
        omega
      · exact h
    exact S_of_parent hwf hS hp hp0 j hj h1 hjp
  have hAff : ∀ j, Aff t a j → colGet c'.res j = .unset := by
    intro j hj
    induction hj with
    | here hs => exact hS.cleared _ (hSself _ hs)
    | @par j hj h0 _ ih =>
      by_cases hp0 : colGet c.res (t.node j).parent = .unset
      · have hj0 : colGet c.res j = .unset := by
          by_cases hh : colGet c.res j = .unset
          · exact hh
          · exact absurd hp0 (hc.closed j hj hh h0)
        rcases hS.changed j with h | h
        · rw [h, hj0]
        · exact h.1
      · have hSp : S (t.node j).parent := by
          rcases hS.changed (t.node j).parent with h | h
          · exact absurd (h ▸ ih) hp0
          · exact h.2.elim id (fun f => f.elim)
        exact hS.cleared _ (hSchild _ hSp hp0 j hj rfl h0)
  refine ⟨by rw [hS.len, hc.len_res], by rw [hloclen, hc.len_loc], ?_, ?_, ?_⟩
  · intro j hj hne
    have hja : (t.node j).comp ≠ a := by
      intro ha
      exact hne ((hloc j).1 ⟨by simpa using hj, ha, by rw [hc.len_loc]; exact hj⟩)
    rw [(hloc j).2 (fun h => hja h.2)] at hne ⊢
    rw [hc.loc_ok j hj hne, hagree j hj hja]
  · intro j hj hne
    have hna : ¬ Aff t a j := fun h => hne (hAff j h)
    rcases hS.changed j with h | h
    · rw [h] at hne ⊢
      rw [hc.res_ok j hj hne, spec_unaffected hwf a e e' hagree j hj hna]
    · exact absurd h.1 hne
  · intro j hj hne h0
    intro hpu
    have hj0 : colGet c.res j ≠ .unset := by
      rcases hS.changed j with h | h
      · rw [← h]; exact hne
      · exact absurd h.1 hne
    have hp0 := hc.closed j hj hj0 h0
    have hSp : S (t.node j).parent := by
      rcases hS.changed (t.node j).parent with h | h
      · exact absurd (h ▸ hpu) hp0
      · exact h.2.elim id (fun f => f.elim)
    exact hne (hS.cleared _ (hSchild _ hSp hp0 j hj rfl h0))

/-! ### the property statement, declaratively -/

/-- `Earlier t i q`: `q` is an earlier branch of the if/else chain of block `i` -/
inductive Earlier (t : Tree) : Nat → Nat → Prop
  | prev {i q} : (t.node i).prev = some q → Earlier t i q
  | step {i q q'} : (t.node i).prev = some q → Earlier t q q' → Earlier t i q'

/-- a conditional block contributes iff its own condition holds for the request, every
    enclosing block contributes, and every earlier branch of its chain failed -/
inductive Applies (t : Tree) (e : Env) : Nat → Prop
  | top {i} : evalLocal (t.node i) e = true → (t.node i).parent = 0 →
      (∀ q, Earlier t i q → evalLocal (t.node q) e = false) → Applies t e i
  | nested {i} : evalLocal (t.node i) e = true → Applies t e (t.node i).parent →
      (∀ q, Earlier t i q → evalLocal (t.node q) e = false) → Applies t e i

def parentSpec (t : Tree) (e : Env) (i : Nat) : Res :=
  if (t.node i).parent ≠ 0 then spec t e (t.node i).parent else .true_

def prevSpec (t : Tree) (e : Env) (i : Nat) : Res :=
  match (t.node i).prev with
  | some q => spec t e q
  | none => .false_

theorem spec_unfold' {t : Tree} (hwf : WF t) (e : Env) {i : Nat} (hi : i < t.length) :
    spec t e i = combine (parentSpec t e i) (prevSpec t e i) (Res.ofBool (evalLocal (t.node i) e)) := by
  rw [spec_unfold hwf e hi]; rfl

theorem combine_eq_true {pr qr l : Res} :
    combine pr qr l = .true_ ↔ pr = .true_ ∧ qr = .false_ ∧ l = .true_ := by
  cases pr <;> cases qr <;> cases l <;> simp [combine]

theorem combine_eq_false {pr qr l : Res} :
    combine pr qr l = .false_ ↔ pr = .true_ ∧ qr = .false_ ∧ l = .false_ := by
  cases pr <;> cases qr <;> cases l <;> simp [combine]

theorem ofBool_eq_true {b : Bool} : Res.ofBool b = .true_ ↔ b = true := by
  cases b <;> simp [Res.ofBool]

theorem ofBool_eq_false {b : Bool} : Res.ofBool b = .false_ ↔ b = false := by
  cases b <;> simp [Res.ofBool]

theorem earlier_iff {t : Tree} {i q' : Nat} :
    Earlier t i q' ↔ ∃ q, (t.node i).prev = some q ∧ (q' = q ∨ Earlier t q q') := by
  constructor
  · intro h
    cases h with
    | prev h => exact ⟨_, h, Or.inl rfl⟩
    | step h h' => exact ⟨_, h, Or.inr h'⟩
  · rintro ⟨q, h, h' | h'⟩
    · subst h'; exact .prev h
    · exact .step h h'

/-- `spec` is the recursion the property states -/
theorem spec_char {t : Tree} (hwf : WF t) (e : Env) :
    ∀ i, i < t.length → ∀ x : Bool,
      (spec t e i = Res.ofBool x ↔
        ((t.node i).parent = 0 ∨ spec t e (t.node i).parent = .true_) ∧
        (∀ q, Earlier t i q → evalLocal (t.node q) e = false) ∧ evalLocal (t.node i) e = x) := by
  intro i
  induction i using Nat.strongRecOn with
  | _ i ih =>
    intro hi x
    have hcomb : ∀ pr qr l, combine pr qr l = Res.ofBool x ↔
        pr = .true_ ∧ qr = .false_ ∧ l = Res.ofBool x := by
      intro pr qr l
      cases x
      · exact combine_eq_false
      · exact combine_eq_true
    have hob : Res.ofBool (evalLocal (t.node i) e) = Res.ofBool x ↔ evalLocal (t.node i) e = x := by
      cases x <;> cases evalLocal (t.node i) e <;> simp [Res.ofBool]
    rw [spec_unfold' hwf e hi, hcomb, hob]
    have hpar : parentSpec t e i = .true_ ↔
        ((t.node i).parent = 0 ∨ spec t e (t.node i).parent = .true_) := by
      unfold parentSpec
      by_cases h0 : (t.node i).parent = 0
      · simp [h0]
      · simp [h0]
    rw [hpar]
    have hprev : ((t.node i).parent = 0 ∨ spec t e (t.node i).parent = .true_) →
        (prevSpec t e i = .false_ ↔ (∀ q, Earlier t i q → evalLocal (t.node q) e = false)) := by
      intro hP
      unfold prevSpec
      cases hpv : (t.node i).prev with
      | none =>
        simp only [true_iff]
        intro q hq
        obtain ⟨q0, h, _⟩ := earlier_iff.mp hq
        rw [hpv] at h; cases h
      | some q =>
        obtain ⟨_, hqi, hqp, _⟩ := hwf.prev_ok i hi q (Option.mem_def.mpr hpv)
        simp only
        have := ih q hqi (by omega) false
        simp only [Res.ofBool, Bool.false_eq_true, if_false] at this
        rw [this]
        constructor
        · rintro ⟨_, hE, hl⟩ q' hq'
          obtain ⟨q0, h, h'⟩ := earlier_iff.mp hq'
          rw [hpv] at h; cases h
          rcases h' with h' | h'
          · subst h'; exact hl
          · exact hE q' h'
        · intro h
          exact ⟨by rw [hqp]; exact hP, fun q' hq' => h q' (.step hpv hq'), h q (.prev hpv)⟩
    constructor
    · rintro ⟨h1, h2, h3⟩; exact ⟨h1, (hprev h1).mp h2, h3⟩
    · rintro ⟨h1, h2, h3⟩; exact ⟨h1, (hprev h1).mpr h2, h3⟩

/-- the cached evaluation's `true` is exactly "the block contributes" -/
theorem spec_true_iff_applies {t : Tree} (hwf : WF t) (e : Env) :
    ∀ i, i < t.length → (spec t e i = .true_ ↔ Applies t e i) := by
  intro i
  induction i using Nat.strongRecOn with
  | _ i ih =>
    intro hi
    have h := spec_char hwf e i hi true
    simp only [Res.ofBool, if_true] at h
    rw [h]
    constructor
    · rintro ⟨hp, hE, hl⟩
      rcases hp with hp | hp
      · exact .top hl hp hE
      · by_cases h0 : (t.node i).parent = 0
        · exact .top hl h0 hE
        · have hlt := hwf.parent_lt i hi h0
          exact .nested hl ((ih _ hlt (by omega)).mp hp) hE
    · intro ha
      cases ha with
      | top hl hp hE => exact ⟨Or.inl hp, hE, hl⟩
      | nested hl hp hE =>
        by_cases h0 : (t.node i).parent = 0
        · exact ⟨Or.inl h0, hE, hl⟩
        · have hlt := hwf.parent_lt i hi h0
          exact ⟨Or.inr ((ih _ hlt (by omega)).mpr hp), hE, hl⟩

/-! ### attribute rewrites touch only their own field -/

theorem attr_set_other (nd : Node) (e : Env) (a : Comp) (v : AttrVal) (h : nd.comp ≠ a) :
    attr nd (e.set a v) = attr nd e ∧ (nd.comp = .remoteIp → (e.set a v).addr = e.addr) := by
  cases a <;> cases v <;> cases hc : nd.comp <;> simp_all [attr, Env.set]

theorem evalLocal_set_other (nd : Node) (e : Env) (a : Comp) (v : AttrVal) (h : nd.comp ≠ a) :
    evalLocal nd (e.set a v) = evalLocal nd e := by
  obtain ⟨h1, h2⟩ := attr_set_other nd e a v h
  unfold evalLocal eqLike
  simp only [h1]
  by_cases hr : nd.comp = .remoteIp
  · simp only [h2 hr]
  · simp [hr]

/-! ### operations on a connection -/

def AllCoh (t : Tree) (st : List Req) : Prop := ∀ rq ∈ st, Coh t rq.env rq.cache

theorem allCoh_set {t : Tree} {st : List Req} (h : AllCoh t st) (s : Nat) {rq : Req}
    (hrq : Coh t rq.env rq.cache) : AllCoh t (st.set s rq) := by
  intro x hx
  rcases List.mem_or_eq_of_mem_set hx with hx | hx
  · exact h x hx
  · subst hx; exact hrq

/-! ### directive merge -/

/-- the last value assigned to directive `d` in a block's assignment list -/
def lastSet : List (Nat × Nat) → Nat → Option Nat
  | [], _ => none
  | s :: ss, d =>
    match lastSet ss d with
    | some v => some v
    | none => if s.1 = d then some s.2 else none

theorem mergeSets_eq (sets : List (Nat × Nat)) :
    ∀ (conf : Nat → Nat) (d : Nat), mergeSets conf sets d = (lastSet sets d).getD (conf d) := by
  induction sets with
  | nil => intro conf d; rfl
  | cons s ss ih =>
    intro conf d
    unfold mergeSets at ih ⊢
    simp only [List.foldl_cons, lastSet]
    rw [ih]
    cases hl : lastSet ss d with
    | some v => simp
    | none =>
      by_cases hd : s.1 = d
      · simp [hd]
      · have : ¬ d = s.1 := fun h => hd h.symm
        simp [hd, this]

/-- the merge a module would compute if it evaluated every block from scratch -/
def specMerge (t : Tree) (e : Env) (dirs : List Nat) : List Nat → (Nat → Nat) → (Nat → Nat)
  | [], conf => conf
  | i :: is, conf =>
    specMerge t e dirs is
      (if spec t e i = .true_ then mergeSets conf (ownSets dirs (t.node i)) else conf)

theorem mergeSets_nil (conf : Nat → Nat) : mergeSets conf [] = conf := rfl

theorem deps_in_tree {t : Tree} (hwf : WF t) {i : Nat} {k : Comp} (h : Deps t i k) :
    1 ≤ i → i < t.length → ∃ j, 1 ≤ j ∧ j < t.length ∧ (t.node j).comp = k := by
  induction h with
  | self i => intro h1 hi; exact ⟨i, h1, hi, rfl⟩
  | @parent i k h0 _ ih =>
    intro _ hi
    have := hwf.parent_lt i hi h0
    exact ih (Nat.pos_of_ne_zero h0) (by omega)
  | @prev i q k hpv _ ih =>
    intro _ hi
    obtain ⟨hq1, hqi, _, _⟩ := hwf.prev_ok i hi q (Option.mem_def.mpr hpv)
    exact ih hq1 (by omega)

theorem depsValid_of_treeValid {t : Tree} (hwf : WF t) {valid : Comp → Bool} (hv : TreeValid t valid)
    {i : Nat} (h1 : 1 ≤ i) (hi : i < t.length) : DepsValid t valid i := by
  intro k hk
  obtain ⟨j, hj1, hjn, hjk⟩ := deps_in_tree hwf hk h1 hi
  rw [← hjk]; exact hv j hj1 hjn

theorem depsValid_of_all {t : Tree} {valid : Comp → Bool} (hv : ∀ k, valid k = true) (i : Nat) :
    DepsValid t valid i := fun k _ => hv k

theorem patchLoop_post {t : Tree} (hwf : WF t) (e : Env) (valid : Comp → Bool) (dirs : List Nat) :
    ∀ (L : List Nat), (∀ i ∈ L, i < t.length) → ∀ (conf : Nat → Nat) (c : Cache), Coh t e c →
      Coh t e (patchLoop t e valid dirs L (conf, c)).2 ∧
      ((∀ i ∈ L, DepsValid t valid i) →
        (patchLoop t e valid dirs L (conf, c)).1 = specMerge t e dirs L conf) := by
  intro L
  induction L with
  | nil => intro _ conf c hc; exact ⟨hc, fun _ => rfl⟩
  | cons i is ih =>
    intro hL conf c hc
    have hi : i < t.length := hL i (by simp)
    have hL' : ∀ j ∈ is, j < t.length := fun j hj => hL j (by simp [hj])
    rw [patchLoop]
    by_cases hown : (ownSets dirs (t.node i)).isEmpty = true
    · simp only [hown, if_true]
      obtain ⟨h1, h2⟩ := ih hL' conf c hc
      refine ⟨h1, fun hv => ?_⟩
      rw [h2 (fun j hj => hv j (by simp [hj])), specMerge]
      have : ownSets dirs (t.node i) = [] := by simpa using hown
      rw [this, mergeSets_nil]; simp
    · have hown' : (ownSets dirs (t.node i)).isEmpty = false := by simpa using hown
      simp only [hown', Bool.false_eq_true, if_false]
      obtain ⟨p1, p2, _, p4⟩ := check_post hwf e valid t.length i c hi hi hc
      obtain ⟨h1, h2⟩ := ih hL'
        (if (check t e valid t.length i c).1 = .true_ then mergeSets conf (ownSets dirs (t.node i))
          else conf) (check t e valid t.length i c).2 p1
      refine ⟨h1, fun hv => ?_⟩
      rw [h2 (fun j hj => hv j (by simp [hj])), specMerge, (p2 (p4 (hv i (by simp)))).1]

theorem specMerge_append (t : Tree) (e : Env) (dirs : List Nat) :
    ∀ (L1 L2 : List Nat) (conf : Nat → Nat),
      specMerge t e dirs (L1 ++ L2) conf = specMerge t e dirs L2 (specMerge t e dirs L1 conf) := by
  intro L1
  induction L1 with
  | nil => intro L2 conf; rfl
  | cons i is ih => intro L2 conf; simp only [List.cons_append, specMerge]; rw [ih]

/-- block `i` contributes value `v` for directive `d` of the module owning `dirs` -/
def Contrib (t : Tree) (e : Env) (dirs : List Nat) (d i v : Nat) : Prop :=
  spec t e i = .true_ ∧ lastSet (ownSets dirs (t.node i)) d = some v

theorem specMerge_none (t : Tree) (e : Env) (dirs : List Nat) (d : Nat) :
    ∀ (L : List Nat) (conf : Nat → Nat), (∀ i ∈ L, ∀ v, ¬ Contrib t e dirs d i v) →
      specMerge t e dirs L conf d = conf d := by
  intro L
  induction L with
  | nil => intro conf _; rfl
  | cons i is ih =>
    intro conf h
    rw [specMerge, ih _ (fun j hj => h j (by simp [hj]))]
    by_cases hs : spec t e i = .true_
    · simp only [hs, if_true]
      rw [mergeSets_eq]
      cases hl : lastSet (ownSets dirs (t.node i)) d with
      | none => rfl
      | some v => exact absurd ⟨hs, hl⟩ (h i (by simp) v)
    · simp [hs]

theorem specMerge_last (t : Tree) (e : Env) (dirs : List Nat) (d : Nat)
    (L1 L2 : List Nat) (i v : Nat) (conf : Nat → Nat) (hc : Contrib t e dirs d i v)
    (hlater : ∀ j ∈ L2, ∀ v', ¬ Contrib t e dirs d j v') :
    specMerge t e dirs (L1 ++ i :: L2) conf d = v := by
  rw [specMerge_append, specMerge, specMerge_none t e dirs d L2 _ hlater]
  simp only [hc.1, if_true]
  rw [mergeSets_eq, hc.2]; rfl

theorem patch_post {t : Tree} (hwf : WF t) (e : Env) (valid : Comp → Bool) (dirs : List Nat)
    (c : Cache) (hc : Coh t e c) :
    Coh t e (patch t e valid dirs c).2 ∧
    (TreeValid t valid →
      (patch t e valid dirs c).1 =
        specMerge t e dirs ((List.range t.length).drop 1)
          (mergeSets (fun _ => 0) (ownSets dirs (t.node 0)))) := by
  unfold patch
  have hmem : ∀ i ∈ (List.range t.length).drop 1, 1 ≤ i ∧ i < t.length := by
    intro i hi
    have h1 : i < t.length := by simpa using List.mem_of_mem_drop hi
    refine ⟨?_, h1⟩
    rcases Nat.eq_zero_or_pos i with h | h
    · subst h
      exfalso
      have hpw : (List.range t.length).Pairwise (· < ·) := List.pairwise_lt_range
      have hsplit := List.take_append_drop 1 (List.range t.length)
      rw [← hsplit, List.pairwise_append] at hpw
      have h0 : 0 ∈ (List.range t.length).take 1 := by
        rw [List.mem_iff_getElem]
        exact ⟨0, by simp; omega, by simp⟩
      exact absurd (hpw.2.2 0 h0 0 hi) (by omega)
    · exact h
  obtain ⟨h1, h2⟩ := patchLoop_post hwf e valid dirs _ (fun i hi => (hmem i hi).2) _ c hc
  exact ⟨h1, fun hv => h2 (fun i hi => depsValid_of_treeValid hwf hv (hmem i hi).1 (hmem i hi).2)⟩

theorem range_split {n i : Nat} (h1 : 1 ≤ i) (hi : i < n) :
    ∃ L1 L2, (List.range n).drop 1 = L1 ++ i :: L2 ∧ ∀ j ∈ L2, i < j ∧ j < n := by
  have hmem : i ∈ (List.range n).drop 1 := by
    rw [List.mem_iff_getElem]
    refine ⟨i - 1, by simp; omega, ?_⟩
    simp; omega
  obtain ⟨L1, L2, hL⟩ := List.append_of_mem hmem
  refine ⟨L1, L2, hL, ?_⟩
  have hpw : ((List.range n).drop 1).Pairwise (· < ·) :=
    List.Pairwise.sublist (List.drop_sublist 1 _) List.pairwise_lt_range
  rw [hL, List.pairwise_append] at hpw
  intro j hj
  have h2 := (List.pairwise_cons.mp hpw.2.1).1 j hj
  have h3 : j ∈ (List.range n).drop 1 := by rw [hL]; simp [hj]
  have h4 := List.mem_of_mem_drop h3
  exact ⟨h2, by simpa using h4⟩

/-! ### host[:port] -/

theorem split_at_colon {l d : Bytes} {c : UInt8} (hlen : d.length < l.length) :
    (l.getD d.length 0 = c ∧ l.take d.length = d) ↔ ∃ p, l = d ++ c :: p := by
  constructor
  · rintro ⟨hc, ht⟩
    refine ⟨l.drop (d.length + 1), ?_⟩
    have h1 := List.take_append_drop d.length l
    rw [ht, List.drop_eq_getElem_cons hlen] at h1
    rw [List.getD_eq_getElem?_getD, List.getElem?_eq_getElem hlen] at hc
    simp only [Option.getD_some] at hc
    rw [hc] at h1
    exact h1.symm
  · rintro ⟨p, rfl⟩
    constructor
    · simp [List.getD_eq_getElem?_getD]
    · simp

theorem hostPort_iff (l d : Bytes) (hne : l.length ≠ d.length) :
    hostPort l d = true ↔
      (∃ p, l = d ++ colon :: p ∧ p.length ≤ 5) ∨ (∃ p, d = l ++ colon :: p) := by
  unfold hostPort
  by_cases hgt : l.length > d.length
  · simp only [hgt, if_true, Bool.and_eq_true, beq_iff_eq, decide_eq_true_eq]
    constructor
    · rintro ⟨⟨hc, hl6⟩, ht⟩
      obtain ⟨p, hp⟩ := (split_at_colon hgt).mp ⟨hc, ht⟩
      refine Or.inl ⟨p, hp, ?_⟩
      have := congrArg List.length hp
      simp at this
      omega
    · rintro (⟨p, hp, hp5⟩ | ⟨p, hp⟩)
      · obtain ⟨hc, ht⟩ := (split_at_colon hgt).mpr ⟨p, hp⟩
        refine ⟨⟨hc, ?_⟩, ht⟩
        have := congrArg List.length hp
        simp at this
        omega
      · have := congrArg List.length hp
        simp at this
        omega
  · have hlt : l.length < d.length := by omega
    simp only [hgt, if_false, Bool.and_eq_true, beq_iff_eq]
    constructor
    · intro h
      exact Or.inr ((split_at_colon hlt).mp h)
    · rintro (⟨p, hp, _⟩ | hp)
      · have := congrArg List.length hp
        simp at this
        omega
      · exact (split_at_colon hlt).mpr hp

/-- `$HTTP["host"] == "d"` (d not starting with '/'): equal, or equal up to a ":port"
    suffix on one side (at most 5 port characters when it is the request that carries it),
    and nothing else -/
theorem host_eq_iff (nd : Node) (e : Env) (hc : nd.comp = .host) (hs : nd.str.head? ≠ some slash) :
    eqLike nd e = true ↔
      e.host = nd.str ∨
      (e.host ≠ [] ∧ ((∃ p, e.host = nd.str ++ colon :: p ∧ p.length ≤ 5) ∨
                      (∃ p, nd.str = e.host ++ colon :: p))) := by
  unfold eqLike
  have hattr : attr nd e = e.host := by simp [attr, hc]
  simp only [hattr, hc, true_and, hs, ne_eq, not_false_eq_true]
  by_cases h1 : e.host = []
  · simp [h1]
  · by_cases h2 : e.host.length = nd.str.length
    · simp only [h1, h2, not_true_eq_false, and_false, if_false, not_false_eq_true, true_and]
      constructor
      · intro h; exact Or.inl (by simpa using h)
      · rintro (h | ⟨p, hp, _⟩ | ⟨p, hp⟩)
        · simp [h]
        · have := congrArg List.length hp; simp at this; omega
        · have := congrArg List.length hp; simp at this; omega
    · simp only [h1, h2, not_false_eq_true, and_self, if_true, true_and]
      rw [hostPort_iff _ _ h2]
      constructor
      · intro h; exact Or.inr h
      · rintro (h | h)
        · exact absurd (congrArg List.length h) h2
        · exact h

/-! ### whole operation sequences -/

/-- what an observation must be, by the language definition, for the state it was made in -/
def ObsOk (t : Tree) (st : List Req) : Obs → Prop
  | .result s i r => i < t.length ∧ ∀ rq, st[s]? = some rq →
      (r ≠ .unset → r = spec t rq.env i) ∧ (DepsValid t rq.valid i → r = spec t rq.env i)
  | .conf s dirs conf => ∀ rq, st[s]? = some rq → TreeValid t rq.valid →
      conf = specMerge t rq.env dirs ((List.range t.length).drop 1)
        (mergeSets (fun _ => 0) (ownSets dirs (t.node 0)))
  | .none => True

/-- every request whose cache has been reset since it was created (`s ∉ pend`) has a
    coherent cache; `pend` = streams created by h2_init_stream() that still hold the copy of
    the connection request's cache (taken for other attributes than their own) -/
def SlotsOk (t : Tree) (st : List Req) (pend : List Nat) : Prop :=
  ∀ s rq, st[s]? = some rq → s ∉ pend → Coh t rq.env rq.cache

/-- the discipline of the server (h2.c + response.c): a stream gets its request and the full
    reset of http_response_config() before any condition is evaluated on it.
    `n` = number of requests so far, `pend` = streams still waiting for that reset. -/
def Disciplined : Nat → List Nat → List Op → Prop
  | _, _, [] => True
  | n, pend, .spawn :: ops => Disciplined (n + 1) (n :: pend) ops
  | n, pend, .check s _ :: ops => s ∉ pend ∧ Disciplined n pend ops
  | n, pend, .patch s _ :: ops => s ∉ pend ∧ Disciplined n pend ops
  | n, pend, .resetAll s :: ops => Disciplined n (pend.filter (· ≠ s)) ops
  | n, pend, .newReq s _ _ :: ops => Disciplined n (pend.filter (· ≠ s)) ops
  | n, pend, .setAttr _ _ _ :: ops => Disciplined n pend ops
  | n, pend, .setValid _ _ :: ops => Disciplined n pend ops

theorem slotsOk_set {t : Tree} {st : List Req} {pend : List Nat} (h : SlotsOk t st pend) (s : Nat)
    (rq' : Req) (pend' : List Nat) (hsub : ∀ x, x ≠ s → x ∉ pend' → x ∉ pend)
    (hrq : s ∉ pend' → Coh t rq'.env rq'.cache) : SlotsOk t (st.set s rq') pend' := by
  intro s' rq hget hnp
  by_cases hs : s' = s
  · subst hs
    rw [List.getElem?_set] at hget
    simp only [if_true] at hget
    by_cases hl : s' < st.length
    · simp only [hl, if_true, Option.some.injEq] at hget
      subst hget; exact hrq hnp
    · simp [hl] at hget
  · rw [List.getElem?_set_ne (fun e => hs e.symm)] at hget
    exact h s' rq hget (hsub s' hs hnp)

theorem slot_lt {st : List Req} {s : Nat} {rq : Req} (hs : st[s]? = some rq) : s < st.length := by
  rcases Nat.lt_or_ge s st.length with hl | hl
  · exact hl
  · rw [List.getElem?_eq_none hl] at hs; cases hs

/-- one disciplined step keeps the invariant and observes what the language defines -/
theorem step_ok {t : Tree} (hwf : WF t) {st : List Req} {pend : List Nat} {n : Nat}
    (hlen : st.length = n) (hn : 1 ≤ n) (h : SlotsOk t st pend) (op : Op) (ops : List Op)
    (hd : Disciplined n pend (op :: ops)) :
    ∃ n' pend', (step true t st op).1.length = n' ∧ 1 ≤ n' ∧ SlotsOk t (step true t st op).1 pend' ∧
      Disciplined n' pend' ops ∧ ObsOk t (step true t st op).1 (step true t st op).2 := by
  cases op with
  | check s i =>
    obtain ⟨hsp, hd'⟩ := hd
    cases hs : st[s]? with
    | none =>
      simp only [step, hs]
      exact ⟨n, pend, hlen, hn, h, hd', trivial⟩
    | some rq =>
      by_cases hi : i < t.length
      · simp only [step, hs, hi, if_true]
        have hrq := h s rq hs hsp
        obtain ⟨p1, p2, _, p4⟩ := check_post hwf rq.env rq.valid t.length i rq.cache hi hi hrq
        refine ⟨n, pend, by simp [hlen], hn,
          slotsOk_set h s _ pend (fun _ _ hx => hx) (fun _ => p1), hd', hi, ?_⟩
        intro rq' hrq'
        rw [List.getElem?_set_self (slot_lt hs)] at hrq'
        cases hrq'
        exact ⟨fun hne => (p2 hne).1, fun hv => (p2 (p4 hv)).1⟩
      · simp only [step, hs, hi, if_false]
        exact ⟨n, pend, hlen, hn, h, hd', trivial⟩
  | setAttr s a v =>
    cases hs : st[s]? with
    | none =>
      simp only [step, hs]
      exact ⟨n, pend, hlen, hn, h, hd, trivial⟩
    | some rq =>
      simp only [step, hs]
      exact ⟨n, pend, by simp [hlen], hn,
        slotsOk_set h s _ pend (fun _ _ hx => hx) (fun hsp =>
          resetItem_coh hwf a (h s rq hs hsp) (fun j _ hj => evalLocal_set_other _ _ _ _ hj)),
        hd, trivial⟩
  | resetAll s =>
    have hsub : ∀ x, x ≠ s → x ∉ pend.filter (· ≠ s) → x ∉ pend := fun x hx hnp hm =>
      hnp (List.mem_filter.mpr ⟨hm, by simpa using hx⟩)
    cases hs : st[s]? with
    | none =>
      simp only [step, hs]
      refine ⟨n, pend.filter (· ≠ s), hlen, hn, ?_, hd, trivial⟩
      intro s' rq hget hnp
      have hss : s' ≠ s := fun e => by subst e; rw [hs] at hget; cases hget
      exact h s' rq hget (hsub s' hss hnp)
    | some rq =>
      simp only [step, hs]
      exact ⟨n, pend.filter (· ≠ s), by simp [hlen], hn,
        slotsOk_set h s _ _ hsub (fun _ => coh_empty t _), hd, trivial⟩
  | setValid s v =>
    cases hs : st[s]? with
    | none =>
      simp only [step, hs]
      exact ⟨n, pend, hlen, hn, h, hd, trivial⟩
    | some rq =>
      simp only [step, hs]
      exact ⟨n, pend, by simp [hlen], hn,
        slotsOk_set h s _ pend (fun _ _ hx => hx) (fun hsp => h s rq hs hsp), hd, trivial⟩
  | newReq s sets v =>
    have hsub : ∀ x, x ≠ s → x ∉ pend.filter (· ≠ s) → x ∉ pend := fun x hx hnp hm =>
      hnp (List.mem_filter.mpr ⟨hm, by simpa using hx⟩)
    cases hs : st[s]? with
    | none =>
      simp only [step, hs]
      refine ⟨n, pend.filter (· ≠ s), hlen, hn, ?_, hd, trivial⟩
      intro s' rq hget hnp
      have hss : s' ≠ s := fun e => by subst e; rw [hs] at hget; cases hget
      exact h s' rq hget (hsub s' hss hnp)
    | some rq =>
      simp only [step, hs]
      exact ⟨n, pend.filter (· ≠ s), by simp [hlen], hn,
        slotsOk_set h s _ _ hsub (fun _ => coh_empty t _), hd, trivial⟩
  | spawn =>
    have h0 : ∃ rq, st[0]? = some rq := by
      cases st with
      | nil => simp at hlen; omega
      | cons x xs => exact ⟨x, rfl⟩
    obtain ⟨rq0, hrq0⟩ := h0
    simp only [step, hrq0]
    refine ⟨n + 1, n :: pend, by simp [hlen], by omega, ?_, hd, trivial⟩
    intro s' rq hget hnp
    have hne : s' ≠ n := fun e => hnp (by simp [e])
    have hnp' : s' ∉ pend := fun hm => hnp (by simp [hm])
    by_cases hl : s' < st.length
    · rw [List.getElem?_append_left hl] at hget
      exact h s' rq hget hnp'
    · rw [List.getElem?_eq_none (by simp; omega)] at hget
      cases hget
  | patch s dirs =>
    obtain ⟨hsp, hd'⟩ := hd
    cases hs : st[s]? with
    | none =>
      simp only [step, hs]
      exact ⟨n, pend, hlen, hn, h, hd', trivial⟩
    | some rq =>
      simp only [step, hs]
      have hrq := h s rq hs hsp
      obtain ⟨p1, p2⟩ := patch_post hwf rq.env rq.valid dirs rq.cache hrq
      refine ⟨n, pend, by simp [hlen], hn,
        slotsOk_set h s _ pend (fun _ _ hx => hx) (fun _ => p1), hd', ?_⟩
      intro rq' hrq' hv
      rw [List.getElem?_set_self (slot_lt hs)] at hrq'
      cases hrq'
      exact p2 hv

theorem run_ok {t : Tree} (hwf : WF t) :
    ∀ (ops : List Op) (st : List Req) (pend : List Nat) (n : Nat), st.length = n → 1 ≤ n →
      SlotsOk t st pend → Disciplined n pend ops →
      ∀ so ∈ run true t st ops, ObsOk t so.1 so.2 := by
  intro ops
  induction ops with
  | nil => intro st _ _ _ _ _ _ so hso; simp [run] at hso
  | cons op ops ih =>
    intro st pend n hlen hn h hd so hso
    obtain ⟨n', pend', hlen', hn', h', hd', hobs⟩ := step_ok hwf hlen hn h op ops hd
    simp only [run, List.mem_cons] at hso
    rcases hso with hso | hso
    · subst hso; exact hobs
    · exact ih _ pend' n' hlen' hn' h' hd' so hso

/-! ### evaluation order -/

/-- evaluate the blocks `ks` in the given order (as successive patch_config loops do) -/
def checkAll (t : Tree) (e : Env) (valid : Comp → Bool) (ks : List Nat) (c : Cache) : Cache :=
  ks.foldl (fun c k => (check t e valid t.length k c).2) c

theorem checkAll_coh {t : Tree} (hwf : WF t) (e : Env) (valid : Comp → Bool) :
    ∀ (ks : List Nat), (∀ k ∈ ks, k < t.length) → ∀ c, Coh t e c → Coh t e (checkAll t e valid ks c) := by
  intro ks
  induction ks with
  | nil => intro _ c hc; exact hc
  | cons k ks ih =>
    intro hks c hc
    have hk : k < t.length := hks k (by simp)
    exact ih (fun j hj => hks j (by simp [hj])) _
      (check_post hwf e valid t.length k c hk hk hc).1


/-! ### the scenario of the stale else-branch (used by Props/C14) -/

namespace Ex
/-- `$HTTP["host"] == "h2" { $HTTP["url"] =^ "/a" {…} else $HTTP["url"] =^ "/b" {…} }` -/
def tree : Tree := link
  [ {},
    { comp := .host, cond := .eq, str := ofString "h2" },
    { parent := 1, comp := .url, cond := .prefix_, str := ofString "/a" },
    { parent := 1, prev := some 2, comp := .url, cond := .prefix_, str := ofString "/b" } ]

def allValid : List Comp :=
  [.socket, .url, .host, .remoteIp, .query, .scheme, .method, .header]

/-- request for host h1, url /b/x; module A evaluates the else-branch (3) only; then the
    host is rewritten to h2 (+ reset_item); module A evaluates block 3 again -/
def ops : List Op :=
  [ .newReq 0 [(.host, .str (ofString "h1")), (.url, .str (ofString "/b/x"))] allValid,
    .check 0 3,
    .setAttr 0 .host (.str (ofString "h2")),
    .check 0 3 ]

def lastResult (l : List (List Req × Obs)) : Option Res :=
  match l.getLast? with
  | some (_, .result _ _ r) => some r
  | _ => none
end Ex


/-! ### results taken over by a stream -/

/-- `check` looks at the attributes only through the comparisons of fields that are available -/
theorem check_env_agree (t : Tree) (e e' : Env) (valid : Comp → Bool)
    (h : ∀ i, valid (t.node i).comp = true → evalLocal (t.node i) e' = evalLocal (t.node i) e) :
    ∀ f i c, check t e' valid f i c = check t e valid f i c := by
  intro f
  induction f with
  | zero => intro i c; rfl
  | succ f ih =>
    intro i c
    have hl : ∀ c', localStep valid (t.node i) e' i c' = localStep valid (t.node i) e i c' := by
      intro c'
      unfold localStep
      by_cases hv : valid (t.node i).comp = true
      · simp only [hv, Bool.not_true, Bool.false_eq_true, if_false, h i hv]
      · have hv' : valid (t.node i).comp = false := by simpa using hv
        simp only [hv', Bool.not_false, if_true]
    have hfun : check t e' valid f = check t e valid f := by
      funext j c'; exact ih j c'
    rw [check, check, hfun]
    simp only [afterPrev, hl]

theorem checkAll_env_agree (t : Tree) (e e' : Env) (valid : Comp → Bool)
    (h : ∀ i, valid (t.node i).comp = true → evalLocal (t.node i) e' = evalLocal (t.node i) e) :
    ∀ ks c, checkAll t e' valid ks c = checkAll t e valid ks c := by
  intro ks
  induction ks with
  | nil => intro c; rfl
  | cons k ks ih =>
    intro c
    simp only [checkAll, List.foldl_cons] at ih ⊢
    rw [check_env_agree t e e' valid h, ih]

/-- conditions on the listening socket or the peer address compare the same for two requests
    of one connection -/
theorem evalLocal_conn_level (nd : Node) (e e' : Env) (hs : e'.socket = e.socket)
    (ha : e'.addr = e.addr) (hi : e'.ipStr = e.ipStr)
    (hc : nd.comp = .socket ∨ nd.comp = .remoteIp) : evalLocal nd e' = evalLocal nd e := by
  have hattr : attr nd e' = attr nd e := by
    rcases hc with hc | hc <;> simp [attr, hc, hs, hi]
  unfold evalLocal eqLike
  simp only [hattr, ha]


/-! ### last contributing block wins -/

/-- `x` is the value the language gives directive `d` (of the module owning `dirs`) for
    attributes `e`: the last assignment of the last contributing block in context order
    (context 0 = global scope always contributes), the built-in default 0 if there is none -/
def LastWins (t : Tree) (e : Env) (dirs : List Nat) (d x : Nat) : Prop :=
  (∀ i v, i < t.length → (i = 0 ∨ Applies t e i) →
    lastSet (ownSets dirs (t.node i)) d = some v →
    (∀ j, i < j → j < t.length → Applies t e j → lastSet (ownSets dirs (t.node j)) d = none) →
    x = v) ∧
  ((∀ i, i < t.length → (i = 0 ∨ Applies t e i) → lastSet (ownSets dirs (t.node i)) d = none) →
    x = 0)

theorem specMerge_lastWins {t : Tree} (hwf : WF t) (e : Env) (dirs : List Nat) (d : Nat)
    (hn : 0 < t.length) :
    LastWins t e dirs d
      (specMerge t e dirs ((List.range t.length).drop 1)
        (mergeSets (fun _ => 0) (ownSets dirs (t.node 0))) d) := by
  have hnoContrib : ∀ j, j < t.length → 1 ≤ j →
      (Applies t e j → lastSet (ownSets dirs (t.node j)) d = none) →
      ∀ v', ¬ Contrib t e dirs d j v' := by
    intro j hj _ h v' hcv
    have := h ((spec_true_iff_applies hwf e j hj).mp hcv.1)
    rw [hcv.2] at this; cases this
  have hmem : ∀ j ∈ (List.range t.length).drop 1, 1 ≤ j ∧ j < t.length := by
    intro j hj
    have h1 : j < t.length := by simpa using List.mem_of_mem_drop hj
    refine ⟨?_, h1⟩
    rcases Nat.eq_zero_or_pos j with h | h
    · subst h
      exfalso
      have hpw : (List.range t.length).Pairwise (· < ·) := List.pairwise_lt_range
      have hsplit := List.take_append_drop 1 (List.range t.length)
      rw [← hsplit, List.pairwise_append] at hpw
      have h0 : 0 ∈ (List.range t.length).take 1 := by
        rw [List.mem_iff_getElem]
        exact ⟨0, by simp; omega, by simp⟩
      exact absurd (hpw.2.2 0 h0 0 hj) (by omega)
    · exact h
  constructor
  · intro i v hi hap hset hlater
    rcases Nat.eq_zero_or_pos i with h0 | hpos
    · subst h0
      rw [specMerge_none t e dirs d _ _ (fun j hj v' =>
        hnoContrib j (hmem j hj).2 (hmem j hj).1
          (fun ha => hlater j (by have := (hmem j hj).1; omega) (hmem j hj).2 ha) v')]
      rw [mergeSets_eq, hset]; rfl
    · have ha : Applies t e i := by
        rcases hap with h | h
        · omega
        · exact h
      obtain ⟨L1, L2, hL, hL2⟩ := range_split hpos hi
      rw [hL]
      exact specMerge_last t e dirs d L1 L2 i v _
        ⟨(spec_true_iff_applies hwf e i hi).mpr ha, hset⟩
        (fun j hj v' => hnoContrib j (hL2 j hj).2 (by have := (hL2 j hj).1; omega)
          (fun ha' => hlater j (hL2 j hj).1 (hL2 j hj).2 ha') v')
  · intro hnone
    rw [specMerge_none t e dirs d _ _ (fun j hj v' =>
      hnoContrib j (hmem j hj).2 (hmem j hj).1 (fun ha => hnone j (hmem j hj).2 (Or.inr ha)) v')]
    rw [mergeSets_eq, hnone 0 hn (Or.inl rfl)]; rfl

/-- what a `$HTTP["remoteip"] == "addr[/bits]"` block computes -/
theorem evalLocal_remoteip_eq (nd : Node) (e : Env) (a : SockAddr) (bits : Nat)
    (hc : nd.comp = .remoteIp) (ho : nd.cond = .eq) (hs : nd.str.head? ≠ some slash)
    (hn : nd.cidr = some (a, bits)) :
    evalLocal nd e = if bits ≠ 0 then a.addrEqBits e.addr bits else a.addrEq e.addr := by
  simp [evalLocal, eqLike, hc, ho, hs, hn]

end LtVerif.Cond
