/-
  Helper lemmas for Model/Cond304.lean: http_etag_matches() against the
  entity-tag list grammar of RFC 9110 (8.8.3, 13.1.2) and the weak/strong
  comparison functions of 8.8.3.2; case analysis of handleCachable.
-/
import LtVerif.Model.Cond304
import LtVerif.Proofs.Date
set_option linter.unusedSimpArgs false
set_option linter.unusedVariables false
namespace LtVerif
namespace Cond
open B Date

/-! ### unfolding the loop -/

theorem etagLoop_unfold (tag : Bytes) (w : Bool) (s : Bytes) (hs : s ≠ []) :
    etagLoop tag w s = (match etagStep tag w s with
                        | none => true
                        | some rest => etagLoop tag w rest) := by
  rw [etagLoop]
  simp only [hs, dite_false]
  split <;> rename_i h <;> simp [h]

theorem etagLoop_nil (tag : Bytes) (w : Bool) : etagLoop tag w [] = false := by
  rw [etagLoop]; simp

/-! ### entity tags and lists of them -/

/-- entity-tag = [ weak ] opaque-tag -/
structure ETag where
  weak : Bool
  otag : Bytes
deriving Repr, DecidableEq

/-- [ "W/" ] DQUOTE *etagc DQUOTE -/
def ETag.text (t : ETag) : Bytes :=
  (if t.weak then [87, 47] else []) ++ 34 :: (t.otag ++ [34])

/-- etagc excludes DQUOTE -/
def ETag.WF (t : ETag) : Prop := (34 : UInt8) ∉ t.otag

/-- no list delimiter (',' SP HTAB) inside the opaque tag: etagc never contains
    SP/HTAB; ',' is legal in RFC 9110 but not produced by lighttpd (see the
    comment at `c15_etag_list`) -/
def ETag.NoDelim (t : ETag) : Prop := ∀ b ∈ t.otag, isDelim b = false

def AllDelim (s : Bytes) : Prop := ∀ b ∈ s, isDelim b = true

/-- each tag followed by its separator text -/
def itemsText : List (ETag × Bytes) → Bytes
  | [] => []
  | (t, sep) :: rest => t.text ++ (sep ++ itemsText rest)

/-- separators consist of ',' SP HTAB only and contain a ',' between two tags
    (`#entity-tag` with optional whitespace and empty elements) -/
def ItemsOk : List (ETag × Bytes) → Prop
  | [] => True
  | (t, sep) :: rest =>
    t.WF ∧ t.NoDelim ∧ AllDelim sep ∧ (rest ≠ [] → (44 : UInt8) ∈ sep) ∧ ItemsOk rest

/-- field value: leading separator text, then the items -/
def etagListText (sep0 : Bytes) (items : List (ETag × Bytes)) : Bytes := sep0 ++ itemsText items

/-- RFC 9110 8.8.3.2: weak comparison = equal opaque tags; strong comparison =
    additionally neither is weak -/
def ETag.cmp (weakOk : Bool) (a b : ETag) : Bool :=
  decide (a.otag = b.otag) && (weakOk || (!a.weak && !b.weak))

/-! ### list lemmas -/

theorem dropWhile_all {p : UInt8 → Bool} {l : Bytes} (h : ∀ b ∈ l, p b = true) :
    l.dropWhile p = [] := by
  have := List.dropWhile_append_of_pos (l₂ := []) h
  simpa using this

theorem dropWhile_suffix_all {p q : UInt8 → Bool} {l : Bytes} (h : ∀ b ∈ l, q b = true) :
    ∀ b ∈ l.dropWhile p, q b = true := by
  induction l with
  | nil => simp
  | cons x xs ih =>
    simp only [List.dropWhile_cons]
    split
    · exact ih (fun b hb => h b (by simp [hb]))
    · exact h

theorem dropWhile_append_mem {p : UInt8 → Bool} {l1 l2 : Bytes} (h : ∃ x ∈ l1, p x = false) :
    (l1 ++ l2).dropWhile p = l1.dropWhile p ++ l2 := by
  induction l1 with
  | nil => obtain ⟨x, hx, _⟩ := h; simp at hx
  | cons y ys ih =>
    simp only [List.cons_append, List.dropWhile_cons]
    split
    · rename_i hy
      apply ih
      obtain ⟨x, hx, hpx⟩ := h
      simp only [List.mem_cons] at hx
      rcases hx with e | e
      · rw [e, hy] at hpx; simp at hpx
      · exact ⟨x, e, hpx⟩
    · rfl

theorem notComma_of_not_delim {b : UInt8} (h : isDelim b = false) : notComma b = true := by
  simp only [isDelim, Bool.or_eq_false_iff, decide_eq_false_iff_not] at h
  simp [notComma, h.2]

theorem isDelim_comma : isDelim 44 = true := by decide
theorem notComma_comma : notComma 44 = false := by decide

/-- `"X"` is a prefix of `"Y"…` exactly when X = Y (no DQUOTE inside X, Y) -/
theorem quote_prefix (x y R : Bytes) (hx : (34 : UInt8) ∉ x) (hy : (34 : UInt8) ∉ y) :
    (x ++ [34]).isPrefixOf (y ++ 34 :: R) = decide (x = y) := by
  induction x generalizing y with
  | nil =>
    cases y with
    | nil => simp [List.isPrefixOf]
    | cons b ys =>
      have hb : b ≠ 34 := fun e => hy (by simp [e])
      simp [List.isPrefixOf, hb]
      intro e; exact hb e.symm
  | cons a xs ih =>
    have ha : a ≠ 34 := fun e => hx (by simp [e])
    have hxs : (34 : UInt8) ∉ xs := fun e => hx (by simp [e])
    cases y with
    | nil =>
      simp [List.isPrefixOf, ha]
    | cons b ys =>
      have hys : (34 : UInt8) ∉ ys := fun e => hy (by simp [e])
      simp only [List.cons_append, List.isPrefixOf, ih ys hxs hys]
      by_cases hab : a = b
      · subst hab; simp
      · simp [hab]

theorem drop_quoted (x R : Bytes) : (34 :: (x ++ 34 :: R)).drop (34 :: (x ++ [34])).length = R := by
  have h : ∀ y : Bytes, (y ++ 34 :: R).drop (y.length + 1) = R := by
    intro y
    induction y with
    | nil => rfl
    | cons a ys ih => simp [List.drop_succ_cons, ih]
  have hl : (34 :: (x ++ [34])).length = (x.length + 1) + 1 := by simp
  rw [hl, List.drop_succ_cons]
  exact h x

/-! ### the loop on a well-formed list -/

theorem etagLoop_allDelim (tag : Bytes) (w : Bool) (s : Bytes) (htag : tag ≠ []) (h : AllDelim s) :
    etagLoop tag w s = false := by
  by_cases hs : s = []
  · rw [hs]; exact etagLoop_nil tag w
  · rw [etagLoop_unfold tag w s hs]
    have hstep : etagStep tag w s = some [] := by
      unfold etagStep
      rw [dropWhile_all h]
      have hp : tag.isPrefixOf ([] : Bytes) = false := by
        cases tag with
        | nil => exact absurd rfl htag
        | cons a t => rfl
      simp [stripWeak, hp]
    rw [hstep]
    exact etagLoop_nil tag w

theorem text_head_not_delim (t : ETag) (R : Bytes) :
    (t.text ++ R).dropWhile isDelim = t.text ++ R := by
  unfold ETag.text
  cases t.weak <;> simp [List.dropWhile_cons, isDelim]

theorem stripWeak_text (t : ETag) (R : Bytes) :
    stripWeak (t.text ++ R) = (t.weak, 34 :: (t.otag ++ 34 :: R)) := by
  unfold ETag.text
  cases t.weak
  · simp [stripWeak]
  · simp [stripWeak]

theorem atEnd_sep (sep : Bytes) (rest : List (ETag × Bytes)) (hsep : AllDelim sep)
    (hc : rest ≠ [] → (44 : UInt8) ∈ sep) : atEnd (sep ++ itemsText rest) = true := by
  cases sep with
  | nil =>
    have : rest = [] := by
      apply Classical.byContradiction
      intro h; have := hc h; simp at this
    rw [this]; rfl
  | cons b bs => exact hsep b (by simp)

theorem skip_to_sep (t : ETag) (hnd : t.NoDelim) (sep : Bytes) (rest : List (ETag × Bytes))
    (hc : rest ≠ [] → (44 : UInt8) ∈ sep) :
    (34 :: (t.otag ++ 34 :: (sep ++ itemsText rest))).dropWhile notComma =
      sep.dropWhile notComma ++ itemsText rest := by
  have h34 : notComma 34 = true := by decide
  have hop : ∀ b ∈ t.otag, notComma b = true := fun b hb => notComma_of_not_delim (hnd b hb)
  simp only [List.dropWhile_cons, h34, if_true]
  rw [List.dropWhile_append_of_pos hop]
  simp only [List.dropWhile_cons, h34, if_true]
  by_cases hr : rest = []
  · rw [hr]; simp [itemsText]
  · exact dropWhile_append_mem ⟨44, hc hr, notComma_comma⟩

theorem etagLoop_items (et : ETag) (het : et.WF) (w : Bool) (items : List (ETag × Bytes))
    (sep0 : Bytes) (h0 : AllDelim sep0) (hok : ItemsOk items) :
    etagLoop (34 :: (et.otag ++ [34])) w (etagListText sep0 items) =
      items.any (fun x => decide (et.otag = x.1.otag) && (!x.1.weak || w)) := by
  induction items generalizing sep0 with
  | nil =>
    simp only [etagListText, itemsText, List.append_nil, List.any_nil]
    exact etagLoop_allDelim _ w sep0 (by simp) h0
  | cons x rest ih =>
    obtain ⟨t, sep⟩ := x
    obtain ⟨hwf, hnd, hsep, hc, hrest⟩ := hok
    have hne : etagListText sep0 ((t, sep) :: rest) ≠ [] := by
      simp [etagListText, itemsText, ETag.text]
    rw [etagLoop_unfold _ w _ hne]
    have hdrop : (etagListText sep0 ((t, sep) :: rest)).dropWhile isDelim
        = t.text ++ (sep ++ itemsText rest) := by
      simp only [etagListText, itemsText]
      rw [List.dropWhile_append_of_pos h0]
      exact text_head_not_delim t _
    have hsuf : AllDelim (sep.dropWhile notComma) := dropWhile_suffix_all hsep
    have hih := ih (sep.dropWhile notComma) hsuf hrest
    simp only [etagListText] at hih
    have hskip := skip_to_sep t hnd sep rest hc
    unfold etagStep
    rw [hdrop, stripWeak_text]
    simp only
    have hhead : (34 :: (t.otag ++ 34 :: (sep ++ itemsText rest))).head? ≠ some 42 := by
      simp
    have hpre : (34 :: (et.otag ++ [34])).isPrefixOf (34 :: (t.otag ++ 34 :: (sep ++ itemsText rest)))
        = decide (et.otag = t.otag) := by
      simp only [List.isPrefixOf, beq_self_eq_true, Bool.true_and]
      exact quote_prefix et.otag t.otag _ het hwf
    have hlen : (34 :: (et.otag ++ [34])).length = et.otag.length + 2 := by simp
    simp only [List.any_cons]
    by_cases hcond : (!t.weak || w) = true
    · simp only [hcond, if_true, hhead, if_false, hpre, Bool.and_true]
      by_cases heq : et.otag = t.otag
      · have hdropn := drop_quoted t.otag (sep ++ itemsText rest)
        simp only [heq, decide_true, if_true, hdropn, atEnd_sep sep rest hsep hc, Bool.true_or]
      · simp only [heq, decide_false, Bool.false_eq_true, if_false, hskip, Bool.false_or]
        exact hih
    · have hcf : (!t.weak || w) = false := by simpa using hcond
      simp only [hcf, Bool.false_eq_true, if_false, hskip, Bool.and_false, Bool.false_or]
      exact hih

theorem text_ne_star (sep0 : Bytes) (items : List (ETag × Bytes)) (h0 : AllDelim sep0) :
    etagListText sep0 items ≠ [42] := by
  intro e
  cases sep0 with
  | nil =>
    cases items with
    | nil => simp [etagListText, itemsText] at e
    | cons x rest =>
      obtain ⟨t, sep⟩ := x
      simp only [etagListText, itemsText, ETag.text, List.nil_append] at e
      cases hw : t.weak <;> simp [hw] at e
  | cons b bs =>
    have hb := h0 b (by simp)
    simp only [etagListText, List.cons_append, List.cons.injEq] at e
    rw [e.1] at hb
    revert hb; decide

/-- http_etag_matches() on a well-formed entity-tag list is the RFC comparison
    against every listed tag -/
theorem etagMatches_list (et : ETag) (het : et.WF) (w : Bool) (sep0 : Bytes)
    (items : List (ETag × Bytes)) (h0 : AllDelim sep0) (hok : ItemsOk items) :
    etagMatches et.text (etagListText sep0 items) w = items.any (fun x => ETag.cmp w et x.1) := by
  unfold etagMatches
  have h1 : ¬ etagListText sep0 items = [42] := text_ne_star sep0 items h0
  have h2 : ¬ et.text = [] := by simp [ETag.text]
  have h3 := stripWeak_text et []
  simp only [List.append_nil] at h3
  simp only [h1, h2, if_false, h3]
  by_cases hw : (et.weak && !w) = true
  · simp only [hw, if_true]
    symm
    rw [List.any_eq_false]
    intro x _
    simp only [Bool.and_eq_true, Bool.not_eq_true'] at hw
    simp [ETag.cmp, hw.1, hw.2]
  · simp only [hw, Bool.false_eq_true, if_false]
    have := etagLoop_items et het w items sep0 h0 hok
    rw [this]
    congr 1
    funext x
    simp only [ETag.cmp]
    have hw' : (!et.weak || w) = true := by
      cases h : et.weak <;> cases h' : w <;> simp_all
    cases h : et.weak <;> cases h' : w <;> cases h'' : x.1.weak <;> simp_all

/-- "*" matches any current entity tag -/
theorem etagMatches_star (etag : Bytes) (w : Bool) : etagMatches etag [42] w = true := by
  simp [etagMatches]

/-! ### http_response_handle_cachable() -/

theorem ifModifiedSince_false_iff (now : Int) (s : Bytes) (lmtime : Int) :
    ifModifiedSince now s lmtime = false ↔
      ∃ t, dateToTime now s = some t ∧ lmtime ≤ t ∧ t ≠ -1 := by
  unfold ifModifiedSince
  cases h : dateToTime now s with
  | none => simp
  | some t =>
    simp only [Bool.or_eq_false_iff, decide_eq_false_iff_not, beq_eq_false_iff_ne, ne_eq,
      Option.some.injEq, exists_eq_left']
    constructor
    · intro ⟨a, b⟩; exact ⟨by omega, b⟩
    · intro ⟨a, b⟩; exact ⟨by omega, b⟩

theorem hc_inm {now : Int} {rq : CondReq} {et : Bytes} {lmod : Option Bytes} {lmtime : Int}
    {inm : Bytes} (h : rq.ifNoneMatch = some inm) (hm : rq.method ≤ 2) :
    handleCachable now rq (some et) lmod lmtime =
      if etagMatches et inm (!rq.hasRange) = true then .notModified else .goOn := by
  unfold handleCachable
  simp [h, hm]

theorem hc_ims {now : Int} {rq : CondReq} {etag : Option Bytes} {lmtime : Int} {ims lm : Bytes}
    (h1 : rq.ifNoneMatch = none) (h2 : rq.ifModifiedSince = some ims) (hm : rq.method ≤ 2) :
    handleCachable now rq etag (some lm) lmtime =
      if ims = lm ∨ ifModifiedSince now ims lmtime = false then .notModified else .goOn := by
  unfold handleCachable
  simp only [h1, h2, hm, Option.isNone_none, Option.isNone_some, Bool.and_false,
    Bool.false_eq_true, if_false, if_true]
  by_cases he : ims = lm
  · simp [he]
  · cases hf : ifModifiedSince now ims lmtime <;> simp [he, hf]

theorem hc_go {now : Int} {rq : CondReq} {etag lmod : Option Bytes} {lmtime : Int}
    (h1 : rq.ifNoneMatch = none) (h2 : rq.ifModifiedSince = none ∨ lmod = none) :
    handleCachable now rq etag lmod lmtime = .goOn := by
  unfold handleCachable
  rcases h2 with h2 | h2
  · simp [h1, h2]
  · cases hi : rq.ifModifiedSince with
    | none => simp [h1, hi]
    | some ims =>
      simp only [h1, hi, h2, Option.isNone_none, Option.isNone_some, Bool.and_false,
        Bool.false_eq_true, if_false]
      split <;> rfl

/-- a conditional GET/HEAD on a representation with an entity tag -/
theorem handleCachable_304_iff (now : Int) (rq : CondReq) (et : Bytes) (lmod : Option Bytes)
    (lmtime : Int) (hm : rq.method ≤ 1) :
    handleCachable now rq (some et) lmod lmtime = .notModified ↔
      (∃ inm, rq.ifNoneMatch = some inm ∧ etagMatches et inm (!rq.hasRange) = true) ∨
      (rq.ifNoneMatch = none ∧ ∃ ims lm, rq.ifModifiedSince = some ims ∧ lmod = some lm ∧
         (ims = lm ∨ ∃ t, dateToTime now ims = some t ∧ lmtime ≤ t ∧ t ≠ -1)) := by
  have hm2 : rq.method ≤ 2 := by omega
  cases hinm : rq.ifNoneMatch with
  | some inm =>
    rw [hc_inm hinm hm2]
    constructor
    · intro h
      left
      refine ⟨inm, rfl, ?_⟩
      by_cases hmt : etagMatches et inm (!rq.hasRange) = true
      · exact hmt
      · rw [if_neg hmt] at h; cases h
    · intro h
      rcases h with ⟨inm', hi, hmt⟩ | ⟨hn, _⟩
      · simp only [Option.some.injEq] at hi
        subst hi
        rw [if_pos hmt]
      · cases hn
  | none =>
    cases hims : rq.ifModifiedSince with
    | none =>
      rw [hc_go hinm (Or.inl hims)]
      constructor
      · intro h; cases h
      · intro h
        rcases h with ⟨_, hi, _⟩ | ⟨_, _, _, hi, _⟩
        · cases hi
        · cases hi
    | some ims =>
      cases hl : lmod with
      | none =>
        rw [hc_go hinm (Or.inr rfl)]
        constructor
        · intro h; cases h
        · intro h
          rcases h with ⟨_, hi, _⟩ | ⟨_, _, _, _, hl', _⟩
          · cases hi
          · cases hl'
      | some lm =>
        rw [hc_ims hinm hims hm2]
        constructor
        · intro h
          right
          refine ⟨rfl, ims, lm, rfl, rfl, ?_⟩
          by_cases hc : ims = lm ∨ ifModifiedSince now ims lmtime = false
          · rcases hc with he | hf
            · left; exact he
            · right; exact (ifModifiedSince_false_iff now ims lmtime).mp hf
          · rw [if_neg hc] at h; cases h
        · intro h
          rcases h with ⟨_, hi, _⟩ | ⟨_, ims', lm', hi, hl', hor⟩
          · cases hi
          · simp only [Option.some.injEq] at hi hl'
            subst hi; subst hl'
            rw [if_pos]
            rcases hor with he | ht
            · left; exact he
            · right; exact (ifModifiedSince_false_iff now ims lmtime).mpr ht

/-- the same for the responses lighttpd builds: Last-Modified is the IMF-fixdate of the
    modification time, so "If-Modified-Since equals Last-Modified byte for byte" is just one
    more way of carrying a date that is not earlier than the modification time -/
theorem handleCachable_304_iff_emitted (now : Int) (rq : CondReq) (et : Bytes) (lmtime : Int)
    (hm : rq.method ≤ 1) (h0 : -30610224000 ≤ lmtime) (h1 : lmtime ≤ 253402300799)
    (hne : lmtime ≠ -1) :
    handleCachable now rq (some et) (some (timeToStr lmtime)) lmtime = .notModified ↔
      (∃ inm, rq.ifNoneMatch = some inm ∧ etagMatches et inm (!rq.hasRange) = true) ∨
      (rq.ifNoneMatch = none ∧ ∃ ims t, rq.ifModifiedSince = some ims ∧
         dateToTime now ims = some t ∧ lmtime ≤ t ∧ t ≠ -1) := by
  rw [handleCachable_304_iff now rq et _ lmtime hm]
  have hrt : dateToTime now (timeToStr lmtime) = some lmtime := by
    rw [timeToStr_eq lmtime h0 h1]; exact (imf_roundtrip now lmtime h0 h1).2
  constructor
  · intro h
    rcases h with h | ⟨hn, ims, lm, hi, hl, hor⟩
    · left; exact h
    · right
      simp only [Option.some.injEq] at hl
      refine ⟨hn, ims, ?_⟩
      rcases hor with he | ⟨t, ht⟩
      · refine ⟨lmtime, hi, ?_, Int.le_refl _, hne⟩
        rw [he, ← hl]; exact hrt
      · exact ⟨t, hi, ht⟩
  · intro h
    rcases h with h | ⟨hn, ims, t, hi, ht⟩
    · left; exact h
    · right
      exact ⟨hn, ims, timeToStr lmtime, hi, rfl, Or.inr ⟨t, ht⟩⟩

/-! ### concrete instances used by the non-vacuity examples of Props/C15.lean -/

/-- GET with `If-None-Match: W/"x"` -/
def exCondReq : CondReq :=
  { method := 0, hasRange := false, ifModifiedSince := none, ifNoneMatch := some (ofString "W/\"x\"") }
/-- GET with `If-Modified-Since: Sun, 06 Nov 1994 08:49:37 GMT` (= instant 784111777) -/
def exCondReqIms : CondReq :=
  { method := 0, hasRange := false, ifNoneMatch := none, ifModifiedSince := some (ofString "Sun, 06 Nov 1994 08:49:37 GMT") }
/-- the field value ` W/"y", W/"x"` as a list of entity tags -/
def exItems : List (ETag × Bytes) := [(⟨true, ofString "y"⟩, ofString ", "), (⟨true, ofString "x"⟩, [])]

end Cond
end LtVerif
