/-
  Helper lemmas for the C14 theorems about configparser_simplify_regex() /
  config_finalize()'s regex rebuild (Model/CondSimplify.lean).
-/
import LtVerif.Model.CondSimplify
namespace LtVerif.Cond
open LtVerif B

/-- literal text: no NUL and none of `regex_chars` -/
def Plain (d : Bytes) : Prop := ∀ x ∈ d, x ≠ 0 ∧ regexChars.contains x = false

/-- the regular expression (in the model's `Regex`) that matches the literal bytes `body`,
    anchored at the start / at the end -/
def litRegex (bol : Bool) (body : Bytes) (eol : Bool) : Regex :=
  ⟨bol, body.map fun c => (Atom.lit c, Quant.one), eol⟩

/-- how that regular expression is written: `^`, the literal with every regex character
    escaped by a backslash, `$` -/
def regexText (bol : Bool) (body : Bytes) (eol : Bool) : Bytes :=
  (if bol then [94] else []) ++
  body.flatMap (fun c => if regexChars.contains c then [92, c] else [c]) ++
  (if eol then [36] else [])

theorem flatMap_plain (d : Bytes) (h : Plain d) :
    d.flatMap (fun c => if regexChars.contains c then [92, c] else [c]) = d := by
  induction d with
  | nil => rfl
  | cons c d ih =>
    have hc := (h c (by simp)).2
    have hd : Plain d := fun x hx => h x (by simp [hx])
    simp only [List.flatMap_cons]
    rw [ih hd, hc]
    simp

theorem strcspn_plain_prefix (d t : Bytes) (h : strcspn (d ++ t) = d.length) : Plain d := by
  induction d with
  | nil => intro x hx; cases hx
  | cons c d ih =>
    simp only [List.cons_append, strcspn, List.length_cons] at h
    split at h
    · omega
    · rename_i hc
      have hd := ih (by omega)
      intro x hx
      rcases List.mem_cons.mp hx with rfl | hx
      · constructor
        · intro h0; exact hc (Or.inl h0)
        · cases hb : regexChars.contains x with
          | false => rfl
          | true => exact absurd (Or.inr hb) hc
      · exact hd x hx

theorem matchHere_lits (s : Bytes) (eol : Bool) (l : Bytes) :
    matchHere (s.map fun c => (Atom.lit c, Quant.one)) eol l =
      (if eol then l == s else s.isPrefixOf l) := by
  induction s generalizing l with
  | nil =>
    cases eol <;> cases l <;> simp [matchHere]
  | cons c s ih =>
    cases l with
    | nil => cases eol <;> simp [matchHere]
    | cons x l =>
      simp only [List.map_cons, matchHere, ih, Atom.ok]
      cases eol
      · simp only [Bool.false_eq_true, if_false, List.isPrefixOf]
        rw [Bool.beq_comm]
      · simp only [if_true]
        rw [List.cons_beq_cons]

theorem anyTail_iff (p : Bytes → Bool) (l : Bytes) :
    anyTail p l = true ↔ ∃ t, t <:+ l ∧ p t = true := by
  induction l with
  | nil =>
    simp only [anyTail]
    constructor
    · intro h; exact ⟨[], List.suffix_refl _, h⟩
    · rintro ⟨t, ht, hp⟩
      have : t = [] := List.suffix_nil.mp ht
      rw [this] at hp; exact hp
  | cons c s ih =>
    simp only [anyTail, Bool.or_eq_true, ih]
    constructor
    · rintro (h | ⟨t, ht, hp⟩)
      · exact ⟨c :: s, List.suffix_refl _, h⟩
      · exact ⟨t, List.suffix_cons_iff.mpr (Or.inr ht), hp⟩
    · rintro ⟨t, ht, hp⟩
      rcases List.suffix_cons_iff.mp ht with rfl | ht
      · exact Or.inl hp
      · exact Or.inr ⟨t, ht, hp⟩

theorem anyTail_beq (s l : Bytes) : anyTail (fun t => t == s) l = s.isSuffixOf l := by
  rw [Bool.eq_iff_iff, anyTail_iff, List.isSuffixOf_iff_suffix]
  constructor
  · rintro ⟨t, ht, hp⟩
    have : t = s := by simpa using hp
    exact this ▸ ht
  · intro h; exact ⟨s, h, by simp⟩

/-- the model's matcher on a literal regular expression -/
theorem litRegex_matches (bol : Bool) (body : Bytes) (eol : Bool) (l : Bytes) :
    (litRegex bol body eol).matches l =
      (if bol then (if eol then l == body else body.isPrefixOf l)
       else (if eol then body.isSuffixOf l else anyTail (fun t => body.isPrefixOf t) l)) := by
  cases bol <;> cases eol <;> simp only [litRegex, Regex.matches, Bool.false_eq_true, if_false, if_true]
  · congr 1; funext t; simpa using matchHere_lits body false t
  · rw [← anyTail_beq]; congr 1; funext t; simpa using matchHere_lits body true t
  · simpa using matchHere_lits body false l
  · simpa using matchHere_lits body true l

/-- shapes recognised by configparser_simplify_regex() -/
inductive Simplified : Bytes → CondOp → Bytes → Prop
  | pre (s : Bytes) : Plain s → Simplified (94 :: s) .prefix_ s
  | exact (s : Bytes) : Plain s → Simplified (94 :: s ++ [36]) .eq s
  | suf (s : Bytes) : Plain s → Simplified (s ++ [36]) .suffix s
  | ext (s : Bytes) : Plain s → Simplified (92 :: 46 :: s ++ [36]) .suffix (46 :: s)

theorem simplifyTail_cases (b : Bytes) (off : Nat) (c : CondOp) (len : Nat) :
    simplifyTail b off c len = (.match_, b) ∨
    (strcspn (b.drop off) = len - off ∧
      simplifyTail b off c len = (c, if off ≠ 0 then (b.drop 1).take (len - 1) else b.take len)) := by
  unfold simplifyTail
  by_cases h : strcspn (b.drop off) = len - off
  · right; refine ⟨h, ?_⟩; simp only [h, ne_eq, not_true_eq_false, if_false]; split <;> rfl
  · left; simp [h]

theorem simplifyRegex_shape (b : Bytes) (c : CondOp) (s : Bytes)
    (h : simplifyRegex b = (c, s)) (hc : c ≠ .match_) : Simplified b c s := by
  unfold simplifyRegex at h
  split at h
  · rename_i hl
    obtain ⟨d, rfl⟩ := List.getLast?_eq_some_iff.mp hl
    split at h
    · -- "\.…$"
      rename_i r hb
      have hr : ∃ d', d = 92 :: 46 :: d' ∧ r = d' ++ [36] := by
        match d, hb with
        | [], hb => simp at hb
        | [x], hb => simp at hb
        | x :: y :: d', hb =>
          simp only [List.cons_append, List.cons.injEq] at hb
          exact ⟨d', by rw [hb.1, hb.2.1], hb.2.2.symm⟩
      obtain ⟨d', rfl, rfl⟩ := hr
      rcases simplifyTail_cases (92 :: 46 :: d' ++ [36]) 2 .suffix ((92 :: 46 :: d' ++ [36]).length - 1) with h1 | ⟨h1, h2⟩
      · rw [h1] at h; exact absurd (Prod.mk.inj h).1.symm hc
      · rw [h2] at h
        simp only [List.cons_append, List.drop_succ_cons, List.drop_zero, List.length_cons,
          List.length_append, List.length_nil] at h1 h
        have hp : Plain d' := strcspn_plain_prefix d' [36] (by omega)
        obtain ⟨rfl, rfl⟩ := Prod.mk.inj h
        have : (46 :: (d' ++ [36])).take (d'.length + 0 + 1 + 1 + 1 - 1 - 1) = 46 :: d' := by
          have : d'.length + 0 + 1 + 1 + 1 - 1 - 1 = d'.length + 1 := by omega
          rw [this]; simp
        rw [if_pos (by omega : (2:Nat) ≠ 0)]
        rw [this]
        exact Simplified.ext d' hp
    · -- "^…$"
      rename_i r hb
      have hr : ∃ d', d = 94 :: d' ∧ r = d' ++ [36] := by
        match d, hb with
        | [], hb => simp at hb
        | x :: d', hb =>
          simp only [List.cons_append, List.cons.injEq] at hb
          exact ⟨d', by rw [hb.1], hb.2.symm⟩
      obtain ⟨d', rfl, rfl⟩ := hr
      rcases simplifyTail_cases (94 :: d' ++ [36]) 1 .eq ((94 :: d' ++ [36]).length - 1) with h1 | ⟨h1, h2⟩
      · rw [h1] at h; exact absurd (Prod.mk.inj h).1.symm hc
      · rw [h2] at h
        simp only [List.cons_append, List.drop_succ_cons, List.drop_zero, List.length_cons,
          List.length_append, List.length_nil] at h1 h
        have hp : Plain d' := strcspn_plain_prefix d' [36] (by omega)
        obtain ⟨rfl, rfl⟩ := Prod.mk.inj h
        have : (d' ++ [36]).take (d'.length + 0 + 1 + 1 - 1 - 1) = d' := by
          have : d'.length + 0 + 1 + 1 - 1 - 1 = d'.length := by omega
          rw [this]; simp
        rw [if_pos (by omega : (1:Nat) ≠ 0)]
        rw [this]
        exact Simplified.exact d' hp
    · -- "…$"
      rcases simplifyTail_cases (d ++ [36]) 0 .suffix ((d ++ [36]).length - 1) with h1 | ⟨h1, h2⟩
      · rw [h1] at h; exact absurd (Prod.mk.inj h).1.symm hc
      · rw [h2] at h
        simp only [List.drop_zero, List.length_append, List.length_cons, List.length_nil] at h1 h
        have hp : Plain d := strcspn_plain_prefix d [36] (by omega)
        obtain ⟨rfl, rfl⟩ := Prod.mk.inj h
        have : (d ++ [36]).take (d.length + (0 + 1) - 1) = d := by
          have : d.length + (0 + 1) - 1 = d.length := by omega
          rw [this]; simp
        rw [if_neg (by omega : ¬ (0:Nat) ≠ 0)]
        rw [this]
        exact Simplified.suf d hp
  · split at h
    · rename_i r _
      rcases simplifyTail_cases (94 :: r) 1 .prefix_ (94 :: r).length with h1 | ⟨h1, h2⟩
      · rw [h1] at h; exact absurd (Prod.mk.inj h).1.symm hc
      · rw [h2] at h
        simp only [List.drop_succ_cons, List.drop_zero, List.length_cons] at h1 h
        have hp : Plain r := strcspn_plain_prefix r [] (by rw [List.append_nil]; omega)
        obtain ⟨rfl, rfl⟩ := Prod.mk.inj h
        have : r.take (r.length + 1 - 1) = r := by
          have : r.length + 1 - 1 = r.length := by omega
          rw [this]; simp
        rw [if_pos (by omega : (1:Nat) ≠ 0)]
        rw [this]
        exact Simplified.pre r hp
    · exact absurd (Prod.mk.inj h).1.symm hc

/-! converse: every anchored plain literal is simplified -/

theorem strcspn_plain (s t : Bytes) (hp : Plain s)
    (ht : t = [] ∨ ∃ m r, t = m :: r ∧ (m = 0 ∨ regexChars.contains m = true)) :
    strcspn (s ++ t) = s.length := by
  induction s with
  | nil =>
    rcases ht with rfl | ⟨m, r, rfl, hm⟩
    · rfl
    · simp only [List.nil_append, strcspn, hm, if_true, List.length_nil]
  | cons x s ih =>
    have hx := hp x (by simp)
    have hs : Plain s := fun y hy => hp y (by simp [hy])
    have : ¬ (x = 0 ∨ regexChars.contains x = true) := by
      rintro (h | h)
      · exact hx.1 h
      · rw [hx.2] at h; cases h
    simp only [List.cons_append, strcspn, this, if_false, ih hs, List.length_cons]

theorem plain_no_dollar_last (s : Bytes) (hp : Plain s) (a : UInt8) (ha : a ≠ 36) :
    (a :: s).getLast? ≠ some 36 := by
  intro h
  obtain ⟨ys, hys⟩ := List.getLast?_eq_some_iff.mp h
  have hm : (36 : UInt8) ∈ a :: s := by rw [hys]; simp
  rcases List.mem_cons.mp hm with h1 | h1
  · exact ha h1.symm
  · exact absurd (hp 36 h1).2 (by decide)

theorem simplifyRegex_pre (s : Bytes) (hp : Plain s) : simplifyRegex (94 :: s) = (.prefix_, s) := by
  unfold simplifyRegex
  rw [if_neg (plain_no_dollar_last s hp 94 (by decide))]
  have h1 : strcspn s = s.length := by simpa using strcspn_plain s [] hp (Or.inl rfl)
  split
  · rename_i r hb
    obtain rfl : s = r := (List.cons.inj hb).2
    simp [simplifyTail, h1]
  · rename_i hb
    exact absurd rfl (hb s)

theorem simplifyRegex_exact (s : Bytes) (hp : Plain s) :
    simplifyRegex (94 :: s ++ [36]) = (.eq, s) := by
  unfold simplifyRegex
  rw [if_pos (List.getLast?_eq_some_iff.mpr ⟨94 :: s, rfl⟩)]
  have h1 : strcspn (s ++ [36]) = s.length :=
    strcspn_plain s [36] hp (Or.inr ⟨36, [], rfl, Or.inr (by decide)⟩)
  split
  · rename_i r hb
    simp at hb
  · rename_i r hb
    simp [simplifyTail, h1]
  · rename_i h2 h3
    exact absurd rfl (h3 (s ++ [36]))

theorem simplifyRegex_ext (s : Bytes) (hp : Plain s) :
    simplifyRegex (92 :: 46 :: s ++ [36]) = (.suffix, 46 :: s) := by
  unfold simplifyRegex
  rw [if_pos (List.getLast?_eq_some_iff.mpr ⟨92 :: 46 :: s, rfl⟩)]
  have h1 : strcspn (s ++ [36]) = s.length :=
    strcspn_plain s [36] hp (Or.inr ⟨36, [], rfl, Or.inr (by decide)⟩)
  split
  · rename_i r hb
    simp [simplifyTail, h1]
  · rename_i r hb
    simp at hb
  · rename_i h2 h3
    exact absurd rfl (h2 (s ++ [36]))

theorem simplifyRegex_suf (s : Bytes) (hp : Plain s) :
    simplifyRegex (s ++ [36]) = (.suffix, s) := by
  unfold simplifyRegex
  rw [if_pos (List.getLast?_eq_some_iff.mpr ⟨s, rfl⟩)]
  have h1 : strcspn (s ++ [36]) = s.length :=
    strcspn_plain s [36] hp (Or.inr ⟨36, [], rfl, Or.inr (by decide)⟩)
  split
  · rename_i r hb
    cases s with
    | nil => simp at hb
    | cons x s =>
      have hx := (hp x (by simp)).2
      simp only [List.cons_append, List.cons.injEq] at hb
      rw [hb.1] at hx; exact absurd hx (by decide)
  · rename_i r hb
    cases s with
    | nil => simp at hb
    | cons x s =>
      have hx := (hp x (by simp)).2
      simp only [List.cons_append, List.cons.injEq] at hb
      rw [hb.1] at hx; exact absurd hx (by decide)
  · simp [simplifyTail, h1]

end LtVerif.Cond
