/-
  Helper lemmas for the chunk-queue model (C17).
  Part 1: structural accounting — the counters always equal the bytes the
          chunks still hold (`QWF`), through every operation and fault.
-/
import LtVerif.Model.Cq
namespace LtVerif.Cq

/-! ## well-formed chunks and queues -/

/-- the read offset never passes the end of the chunk -/
def Chunk.WF : Chunk → Prop
  | .mem d off _ => off ≤ d.length
  | .file _ off len _ _ => off ≤ len

def ChunksWF (cs : List Chunk) : Prop := ∀ c ∈ cs, c.WF

/-- exact accounting: bytes_in − bytes_out = bytes still held by the chunks -/
structure QWF (q : Cq) : Prop where
  wf : ChunksWF q.chunks
  len : q.bytesIn - q.bytesOut = (remSum q.chunks : Int)

theorem ChunksWF.nil : ChunksWF [] := by intro c h; cases h

theorem ChunksWF.cons {c : Chunk} {cs : List Chunk} (h : c.WF) (hs : ChunksWF cs) :
    ChunksWF (c :: cs) := by
  intro x hx
  cases hx with
  | head => exact h
  | tail _ hx => exact hs x hx

theorem ChunksWF.head {c : Chunk} {cs : List Chunk} (h : ChunksWF (c :: cs)) : c.WF :=
  h c (List.mem_cons_self ..)

theorem ChunksWF.tail {c : Chunk} {cs : List Chunk} (h : ChunksWF (c :: cs)) : ChunksWF cs :=
  fun x hx => h x (List.mem_cons_of_mem _ hx)

theorem ChunksWF.append {a b : List Chunk} (ha : ChunksWF a) (hb : ChunksWF b) :
    ChunksWF (a ++ b) := by
  intro x hx
  rcases List.mem_append.mp hx with h | h
  · exact ha x h
  · exact hb x h

theorem ChunksWF.left {a b : List Chunk} (h : ChunksWF (a ++ b)) : ChunksWF a :=
  fun x hx => h x (List.mem_append_left _ hx)

theorem ChunksWF.right {a b : List Chunk} (h : ChunksWF (a ++ b)) : ChunksWF b :=
  fun x hx => h x (List.mem_append_right _ hx)

theorem ChunksWF.dropLast {cs : List Chunk} (h : ChunksWF cs) : ChunksWF cs.dropLast :=
  fun x hx => h x (List.dropLast_subset _ hx)

@[simp] theorem remSum_nil : remSum [] = 0 := rfl
@[simp] theorem remSum_cons (c : Chunk) (cs : List Chunk) : remSum (c :: cs) = c.rem + remSum cs := rfl

@[simp] theorem remSum_append (a b : List Chunk) : remSum (a ++ b) = remSum a + remSum b := by
  induction a with
  | nil => simp
  | cons c cs ih => simp [ih, Nat.add_assoc]

theorem split_last {cs : List Chunk} {c : Chunk} (h : cs.getLast? = some c) :
    cs = cs.dropLast ++ [c] :=
  (List.dropLast_append_getLast? c (by simp [h])).symm

theorem remSum_last {cs : List Chunk} {c : Chunk} (h : cs.getLast? = some c) :
    remSum cs = remSum cs.dropLast + c.rem := by
  conv => lhs; rw [split_last h]
  simp

theorem wf_last {cs : List Chunk} {c : Chunk} (hw : ChunksWF cs) (h : cs.getLast? = some c) : c.WF :=
  hw c (by rw [split_last h]; simp)

@[simp] theorem remSum_setLast (cs : List Chunk) (c : Chunk) :
    remSum (setLast cs c) = remSum cs.dropLast + c.rem := by simp [setLast]

theorem wf_setLast {cs : List Chunk} {c : Chunk} (hw : ChunksWF cs) (hc : c.WF) :
    ChunksWF (setLast cs c) :=
  ChunksWF.append hw.dropLast (ChunksWF.cons hc ChunksWF.nil)

theorem QWF.empty (ts ti : Nat) : QWF { chunks := [], bytesIn := 0, bytesOut := 0, tempSize := ts, tdIdx := ti } :=
  ⟨ChunksWF.nil, by simp⟩

end LtVerif.Cq
