/-
  Helper lemmas for the chunk-queue model (C17).
  Part 1: exact accounting — the counters always equal the bytes the chunks
          still hold and every file chunk lies inside its file (`QV`),
          through every operation and every fault schedule.
-/
import LtVerif.Model.Cq
namespace LtVerif.Cq

/-! ## invariants -/

/-- current size of file `fid` -/
def sz (w : World) (fid : Nat) : Nat := (w.files fid).content.length

/-- the read offset never passes the end of the chunk; a file chunk names an
    existing file and ends inside it -/
def Chunk.Valid (w : World) : Chunk → Prop
  | .mem d off _ => off ≤ d.length
  | .file fid off len _ _ => fid < w.nfiles ∧ off ≤ len ∧ len ≤ sz w fid

def ValidAll (w : World) (cs : List Chunk) : Prop := ∀ c ∈ cs, c.Valid w

/-- exact accounting: bytes_in − bytes_out = bytes still held by the chunks -/
structure QV (w : World) (q : Cq) : Prop where
  valid : ValidAll w q.chunks
  len : q.bytesIn - q.bytesOut = (remSum q.chunks : Int)

/-- ids from `nfiles` on are unused: such files are empty -/
def Fresh (w : World) : Prop := ∀ fid, w.nfiles ≤ fid → sz w fid = 0

/-- files only ever grow, ids are never reused -/
structure Grows (w w' : World) : Prop where
  nfiles : w.nfiles ≤ w'.nfiles
  size : ∀ fid, sz w fid ≤ sz w' fid

/-- no file content changed (descriptors, names, pools, schedules may have) -/
structure SameFiles (w w' : World) : Prop where
  nfiles : w'.nfiles = w.nfiles
  content : ∀ fid, (w'.files fid).content = (w.files fid).content

theorem SameFiles.refl (w : World) : SameFiles w w := ⟨rfl, fun _ => rfl⟩

theorem SameFiles.trans {a b c : World} (h1 : SameFiles a b) (h2 : SameFiles b c) : SameFiles a c :=
  ⟨h2.nfiles.trans h1.nfiles, fun fid => (h2.content fid).trans (h1.content fid)⟩

theorem SameFiles.sz {w w' : World} (h : SameFiles w w') (fid : Nat) : sz w' fid = sz w fid := by
  simp [Cq.sz, h.content fid]

theorem SameFiles.grows {w w' : World} (h : SameFiles w w') : Grows w w' :=
  ⟨by rw [h.nfiles]; exact Nat.le_refl _, fun fid => by rw [h.sz fid]; exact Nat.le_refl _⟩

theorem SameFiles.fresh {w w' : World} (h : SameFiles w w') (hf : Fresh w) : Fresh w' := by
  intro fid hle
  rw [h.sz fid]
  exact hf fid (by rw [← h.nfiles]; exact hle)

theorem Grows.refl (w : World) : Grows w w := (SameFiles.refl w).grows

theorem Grows.trans {a b c : World} (h1 : Grows a b) (h2 : Grows b c) : Grows a c :=
  ⟨Nat.le_trans h1.nfiles h2.nfiles, fun fid => Nat.le_trans (h1.size fid) (h2.size fid)⟩

theorem Chunk.Valid.mono {w w' : World} {c : Chunk} (h : c.Valid w) (g : Grows w w') : c.Valid w' := by
  cases c with
  | mem => exact h
  | file fid off len t fd =>
    obtain ⟨h1, h2, h3⟩ := h
    exact ⟨Nat.lt_of_lt_of_le h1 g.nfiles, h2, Nat.le_trans h3 (g.size fid)⟩

theorem ValidAll.mono {w w' : World} {cs : List Chunk} (h : ValidAll w cs) (g : Grows w w') :
    ValidAll w' cs := fun c hc => (h c hc).mono g

theorem QV.mono {w w' : World} {q : Cq} (h : QV w q) (g : Grows w w') : QV w' q :=
  ⟨h.valid.mono g, h.len⟩

theorem ValidAll.nil (w : World) : ValidAll w [] := by intro c h; cases h

theorem ValidAll.cons {w : World} {c : Chunk} {cs : List Chunk} (h : c.Valid w) (hs : ValidAll w cs) :
    ValidAll w (c :: cs) := by
  intro x hx
  cases hx with
  | head => exact h
  | tail _ hx => exact hs x hx

theorem ValidAll.head {w : World} {c : Chunk} {cs : List Chunk} (h : ValidAll w (c :: cs)) : c.Valid w :=
  h c (List.mem_cons_self ..)

theorem ValidAll.tail {w : World} {c : Chunk} {cs : List Chunk} (h : ValidAll w (c :: cs)) :
    ValidAll w cs := fun x hx => h x (List.mem_cons_of_mem _ hx)

theorem ValidAll.append {w : World} {a b : List Chunk} (ha : ValidAll w a) (hb : ValidAll w b) :
    ValidAll w (a ++ b) := by
  intro x hx
  rcases List.mem_append.mp hx with h | h
  · exact ha x h
  · exact hb x h

theorem ValidAll.left {w : World} {a b : List Chunk} (h : ValidAll w (a ++ b)) : ValidAll w a :=
  fun x hx => h x (List.mem_append_left _ hx)

theorem ValidAll.right {w : World} {a b : List Chunk} (h : ValidAll w (a ++ b)) : ValidAll w b :=
  fun x hx => h x (List.mem_append_right _ hx)

theorem ValidAll.dropLast {w : World} {cs : List Chunk} (h : ValidAll w cs) : ValidAll w cs.dropLast :=
  fun x hx => h x (List.dropLast_subset _ hx)

theorem ValidAll.single {w : World} {c : Chunk} (h : c.Valid w) : ValidAll w [c] :=
  ValidAll.cons h (ValidAll.nil w)

/-! ## list bookkeeping -/

@[simp] theorem remSum_nil : remSum [] = 0 := rfl
@[simp] theorem remSum_cons (c : Chunk) (cs : List Chunk) : remSum (c :: cs) = c.rem + remSum cs := rfl

@[simp] theorem remSum_append (a b : List Chunk) : remSum (a ++ b) = remSum a + remSum b := by
  induction a with
  | nil => simp
  | cons c cs ih => simp [ih, Nat.add_assoc]

theorem split_last {cs : List Chunk} {c : Chunk} (h : cs.getLast? = some c) :
    cs = cs.dropLast ++ [c] := by
  obtain ⟨ys, rfl⟩ := List.getLast?_eq_some_iff.mp h
  simp

theorem remSum_last {cs : List Chunk} {c : Chunk} (h : cs.getLast? = some c) :
    remSum cs = remSum cs.dropLast + c.rem := by
  conv => lhs; rw [split_last h]
  simp

theorem valid_last {w : World} {cs : List Chunk} {c : Chunk} (hw : ValidAll w cs)
    (h : cs.getLast? = some c) : c.Valid w :=
  hw c (by rw [split_last h]; simp)

@[simp] theorem remSum_setLast (cs : List Chunk) (c : Chunk) :
    remSum (setLast cs c) = remSum cs.dropLast + c.rem := by simp [setLast]

theorem valid_setLast {w : World} {cs : List Chunk} {c : Chunk} (hw : ValidAll w cs) (hc : c.Valid w) :
    ValidAll w (setLast cs c) :=
  ValidAll.append hw.dropLast (ValidAll.single hc)

theorem Chunk.rem_adv {w : World} {c : Chunk} {n : Nat} (hn : n ≤ c.rem) (hw : c.Valid w) :
    (c.adv n).rem = c.rem - n ∧ (c.adv n).Valid w := by
  cases c <;> simp only [Chunk.adv, Chunk.rem, Chunk.Valid] at * <;> omega

theorem mem_chunk_valid (w : World) (d : Bytes) (cap : Nat) : (Chunk.mem d 0 cap).Valid w := by
  simp [Chunk.Valid]

theorem mem_chunk_rem (d : Bytes) (cap : Nat) : (Chunk.mem d 0 cap).rem = d.length := by
  simp [Chunk.rem]

/-! ## world primitives that leave file contents alone -/

@[simp] theorem setFile_files_same (w : World) (fid : Nat) (f : File) : (w.setFile fid f).files fid = f := by
  simp [World.setFile]

theorem setFile_files_other (w : World) {fid i : Nat} (f : File) (h : i ≠ fid) :
    (w.setFile fid f).files i = w.files i := by
  simp [World.setFile, h]

theorem setFile_sameFiles (w : World) (fid : Nat) (f : File) (h : f.content = (w.files fid).content) :
    SameFiles w (w.setFile fid f) := by
  refine ⟨rfl, fun i => ?_⟩
  by_cases hi : i = fid
  · subst hi; simp [h]
  · rw [setFile_files_other w f hi]

theorem openFd_same (w : World) (fid : Nat) : SameFiles w (w.openFd fid) :=
  setFile_sameFiles w fid _ rfl

theorem closeFd_same (w : World) (fid : Nat) : SameFiles w (w.closeFd fid) :=
  setFile_sameFiles w fid _ rfl

theorem unlink_same (w : World) (fid : Nat) : SameFiles w (w.unlink fid) :=
  setFile_sameFiles w fid _ rfl

theorem pushOversized_same (w : World) (n : Nat) : SameFiles w (pushOversized w n) := by
  unfold pushOversized
  split
  · exact ⟨rfl, fun _ => rfl⟩
  · split
    · split
      · exact ⟨rfl, fun _ => rfl⟩
      · exact SameFiles.refl w
    · exact SameFiles.refl w

theorem acquire_same (w : World) (n : Nat) : SameFiles w (acquire w n).1 := by
  unfold acquire
  split
  · exact SameFiles.refl w
  · split
    · dsimp only
      split
      · exact ⟨rfl, fun _ => rfl⟩
      · exact SameFiles.refl w
    · exact SameFiles.refl w

theorem release_same (w : World) (c : Chunk) : SameFiles w (release w c) := by
  cases c with
  | mem d off cap =>
    simp only [release]
    split
    · exact SameFiles.refl w
    · split
      · exact pushOversized_same w cap
      · exact SameFiles.refl w
  | file fid off len t fd =>
    simp only [release]
    have h1 : SameFiles w (if t = true then w.unlink fid else w) := by
      split
      · exact unlink_same w fid
      · exact SameFiles.refl w
    split
    · exact h1.trans (closeFd_same _ fid)
    · exact h1

theorem releaseAll_same (w : World) (cs : List Chunk) : SameFiles w (releaseAll w cs) := by
  induction cs generalizing w with
  | nil => exact SameFiles.refl w
  | cons c cs ih => exact (release_same w c).trans (ih _)

theorem popM_same (w : World) : SameFiles w (popM w).1 := by
  unfold popM; split <;> exact ⟨rfl, fun _ => rfl⟩

theorem popW_same (w : World) : SameFiles w (popW w).1 := by
  unfold popW; split <;> exact ⟨rfl, fun _ => rfl⟩

/-! ## append family -/

theorem pushChunk_qv {w : World} {q : Cq} {c : Chunk} {n : Nat} (hq : QV w q) (hc : c.Valid w)
    (hn : c.rem = n) : QV w (pushChunk q c n) := by
  refine ⟨ValidAll.append hq.valid (ValidAll.single hc), ?_⟩
  have := hq.len
  simp only [pushChunk, remSum_append, remSum_cons, remSum_nil]
  omega

theorem appendMemExtend_qv {w : World} {q q' : Cq} {d : Bytes} (h : appendMemExtend q d = some q')
    (hq : QV w q) : QV w q' := by
  unfold appendMemExtend at h
  split at h
  · cases h; exact hq
  · split at h
    · rename_i data off cap hl
      split at h
      · cases h
        have hw := valid_last hq.valid hl
        have hr := remSum_last hl
        have := hq.len
        simp only [Chunk.Valid] at hw
        refine ⟨valid_setLast hq.valid (by simp only [Chunk.Valid, List.length_append]; omega), ?_⟩
        simp only [remSum_setLast, Chunk.rem, List.length_append] at *
        omega
      · cases h
    · cases h

theorem appendMem_spec (w : World) (q : Cq) (d : Bytes) :
    SameFiles w (appendMem w q d).1 ∧ (QV w q → QV (appendMem w q d).1 (appendMem w q d).2) := by
  unfold appendMem
  split
  · rename_i q' h
    refine ⟨SameFiles.refl w, fun hq => ?_⟩
    split at h
    · exact appendMemExtend_qv h hq
    · cases h
  · have hs := acquire_same w (d.length + 1)
    exact ⟨hs, fun hq => pushChunk_qv (hq.mono hs.grows) (mem_chunk_valid ..) (mem_chunk_rem ..)⟩

theorem appendMemMin_spec (w : World) (q : Cq) (d : Bytes) :
    SameFiles w (appendMemMin w q d).1 ∧ (QV w q → QV (appendMemMin w q d).1 (appendMemMin w q d).2) := by
  unfold appendMemMin
  split
  · rename_i q' h
    refine ⟨SameFiles.refl w, fun hq => ?_⟩
    split at h
    · exact appendMemExtend_qv h hq
    · cases h
  · exact ⟨SameFiles.refl w, fun hq => pushChunk_qv hq (mem_chunk_valid ..) (mem_chunk_rem ..)⟩

theorem appendBuffer_spec (w : World) (q : Cq) (d : Bytes) :
    SameFiles w (appendBuffer w q d).1 ∧ (QV w q → QV (appendBuffer w q d).1 (appendBuffer w q d).2) := by
  unfold appendBuffer
  split
  · rename_i q' h
    refine ⟨SameFiles.refl w, fun hq => ?_⟩
    split at h
    · exact appendMemExtend_qv h hq
    · cases h
  · have hs := acquire_same w w.cs
    exact ⟨hs, fun hq => pushChunk_qv (hq.mono hs.grows) (mem_chunk_valid ..) (mem_chunk_rem ..)⟩

theorem appendBufferOpen_spec (w : World) (q : Cq) (d : Bytes) :
    SameFiles w (appendBufferOpen w q d).1 ∧
      (QV w q → QV (appendBufferOpen w q d).1 (appendBufferOpen w q d).2) := by
  have hs := acquire_same w w.cs
  exact ⟨hs, fun hq => pushChunk_qv (hq.mono hs.grows) (mem_chunk_valid ..) (mem_chunk_rem ..)⟩

theorem getUseMemory_spec (w : World) (q : Cq) (req : Nat) (data : Bytes) :
    SameFiles w (getUseMemory w q req data).1 ∧
      (QV w q → QV (getUseMemory w q req data).1 (getUseMemory w q req data).2.1) := by
  unfold getUseMemory
  dsimp only
  split
  · -- data goes into the existing last chunk
    rename_i old off cap hfit
    split
    · exact ⟨SameFiles.refl w, id⟩
    · refine ⟨SameFiles.refl w, fun hq => ?_⟩
      have hl : q.chunks.getLast? = some (.mem old off cap) := by
        revert hfit
        split
        · rename_i o2 off2 cap2 hl
          split
          · intro h; cases h; exact hl
          · intro h; cases h
        · intro h; cases h
      have hw := valid_last hq.valid hl
      have hr := remSum_last hl
      have := hq.len
      simp only [Chunk.Valid] at hw
      refine ⟨valid_setLast hq.valid (by simp only [Chunk.Valid, List.length_append]; omega), ?_⟩
      simp only [remSum_setLast, Chunk.rem, List.length_append] at *
      omega
  · -- a new chunk was opened
    have hs := acquire_same w (if req = 0 then w.cs / 2 else req)
    split
    · exact ⟨hs.trans (release_same _ _), fun hq => hq.mono (hs.trans (release_same _ _)).grows⟩
    · split
      · rename_i old off pcap hl
        split
        · exact ⟨hs, fun hq => pushChunk_qv (hq.mono hs.grows) (mem_chunk_valid ..) (mem_chunk_rem ..)⟩
        · refine ⟨hs.trans (release_same _ _), fun hq => ?_⟩
          have hw := valid_last hq.valid hl
          have hr := remSum_last hl
          have := hq.len
          simp only [Chunk.Valid] at hw
          refine QV.mono ⟨valid_setLast hq.valid
            (by simp only [Chunk.Valid, List.length_append]; omega), ?_⟩ (hs.trans (release_same _ _)).grows
          simp only [remSum_setLast, Chunk.rem, List.length_append] at *
          omega
      · exact ⟨hs, fun hq => pushChunk_qv (hq.mono hs.grows) (mem_chunk_valid ..) (mem_chunk_rem ..)⟩

theorem appendFile_spec (w : World) (q : Cq) (fid off len : Nat) (fd : Bool) :
    SameFiles w (appendFile w q fid off len fd).1 ∧
      (QV w q → fid < w.nfiles → off + len ≤ sz w fid →
        QV (appendFile w q fid off len fd).1 (appendFile w q fid off len fd).2) := by
  unfold appendFile
  split
  · have hs : SameFiles w (if fd = true then w.openFd fid else w) := by
      split
      · exact openFd_same w fid
      · exact SameFiles.refl w
    refine ⟨hs, fun hq h1 h2 => pushChunk_qv (hq.mono hs.grows) ?_ (by simp [Chunk.rem])⟩
    simp only [Chunk.Valid]
    exact ⟨by rw [hs.nfiles]; exact h1, by omega, by rw [hs.sz]; exact h2⟩
  · exact ⟨SameFiles.refl w, fun hq _ _ => hq⟩

theorem appendChunkqueue_qv {w : World} {dest src : Cq} (hd : QV w dest) (hs : QV w src) :
    QV w (appendChunkqueue dest src).1 ∧ QV w (appendChunkqueue dest src).2 := by
  unfold appendChunkqueue
  split
  · exact ⟨hd, hs⟩
  · have h1 := hd.len
    have h2 := hs.len
    refine ⟨⟨ValidAll.append hd.valid hs.valid, ?_⟩, ⟨ValidAll.nil w, ?_⟩⟩
    · simp only [Cq.length, remSum_append]; omega
    · simp

/-! ## consume / compact -/

theorem mwLoop_spec (w : World) (cs : List Chunk) (n : Nat) :
    SameFiles w (mwLoop w cs n).1 ∧
      (ValidAll w cs → ValidAll (mwLoop w cs n).1 (mwLoop w cs n).2 ∧
        remSum (mwLoop w cs n).2 = remSum cs - n) := by
  induction cs generalizing w n with
  | nil => exact ⟨SameFiles.refl w, fun _ => ⟨ValidAll.nil w, by simp [mwLoop]⟩⟩
  | cons c rest ih =>
    simp only [mwLoop]
    split
    · rename_i hge
      have hr := release_same w c
      obtain ⟨hs, hv⟩ := ih (release w c) (n - c.rem)
      refine ⟨hr.trans hs, fun hval => ?_⟩
      obtain ⟨h1, h2⟩ := hv (hval.tail.mono hr.grows)
      refine ⟨h1, ?_⟩
      rw [h2]; simp only [remSum_cons]; omega
    · rename_i hlt
      refine ⟨SameFiles.refl w, fun hval => ?_⟩
      obtain ⟨h1, h2⟩ := Chunk.rem_adv (n := n) (by omega) hval.head
      exact ⟨ValidAll.cons h2 hval.tail, by simp only [remSum_cons, h1]; omega⟩

theorem markWritten_spec (w : World) (q : Cq) (n : Nat) :
    SameFiles w (markWritten w q n).1 ∧
      (QV w q → n ≤ remSum q.chunks → QV (markWritten w q n).1 (markWritten w q n).2) := by
  obtain ⟨hs, hv⟩ := mwLoop_spec w q.chunks n
  refine ⟨hs, fun hq hn => ?_⟩
  obtain ⟨h1, h2⟩ := hv hq.valid
  have := hq.len
  refine ⟨h1, ?_⟩
  simp only [markWritten, h2]
  omega

theorem rfLoop_spec (w : World) (cs : List Chunk) :
    SameFiles w (rfLoop w cs).1 ∧
      (ValidAll w cs → ValidAll (rfLoop w cs).1 (rfLoop w cs).2 ∧ remSum (rfLoop w cs).2 = remSum cs) := by
  induction cs generalizing w with
  | nil => exact ⟨SameFiles.refl w, fun _ => ⟨ValidAll.nil w, rfl⟩⟩
  | cons c rest ih =>
    simp only [rfLoop]
    split
    · rename_i h0
      have hr := release_same w c
      obtain ⟨hs, hv⟩ := ih (release w c)
      refine ⟨hr.trans hs, fun hval => ?_⟩
      obtain ⟨h1, h2⟩ := hv (hval.tail.mono hr.grows)
      exact ⟨h1, by rw [h2]; simp [h0]⟩
    · exact ⟨SameFiles.refl w, fun hval => ⟨hval, rfl⟩⟩

theorem removeFinished_spec (w : World) (q : Cq) :
    SameFiles w (removeFinished w q).1 ∧ (QV w q → QV (removeFinished w q).1 (removeFinished w q).2) := by
  obtain ⟨hs, hv⟩ := rfLoop_spec w q.chunks
  refine ⟨hs, fun hq => ?_⟩
  obtain ⟨h1, h2⟩ := hv hq.valid
  exact ⟨h1, by simp only [removeFinished, h2]; exact hq.len⟩


end LtVerif.Cq
