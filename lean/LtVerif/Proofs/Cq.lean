/-
  Helper lemmas for the chunk-queue model (C17).
  Part 1: exact accounting — the counters always equal the bytes the chunks
          still hold and every file chunk lies inside its file (`QV`),
          through every operation and every fault schedule; and the FIFO
          refinement of every operation that does not write temp files
          (`specStep`, `step_refines`).  Part 2: Proofs/CqRes.lean (resources),
          part 3: Proofs/CqSpill.lean (spill paths, full invariant).
-/
import LtVerif.Model.Cq
namespace LtVerif.Cq

/-! ## invariants -/

/-- current size of file `fid` -/
def sz (w : World) (fid : Nat) : Nat := (w.files fid).content.length

/-- the read offset never passes the end of the chunk; a file chunk names an
    existing file and ends inside it -/
def Chunk.Valid (w : World) : Chunk → Prop
  | .mem d off _ => off ≤ d.length
  | .file fid off len t fd => fid < w.nfiles ∧ off ≤ len ∧ len ≤ sz w fid ∧
      -- readable: a descriptor, or a name that lives as long as the chunk does
      (fd.isOpen = true ∨ t = true ∨ fid < w.nsrc)

def ValidAll (w : World) (cs : List Chunk) : Prop := ∀ c ∈ cs, c.Valid w

/-- exact accounting: bytes_in − bytes_out = bytes still held by the chunks -/
structure QV (w : World) (q : Cq) : Prop where
  valid : ValidAll w q.chunks
  len : q.bytesIn - q.bytesOut = (remSum q.chunks : Int)

/-- ids from `nfiles` on are unused: such files are empty -/
def Fresh (w : World) : Prop := ∀ fid, w.nfiles ≤ fid → sz w fid = 0

/-- files only ever grow, ids are never reused -/
structure Grows (w w' : World) : Prop where
  nfiles : w.nfiles ≤ w'.nfiles
  size : ∀ fid, sz w fid ≤ sz w' fid
  nsrc : w'.nsrc = w.nsrc

/-- the scripted syscall results are only consumed (the rest of a schedule is a
    suffix of it); the upload-dir configuration stays -/
structure Calm (w w' : World) : Prop where
  ws : w'.wsched <:+ w.wsched
  ms : w'.msched <:+ w.msched
  nd : w'.ndirs = w.ndirs
  dt : w'.defTempSize = w.defTempSize

theorem Calm.refl (w : World) : Calm w w := ⟨List.suffix_refl _, List.suffix_refl _, rfl, rfl⟩

theorem Calm.trans {a b c : World} (h1 : Calm a b) (h2 : Calm b c) : Calm a c :=
  ⟨h2.ws.trans h1.ws, h2.ms.trans h1.ms, h2.nd.trans h1.nd, h2.dt.trans h1.dt⟩

/-- no file content changed (descriptors, names, pools, schedules may have) -/
structure SameFiles (w w' : World) : Prop where
  nfiles : w'.nfiles = w.nfiles
  nsrc : w'.nsrc = w.nsrc
  content : ∀ fid, (w'.files fid).content = (w.files fid).content
  /-- a file's name count (and the ghost of its owning chunk) stays, or the name goes away -/
  own : ∀ fid, ((w'.files fid).nlink = (w.files fid).nlink ∧ (w'.files fid).tl = (w.files fid).tl) ∨
    (w'.files fid).nlink < (w.files fid).nlink
  calm : Calm w w'

theorem SameFiles.refl (w : World) : SameFiles w w :=
  ⟨rfl, rfl, fun _ => rfl, fun _ => Or.inl ⟨rfl, rfl⟩, ⟨List.suffix_refl _, List.suffix_refl _, rfl, rfl⟩⟩

theorem SameFiles.trans {a b c : World} (h1 : SameFiles a b) (h2 : SameFiles b c) : SameFiles a c := by
  refine ⟨h2.nfiles.trans h1.nfiles, h2.nsrc.trans h1.nsrc, fun fid => (h2.content fid).trans (h1.content fid), fun fid => ?_,
    h1.calm.trans h2.calm⟩
  rcases h1.own fid with ⟨a1, a2⟩ | a1 <;> rcases h2.own fid with ⟨b1, b2⟩ | b1
  · exact Or.inl ⟨b1.trans a1, b2.trans a2⟩
  · exact Or.inr (by omega)
  · exact Or.inr (by omega)
  · exact Or.inr (by omega)

theorem SameFiles.sz {w w' : World} (h : SameFiles w w') (fid : Nat) : sz w' fid = sz w fid := by
  simp [Cq.sz, h.content fid]

theorem SameFiles.grows {w w' : World} (h : SameFiles w w') : Grows w w' :=
  ⟨by rw [h.nfiles]; exact Nat.le_refl _, fun fid => by rw [h.sz fid]; exact Nat.le_refl _, h.nsrc⟩

theorem SameFiles.fresh {w w' : World} (h : SameFiles w w') (hf : Fresh w) : Fresh w' := by
  intro fid hle
  rw [h.sz fid]
  exact hf fid (by rw [← h.nfiles]; exact hle)

theorem Grows.refl (w : World) : Grows w w := (SameFiles.refl w).grows

theorem Grows.trans {a b c : World} (h1 : Grows a b) (h2 : Grows b c) : Grows a c :=
  ⟨Nat.le_trans h1.nfiles h2.nfiles, fun fid => Nat.le_trans (h1.size fid) (h2.size fid), h2.nsrc.trans h1.nsrc⟩

theorem Chunk.Valid.mono {w w' : World} {c : Chunk} (h : c.Valid w) (g : Grows w w') : c.Valid w' := by
  cases c with
  | mem => exact h
  | file fid off len t fd =>
    obtain ⟨h1, h2, h3, h4⟩ := h
    exact ⟨Nat.lt_of_lt_of_le h1 g.nfiles, h2, Nat.le_trans h3 (g.size fid), by rw [g.nsrc]; exact h4⟩

/-- the descriptor of a valid file chunk may be replaced by one that is open
    whenever the old one was -/
theorem Chunk.Valid.setFd {w : World} {fid off len : Nat} {t : Bool} {fd fd' : Fd}
    (h : (Chunk.file fid off len t fd).Valid w) (hfd : fd.isOpen = true → fd'.isOpen = true) :
    (Chunk.file fid off len t fd').Valid w := by
  obtain ⟨h1, h2, h3, h4⟩ := h
  refine ⟨h1, h2, h3, ?_⟩
  rcases h4 with h4 | h4
  · exact Or.inl (hfd h4)
  · exact Or.inr h4

/-- chunkqueue_dup_file_chunk_fd(): the copy of a readable chunk is readable -/
theorem dupFd_readable {w : World} {fid : Nat} {t : Bool} {fd : Fd}
    (h : fd.isOpen = true ∨ t = true ∨ fid < w.nsrc) :
    (dupFd t fd).isOpen = true ∨ false = true ∨ fid < w.nsrc := by
  unfold dupFd
  rcases h with h | h | h
  · rw [if_pos h]; exact Or.inl h
  · subst h
    split
    · rename_i h; exact Or.inl h
    · exact Or.inl rfl
  · exact Or.inr (Or.inr h)

theorem ValidAll.mono {w w' : World} {cs : List Chunk} (h : ValidAll w cs) (g : Grows w w') :
    ValidAll w' cs := fun c hc => (h c hc).mono g

theorem QV.mono {w w' : World} {q : Cq} (h : QV w q) (g : Grows w w') : QV w' q :=
  ⟨h.valid.mono g, h.len⟩

theorem ValidAll.nil (w : World) : ValidAll w [] := by intro c h; cases h

theorem ValidAll.cons {w : World} {c : Chunk} {cs : List Chunk} (h : c.Valid w) (hs : ValidAll w cs) :
    ValidAll w (c :: cs) := by
  intro x hx
  cases hx with
  | head => exact h
  | tail _ hx => exact hs x hx

theorem ValidAll.head {w : World} {c : Chunk} {cs : List Chunk} (h : ValidAll w (c :: cs)) : c.Valid w :=
  h c (List.mem_cons_self ..)

theorem ValidAll.tail {w : World} {c : Chunk} {cs : List Chunk} (h : ValidAll w (c :: cs)) :
    ValidAll w cs := fun x hx => h x (List.mem_cons_of_mem _ hx)

theorem ValidAll.append {w : World} {a b : List Chunk} (ha : ValidAll w a) (hb : ValidAll w b) :
    ValidAll w (a ++ b) := by
  intro x hx
  rcases List.mem_append.mp hx with h | h
  · exact ha x h
  · exact hb x h

theorem ValidAll.left {w : World} {a b : List Chunk} (h : ValidAll w (a ++ b)) : ValidAll w a :=
  fun x hx => h x (List.mem_append_left _ hx)

theorem ValidAll.right {w : World} {a b : List Chunk} (h : ValidAll w (a ++ b)) : ValidAll w b :=
  fun x hx => h x (List.mem_append_right _ hx)

theorem ValidAll.dropLast {w : World} {cs : List Chunk} (h : ValidAll w cs) : ValidAll w cs.dropLast :=
  fun x hx => h x (List.dropLast_subset _ hx)

theorem ValidAll.single {w : World} {c : Chunk} (h : c.Valid w) : ValidAll w [c] :=
  ValidAll.cons h (ValidAll.nil w)

/-! ## list bookkeeping -/

@[simp] theorem remSum_nil : remSum [] = 0 := rfl
@[simp] theorem remSum_cons (c : Chunk) (cs : List Chunk) : remSum (c :: cs) = c.rem + remSum cs := rfl

@[simp] theorem remSum_append (a b : List Chunk) : remSum (a ++ b) = remSum a + remSum b := by
  induction a with
  | nil => simp
  | cons c cs ih => simp [ih, Nat.add_assoc]

theorem split_last {cs : List Chunk} {c : Chunk} (h : cs.getLast? = some c) :
    cs = cs.dropLast ++ [c] := by
  obtain ⟨ys, rfl⟩ := List.getLast?_eq_some_iff.mp h
  simp

theorem remSum_last {cs : List Chunk} {c : Chunk} (h : cs.getLast? = some c) :
    remSum cs = remSum cs.dropLast + c.rem := by
  conv => lhs; rw [split_last h]
  simp

theorem valid_last {w : World} {cs : List Chunk} {c : Chunk} (hw : ValidAll w cs)
    (h : cs.getLast? = some c) : c.Valid w :=
  hw c (by rw [split_last h]; simp)

@[simp] theorem remSum_setLast (cs : List Chunk) (c : Chunk) :
    remSum (setLast cs c) = remSum cs.dropLast + c.rem := by simp [setLast]

theorem valid_setLast {w : World} {cs : List Chunk} {c : Chunk} (hw : ValidAll w cs) (hc : c.Valid w) :
    ValidAll w (setLast cs c) :=
  ValidAll.append hw.dropLast (ValidAll.single hc)

theorem Chunk.rem_adv {w : World} {c : Chunk} {n : Nat} (hn : n ≤ c.rem) (hw : c.Valid w) :
    (c.adv n).rem = c.rem - n ∧ (c.adv n).Valid w := by
  cases c with
  | mem => simp only [Chunk.adv, Chunk.rem, Chunk.Valid] at *; omega
  | file fid off len t fd =>
    simp only [Chunk.adv, Chunk.rem, Chunk.Valid] at *
    exact ⟨by omega, hw.1, by omega, by omega, hw.2.2.2⟩

theorem mem_chunk_valid (w : World) (d : Bytes) (cap : Nat) : (Chunk.mem d 0 cap).Valid w := by
  simp [Chunk.Valid]

theorem mem_chunk_rem (d : Bytes) (cap : Nat) : (Chunk.mem d 0 cap).rem = d.length := by
  simp [Chunk.rem]

/-! ## world primitives that leave file contents alone -/

@[simp] theorem setFile_files_same (w : World) (fid : Nat) (f : File) : (w.setFile fid f).files fid = f := by
  simp [World.setFile]

theorem setFile_files_other (w : World) {fid i : Nat} (f : File) (h : i ≠ fid) :
    (w.setFile fid f).files i = w.files i := by
  simp [World.setFile, h]

theorem setFile_sameFiles (w : World) (fid : Nat) (f : File) (h : f.content = (w.files fid).content)
    (ho : (f.nlink = (w.files fid).nlink ∧ f.tl = (w.files fid).tl) ∨ f.nlink < (w.files fid).nlink) :
    SameFiles w (w.setFile fid f) := by
  refine ⟨rfl, rfl, fun i => ?_, fun i => ?_, ⟨List.suffix_refl _, List.suffix_refl _, rfl, rfl⟩⟩
  · by_cases hi : i = fid
    · subst hi; simp [h]
    · rw [setFile_files_other w f hi]
  · by_cases hi : i = fid
    · subst hi; simpa using ho
    · rw [setFile_files_other w f hi]; exact Or.inl ⟨rfl, rfl⟩

theorem openFd_same (w : World) (fid : Nat) : SameFiles w (w.openFd fid) :=
  setFile_sameFiles w fid _ rfl (Or.inl ⟨rfl, rfl⟩)

theorem closeFd_same (w : World) (fid : Nat) : SameFiles w (w.closeFd fid) :=
  setFile_sameFiles w fid _ rfl (Or.inl ⟨rfl, rfl⟩)

theorem unlink_same (w : World) (fid len : Nat) : SameFiles w (w.unlink fid len) :=
  setFile_sameFiles w fid _ rfl (Or.inr (by simp only; omega))

theorem pushOversized_same (w : World) (n : Nat) : SameFiles w (pushOversized w n) := by
  unfold pushOversized
  split
  · exact ⟨rfl, rfl, fun _ => rfl, fun _ => Or.inl ⟨rfl, rfl⟩, ⟨List.suffix_refl _, List.suffix_refl _, rfl, rfl⟩⟩
  · split
    · split
      · exact ⟨rfl, rfl, fun _ => rfl, fun _ => Or.inl ⟨rfl, rfl⟩, ⟨List.suffix_refl _, List.suffix_refl _, rfl, rfl⟩⟩
      · exact SameFiles.refl w
    · exact SameFiles.refl w

theorem acquire_same (w : World) (n : Nat) : SameFiles w (acquire w n).1 := by
  unfold acquire
  split
  · exact SameFiles.refl w
  · split
    · dsimp only
      split
      · exact ⟨rfl, rfl, fun _ => rfl, fun _ => Or.inl ⟨rfl, rfl⟩, ⟨List.suffix_refl _, List.suffix_refl _, rfl, rfl⟩⟩
      · exact SameFiles.refl w
    · exact SameFiles.refl w

theorem release_same (w : World) (c : Chunk) : SameFiles w (release w c) := by
  cases c with
  | mem d off cap =>
    simp only [release]
    split
    · exact SameFiles.refl w
    · split
      · exact pushOversized_same w cap
      · exact SameFiles.refl w
  | file fid off len t fd =>
    simp only [release]
    have h1 : SameFiles w (if t = true then w.unlink fid len else w) := by
      split
      · exact unlink_same w fid len
      · exact SameFiles.refl w
    split
    · exact h1.trans (closeFd_same _ fid)
    · exact h1

theorem releaseAll_same (w : World) (cs : List Chunk) : SameFiles w (releaseAll w cs) := by
  induction cs generalizing w with
  | nil => exact SameFiles.refl w
  | cons c cs ih => exact (release_same w c).trans (ih _)

theorem popM_same (w : World) : SameFiles w (popM w).1 := by
  unfold popM
  split
  · exact SameFiles.refl w
  · rename_i f t hm
    exact ⟨rfl, rfl, fun _ => rfl, fun _ => Or.inl ⟨rfl, rfl⟩,
      List.suffix_refl _, by rw [hm]; exact List.suffix_cons f t, rfl, rfl⟩

theorem popW_same (w : World) : SameFiles w (popW w).1 := by
  unfold popW
  split
  · exact SameFiles.refl w
  · rename_i f t hm
    exact ⟨rfl, rfl, fun _ => rfl, fun _ => Or.inl ⟨rfl, rfl⟩,
      by rw [hm]; exact List.suffix_cons f t, List.suffix_refl _, rfl, rfl⟩

/-! ## append family -/

theorem pushChunk_qv {w : World} {q : Cq} {c : Chunk} {n : Nat} (hq : QV w q) (hc : c.Valid w)
    (hn : c.rem = n) : QV w (pushChunk q c n) := by
  refine ⟨ValidAll.append hq.valid (ValidAll.single hc), ?_⟩
  have := hq.len
  simp only [pushChunk, remSum_append, remSum_cons, remSum_nil]
  omega

theorem appendMemExtend_qv {w : World} {q q' : Cq} {d : Bytes} (h : appendMemExtend q d = some q')
    (hq : QV w q) : QV w q' := by
  unfold appendMemExtend at h
  split at h
  · cases h; exact hq
  · split at h
    · rename_i data off cap hl
      split at h
      · cases h
        have hw := valid_last hq.valid hl
        have hr := remSum_last hl
        have := hq.len
        simp only [Chunk.Valid] at hw
        refine ⟨valid_setLast hq.valid (by simp only [Chunk.Valid, List.length_append]; omega), ?_⟩
        simp only [remSum_setLast, Chunk.rem, List.length_append] at *
        omega
      · cases h
    · cases h

theorem appendMem_spec (w : World) (q : Cq) (d : Bytes) :
    SameFiles w (appendMem w q d).1 ∧ (QV w q → QV (appendMem w q d).1 (appendMem w q d).2) := by
  unfold appendMem
  split
  · rename_i q' h
    refine ⟨SameFiles.refl w, fun hq => ?_⟩
    split at h
    · exact appendMemExtend_qv h hq
    · cases h
  · have hs := acquire_same w (d.length + 1)
    exact ⟨hs, fun hq => pushChunk_qv (hq.mono hs.grows) (mem_chunk_valid ..) (mem_chunk_rem ..)⟩

theorem appendMemMin_spec (w : World) (q : Cq) (d : Bytes) :
    SameFiles w (appendMemMin w q d).1 ∧ (QV w q → QV (appendMemMin w q d).1 (appendMemMin w q d).2) := by
  unfold appendMemMin
  split
  · rename_i q' h
    refine ⟨SameFiles.refl w, fun hq => ?_⟩
    split at h
    · exact appendMemExtend_qv h hq
    · cases h
  · exact ⟨SameFiles.refl w, fun hq => pushChunk_qv hq (mem_chunk_valid ..) (mem_chunk_rem ..)⟩

theorem appendBuffer_spec (w : World) (q : Cq) (d : Bytes) :
    SameFiles w (appendBuffer w q d).1 ∧ (QV w q → QV (appendBuffer w q d).1 (appendBuffer w q d).2) := by
  unfold appendBuffer
  split
  · rename_i q' h
    refine ⟨SameFiles.refl w, fun hq => ?_⟩
    split at h
    · exact appendMemExtend_qv h hq
    · cases h
  · have hs := acquire_same w w.cs
    exact ⟨hs, fun hq => pushChunk_qv (hq.mono hs.grows) (mem_chunk_valid ..) (mem_chunk_rem ..)⟩

theorem appendBufferOpen_spec (w : World) (q : Cq) (d : Bytes) :
    SameFiles w (appendBufferOpen w q d).1 ∧
      (QV w q → QV (appendBufferOpen w q d).1 (appendBufferOpen w q d).2) := by
  have hs := acquire_same w w.cs
  exact ⟨hs, fun hq => pushChunk_qv (hq.mono hs.grows) (mem_chunk_valid ..) (mem_chunk_rem ..)⟩

/-- the shape of most per-function facts: file contents untouched, accounting kept -/
def QStep (w : World) (q : Cq) (r : World × Cq) : Prop :=
  SameFiles w r.1 ∧ (QV w q → QV r.1 r.2)

theorem QStep.mk' {w : World} {q : Cq} {w' : World} {q' : Cq} (h1 : SameFiles w w')
    (h2 : QV w q → QV w' q') : QStep w q (w', q') := ⟨h1, h2⟩

theorem lastMemFits_some {q : Cq} {sz : Nat} {old : Bytes} {off cap : Nat}
    (h : lastMemFits q sz = some (old, off, cap)) : q.chunks.getLast? = some (.mem old off cap) := by
  unfold lastMemFits at h
  split at h
  · rename_i o2 off2 cap2 hl
    split at h
    · cases h; exact hl
    · cases h
  · cases h

theorem extendLast_qv {w : World} {q : Cq} {old d : Bytes} {off cap cap' : Nat} (hq : QV w q)
    (hl : q.chunks.getLast? = some (.mem old off cap)) :
    QV w { q with chunks := setLast q.chunks (.mem (old ++ d) off cap'), bytesIn := q.bytesIn + d.length } := by
  have hw := valid_last hq.valid hl
  have hr := remSum_last hl
  have := hq.len
  simp only [Chunk.Valid] at hw
  refine ⟨valid_setLast hq.valid (by simp only [Chunk.Valid, List.length_append]; omega), ?_⟩
  simp only [remSum_setLast, Chunk.rem, List.length_append] at *
  omega

theorem useExisting_qv {w : World} {q : Cq} {old : Bytes} {off cap : Nat} (data : Bytes) (hq : QV w q)
    (hl : q.chunks.getLast? = some (.mem old off cap)) : QV w (useExisting q old off cap data) := by
  unfold useExisting
  dsimp only
  split
  · exact hq
  · exact extendLast_qv hq hl

theorem useNew_spec (w : World) (q : Cq) (cap : Nat) (data : Bytes) : QStep w q (useNew w q cap data) := by
  unfold useNew
  dsimp only
  split
  · exact QStep.mk' (release_same w _) fun hq => hq.mono (release_same w _).grows
  · split
    · rename_i old off pcap hl
      split
      · exact QStep.mk' (SameFiles.refl w) fun hq => pushChunk_qv hq (mem_chunk_valid ..) (mem_chunk_rem ..)
      · exact QStep.mk' (release_same w _) fun hq => (extendLast_qv hq hl).mono (release_same w _).grows
    · exact QStep.mk' (SameFiles.refl w) fun hq => pushChunk_qv hq (mem_chunk_valid ..) (mem_chunk_rem ..)

def QStep3 {α : Type} (w : World) (q : Cq) (r : World × Cq × α) : Prop := QStep w q (r.1, r.2.1)

theorem getUseMemory_spec (w : World) (q : Cq) (req : Nat) (data : Bytes) :
    QStep3 w q (getUseMemory w q req data) := by
  unfold getUseMemory
  split
  · rename_i old off cap hfit
    exact ⟨SameFiles.refl w, fun hq => useExisting_qv data hq (lastMemFits_some hfit)⟩
  · split
    rename_i w' cap ha
    split
    rename_i w'' q' hu
    have hs := acquire_same w (memReq w req)
    rw [ha] at hs
    have h := useNew_spec w' q cap data
    rw [hu] at h
    exact ⟨hs.trans h.1, fun hq => h.2 (hq.mono hs.grows)⟩

theorem appendFile_spec (w : World) (q : Cq) (fid off len : Nat) (fd : Bool) :
    SameFiles w (appendFile w q fid off len fd).1 ∧
      (QV w q → fid < w.nfiles → fid < w.nsrc → off + len ≤ sz w fid →
        QV (appendFile w q fid off len fd).1 (appendFile w q fid off len fd).2) := by
  unfold appendFile
  split
  · have hs : SameFiles w (if fd = true then w.openFd fid else w) := by
      split
      · exact openFd_same w fid
      · exact SameFiles.refl w
    refine ⟨hs, fun hq h1 h1' h2 => pushChunk_qv (hq.mono hs.grows) ?_ (by simp [Chunk.rem])⟩
    simp only [Chunk.Valid]
    exact ⟨by rw [hs.nfiles]; exact h1, by omega, by rw [hs.sz]; exact h2,
      Or.inr (Or.inr (by rw [hs.nsrc]; exact h1'))⟩
  · exact ⟨SameFiles.refl w, fun hq _ _ _ => hq⟩

theorem appendChunkqueue_qv {w : World} {dest src : Cq} (hd : QV w dest) (hs : QV w src) :
    QV w (appendChunkqueue dest src).1 ∧ QV w (appendChunkqueue dest src).2 := by
  unfold appendChunkqueue
  split
  · exact ⟨hd, hs⟩
  · have h1 := hd.len
    have h2 := hs.len
    refine ⟨⟨ValidAll.append hd.valid hs.valid, ?_⟩, ⟨ValidAll.nil w, ?_⟩⟩
    · simp only [Cq.length, remSum_append]; omega
    · simp

/-! ## consume / compact -/

theorem mwLoop_spec (w : World) (cs : List Chunk) (n : Nat) :
    SameFiles w (mwLoop w cs n).1 ∧
      (ValidAll w cs → ValidAll (mwLoop w cs n).1 (mwLoop w cs n).2 ∧
        remSum (mwLoop w cs n).2 = remSum cs - n) := by
  induction cs generalizing w n with
  | nil => exact ⟨SameFiles.refl w, fun _ => ⟨ValidAll.nil w, by simp [mwLoop]⟩⟩
  | cons c rest ih =>
    simp only [mwLoop]
    split
    · rename_i hge
      have hr := release_same w c
      obtain ⟨hs, hv⟩ := ih (release w c) (n - c.rem)
      refine ⟨hr.trans hs, fun hval => ?_⟩
      obtain ⟨h1, h2⟩ := hv (hval.tail.mono hr.grows)
      refine ⟨h1, ?_⟩
      rw [h2]; simp only [remSum_cons]; omega
    · rename_i hlt
      refine ⟨SameFiles.refl w, fun hval => ?_⟩
      obtain ⟨h1, h2⟩ := Chunk.rem_adv (n := n) (by omega) hval.head
      exact ⟨ValidAll.cons h2 hval.tail, by simp only [remSum_cons, h1]; omega⟩

theorem markWritten_spec (w : World) (q : Cq) (n : Nat) :
    SameFiles w (markWritten w q n).1 ∧
      (QV w q → n ≤ remSum q.chunks → QV (markWritten w q n).1 (markWritten w q n).2) := by
  obtain ⟨hs, hv⟩ := mwLoop_spec w q.chunks n
  refine ⟨hs, fun hq hn => ?_⟩
  obtain ⟨h1, h2⟩ := hv hq.valid
  have := hq.len
  refine ⟨h1, ?_⟩
  simp only [markWritten, h2]
  omega

theorem rfLoop_spec (w : World) (cs : List Chunk) :
    SameFiles w (rfLoop w cs).1 ∧
      (ValidAll w cs → ValidAll (rfLoop w cs).1 (rfLoop w cs).2 ∧ remSum (rfLoop w cs).2 = remSum cs) := by
  induction cs generalizing w with
  | nil => exact ⟨SameFiles.refl w, fun _ => ⟨ValidAll.nil w, rfl⟩⟩
  | cons c rest ih =>
    simp only [rfLoop]
    split
    · rename_i h0
      have hr := release_same w c
      obtain ⟨hs, hv⟩ := ih (release w c)
      refine ⟨hr.trans hs, fun hval => ?_⟩
      obtain ⟨h1, h2⟩ := hv (hval.tail.mono hr.grows)
      exact ⟨h1, by rw [h2]; simp [h0]⟩
    · exact ⟨SameFiles.refl w, fun hval => ⟨hval, rfl⟩⟩

theorem removeFinished_spec (w : World) (q : Cq) : QStep w q (removeFinished w q) := by
  obtain ⟨hs, hv⟩ := rfLoop_spec w q.chunks
  refine ⟨hs, fun hq => ?_⟩
  obtain ⟨h1, h2⟩ := hv hq.valid
  exact ⟨h1, by simp only [removeFinished, h2]; exact hq.len⟩

theorem reLoop_spec (w : World) (c : Chunk) (cs : List Chunk) :
    SameFiles w (reLoop w c cs).1 ∧
      (ValidAll w (c :: cs) → ValidAll (reLoop w c cs).1 (reLoop w c cs).2 ∧
        remSum (reLoop w c cs).2 = remSum (c :: cs)) := by
  fun_induction reLoop w c cs with
  | case1 w c => exact ⟨SameFiles.refl w, fun hv => ⟨hv, rfl⟩⟩
  | case2 w c n h0 =>
    have hr := release_same w n
    exact ⟨hr, fun hv => ⟨(ValidAll.single hv.head).mono hr.grows, by simp [h0]⟩⟩
  | case3 w c n h0 m rest' w' t heq ih =>
    have hr := release_same w n
    rw [heq] at ih
    obtain ⟨hs, hv2⟩ := ih
    refine ⟨hr.trans hs, fun hv => ?_⟩
    obtain ⟨h1, h2⟩ := hv2 (hv.tail.tail.mono hr.grows)
    refine ⟨ValidAll.cons (hv.head.mono (hr.trans hs).grows) h1, ?_⟩
    simp only [remSum_cons] at *
    omega
  | case4 w c n rest h0 w' t heq ih =>
    rw [heq] at ih
    obtain ⟨hs, hv2⟩ := ih
    refine ⟨hs, fun hv => ?_⟩
    obtain ⟨h1, h2⟩ := hv2 hv.tail
    refine ⟨ValidAll.cons (hv.head.mono hs.grows) h1, ?_⟩
    simp only [remSum_cons] at *
    omega

theorem removeEmpty_spec (w : World) (q : Cq) : QStep w q (removeEmpty w q) := by
  unfold removeEmpty
  split
  rename_i w1 cs1 h1
  have hf := rfLoop_spec w q.chunks
  rw [h1] at hf
  obtain ⟨hs1, hv1⟩ := hf
  split
  · refine QStep.mk' hs1 fun hq => ?_
    obtain ⟨_, e⟩ := hv1 hq.valid
    exact ⟨ValidAll.nil _, by simpa [← e] using hq.len⟩
  · rename_i c rest
    split
    rename_i w2 cs2 h2
    have hr := reLoop_spec w1 c rest
    rw [h2] at hr
    obtain ⟨hs2, hv2⟩ := hr
    refine QStep.mk' (hs1.trans hs2) fun hq => ?_
    obtain ⟨v1, e1⟩ := hv1 hq.valid
    obtain ⟨v2, e2⟩ := hv2 v1
    exact ⟨v2, by simpa [e2, e1] using hq.len⟩

theorem compactMemOffset_qv {w : World} {q : Cq} (hq : QV w q) : QV w (compactMemOffset q) := by
  unfold compactMemOffset
  split
  · rename_i d off cap rest hc
    split
    · exact hq
    · have hv := hq.valid
      have hl := hq.len
      rw [hc] at hv hl
      have h0 := hv.head
      simp only [Chunk.Valid] at h0
      refine ⟨ValidAll.cons (by simp [Chunk.Valid]) hv.tail, ?_⟩
      simp only [remSum_cons, Chunk.rem, List.length_drop] at *
      omega
  · exact hq

theorem cmLoop_spec (w : World) (data : Bytes) (off cap : Nat) (cs : List Chunk) (need : Nat) :
    SameFiles w (cmLoop w data off cap cs need).1 ∧
      (off ≤ data.length → ValidAll w cs →
        ValidAll (cmLoop w data off cap cs need).1 (cmLoop w data off cap cs need).2 ∧
        remSum (cmLoop w data off cap cs need).2 = (data.length - off) + remSum cs) := by
  fun_induction cmLoop w data off cap cs need with
  | case1 w data cap need =>
    exact ⟨SameFiles.refl w, fun ho _ => ⟨ValidAll.single (by simpa [Chunk.Valid] using ho), by simp [Chunk.rem]⟩⟩
  | case2 w data cap c rest =>
    exact ⟨SameFiles.refl w, fun ho hv =>
      ⟨ValidAll.cons (by simpa [Chunk.Valid] using ho) hv, by simp [Chunk.rem]⟩⟩
  | case3 w data cap rest need hn d2 off2 cap2 l2 hgt =>
    refine ⟨SameFiles.refl w, fun ho hv => ?_⟩
    have h2 := hv.head
    simp only [Chunk.Valid] at h2
    refine ⟨ValidAll.cons (by simp only [Chunk.Valid, List.length_append]; omega)
      (ValidAll.cons (by simp only [Chunk.Valid]; omega) hv.tail), ?_⟩
    simp only [remSum_cons, Chunk.rem, List.length_append, List.length_take, List.length_drop]
    omega
  | case4 w data cap rest need hn d2 off2 cap2 l2 hle ih =>
    have hr := release_same w (.mem d2 off2 cap2)
    obtain ⟨hs, hv2⟩ := ih
    refine ⟨hr.trans hs, fun ho hv => ?_⟩
    have h2 := hv.head
    simp only [Chunk.Valid] at h2
    obtain ⟨v, e⟩ := hv2 (by simp only [List.length_append]; omega) (hv.tail.mono hr.grows)
    refine ⟨v, ?_⟩
    rw [e]
    simp only [remSum_cons, Chunk.rem, List.length_append, List.length_drop]
    omega
  | case5 w data cap c rest need hn hc =>
    exact ⟨SameFiles.refl w, fun ho hv =>
      ⟨ValidAll.cons (by simpa [Chunk.Valid] using ho) hv, by simp [Chunk.rem]⟩⟩

theorem compactMem_spec (w : World) (q : Cq) (clen : Nat) : QStep w q (compactMem w q clen) := by
  unfold compactMem
  split
  · rename_i d off cap rest hc
    dsimp only
    have key : ∀ (w0 w1 : World) (data : Bytes) (o c : Nat) (need : Nat), SameFiles w w0 →
        w1 = w0 → o ≤ data.length → data.length - o = d.length - off →
        QStep w q ((cmLoop w1 data o c rest need).1, { q with chunks := (cmLoop w1 data o c rest need).2 }) := by
      intro w0 w1 data o c need hs0 e ho hlen
      subst e
      obtain ⟨hs, hv⟩ := cmLoop_spec w1 data o c rest need
      refine QStep.mk' (hs0.trans hs) fun hq => ?_
      have hval := hq.valid
      have hl := hq.len
      rw [hc] at hval hl
      obtain ⟨v, e⟩ := hv ho (hval.tail.mono hs0.grows)
      refine ⟨v, ?_⟩
      simp only [remSum_cons, Chunk.rem] at hl
      simp only [e]
      omega
    split
    · exact QStep.mk' (SameFiles.refl w) id
    · split
      · split
        · exact key w w (d.drop off) 0 cap (clen - (d.length - off)) (SameFiles.refl w) rfl
            (Nat.zero_le _) (by simp)
        · by_cases ho : off ≤ d.length
          · exact key w w d off cap (clen - (d.length - off)) (SameFiles.refl w) rfl ho rfl
          · have hs := (cmLoop_spec w d off cap rest (clen - (d.length - off))).1
            refine QStep.mk' hs fun hq => absurd ?_ ho
            have hval := hq.valid
            rw [hc] at hval
            simpa [Chunk.Valid] using hval.head
      · have ha := acquire_same w (clen + 1)
        have hr := release_same (acquire w (clen + 1)).1 (.mem d off cap)
        exact key _ _ (d.drop off) 0 _ (clen - (d.length - off)) (ha.trans hr) rfl
          (Nat.zero_le _) (by simp)
  · exact QStep.mk' (SameFiles.refl w) id

/-! ## the queued bytes -/

@[simp] theorem absChunks_nil (w : World) : absChunks w [] = [] := rfl

@[simp] theorem absChunks_cons (w : World) (c : Chunk) (cs : List Chunk) :
    absChunks w (c :: cs) = c.content w ++ absChunks w cs := by simp [absChunks]

@[simp] theorem absChunks_append (w : World) (a b : List Chunk) :
    absChunks w (a ++ b) = absChunks w a ++ absChunks w b := by simp [absChunks]

theorem content_same {w w' : World} (h : SameFiles w w') (c : Chunk) : c.content w' = c.content w := by
  cases c <;> simp [Chunk.content, h.content]

theorem absChunks_same {w w' : World} (h : SameFiles w w') (cs : List Chunk) :
    absChunks w' cs = absChunks w cs := by
  induction cs with
  | nil => rfl
  | cons c cs ih => simp [ih, content_same h]

theorem content_length {w : World} {c : Chunk} (h : c.Valid w) : (c.content w).length = c.rem := by
  cases c with
  | mem d off cap => simp [Chunk.content, Chunk.rem]
  | file fid off len t fd =>
    simp only [Chunk.Valid, sz] at h
    simp only [Chunk.content, Chunk.rem, List.length_take, List.length_drop]
    omega

theorem absChunks_length {w : World} {cs : List Chunk} (h : ValidAll w cs) :
    (absChunks w cs).length = remSum cs := by
  induction cs with
  | nil => rfl
  | cons c cs ih => simp [ih h.tail, content_length h.head]

theorem abs_setLast {w : World} {cs : List Chunk} {c c' : Chunk} {x : Bytes}
    (hl : cs.getLast? = some c) (hc : c'.content w = c.content w ++ x) :
    absChunks w (setLast cs c') = absChunks w cs ++ x := by
  conv => rhs; rw [split_last hl]
  simp [setLast, hc]

theorem content_adv {w : World} {c : Chunk} {n : Nat} (hn : n ≤ c.rem) :
    (c.adv n).content w = (c.content w).drop n := by
  cases c with
  | mem d off cap => simp [Chunk.adv, Chunk.content, Nat.add_comm]
  | file fid off len t fd =>
    simp only [Chunk.rem] at hn
    simp only [Chunk.adv, Chunk.content, List.drop_take, List.drop_drop]
    congr 1
    omega

/-- the operation appended exactly the bytes `d` to the queue -/
def Appends (w : World) (q : Cq) (d : Bytes) (r : World × Cq) : Prop :=
  QV w q → SameFiles w r.1 → r.2.abs r.1 = q.abs w ++ d

theorem Appends.mk' {w : World} {q : Cq} {d : Bytes} {w' : World} {q' : Cq}
    (h : QV w q → absChunks w q'.chunks = absChunks w q.chunks ++ d) : Appends w q d (w', q') := by
  intro hq hs
  simp only [Cq.abs]
  rw [absChunks_same hs]
  exact h hq

theorem pushChunk_abs (w : World) (q : Cq) (c : Chunk) (n : Nat) :
    absChunks w (pushChunk q c n).chunks = absChunks w q.chunks ++ c.content w := by
  simp [pushChunk]

theorem extendLast_abs {w : World} {q : Cq} {old d : Bytes} {off cap cap' : Nat} (hq : QV w q)
    (hl : q.chunks.getLast? = some (.mem old off cap)) :
    absChunks w (setLast q.chunks (.mem (old ++ d) off cap')) = absChunks w q.chunks ++ d := by
  have hw := valid_last hq.valid hl
  simp only [Chunk.Valid] at hw
  refine abs_setLast hl ?_
  simp [Chunk.content, List.drop_append_of_le_length hw]

theorem appendMemExtend_abs {w : World} {q q' : Cq} {d : Bytes} (h : appendMemExtend q d = some q')
    (hq : QV w q) : absChunks w q'.chunks = absChunks w q.chunks ++ d := by
  unfold appendMemExtend at h
  split at h
  · rename_i h0
    cases h
    have : d = [] := List.eq_nil_of_length_eq_zero h0
    simp [this]
  · split at h
    · rename_i data off cap hl
      split at h
      · cases h
        exact extendLast_abs hq hl
      · cases h
    · cases h

theorem mem_content (w : World) (d : Bytes) (cap : Nat) : (Chunk.mem d 0 cap).content w = d := by
  simp [Chunk.content]

theorem appendMem_abs (w : World) (q : Cq) (d : Bytes) : Appends w q d (appendMem w q d) := by
  unfold appendMem
  split
  · rename_i q' h
    refine Appends.mk' fun hq => ?_
    split at h
    · exact appendMemExtend_abs h hq
    · cases h
  · exact Appends.mk' fun _ => by rw [pushChunk_abs, mem_content]

theorem appendMemMin_abs (w : World) (q : Cq) (d : Bytes) : Appends w q d (appendMemMin w q d) := by
  unfold appendMemMin
  split
  · rename_i q' h
    refine Appends.mk' fun hq => ?_
    split at h
    · exact appendMemExtend_abs h hq
    · cases h
  · exact Appends.mk' fun _ => by rw [pushChunk_abs, mem_content]

theorem appendBuffer_abs (w : World) (q : Cq) (d : Bytes) : Appends w q d (appendBuffer w q d) := by
  unfold appendBuffer
  split
  · rename_i q' h
    refine Appends.mk' fun hq => ?_
    split at h
    · exact appendMemExtend_abs h hq
    · cases h
  · exact Appends.mk' fun _ => by rw [pushChunk_abs, mem_content]

theorem appendBufferOpen_abs (w : World) (q : Cq) (d : Bytes) : Appends w q d (appendBufferOpen w q d) :=
  Appends.mk' fun _ => by rw [pushChunk_abs, mem_content]

theorem useExisting_abs {w : World} {q : Cq} {old : Bytes} {off cap : Nat} (data : Bytes) (hq : QV w q)
    (hl : q.chunks.getLast? = some (.mem old off cap)) :
    absChunks w (useExisting q old off cap data).chunks =
      absChunks w q.chunks ++ data.take (space old.length cap) := by
  unfold useExisting
  dsimp only
  split
  · rename_i h0
    simp [List.eq_nil_of_length_eq_zero h0]
  · exact extendLast_abs hq hl

theorem useNew_abs (w : World) (q : Cq) (cap : Nat) (data : Bytes) :
    Appends w q (data.take (space 0 cap)) (useNew w q cap data) := by
  unfold useNew
  dsimp only
  split
  · rename_i h0
    exact Appends.mk' fun _ => by simp [List.eq_nil_of_length_eq_zero h0]
  · split
    · rename_i old off pcap hl
      split
      · exact Appends.mk' fun _ => by rw [pushChunk_abs, mem_content]
      · exact Appends.mk' fun hq => extendLast_abs hq hl
    · exact Appends.mk' fun _ => by rw [pushChunk_abs, mem_content]

/-- get_memory/use_memory append the first `avail` bytes the caller offered -/
theorem getUseMemory_abs (w : World) (q : Cq) (req : Nat) (data : Bytes) (hq : QV w q) :
    (getUseMemory w q req data).2.1.abs (getUseMemory w q req data).1 =
      q.abs w ++ data.take (getUseMemory w q req data).2.2 := by
  have hsame := (getUseMemory_spec w q req data).1
  revert hsame
  unfold getUseMemory
  split
  · rename_i old off cap hfit
    intro _
    exact useExisting_abs data hq (lastMemFits_some hfit)
  · split
    rename_i w' cap ha
    split
    rename_i w'' q' hu
    intro hsame
    have hs := acquire_same w (memReq w req)
    rw [ha] at hs
    have h := useNew_abs w' q cap data
    rw [hu] at h
    have h2 := (useNew_spec w' q cap data).1
    rw [hu] at h2
    have := h (hq.mono hs.grows) h2
    simp only [Cq.abs] at *
    rw [this, absChunks_same hs]

theorem appendFile_abs (w : World) (q : Cq) (fid off len : Nat) (fd : Bool) :
    Appends w q (((w.files fid).content.drop off).take len) (appendFile w q fid off len fd) := by
  unfold appendFile
  split
  · refine Appends.mk' fun _ => ?_
    rw [pushChunk_abs]
    simp [Chunk.content]
  · rename_i h0
    refine Appends.mk' fun _ => ?_
    have : len = 0 := by omega
    simp [this]

theorem appendChunkqueue_abs (w : World) (dest src : Cq) :
    (appendChunkqueue dest src).1.abs w = dest.abs w ++ src.abs w ∧ (appendChunkqueue dest src).2.abs w = [] := by
  unfold appendChunkqueue
  split
  · rename_i h
    simp [Cq.abs, h]
  · simp [Cq.abs]

theorem mwLoop_abs (w : World) (cs : List Chunk) (n : Nat) (hv : ValidAll w cs) :
    absChunks w (mwLoop w cs n).2 = (absChunks w cs).drop n := by
  induction cs generalizing w n with
  | nil => simp [mwLoop]
  | cons c rest ih =>
    simp only [mwLoop]
    have hl := content_length hv.head
    split
    · rename_i hge
      have hr := release_same w c
      have := ih (release w c) (n - c.rem) (hv.tail.mono hr.grows)
      simp only [absChunks_same hr] at this
      rw [this, absChunks_cons, List.drop_append, hl]
      have : (c.content w).drop n = [] := List.drop_of_length_le (by omega)
      simp [this]
    · rename_i hlt
      rw [absChunks_cons, absChunks_cons, content_adv (by omega), List.drop_append]
      have : n - (c.content w).length = 0 := by omega
      simp [this]

theorem markWritten_abs (w : World) (q : Cq) (n : Nat) (hq : QV w q) :
    (markWritten w q n).2.abs (markWritten w q n).1 = (q.abs w).drop n := by
  have hs := (markWritten_spec w q n).1
  simp only [Cq.abs]
  rw [absChunks_same hs]
  exact mwLoop_abs w q.chunks n hq.valid

theorem content_nil_of_rem {w : World} {c : Chunk} (hv : c.Valid w) (h0 : c.rem = 0) : c.content w = [] :=
  List.eq_nil_of_length_eq_zero (by rw [content_length hv, h0])

theorem rfLoop_abs (w : World) (cs : List Chunk) (hv : ValidAll w cs) :
    absChunks w (rfLoop w cs).2 = absChunks w cs := by
  induction cs generalizing w with
  | nil => rfl
  | cons c rest ih =>
    simp only [rfLoop]
    split
    · rename_i h0
      have hr := release_same w c
      have := ih (release w c) (hv.tail.mono hr.grows)
      simp only [absChunks_same hr] at this
      rw [this, absChunks_cons, content_nil_of_rem hv.head h0, List.nil_append]
    · rfl

theorem removeFinished_abs (w : World) (q : Cq) (hq : QV w q) :
    (removeFinished w q).2.abs (removeFinished w q).1 = q.abs w := by
  have hs := (removeFinished_spec w q).1
  simp only [Cq.abs]
  rw [absChunks_same hs]
  exact rfLoop_abs w q.chunks hq.valid

theorem reLoop_abs (w : World) (c : Chunk) (cs : List Chunk) (hv : ValidAll w (c :: cs)) :
    absChunks w (reLoop w c cs).2 = absChunks w (c :: cs) := by
  fun_induction reLoop w c cs with
  | case1 w c => rfl
  | case2 w c n h0 =>
    simp [content_nil_of_rem hv.tail.head h0]
  | case3 w c n h0 m rest' w' t heq ih =>
    have hr := release_same w n
    rw [heq] at ih
    have := ih (hv.tail.tail.mono hr.grows)
    simp only [absChunks_same hr] at this
    simp [this, content_nil_of_rem hv.tail.head h0]
  | case4 w c n rest h0 w' t heq ih =>
    rw [heq] at ih
    simp [ih hv.tail]

theorem removeEmpty_abs (w : World) (q : Cq) (hq : QV w q) :
    (removeEmpty w q).2.abs (removeEmpty w q).1 = q.abs w := by
  have hs := (removeEmpty_spec w q).1
  simp only [Cq.abs]
  rw [absChunks_same hs]
  unfold removeEmpty
  split
  rename_i w1 cs1 h1
  have hf := rfLoop_spec w q.chunks
  have ha := rfLoop_abs w q.chunks hq.valid
  rw [h1] at hf ha
  obtain ⟨hs1, hv1⟩ := hf
  split
  · exact ha
  · rename_i c rest
    split
    rename_i w2 cs2 h2
    have hr := reLoop_abs w1 c rest (hv1 hq.valid).1
    rw [h2] at hr
    simp only [absChunks_same hs1] at hr
    exact hr.trans ha

theorem compactMemOffset_abs (w : World) (q : Cq) : (compactMemOffset q).abs w = q.abs w := by
  unfold compactMemOffset
  split
  · rename_i d off cap rest hc
    split
    · rfl
    · simp [Cq.abs, hc, Chunk.content]
  · rfl

theorem cmLoop_abs (w : World) (data : Bytes) (off cap : Nat) (cs : List Chunk) (need : Nat)
    (ho : off ≤ data.length) (hv : ValidAll w cs) :
    absChunks w (cmLoop w data off cap cs need).2 = data.drop off ++ absChunks w cs := by
  fun_induction cmLoop w data off cap cs need with
  | case1 w data cap need => simp [Chunk.content]
  | case2 w data cap c rest => simp [Chunk.content]
  | case3 w data cap rest need hn d2 off2 cap2 l2 hgt =>
    simp only [absChunks_cons, Chunk.content, List.drop_append_of_le_length ho, List.append_assoc]
    congr 1
    rw [← List.append_assoc, ← List.drop_drop, List.take_append_drop]
  | case4 w data cap rest need hn d2 off2 cap2 l2 hle ih =>
    have hr := release_same w (.mem d2 off2 cap2)
    have := ih (by simp only [List.length_append]; omega) (hv.tail.mono hr.grows)
    simp only [absChunks_same hr] at this
    rw [this, List.drop_append_of_le_length ho]
    simp [Chunk.content]
  | case5 w data cap c rest need hn hc => simp [Chunk.content]

theorem compactMem_abs (w : World) (q : Cq) (clen : Nat) (hq : QV w q) :
    (compactMem w q clen).2.abs (compactMem w q clen).1 = q.abs w := by
  have hs := (compactMem_spec w q clen).1
  simp only [Cq.abs]
  rw [absChunks_same hs]
  unfold compactMem
  split
  · rename_i d off cap rest hc
    dsimp only
    have hval := hq.valid
    rw [hc] at hval
    have ho : off ≤ d.length := by simpa [Chunk.Valid] using hval.head
    rw [hc]
    split
    · simp [hc]
    · split
      · split
        · rw [cmLoop_abs w _ 0 cap rest _ (Nat.zero_le _) hval.tail]
          simp [Chunk.content]
        · rw [cmLoop_abs w d off cap rest _ ho hval.tail]
          simp [Chunk.content]
      · have ha := acquire_same w (clen + 1)
        have hr := release_same (acquire w (clen + 1)).1 (.mem d off cap)
        have := cmLoop_abs (release (acquire w (clen + 1)).1 (.mem d off cap)) (d.drop off) 0
          (extendCap 0 (acquire w (clen + 1)).2 (d.length - off)) rest (clen - (d.length - off))
          (Nat.zero_le _) (hval.tail.mono (ha.trans hr).grows)
        simp only [absChunks_same (ha.trans hr)] at this
        rw [this]
        simp [Chunk.content]
  · rfl

/-! ## steal -/

theorem take_content_length {w : World} {c : Chunk} {n : Nat} (hv : c.Valid w) (hn : n ≤ c.rem) :
    ((c.content w).take n).length = n := by
  rw [List.length_take, content_length hv]; omega

theorem stealPartial_spec (w : World) (dest : Cq) (c : Chunk) (n : Nat) :
    SameFiles w (stealPartial w dest c n).1 ∧
      (QV w dest → c.Valid w → n ≤ c.rem →
        QV (stealPartial w dest c n).1 (stealPartial w dest c n).2 ∧
        absChunks w (stealPartial w dest c n).2.chunks = absChunks w dest.chunks ++ (c.content w).take n) := by
  cases c with
  | mem d off cap =>
    simp only [stealPartial]
    obtain ⟨hs, hq⟩ := appendMem_spec w dest ((d.drop off).take n)
    refine ⟨hs, fun hd _ _ => ⟨hq hd, ?_⟩⟩
    have := appendMem_abs w dest ((d.drop off).take n) hd hs
    simp only [Cq.abs] at this
    rw [absChunks_same hs] at this
    simpa [Chunk.content] using this
  | file fid off len t fd =>
    simp only [stealPartial]
    split
    · have hs : SameFiles w (if (dupFd t fd).isOpen = true then w.openFd fid else w) := by
        split
        · exact openFd_same w fid
        · exact SameFiles.refl w
      refine ⟨hs, fun hd hv hn => ⟨pushChunk_qv (hd.mono hs.grows) ?_ (by simp [Chunk.rem]), ?_⟩⟩
      · simp only [Chunk.Valid, Chunk.rem] at hv hn ⊢
        refine ⟨by rw [hs.nfiles]; exact hv.1, by omega, by rw [hs.sz]; omega, ?_⟩
        rw [hs.nsrc]; exact dupFd_readable hv.2.2.2
      · simp only [Chunk.rem] at hn
        rw [pushChunk_abs]
        simp only [Chunk.content, List.take_take]
        congr 2
        omega
    · rename_i h0
      have : n = 0 := by omega
      exact ⟨SameFiles.refl w, fun hd _ _ => ⟨hd, by simp [this]⟩⟩

theorem moveChunk_spec (w : World) (dest : Cq) (c : Chunk) :
    SameFiles w (moveChunk w dest c).1 ∧
      (QV w dest → c.Valid w →
        QV (moveChunk w dest c).1 (moveChunk w dest c).2 ∧
        absChunks w (moveChunk w dest c).2.chunks = absChunks w dest.chunks ++ c.content w) := by
  unfold moveChunk
  split
  · exact ⟨SameFiles.refl w, fun hd hv => ⟨pushChunk_qv hd hv rfl, pushChunk_abs ..⟩⟩
  · rename_i h0
    have h0' : c.rem = 0 := by omega
    have hr := release_same w c
    exact ⟨hr, fun hd hv => ⟨hd.mono hr.grows, by simp [content_nil_of_rem hv h0']⟩⟩

theorem stealLoop_spec (w : World) (dest : Cq) (cs : List Chunk) (len : Nat) :
    SameFiles w (stealLoop w dest cs len).1 ∧
      (QV w dest → ValidAll w cs →
        QV (stealLoop w dest cs len).1 (stealLoop w dest cs len).2.1 ∧
        ValidAll (stealLoop w dest cs len).1 (stealLoop w dest cs len).2.2.1 ∧
        (stealLoop w dest cs len).2.2.2 = min len (remSum cs) ∧
        remSum (stealLoop w dest cs len).2.2.1 = remSum cs - (stealLoop w dest cs len).2.2.2 ∧
        absChunks w (stealLoop w dest cs len).2.1.chunks =
          absChunks w dest.chunks ++ (absChunks w cs).take (stealLoop w dest cs len).2.2.2 ∧
        absChunks w (stealLoop w dest cs len).2.2.1 =
          (absChunks w cs).drop (stealLoop w dest cs len).2.2.2) := by
  fun_induction stealLoop w dest cs len with
  | case1 w dest len =>
    exact ⟨SameFiles.refl w, fun hd _ => ⟨hd, ValidAll.nil w, by simp, by simp, by simp, by simp⟩⟩
  | case2 w dest c rest len hge h0 =>
    obtain ⟨hs, hm⟩ := moveChunk_spec w dest c
    refine ⟨hs, fun hd hv => ?_⟩
    obtain ⟨hq, ha⟩ := hm hd hv.head
    have hl := content_length hv.head
    dsimp only
    refine ⟨hq, hv.tail.mono hs.grows, by simp only [remSum_cons]; omega,
      by simp only [remSum_cons]; omega, ?_, ?_⟩
    · rw [ha, absChunks_cons, List.take_append, hl, Nat.sub_self, List.take_zero, List.append_nil,
        List.take_of_length_le (by omega)]
    · rw [absChunks_cons, List.drop_append, hl, Nat.sub_self, List.drop_zero,
        List.drop_of_length_le (by omega), List.nil_append]
  | case3 w dest c rest len hge h0 w' dest' cs' moved heq ih =>
    obtain ⟨hs, hm⟩ := moveChunk_spec w dest c
    rw [heq] at ih
    obtain ⟨hs2, hi⟩ := ih
    refine ⟨hs.trans hs2, fun hd hv => ?_⟩
    obtain ⟨hq, ha⟩ := hm hd hv.head
    obtain ⟨i1, i2, i3, i4, i5, i6⟩ := hi hq (hv.tail.mono hs.grows)
    have hl := content_length hv.head
    simp only [absChunks_same hs] at i5 i6
    simp only at i1 i2 i3 i4 i5 i6 ⊢
    refine ⟨i1, i2, by simp only [remSum_cons]; omega, by simp only [remSum_cons]; omega, ?_, ?_⟩
    · rw [i5, ha, absChunks_cons, List.take_append, hl, List.append_assoc]
      congr 1
      rw [List.take_of_length_le (l := c.content w) (by omega)]
      congr 2
      omega
    · rw [i6, absChunks_cons, List.drop_append, hl]
      rw [List.drop_of_length_le (l := c.content w) (by omega)]
      simp only [List.nil_append]
      congr 1
      omega
  | case4 w dest c rest len hlt =>
    obtain ⟨hs, hp⟩ := stealPartial_spec w dest c len
    refine ⟨hs, fun hd hv => ?_⟩
    obtain ⟨hq, ha⟩ := hp hd hv.head (by omega)
    obtain ⟨r1, r2⟩ := Chunk.rem_adv (n := len) (by omega) hv.head
    have hl := content_length hv.head
    refine ⟨hq, (ValidAll.cons r2 hv.tail).mono hs.grows, by simp only [remSum_cons]; omega,
      by simp only [remSum_cons, r1]; omega, ?_, ?_⟩
    · rw [ha, absChunks_cons, List.take_append]
      have : len - (c.content w).length = 0 := by omega
      simp [this]
    · rw [absChunks_cons, absChunks_cons, content_adv (by omega), List.drop_append]
      have : len - (c.content w).length = 0 := by omega
      simp [this]

theorem steal_spec (w : World) (dest src : Cq) (len : Nat) :
    SameFiles w (steal w dest src len).1 ∧
      (QV w dest → QV w src →
        QV (steal w dest src len).1 (steal w dest src len).2.1 ∧
        QV (steal w dest src len).1 (steal w dest src len).2.2 ∧
        (steal w dest src len).2.1.abs w = dest.abs w ++ (src.abs w).take len ∧
        (steal w dest src len).2.2.abs w = (src.abs w).drop len) := by
  unfold steal
  split
  rename_i w' dest' cs moved heq
  have h := stealLoop_spec w dest src.chunks len
  rw [heq] at h
  obtain ⟨hs, hi⟩ := h
  refine ⟨hs, fun hd hsrc => ?_⟩
  obtain ⟨i1, i2, i3, i4, i5, i6⟩ := hi hd hsrc.valid
  have hl := absChunks_length hsrc.valid
  have := hsrc.len
  simp only at i1 i2 i3 i4 i5 i6
  refine ⟨i1, ⟨i2, by simp only [i4]; omega⟩, ?_, ?_⟩
  · simp only [Cq.abs, i5, i3]
    congr 1
    rw [List.take_eq_take_iff]
    omega
  · simp only [Cq.abs, i6, i3]
    by_cases hle : len ≤ remSum src.chunks
    · rw [Nat.min_eq_left hle]
    · rw [Nat.min_eq_right (by omega), List.drop_of_length_le (by omega), List.drop_of_length_le (by omega)]

/-! ## read -/

theorem openChunk_same (w : World) (fid len : Nat) (t : Bool) : SameFiles w (openChunk w fid len t).1 := by
  unfold openChunk
  split
  · exact SameFiles.refl w
  · dsimp only
    split <;> exact openFd_same w fid

theorem take_min_length (l : Bytes) (k : Nat) : l.take (min l.length k) = l.take k := by
  by_cases h : l.length ≤ k
  · rw [Nat.min_eq_left h, List.take_of_length_le (Nat.le_refl _), List.take_of_length_le h]
  · rw [Nat.min_eq_right (by omega)]

theorem peekChunk_spec {w : World} {n : Nat} {acc : Bytes} {c : Chunk} {w1 : World} {c1 : Chunk}
    {acc1 : Bytes} {ok : Bool} (h : peekChunk w n acc c = (w1, c1, acc1, ok)) :
    SameFiles w w1 ∧
      (c.Valid w → c1.Valid w ∧ c1.rem = c.rem ∧ c1.content w = c.content w ∧
        (ok = true → acc1 = acc ++ (c.content w).take (n - acc.length))) := by
  cases c with
  | mem d off cap =>
    simp only [peekChunk, Prod.mk.injEq] at h
    obtain ⟨rfl, rfl, rfl, rfl⟩ := h
    refine ⟨SameFiles.refl w, fun hv => ⟨hv, rfl, rfl, fun _ => ?_⟩⟩
    simp only [Chunk.content]
    split
    · rename_i h0
      have : d.drop off = [] := List.eq_nil_of_length_eq_zero (by simpa using h0)
      simp [this]
    · have := take_min_length (d.drop off) (n - acc.length)
      simp only [List.length_drop] at this
      rw [this]
  | file fid off len t fd =>
    simp only [peekChunk] at h
    have hfd : ∀ {w2 : World} {fd2 : Fd} {b : Bool},
        (if fd.isOpen = true then (w, fd, true) else openChunk w fid len t) = (w2, fd2, b) →
        fd.isOpen = true → fd2.isOpen = true := by
      intro w2 fd2 b heq ho
      rw [if_pos ho] at heq
      simp only [Prod.mk.injEq] at heq
      rw [← heq.2.1]; exact ho
    have hopen : SameFiles w (if fd.isOpen = true then (w, fd, true) else openChunk w fid len t).1 := by
      split
      · exact SameFiles.refl w
      · exact openChunk_same w fid len t
    split at h
    · rename_i w2 fd2 heq
      rw [heq] at hopen
      simp only [Prod.mk.injEq] at h
      obtain ⟨rfl, rfl, rfl, rfl⟩ := h
      exact ⟨hopen, fun hv => ⟨hv.setFd (hfd heq), rfl, rfl, fun h => by cases h⟩⟩
    · rename_i w2 fd2 heq
      rw [heq] at hopen
      split at h
      · rename_i h0
        simp only [Prod.mk.injEq] at h
        obtain ⟨rfl, rfl, rfl, rfl⟩ := h
        exact ⟨hopen, fun hv => ⟨hv.setFd (hfd heq), rfl, rfl, fun _ => by simp [Chunk.content, h0]⟩⟩
      · split at h
        · simp only [Prod.mk.injEq] at h
          obtain ⟨rfl, rfl, rfl, rfl⟩ := h
          exact ⟨hopen, fun hv => ⟨hv.setFd (hfd heq), rfl, rfl, fun h => by cases h⟩⟩
        · simp only [Prod.mk.injEq] at h
          obtain ⟨rfl, rfl, rfl, rfl⟩ := h
          have hopen' : SameFiles w w2 := hopen
          refine ⟨hopen, fun hv => ⟨hv.setFd (hfd heq), rfl, rfl, fun _ => ?_⟩⟩
          simp only [Chunk.content, hopen'.content, List.take_take]
          congr 2
          exact Nat.min_comm _ _

theorem peekLoop_spec (w : World) (n : Nat) (acc : Bytes) (cs : List Chunk) :
    SameFiles w (peekLoop w n acc cs).1 ∧
      (ValidAll w cs → ValidAll w (peekLoop w n acc cs).2.1 ∧
        remSum (peekLoop w n acc cs).2.1 = remSum cs ∧
        absChunks w (peekLoop w n acc cs).2.1 = absChunks w cs ∧
        ((peekLoop w n acc cs).2.2.2 = true → acc.length ≤ n →
          (peekLoop w n acc cs).2.2.1 = acc ++ (absChunks w cs).take (n - acc.length))) := by
  fun_induction peekLoop w n acc cs with
  | case1 w acc => exact ⟨SameFiles.refl w, fun _ => ⟨ValidAll.nil w, rfl, rfl, fun _ _ => by simp⟩⟩
  | case2 w acc c rest w1 c' acc1 heq =>
    obtain ⟨hs, hc⟩ := peekChunk_spec heq
    refine ⟨hs, fun hv => ?_⟩
    obtain ⟨c1, c2, c3, _⟩ := hc hv.head
    exact ⟨ValidAll.cons c1 hv.tail, by simp [c2], by simp [c3], fun h => by cases h⟩
  | case3 w acc c rest w1 c' acc1 heq hn =>
    obtain ⟨hs, hc⟩ := peekChunk_spec heq
    refine ⟨hs, fun hv => ?_⟩
    obtain ⟨c1, c2, c3, c4⟩ := hc hv.head
    refine ⟨ValidAll.cons c1 hv.tail, by simp [c2], by simp [c3], fun _ hle => ?_⟩
    have e := c4 rfl
    rw [e, absChunks_cons, List.take_append]
    have : n - acc.length - (c.content w).length = 0 := by
      rw [e, List.length_append, List.length_take] at hn
      omega
    simp [this]
  | case4 w acc c rest w1 c' acc1 heq hn w2 rest2 acc2 ok heq2 ih =>
    obtain ⟨hs, hc⟩ := peekChunk_spec heq
    rw [heq2] at ih
    obtain ⟨hs2, hi⟩ := ih
    refine ⟨hs.trans hs2, fun hv => ?_⟩
    obtain ⟨c1, c2, c3, c4⟩ := hc hv.head
    obtain ⟨i1, i2, i3, i4⟩ := hi (hv.tail.mono hs.grows)
    have g1 : Grows w1 w := ⟨by rw [hs.nfiles]; exact Nat.le_refl _, fun fid => by rw [hs.sz]; exact Nat.le_refl _, hs.nsrc.symm⟩
    simp only [absChunks_same hs] at i3 i4
    simp only at i1 i2 i3 i4 hn ⊢
    refine ⟨ValidAll.cons c1 (i1.mono g1), by simp [c2, i2], by simp [c3, i3], fun hok hle => ?_⟩
    have e := c4 rfl
    have hlen : acc1.length ≤ n := by
      rw [e, List.length_append, List.length_take]; omega
    rw [i4 hok hlen, e, absChunks_cons, List.take_append, List.append_assoc]
    have hlt : (c.content w).length < n - acc.length := by
      rw [e, List.length_append, List.length_take] at hn
      omega
    rw [List.take_of_length_le (l := c.content w) (by omega)]
    congr 3
    simp only [List.length_append]
    omega

theorem peekData_spec (w : World) (q : Cq) (n : Nat) :
    SameFiles w (peekData w q n).1 ∧
      (QV w q → QV (peekData w q n).1 (peekData w q n).2.1 ∧
        (peekData w q n).2.1.abs w = q.abs w ∧
        ((peekData w q n).2.2.2 = true → (peekData w q n).2.2.1 = (q.abs w).take n)) := by
  unfold peekData
  split
  rename_i w1 cs acc ok heq
  have h := peekLoop_spec w n [] q.chunks
  rw [heq] at h
  obtain ⟨hs, hi⟩ := h
  refine ⟨hs, fun hq => ?_⟩
  obtain ⟨i1, i2, i3, i4⟩ := hi hq.valid
  simp only at i1 i2 i3 i4 ⊢
  exact ⟨⟨i1.mono hs.grows, by simp only [i2]; exact hq.len⟩, i3,
    fun hok => by simpa [Cq.abs] using i4 hok (Nat.zero_le _)⟩

theorem readData_spec {w : World} {q : Cq} {n : Nat} {w' : World} {q' : Cq} {r : Option Bytes}
    (h : readData w q n = (w', q', r)) :
    SameFiles w w' ∧
      (QV w q → QV w' q' ∧
        (∀ d, r = some d → d = (q.abs w).take n ∧ d.length = n ∧ q'.abs w = (q.abs w).drop n) ∧
        (r = none → q'.abs w = q.abs w)) := by
  unfold readData at h
  split at h
  rename_i w1 q1 acc ok heq
  have hp := peekData_spec w q n
  rw [heq] at hp
  obtain ⟨hs, hi⟩ := hp
  split at h
  · simp only [Prod.mk.injEq] at h
    obtain ⟨rfl, rfl, rfl⟩ := h
    refine ⟨hs, fun hq => ?_⟩
    obtain ⟨i1, i2, _⟩ := hi hq
    exact ⟨i1, (fun d hd => by cases hd), fun _ => i2⟩
  · rename_i hc
    simp only [Prod.mk.injEq] at h
    obtain ⟨rfl, rfl, rfl⟩ := h
    have hm := markWritten_spec w1 q1 n
    refine ⟨hs.trans hm.1, fun hq => ?_⟩
    obtain ⟨i1, i2, i3⟩ := hi hq
    have hok : ok = true := by
      cases ok
      · simp at hc
      · rfl
    have hacc : acc.length = n := by
      by_cases hx : acc.length = n
      · exact hx
      · simp [hx] at hc
    have e := i3 hok
    simp only at e i1 i2
    have hs' : SameFiles w w1 := hs
    have hn : n ≤ remSum q1.chunks := by
      have h1 := absChunks_length i1.valid
      rw [absChunks_same hs'] at h1
      simp only [Cq.abs] at i2 e
      have : ((absChunks w q.chunks).take n).length = n := by rw [← e]; exact hacc
      rw [List.length_take] at this
      rw [← h1, i2]; omega
    refine ⟨hm.2 i1 hn, (fun d hd => ?_), fun hnone => by cases hnone⟩
    cases hd
    refine ⟨e, hacc, ?_⟩
    have := markWritten_abs w1 q1 n i1
    simp only [Cq.abs] at this i2 ⊢
    rw [absChunks_same hm.1, absChunks_same hs'] at this
    rw [this, absChunks_same hs', i2]

theorem releaseAll_nil_qv (w : World) (q : Cq) :
    QV w { q with chunks := [], bytesIn := 0, bytesOut := 0, tdIdx := 0 } :=
  ⟨ValidAll.nil w, by simp⟩

theorem readSquash_spec {w : World} {q : Cq} {w' : World} {q' : Cq} {ok : Bool}
    (h : readSquash w q = (w', q', ok)) :
    SameFiles w w' ∧ (QV w q → QV w' q' ∧ q'.abs w = q.abs w) := by
  unfold readSquash at h
  split at h
  · simp only [Prod.mk.injEq] at h
    obtain ⟨rfl, rfl, rfl⟩ := h
    exact ⟨SameFiles.refl w, fun hq => ⟨hq, rfl⟩⟩
  · split at h
    rename_i w1 cap ha
    have hs1 := acquire_same w (q.length.toNat + 1)
    rw [ha] at hs1
    have hp := peekData_spec w1 q q.length.toNat
    split at h
    · rename_i w2 q2 acc heq
      rw [heq] at hp
      obtain ⟨hs2, hi⟩ := hp
      simp only [Prod.mk.injEq] at h
      obtain ⟨rfl, rfl, rfl⟩ := h
      have hr := release_same w2 (.mem [] 0 cap)
      refine ⟨(hs1.trans hs2).trans hr, fun hq => ?_⟩
      obtain ⟨i1, i2, _⟩ := hi (hq.mono hs1.grows)
      refine ⟨i1.mono hr.grows, ?_⟩
      simp only [Cq.abs] at i2 ⊢
      rw [← absChunks_same hs1, i2, absChunks_same hs1]
    · rename_i w2 q2 acc heq
      rw [heq] at hp
      obtain ⟨hs2, hi⟩ := hp
      simp only [Prod.mk.injEq] at h
      obtain ⟨rfl, rfl, rfl⟩ := h
      have hr := releaseAll_same w2 q2.chunks
      refine ⟨(hs1.trans hs2).trans hr, fun hq => ?_⟩
      obtain ⟨i1, i2, i3⟩ := hi (hq.mono hs1.grows)
      have e := i3 rfl
      simp only at e i1 i2
      have hl := absChunks_length hq.valid
      have hlen := hq.len
      have hfull : acc = q.abs w := by
        rw [e]
        simp only [Cq.abs, absChunks_same hs1]
        refine List.take_of_length_le ?_
        simp only [Cq.length]
        omega
      refine ⟨⟨ValidAll.single (mem_chunk_valid ..), ?_⟩, ?_⟩
      · have hlen2 := i1.len
        simp only [remSum_cons, remSum_nil, mem_chunk_rem, hfull, Cq.abs, hl]
        have h2 : remSum q2.chunks = remSum q.chunks := by
          have a := absChunks_length i1.valid
          simp only [Cq.abs] at i2
          rw [absChunks_same hs2, i2, absChunks_same hs1, hl] at a
          exact a.symm
        omega
      · simp [Cq.abs, Chunk.content, hfull]

/-! ## range duplication -/

theorem copyRange_spec (w : World) (dst : Cq) (c : Chunk) (off n : Nat) :
    SameFiles w (copyRange w dst c off n).1 ∧
      (QV w dst → c.Valid w → off + n ≤ c.rem →
        QV (copyRange w dst c off n).1 (copyRange w dst c off n).2 ∧
        absChunks w (copyRange w dst c off n).2.chunks =
          absChunks w dst.chunks ++ ((c.content w).drop off).take n) := by
  cases c with
  | mem d coff cap =>
    simp only [copyRange]
    obtain ⟨hs, hq⟩ := appendMem_spec w dst ((d.drop (coff + off)).take n)
    refine ⟨hs, fun hd _ _ => ⟨hq hd, ?_⟩⟩
    have := appendMem_abs w dst ((d.drop (coff + off)).take n) hd hs
    simp only [Cq.abs] at this
    rw [absChunks_same hs] at this
    simpa [Chunk.content, Nat.add_comm] using this
  | file fid coff len t fd =>
    simp only [copyRange]
    have hs : SameFiles w (if (dupFd t fd).isOpen = true then w.openFd fid else w) := by
      split
      · exact openFd_same w fid
      · exact SameFiles.refl w
    refine ⟨hs, fun hd hv hn => ⟨pushChunk_qv (hd.mono hs.grows) ?_ (by simp [Chunk.rem]), ?_⟩⟩
    · simp only [Chunk.Valid, Chunk.rem] at hv hn ⊢
      refine ⟨by rw [hs.nfiles]; exact hv.1, by omega, by rw [hs.sz]; omega, ?_⟩
      rw [hs.nsrc]; exact dupFd_readable hv.2.2.2
    · simp only [Chunk.rem] at hn
      rw [pushChunk_abs]
      simp only [Chunk.content, List.drop_take, List.take_take, List.drop_drop]
      congr 2
      omega

theorem rangeLoop_spec (w : World) (dst : Cq) (cs : List Chunk) (off len : Nat) :
    SameFiles w (rangeLoop w dst cs off len).1 ∧
      (QV w dst → ValidAll w cs →
        QV (rangeLoop w dst cs off len).1 (rangeLoop w dst cs off len).2 ∧
        absChunks w (rangeLoop w dst cs off len).2.chunks =
          absChunks w dst.chunks ++ ((absChunks w cs).drop off).take len) := by
  fun_induction rangeLoop w dst cs off len with
  | case1 w dst off len => exact ⟨SameFiles.refl w, fun hd _ => ⟨hd, by simp⟩⟩
  | case2 w dst c rest off => exact ⟨SameFiles.refl w, fun hd _ => ⟨hd, by simp⟩⟩
  | case3 w dst c rest off len h0 hge ih =>
    obtain ⟨hs, hi⟩ := ih
    refine ⟨hs, fun hd hv => ?_⟩
    obtain ⟨i1, i2⟩ := hi hd hv.tail
    have hl := content_length hv.head
    refine ⟨i1, ?_⟩
    rw [i2, absChunks_cons, List.drop_append, hl, List.drop_of_length_le (l := c.content w) (by omega),
      List.nil_append]
  | case4 w dst c rest off len h0 hlt ih =>
    obtain ⟨hs1, hc⟩ := copyRange_spec w dst c off (min (c.rem - off) len)
    obtain ⟨hs2, hi⟩ := ih
    refine ⟨hs1.trans hs2, fun hd hv => ?_⟩
    obtain ⟨c1, c2⟩ := hc hd hv.head (by omega)
    obtain ⟨i1, i2⟩ := hi c1 (hv.tail.mono hs1.grows)
    have hl := content_length hv.head
    refine ⟨i1, ?_⟩
    simp only [absChunks_same hs1] at i2
    rw [i2, c2, absChunks_cons, List.drop_zero, List.drop_append, List.take_append, List.length_drop, hl,
      List.append_assoc]
    have e0 : off - c.rem = 0 := by omega
    rw [e0, List.drop_zero]
    congr 1
    by_cases hle : len ≤ c.rem - off
    · rw [Nat.min_eq_right hle]
      have : len - (c.rem - off) = 0 := by omega
      simp [this]
    · rw [Nat.min_eq_left (by omega)]
      rw [List.take_of_length_le (l := (c.content w).drop off) (i := len) (by rw [List.length_drop, hl]; omega)]
      rw [List.take_of_length_le (l := (c.content w).drop off) (i := c.rem - off) (by rw [List.length_drop, hl]; omega)]

/-! ## cleanup -/

theorem reset_spec (w : World) (q : Cq) :
    SameFiles w (reset w q).1 ∧ QV (reset w q).1 (reset w q).2 ∧ (reset w q).2.chunks = [] ∧
      (reset w q).2.bytesIn = 0 ∧ (reset w q).2.bytesOut = 0 :=
  ⟨releaseAll_same w q.chunks, ⟨ValidAll.nil _, by simp [reset]⟩, rfl, rfl, rfl⟩

/-! ## temp files: the world grows -/

/-- a step that may create temp files and append to them -/
def TStep (w : World) (q : Cq) (w' : World) (q' : Cq) : Prop :=
  Fresh w → QV w q → Fresh w' ∧ Grows w w' ∧ QV w' q'

theorem TStep.refl (w : World) (q : Cq) : TStep w q w q := fun hf hq => ⟨hf, Grows.refl w, hq⟩

theorem TStep.trans {w w1 w2 : World} {q q1 q2 : Cq} (h1 : TStep w q w1 q1) (h2 : TStep w1 q1 w2 q2) :
    TStep w q w2 q2 := by
  intro hf hq
  obtain ⟨f1, g1, q1'⟩ := h1 hf hq
  obtain ⟨f2, g2, q2'⟩ := h2 f1 q1'
  exact ⟨f2, g1.trans g2, q2'⟩

theorem QStep.tstep {w : World} {q : Cq} {w' : World} {q' : Cq} (h : QStep w q (w', q')) : TStep w q w' q' :=
  fun hf hq => ⟨h.1.fresh hf, h.1.grows, h.2 hq⟩

theorem TStep.of_same {w : World} {q : Cq} {w' : World} (h : SameFiles w w') : TStep w q w' q :=
  fun hf hq => ⟨h.fresh hf, h.grows, hq.mono h.grows⟩

theorem sz_addFile (w : World) (f : File) (i : Nat) :
    sz (w.addFile f) i = if i = w.nfiles then f.content.length else sz w i := by
  simp only [sz, World.addFile]
  split <;> rfl

theorem createTemp_spec (w : World) (dir : Nat) (hf : Fresh w) :
    Fresh (createTemp w dir).1 ∧ Grows w (createTemp w dir).1 ∧
      (createTemp w dir).2 < (createTemp w dir).1.nfiles ∧ sz (createTemp w dir).1 (createTemp w dir).2 = 0 := by
  simp only [createTemp]
  refine ⟨fun fid hle => ?_, ⟨Nat.le_succ _, fun i => ?_, rfl⟩, Nat.lt_succ_self _, ?_⟩
  · rw [sz_addFile]
    have hle' : w.nfiles + 1 ≤ fid := hle
    split
    · rfl
    · exact hf fid (by omega)
  · rw [sz_addFile]
    split
    · rename_i h; subst h; rw [hf _ (Nat.le_refl _)]; exact Nat.zero_le _
    · exact Nat.le_refl _
  · rw [sz_addFile]; simp

theorem mkstempDirs_spec (fuel : Nat) (w : World) (idx : Nat) (hf : Fresh w) :
    Fresh (mkstempDirs fuel w idx).1 ∧ Grows w (mkstempDirs fuel w idx).1 ∧
      (∀ fid, (mkstempDirs fuel w idx).2.2 = some fid →
        fid < (mkstempDirs fuel w idx).1.nfiles ∧ sz (mkstempDirs fuel w idx).1 fid = 0) := by
  induction fuel generalizing w idx with
  | zero => exact ⟨hf, Grows.refl w, fun fid h => by simp [mkstempDirs] at h⟩
  | succ fuel ih =>
    simp only [mkstempDirs]
    split
    · have hp := popM_same w
      split
      · obtain ⟨a, b, c⟩ := ih (popM w).1 (idx + 1) (hp.fresh hf)
        exact ⟨a, hp.grows.trans b, c⟩
      · obtain ⟨a, b, c, d⟩ := createTemp_spec (popM w).1 idx (hp.fresh hf)
        refine ⟨a, hp.grows.trans b, fun fid h => ?_⟩
        simp only [Option.some.injEq] at h
        subst h
        exact ⟨c, d⟩
    · exact ⟨hf, Grows.refl w, fun fid h => by cases h⟩

theorem newTemp_chunk_valid {w : World} {fid : Nat} (h1 : fid < w.nfiles) :
    (Chunk.file fid 0 0 true .rw).Valid w := by
  simp [Chunk.Valid, h1]

theorem pushNewTemp_qv {w : World} {q : Cq} {fid idx : Nat} (hq : QV w q) (h1 : fid < w.nfiles) :
    QV w { q with chunks := q.chunks ++ [.file fid 0 0 true .rw], tdIdx := idx } := by
  refine ⟨ValidAll.append hq.valid (ValidAll.single (newTemp_chunk_valid h1)), ?_⟩
  have := hq.len
  simp [Chunk.rem, this]

theorem newTempfile_spec {w : World} {q : Cq} {w' : World} {q' : Cq} {ok : Bool}
    (h : newTempfile w q = (w', q', ok)) : TStep w q w' q' := by
  intro hf hq
  unfold newTempfile at h
  split at h
  · have hm := mkstempDirs_spec (w.ndirs - q.tdIdx + 1) w q.tdIdx hf
    split at h
    · rename_i w1 idx fid heq
      rw [heq] at hm
      obtain ⟨a, b, c⟩ := hm
      obtain ⟨c1, c2⟩ := c fid rfl
      simp only [Prod.mk.injEq] at h
      obtain ⟨rfl, rfl, rfl⟩ := h
      exact ⟨a, b, pushNewTemp_qv (hq.mono b) c1⟩
    · rename_i w1 idx heq
      rw [heq] at hm
      obtain ⟨a, b, _⟩ := hm
      simp only [Prod.mk.injEq] at h
      obtain ⟨rfl, rfl, rfl⟩ := h
      exact ⟨a, b, ⟨(hq.mono b).valid, hq.len⟩⟩
  · have hp := popM_same w
    split at h
    rename_i w1 fails hpm
    rw [hpm] at hp
    split at h
    · simp only [Prod.mk.injEq] at h
      obtain ⟨rfl, rfl, rfl⟩ := h
      exact ⟨hp.fresh hf, hp.grows, hq.mono hp.grows⟩
    · obtain ⟨a, b, c, d⟩ := createTemp_spec w1 0 (hp.fresh hf)
      split at h
      rename_i w2 fid hct
      rw [hct] at a b c d
      simp only [Prod.mk.injEq] at h
      obtain ⟨rfl, rfl, rfl⟩ := h
      exact ⟨a, hp.grows.trans b, pushNewTemp_qv (idx := q.tdIdx) (hq.mono (hp.grows.trans b)) c⟩

theorem setLast_fd_qv {w : World} {q : Cq} {fid off len : Nat} {t : Bool} {fd fd' : Fd} (hq : QV w q)
    (hl : q.chunks.getLast? = some (.file fid off len t fd)) (ht : t = true) :
    QV w { q with chunks := setLast q.chunks (.file fid off len t fd') } := by
  have hv := valid_last hq.valid hl
  have hr := remSum_last hl
  refine ⟨valid_setLast hq.valid ⟨hv.1, hv.2.1, hv.2.2.1, Or.inr (Or.inl ht)⟩, ?_⟩
  have := hq.len
  simp only [remSum_setLast, Chunk.rem] at *
  omega

theorem closeLast_tstep {w : World} {q : Cq} {fid off len : Nat} {t : Bool} {fd : Fd}
    (hl : q.chunks.getLast? = some (.file fid off len t fd)) (ht : t = true) :
    TStep w q (w.closeFd fid) { q with chunks := setLast q.chunks (.file fid off len t .none) } :=
  fun hf hq => ⟨(closeFd_same w fid).fresh hf, (closeFd_same w fid).grows,
    (setLast_fd_qv hq hl ht).mono (closeFd_same w fid).grows⟩

theorem getAppendTempfile_spec {w : World} {q : Cq} {w' : World} {q' : Cq} {ok : Bool}
    (h : getAppendTempfile w q = (w', q', ok)) : TStep w q w' q' := by
  unfold getAppendTempfile at h
  split at h
  · rename_i fid off len fd hl
    split at h
    · split at h
      · simp only [Prod.mk.injEq] at h
        obtain ⟨rfl, rfl, rfl⟩ := h
        exact TStep.refl _ _
      · exact (closeLast_tstep hl rfl).trans (newTempfile_spec h)
    · exact newTempfile_spec h
  · exact newTempfile_spec h

theorem bumpDir_qv {w w0 : World} {q : Cq} {e : Bool} (hq : QV w q) : QV w (bumpDir w0 q e).1 := by
  unfold bumpDir
  split
  · exact ⟨hq.valid, hq.len⟩
  · exact hq

theorem dropOrCloseLast_spec (w : World) (q : Cq) : QStep w q (dropOrCloseLast w q) := by
  unfold dropOrCloseLast
  split
  · rename_i c hl
    split
    · exact removeEmpty_spec w q
    · split
      · split
        · exact QStep.mk' (closeFd_same w _) fun hq =>
            (setLast_fd_qv hq hl rfl).mono (closeFd_same w _).grows
        · exact QStep.mk' (SameFiles.refl w) id
      · exact QStep.mk' (SameFiles.refl w) id
  · exact QStep.mk' (SameFiles.refl w) id

theorem tempfileErr_spec {w : World} {q : Cq} {e : Bool} {w' : World} {q' : Cq} {r : Bool}
    (h : tempfileErr w q e = (w', q', r)) : QStep w q (w', q') := by
  unfold tempfileErr at h
  split at h
  rename_i w1 q1 heq
  simp only [Prod.mk.injEq] at h
  obtain ⟨rfl, rfl, rfl⟩ := h
  have := dropOrCloseLast_spec w (bumpDir w q e).1
  rw [heq] at this
  exact QStep.mk' this.1 fun hq => this.2 (bumpDir_qv hq)

/-! ### writing to the last (temp) chunk -/

theorem writeAt_length (c : Bytes) (pos : Nat) (d : Bytes) :
    (writeAt c pos d).length = min pos c.length + d.length + (c.length - (pos + d.length)) := by
  simp only [writeAt, List.length_append, List.length_take, List.length_drop]

theorem sz_pwrite_same (w : World) (fid pos : Nat) (d : Bytes) :
    sz (w.pwrite fid pos d) fid = (writeAt (w.files fid).content pos d).length := by
  simp [World.pwrite, sz]

theorem sz_pwrite_other (w : World) {fid i : Nat} (pos : Nat) (d : Bytes) (h : i ≠ fid) :
    sz (w.pwrite fid pos d) i = sz w i := by
  simp [World.pwrite, sz, setFile_files_other w _ h]

theorem pwrite_grows (w : World) (fid pos : Nat) (d : Bytes) : Grows w (w.pwrite fid pos d) := by
  refine ⟨Nat.le_refl _, fun i => ?_, rfl⟩
  by_cases hi : i = fid
  · subst hi
    rw [sz_pwrite_same, writeAt_length]
    simp only [sz]
    omega
  · rw [sz_pwrite_other w pos d hi]; exact Nat.le_refl _

theorem pwrite_fresh {w : World} {fid : Nat} (pos : Nat) (d : Bytes) (hf : Fresh w) (h : fid < w.nfiles) :
    Fresh (w.pwrite fid pos d) := by
  intro i hle
  have hle' : w.nfiles ≤ i := hle
  rw [sz_pwrite_other w pos d (by omega)]
  exact hf i hle'

theorem sz_addTl (w : World) (fid : Nat) (n : Int) (i : Nat) : sz (w.addTl fid n) i = sz w i := by
  by_cases hi : i = fid
  · subst hi; simp [sz, World.addTl]
  · simp [sz, World.addTl, setFile_files_other w _ hi]

theorem addTl_grows (w : World) (fid : Nat) (n : Int) : Grows w (w.addTl fid n) :=
  ⟨Nat.le_refl _, fun i => by rw [sz_addTl]; exact Nat.le_refl _, rfl⟩

theorem addTl_fresh {w : World} (fid : Nat) (n : Int) (hf : Fresh w) : Fresh (w.addTl fid n) :=
  fun i hle => by rw [sz_addTl]; exact hf i hle

/-- the pair writeLast/growLast: `d` is appended to the file of the last chunk
    and the chunk grows by the same amount -/
theorem writeGrow_spec (w : World) (q : Cq) (d : Bytes) :
    TStep w q (writeLast w q d) (growLast q d.length) := by
  intro hf hq
  unfold writeLast growLast
  split
  · rename_i fid off len t fd hl
    have hv := valid_last hq.valid hl
    simp only [Chunk.Valid] at hv
    have hg := (pwrite_grows w fid len d).trans (addTl_grows _ fid (if t = true then (d.length : Int) else 0))
    refine ⟨addTl_fresh fid _ (pwrite_fresh len d hf hv.1), hg, ?_⟩
    have hr := remSum_last hl
    have hlen := hq.len
    refine ⟨valid_setLast (hq.valid.mono hg) ?_, ?_⟩
    · simp only [Chunk.Valid]
      refine ⟨hv.1, by omega, ?_, hv.2.2.2⟩
      rw [sz_addTl, sz_pwrite_same, writeAt_length]
      have := hv.2.2.1
      simp only [sz] at this
      omega
    · simp only [remSum_setLast, Chunk.rem] at *
      omega
  · exact ⟨hf, Grows.refl w, hq⟩

theorem tempfileErr_tstep {w : World} {q : Cq} {e : Bool} {w' : World} {q' : Cq} {r : Bool}
    (h : tempfileErr w q e = (w', q', r)) : TStep w q w' q' := (tempfileErr_spec h).tstep

theorem mtLoop_spec (fuel : Nat) (w : World) (q : Cq) (d : Bytes) :
    TStep w q (mtLoop fuel w q d).1 (mtLoop fuel w q d).2.1 := by
  fun_induction mtLoop fuel w q d with
  | case1 w q d => exact TStep.refl w q
  | case2 fuel w q d w1 q1 hg => exact getAppendTempfile_spec hg
  | case3 fuel w q d w1 q1 hg h0 => exact getAppendTempfile_spec hg
  | case4 fuel w q d w1 q1 hg h0 p he =>
    exact (getAppendTempfile_spec hg).trans
      ((TStep.of_same (popW_same w1)).trans (writeGrow_spec p.1 q1 d))
  | case5 fuel w q d w1 q1 hg h0 p a he hge =>
    exact (getAppendTempfile_spec hg).trans
      ((TStep.of_same (popW_same w1)).trans (writeGrow_spec p.1 q1 d))
  | case6 fuel w q d w1 q1 hg h0 p a he hlt ih =>
    have hw := writeGrow_spec p.1 q1 (d.take a)
    have : (d.take a).length = a := by rw [List.length_take]; omega
    rw [this] at hw
    exact (getAppendTempfile_spec hg).trans (((TStep.of_same (popW_same w1)).trans hw).trans ih)
  | case7 fuel w q d w1 q1 hg h0 p he ih =>
    exact (getAppendTempfile_spec hg).trans ((TStep.of_same (popW_same w1)).trans ih)
  | case8 fuel w q d w1 q1 hg h0 p he w2 q2 ht ih =>
    exact (getAppendTempfile_spec hg).trans
      (((TStep.of_same (popW_same w1)).trans (tempfileErr_tstep ht)).trans ih)
  | case9 fuel w q d w1 q1 hg h0 p he w2 q2 ht =>
    exact (getAppendTempfile_spec hg).trans ((TStep.of_same (popW_same w1)).trans (tempfileErr_tstep ht))
  | case10 fuel w q d w1 q1 hg h0 p he w2 q2 ht ih =>
    exact (getAppendTempfile_spec hg).trans
      (((TStep.of_same (popW_same w1)).trans (tempfileErr_tstep ht)).trans ih)
  | case11 fuel w q d w1 q1 hg h0 p he w2 q2 ht =>
    exact (getAppendTempfile_spec hg).trans ((TStep.of_same (popW_same w1)).trans (tempfileErr_tstep ht))

/-! ### chunkqueue_append_cqmem_to_tempfile() -/

/-- what chunkqueue_to_tempfiles() has to deliver to its callers -/
def ToTempOK (toTemp : World → Cq → World × Cq × Bool) : Prop :=
  ∀ w q, TStep w q (toTemp w q).1 (toTemp w q).2.1

theorem leadingMem_length_le (cs : List Chunk) : (leadingMem cs).length ≤ cs.length := by
  induction cs with
  | nil => simp [leadingMem]
  | cons c cs ih =>
    simp only [leadingMem]
    split
    · simp only [List.length_cons]; omega
    · simp

theorem leadingMem_all {cs : List Chunk} (h : (leadingMem cs).length = cs.length) :
    leadingMem cs = cs ∧ ∀ c ∈ cs, c.isMem = true := by
  induction cs with
  | nil => exact ⟨rfl, fun c hc => by cases hc⟩
  | cons c cs ih =>
    simp only [leadingMem] at h ⊢
    split at h
    · rename_i hm
      simp only [List.length_cons, Nat.add_right_cancel_iff] at h
      obtain ⟨a, b⟩ := ih h
      simp only [hm, if_true, a, true_and]
      intro x hx
      cases hx with
      | head => exact hm
      | tail _ hx => exact b x hx
    · simp at h

theorem getAppendTempfile_of_mem {w : World} {q : Cq} (h : ∀ c ∈ q.chunks, c.isMem = true) :
    getAppendTempfile w q = newTempfile w q := by
  unfold getAppendTempfile
  split
  · rename_i fid off len fd hl
    have := h (.file fid off len true fd) (by rw [split_last hl]; simp)
    simp [Chunk.isMem] at this
  · rfl

theorem newTempfile_chunks {w : World} {q : Cq} {w' : World} {q' : Cq}
    (h : newTempfile w q = (w', q', true)) :
    ∃ fid, q'.chunks = q.chunks ++ [.file fid 0 0 true .rw] ∧ q'.bytesIn = q.bytesIn ∧
      q'.bytesOut = q.bytesOut := by
  unfold newTempfile at h
  split at h
  · split at h
    · rename_i w1 idx fid heq
      simp only [Prod.mk.injEq] at h
      obtain ⟨rfl, rfl, _⟩ := h
      exact ⟨fid, rfl, rfl, rfl⟩
    · simp at h
  · split at h
    split at h
    · simp at h
    · split at h
      rename_i w2 fid hct
      simp only [Prod.mk.injEq] at h
      obtain ⟨rfl, rfl, _⟩ := h
      exact ⟨fid, rfl, rfl, rfl⟩

theorem growLast_concat (q : Cq) (pre : List Chunk) (fid off len : Nat) (t : Bool) (fd : Fd) (n : Nat)
    (h : q.chunks = pre ++ [.file fid off len t fd]) :
    (growLast q n).chunks = pre ++ [.file fid off (len + n) t fd] := by
  unfold growLast
  have hl : q.chunks.getLast? = some (.file fid off len t fd) := by rw [h]; simp
  rw [hl]
  simp [setLast, h]

theorem cqmemPartial_spec {toTemp : World → Cq → World × Cq × Bool} (ht : ToTempOK toTemp)
    (w : World) (dest : Cq) (wr : Nat)
    (hsh : ∃ pre c, dest.chunks = pre ++ [c] ∧ wr ≤ remSum pre) :
    TStep w dest (cqmemPartial toTemp w dest wr).w (cqmemPartial toTemp w dest wr).dest ∧
      (cqmemPartial toTemp w dest wr).rc ≤ 0 := by
  obtain ⟨pre, c, hc, hwr⟩ := hsh
  have hl : dest.chunks.getLast? = some c := by rw [hc]; simp
  have hdl : dest.chunks.dropLast = pre := by rw [hc]; simp
  unfold cqmemPartial
  rw [hl]
  dsimp only
  refine ⟨TStep.trans ?_ (ht _ _), by split <;> omega⟩
  intro hf hq
  obtain ⟨hs, hv⟩ := mwLoop_spec w dest.chunks.dropLast wr
  have hval := hq.valid
  rw [hc] at hval
  rw [hdl] at hs hv
  obtain ⟨v1, v2⟩ := hv hval.left
  have hlen := hq.len
  rw [hc] at hlen
  simp only [remSum_append, remSum_cons, remSum_nil] at hlen
  simp only [markWritten, hdl]
  refine ⟨hs.fresh hf, hs.grows, ?_⟩
  refine ⟨ValidAll.cons ((hval.right.head).mono hs.grows) v1, ?_⟩
  simp only [remSum_cons, v2]
  omega

theorem cqmemWritten_spec {toTemp : World → Cq → World × Cq × Bool} (ht : ToTempOK toTemp)
    (w : World) (dest : Cq) (dlen wr : Nat)
    (hsh : dlen ≠ 0 → ∃ pre c, dest.chunks = pre ++ [c] ∧ dlen = remSum pre) :
    TStep w dest (cqmemWritten toTemp w dest dlen wr).w (cqmemWritten toTemp w dest dlen wr).dest ∧
      (cqmemWritten toTemp w dest dlen wr).rc ≤ ((wr - dlen : Nat) : Int) := by
  unfold cqmemWritten
  split
  · rename_i h0
    exact ⟨TStep.refl w dest, by subst h0; simp⟩
  · rename_i h0
    obtain ⟨pre, c, hc, hd⟩ := hsh h0
    split
    · rename_i hlt
      obtain ⟨a, b⟩ := cqmemPartial_spec ht w dest wr ⟨pre, c, hc, by omega⟩
      exact ⟨a, by omega⟩
    · rename_i hge
      dsimp only
      refine ⟨?_, by omega⟩
      intro hf hq
      have hm := markWritten_spec w { dest with bytesIn := dest.bytesIn - dlen, bytesOut := dest.bytesOut - dlen } dlen
      have hlen := hq.len
      have hq1 : QV w { dest with bytesIn := dest.bytesIn - dlen, bytesOut := dest.bytesOut - dlen } :=
        ⟨hq.valid, by simp only; omega⟩
      have hle : dlen ≤ remSum dest.chunks := by rw [hc]; simp only [remSum_append]; omega
      exact ⟨hm.1.fresh hf, hm.1.grows, hm.2 hq1 hle⟩

theorem cqmemWrite_spec {toTemp : World → Cq → World × Cq × Bool} (ht : ToTempOK toTemp)
    (w : World) (dest : Cq) (dbytes sbytes : Bytes)
    (hsh : dbytes.length ≠ 0 → ∃ pre fid, dest.chunks = pre ++ [.file fid 0 0 true .rw] ∧
      dbytes.length = remSum pre) :
    TStep w dest (cqmemWrite toTemp w dest dbytes sbytes).w (cqmemWrite toTemp w dest dbytes sbytes).dest ∧
      (cqmemWrite toTemp w dest dbytes sbytes).rc ≤ sbytes.length := by
  unfold cqmemWrite
  dsimp only
  have hp : TStep w dest (popW w).1 dest := TStep.of_same (popW_same w)
  have shape : ∀ n, dbytes.length ≠ 0 →
      ∃ pre c, (growLast dest n).chunks = pre ++ [c] ∧ dbytes.length = remSum pre := by
    intro n h0
    obtain ⟨pre, fid, hc, hd⟩ := hsh h0
    exact ⟨pre, _, growLast_concat dest pre fid 0 0 true .rw n hc, hd⟩
  split
  · obtain ⟨a, b⟩ := cqmemWritten_spec ht (writeLast (popW w).1 dest (dbytes ++ sbytes))
      (growLast dest (dbytes ++ sbytes).length) dbytes.length (dbytes ++ sbytes).length (shape _)
    refine ⟨(hp.trans (writeGrow_spec _ dest _)).trans a, ?_⟩
    simp only [List.length_append] at b ⊢
    omega
  · rename_i n he
    obtain ⟨a, b⟩ := cqmemWritten_spec ht (writeLast (popW w).1 dest ((dbytes ++ sbytes).take n))
      (growLast dest ((dbytes ++ sbytes).take n).length) dbytes.length ((dbytes ++ sbytes).take n).length (shape _)
    refine ⟨(hp.trans (writeGrow_spec _ dest _)).trans a, ?_⟩
    simp only [List.length_take, List.length_append] at b ⊢
    omega
  · exact ⟨hp, by simp⟩
  · exact ⟨hp.trans (tempfileErr_tstep (w' := (tempfileErr (popW w).1 dest true).1)
      (q' := (tempfileErr (popW w).1 dest true).2.1) (r := (tempfileErr (popW w).1 dest true).2.2) rfl),
      by split <;> (dsimp only; omega)⟩
  · exact ⟨hp.trans (tempfileErr_tstep (w' := (tempfileErr (popW w).1 dest false).1)
      (q' := (tempfileErr (popW w).1 dest false).2.1) (r := (tempfileErr (popW w).1 dest false).2.2) rfl),
      by split <;> (dsimp only; omega)⟩

theorem gatherSrc_length (cs : List Chunk) (slots len : Nat) :
    (gatherSrc cs slots len).length ≤ len ∧ (gatherSrc cs slots len).length ≤ remSum cs := by
  fun_induction gatherSrc cs slots len with
  | case1 => simp
  | case2 => simp
  | case3 rest slots len d off cap clen piece h0 =>
    simp only [piece, clen, List.length_take, List.length_drop, remSum_cons, Chunk.rem]
    omega
  | case4 rest slots len d off cap clen piece h0 ih =>
    simp only [clen] at ih
    simp only [List.length_append, piece, clen, List.length_take, List.length_drop, remSum_cons, Chunk.rem]
    omega
  | case5 => simp

theorem cqmemPre_spec {toTemp : World → Cq → World × Cq × Bool} (ht : ToTempOK toTemp) (w : World) (dest : Cq) :
    TStep w dest (cqmemPre toTemp w dest).1 (cqmemPre toTemp w dest).2.1 ∧
      (QV w dest → (cqmemPre toTemp w dest).2.2.2.1.length ≠ 0 →
        (cqmemPre toTemp w dest).1 = w ∧ (cqmemPre toTemp w dest).2.1 = dest ∧
        (∀ c ∈ dest.chunks, c.isMem = true) ∧
        (cqmemPre toTemp w dest).2.2.2.1.length = remSum dest.chunks) := by
  unfold cqmemPre
  dsimp only
  split
  · exact ⟨ht w dest, fun _ h => absurd rfl h⟩
  · rename_i hcond
    refine ⟨TStep.refl w dest, fun hq h0 => ?_⟩
    have hle := leadingMem_length_le dest.chunks
    have hk : (leadingMem dest.chunks).length = dest.chunks.length := by
      by_cases hk1 : (leadingMem dest.chunks).length ≥ 1
      · simp only [Bool.and_eq_true, Bool.or_eq_true, decide_eq_true_eq, not_and, not_or] at hcond
        by_cases hlt : (leadingMem dest.chunks).length < dest.chunks.length
        · exact absurd hk1 (hcond (Or.inr hlt))
        · omega
      · have : leadingMem dest.chunks = [] := List.eq_nil_of_length_eq_zero (by omega)
        rw [this] at h0
        simp at h0
    obtain ⟨a, b⟩ := leadingMem_all hk
    refine ⟨rfl, rfl, b, ?_⟩
    rw [a]
    exact absChunks_length hq.valid

theorem cqmem_spec {toTemp : World → Cq → World × Cq × Bool} (ht : ToTempOK toTemp)
    (w : World) (dest : Cq) (src : List Chunk) (len : Nat) (hf : Fresh w) (hq : QV w dest) :
    Fresh (cqmemToTempfile toTemp w dest src len).w ∧ Grows w (cqmemToTempfile toTemp w dest src len).w ∧
      QV (cqmemToTempfile toTemp w dest src len).w (cqmemToTempfile toTemp w dest src len).dest ∧
      (cqmemToTempfile toTemp w dest src len).rc ≤ (min len (remSum src) : Nat) := by
  obtain ⟨hp, hshape⟩ := cqmemPre_spec ht w dest
  unfold cqmemToTempfile
  split
  · rename_i w1 dest1 dbytes iov0 heq
    rw [heq] at hp
    obtain ⟨a, b, c⟩ := hp hf hq
    exact ⟨a, b, c, by dsimp only; omega⟩
  · rename_i w1 dest1 dbytes iov0 heq
    rw [heq] at hp hshape
    obtain ⟨f1, g1, q1⟩ := hp hf hq
    split
    · exact ⟨f1, g1, q1, by dsimp only; omega⟩
    · split
      · rename_i w2 dest2 hga
        obtain ⟨a, b, c⟩ := getAppendTempfile_spec hga f1 q1
        exact ⟨a, g1.trans b, c, by dsimp only; omega⟩
      · rename_i w2 dest2 hga
        obtain ⟨f2, g2, q2⟩ := getAppendTempfile_spec hga f1 q1
        have hsh : dbytes.length ≠ 0 → ∃ pre fid, dest2.chunks = pre ++ [.file fid 0 0 true .rw] ∧
            dbytes.length = remSum pre := by
          intro h0
          obtain ⟨e1, e2, e3, e4⟩ := hshape hq h0
          simp only at e1 e2 e4
          subst e1 e2
          rw [getAppendTempfile_of_mem e3] at hga
          obtain ⟨fid, hc, _, _⟩ := newTempfile_chunks hga
          exact ⟨dest1.chunks, fid, hc, e4⟩
        obtain ⟨ts, rb⟩ := cqmemWrite_spec ht w2 dest2 dbytes (gatherSrc src (16 - iov0) len) hsh
        obtain ⟨f3, g3, q3⟩ := ts f2 q2
        have := gatherSrc_length src (16 - iov0) len
        exact ⟨f3, (g1.trans g2).trans g3, q3, by omega⟩

/-- what the nested chunkqueue_steal_with_tempfiles() has to deliver -/
def SwOK (f : World → Cq → Cq → Nat → World × Cq × Cq × Bool) : Prop :=
  ∀ w dest src len, Fresh w → QV w dest → QV w src →
    Fresh (f w dest src len).1 ∧ Grows w (f w dest src len).1 ∧
      QV (f w dest src len).1 (f w dest src len).2.1 ∧ QV (f w dest src len).1 (f w dest src len).2.2.1

theorem swLoop_spec {toTemp : World → Cq → World × Cq × Bool} (ht : ToTempOK toTemp) (fuel : Nat) :
    SwOK (swLoop toTemp fuel) := by
  intro w dest src len
  fun_induction swLoop toTemp fuel w dest src len with
  | case1 w dest src len => exact fun hf hd hs => ⟨hf, Grows.refl w, hd, hs⟩
  | case2 fuel w dest src len hnil => exact fun hf hd hs => ⟨hf, Grows.refl w, hd, hs⟩
  | case3 fuel w dest src len c cs hc hm r hneg =>
    intro hf hd hs
    obtain ⟨a, b, c1, _⟩ := cqmem_spec ht w dest src.chunks len hf hd
    exact ⟨a, b, c1, hs.mono b⟩
  | case4 fuel w dest src len c cs hc hm r hneg m h0 =>
    intro hf hd hs
    obtain ⟨a, b, c1, d⟩ := cqmem_spec ht w dest src.chunks len hf hd
    have hmw := markWritten_spec r.w src r.rc.toNat
    have hle : r.rc.toNat ≤ remSum src.chunks := by
      have : r.rc ≤ (min len (remSum src.chunks) : Nat) := d
      omega
    exact ⟨hmw.1.fresh a, b.trans hmw.1.grows, c1.mono hmw.1.grows, hmw.2 (hs.mono b) hle⟩
  | case5 fuel w dest src len c cs hc hm r hneg m h0 ih =>
    intro hf hd hs
    obtain ⟨a, b, c1, d⟩ := cqmem_spec ht w dest src.chunks len hf hd
    have hmw := markWritten_spec r.w src r.rc.toNat
    have hle : r.rc.toNat ≤ remSum src.chunks := by
      have : r.rc ≤ (min len (remSum src.chunks) : Nat) := d
      omega
    obtain ⟨i1, i2, i3, i4⟩ := ih (hmw.1.fresh a) (c1.mono hmw.1.grows) (hmw.2 (hs.mono b) hle)
    exact ⟨i1, (b.trans hmw.1.grows).trans i2, i3, i4⟩
  | case6 fuel w dest src len c cs hc hm clen h0 =>
    intro hf hd hs
    obtain ⟨s1, s2⟩ := steal_spec w dest src clen
    obtain ⟨a, b, _, _⟩ := s2 hd hs
    exact ⟨s1.fresh hf, s1.grows, a, b⟩
  | case7 fuel w dest src len c cs hc hm clen r h0 ih =>
    intro hf hd hs
    obtain ⟨s1, s2⟩ := steal_spec w dest src clen
    obtain ⟨a, b, _, _⟩ := s2 hd hs
    obtain ⟨i1, i2, i3, i4⟩ := ih (s1.fresh hf) a b
    exact ⟨i1, s1.grows.trans i2, i3, i4⟩

theorem toTempfilesWith_spec {inner : World → Cq → Cq → Nat → World × Cq × Cq × Bool} (hi : SwOK inner) :
    ToTempOK (toTempfilesWith inner) := by
  intro w dest hf hq
  unfold toTempfilesWith
  dsimp only
  have hlen := hq.len
  have hq0 : QV w { dest with chunks := [], bytesIn := dest.bytesIn - dest.length.toNat } := by
    refine ⟨ValidAll.nil w, ?_⟩
    simp only [Cq.length, remSum_nil]
    omega
  obtain ⟨a, b, c, d⟩ := hi w { dest with chunks := [], bytesIn := dest.bytesIn - dest.length.toNat } dest
    dest.length.toNat hf hq0 hq
  have hr := releaseAll_same (inner w { dest with chunks := [], bytesIn := dest.bytesIn - dest.length.toNat } dest
    dest.length.toNat).1 (inner w { dest with chunks := [], bytesIn := dest.bytesIn - dest.length.toNat } dest
    dest.length.toNat).2.2.1.chunks
  exact ⟨hr.fresh a, b.trans hr.grows, c.mono hr.grows⟩

theorem toTempStub_ok : ToTempOK toTempStub := fun w q => TStep.refl w q

theorem swInner_ok : SwOK swInner := fun w dest src len => swLoop_spec toTempStub_ok _ w dest src len

theorem toTempfiles_ok : ToTempOK toTempfiles := toTempfilesWith_spec swInner_ok

/-- chunkqueue_steal_with_tempfiles(): accounting of both queues survives every
    fault schedule, success or error -/
theorem stealWithTempfiles_spec : SwOK stealWithTempfiles :=
  fun w dest src len => swLoop_spec toTempfiles_ok _ w dest src len

theorem appendMemToTempfile_spec (w : World) (q : Cq) (d : Bytes) :
    TStep w q (appendMemToTempfile w q d).1 (appendMemToTempfile w q d).2.1 := by
  unfold appendMemToTempfile
  have hpre : TStep w q (if firstIsMem q = true then toTempfiles w q else (w, q, true)).1
      (if firstIsMem q = true then toTempfiles w q else (w, q, true)).2.1 := by
    split
    · exact toTempfiles_ok w q
    · exact TStep.refl w q
  split
  · rename_i w1 q1 heq
    rw [heq] at hpre
    exact hpre
  · rename_i w1 q1 heq
    rw [heq] at hpre
    exact hpre.trans (mtLoop_spec _ w1 q1 d)

/-! ## the closed system -/

/-- invariant of the two-queue system -/
structure Inv (s : Sys) : Prop where
  fresh : Fresh s.w
  q0 : QV s.w s.q0
  q1 : QV s.w s.q1

/-- obligations of the caller that the model does not check itself: a file
    range handed to chunkqueue_append_file*() lies inside an existing file -/
def OpOK (s : Sys) : Op → Prop
  | .appendFile _ fid off len _ => fid < s.w.nfiles ∧ fid < s.w.nsrc ∧ off + len ≤ sz s.w fid
  | _ => True

theorem Inv.get {s : Sys} (h : Inv s) (i : Bool) : QV s.w (s.get i) := by
  cases i
  · exact h.q0
  · exact h.q1

theorem inv_single {s : Sys} (h : Inv s) (i : Bool) {w' : World} {q' : Cq}
    (ht : TStep s.w (s.get i) w' q') : Inv ({ s with w := w' }.set i q') := by
  obtain ⟨a, b, c⟩ := ht h.fresh (h.get i)
  cases i
  · exact ⟨a, c, h.q1.mono b⟩
  · exact ⟨a, h.q0.mono b, c⟩

theorem inv_pair {s : Sys} (i : Bool) {w' : World} {d' o' : Cq} (hf : Fresh w')
    (hd : QV w' d') (ho : QV w' o') : Inv (({ s with w := w' }.set i d').set (!i) o') := by
  cases i
  · exact ⟨hf, hd, ho⟩
  · exact ⟨hf, ho, hd⟩

theorem inv_same {s : Sys} (h : Inv s) (i : Bool) {w' : World} {q' : Cq}
    (hs : QStep s.w (s.get i) (w', q')) : Inv ({ s with w := w' }.set i q') :=
  inv_single h i hs.tstep

/-- every operation preserves the invariant, whatever the fault schedule -/
theorem step_inv (s : Sys) (op : Op) (h : Inv s) (hop : OpOK s op) : Inv (step s op).1 := by
  cases op with
  | appendMem qi d =>
    obtain ⟨a, b⟩ := appendMem_spec s.w (s.get qi) d
    exact inv_same h qi (QStep.mk' a b)
  | appendMemMin qi d =>
    obtain ⟨a, b⟩ := appendMemMin_spec s.w (s.get qi) d
    exact inv_same h qi (QStep.mk' a b)
  | appendBuffer qi d =>
    obtain ⟨a, b⟩ := appendBuffer_spec s.w (s.get qi) d
    exact inv_same h qi (QStep.mk' a b)
  | appendBufferOpen qi d =>
    obtain ⟨a, b⟩ := appendBufferOpen_spec s.w (s.get qi) d
    exact inv_same h qi (QStep.mk' a b)
  | getUseMemory qi req d => exact inv_same h qi (getUseMemory_spec s.w (s.get qi) req d)
  | appendFile qi fid off len fd =>
    obtain ⟨a, b⟩ := appendFile_spec s.w (s.get qi) fid off len fd
    exact inv_same h qi (QStep.mk' a fun hq => b hq hop.1 hop.2.1 hop.2.2)
  | appendChunkqueue qi =>
    obtain ⟨a, b⟩ := appendChunkqueue_qv (h.get qi) (h.get (!qi))
    exact inv_pair (s := s) qi h.fresh a b
  | appendMemToTempfile qi d => exact inv_single h qi (appendMemToTempfile_spec s.w (s.get qi) d)
  | steal qi n =>
    obtain ⟨a, b⟩ := steal_spec s.w (s.get qi) (s.get (!qi)) n
    obtain ⟨c, d, _, _⟩ := b (h.get qi) (h.get (!qi))
    exact inv_pair qi (a.fresh h.fresh) c d
  | stealWithTempfiles qi n =>
    obtain ⟨a, _, c, d⟩ := stealWithTempfiles_spec s.w (s.get qi) (s.get (!qi)) n h.fresh (h.get qi) (h.get (!qi))
    exact inv_pair qi a c d
  | appendCqRange qi self off len =>
    simp only [step]
    split
    · split
      · exact h
      · obtain ⟨a, b⟩ := rangeLoop_spec s.w (s.get qi) (s.get qi).chunks off len
        exact inv_same h qi (QStep.mk' a fun hq => (b hq hq.valid).1)
    · obtain ⟨a, b⟩ := rangeLoop_spec s.w (s.get qi) (s.get (!qi)).chunks off len
      exact inv_same h qi (QStep.mk' a fun hq => (b hq (h.get (!qi)).valid).1)
  | markWritten qi n =>
    simp only [step]
    split
    · rename_i hle
      obtain ⟨a, b⟩ := markWritten_spec s.w (s.get qi) n
      refine inv_same h qi (QStep.mk' a fun hq => b hq ?_)
      have := hq.len
      simp only [Cq.length] at hle
      omega
    · exact h
  | removeFinished qi => exact inv_same h qi (removeFinished_spec s.w (s.get qi))
  | removeEmpty qi => exact inv_same h qi (removeEmpty_spec s.w (s.get qi))
  | compactMem qi clen =>
    simp only [step]
    split
    · exact inv_same h qi (compactMem_spec s.w (s.get qi) clen)
    · exact h
  | compactMemOffset qi =>
    simp only [step]
    split
    · exact h
    · have := inv_same (w' := s.w) h qi (QStep.mk' (SameFiles.refl s.w) fun hq => compactMemOffset_qv hq)
      exact this
  | peekData qi n =>
    obtain ⟨a, b⟩ := peekData_spec s.w (s.get qi) n
    exact inv_same h qi (QStep.mk' a fun hq => (b hq).1)
  | readData qi n =>
    obtain ⟨a, b⟩ := readData_spec (w := s.w) (q := s.get qi) (n := n) rfl
    exact inv_same h qi (QStep.mk' a fun hq => (b hq).1)
  | readSquash qi =>
    obtain ⟨a, b⟩ := readSquash_spec (w := s.w) (q := s.get qi) rfl
    exact inv_same h qi (QStep.mk' a fun hq => (b hq).1)
  | reset qi =>
    obtain ⟨a, b, _⟩ := reset_spec s.w (s.get qi)
    exact inv_same h qi (QStep.mk' a fun _ => b)

theorem run_inv (s : Sys) (ops : List Op) (h : Inv s)
    (hops : ∀ (pre : List Op) (op : Op) (post : List Op), ops = pre ++ op :: post → OpOK (run s pre) op) :
    Inv (run s ops) := by
  induction ops generalizing s with
  | nil => exact h
  | cons op ops ih =>
    simp only [run]
    refine ih (step s op).1 (step_inv s op h (hops [] op ops rfl)) ?_
    intro pre op' post e
    have := hops (op :: pre) op' post (by rw [e]; rfl)
    simpa [run] using this

/-- the bytes queue `i` of the system holds -/
def Sys.abs (s : Sys) (i : Bool) : Bytes := (s.get i).abs s.w

theorem Inv.length_abs {s : Sys} (h : Inv s) (i : Bool) :
    (s.get i).length = ((s.abs i).length : Int) := by
  have hq := h.get i
  simp only [Sys.abs, Cq.abs, Cq.length, absChunks_length hq.valid]
  exact hq.len

/-! ## the byte-string reference queue -/

/-- the queue an operation works on (transfers: the destination) -/
def Op.qi : Op → Bool
  | .appendMem i _ | .appendMemMin i _ | .appendBuffer i _ | .appendBufferOpen i _
  | .getUseMemory i _ _ | .appendFile i _ _ _ _ | .appendChunkqueue i | .appendMemToTempfile i _
  | .steal i _ | .stealWithTempfiles i _ | .appendCqRange i _ _ _ | .markWritten i _
  | .removeFinished i | .removeEmpty i | .compactMem i _ | .compactMemOffset i
  | .peekData i _ | .readData i _ | .readSquash i | .reset i => i

/-- operations that write temp files -/
def Op.spills : Op → Bool
  | .appendMemToTempfile .. | .stealWithTempfiles .. => true
  | _ => false

/-- reference FIFO semantics: `a` = bytes of the queue operated on, `b` = bytes
    of the other queue, `files` = file contents; the effect may depend on what
    the operation reported (`Res`): room offered by get_memory, success, skip -/
def specStep (files : Nat → Bytes) (a b : Bytes) : Op → Res → Bytes × Bytes
  | .appendMem _ d, _ => (a ++ d, b)
  | .appendMemMin _ d, _ => (a ++ d, b)
  | .appendBuffer _ d, _ => (a ++ d, b)
  | .appendBufferOpen _ d, _ => (a ++ d, b)
  | .getUseMemory _ _ d, .avail n => (a ++ d.take n, b)
  | .appendFile _ fid off len _, _ => (a ++ ((files fid).drop off).take len, b)
  | .appendChunkqueue _, _ => (a ++ b, [])
  | .appendMemToTempfile _ d, .rc true => (a ++ d, b)
  | .steal _ n, _ => (a ++ b.take n, b.drop n)
  | .stealWithTempfiles _ n, .rc true => (a ++ b.take n, b.drop n)
  | .appendCqRange _ self off len, .done => (a ++ ((if self then a else b).drop off).take len, b)
  | .markWritten _ n, .done => (a.drop n, b)
  | .readData _ n, .read (some _) => (a.drop n, b)
  | .reset _, _ => ([], b)
  | _, _ => (a, b)

/-- what a read operation must hand out: the head of the queue, unmodified -/
def resOK (a : Bytes) : Op → Res → Prop
  | .peekData _ n, .peeked true d => d = a.take n
  | .readData _ n, .read (some d) => d = a.take n ∧ d.length = n
  | _, _ => True

theorem Sys.abs_set_same (s : Sys) (i : Bool) (q : Cq) : (s.set i q).abs i = q.abs s.w := by
  cases i <;> rfl

theorem Sys.abs_set_other (s : Sys) (i : Bool) (q : Cq) : (s.set i q).abs (!i) = s.abs (!i) := by
  cases i <;> rfl

theorem abs_frame {s : Sys} {w' : World} (hs : SameFiles s.w w') (i : Bool) :
    ({ s with w := w' } : Sys).abs i = s.abs i := by
  cases i <;> exact absChunks_same hs _

/-- a single-queue operation that leaves file contents alone: queue `i`
    becomes `q'` in world `w'`, the other queue keeps its bytes -/
theorem refine_single {s : Sys} {i : Bool} {w' : World} {q' : Cq} {a' : Bytes}
    (hs : SameFiles s.w w') (ha : q'.abs s.w = a') :
    (({ s with w := w' } : Sys).set i q').abs i = a' ∧
      (({ s with w := w' } : Sys).set i q').abs (!i) = s.abs (!i) := by
  refine ⟨?_, ?_⟩
  · rw [Sys.abs_set_same]
    simp only [Cq.abs] at ha ⊢
    rw [absChunks_same hs]; exact ha
  · rw [Sys.abs_set_other]; exact abs_frame hs _

theorem refine_pair {s : Sys} {i : Bool} {w' : World} {d' o' : Cq} {a' b' : Bytes}
    (hs : SameFiles s.w w') (ha : d'.abs s.w = a') (hb : o'.abs s.w = b') :
    ((({ s with w := w' } : Sys).set i d').set (!i) o').abs i = a' ∧
      ((({ s with w := w' } : Sys).set i d').set (!i) o').abs (!i) = b' := by
  simp only [Cq.abs] at ha hb
  cases i
  · exact ⟨(absChunks_same hs d'.chunks).trans ha, (absChunks_same hs o'.chunks).trans hb⟩
  · exact ⟨(absChunks_same hs d'.chunks).trans ha, (absChunks_same hs o'.chunks).trans hb⟩

theorem step_refines (s : Sys) (op : Op) (h : Inv s) (hop : OpOK s op) (hns : op.spills = false) :
    ((step s op).1.abs op.qi, (step s op).1.abs (!op.qi)) =
        specStep (fun fid => (s.w.files fid).content) (s.abs op.qi) (s.abs (!op.qi)) op (step s op).2 ∧
      resOK (s.abs op.qi) op (step s op).2 := by
  cases op with
  | appendMem qi d =>
    have hq := h.get qi
    obtain ⟨a, _⟩ := appendMem_spec s.w (s.get qi) d
    have b := appendMem_abs s.w (s.get qi) d hq a
    simp only [Cq.abs] at b
    rw [absChunks_same a] at b
    obtain ⟨x, y⟩ := refine_single (i := qi) a b
    exact ⟨Prod.ext x y, trivial⟩
  | appendMemMin qi d =>
    have hq := h.get qi
    obtain ⟨a, _⟩ := appendMemMin_spec s.w (s.get qi) d
    have b := appendMemMin_abs s.w (s.get qi) d hq a
    simp only [Cq.abs] at b
    rw [absChunks_same a] at b
    obtain ⟨x, y⟩ := refine_single (i := qi) a b
    exact ⟨Prod.ext x y, trivial⟩
  | appendBuffer qi d =>
    have hq := h.get qi
    obtain ⟨a, _⟩ := appendBuffer_spec s.w (s.get qi) d
    have b := appendBuffer_abs s.w (s.get qi) d hq a
    simp only [Cq.abs] at b
    rw [absChunks_same a] at b
    obtain ⟨x, y⟩ := refine_single (i := qi) a b
    exact ⟨Prod.ext x y, trivial⟩
  | appendBufferOpen qi d =>
    have hq := h.get qi
    obtain ⟨a, _⟩ := appendBufferOpen_spec s.w (s.get qi) d
    have b := appendBufferOpen_abs s.w (s.get qi) d hq a
    simp only [Cq.abs] at b
    rw [absChunks_same a] at b
    obtain ⟨x, y⟩ := refine_single (i := qi) a b
    exact ⟨Prod.ext x y, trivial⟩
  | getUseMemory qi req d =>
    have hq := h.get qi
    have a := (getUseMemory_spec s.w (s.get qi) req d).1
    have b := getUseMemory_abs s.w (s.get qi) req d hq
    simp only [Cq.abs] at b
    rw [absChunks_same a] at b
    obtain ⟨x, y⟩ := refine_single (i := qi) a b
    exact ⟨Prod.ext x y, trivial⟩
  | appendFile qi fid off len fd =>
    have hq := h.get qi
    obtain ⟨a, _⟩ := appendFile_spec s.w (s.get qi) fid off len fd
    have b := appendFile_abs s.w (s.get qi) fid off len fd hq a
    simp only [Cq.abs] at b
    rw [absChunks_same a] at b
    obtain ⟨x, y⟩ := refine_single (i := qi) a b
    exact ⟨Prod.ext x y, trivial⟩
  | appendChunkqueue qi =>
    obtain ⟨a, b⟩ := appendChunkqueue_abs s.w (s.get qi) (s.get (!qi))
    refine ⟨?_, trivial⟩
    cases qi <;> exact Prod.ext a b
  | appendMemToTempfile qi d => cases hns
  | steal qi n =>
    obtain ⟨a, b⟩ := steal_spec s.w (s.get qi) (s.get (!qi)) n
    obtain ⟨_, _, c, d⟩ := b (h.get qi) (h.get (!qi))
    obtain ⟨x, y⟩ := refine_pair (i := qi) a c d
    exact ⟨Prod.ext x y, trivial⟩
  | stealWithTempfiles qi n => cases hns
  | appendCqRange qi self off len =>
    cases self
    · simp only [step, Bool.false_eq_true, ↓reduceIte]
      obtain ⟨a, b⟩ := rangeLoop_spec s.w (s.get qi) (s.get (!qi)).chunks off len
      have c := (b (h.get qi) (h.get (!qi)).valid).2
      obtain ⟨x, y⟩ := refine_single (i := qi) (q' := (appendCqRange s.w (s.get qi) (s.get (!qi)) off len).2) a c
      exact ⟨Prod.ext x y, trivial⟩
    · simp only [step, ↓reduceIte]
      split
      · exact ⟨rfl, trivial⟩
      · obtain ⟨a, b⟩ := rangeLoop_spec s.w (s.get qi) (s.get qi).chunks off len
        have c := (b (h.get qi) (h.get qi).valid).2
        obtain ⟨x, y⟩ := refine_single (i := qi) (q' := (appendCqRangeSelf s.w (s.get qi) off len).2) a c
        exact ⟨Prod.ext x y, trivial⟩
  | markWritten qi n =>
    simp only [step]
    split
    · obtain ⟨a, _⟩ := markWritten_spec s.w (s.get qi) n
      have b := markWritten_abs s.w (s.get qi) n (h.get qi)
      simp only [Cq.abs] at b
      rw [absChunks_same a] at b
      obtain ⟨x, y⟩ := refine_single (i := qi) a b
      exact ⟨Prod.ext x y, trivial⟩
    · exact ⟨rfl, trivial⟩
  | removeFinished qi =>
    have a := (removeFinished_spec s.w (s.get qi)).1
    have b := removeFinished_abs s.w (s.get qi) (h.get qi)
    simp only [Cq.abs] at b
    rw [absChunks_same a] at b
    obtain ⟨x, y⟩ := refine_single (i := qi) a b
    exact ⟨Prod.ext x y, trivial⟩
  | removeEmpty qi =>
    have a := (removeEmpty_spec s.w (s.get qi)).1
    have b := removeEmpty_abs s.w (s.get qi) (h.get qi)
    simp only [Cq.abs] at b
    rw [absChunks_same a] at b
    obtain ⟨x, y⟩ := refine_single (i := qi) a b
    exact ⟨Prod.ext x y, trivial⟩
  | compactMem qi clen =>
    simp only [step]
    split
    · have a := (compactMem_spec s.w (s.get qi) clen).1
      have b := compactMem_abs s.w (s.get qi) clen (h.get qi)
      simp only [Cq.abs] at b
      rw [absChunks_same a] at b
      obtain ⟨x, y⟩ := refine_single (i := qi) a b
      exact ⟨Prod.ext x y, trivial⟩
    · exact ⟨rfl, trivial⟩
  | compactMemOffset qi =>
    simp only [step]
    split
    · exact ⟨rfl, trivial⟩
    · have b := compactMemOffset_abs s.w (s.get qi)
      obtain ⟨x, y⟩ := refine_single (i := qi) (SameFiles.refl s.w) b
      exact ⟨Prod.ext x y, trivial⟩
  | peekData qi n =>
    obtain ⟨a, b⟩ := peekData_spec s.w (s.get qi) n
    obtain ⟨_, c, d⟩ := b (h.get qi)
    obtain ⟨x, y⟩ := refine_single (i := qi) a c
    refine ⟨Prod.ext x y, ?_⟩
    simp only [step]
    generalize hr : (peekData s.w (s.get qi) n).2.2.2 = ok at d
    cases ok
    · simp only [resOK, hr]
    · simp only [resOK, hr]
      exact d rfl
  | readData qi n =>
    rcases hrd : readData s.w (s.get qi) n with ⟨w', q', r⟩
    obtain ⟨a, b⟩ := readData_spec hrd
    obtain ⟨_, c, d⟩ := b (h.get qi)
    simp only [step, hrd]
    cases r with
    | none =>
      obtain ⟨x, y⟩ := refine_single (i := qi) a (d rfl)
      exact ⟨Prod.ext x y, trivial⟩
    | some data =>
      obtain ⟨c1, c2, c3⟩ := c data rfl
      obtain ⟨x, y⟩ := refine_single (i := qi) a c3
      exact ⟨Prod.ext x y, c1, c2⟩
  | readSquash qi =>
    obtain ⟨a, b⟩ := readSquash_spec (w := s.w) (q := s.get qi) rfl
    obtain ⟨x, y⟩ := refine_single (i := qi) a (b (h.get qi)).2
    exact ⟨Prod.ext x y, trivial⟩
  | reset qi =>
    obtain ⟨a, _, c, _⟩ := reset_spec s.w (s.get qi)
    have : (reset s.w (s.get qi)).2.abs s.w = [] := by simp [Cq.abs, c]
    obtain ⟨x, y⟩ := refine_single (i := qi) a this
    exact ⟨Prod.ext x y, trivial⟩

end LtVerif.Cq
