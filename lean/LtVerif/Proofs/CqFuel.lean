/-
  C17 — the iteration bounds (`fuel`) of the model's retry loops are never
  reached, whatever the fault schedule: every turn of a loop consumes a
  scripted write result, a byte of `len` or a chunk of the source, so a loop
  given more turns returns the same result.  A reported error is therefore
  never an artefact of the bound (the C loops have none).
-/
import LtVerif.Proofs.CqLive
namespace LtVerif.Cq

/-! ## schedules are only consumed (no side conditions) -/

theorem mkstempDirs_calm (fuel : Nat) (w : World) (idx : Nat) : Calm w (mkstempDirs fuel w idx).1 := by
  fun_induction mkstempDirs fuel w idx with
  | case1 w idx => exact Calm.refl w
  | case2 fuel w idx hlt w1 hp ih =>
    have := (popM_same w).calm
    rw [hp] at this
    exact this.trans ih
  | case3 fuel w idx hlt w1 fails hp hf w2 cap hc =>
    have := (popM_same w).calm
    rw [hp] at this
    simp only [createTemp, Prod.mk.injEq] at hc
    obtain ⟨rfl, _⟩ := hc
    exact this.trans ⟨List.suffix_refl _, List.suffix_refl _, rfl, rfl⟩
  | case4 fuel w idx hlt => exact Calm.refl w

theorem newTempfile_calm (w : World) (q : Cq) : Calm w (newTempfile w q).1 := by
  unfold newTempfile
  split
  · have := mkstempDirs_calm (w.ndirs - q.tdIdx + 1) w q.tdIdx
    split <;> rename_i heq <;> rw [heq] at this <;> exact this
  · have := (popM_same w).calm
    generalize popM w = p at this
    obtain ⟨w1, f⟩ := p
    dsimp only at this ⊢
    split
    · exact this
    · exact this.trans ⟨List.suffix_refl _, List.suffix_refl _, rfl, rfl⟩

theorem getAppendTempfile_calm (w : World) (q : Cq) : Calm w (getAppendTempfile w q).1 := by
  unfold getAppendTempfile
  split
  · split
    · split
      · exact Calm.refl w
      · exact (closeFd_same w _).calm.trans (newTempfile_calm _ _)
    · exact newTempfile_calm _ _
  · exact newTempfile_calm _ _

theorem tempfileErr_calm (w : World) (q : Cq) (e : Bool) : Calm w (tempfileErr w q e).1 :=
  (tempfileErr_spec (w := w) (q := q) (e := e) rfl).1.calm

/-- chunkqueue_to_tempfiles() as a parameter: only consumes the schedules -/
def TTCalm (toTemp : World → Cq → World × Cq × Bool) : Prop := ∀ w q, Calm w (toTemp w q).1

theorem cqmemPartial_calm {toTemp : World → Cq → World × Cq × Bool} (ht : TTCalm toTemp) (w : World) (dest : Cq)
    (wr : Nat) : Calm w (cqmemPartial toTemp w dest wr).w := by
  unfold cqmemPartial
  split
  · rename_i c hl
    dsimp only
    have h1 := (markWritten_spec w (cqD1 dest wr) wr).1.calm
    have key : ∀ (w1 : World) (q1 : Cq), Calm w w1 →
        Calm w (match toTemp w1 q1 with
          | (w, dest, ok) => ({ w := w, dest := dest, rc := if ok then 0 else -1 } : SwOut)).w := by
      intro w1 q1 hc
      have := ht w1 q1
      generalize toTemp w1 q1 = r at this
      obtain ⟨a, b, c⟩ := r
      exact hc.trans this
    exact key _ _ h1
  · exact Calm.refl w

theorem cqmemWritten_calm {toTemp : World → Cq → World × Cq × Bool} (ht : TTCalm toTemp) (w : World) (dest : Cq)
    (dlen wr : Nat) : Calm w (cqmemWritten toTemp w dest dlen wr).w := by
  unfold cqmemWritten
  split
  · exact Calm.refl w
  · split
    · exact cqmemPartial_calm ht w dest wr
    · exact (markWritten_spec w _ dlen).1.calm

theorem cqmemWritten_rc (toTemp : World → Cq → World × Cq × Bool) (w : World) (dest : Cq) (dlen wr : Nat)
    (h : dlen ≤ wr) : (cqmemWritten toTemp w dest dlen wr).rc = ((wr - dlen : Nat) : Int) := by
  unfold cqmemWritten
  split
  · rename_i h0; subst h0; rfl
  · rw [if_neg (by omega)]

theorem popW_len {w : World} (h : (popW w).2 ≠ .ok) : (popW w).1.wsched.length + 1 = w.wsched.length := by
  rcases popW_cases w with ⟨_, e⟩ | ⟨f, t, hw, e⟩
  · rw [e] at h; exact absurd rfl h
  · rw [e, hw]; rfl

theorem popW_calm (w : World) : Calm w (popW w).1 := (popW_same w).calm

theorem effFault_ok_src {q : Cq} {f g : WFault} (h : effFault q f = g) (h1 : g ≠ .ok) (h2 : g ≠ .eio) :
    f ≠ .ok := by
  intro hf
  subst hf
  simp only [effFault] at h
  split at h
  · exact h2 h.symm
  · exact h1 h.symm

/-- the pwritev() step: a non-negative result either consumed a scripted write
    result or took every gathered byte of src -/
theorem cqmemWrite_progress {toTemp : World → Cq → World × Cq × Bool} (ht : TTCalm toTemp) (w : World) (dest : Cq)
    (dbytes sbytes : Bytes) :
    Calm w (cqmemWrite toTemp w dest dbytes sbytes).w ∧
      (0 ≤ (cqmemWrite toTemp w dest dbytes sbytes).rc →
        (cqmemWrite toTemp w dest dbytes sbytes).w.wsched.length < w.wsched.length ∨
        (cqmemWrite toTemp w dest dbytes sbytes).rc = (sbytes.length : Int)) := by
  have hpc := popW_calm w
  have hte : ∀ e, Calm w (match tempfileErr (popW w).1 dest e with
      | (w, dest, retry) => ({ w := w, dest := dest, rc := if retry then 0 else -1 } : SwOut)).w := by
    intro e
    have := tempfileErr_calm (popW w).1 dest e
    generalize tempfileErr (popW w).1 dest e = r at this
    obtain ⟨a, b, c⟩ := r
    exact hpc.trans this
  have hcalm : Calm w (cqmemWrite toTemp w dest dbytes sbytes).w := by
    unfold cqmemWrite
    dsimp only
    split
    · exact (hpc.trans (writeLast_calm _ _ _).1).trans (cqmemWritten_calm ht _ _ _ _)
    · exact (hpc.trans (writeLast_calm _ _ _).1).trans (cqmemWritten_calm ht _ _ _ _)
    · exact hpc
    · exact hte true
    · exact hte false
  refine ⟨hcalm, fun hrc => ?_⟩
  by_cases hne : (popW w).2 = .ok
  · -- nothing scripted (or a scripted ok): everything is written
    by_cases hsched : w.wsched = []
    · refine Or.inr ?_
      have hpw : popW w = (w, .ok) := by unfold popW; rw [hsched]
      unfold cqmemWrite at hrc ⊢
      dsimp only at hrc ⊢
      rw [hpw] at hrc ⊢
      dsimp only at hrc ⊢
      by_cases hro : lastReadOnly dest = true
      · -- EBADF on a read-only descriptor: no retry
        exfalso
        have he : effFault dest .ok = .eio := by simp [effFault, hro]
        rw [he] at hrc
        dsimp only at hrc
        have hb : bumpDir w dest false = (dest, false) := by simp [bumpDir]
        unfold tempfileErr at hrc
        rw [hb] at hrc
        dsimp only at hrc
        generalize dropOrCloseLast w dest = r at hrc
        obtain ⟨a, b⟩ := r
        simp at hrc
      · have he : effFault dest .ok = .ok := by simp [effFault, hro]
        rw [he]
        dsimp only
        rw [cqmemWritten_rc _ _ _ _ _ (by simp)]
        simp
    · refine Or.inl ?_
      have h1 : (popW w).1.wsched.length + 1 = w.wsched.length := by
        rcases popW_cases w with ⟨h, _⟩ | ⟨f, t, hw, e⟩
        · exact absurd h hsched
        · rw [e, hw]; rfl
      have h2 : Calm (popW w).1 (cqmemWrite toTemp w dest dbytes sbytes).w := by
        have hte' : ∀ e, Calm (popW w).1 (match tempfileErr (popW w).1 dest e with
            | (w, dest, retry) => ({ w := w, dest := dest, rc := if retry then 0 else -1 } : SwOut)).w := by
          intro e
          have := tempfileErr_calm (popW w).1 dest e
          generalize tempfileErr (popW w).1 dest e = r at this
          obtain ⟨a, b, c⟩ := r
          exact this
        unfold cqmemWrite
        dsimp only
        split
        · exact (writeLast_calm _ _ _).1.trans (cqmemWritten_calm ht _ _ _ _)
        · exact (writeLast_calm _ _ _).1.trans (cqmemWritten_calm ht _ _ _ _)
        · exact Calm.refl _
        · exact hte' true
        · exact hte' false
      have := h2.wlen
      omega
  · refine Or.inl ?_
    have h1 := popW_len hne
    have h2 : Calm (popW w).1 (cqmemWrite toTemp w dest dbytes sbytes).w := by
      have hte' : ∀ e, Calm (popW w).1 (match tempfileErr (popW w).1 dest e with
          | (w, dest, retry) => ({ w := w, dest := dest, rc := if retry then 0 else -1 } : SwOut)).w := by
        intro e
        have := tempfileErr_calm (popW w).1 dest e
        generalize tempfileErr (popW w).1 dest e = r at this
        obtain ⟨a, b, c⟩ := r
        exact this
      unfold cqmemWrite
      dsimp only
      split
      · exact (writeLast_calm _ _ _).1.trans (cqmemWritten_calm ht _ _ _ _)
      · exact (writeLast_calm _ _ _).1.trans (cqmemWritten_calm ht _ _ _ _)
      · exact Calm.refl _
      · exact hte' true
      · exact hte' false
    have := h2.wlen
    omega

theorem cqmemPre_calm {toTemp : World → Cq → World × Cq × Bool} (ht : TTCalm toTemp) (w : World) (dest : Cq) :
    Calm w (cqmemPre toTemp w dest).1 ∧ (cqmemPre toTemp w dest).2.2.2.2 < 16 := by
  unfold cqmemPre
  dsimp only
  split
  · have := ht w dest
    generalize toTemp w dest = r at this
    obtain ⟨a, b, c⟩ := r
    exact ⟨this, Nat.zero_lt_succ _⟩
  · rename_i hcond
    refine ⟨Calm.refl w, ?_⟩
    simp only [Bool.and_eq_true, Bool.or_eq_true, decide_eq_true_eq, not_and] at hcond
    by_cases h16 : (leadingMem dest.chunks).length ≥ 16
    · exact absurd (show (leadingMem dest.chunks).length ≥ 1 by omega) (hcond (Or.inl h16))
    · show (leadingMem dest.chunks).length < 16
      omega

/-- one MEM turn of the loop: a non-negative result consumed a scripted write
    result, took at least one byte, or the first chunk of src is empty -/
theorem cqmem_progress {toTemp : World → Cq → World × Cq × Bool} (ht : TTCalm toTemp) (w : World) (dest : Cq)
    (c : Chunk) (rest : List Chunk) (len : Nat) (hc : c.isMem = true) :
    Calm w (cqmemToTempfile toTemp w dest (c :: rest) len).w ∧
      (0 ≤ (cqmemToTempfile toTemp w dest (c :: rest) len).rc → 0 < len →
        (cqmemToTempfile toTemp w dest (c :: rest) len).w.wsched.length < w.wsched.length ∨
        0 < (cqmemToTempfile toTemp w dest (c :: rest) len).rc ∨ c.rem = 0) := by
  obtain ⟨p1, p2⟩ := cqmemPre_calm ht w dest
  unfold cqmemToTempfile
  generalize cqmemPre toTemp w dest = p at p1 p2
  obtain ⟨w1, d1, ok, dbytes, iov0⟩ := p
  simp only at p1 p2
  cases ok with
  | false => exact ⟨p1, fun h => by simp at h⟩
  | true =>
    dsimp only
    have hfm : firstIsMemL (c :: rest) = true := hc
    rw [hfm]
    simp only [Bool.not_true, Bool.and_false, Bool.false_eq_true, if_false]
    have g1 := getAppendTempfile_calm w1 d1
    generalize getAppendTempfile w1 d1 = g at g1
    obtain ⟨w2, d2, ok2⟩ := g
    simp only at g1
    cases ok2 with
    | false => exact ⟨p1.trans g1, fun h => by simp at h⟩
    | true =>
      dsimp only
      obtain ⟨a, b⟩ := cqmemWrite_progress ht w2 d2 dbytes (gatherSrc (c :: rest) (16 - iov0) len)
      refine ⟨(p1.trans g1).trans a, fun hrc hl => ?_⟩
      rcases b hrc with e | e
      · refine Or.inl ?_
        have h1 := (p1.trans g1).wlen
        omega
      · by_cases h0 : (gatherSrc (c :: rest) (16 - iov0) len).length = 0
        · exact Or.inr (Or.inr (gatherSrc_nil hc (by omega) hl h0))
        · refine Or.inr (Or.inl ?_)
          rw [e]
          omega

/-- the loop only consumes the schedules -/
theorem swLoop_calm {toTemp : World → Cq → World × Cq × Bool} (ht : TTCalm toTemp) (fuel : Nat) (w : World)
    (dest src : Cq) (len : Nat) : Calm w (swLoop toTemp fuel w dest src len).1 := by
  induction fuel generalizing w dest src len with
  | zero => exact Calm.refl w
  | succ fuel ih =>
    unfold swLoop
    split
    · exact Calm.refl w
    · rename_i c cs heq
      split
      · rename_i hc
        dsimp only
        rw [heq]
        have a := (cqmem_progress ht w dest c cs len hc).1
        have hmc := (markWritten_spec (cqmemToTempfile toTemp w dest (c :: cs) len).w src
          (cqmemToTempfile toTemp w dest (c :: cs) len).rc.toNat).1.calm
        split
        · exact a
        · split
          · exact a.trans hmc
          · exact (a.trans hmc).trans (ih _ _ _ _)
      · dsimp only
        have hcalm := (steal_spec w dest src (min len c.rem)).1.calm
        split
        · exact hcalm
        · exact hcalm.trans (ih _ _ _ _)

theorem toTempfiles_calm : TTCalm toTempfiles := by
  intro w q
  unfold toTempfiles toTempfilesWith swInner
  dsimp only
  have h := swLoop_calm (toTemp := toTempStub) (fun w q => Calm.refl w) (swFuel w q q.length.toNat) w
    { q with chunks := [], bytesIn := q.bytesIn - (q.length.toNat : Int) } q q.length.toNat
  generalize swLoop toTempStub (swFuel w q q.length.toNat) w
    { q with chunks := [], bytesIn := q.bytesIn - (q.length.toNat : Int) } q q.length.toNat = r at h
  obtain ⟨w', d', s', ok⟩ := r
  exact h.trans (releaseAll_same w' s'.chunks).calm

/-! ## more fuel changes nothing -/

/-- chunkqueue_steal_with_tempfiles(): one more turn than `wsched.length +
    src.chunks.length + len + 1` is never used -/
theorem swLoop_mono {toTemp : World → Cq → World × Cq × Bool} (ht : TTCalm toTemp) (fuel : Nat) (w : World)
    (dest src : Cq) (len : Nat) (hf : w.wsched.length + src.chunks.length + len + 1 ≤ fuel) :
    swLoop toTemp (fuel + 1) w dest src len = swLoop toTemp fuel w dest src len := by
  induction fuel generalizing w dest src len with
  | zero => omega
  | succ fuel ih =>
    conv => lhs; rw [swLoop]
    conv => rhs; rw [swLoop]
    cases hsrc : src.chunks with
    | nil => rfl
    | cons c cs =>
      dsimp only
      by_cases hc : c.isMem = true
      · simp only [hc, ↓reduceIte]
        obtain ⟨a, b⟩ := cqmem_progress ht w dest c cs len hc
        by_cases hrc : (cqmemToTempfile toTemp w dest (c :: cs) len).rc < 0
        · simp only [hrc, ↓reduceIte]
        · simp only [hrc, ↓reduceIte]
          by_cases hz : len - (cqmemToTempfile toTemp w dest (c :: cs) len).rc.toNat = 0
          · simp only [hz, ↓reduceIte]
          · simp only [hz, ↓reduceIte]
            refine ih _ _ _ _ ?_
            have hlen : 0 < len := by omega
            have hmc := (markWritten_spec (cqmemToTempfile toTemp w dest (c :: cs) len).w src
              (cqmemToTempfile toTemp w dest (c :: cs) len).rc.toNat).1.calm
            have hmeq := markWritten_eq (cqmemToTempfile toTemp w dest (c :: cs) len).w src
              (cqmemToTempfile toTemp w dest (c :: cs) len).rc.toNat
            have h1 := hmc.wlen
            have h2 := a.wlen
            have h3 : (markWritten (cqmemToTempfile toTemp w dest (c :: cs) len).w src
                (cqmemToTempfile toTemp w dest (c :: cs) len).rc.toNat).2.chunks.length ≤ cs.length + 1 := by
              rw [hmeq]
              have := mwLoop_length (cqmemToTempfile toTemp w dest (c :: cs) len).w src.chunks
                (cqmemToTempfile toTemp w dest (c :: cs) len).rc.toNat
              simp only [hsrc, List.length_cons] at this ⊢
              exact this
            rw [hsrc] at hf
            simp only [List.length_cons] at hf
            rcases b (by omega) hlen with e | e | e
            · omega
            · omega
            · have h4 : (markWritten (cqmemToTempfile toTemp w dest (c :: cs) len).w src
                  (cqmemToTempfile toTemp w dest (c :: cs) len).rc.toNat).2.chunks.length ≤ cs.length := by
                rw [hmeq]
                simp only
                rw [hsrc]
                exact mwLoop_head_done _ _ _ _ (by omega)
              omega
      · have hc' : c.isMem = false := by cases h : c.isMem <;> simp_all
        simp only [hc', Bool.false_eq_true, ↓reduceIte]
        by_cases hz : len - min len c.rem = 0
        · simp only [hz, ↓reduceIte]
        · simp only [hz, ↓reduceIte]
          refine ih _ _ _ _ ?_
          have hsh := steal_head (w := w) (dest := dest) (src := src) len hsrc
          have hcalm := (steal_spec w dest src (min len c.rem)).1.calm
          have hle : c.rem ≤ len := by
            by_cases h : c.rem ≤ len
            · exact h
            · rw [Nat.min_eq_left (by omega)] at hz; omega
          have hsrc' : (steal w dest src (min len c.rem)).2.2.chunks = cs := by
            rw [hsh, if_pos hle]
          have h1 := hcalm.wlen
          rw [hsrc']
          rw [hsrc] at hf
          simp only [List.length_cons] at hf
          omega

theorem swLoop_fuel {toTemp : World → Cq → World × Cq × Bool} (ht : TTCalm toTemp) (fuel k : Nat) (w : World)
    (dest src : Cq) (len : Nat) (hf : w.wsched.length + src.chunks.length + len + 1 ≤ fuel) :
    swLoop toTemp (fuel + k) w dest src len = swLoop toTemp fuel w dest src len := by
  induction k with
  | zero => rfl
  | succ k ih => rw [← Nat.add_assoc, swLoop_mono ht (fuel + k) w dest src len (by omega), ih]

theorem tempfileErr_noretry (w : World) (q : Cq) : (tempfileErr w q false).2.2 = false := by
  have hb : bumpDir w q false = (q, false) := by simp [bumpDir]
  unfold tempfileErr
  rw [hb]

/-- chunkqueue_append_mem_to_tempfile(): one more turn than `wsched.length + 1`
    is never used -/
theorem mtLoop_mono (fuel : Nat) (w : World) (q : Cq) (d : Bytes) (hf : w.wsched.length + 1 ≤ fuel) :
    mtLoop (fuel + 1) w q d = mtLoop fuel w q d := by
  induction fuel generalizing w q d with
  | zero => omega
  | succ fuel ih =>
    conv => lhs; rw [mtLoop]
    conv => rhs; rw [mtLoop]
    have hg := (getAppendTempfile_calm w q).wlen
    generalize getAppendTempfile w q = r at hg ⊢
    obtain ⟨w1, q1, ok⟩ := r
    simp only at hg
    cases ok with
    | false => rfl
    | true =>
      dsimp only
      by_cases hd : d.length = 0
      · simp only [hd, ↓reduceIte]
      · simp only [hd, ↓reduceIte]
        have hshrink : ∀ g, effFault q1 (popW w1).2 = g → g ≠ .ok → g ≠ .eio →
            (popW w1).1.wsched.length + 1 ≤ fuel := by
          intro g hg1 hg2 hg3
          have := popW_len (effFault_ok_src hg1 hg2 hg3)
          omega
        cases hef : effFault q1 (popW w1).2 with
        | ok => rfl
        | short n =>
          dsimp only
          by_cases hn : n ≥ d.length
          · simp only [hn, ↓reduceIte]
          · simp only [hn, ↓reduceIte]
            refine ih _ _ _ ?_
            rw [(writeLast_calm _ _ _).2]
            exact hshrink _ hef (by simp) (by simp)
        | eintr =>
          dsimp only
          exact ih _ _ _ (hshrink _ hef (by simp) (by simp))
        | enospc =>
          dsimp only
          have hc := (tempfileErr_calm (popW w1).1 q1 true).wlen
          generalize tempfileErr (popW w1).1 q1 true = r at hc ⊢
          obtain ⟨w2, q2, retry⟩ := r
          simp only at hc
          cases retry with
          | false => rfl
          | true =>
            dsimp only
            refine ih _ _ _ ?_
            have := hshrink _ hef (by simp) (by simp)
            omega
        | eio =>
          dsimp only
          have hc := tempfileErr_noretry (popW w1).1 q1
          generalize tempfileErr (popW w1).1 q1 false = r at hc ⊢
          obtain ⟨w2, q2, retry⟩ := r
          simp only at hc
          subst hc
          rfl

theorem mtLoop_fuel (fuel k : Nat) (w : World) (q : Cq) (d : Bytes) (hf : w.wsched.length + 1 ≤ fuel) :
    mtLoop (fuel + k) w q d = mtLoop fuel w q d := by
  induction k with
  | zero => rfl
  | succ k ih => rw [← Nat.add_assoc, mtLoop_mono (fuel + k) w q d (by omega), ih]

end LtVerif.Cq
