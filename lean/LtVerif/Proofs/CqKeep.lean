/-
  C17 — what a failed spill keeps.  The only path on which a failed
  chunkqueue_steal_with_tempfiles() / chunkqueue_append_mem_to_tempfile() drops
  bytes the destination already held is chunkqueue_to_tempfiles() (it releases
  its private copy of the queue).  That function is entered only for MEM chunks
  of the destination.  Here: when the destination holds no MEM chunk the total
  number of queued bytes is conserved by every run of the loops, successful or
  not (counter arithmetic only; together with the prefix property of
  `c17_fault_safe` this makes the failed transfer exact).
-/
import LtVerif.Proofs.CqFuel
namespace LtVerif.Cq

/-- counters unchanged, no MEM chunk introduced -/
structure Keeps (q q' : Cq) : Prop where
  bin : q'.bytesIn = q.bytesIn
  bout : q'.bytesOut = q.bytesOut
  nomem : NoMem q.chunks → NoMem q'.chunks

theorem Keeps.refl (q : Cq) : Keeps q q := ⟨rfl, rfl, id⟩

theorem Keeps.trans {a b c : Cq} (h1 : Keeps a b) (h2 : Keeps b c) : Keeps a c :=
  ⟨h2.bin.trans h1.bin, h2.bout.trans h1.bout, fun h => h2.nomem (h1.nomem h)⟩

theorem Keeps.len {q q' : Cq} (h : Keeps q q') : q'.length = q.length := by
  simp only [Cq.length, h.bin, h.bout]

theorem noMem_push {cs : List Chunk} {fid off len : Nat} {t : Bool} {fd : Fd} (h : NoMem cs) :
    NoMem (cs ++ [Chunk.file fid off len t fd]) := h.append (NoMem.single rfl)

/-- `true` from get_append_(new)tempfile: the last chunk is a file chunk -/
def LastFile (q : Cq) : Prop := ∃ fid off len t fd, q.chunks.getLast? = some (Chunk.file fid off len t fd)

theorem newTempfile_keeps (w : World) (q : Cq) :
    Keeps q (newTempfile w q).2.1 ∧ ((newTempfile w q).2.2 = true → LastFile (newTempfile w q).2.1) := by
  unfold newTempfile
  split
  · split
    · exact ⟨⟨rfl, rfl, fun h => noMem_push h⟩, fun _ => ⟨_, _, _, _, _, getLast_append_single _ _⟩⟩
    · exact ⟨⟨rfl, rfl, id⟩, fun h => by cases h⟩
  · generalize popM w = p
    obtain ⟨w1, f⟩ := p
    dsimp only
    split
    · exact ⟨⟨rfl, rfl, id⟩, fun h => by cases h⟩
    · exact ⟨⟨rfl, rfl, fun h => noMem_push h⟩, fun _ => ⟨_, _, _, _, _, getLast_append_single _ _⟩⟩

theorem getAppendTempfile_keeps (w : World) (q : Cq) :
    Keeps q (getAppendTempfile w q).2.1 ∧
      ((getAppendTempfile w q).2.2 = true → LastFile (getAppendTempfile w q).2.1) := by
  unfold getAppendTempfile
  split
  · rename_i fid off len fd hl
    split
    · split
      · exact ⟨Keeps.refl q, fun _ => ⟨_, _, _, _, _, hl⟩⟩
      · obtain ⟨a, b⟩ := newTempfile_keeps (w.closeFd fid)
          { q with chunks := setLast q.chunks (.file fid off len true .none) }
        refine ⟨⟨a.bin, a.bout, fun h => a.nomem (h.setLast rfl)⟩, b⟩
    · exact newTempfile_keeps w q
  · exact newTempfile_keeps w q

theorem dropOrCloseLast_keeps (w : World) (q : Cq) : Keeps q (dropOrCloseLast w q).2 := by
  obtain ⟨hm, _⟩ := dropOrCloseLast_mem w q
  have hcnt : (dropOrCloseLast w q).2.bytesIn = q.bytesIn ∧ (dropOrCloseLast w q).2.bytesOut = q.bytesOut := by
    unfold dropOrCloseLast
    split
    · split
      · unfold removeEmpty
        generalize rfLoop w q.chunks = r
        obtain ⟨w1, cs1⟩ := r
        dsimp only
        split
        · exact ⟨rfl, rfl⟩
        · rename_i c rest
          generalize reLoop w1 c rest = r2
          obtain ⟨w2, cs2⟩ := r2
          exact ⟨rfl, rfl⟩
      · split
        · split <;> exact ⟨rfl, rfl⟩
        · exact ⟨rfl, rfl⟩
    · exact ⟨rfl, rfl⟩
  refine ⟨hcnt.1, hcnt.2, fun h c hc => ?_⟩
  rcases hm c hc with h' | ⟨fid, off, len, h'⟩
  · exact h c h'
  · subst h'; rfl

theorem tempfileErr_keeps (w : World) (q : Cq) (e : Bool) : Keeps q (tempfileErr w q e).2.1 := by
  unfold tempfileErr
  have hb : Keeps q (bumpDir w q e).1 := by
    unfold bumpDir
    split
    · exact ⟨rfl, rfl, id⟩
    · exact Keeps.refl q
  have := dropOrCloseLast_keeps w (bumpDir w q e).1
  generalize dropOrCloseLast w (bumpDir w q e).1 = r at this
  obtain ⟨a, b⟩ := r
  exact hb.trans this

theorem growLast_len {q : Cq} (n : Nat) (hl : LastFile q) :
    (growLast q n).bytesIn = q.bytesIn + n ∧ (growLast q n).bytesOut = q.bytesOut ∧
      (NoMem q.chunks → NoMem (growLast q n).chunks) ∧ LastFile (growLast q n) := by
  obtain ⟨fid, off, len, t, fd, h⟩ := hl
  unfold growLast
  rw [h]
  exact ⟨rfl, rfl, fun hn => hn.setLast rfl, ⟨_, _, _, _, _, getLast_setLast _ _⟩⟩

/-! ### append_mem_to_tempfile: the queue never shrinks -/

theorem mtLoop_keeps (fuel : Nat) (w : World) (q : Cq) (d : Bytes) :
    q.length ≤ (mtLoop fuel w q d).2.1.length := by
  induction fuel generalizing w q d with
  | zero => exact Int.le_refl _
  | succ fuel ih =>
    rw [mtLoop]
    obtain ⟨gk, gl⟩ := getAppendTempfile_keeps w q
    generalize getAppendTempfile w q = r at gk gl
    obtain ⟨w1, q1, ok⟩ := r
    simp only at gk gl
    cases ok with
    | false => dsimp only; rw [gk.len]; exact Int.le_refl _
    | true =>
      dsimp only
      have hl := gl rfl
      have hg : ∀ n, q.length ≤ (growLast q1 n).length := by
        intro n
        obtain ⟨a, b, _, _⟩ := growLast_len n hl
        simp only [Cq.length, a, b, gk.bin, gk.bout]
        omega
      split
      · rw [gk.len]; exact Int.le_refl _
      · cases effFault q1 (popW w1).2 with
        | ok => exact hg _
        | short n =>
          dsimp only
          split
          · exact hg _
          · exact Int.le_trans (hg n) (ih _ _ _)
        | eintr =>
          dsimp only
          have := ih (popW w1).1 q1 d
          rw [gk.len] at this
          exact this
        | enospc =>
          dsimp only
          have hk := tempfileErr_keeps (popW w1).1 q1 true
          generalize tempfileErr (popW w1).1 q1 true = r at hk ⊢
          obtain ⟨w2, q2, retry⟩ := r
          simp only at hk
          cases retry with
          | false => dsimp only; rw [hk.len, gk.len]; exact Int.le_refl _
          | true =>
            dsimp only
            have := ih w2 q2 d
            rw [hk.len, gk.len] at this
            exact this
        | eio =>
          dsimp only
          have hk := tempfileErr_keeps (popW w1).1 q1 false
          generalize tempfileErr (popW w1).1 q1 false = r at hk ⊢
          obtain ⟨w2, q2, retry⟩ := r
          simp only at hk
          cases retry with
          | false => dsimp only; rw [hk.len, gk.len]; exact Int.le_refl _
          | true =>
            dsimp only
            have := ih w2 q2 d
            rw [hk.len, gk.len] at this
            exact this

theorem firstIsMem_noMem {q : Cq} (h : NoMem q.chunks) : firstIsMem q = false := by
  unfold firstIsMem firstIsMemL
  split
  · rename_i c _ heq
    exact h c (by rw [heq]; exact List.mem_cons_self ..)
  · rfl

theorem appendMemToTempfile_keeps (w : World) (q : Cq) (d : Bytes) (h : NoMem q.chunks) :
    q.length ≤ (appendMemToTempfile w q d).2.1.length := by
  unfold appendMemToTempfile
  rw [firstIsMem_noMem h]
  simp only [Bool.false_eq_true, if_false]
  exact mtLoop_keeps _ w q d

/-! ### steal_with_tempfiles: total length conserved when dest holds no MEM chunk -/

/-- bytes the call took from src -/
def took (rc : Int) : Int := if 0 ≤ rc then rc else 0

theorem cqmemWrite_keeps {toTemp : World → Cq → World × Cq × Bool} (w : World) (dest : Cq) (sbytes : Bytes)
    (hn : NoMem dest.chunks) (hl : LastFile dest) :
    NoMem (cqmemWrite toTemp w dest [] sbytes).dest.chunks ∧
      (cqmemWrite toTemp w dest [] sbytes).dest.length =
        dest.length + took (cqmemWrite toTemp w dest [] sbytes).rc := by
  have hgrow : ∀ (W : World) (n : Nat),
      NoMem (cqmemWritten toTemp W (growLast dest n) ([] : Bytes).length n).dest.chunks ∧
      (cqmemWritten toTemp W (growLast dest n) ([] : Bytes).length n).dest.length =
        dest.length + took (cqmemWritten toTemp W (growLast dest n) ([] : Bytes).length n).rc := by
    intro W n
    obtain ⟨a, b, c, _⟩ := growLast_len n hl
    unfold cqmemWritten
    simp only [List.length_nil, ↓reduceIte]
    refine ⟨c hn, ?_⟩
    simp only [Cq.length, a, b, took]
    rw [if_pos (Int.natCast_nonneg _)]
    omega
  have herr : ∀ e, NoMem (match tempfileErr (popW w).1 dest e with
        | (w, dest, retry) => ({ w := w, dest := dest, rc := if retry then 0 else -1 } : SwOut)).dest.chunks ∧
      (match tempfileErr (popW w).1 dest e with
        | (w, dest, retry) => ({ w := w, dest := dest, rc := if retry then 0 else -1 } : SwOut)).dest.length =
        dest.length + took (match tempfileErr (popW w).1 dest e with
        | (w, dest, retry) => ({ w := w, dest := dest, rc := if retry then 0 else -1 } : SwOut)).rc := by
    intro e
    have hk := tempfileErr_keeps (popW w).1 dest e
    generalize tempfileErr (popW w).1 dest e = r at hk
    obtain ⟨w2, q2, retry⟩ := r
    simp only at hk ⊢
    refine ⟨hk.nomem hn, ?_⟩
    rw [hk.len]
    cases retry <;> simp [took]
  unfold cqmemWrite
  dsimp only
  cases effFault dest (popW w).2 with
  | ok => exact hgrow _ _
  | short n => exact hgrow _ _
  | eintr => exact ⟨hn, by simp [took]⟩
  | enospc => exact herr true
  | eio => exact herr false

theorem cqmemPre_noMem {toTemp : World → Cq → World × Cq × Bool} (w : World) (dest : Cq) (hn : NoMem dest.chunks) :
    cqmemPre toTemp w dest = (w, dest, true, [], 0) := by
  unfold cqmemPre
  dsimp only
  rw [leadingMem_noMem hn]
  simp [absChunks]

theorem cqmem_keeps {toTemp : World → Cq → World × Cq × Bool} (w : World) (dest : Cq) (c : Chunk)
    (rest : List Chunk) (len : Nat) (hc : c.isMem = true) (hn : NoMem dest.chunks) :
    NoMem (cqmemToTempfile toTemp w dest (c :: rest) len).dest.chunks ∧
      (cqmemToTempfile toTemp w dest (c :: rest) len).dest.length =
        dest.length + took (cqmemToTempfile toTemp w dest (c :: rest) len).rc := by
  unfold cqmemToTempfile
  rw [cqmemPre_noMem w dest hn]
  dsimp only
  have hfm : firstIsMemL (c :: rest) = true := hc
  rw [hfm]
  simp only [Bool.not_true, Bool.and_false, Bool.false_eq_true, if_false]
  obtain ⟨gk, gl⟩ := getAppendTempfile_keeps w dest
  generalize getAppendTempfile w dest = r at gk gl
  obtain ⟨w1, q1, ok⟩ := r
  simp only at gk gl
  cases ok with
  | false =>
    dsimp only
    exact ⟨gk.nomem hn, by rw [gk.len]; simp [took]⟩
  | true =>
    dsimp only
    obtain ⟨a, b⟩ := cqmemWrite_keeps (toTemp := toTemp) w1 q1 (gatherSrc (c :: rest) (16 - 0) len) (gk.nomem hn) (gl rfl)
    exact ⟨a, by rw [b, gk.len]⟩

theorem steal_keeps {w : World} {dest src : Cq} {c : Chunk} {cs : List Chunk} (len : Nat)
    (heq : src.chunks = c :: cs) (hc : c.isMem = false) :
    (steal w dest src (min len c.rem)).2.1.length + (steal w dest src (min len c.rem)).2.2.length =
      dest.length + src.length := by
  rw [steal_head len heq]
  split
  · dsimp only
    unfold moveChunk
    split
    · simp only [pushChunk, Cq.length]; omega
    · rename_i h0
      have : c.rem = 0 := by omega
      simp only [Cq.length, this]; omega
  · dsimp only
    cases c with
    | mem d off cap => cases hc
    | file fid off l t fd =>
      simp only [stealPartial]
      split
      · simp only [pushChunk, Cq.length]; omega
      · rename_i h0
        have : len = 0 := by omega
        simp only [Cq.length, this]; omega

theorem swLoop_keeps {toTemp : World → Cq → World × Cq × Bool} (fuel : Nat) (w : World) (dest src : Cq) (len : Nat)
    (hn : NoMem dest.chunks) :
    (swLoop toTemp fuel w dest src len).2.1.length + (swLoop toTemp fuel w dest src len).2.2.1.length =
      dest.length + src.length := by
  induction fuel generalizing w dest src len with
  | zero => rfl
  | succ fuel ih =>
    rw [swLoop]
    cases hsrc : src.chunks with
    | nil => rfl
    | cons c cs =>
      dsimp only
      by_cases hc : c.isMem = true
      · simp only [hc, ↓reduceIte]
        obtain ⟨a, b⟩ := cqmem_keeps (toTemp := toTemp) w dest c cs len hc hn
        by_cases hrc : (cqmemToTempfile toTemp w dest (c :: cs) len).rc < 0
        · simp only [hrc, ↓reduceIte]
          rw [b]
          simp only [took]
          rw [if_neg (by omega)]
          omega
        · simp only [hrc, ↓reduceIte]
          have hmeq := markWritten_eq (cqmemToTempfile toTemp w dest (c :: cs) len).w src
            (cqmemToTempfile toTemp w dest (c :: cs) len).rc.toNat
          have hml : (markWritten (cqmemToTempfile toTemp w dest (c :: cs) len).w src
              (cqmemToTempfile toTemp w dest (c :: cs) len).rc.toNat).2.length =
              src.length - (cqmemToTempfile toTemp w dest (c :: cs) len).rc := by
            rw [hmeq]
            simp only [Cq.length]
            have : (((cqmemToTempfile toTemp w dest (c :: cs) len).rc.toNat : Nat) : Int) =
                (cqmemToTempfile toTemp w dest (c :: cs) len).rc := Int.toNat_of_nonneg (by omega)
            omega
          have hb : (cqmemToTempfile toTemp w dest (c :: cs) len).dest.length =
              dest.length + (cqmemToTempfile toTemp w dest (c :: cs) len).rc := by
            rw [b]; simp only [took]; rw [if_pos (by omega)]
          by_cases hz : len - (cqmemToTempfile toTemp w dest (c :: cs) len).rc.toNat = 0
          · simp only [hz, ↓reduceIte]
            rw [hml, hb]; omega
          · simp only [hz, ↓reduceIte]
            rw [ih _ _ _ _ a, hml, hb]; omega
      · have hc' : c.isMem = false := by cases h : c.isMem <;> simp_all
        simp only [hc', Bool.false_eq_true, ↓reduceIte]
        have hk := steal_keeps (w := w) (dest := dest) len hsrc hc'
        have hds : DestStep dest (steal w dest src (min len c.rem)).2.1 c := by
          rw [steal_head len hsrc]
          split
          · exact moveChunk_dest w dest c hc'
          · exact stealPartial_dest w dest c len hc'
        by_cases hz : len - min len c.rem = 0
        · simp only [hz, ↓reduceIte]
          exact hk
        · simp only [hz, ↓reduceIte]
          rw [ih _ _ _ _ (hds.nomem hn)]
          exact hk

theorem stealWithTempfiles_keeps (w : World) (dest src : Cq) (len : Nat) (hn : NoMem dest.chunks) :
    (stealWithTempfiles w dest src len).2.1.length + (stealWithTempfiles w dest src len).2.2.1.length =
      dest.length + src.length :=
  swLoop_keeps _ w dest src len hn

end LtVerif.Cq
