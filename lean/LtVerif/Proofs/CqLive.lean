/-
  C17 — retryable write results never surface as an error.  A schedule is
  benign when every scripted write result is ok, a short write, EINTR or ENOSPC
  (EIO excluded) and no mkostemp() fails; the queue is good when, in addition,
  it has more upload dirs left than there are ENOSPC results to come.  Under
  these conditions the temp-file append loops do not fail (in particular their
  iteration bounds `fuel` suffice).
-/
import LtVerif.Proofs.Cq
namespace LtVerif.Cq

def WFault.retryable : WFault → Bool
  | .eio => false
  | _ => true

/-- scripted ENOSPC results still to come -/
def countE (l : List WFault) : Nat := l.count .enospc

theorem countE_suffix {a b : List WFault} (h : a <:+ b) : countE a ≤ countE b :=
  List.Sublist.count_le _ h.sublist

/-- an upload dir is left for every ENOSPC to come (`$TMPDIR` only: none may come) -/
def DirOK (w : World) (q : Cq) : Prop :=
  (w.ndirs = 0 ∧ countE w.wsched = 0) ∨ q.tdIdx + countE w.wsched < w.ndirs

theorem DirOK.now {w : World} {q : Cq} (h : DirOK w q) : w.ndirs = 0 ∨ q.tdIdx < w.ndirs := by
  rcases h with h | h
  · exact Or.inl h.1
  · exact Or.inr (by omega)

theorem DirOK.calm {w w' : World} {q q' : Cq} (h : DirOK w q) (hc : Calm w w') (ht : q'.tdIdx = q.tdIdx) :
    DirOK w' q' := by
  have := countE_suffix hc.ws
  unfold DirOK
  rw [hc.nd, ht]
  rcases h with h | h
  · exact Or.inl ⟨h.1, by omega⟩
  · exact Or.inr (by omega)

/-- a temp chunk that holds a read-only descriptor (a closed temp file re-opened
    by a reader) cannot be appended to: excluded -/
def Chunk.wr : Chunk → Prop
  | .file _ _ _ true .ro => False
  | _ => True

def AllWr (cs : List Chunk) : Prop := ∀ c ∈ cs, c.wr

structure Benign (w : World) : Prop where
  ws : ∀ f ∈ w.wsched, WFault.retryable f = true
  ms : ∀ b ∈ w.msched, b = false

theorem Calm.wlen {w w' : World} (h : Calm w w') : w'.wsched.length ≤ w.wsched.length := h.ws.length_le

theorem Benign.calm {w w' : World} (h : Benign w) (c : Calm w w') : Benign w' :=
  ⟨fun f hf => h.ws f (c.ws.subset hf), fun b hb => h.ms b (c.ms.subset hb)⟩

/-- benign schedule, upload dirs left to use, no read-only temp chunk -/
structure Good (w : World) (q : Cq) : Prop where
  ben : Benign w
  dir : DirOK w q
  wr : AllWr q.chunks

theorem Good.calm {w w' : World} {q q' : Cq} (h : Good w q) (hc : Calm w w') (ht : q'.tdIdx = q.tdIdx)
    (hw : AllWr q'.chunks) : Good w' q' :=
  ⟨h.ben.calm hc, h.dir.calm hc ht, hw⟩

theorem popM_benign {w : World} (h : Benign w) : (popM w).2 = false := by
  unfold popM
  split
  · rfl
  · rename_i f t hm
    exact h.ms f (by rw [hm]; exact List.mem_cons_self ..)

theorem popW_cases (w : World) :
    (w.wsched = [] ∧ popW w = (w, .ok)) ∨
      (∃ f t, w.wsched = f :: t ∧ popW w = ({ w with wsched := t }, f)) := by
  unfold popW
  split
  · rename_i h; exact Or.inl ⟨h, rfl⟩
  · rename_i f t h; exact Or.inr ⟨f, t, h, rfl⟩

theorem popW_retryable {w : World} (h : Benign w) : WFault.retryable (popW w).2 = true := by
  rcases popW_cases w with ⟨_, e⟩ | ⟨f, t, hw, e⟩
  · rw [e]; rfl
  · rw [e]; exact h.ws f (by rw [hw]; exact List.mem_cons_self ..)

theorem AllWr.append {a b : List Chunk} (ha : AllWr a) (hb : AllWr b) : AllWr (a ++ b) := by
  intro c hc
  rcases List.mem_append.mp hc with h | h
  · exact ha c h
  · exact hb c h

theorem AllWr.dropLast {a : List Chunk} (ha : AllWr a) : AllWr a.dropLast :=
  fun c hc => ha c (List.dropLast_subset _ hc)

theorem AllWr.single {c : Chunk} (h : c.wr) : AllWr [c] := by
  intro x hx
  cases hx with
  | head => exact h
  | tail _ h => cases h

theorem AllWr.setLast {a : List Chunk} {c : Chunk} (ha : AllWr a) (hc : c.wr) : AllWr (setLast a c) :=
  AllWr.append ha.dropLast (AllWr.single hc)

theorem getLast_setLast (a : List Chunk) (c : Chunk) : (setLast a c).getLast? = some c := by
  simp [setLast]

theorem getLast_append_single (a : List Chunk) (c : Chunk) : (a ++ [c]).getLast? = some c := by
  simp

/-- what chunkqueue_get_append_tempfile() returns under a benign schedule: a
    writable temp chunk at the end of the queue -/
structure GatPost (w : World) (q : Cq) (w' : World) (q' : Cq) : Prop where
  calm : Calm w w'
  ws : w'.wsched = w.wsched
  td : q'.tdIdx = q.tdIdx
  wr : AllWr q'.chunks
  last : ∃ fid off len fd, q'.chunks.getLast? = some (.file fid off len true fd) ∧ fd.isOpen = true ∧ fd ≠ .ro
  nomem : (∀ c ∈ q.chunks, c.isMem = false) → ∀ c ∈ q'.chunks, c.isMem = false

theorem newTempfile_good {w : World} {q : Cq} (hb : Benign w) (hd : w.ndirs = 0 ∨ q.tdIdx < w.ndirs)
    (hw : AllWr q.chunks) :
    (newTempfile w q).2.2 = true ∧ GatPost w q (newTempfile w q).1 (newTempfile w q).2.1 := by
  have hpm := popM_benign hb
  have hpc : Calm w (popM w).1 := (popM_same w).calm
  have hpw : (popM w).1.wsched = w.wsched := by unfold popM; split <;> rfl
  have hnew : ∀ fid, AllWr (q.chunks ++ [Chunk.file fid 0 0 true .rw]) :=
    fun fid => AllWr.append hw (AllWr.single trivial)
  have hnm : ∀ fid, (∀ c ∈ q.chunks, c.isMem = false) →
      ∀ c ∈ q.chunks ++ [Chunk.file fid 0 0 true .rw], c.isMem = false := by
    intro fid h c hc
    rcases List.mem_append.mp hc with h1 | h1
    · exact h c h1
    · simp only [List.mem_singleton] at h1; subst h1; rfl
  unfold newTempfile
  split
  · rename_i hnd
    have hlt : q.tdIdx < w.ndirs := by rcases hd with h | h <;> omega
    have hfuel : w.ndirs - q.tdIdx + 1 = (w.ndirs - q.tdIdx) + 1 := rfl
    rw [hfuel]
    simp only [mkstempDirs, if_pos hlt]
    generalize hp : popM w = p at hpm hpc hpw
    obtain ⟨w1, f⟩ := p
    simp only at hpm hpc hpw
    subst hpm
    simp only [Bool.false_eq_true, if_false, createTemp]
    exact ⟨trivial, ⟨hpc.trans ⟨List.suffix_refl _, List.suffix_refl _, rfl, rfl⟩, hpw, rfl, hnew _,
      ⟨_, 0, 0, .rw, getLast_append_single _ _, rfl, by decide⟩, hnm _⟩⟩
  · generalize hp : popM w = p at hpm hpc hpw
    obtain ⟨w1, f⟩ := p
    simp only at hpm hpc hpw
    subst hpm
    simp only [Bool.false_eq_true, if_false, createTemp]
    exact ⟨trivial, ⟨hpc.trans ⟨List.suffix_refl _, List.suffix_refl _, rfl, rfl⟩, hpw, rfl, hnew _,
      ⟨_, 0, 0, .rw, getLast_append_single _ _, rfl, by decide⟩, hnm _⟩⟩

theorem Benign.closeFd {w : World} (h : Benign w) (fid : Nat) : Benign (w.closeFd fid) :=
  h.calm (closeFd_same w fid).calm

theorem getAppendTempfile_good {w : World} {q : Cq} (hg : Good w q) :
    (getAppendTempfile w q).2.2 = true ∧ GatPost w q (getAppendTempfile w q).1 (getAppendTempfile w q).2.1 := by
  unfold getAppendTempfile
  split
  · rename_i fid off len fd hl
    split
    · rename_i hopen
      split
      · refine ⟨rfl, ⟨Calm.refl w, rfl, rfl, hg.wr, ⟨fid, off, len, fd, hl, hopen, ?_⟩, fun h => h⟩⟩
        intro hro
        subst hro
        have hm : Chunk.file fid off len true .ro ∈ q.chunks := by
          obtain ⟨ys, e⟩ := List.getLast?_eq_some_iff.mp hl
          rw [e]; simp
        exact hg.wr _ hm
      · have hc := (closeFd_same w fid).calm
        have := newTempfile_good (w := w.closeFd fid)
          (q := { q with chunks := setLast q.chunks (.file fid off len true .none) })
          (hg.ben.closeFd fid) (by rw [hc.nd]; exact hg.dir.now) (hg.wr.setLast trivial)
        obtain ⟨a, b⟩ := this
        refine ⟨a, ⟨hc.trans b.calm, b.ws, b.td, b.wr, b.last, fun h => b.nomem ?_⟩⟩
        intro c hc'
        rcases List.mem_append.mp hc' with h1 | h1
        · exact h c (List.dropLast_subset _ h1)
        · simp only [List.mem_singleton] at h1; subst h1; rfl
    · exact newTempfile_good hg.ben hg.dir.now hg.wr
  · exact newTempfile_good hg.ben hg.dir.now hg.wr

theorem lastReadOnly_false {q : Cq} {fid off len : Nat} {fd : Fd}
    (hl : q.chunks.getLast? = some (.file fid off len true fd)) (hro : fd ≠ .ro) : lastReadOnly q = false := by
  unfold lastReadOnly
  rw [hl]
  cases fd <;> simp_all

theorem effFault_id {q : Cq} (h : lastReadOnly q = false) (f : WFault) : effFault q f = f := by
  cases f <;> simp [effFault, h]

theorem writeLast_calm (w : World) (q : Cq) (d : Bytes) :
    Calm w (writeLast w q d) ∧ (writeLast w q d).wsched = w.wsched := by
  unfold writeLast
  split
  · exact ⟨⟨List.suffix_refl _, List.suffix_refl _, rfl, rfl⟩, rfl⟩
  · exact ⟨Calm.refl w, rfl⟩

theorem growLast_file {q : Cq} {fid off len : Nat} {t : Bool} {fd : Fd} (n : Nat)
    (hl : q.chunks.getLast? = some (.file fid off len t fd)) :
    (growLast q n).chunks = setLast q.chunks (.file fid off (len + n) t fd) ∧ (growLast q n).tdIdx = q.tdIdx := by
  unfold growLast
  rw [hl]
  exact ⟨rfl, rfl⟩

/-- Good after the temp chunk got, and grew by, some bytes -/
theorem good_grow {w w0 w' : World} {q q' : Cq} (hg : Good w0 q) (hp : GatPost w0 q w q') (hc : Calm w w') (n : Nat) :
    Good w' (growLast q' n) := by
  obtain ⟨fid, off, len, fd, hl, ho, hro⟩ := hp.last
  obtain ⟨e1, e2⟩ := growLast_file n hl
  have hcc := hp.calm.trans hc
  refine hg.calm hcc (by rw [e2, hp.td]) ?_
  rw [e1]
  refine hp.wr.setLast ?_
  cases fd <;> first | trivial | exact absurd rfl hro

/-! ### ENOSPC with another upload dir left: chunkqueue_append_tempfile_err() says retry -/

theorem rfLoop_mem (w : World) (cs : List Chunk) : ∀ x ∈ (rfLoop w cs).2, x ∈ cs := by
  fun_induction rfLoop w cs with
  | case1 w => intro x hx; exact hx
  | case2 w c cs h0 ih => intro x hx; exact List.mem_cons_of_mem _ (ih x hx)
  | case3 w c cs h0 => intro x hx; exact hx

theorem reLoop_mem (w : World) (c : Chunk) (cs : List Chunk) : ∀ x ∈ (reLoop w c cs).2, x ∈ c :: cs := by
  fun_induction reLoop w c cs with
  | case1 w c => intro x hx; exact hx
  | case2 w c c1 h0 =>
    intro x hx
    simp only [List.mem_singleton] at hx
    subst hx
    exact List.mem_cons_self ..
  | case3 w c c1 h0 c2 cs w1 cs1 heq ih =>
    intro x hx
    rw [heq] at ih
    simp only [List.mem_cons] at hx ih ⊢
    rcases hx with hx | hx
    · exact Or.inl hx
    · rcases ih x hx with h | h
      · exact Or.inr (Or.inr (Or.inl h))
      · exact Or.inr (Or.inr (Or.inr h))
  | case4 w c c1 cs h0 w1 cs1 heq ih =>
    intro x hx
    rw [heq] at ih
    simp only [List.mem_cons] at hx ih ⊢
    rcases hx with hx | hx
    · exact Or.inl hx
    · exact Or.inr (ih x hx)

theorem removeEmpty_mem (w : World) (q : Cq) :
    (∀ x ∈ (removeEmpty w q).2.chunks, x ∈ q.chunks) ∧ (removeEmpty w q).2.tdIdx = q.tdIdx := by
  unfold removeEmpty
  have h1 := rfLoop_mem w q.chunks
  generalize rfLoop w q.chunks = r at h1
  obtain ⟨w1, cs1⟩ := r
  dsimp only at h1 ⊢
  split
  · exact ⟨fun x hx => (by cases hx), rfl⟩
  · rename_i c rest
    have h2 := reLoop_mem w1 c rest
    generalize reLoop w1 c rest = r2 at h2
    obtain ⟨w2, cs2⟩ := r2
    exact ⟨fun x hx => h1 x (h2 x hx), rfl⟩

theorem dropOrCloseLast_mem (w : World) (q : Cq) :
    (∀ x ∈ (dropOrCloseLast w q).2.chunks, x ∈ q.chunks ∨ ∃ fid off len, x = Chunk.file fid off len true .none) ∧
      (dropOrCloseLast w q).2.tdIdx = q.tdIdx := by
  unfold dropOrCloseLast
  split
  · split
    · obtain ⟨a, b⟩ := removeEmpty_mem w q
      exact ⟨fun x hx => Or.inl (a x hx), b⟩
    · split
      · split
        · refine ⟨fun x hx => ?_, rfl⟩
          simp only [setLast] at hx
          rcases List.mem_append.mp hx with h | h
          · exact Or.inl (List.dropLast_subset _ h)
          · simp only [List.mem_singleton] at h
            exact Or.inr ⟨_, _, _, h⟩
        · exact ⟨fun x hx => Or.inl hx, rfl⟩
      · exact ⟨fun x hx => Or.inl hx, rfl⟩
  · exact ⟨fun x hx => Or.inl hx, rfl⟩

/-- ENOSPC was just consumed (the schedule of `w` is what is left) and the
    queue still had a dir for it: retry in the next dir -/
theorem tempfileErr_good {w : World} {q : Cq} (hb : Benign w) (hd : q.tdIdx + 1 + countE w.wsched < w.ndirs)
    (hw : AllWr q.chunks) :
    (tempfileErr w q true).2.2 = true ∧ Calm w (tempfileErr w q true).1 ∧
      Good (tempfileErr w q true).1 (tempfileErr w q true).2.1 ∧
      ((∀ c ∈ q.chunks, c.isMem = false) → ∀ c ∈ (tempfileErr w q true).2.1.chunks, c.isMem = false) := by
  have hnd : w.ndirs > 0 := by omega
  have hbump : bumpDir w q true = ({ q with tdIdx := q.tdIdx + 1 }, true) := by
    unfold bumpDir
    simp only [Bool.true_and, decide_eq_true_eq]
    rw [if_pos hnd]
    simp only [Prod.mk.injEq, decide_eq_true_eq, true_and]
    omega
  unfold tempfileErr
  rw [hbump]
  dsimp only
  have hc := (dropOrCloseLast_spec w { q with tdIdx := q.tdIdx + 1 }).1.calm
  obtain ⟨hm, ht⟩ := dropOrCloseLast_mem w { q with tdIdx := q.tdIdx + 1 }
  generalize dropOrCloseLast w { q with tdIdx := q.tdIdx + 1 } = r at hc hm ht
  obtain ⟨w', q'⟩ := r
  simp only at hc hm ht ⊢
  refine ⟨trivial, hc, ⟨hb.calm hc, ?_, ?_⟩, fun h c hcm => ?_⟩
  · have := countE_suffix hc.ws
    refine Or.inr ?_
    rw [ht, hc.nd]
    omega
  · intro x hx
    rcases hm x hx with h | ⟨fid, off, len, h⟩
    · exact hw x h
    · subst h; trivial
  · rcases hm c hcm with h' | ⟨fid, off, len, h'⟩
    · exact h c h'
    · subst h'; rfl

/-- the write loop of chunkqueue_append_mem_to_tempfile(): ok, short writes and
    EINTR are retried until everything is written; `wsched.length + 1` turns
    are enough -/
theorem mtLoop_good (fuel : Nat) (w : World) (q : Cq) (d : Bytes) (hf : w.wsched.length + 1 ≤ fuel)
    (hg : Good w q) : (mtLoop fuel w q d).2.2 = true := by
  induction fuel generalizing w q d with
  | zero => omega
  | succ fuel ih =>
    obtain ⟨hok, hp⟩ := getAppendTempfile_good hg
    unfold mtLoop
    generalize hgat : getAppendTempfile w q = r at hok hp
    obtain ⟨w1, q1, ok⟩ := r
    simp only at hok hp
    subst hok
    simp only
    split
    · rfl
    · obtain ⟨fid, off, len, fd, hl, ho, hro⟩ := hp.last
      have hlr := lastReadOnly_false hl hro
      have hb1 : Benign w1 := hg.ben.calm hp.calm
      have hret := popW_retryable hb1
      rw [effFault_id hlr]
      rcases popW_cases w1 with ⟨hnil, e⟩ | ⟨f, t, hw, e⟩
      · rw [e]
      · rw [e] at hret ⊢
        simp only at hret ⊢
        have hcw : Calm w1 { w1 with wsched := t } :=
          ⟨by rw [hw]; exact List.suffix_cons f t, List.suffix_refl _, rfl, rfl⟩
        have hlen : t.length + 1 ≤ fuel := by
          have := hp.ws
          rw [hw] at this
          have : w.wsched.length = t.length + 1 := by rw [← this]; rfl
          omega
        cases f with
        | ok => rfl
        | short n =>
          simp only
          split
          · rfl
          · obtain ⟨c1, c2⟩ := writeLast_calm { w1 with wsched := t } q1 (d.take n)
            exact ih _ _ _ (by rw [c2]; exact hlen) (good_grow hg hp (hcw.trans c1) n)
        | eintr =>
          simp only
          exact ih _ _ _ hlen (hg.calm (hp.calm.trans hcw) hp.td hp.wr)
        | enospc =>
          simp only
          have hdir : q1.tdIdx + 1 + countE t < w1.ndirs := by
            have hd := hg.dir.calm hp.calm hp.td
            unfold DirOK at hd
            rw [hw] at hd
            simp only [countE, List.count_cons_self] at hd ⊢
            omega
          obtain ⟨e1, e2, e3, _⟩ := tempfileErr_good (w := { w1 with wsched := t }) (q := q1) (hb1.calm hcw) hdir hp.wr
          generalize tempfileErr { w1 with wsched := t } q1 true = r at e1 e2 e3
          obtain ⟨w2, q2, retry⟩ := r
          simp only at e1 e2 e3
          subst e1
          simp only
          refine ih _ _ _ ?_ e3
          have := e2.wlen
          simp only at this
          omega
        | eio => cases hret

/-! ## steal_with_tempfiles under a benign schedule -/

def NoMem (cs : List Chunk) : Prop := ∀ c ∈ cs, c.isMem = false

theorem leadingMem_noMem {cs : List Chunk} (h : NoMem cs) : leadingMem cs = [] := by
  cases cs with
  | nil => rfl
  | cons c rest => simp [leadingMem, h c (List.mem_cons_self ..)]

theorem NoMem.append {a b : List Chunk} (ha : NoMem a) (hb : NoMem b) : NoMem (a ++ b) := by
  intro c hc
  rcases List.mem_append.mp hc with h | h
  · exact ha c h
  · exact hb c h

theorem NoMem.single {c : Chunk} (h : c.isMem = false) : NoMem [c] := by
  intro x hx
  cases hx with
  | head => exact h
  | tail _ h => cases h

theorem NoMem.setLast {a : List Chunk} {c : Chunk} (ha : NoMem a) (hc : c.isMem = false) : NoMem (setLast a c) :=
  NoMem.append (fun x hx => ha x (List.dropLast_subset _ hx)) (NoMem.single hc)

theorem Chunk.wr_adv {c : Chunk} (n : Nat) (h : c.wr) : (c.adv n).wr := by
  cases c with
  | mem d off cap => trivial
  | file fid off len t fd => cases t <;> cases fd <;> first | trivial | exact h

theorem mwLoop_wr (w : World) (cs : List Chunk) (n : Nat) (h : AllWr cs) : AllWr (mwLoop w cs n).2 := by
  fun_induction mwLoop w cs n with
  | case1 w x => exact h
  | case2 w c rest n hn ih => exact ih (fun x hx => h x (List.mem_cons_of_mem _ hx))
  | case3 w c rest n hn =>
    intro x hx
    cases hx with
    | head => exact Chunk.wr_adv n (h c (List.mem_cons_self ..))
    | tail _ hx => exact h x (List.mem_cons_of_mem _ hx)

theorem mwLoop_length (w : World) (cs : List Chunk) (n : Nat) : (mwLoop w cs n).2.length ≤ cs.length := by
  fun_induction mwLoop w cs n with
  | case1 w x => exact Nat.le_refl _
  | case2 w c rest n hn ih => exact Nat.le_succ_of_le ih
  | case3 w c rest n hn => exact Nat.le_refl _

theorem mwLoop_head_done (w : World) (c : Chunk) (rest : List Chunk) (n : Nat) (h : c.rem ≤ n) :
    (mwLoop w (c :: rest) n).2.length ≤ rest.length := by
  rw [mwLoop, if_pos h]
  exact mwLoop_length _ _ _

theorem markWritten_eq (w : World) (q : Cq) (n : Nat) :
    markWritten w q n = ((mwLoop w q.chunks n).1,
      { q with chunks := (mwLoop w q.chunks n).2, bytesOut := q.bytesOut + n }) := by
  unfold markWritten
  generalize mwLoop w q.chunks n = r
  obtain ⟨a, b⟩ := r
  rfl

theorem markWritten_good {w : World} {q : Cq} (n : Nat) (hb : Benign w) (hd : DirOK w q)
    (hw : AllWr q.chunks) :
    Calm w (markWritten w q n).1 ∧ Good (markWritten w q n).1 (markWritten w q n).2 := by
  have hc := (markWritten_spec w q n).1.calm
  rw [markWritten_eq] at hc ⊢
  exact ⟨hc, hb.calm hc, hd.calm hc rfl, mwLoop_wr _ _ _ hw⟩

/-- chunkqueue_to_tempfiles() (as a parameter of the loop) does not fail under a
    benign schedule -/
def TTGood (toTemp : World → Cq → World × Cq × Bool) : Prop :=
  ∀ w q, Good w q → (toTemp w q).2.2 = true ∧ Calm w (toTemp w q).1 ∧ Good (toTemp w q).1 (toTemp w q).2.1

def cqD1 (dest : Cq) (wr : Nat) : Cq :=
  { dest with chunks := dest.chunks.dropLast, bytesIn := dest.bytesIn - wr, bytesOut := dest.bytesOut - wr }

theorem cqmemPartial_good {toTemp : World → Cq → World × Cq × Bool} (ht : TTGood toTemp) {w : World}
    {dest : Cq} (wr : Nat) (hg : Good w dest) (hl : dest.chunks ≠ []) :
    (cqmemPartial toTemp w dest wr).rc = 0 ∧ Calm w (cqmemPartial toTemp w dest wr).w ∧
      Good (cqmemPartial toTemp w dest wr).w (cqmemPartial toTemp w dest wr).dest := by
  unfold cqmemPartial
  split
  · rename_i c hlast
    have hcm : c ∈ dest.chunks := by
      obtain ⟨ys, e⟩ := List.getLast?_eq_some_iff.mp hlast
      rw [e]; simp
    obtain ⟨mc, mg⟩ := markWritten_good (w := w) (q := cqD1 dest wr) wr hg.ben hg.dir hg.wr.dropLast
    have hg2 : Good (markWritten w (cqD1 dest wr) wr).1
        { (markWritten w (cqD1 dest wr) wr).2 with chunks := c :: (markWritten w (cqD1 dest wr) wr).2.chunks } := by
      refine ⟨mg.ben, mg.dir, ?_⟩
      intro x hx
      cases hx with
      | head => exact hg.wr c hcm
      | tail _ hx => exact mg.wr x hx
    obtain ⟨t1, t2, t3⟩ := ht _ _ hg2
    have key : ∀ r : World × Cq × Bool, r.2.2 = true → Calm (markWritten w (cqD1 dest wr) wr).1 r.1 → Good r.1 r.2.1 →
        (match r with
          | (w, dest, ok) => ({ w := w, dest := dest, rc := if ok then 0 else -1 } : SwOut)).rc = 0 ∧
        Calm w (match r with
          | (w, dest, ok) => ({ w := w, dest := dest, rc := if ok then 0 else -1 } : SwOut)).w ∧
        Good (match r with
          | (w, dest, ok) => ({ w := w, dest := dest, rc := if ok then 0 else -1 } : SwOut)).w
          (match r with
          | (w, dest, ok) => ({ w := w, dest := dest, rc := if ok then 0 else -1 } : SwOut)).dest := by
      rintro ⟨w', d', ok⟩ h1 h2 h3
      simp only at h1
      subst h1
      exact ⟨rfl, mc.trans h2, h3⟩
    exact key _ t1 t2 t3
  · rename_i hnone
    exact absurd (List.getLast?_eq_none_iff.mp hnone) hl

theorem cqmemWritten_good {toTemp : World → Cq → World × Cq × Bool} {w : World} {dest : Cq} (dlen wr : Nat)
    (hm : dlen = 0 ∨ TTGood toTemp) (hg : Good w dest) (hl : dest.chunks ≠ []) :
    0 ≤ (cqmemWritten toTemp w dest dlen wr).rc ∧ Calm w (cqmemWritten toTemp w dest dlen wr).w ∧
      Good (cqmemWritten toTemp w dest dlen wr).w (cqmemWritten toTemp w dest dlen wr).dest ∧
      (dlen = 0 → (cqmemWritten toTemp w dest dlen wr).dest = dest) ∧
      (dlen ≤ wr → (cqmemWritten toTemp w dest dlen wr).rc = ((wr - dlen : Nat) : Int)) := by
  unfold cqmemWritten
  split
  · rename_i h0
    subst h0
    exact ⟨Int.natCast_nonneg _, Calm.refl w, hg, fun _ => rfl, fun _ => rfl⟩
  · rename_i h0
    have ht := hm.resolve_left h0
    split
    · rename_i hlt
      obtain ⟨a, b, c⟩ := cqmemPartial_good ht wr hg hl
      exact ⟨by rw [a]; exact Int.le_refl _, b, c, fun h => absurd h h0, fun h => by omega⟩
    · obtain ⟨mc, mg⟩ := markWritten_good (w := w)
        (q := { dest with bytesIn := dest.bytesIn - dlen, bytesOut := dest.bytesOut - dlen }) dlen hg.ben hg.dir hg.wr
      exact ⟨Int.natCast_nonneg _, mc, mg, fun h => absurd h h0, fun _ => rfl⟩

theorem growLast_ne_nil {q : Cq} {fid off len : Nat} {t : Bool} {fd : Fd} (n : Nat)
    (hl : q.chunks.getLast? = some (.file fid off len t fd)) : (growLast q n).chunks ≠ [] := by
  rw [(growLast_file n hl).1]
  simp [setLast]

theorem growLast_noMem {q : Cq} {fid off len : Nat} {t : Bool} {fd : Fd} (n : Nat)
    (hl : q.chunks.getLast? = some (.file fid off len t fd)) (h : NoMem q.chunks) : NoMem (growLast q n).chunks := by
  rw [(growLast_file n hl).1]
  exact h.setLast rfl

/-- `data` reached the temp chunk: accounting of the bytes written -/
theorem cqmem_written_path {toTemp : World → Cq → World × Cq × Bool} {w0 w w' : World} {dest0 dest : Cq}
    (dlen : Nat) (data : Bytes) (hm : dlen = 0 ∨ TTGood toTemp) (hg : Good w0 dest0) (hp : GatPost w0 dest0 w dest)
    (hc : Calm w w') :
    0 ≤ (cqmemWritten toTemp (writeLast w' dest data) (growLast dest data.length) dlen data.length).rc ∧
      Calm w' (cqmemWritten toTemp (writeLast w' dest data) (growLast dest data.length) dlen data.length).w ∧
      Good (cqmemWritten toTemp (writeLast w' dest data) (growLast dest data.length) dlen data.length).w
        (cqmemWritten toTemp (writeLast w' dest data) (growLast dest data.length) dlen data.length).dest ∧
      (dlen = 0 → NoMem dest.chunks →
        NoMem (cqmemWritten toTemp (writeLast w' dest data) (growLast dest data.length) dlen data.length).dest.chunks) ∧
      (dlen ≤ data.length →
        (cqmemWritten toTemp (writeLast w' dest data) (growLast dest data.length) dlen data.length).rc =
          ((data.length - dlen : Nat) : Int)) := by
  obtain ⟨fid, off, len, fd, hl, ho, hro⟩ := hp.last
  obtain ⟨c1, c2⟩ := writeLast_calm w' dest data
  have hgood := good_grow hg hp (hc.trans c1) data.length
  obtain ⟨a, b, c, d, e⟩ := cqmemWritten_good (toTemp := toTemp) dlen data.length hm hgood (growLast_ne_nil _ hl)
  refine ⟨a, c1.trans b, c, fun h0 hn => ?_, e⟩
  rw [d h0]
  exact growLast_noMem _ hl hn

theorem cqmemWrite_good {toTemp : World → Cq → World × Cq × Bool} {w0 w : World} {dest0 dest : Cq}
    (dbytes sbytes : Bytes) (hm : dbytes.length = 0 ∨ TTGood toTemp) (hg : Good w0 dest0)
    (hp : GatPost w0 dest0 w dest) :
    0 ≤ (cqmemWrite toTemp w dest dbytes sbytes).rc ∧ Calm w (cqmemWrite toTemp w dest dbytes sbytes).w ∧
      Good (cqmemWrite toTemp w dest dbytes sbytes).w (cqmemWrite toTemp w dest dbytes sbytes).dest ∧
      (dbytes.length = 0 → NoMem dest.chunks → NoMem (cqmemWrite toTemp w dest dbytes sbytes).dest.chunks) ∧
      ((cqmemWrite toTemp w dest dbytes sbytes).w.wsched.length < w.wsched.length ∨
        (cqmemWrite toTemp w dest dbytes sbytes).rc = (sbytes.length : Int)) := by
  obtain ⟨fid, off, len, fd, hl, ho, hro⟩ := hp.last
  have hlr := lastReadOnly_false hl hro
  have hb1 : Benign w := hg.ben.calm hp.calm
  have hret := popW_retryable hb1
  unfold cqmemWrite
  dsimp only
  rw [effFault_id hlr]
  rcases popW_cases w with ⟨hnil, e⟩ | ⟨f, t, hw, e⟩
  · rw [e]
    dsimp only
    obtain ⟨a, b, c, d, e'⟩ := cqmem_written_path (toTemp := toTemp) dbytes.length (dbytes ++ sbytes) hm hg hp
      (Calm.refl w)
    refine ⟨a, b, c, d, Or.inr ?_⟩
    rw [e' (by simp)]
    simp
  · rw [e] at hret ⊢
    dsimp only at hret ⊢
    have hcw : Calm w { w with wsched := t } :=
      ⟨by rw [hw]; exact List.suffix_cons f t, List.suffix_refl _, rfl, rfl⟩
    have hlt : ∀ w2 : World, Calm { w with wsched := t } w2 → w2.wsched.length < w.wsched.length := by
      intro w2 h2
      have := h2.wlen
      rw [hw]
      simp only [List.length_cons] at this ⊢
      omega
    cases f with
    | ok =>
      dsimp only
      obtain ⟨a, b, c, d, _⟩ := cqmem_written_path (toTemp := toTemp) dbytes.length (dbytes ++ sbytes) hm hg hp hcw
      exact ⟨a, hcw.trans b, c, d, Or.inl (hlt _ b)⟩
    | short n =>
      dsimp only
      obtain ⟨a, b, c, d, _⟩ := cqmem_written_path (toTemp := toTemp) dbytes.length ((dbytes ++ sbytes).take n) hm hg hp hcw
      exact ⟨a, hcw.trans b, c, d, Or.inl (hlt _ b)⟩
    | eintr =>
      dsimp only
      exact ⟨Int.le_refl _, hcw, hg.calm (hp.calm.trans hcw) hp.td hp.wr, fun _ h => h,
        Or.inl (hlt _ (Calm.refl _))⟩
    | enospc =>
      dsimp only
      have hdir : dest.tdIdx + 1 + countE t < w.ndirs := by
        have hd := hg.dir.calm hp.calm hp.td
        unfold DirOK at hd
        rw [hw] at hd
        simp only [countE, List.count_cons_self] at hd ⊢
        omega
      obtain ⟨e1, e2, e3, e4⟩ := tempfileErr_good (w := { w with wsched := t }) (q := dest) (hb1.calm hcw) hdir hp.wr
      generalize tempfileErr { w with wsched := t } dest true = r at e1 e2 e3 e4
      obtain ⟨w2, q2, retry⟩ := r
      simp only at e1 e2 e3 e4
      subst e1
      exact ⟨Int.le_refl _, hcw.trans e2, e3, fun _ h => e4 h, Or.inl (hlt _ e2)⟩
    | eio => cases hret

theorem cqmemPre_good {toTemp : World → Cq → World × Cq × Bool} {w : World} {dest : Cq}
    (hm : NoMem dest.chunks ∨ TTGood toTemp) (hg : Good w dest) :
    (cqmemPre toTemp w dest).2.2.1 = true ∧ Calm w (cqmemPre toTemp w dest).1 ∧
      Good (cqmemPre toTemp w dest).1 (cqmemPre toTemp w dest).2.1 ∧
      (NoMem dest.chunks → NoMem (cqmemPre toTemp w dest).2.1.chunks ∧ (cqmemPre toTemp w dest).2.2.2.1.length = 0) ∧
      ((cqmemPre toTemp w dest).2.2.2.1.length = 0 ∨ TTGood toTemp) ∧ (cqmemPre toTemp w dest).2.2.2.2 < 16 := by
  unfold cqmemPre
  dsimp only
  split
  · rename_i hcond
    have h1 : (leadingMem dest.chunks).length ≥ 1 := by
      simp only [Bool.and_eq_true, decide_eq_true_eq] at hcond
      exact hcond.2
    have hnn : ¬ NoMem dest.chunks := fun h => by rw [leadingMem_noMem h] at h1; simp at h1
    have ht := hm.resolve_left hnn
    obtain ⟨t1, t2, t3⟩ := ht _ _ hg
    have key : ∀ r : World × Cq × Bool, r.2.2 = true → Calm w r.1 → Good r.1 r.2.1 →
        (match r with | (w, dest, ok) => ((w, dest, ok, [], 0) : World × Cq × Bool × Bytes × Nat)).2.2.1 = true ∧
        Calm w (match r with | (w, dest, ok) => ((w, dest, ok, [], 0) : World × Cq × Bool × Bytes × Nat)).1 ∧
        Good (match r with | (w, dest, ok) => ((w, dest, ok, [], 0) : World × Cq × Bool × Bytes × Nat)).1
          (match r with | (w, dest, ok) => ((w, dest, ok, [], 0) : World × Cq × Bool × Bytes × Nat)).2.1 ∧
        (NoMem dest.chunks →
          NoMem (match r with | (w, dest, ok) => ((w, dest, ok, [], 0) : World × Cq × Bool × Bytes × Nat)).2.1.chunks ∧
          (match r with | (w, dest, ok) => ((w, dest, ok, [], 0) : World × Cq × Bool × Bytes × Nat)).2.2.2.1.length = 0) ∧
        ((match r with | (w, dest, ok) => ((w, dest, ok, [], 0) : World × Cq × Bool × Bytes × Nat)).2.2.2.1.length = 0 ∨
          TTGood toTemp) ∧
        (match r with | (w, dest, ok) => ((w, dest, ok, [], 0) : World × Cq × Bool × Bytes × Nat)).2.2.2.2 < 16 := by
      rintro ⟨w', d', ok⟩ a b c
      exact ⟨a, b, c, fun h => absurd h hnn, Or.inl rfl, Nat.zero_lt_succ _⟩
    exact key _ t1 t2 t3
  · rename_i hcond
    refine ⟨rfl, Calm.refl w, hg, fun h => ⟨h, by rw [leadingMem_noMem h]; rfl⟩, ?_, ?_⟩
    · rcases hm with h | h
      · exact Or.inl (by rw [leadingMem_noMem h]; rfl)
      · exact Or.inr h
    · simp only [Bool.and_eq_true, Bool.or_eq_true, decide_eq_true_eq, not_and] at hcond
      by_cases h16 : (leadingMem dest.chunks).length ≥ 16
      · exact absurd (show (leadingMem dest.chunks).length ≥ 1 by omega) (hcond (Or.inl h16))
      · show (leadingMem dest.chunks).length < 16
        omega

theorem gatherSrc_nil {c : Chunk} {rest : List Chunk} {slots len : Nat} (hc : c.isMem = true) (hs : 0 < slots)
    (hl : 0 < len) (h : (gatherSrc (c :: rest) slots len).length = 0) : c.rem = 0 := by
  cases c with
  | file fid off len t fd => cases hc
  | mem d off cap =>
    obtain ⟨s, rfl⟩ : ∃ s, slots = s + 1 := ⟨slots - 1, by omega⟩
    simp only [gatherSrc] at h
    simp only [Chunk.rem]
    split at h
    · simp only [List.length_take, List.length_drop] at h
      omega
    · simp only [List.length_append, List.length_take, List.length_drop] at h
      omega

theorem cqmem_good {toTemp : World → Cq → World × Cq × Bool} {w : World} {dest : Cq} (c : Chunk)
    (rest : List Chunk) (len : Nat) (hm : NoMem dest.chunks ∨ TTGood toTemp) (hg : Good w dest)
    (hc : c.isMem = true) :
    0 ≤ (cqmemToTempfile toTemp w dest (c :: rest) len).rc ∧
      Calm w (cqmemToTempfile toTemp w dest (c :: rest) len).w ∧
      Good (cqmemToTempfile toTemp w dest (c :: rest) len).w (cqmemToTempfile toTemp w dest (c :: rest) len).dest ∧
      (NoMem dest.chunks → NoMem (cqmemToTempfile toTemp w dest (c :: rest) len).dest.chunks) ∧
      (0 < len → (cqmemToTempfile toTemp w dest (c :: rest) len).w.wsched.length < w.wsched.length ∨
        0 < (cqmemToTempfile toTemp w dest (c :: rest) len).rc ∨ c.rem = 0) := by
  obtain ⟨p1, p2, p3, p4, p5, p6⟩ := cqmemPre_good hm hg
  unfold cqmemToTempfile
  generalize cqmemPre toTemp w dest = p at p1 p2 p3 p4 p5 p6
  obtain ⟨w1, d1, ok, dbytes, iov0⟩ := p
  simp only at p1 p2 p3 p4 p5 p6
  subst p1
  dsimp only
  have hfm : firstIsMemL (c :: rest) = true := hc
  rw [hfm]
  simp only [Bool.not_true, Bool.and_false, Bool.false_eq_true, if_false]
  obtain ⟨g1, g2⟩ := getAppendTempfile_good p3
  generalize getAppendTempfile w1 d1 = g at g1 g2
  obtain ⟨w2, d2, ok2⟩ := g
  simp only at g1 g2
  subst g1
  dsimp only
  obtain ⟨a, b, cg, d, e⟩ := cqmemWrite_good (toTemp := toTemp) dbytes (gatherSrc (c :: rest) (16 - iov0) len) p5 p3 g2
  refine ⟨a, p2.trans (g2.calm.trans b), cg, fun hn => ?_, fun hl => ?_⟩
  · obtain ⟨n1, n2⟩ := p4 hn
    exact d n2 (g2.nomem n1)
  · rcases e with e | e
    · refine Or.inl ?_
      have h1 := p2.wlen
      have h2 := g2.ws
      rw [h2] at e
      omega
    · by_cases h0 : (gatherSrc (c :: rest) (16 - iov0) len).length = 0
      · exact Or.inr (Or.inr (gatherSrc_nil hc (by omega) hl h0))
      · refine Or.inr (Or.inl ?_)
        rw [e]
        omega

/-! ### the FILE_CHUNK branch: chunkqueue_steal() of (part of) the first chunk -/

theorem steal_head {w : World} {dest src : Cq} {c : Chunk} {cs : List Chunk} (len : Nat)
    (heq : src.chunks = c :: cs) :
    steal w dest src (min len c.rem) =
      if c.rem ≤ len then
        ((moveChunk w dest c).1, (moveChunk w dest c).2,
          { src with chunks := cs, bytesOut := src.bytesOut + c.rem })
      else
        ((stealPartial w dest c len).1, (stealPartial w dest c len).2,
          { src with chunks := c.adv len :: cs, bytesOut := src.bytesOut + len }) := by
  unfold steal
  rw [heq]
  by_cases h : c.rem ≤ len
  · rw [if_pos h, Nat.min_eq_right h, stealLoop, if_pos (Nat.le_refl _), if_pos (Nat.sub_self _)]
  · rw [if_neg h, Nat.min_eq_left (by omega), stealLoop, if_neg (by omega)]

/-- dest after the step: unchanged or one more non-MEM chunk -/
def DestStep (dest dest' : Cq) (c : Chunk) : Prop :=
  dest'.tdIdx = dest.tdIdx ∧
    (dest'.chunks = dest.chunks ∨ ∃ x, dest'.chunks = dest.chunks ++ [x] ∧ x.isMem = false ∧ (c.wr → x.wr))

theorem moveChunk_dest (w : World) (dest : Cq) (c : Chunk) (hc : c.isMem = false) :
    DestStep dest (moveChunk w dest c).2 c := by
  unfold moveChunk
  split
  · exact ⟨rfl, Or.inr ⟨c, rfl, hc, id⟩⟩
  · exact ⟨rfl, Or.inl rfl⟩

theorem stealPartial_dest (w : World) (dest : Cq) (c : Chunk) (n : Nat) (hc : c.isMem = false) :
    DestStep dest (stealPartial w dest c n).2 c := by
  cases c with
  | mem d off cap => cases hc
  | file fid off len t fd =>
    simp only [stealPartial]
    split
    · exact ⟨rfl, Or.inr ⟨_, rfl, rfl, fun _ => by cases (dupFd t fd) <;> trivial⟩⟩
    · exact ⟨rfl, Or.inl rfl⟩

theorem DestStep.wr {dest dest' : Cq} {c : Chunk} (h : DestStep dest dest' c) (hd : AllWr dest.chunks) (hc : c.wr) :
    AllWr dest'.chunks := by
  rcases h.2 with e | ⟨x, e, _, hx⟩
  · rw [e]; exact hd
  · rw [e]; exact hd.append (AllWr.single (hx hc))

theorem DestStep.nomem {dest dest' : Cq} {c : Chunk} (h : DestStep dest dest' c) (hd : NoMem dest.chunks) :
    NoMem dest'.chunks := by
  rcases h.2 with e | ⟨x, e, hx, _⟩
  · rw [e]; exact hd
  · rw [e]; exact hd.append (NoMem.single hx)

/-- the loop of chunkqueue_steal_with_tempfiles() under a benign schedule: no
    error, and the iteration bound is never reached (every turn consumes a
    scripted write result, a byte of `len` or a chunk of src) -/
theorem swLoop_good {toTemp : World → Cq → World × Cq × Bool} (fuel : Nat) (w : World) (dest src : Cq) (len : Nat)
    (hf : w.wsched.length + src.chunks.length + len + 1 ≤ fuel) (hm : NoMem dest.chunks ∨ TTGood toTemp)
    (hg : Good w dest) (hs : AllWr src.chunks) :
    (swLoop toTemp fuel w dest src len).2.2.2 = true ∧ Calm w (swLoop toTemp fuel w dest src len).1 ∧
      Good (swLoop toTemp fuel w dest src len).1 (swLoop toTemp fuel w dest src len).2.1 := by
  induction fuel generalizing w dest src len with
  | zero => omega
  | succ fuel ih =>
    unfold swLoop
    split
    · exact ⟨rfl, Calm.refl w, hg⟩
    · rename_i c cs heq
      split
      · rename_i hc
        obtain ⟨a, b, cg, d, e⟩ := cqmem_good (toTemp := toTemp) c cs len hm hg hc
        dsimp only
        rw [heq]
        have hmc := (markWritten_spec (cqmemToTempfile toTemp w dest (c :: cs) len).w src
          (cqmemToTempfile toTemp w dest (c :: cs) len).rc.toNat).1.calm
        split
        · omega
        · split
          · exact ⟨rfl, b.trans hmc, cg.calm hmc rfl cg.wr⟩
          · rename_i hne
            have hlen : 0 < len := by omega
            have hmeq := markWritten_eq (cqmemToTempfile toTemp w dest (c :: cs) len).w src
              (cqmemToTempfile toTemp w dest (c :: cs) len).rc.toNat
            have hgood : Good (markWritten (cqmemToTempfile toTemp w dest (c :: cs) len).w src
                (cqmemToTempfile toTemp w dest (c :: cs) len).rc.toNat).1
                (cqmemToTempfile toTemp w dest (c :: cs) len).dest :=
              cg.calm hmc rfl cg.wr
            have hmode : NoMem (cqmemToTempfile toTemp w dest (c :: cs) len).dest.chunks ∨ TTGood toTemp := by
              rcases hm with h | h
              · exact Or.inl (d h)
              · exact Or.inr h
            have hsrc : AllWr (markWritten (cqmemToTempfile toTemp w dest (c :: cs) len).w src
                (cqmemToTempfile toTemp w dest (c :: cs) len).rc.toNat).2.chunks := by
              rw [hmeq]; exact mwLoop_wr _ _ _ hs
            have hmeas : (markWritten (cqmemToTempfile toTemp w dest (c :: cs) len).w src
                  (cqmemToTempfile toTemp w dest (c :: cs) len).rc.toNat).1.wsched.length +
                (markWritten (cqmemToTempfile toTemp w dest (c :: cs) len).w src
                  (cqmemToTempfile toTemp w dest (c :: cs) len).rc.toNat).2.chunks.length +
                (len - (cqmemToTempfile toTemp w dest (c :: cs) len).rc.toNat) + 1 ≤ fuel := by
              have h1 := hmc.wlen
              have h2 := b.wlen
              have h3 : (markWritten (cqmemToTempfile toTemp w dest (c :: cs) len).w src
                  (cqmemToTempfile toTemp w dest (c :: cs) len).rc.toNat).2.chunks.length ≤ cs.length + 1 := by
                rw [hmeq]
                have := mwLoop_length (cqmemToTempfile toTemp w dest (c :: cs) len).w src.chunks
                  (cqmemToTempfile toTemp w dest (c :: cs) len).rc.toNat
                simp only [heq, List.length_cons] at this ⊢
                exact this
              rw [heq] at hf
              simp only [List.length_cons] at hf
              rcases e hlen with e | e | e
              · omega
              · omega
              · have h4 : (markWritten (cqmemToTempfile toTemp w dest (c :: cs) len).w src
                    (cqmemToTempfile toTemp w dest (c :: cs) len).rc.toNat).2.chunks.length ≤ cs.length := by
                  rw [hmeq]
                  simp only
                  rw [heq]
                  exact mwLoop_head_done _ _ _ _ (by omega)
                omega
            obtain ⟨i1, i2, i3⟩ := ih _ _ _ _ hmeas hmode hgood hsrc
            exact ⟨i1, (b.trans hmc).trans i2, i3⟩
      · rename_i hc
        have hc' : c.isMem = false := by cases h : c.isMem <;> simp_all
        dsimp only
        have hsh := steal_head (w := w) (dest := dest) (src := src) len heq
        have hcalm := (steal_spec w dest src (min len c.rem)).1.calm
        have hcwr : c.wr := hs c (by rw [heq]; exact List.mem_cons_self ..)
        have hds : DestStep dest (steal w dest src (min len c.rem)).2.1 c := by
          rw [hsh]
          split
          · exact moveChunk_dest w dest c hc'
          · exact stealPartial_dest w dest c len hc'
        have hgood : Good (steal w dest src (min len c.rem)).1 (steal w dest src (min len c.rem)).2.1 :=
          hg.calm hcalm hds.1 (hds.wr hg.wr hcwr)
        split
        · exact ⟨rfl, hcalm, hgood⟩
        · rename_i hne
          have hle : c.rem ≤ len := by
            by_cases h : c.rem ≤ len
            · exact h
            · rw [Nat.min_eq_left (by omega)] at hne; omega
          have hsrc' : (steal w dest src (min len c.rem)).2.2.chunks = cs := by
            rw [hsh, if_pos hle]
          have hmode : NoMem (steal w dest src (min len c.rem)).2.1.chunks ∨ TTGood toTemp := by
            rcases hm with h | h
            · exact Or.inl (hds.nomem h)
            · exact Or.inr h
          have hmeas : (steal w dest src (min len c.rem)).1.wsched.length +
              (steal w dest src (min len c.rem)).2.2.chunks.length + (len - min len c.rem) + 1 ≤ fuel := by
            have h1 := hcalm.wlen
            rw [hsrc']
            rw [heq] at hf
            simp only [List.length_cons] at hf
            omega
          obtain ⟨i1, i2, i3⟩ := ih _ _ _ _ hmeas hmode hgood
            (by rw [hsrc']; exact fun x hx => hs x (by rw [heq]; exact List.mem_cons_of_mem _ hx))
          exact ⟨i1, hcalm.trans i2, i3⟩

/-- chunkqueue_to_tempfiles() does not fail under a benign schedule (the nested
    loop never needs the stub that stands for a second nesting: its dest holds
    no MEM chunk) -/
theorem toTempfiles_good : TTGood toTempfiles := by
  intro w q hg
  unfold toTempfiles toTempfilesWith swInner
  dsimp only
  have hg0 : Good w { q with chunks := [], bytesIn := q.bytesIn - (q.length.toNat : Int) } :=
    ⟨hg.ben, hg.dir, fun c hc => by cases hc⟩
  obtain ⟨i1, i2, i3⟩ := swLoop_good (toTemp := toTempStub) (swFuel w q q.length.toNat) w
    { q with chunks := [], bytesIn := q.bytesIn - (q.length.toNat : Int) } q q.length.toNat
    (by unfold swFuel; omega) (Or.inl (fun c hc => by cases hc)) hg0 hg.wr
  have key : ∀ r : World × Cq × Cq × Bool, r.2.2.2 = true → Calm w r.1 → Good r.1 r.2.1 →
      (match r with | (w, dest, src, ok) => ((releaseAll w src.chunks, dest, ok) : World × Cq × Bool)).2.2 = true ∧
      Calm w (match r with | (w, dest, src, ok) => ((releaseAll w src.chunks, dest, ok) : World × Cq × Bool)).1 ∧
      Good (match r with | (w, dest, src, ok) => ((releaseAll w src.chunks, dest, ok) : World × Cq × Bool)).1
        (match r with | (w, dest, src, ok) => ((releaseAll w src.chunks, dest, ok) : World × Cq × Bool)).2.1 := by
    rintro ⟨w', d', s', ok⟩ a b c
    have hr := (releaseAll_same w' s'.chunks).calm
    exact ⟨a, b.trans hr, c.calm hr rfl c.wr⟩
  exact key _ i1 i2 i3

theorem stealWithTempfiles_good {w : World} {dest src : Cq} (len : Nat) (hg : Good w dest)
    (hs : AllWr src.chunks) : (stealWithTempfiles w dest src len).2.2.2 = true :=
  (swLoop_good (toTemp := toTempfiles) (swFuel w src len) w dest src len (by unfold swFuel; omega)
    (Or.inr toTempfiles_good) hg hs).1

theorem appendMemToTempfile_good {w : World} {q : Cq} (d : Bytes) (hg : Good w q) :
    (appendMemToTempfile w q d).2.2 = true := by
  unfold appendMemToTempfile
  have hpre : (if firstIsMem q = true then toTempfiles w q else (w, q, true)).2.2 = true ∧
      Good (if firstIsMem q = true then toTempfiles w q else (w, q, true)).1
        (if firstIsMem q = true then toTempfiles w q else (w, q, true)).2.1 := by
    split
    · obtain ⟨a, _, c⟩ := toTempfiles_good w q hg
      exact ⟨a, c⟩
    · exact ⟨rfl, hg⟩
  generalize (if firstIsMem q = true then toTempfiles w q else (w, q, true)) = r at hpre
  obtain ⟨w1, q1, ok⟩ := r
  obtain ⟨a, b⟩ := hpre
  simp only at a b
  subst a
  exact mtLoop_good _ _ _ _ (Nat.le_refl _) b

end LtVerif.Cq
