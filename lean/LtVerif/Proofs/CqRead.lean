/-
  C17 — liveness of the read side: in a system that satisfies the full
  invariant every queued byte can actually be fetched.  `Cq.abs` reads the
  model's file store, which keeps the content of unlinked files; the lemmas
  here show that this is harmless: peek_data / read_data (which, like the C,
  fail on a chunk whose file can no longer be opened) succeed and return
  exactly `abs`.
-/
import LtVerif.Proofs.CqSpill
namespace LtVerif.Cq

/-- the bytes of the chunk can be fetched: MEM, or a file chunk that holds a
    descriptor or whose file still has a name to open -/
def Chunk.Openable (w : World) : Chunk → Prop
  | .mem .. => True
  | .file fid _ _ _ fd => fd.isOpen = true ∨ 0 < (w.files fid).nlink

/-- under the full invariant every chunk is openable: a chunk without
    descriptor is a temp chunk (it owns the name of its file) or names one of
    the application's files -/
theorem FInv.openable {base : Nat → Int} {s : Sys} (h : FInv base s) : ∀ c ∈ s.chunks, c.Openable s.w := by
  intro c hc
  cases c with
  | mem d off cap => trivial
  | file fid off len t fd =>
    have hv := h.gi.valid _ hc
    rcases hv.2.2.2 with ho | ht | hs
    · exact Or.inl ho
    · subst ht
      refine Or.inr ?_
      have ha := (h.gi.acct fid).1
      have hle := cres_le_csum (k := .name) (f := fid) hc
      have hc1 : cres .name fid (.file fid off len true fd) = 1 := by rw [cres_file]; simp [hit]
      have := (h.src fid).1
      omega
    · refine Or.inr ?_
      have ha := (h.gi.acct fid).1
      have := (h.src fid).2 hs
      have := csum_nonneg .name fid s.chunks
      omega

theorem openFd_nlink (w : World) (fid f : Nat) : ((w.openFd fid).files f).nlink = (w.files f).nlink := by
  by_cases hf : f = fid
  · subst hf; simp [World.openFd, World.setFile]
  · simp [World.openFd, World.setFile, hf]

theorem openFd_content (w : World) (fid f : Nat) : ((w.openFd fid).files f).content = (w.files f).content := by
  by_cases hf : f = fid
  · subst hf; simp [World.openFd, World.setFile]
  · simp [World.openFd, World.setFile, hf]

/-- chunk_open_file_chunk() succeeds on a valid chunk whose file has a name -/
theorem openChunk_ok {w : World} {fid len : Nat} {t : Bool} (hn : 0 < (w.files fid).nlink)
    (hl : len ≤ sz w fid) : openChunk w fid len t = (w.openFd fid, .ro, true) := by
  unfold openChunk
  rw [if_neg (by omega)]
  cases t
  · simp only [Bool.false_eq_true, if_false, openFd_content]
    simp only [sz] at hl
    simp [hl]
  · simp

/-- one chunk of peek_data: no failure on a valid, openable chunk while bytes
    are still wanted; names are left alone -/
theorem peekChunk_ok {w : World} {n : Nat} {acc : Bytes} {c : Chunk} (hv : c.Valid w) (ho : c.Openable w)
    (hn : acc.length < n) :
    (peekChunk w n acc c).2.2.2 = true ∧ ∀ f, ((peekChunk w n acc c).1.files f).nlink = (w.files f).nlink := by
  cases c with
  | mem d off cap => exact ⟨rfl, fun _ => rfl⟩
  | file fid off len t fd =>
    obtain ⟨_, h2, h3, _⟩ := hv
    have key : ∀ (w2 : World) (fd2 : Fd), (∀ f, (w2.files f).content = (w.files f).content) →
        (match ((w2, fd2, true) : World × Fd × Bool) with
          | (w, fd', false) => (w, Chunk.file fid off len t fd', acc, false)
          | (w, fd', true) =>
            if len - off = 0 then (w, Chunk.file fid off len t fd', acc, true)
            else if (((w.files fid).content.drop off).take (min (len - off) (n - acc.length))).length = 0 then
              (w, Chunk.file fid off len t fd', acc, false)
            else
              (w, Chunk.file fid off len t fd',
               acc ++ ((w.files fid).content.drop off).take (min (len - off) (n - acc.length)), true)).2.2.2 = true ∧
        (match ((w2, fd2, true) : World × Fd × Bool) with
          | (w, fd', false) => (w, Chunk.file fid off len t fd', acc, false)
          | (w, fd', true) =>
            if len - off = 0 then (w, Chunk.file fid off len t fd', acc, true)
            else if (((w.files fid).content.drop off).take (min (len - off) (n - acc.length))).length = 0 then
              (w, Chunk.file fid off len t fd', acc, false)
            else
              (w, Chunk.file fid off len t fd',
               acc ++ ((w.files fid).content.drop off).take (min (len - off) (n - acc.length)), true)).1 = w2 := by
      intro w2 fd2 hc
      dsimp only
      split
      · exact ⟨rfl, rfl⟩
      · rename_i h0
        have hlen : (((w2.files fid).content.drop off).take (min (len - off) (n - acc.length))).length ≠ 0 := by
          rw [List.length_take, List.length_drop, hc]
          simp only [sz] at h3
          omega
        rw [if_neg hlen]
        exact ⟨rfl, rfl⟩
    simp only [peekChunk]
    by_cases hfd : fd.isOpen = true
    · rw [if_pos hfd]
      obtain ⟨a, b⟩ := key w fd (fun _ => rfl)
      exact ⟨a, fun f => by rw [b]⟩
    · rw [if_neg hfd]
      have hnl : 0 < (w.files fid).nlink := by
        rcases ho with ho | ho
        · exact absurd ho hfd
        · exact ho
      rw [openChunk_ok hnl h3]
      obtain ⟨a, b⟩ := key (w.openFd fid) .ro (fun f => openFd_content w fid f)
      exact ⟨a, fun f => by rw [b]; exact openFd_nlink w fid f⟩

theorem Chunk.Openable.of_nlink {w w' : World} {c : Chunk} (h : c.Openable w)
    (hn : ∀ f, (w'.files f).nlink = (w.files f).nlink) : c.Openable w' := by
  cases c with
  | mem d off cap => trivial
  | file fid off len t fd =>
    rcases h with h | h
    · exact Or.inl h
    · exact Or.inr (by rw [hn]; exact h)

/-- peek_data does not fail on a queue of valid, openable chunks -/
theorem peekLoop_ok (w : World) (n : Nat) (acc : Bytes) (cs : List Chunk) (hv : ValidAll w cs)
    (ho : ∀ c ∈ cs, c.Openable w) (hn : acc.length < n) : (peekLoop w n acc cs).2.2.2 = true := by
  fun_induction peekLoop w n acc cs with
  | case1 w acc => rfl
  | case2 w acc c rest w1 c' acc1 heq =>
    have := (peekChunk_ok hv.head (ho c (List.mem_cons_self ..)) hn).1
    rw [heq] at this
    cases this
  | case3 w acc c rest w1 c' acc1 heq hn' => rfl
  | case4 w acc c rest w1 c' acc1 heq hn' w2 rest2 acc2 ok heq2 ih =>
    obtain ⟨hs, hc⟩ := peekChunk_spec heq
    obtain ⟨_, _, _, c4⟩ := hc hv.head
    have hk := (peekChunk_ok hv.head (ho c (List.mem_cons_self ..)) hn).2
    rw [heq] at hk
    have e := c4 rfl
    have hlen : acc1.length < n := by
      have : acc1.length ≤ n := by rw [e, List.length_append, List.length_take]; omega
      omega
    have := ih (hv.tail.mono hs.grows)
      (fun x hx => (ho x (List.mem_cons_of_mem _ hx)).of_nlink hk) hlen
    rw [heq2] at this
    exact this

theorem peekData_ok (w : World) (q : Cq) (n : Nat) (hq : QV w q) (ho : ∀ c ∈ q.chunks, c.Openable w)
    (hn : 0 < n) : (peekData w q n).2.2.2 = true ∧ (peekData w q n).2.2.1 = (q.abs w).take n := by
  have hok : (peekData w q n).2.2.2 = true := by
    have := peekLoop_ok w n [] q.chunks hq.valid ho hn
    unfold peekData
    split
    rename_i w1 cs acc ok heq
    rw [heq] at this
    exact this
  exact ⟨hok, ((peekData_spec w q n).2 hq).2.2 hok⟩

/-- chunkqueue_read_data() of n ≤ length bytes succeeds -/
theorem readData_ok (w : World) (q : Cq) (n : Nat) (hq : QV w q) (ho : ∀ c ∈ q.chunks, c.Openable w)
    (hn : 0 < n) (hle : n ≤ (q.abs w).length) : (readData w q n).2.2 = some ((q.abs w).take n) := by
  obtain ⟨a, b⟩ := peekData_ok w q n hq ho hn
  unfold readData
  split
  rename_i w1 q1 acc ok heq
  rw [heq] at a b
  simp only at a b
  subst a
  simp only [b, List.length_take, Bool.not_true, Bool.false_or, ne_eq, decide_not, Bool.not_eq_eq_eq_not,
    decide_eq_false_iff_not, Decidable.not_not]
  rw [if_neg (by omega)]

theorem Sys.mem_chunks {s : Sys} (i : Bool) {c : Chunk} (h : c ∈ (s.get i).chunks) : c ∈ s.chunks := by
  cases i
  · exact List.mem_append_left _ h
  · exact List.mem_append_right _ h

end LtVerif.Cq
