/-
  Helper lemmas for the chunk-queue model (C17).
  Part 2: resources — every descriptor and every temp-file name the world
          knows of is held by exactly the chunks that the model says hold it
          (`Conserve`), through every operation and every fault schedule.
-/
import LtVerif.Proofs.Cq
namespace LtVerif.Cq

/-- descriptors chunk `c` holds on file `f` -/
def Chunk.fdOn (f : Nat) : Chunk → Int
  | .file fid _ _ _ fd => if fid = f ∧ fd.isOpen = true then 1 else 0
  | .mem .. => 0

/-- 1 if `c` is the temp chunk that owns the name of file `f` -/
def Chunk.tmpOn (f : Nat) : Chunk → Int
  | .file fid _ _ t _ => if fid = f ∧ t = true then 1 else 0
  | .mem .. => 0

/-- c->file.length if `c` is the temp chunk that owns file `f` -/
def Chunk.lenOn (f : Nat) : Chunk → Int
  | .file fid _ len t _ => if fid = f ∧ t = true then len else 0
  | .mem .. => 0

/-- the kinds of resource: descriptors, names of temp files, and (ghost) the
    bytes the owning temp chunk accounts for -/
inductive Kind where
  | fd
  | name
  | tlen
deriving DecidableEq

def cres : Kind → Nat → Chunk → Int
  | .fd, f, c => c.fdOn f
  | .name, f, c => c.tmpOn f
  | .tlen, f, c => c.lenOn f

def csum (k : Kind) (f : Nat) : List Chunk → Int
  | [] => 0
  | c :: cs => cres k f c + csum k f cs

def wres : Kind → World → Nat → Int
  | .fd, w, f => (w.files f).nfd
  | .name, w, f => (w.files f).nlink
  | .tlen, w, f => (w.files f).tl

/-- conservation: what the world holds beyond what the chunks account for
    does not change (in a well-accounted system that difference is 0 for
    descriptors, and 1 name for every source file) -/
def Conserve (w : World) (cs : List Chunk) (w' : World) (cs' : List Chunk) : Prop :=
  ∀ k f, wres k w' f - csum k f cs' = wres k w f - csum k f cs

@[simp] theorem csum_nil (k : Kind) (f : Nat) : csum k f [] = 0 := rfl
@[simp] theorem csum_cons (k : Kind) (f : Nat) (c : Chunk) (cs : List Chunk) :
    csum k f (c :: cs) = cres k f c + csum k f cs := rfl

@[simp] theorem csum_append (k : Kind) (f : Nat) (a b : List Chunk) :
    csum k f (a ++ b) = csum k f a + csum k f b := by
  induction a with
  | nil => simp
  | cons c cs ih => simp [ih, Int.add_assoc]

@[simp] theorem cres_mem (k : Kind) (f : Nat) (d : Bytes) (off cap : Nat) : cres k f (.mem d off cap) = 0 := by
  cases k <;> rfl

theorem Conserve.refl (w : World) (cs : List Chunk) : Conserve w cs w cs := fun _ _ => rfl

theorem Conserve.trans {w1 w2 w3 : World} {a b c : List Chunk} (h1 : Conserve w1 a w2 b)
    (h2 : Conserve w2 b w3 c) : Conserve w1 a w3 c := fun k f => (h2 k f).trans (h1 k f)

theorem Conserve.frame_right {w w' : World} {a a' : List Chunk} (h : Conserve w a w' a') (x : List Chunk) :
    Conserve w (a ++ x) w' (a' ++ x) := by
  intro k f
  have := h k f
  simp only [csum_append]
  omega

theorem Conserve.frame_left {w w' : World} {a a' : List Chunk} (h : Conserve w a w' a') (x : List Chunk) :
    Conserve w (x ++ a) w' (x ++ a') := by
  intro k f
  have := h k f
  simp only [csum_append]
  omega

/-- the world's counters did not change -/
def SameRes (w w' : World) : Prop :=
  ∀ f, (w'.files f).nfd = (w.files f).nfd ∧ (w'.files f).nlink = (w.files f).nlink ∧
    (w'.files f).tl = (w.files f).tl

theorem SameRes.refl (w : World) : SameRes w w := fun _ => ⟨rfl, rfl, rfl⟩

theorem SameRes.trans {a b c : World} (h1 : SameRes a b) (h2 : SameRes b c) : SameRes a c :=
  fun f => ⟨(h2 f).1.trans (h1 f).1, (h2 f).2.1.trans (h1 f).2.1, (h2 f).2.2.trans (h1 f).2.2⟩

theorem SameRes.wres {w w' : World} (h : SameRes w w') (k : Kind) (f : Nat) : wres k w' f = wres k w f := by
  cases k
  · exact (h f).1
  · exact (h f).2.1
  · exact (h f).2.2

theorem SameRes.conserve {w w' : World} (h : SameRes w w') (cs : List Chunk) : Conserve w cs w' cs :=
  fun k f => by rw [h.wres]

/-- same resources held, chunk by chunk (data, offsets, lengths may differ) -/
theorem Conserve.of_csum {w w' : World} {cs cs' : List Chunk} (hw : SameRes w w')
    (hc : ∀ k f, csum k f cs' = csum k f cs) : Conserve w cs w' cs' :=
  fun k f => by rw [hw.wres, hc]

theorem pushOversized_res (w : World) (n : Nat) : SameRes w (pushOversized w n) := by
  unfold pushOversized
  split
  · exact SameRes.refl w
  · split
    · split
      · exact fun _ => ⟨rfl, rfl, rfl⟩
      · exact SameRes.refl w
    · exact SameRes.refl w

theorem acquire_res (w : World) (n : Nat) : SameRes w (acquire w n).1 := by
  unfold acquire
  split
  · exact SameRes.refl w
  · split
    · dsimp only
      split
      · exact fun _ => ⟨rfl, rfl, rfl⟩
      · exact SameRes.refl w
    · exact SameRes.refl w

theorem popM_res (w : World) : SameRes w (popM w).1 := by
  unfold popM; split <;> exact fun _ => ⟨rfl, rfl, rfl⟩

theorem popW_res (w : World) : SameRes w (popW w).1 := by
  unfold popW; split <;> exact fun _ => ⟨rfl, rfl, rfl⟩

theorem pwrite_res (w : World) (fid pos : Nat) (d : Bytes) : SameRes w (w.pwrite fid pos d) := by
  intro f
  by_cases h : f = fid
  · subst h; simp [World.pwrite]
  · simp [World.pwrite, setFile_files_other w _ h]

/-- 1 for kind `k0` on file `fid`, else 0 -/
def hit (k k0 : Kind) (fid f : Nat) : Int := if fid = f ∧ k = k0 then 1 else 0

theorem wres_openFd (k : Kind) (w : World) (fid f : Nat) :
    wres k (w.openFd fid) f = wres k w f + hit k .fd fid f := by
  by_cases h : f = fid
  · subst h; cases k <;> simp [wres, World.openFd, hit]
  · have h' : ¬ fid = f := fun e => h e.symm
    cases k <;> simp [wres, World.openFd, setFile_files_other w _ h, h', hit]

theorem wres_closeFd (k : Kind) (w : World) (fid f : Nat) :
    wres k (w.closeFd fid) f = wres k w f - hit k .fd fid f := by
  by_cases h : f = fid
  · subst h; cases k <;> simp [wres, World.closeFd, hit]
  · have h' : ¬ fid = f := fun e => h e.symm
    cases k <;> simp [wres, World.closeFd, setFile_files_other w _ h, h', hit]

theorem wres_unlink (k : Kind) (w : World) (fid len f : Nat) :
    wres k (w.unlink fid len) f = wres k w f - hit k .name fid f - len * hit k .tlen fid f := by
  by_cases h : f = fid
  · subst h; cases k <;> simp [wres, World.unlink, hit]
  · have h' : ¬ fid = f := fun e => h e.symm
    cases k <;> simp [wres, World.unlink, setFile_files_other w _ h, h', hit]

theorem wres_addTl (k : Kind) (w : World) (fid : Nat) (n : Int) (f : Nat) :
    wres k (w.addTl fid n) f = wres k w f + n * hit k .tlen fid f := by
  by_cases h : f = fid
  · subst h; cases k <;> simp [wres, World.addTl, hit]
  · have h' : ¬ fid = f := fun e => h e.symm
    cases k <;> simp [wres, World.addTl, setFile_files_other w _ h, h', hit]

theorem cres_file (k : Kind) (f fid off len : Nat) (t : Bool) (fd : Fd) :
    cres k f (.file fid off len t fd) =
      (if fd.isOpen = true then hit k .fd fid f else 0) +
      (if t = true then hit k .name fid f + len * hit k .tlen fid f else 0) := by
  by_cases hf : fid = f <;> cases k <;> cases t <;> cases hfd : fd.isOpen <;>
    simp [cres, Chunk.fdOn, Chunk.tmpOn, Chunk.lenOn, hit, hf, hfd]

/-- chunk_release() gives back exactly what the chunk holds -/
theorem wres_release (k : Kind) (w : World) (c : Chunk) (f : Nat) :
    wres k (release w c) f = wres k w f - cres k f c := by
  cases c with
  | mem d off cap =>
    simp only [release, cres_mem, Int.sub_zero]
    split
    · rfl
    · split
      · exact (pushOversized_res w cap).wres k f
      · rfl
  | file fid off len t fd =>
    simp only [release, cres_file]
    cases t <;> cases hfd : fd.isOpen <;> simp [wres_closeFd, wres_unlink] <;> omega

theorem release_conserve (w : World) (c : Chunk) : Conserve w [c] (release w c) [] := by
  intro k f
  rw [wres_release]
  simp

theorem wres_releaseAll (k : Kind) (w : World) (cs : List Chunk) (f : Nat) :
    wres k (releaseAll w cs) f = wres k w f - csum k f cs := by
  induction cs generalizing w with
  | nil => simp [releaseAll]
  | cons c cs ih =>
    simp only [releaseAll, csum_cons]
    rw [ih, wres_release]
    omega

theorem releaseAll_conserve (w : World) (cs : List Chunk) : Conserve w cs (releaseAll w cs) [] := by
  intro k f
  rw [wres_releaseAll]
  simp

/-! ## per-function conservation -/

theorem csum_setLast {cs : List Chunk} {c : Chunk} (k : Kind) (f : Nat) (c' : Chunk)
    (hl : cs.getLast? = some c) : csum k f (setLast cs c') = csum k f cs - cres k f c + cres k f c' := by
  conv => rhs; rw [split_last hl]
  simp only [setLast, csum_append, csum_cons, csum_nil]
  omega

theorem csum_pushChunk (k : Kind) (f : Nat) (q : Cq) (c : Chunk) (n : Nat) :
    csum k f (pushChunk q c n).chunks = csum k f q.chunks + cres k f c := by
  simp [pushChunk]

/-- a step on one queue conserves -/
def CStep (w : World) (q : Cq) (r : World × Cq) : Prop := Conserve w q.chunks r.1 r.2.chunks

theorem CStep.mk' {w : World} {q : Cq} {w' : World} {q' : Cq} (h : Conserve w q.chunks w' q'.chunks) :
    CStep w q (w', q') := h

theorem appendMemExtend_csum {q q' : Cq} {d : Bytes} (h : appendMemExtend q d = some q') (k : Kind) (f : Nat) :
    csum k f q'.chunks = csum k f q.chunks := by
  unfold appendMemExtend at h
  split at h
  · cases h; rfl
  · split at h
    · rename_i data off cap hl
      split at h
      · cases h
        simp only
        rw [csum_setLast k f _ hl]
        simp
      · cases h
    · cases h

theorem appendMem_res (w : World) (q : Cq) (d : Bytes) : CStep w q (appendMem w q d) := by
  unfold appendMem
  split
  · rename_i q' h
    split at h
    · exact Conserve.of_csum (SameRes.refl w) (appendMemExtend_csum h)
    · cases h
  · exact Conserve.of_csum (acquire_res w _) fun k f => by rw [csum_pushChunk]; simp

theorem appendMemMin_res (w : World) (q : Cq) (d : Bytes) : CStep w q (appendMemMin w q d) := by
  unfold appendMemMin
  split
  · rename_i q' h
    split at h
    · exact Conserve.of_csum (SameRes.refl w) (appendMemExtend_csum h)
    · cases h
  · exact Conserve.of_csum (SameRes.refl w) fun k f => by rw [csum_pushChunk]; simp

theorem appendBuffer_res (w : World) (q : Cq) (d : Bytes) : CStep w q (appendBuffer w q d) := by
  unfold appendBuffer
  split
  · rename_i q' h
    split at h
    · exact Conserve.of_csum (SameRes.refl w) (appendMemExtend_csum h)
    · cases h
  · exact Conserve.of_csum (acquire_res w _) fun k f => by rw [csum_pushChunk]; simp

theorem appendBufferOpen_res (w : World) (q : Cq) (d : Bytes) : CStep w q (appendBufferOpen w q d) := by
  unfold appendBufferOpen
  exact Conserve.of_csum (acquire_res w _) fun k f => by rw [csum_pushChunk]; simp

theorem release_mem_res (w : World) (d : Bytes) (off cap : Nat) : SameRes w (release w (.mem d off cap)) := by
  intro f
  have h0 := wres_release .fd w (.mem d off cap) f
  have h1 := wres_release .name w (.mem d off cap) f
  have h2 := wres_release .tlen w (.mem d off cap) f
  simp only [wres, cres_mem, Int.sub_zero] at h0 h1 h2
  exact ⟨h0, h1, h2⟩

theorem useExisting_csum {q : Cq} {old : Bytes} {off cap : Nat} (data : Bytes)
    (hl : q.chunks.getLast? = some (.mem old off cap)) (k : Kind) (f : Nat) :
    csum k f (useExisting q old off cap data).chunks = csum k f q.chunks := by
  unfold useExisting
  dsimp only
  split
  · rfl
  · simp only
    rw [csum_setLast k f _ hl]
    simp

theorem useNew_res (w : World) (q : Cq) (cap : Nat) (data : Bytes) : CStep w q (useNew w q cap data) := by
  unfold useNew
  dsimp only
  split
  · exact CStep.mk' (Conserve.of_csum (release_mem_res w _ _ _) fun _ _ => rfl)
  · split
    · rename_i old off pcap hl
      split
      · exact CStep.mk' (Conserve.of_csum (SameRes.refl w) fun k f => by rw [csum_pushChunk]; simp)
      · exact CStep.mk' (Conserve.of_csum (release_mem_res w _ _ _) fun k f => by
          simp only; rw [csum_setLast k f _ hl]; simp)
    · exact CStep.mk' (Conserve.of_csum (SameRes.refl w) fun k f => by rw [csum_pushChunk]; simp)

theorem getUseMemory_res (w : World) (q : Cq) (req : Nat) (data : Bytes) :
    CStep w q ((getUseMemory w q req data).1, (getUseMemory w q req data).2.1) := by
  unfold getUseMemory
  split
  · rename_i old off cap hfit
    exact Conserve.of_csum (SameRes.refl w) (useExisting_csum data (lastMemFits_some hfit))
  · split
    rename_i w' cap ha
    split
    rename_i w'' q' hu
    have hs := acquire_res w (memReq w req)
    rw [ha] at hs
    have h := useNew_res w' q cap data
    rw [hu] at h
    exact (hs.conserve q.chunks).trans h

theorem appendFile_res (w : World) (q : Cq) (fid off len : Nat) (fd : Bool) :
    CStep w q (appendFile w q fid off len fd) := by
  unfold appendFile
  split
  · refine CStep.mk' fun k f => ?_
    rw [csum_pushChunk, cres_file]
    cases fd <;> simp [wres_openFd, Fd.isOpen] <;> omega
  · exact Conserve.refl w q.chunks

theorem appendChunkqueue_res (w : World) (dest src : Cq) :
    Conserve w (dest.chunks ++ src.chunks) w
      ((appendChunkqueue dest src).1.chunks ++ (appendChunkqueue dest src).2.chunks) := by
  unfold appendChunkqueue
  split
  · exact Conserve.refl w _
  · intro k f; simp

theorem mwLoop_res (w : World) (cs : List Chunk) (n : Nat) :
    Conserve w cs (mwLoop w cs n).1 (mwLoop w cs n).2 := by
  induction cs generalizing w n with
  | nil => exact Conserve.refl w []
  | cons c rest ih =>
    simp only [mwLoop]
    split
    · have h1 : Conserve w ([c] ++ rest) (release w c) ([] ++ rest) := (release_conserve w c).frame_right rest
      exact h1.trans (ih (release w c) (n - c.rem))
    · refine Conserve.of_csum (SameRes.refl w) fun k f => ?_
      cases c <;> simp [Chunk.adv, cres_file]

theorem markWritten_res (w : World) (q : Cq) (n : Nat) : CStep w q (markWritten w q n) :=
  mwLoop_res w q.chunks n

theorem rfLoop_res (w : World) (cs : List Chunk) : Conserve w cs (rfLoop w cs).1 (rfLoop w cs).2 := by
  induction cs generalizing w with
  | nil => exact Conserve.refl w []
  | cons c rest ih =>
    simp only [rfLoop]
    split
    · have h1 : Conserve w ([c] ++ rest) (release w c) ([] ++ rest) := (release_conserve w c).frame_right rest
      exact h1.trans (ih (release w c))
    · exact Conserve.refl w _

theorem removeFinished_res (w : World) (q : Cq) : CStep w q (removeFinished w q) := rfLoop_res w q.chunks

theorem reLoop_res (w : World) (c : Chunk) (cs : List Chunk) :
    Conserve w (c :: cs) (reLoop w c cs).1 (reLoop w c cs).2 := by
  fun_induction reLoop w c cs with
  | case1 w c => exact Conserve.refl w _
  | case2 w c n h0 =>
    have := ((release_conserve w n).frame_left [c])
    simpa using this
  | case3 w c n h0 m rest' w' t heq ih =>
    rw [heq] at ih
    have h1 : Conserve w ([c] ++ ([n] ++ (m :: rest'))) (release w n) ([c] ++ ([] ++ (m :: rest'))) :=
      ((release_conserve w n).frame_right (m :: rest')).frame_left [c]
    have h2 : Conserve (release w n) ([c] ++ (m :: rest')) w' ([c] ++ t) := ih.frame_left [c]
    exact h1.trans h2
  | case4 w c n rest h0 w' t heq ih =>
    rw [heq] at ih
    exact ih.frame_left [c]

theorem removeEmpty_res (w : World) (q : Cq) : CStep w q (removeEmpty w q) := by
  unfold removeEmpty
  split
  rename_i w1 cs1 h1
  have hf := rfLoop_res w q.chunks
  rw [h1] at hf
  split
  · exact hf
  · rename_i c rest
    split
    rename_i w2 cs2 h2
    have hr := reLoop_res w1 c rest
    rw [h2] at hr
    exact hf.trans hr

theorem compactMemOffset_csum (q : Cq) (k : Kind) (f : Nat) :
    csum k f (compactMemOffset q).chunks = csum k f q.chunks := by
  unfold compactMemOffset
  split
  · rename_i d off cap rest hc
    split
    · rfl
    · simp [hc]
  · rfl

theorem cmLoop_res (w : World) (data : Bytes) (off cap : Nat) (cs : List Chunk) (need : Nat) :
    Conserve w cs (cmLoop w data off cap cs need).1 (cmLoop w data off cap cs need).2 := by
  fun_induction cmLoop w data off cap cs need with
  | case1 w data cap need => exact Conserve.of_csum (SameRes.refl w) fun k f => by simp
  | case2 w data cap c rest => exact Conserve.of_csum (SameRes.refl w) fun k f => by simp
  | case3 w data cap rest need hn d2 off2 cap2 l2 hgt =>
    exact Conserve.of_csum (SameRes.refl w) fun k f => by simp
  | case4 w data cap rest need hn d2 off2 cap2 l2 hle ih =>
    have h1 : Conserve w ([.mem d2 off2 cap2] ++ rest) (release w (.mem d2 off2 cap2)) ([] ++ rest) :=
      (release_conserve w _).frame_right rest
    exact h1.trans ih
  | case5 w data cap c rest need hn hc => exact Conserve.of_csum (SameRes.refl w) fun k f => by simp

theorem compactMem_res (w : World) (q : Cq) (clen : Nat) : CStep w q (compactMem w q clen) := by
  unfold compactMem
  split
  · rename_i d off cap rest hc
    dsimp only
    have key : ∀ (w1 : World) (data : Bytes) (o c : Nat) (need : Nat), SameRes w w1 →
        CStep w q ((cmLoop w1 data o c rest need).1, { q with chunks := (cmLoop w1 data o c rest need).2 }) := by
      intro w1 data o c need hs
      have h0 : Conserve w q.chunks w1 rest := by
        rw [hc]
        exact Conserve.of_csum hs fun k f => by simp
      exact h0.trans (cmLoop_res w1 data o c rest need)
    split
    · exact Conserve.refl w _
    · split
      · split
        · exact key w _ _ _ _ (SameRes.refl w)
        · exact key w _ _ _ _ (SameRes.refl w)
      · exact key _ _ _ _ _ ((acquire_res w (clen + 1)).trans (release_mem_res _ d off cap))
  · exact Conserve.refl w _

/-- duplicating `n` bytes of a chunk: a file chunk's descriptor is dup()ed -/
theorem dupFile_res (w : World) (q : Cq) (fid off len n : Nat) (fd : Fd) :
    Conserve w q.chunks (if fd.isOpen = true then w.openFd fid else w)
      (pushChunk q (.file fid off len false fd) n).chunks := by
  intro k f
  rw [csum_pushChunk, cres_file]
  cases hfd : fd.isOpen <;> simp [wres_openFd] <;> omega

theorem stealPartial_res (w : World) (dest : Cq) (c : Chunk) (n : Nat) :
    CStep w dest (stealPartial w dest c n) := by
  cases c with
  | mem d off cap => exact appendMem_res w dest _
  | file fid off len t fd =>
    simp only [stealPartial]
    split
    · exact dupFile_res w dest fid off (off + n) n (dupFd t fd)
    · exact Conserve.refl w _

theorem moveChunk_res (w : World) (dest : Cq) (c : Chunk) :
    Conserve w (dest.chunks ++ [c]) (moveChunk w dest c).1 (moveChunk w dest c).2.chunks := by
  unfold moveChunk
  split
  · exact Conserve.of_csum (SameRes.refl w) fun k f => by simp [pushChunk]
  · have := (release_conserve w c).frame_left dest.chunks
    simpa using this

theorem stealLoop_res (w : World) (dest : Cq) (cs : List Chunk) (len : Nat) :
    Conserve w (dest.chunks ++ cs) (stealLoop w dest cs len).1
      ((stealLoop w dest cs len).2.1.chunks ++ (stealLoop w dest cs len).2.2.1) := by
  fun_induction stealLoop w dest cs len with
  | case1 w dest len => exact Conserve.refl w _
  | case2 w dest c rest len hge h0 =>
    have := (moveChunk_res w dest c).frame_right rest
    simpa using this
  | case3 w dest c rest len hge h0 w' dest' cs' moved heq ih =>
    rw [heq] at ih
    have h1 := (moveChunk_res w dest c).frame_right rest
    simp only [List.append_assoc, List.singleton_append] at h1
    exact h1.trans ih
  | case4 w dest c rest len hlt =>
    have h1 : Conserve w (dest.chunks ++ (c :: rest)) (stealPartial w dest c len).1
        ((stealPartial w dest c len).2.chunks ++ (c :: rest)) := (stealPartial_res w dest c len).frame_right _
    refine h1.trans (Conserve.of_csum (SameRes.refl _) fun k f => ?_)
    cases c <;> simp [Chunk.adv, cres_file]

theorem steal_res (w : World) (dest src : Cq) (len : Nat) :
    Conserve w (dest.chunks ++ src.chunks) (steal w dest src len).1
      ((steal w dest src len).2.1.chunks ++ (steal w dest src len).2.2.chunks) := by
  unfold steal
  split
  rename_i w' dest' cs moved heq
  have h := stealLoop_res w dest src.chunks len
  rw [heq] at h
  exact h

theorem peekChunk_res {w : World} {n : Nat} {acc : Bytes} {c : Chunk} {w1 : World} {c1 : Chunk}
    {acc1 : Bytes} {ok : Bool} (h : peekChunk w n acc c = (w1, c1, acc1, ok)) :
    Conserve w [c] w1 [c1] := by
  cases c with
  | mem d off cap =>
    simp only [peekChunk, Prod.mk.injEq] at h
    obtain ⟨rfl, rfl, rfl, rfl⟩ := h
    exact Conserve.refl w _
  | file fid off len t fd =>
    simp only [peekChunk] at h
    have hopen : ∀ w2 fd2 b, (if fd.isOpen = true then (w, fd, true) else openChunk w fid len t) = (w2, fd2, b) →
        Conserve w [.file fid off len t fd] w2 [.file fid off len t fd2] := by
      intro w2 fd2 b he
      split at he
      · rename_i hopen
        simp only [Prod.mk.injEq] at he
        obtain ⟨rfl, rfl, _⟩ := he
        exact Conserve.refl w _
      · rename_i hclosed
        unfold openChunk at he
        split at he
        · simp only [Prod.mk.injEq] at he
          obtain ⟨rfl, rfl, _⟩ := he
          intro k f
          simp only [csum_cons, csum_nil, cres_file]
          cases k <;> simp_all [Fd.isOpen]
        · dsimp only at he
          have hfd2 : fd2 = .ro ∧ w2 = w.openFd fid := by
            split at he <;> (simp only [Prod.mk.injEq] at he; exact ⟨he.2.1.symm, he.1.symm⟩)
          obtain ⟨rfl, rfl⟩ := hfd2
          intro k f
          simp only [csum_cons, csum_nil, cres_file, wres_openFd]
          cases k <;> simp_all [Fd.isOpen] <;> split <;> omega
    split at h
    · rename_i w2 fd2 heq
      simp only [Prod.mk.injEq] at h
      obtain ⟨rfl, rfl, rfl, rfl⟩ := h
      exact hopen _ _ _ heq
    · rename_i w2 fd2 heq
      have := hopen _ _ _ heq
      split at h
      · simp only [Prod.mk.injEq] at h
        obtain ⟨rfl, rfl, rfl, rfl⟩ := h
        exact this
      · split at h <;> (simp only [Prod.mk.injEq] at h; obtain ⟨rfl, rfl, rfl, rfl⟩ := h; exact this)

theorem peekLoop_res (w : World) (n : Nat) (acc : Bytes) (cs : List Chunk) :
    Conserve w cs (peekLoop w n acc cs).1 (peekLoop w n acc cs).2.1 := by
  fun_induction peekLoop w n acc cs with
  | case1 w acc => exact Conserve.refl w _
  | case2 w acc c rest w1 c' acc1 heq =>
    have := (peekChunk_res heq).frame_right rest
    simpa using this
  | case3 w acc c rest w1 c' acc1 heq hn =>
    have := (peekChunk_res heq).frame_right rest
    simpa using this
  | case4 w acc c rest w1 c' acc1 heq hn w2 rest2 acc2 ok heq2 ih =>
    rw [heq2] at ih
    have h1 := (peekChunk_res heq).frame_right rest
    have h2 : Conserve w1 ([c'] ++ rest) w2 ([c'] ++ rest2) := ih.frame_left [c']
    exact h1.trans h2

theorem peekData_res (w : World) (q : Cq) (n : Nat) :
    CStep w q ((peekData w q n).1, (peekData w q n).2.1) := by
  unfold peekData
  split
  rename_i w1 cs acc ok heq
  have h := peekLoop_res w n [] q.chunks
  rw [heq] at h
  exact h

theorem readData_res {w : World} {q : Cq} {n : Nat} {w' : World} {q' : Cq} {r : Option Bytes}
    (h : readData w q n = (w', q', r)) : CStep w q (w', q') := by
  unfold readData at h
  split at h
  rename_i w1 q1 acc ok heq
  have hp := peekData_res w q n
  rw [heq] at hp
  split at h
  · simp only [Prod.mk.injEq] at h
    obtain ⟨rfl, rfl, rfl⟩ := h
    exact hp
  · simp only [Prod.mk.injEq] at h
    obtain ⟨rfl, rfl, rfl⟩ := h
    exact Conserve.trans hp (markWritten_res w1 q1 n)

theorem readSquash_res {w : World} {q : Cq} {w' : World} {q' : Cq} {ok : Bool}
    (h : readSquash w q = (w', q', ok)) : CStep w q (w', q') := by
  unfold readSquash at h
  split at h
  · simp only [Prod.mk.injEq] at h
    obtain ⟨rfl, rfl, rfl⟩ := h
    exact Conserve.refl w _
  · split at h
    rename_i w1 cap ha
    have hs1 := acquire_res w (q.length.toNat + 1)
    rw [ha] at hs1
    have hp := peekData_res w1 q q.length.toNat
    split at h
    · rename_i w2 q2 acc heq
      rw [heq] at hp
      simp only [Prod.mk.injEq] at h
      obtain ⟨rfl, rfl, rfl⟩ := h
      exact ((hs1.conserve q.chunks).trans hp).trans ((release_mem_res w2 [] 0 cap).conserve _)
    · rename_i w2 q2 acc heq
      rw [heq] at hp
      simp only [Prod.mk.injEq] at h
      obtain ⟨rfl, rfl, rfl⟩ := h
      refine ((hs1.conserve q.chunks).trans hp).trans ?_
      refine (releaseAll_conserve w2 q2.chunks).trans (Conserve.of_csum (SameRes.refl _) fun k f => by simp)

theorem copyRange_res (w : World) (dst : Cq) (c : Chunk) (off n : Nat) :
    CStep w dst (copyRange w dst c off n) := by
  cases c with
  | mem d coff cap => exact appendMem_res w dst _
  | file fid coff len t fd => exact dupFile_res w dst fid _ _ n (dupFd t fd)

theorem rangeLoop_res (w : World) (dst : Cq) (cs : List Chunk) (off len : Nat) :
    CStep w dst (rangeLoop w dst cs off len) := by
  fun_induction rangeLoop w dst cs off len with
  | case1 w dst off len => exact Conserve.refl w _
  | case2 w dst c rest off => exact Conserve.refl w _
  | case3 w dst c rest off len h0 hge ih => exact ih
  | case4 w dst c rest off len h0 hlt ih => exact Conserve.trans (copyRange_res w dst c off _) ih

theorem reset_res (w : World) (q : Cq) : CStep w q (reset w q) := releaseAll_conserve w q.chunks

/-! ### temp files -/

theorem wres_createTemp (k : Kind) (w : World) (dir f : Nat) :
    wres k (createTemp w dir).1 f = wres k w f + hit k .fd w.nfiles f + hit k .name w.nfiles f := by
  by_cases h : f = w.nfiles
  · subst h; cases k <;> simp [wres, createTemp, World.addFile, hit]
  · have h' : ¬ w.nfiles = f := fun e => h e.symm
    cases k <;> simp [wres, createTemp, World.addFile, h, h', hit]

theorem createTemp_res (w : World) (dir : Nat) (cs : List Chunk) :
    Conserve w cs (createTemp w dir).1 (cs ++ [.file (createTemp w dir).2 0 0 true .rw]) := by
  intro k f
  rw [wres_createTemp, csum_append]
  simp only [csum_cons, csum_nil, cres_file, createTemp]
  simp [Fd.isOpen]
  omega

/-- the chunk list after the directory loop: a new temp chunk if mkostemp() succeeded -/
def withTemp (cs : List Chunk) : Option Nat → List Chunk
  | some fid => cs ++ [.file fid 0 0 true .rw]
  | none => cs

theorem mkstempDirs_res {fuel : Nat} {w : World} {idx : Nat} {w' : World} {idx' : Nat} {r : Option Nat}
    (cs : List Chunk) (h : mkstempDirs fuel w idx = (w', idx', r)) :
    Conserve w cs w' (withTemp cs r) := by
  induction fuel generalizing w idx with
  | zero =>
    simp only [mkstempDirs, Prod.mk.injEq] at h
    obtain ⟨rfl, rfl, rfl⟩ := h
    exact Conserve.refl w cs
  | succ fuel ih =>
    simp only [mkstempDirs] at h
    split at h
    · have hp := (popM_res w).conserve cs
      split at h
      · exact hp.trans (ih h)
      · simp only [Prod.mk.injEq] at h
        obtain ⟨rfl, rfl, rfl⟩ := h
        exact hp.trans (createTemp_res (popM w).1 idx cs)
    · simp only [Prod.mk.injEq] at h
      obtain ⟨rfl, rfl, rfl⟩ := h
      exact Conserve.refl w cs

theorem newTempfile_res {w : World} {q : Cq} {w' : World} {q' : Cq} {ok : Bool}
    (h : newTempfile w q = (w', q', ok)) : CStep w q (w', q') := by
  unfold newTempfile at h
  split at h
  · split at h
    · rename_i w1 idx fid heq
      have hm := mkstempDirs_res q.chunks heq
      simp only [Prod.mk.injEq] at h
      obtain ⟨rfl, rfl, rfl⟩ := h
      exact hm
    · rename_i w1 idx heq
      have hm := mkstempDirs_res q.chunks heq
      simp only [Prod.mk.injEq] at h
      obtain ⟨rfl, rfl, rfl⟩ := h
      exact hm
  · split at h
    rename_i w1 fails hpm
    have hp := (popM_res w).conserve q.chunks
    rw [hpm] at hp
    split at h
    · simp only [Prod.mk.injEq] at h
      obtain ⟨rfl, rfl, rfl⟩ := h
      exact hp
    · split at h
      rename_i w2 fid hct
      have hc := createTemp_res w1 0 q.chunks
      rw [hct] at hc
      simp only [Prod.mk.injEq] at h
      obtain ⟨rfl, rfl, rfl⟩ := h
      exact hp.trans hc

theorem closeLast_res {w : World} {q : Cq} {fid off len : Nat} {t : Bool} {fd : Fd}
    (hl : q.chunks.getLast? = some (.file fid off len t fd)) (ho : fd.isOpen = true) :
    Conserve w q.chunks (w.closeFd fid) (setLast q.chunks (.file fid off len t .none)) := by
  intro k f
  rw [csum_setLast k f _ hl, wres_closeFd, cres_file, cres_file]
  have hn : Fd.none.isOpen = false := rfl
  by_cases hf : fid = f <;> cases k <;> simp [hn, ho, hf] <;> omega

theorem getAppendTempfile_res {w : World} {q : Cq} {w' : World} {q' : Cq} {ok : Bool}
    (h : getAppendTempfile w q = (w', q', ok)) : CStep w q (w', q') := by
  unfold getAppendTempfile at h
  split at h
  · rename_i fid off len fd hl
    split at h
    · rename_i ho
      split at h
      · simp only [Prod.mk.injEq] at h
        obtain ⟨rfl, rfl, rfl⟩ := h
        exact Conserve.refl w _
      · exact Conserve.trans (closeLast_res hl ho) (newTempfile_res h)
    · exact newTempfile_res h
  · exact newTempfile_res h

theorem bumpDir_chunks (w : World) (q : Cq) (e : Bool) : (bumpDir w q e).1.chunks = q.chunks := by
  unfold bumpDir; split <;> rfl

theorem dropOrCloseLast_res (w : World) (q : Cq) : CStep w q (dropOrCloseLast w q) := by
  unfold dropOrCloseLast
  split
  · rename_i c hl
    split
    · exact removeEmpty_res w q
    · split
      · split
        · rename_i ho
          exact closeLast_res hl ho
        · exact Conserve.refl w _
      · exact Conserve.refl w _
  · exact Conserve.refl w _

theorem tempfileErr_res {w : World} {q : Cq} {e : Bool} {w' : World} {q' : Cq} {r : Bool}
    (h : tempfileErr w q e = (w', q', r)) : CStep w q (w', q') := by
  unfold tempfileErr at h
  split at h
  rename_i w1 q1 heq
  simp only [Prod.mk.injEq] at h
  obtain ⟨rfl, rfl, rfl⟩ := h
  have := dropOrCloseLast_res w (bumpDir w q e).1
  rw [heq] at this
  unfold CStep at this ⊢
  rw [bumpDir_chunks] at this
  exact this

theorem writeGrow_res (w : World) (q : Cq) (d : Bytes) :
    Conserve w q.chunks (writeLast w q d) (growLast q d.length).chunks := by
  unfold writeLast growLast
  split
  · rename_i fid off len t fd hl
    intro k f
    simp only
    rw [csum_setLast k f _ hl, cres_file, cres_file, wres_addTl, (pwrite_res w fid len d).wres]
    by_cases hk : fid = f ∧ k = Kind.tlen
    · have : hit k .tlen fid f = 1 := by simp [hit, hk]
      cases t <;> simp [this] <;> omega
    · have : hit k .tlen fid f = 0 := by simp [hit, hk]
      cases t <;> simp [this] <;> omega
  · exact Conserve.refl w _

theorem mtLoop_res (fuel : Nat) (w : World) (q : Cq) (d : Bytes) :
    CStep w q ((mtLoop fuel w q d).1, (mtLoop fuel w q d).2.1) := by
  fun_induction mtLoop fuel w q d with
  | case1 w q d => exact Conserve.refl w _
  | case2 fuel w q d w1 q1 hg => exact getAppendTempfile_res hg
  | case3 fuel w q d w1 q1 hg h0 => exact getAppendTempfile_res hg
  | case4 fuel w q d w1 q1 hg h0 p he =>
    exact Conserve.trans (getAppendTempfile_res hg)
      (((popW_res w1).conserve _).trans (writeGrow_res p.1 q1 d))
  | case5 fuel w q d w1 q1 hg h0 p a he hge =>
    exact Conserve.trans (getAppendTempfile_res hg)
      (((popW_res w1).conserve _).trans (writeGrow_res p.1 q1 d))
  | case6 fuel w q d w1 q1 hg h0 p a he hlt ih =>
    have hw := writeGrow_res p.1 q1 (d.take a)
    have : (d.take a).length = a := by rw [List.length_take]; omega
    rw [this] at hw
    exact Conserve.trans (getAppendTempfile_res hg) ((((popW_res w1).conserve _).trans hw).trans ih)
  | case7 fuel w q d w1 q1 hg h0 p he ih =>
    exact Conserve.trans (getAppendTempfile_res hg) (((popW_res w1).conserve _).trans ih)
  | case8 fuel w q d w1 q1 hg h0 p he w2 q2 ht ih =>
    exact Conserve.trans (getAppendTempfile_res hg)
      ((((popW_res w1).conserve _).trans (tempfileErr_res ht)).trans ih)
  | case9 fuel w q d w1 q1 hg h0 p he w2 q2 ht =>
    exact Conserve.trans (getAppendTempfile_res hg) (((popW_res w1).conserve _).trans (tempfileErr_res ht))
  | case10 fuel w q d w1 q1 hg h0 p he w2 q2 ht ih =>
    exact Conserve.trans (getAppendTempfile_res hg)
      ((((popW_res w1).conserve _).trans (tempfileErr_res ht)).trans ih)
  | case11 fuel w q d w1 q1 hg h0 p he w2 q2 ht =>
    exact Conserve.trans (getAppendTempfile_res hg) (((popW_res w1).conserve _).trans (tempfileErr_res ht))

/-- chunkqueue_to_tempfiles() conserves -/
def ToTempRes (toTemp : World → Cq → World × Cq × Bool) : Prop :=
  ∀ w q, Conserve w q.chunks (toTemp w q).1 (toTemp w q).2.1.chunks

theorem cqmemPartial_res {toTemp : World → Cq → World × Cq × Bool} (ht : ToTempRes toTemp)
    (w : World) (dest : Cq) (wr : Nat) :
    Conserve w dest.chunks (cqmemPartial toTemp w dest wr).w (cqmemPartial toTemp w dest wr).dest.chunks := by
  unfold cqmemPartial
  split
  · rename_i c hl
    dsimp only
    refine Conserve.trans ?_ (ht _ _)
    have h1 : Conserve w (dest.chunks.dropLast ++ [c]) (mwLoop w dest.chunks.dropLast wr).1
        ((mwLoop w dest.chunks.dropLast wr).2 ++ [c]) := (mwLoop_res w dest.chunks.dropLast wr).frame_right [c]
    rw [← split_last hl] at h1
    refine h1.trans (Conserve.of_csum (SameRes.refl _) fun k f => ?_)
    simp only [markWritten, csum_cons, csum_append, csum_nil]
    omega
  · exact Conserve.refl w _

theorem cqmemWritten_res {toTemp : World → Cq → World × Cq × Bool} (ht : ToTempRes toTemp)
    (w : World) (dest : Cq) (dlen wr : Nat) :
    Conserve w dest.chunks (cqmemWritten toTemp w dest dlen wr).w
      (cqmemWritten toTemp w dest dlen wr).dest.chunks := by
  unfold cqmemWritten
  split
  · exact Conserve.refl w _
  · split
    · exact cqmemPartial_res ht w dest wr
    · exact mwLoop_res w dest.chunks dlen

theorem cqmemWrite_res {toTemp : World → Cq → World × Cq × Bool} (ht : ToTempRes toTemp)
    (w : World) (dest : Cq) (dbytes sbytes : Bytes) :
    Conserve w dest.chunks (cqmemWrite toTemp w dest dbytes sbytes).w
      (cqmemWrite toTemp w dest dbytes sbytes).dest.chunks := by
  unfold cqmemWrite
  dsimp only
  have hp := (popW_res w).conserve dest.chunks
  split
  · exact (hp.trans (writeGrow_res _ dest _)).trans (cqmemWritten_res ht _ _ _ _)
  · exact (hp.trans (writeGrow_res _ dest _)).trans (cqmemWritten_res ht _ _ _ _)
  · exact hp
  · exact hp.trans (tempfileErr_res (w' := (tempfileErr (popW w).1 dest true).1)
      (q' := (tempfileErr (popW w).1 dest true).2.1) (r := (tempfileErr (popW w).1 dest true).2.2) rfl)
  · exact hp.trans (tempfileErr_res (w' := (tempfileErr (popW w).1 dest false).1)
      (q' := (tempfileErr (popW w).1 dest false).2.1) (r := (tempfileErr (popW w).1 dest false).2.2) rfl)

theorem cqmemPre_res {toTemp : World → Cq → World × Cq × Bool} (ht : ToTempRes toTemp) (w : World) (dest : Cq) :
    Conserve w dest.chunks (cqmemPre toTemp w dest).1 (cqmemPre toTemp w dest).2.1.chunks := by
  unfold cqmemPre
  dsimp only
  split
  · exact ht w dest
  · exact Conserve.refl w _

theorem cqmem_res {toTemp : World → Cq → World × Cq × Bool} (ht : ToTempRes toTemp)
    (w : World) (dest : Cq) (src : List Chunk) (len : Nat) :
    Conserve w dest.chunks (cqmemToTempfile toTemp w dest src len).w
      (cqmemToTempfile toTemp w dest src len).dest.chunks := by
  have hp := cqmemPre_res ht w dest
  unfold cqmemToTempfile
  split
  · rename_i w1 dest1 dbytes iov0 heq
    rw [heq] at hp
    exact hp
  · rename_i w1 dest1 dbytes iov0 heq
    rw [heq] at hp
    split
    · exact hp
    · split
      · rename_i w2 dest2 hga
        exact hp.trans (getAppendTempfile_res hga)
      · rename_i w2 dest2 hga
        exact (hp.trans (getAppendTempfile_res hga)).trans (cqmemWrite_res ht w2 dest2 dbytes _)

/-- chunkqueue_steal_with_tempfiles() (and its nested instance) conserves -/
def SwRes (f : World → Cq → Cq → Nat → World × Cq × Cq × Bool) : Prop :=
  ∀ w dest src len, Conserve w (dest.chunks ++ src.chunks) (f w dest src len).1
    ((f w dest src len).2.1.chunks ++ (f w dest src len).2.2.1.chunks)

theorem swLoop_res {toTemp : World → Cq → World × Cq × Bool} (ht : ToTempRes toTemp) (fuel : Nat) :
    SwRes (swLoop toTemp fuel) := by
  intro w dest src len
  fun_induction swLoop toTemp fuel w dest src len with
  | case1 w dest src len => exact Conserve.refl w _
  | case2 fuel w dest src len hnil => exact Conserve.refl w _
  | case3 fuel w dest src len c cs hc hm r hneg =>
    exact (cqmem_res ht w dest src.chunks len).frame_right src.chunks
  | case4 fuel w dest src len c cs hc hm r hneg m h0 =>
    exact ((cqmem_res ht w dest src.chunks len).frame_right src.chunks).trans
      ((markWritten_res r.w src r.rc.toNat).frame_left r.dest.chunks)
  | case5 fuel w dest src len c cs hc hm r hneg m h0 ih =>
    exact (((cqmem_res ht w dest src.chunks len).frame_right src.chunks).trans
      ((markWritten_res r.w src r.rc.toNat).frame_left r.dest.chunks)).trans ih
  | case6 fuel w dest src len c cs hc hm clen h0 => exact steal_res w dest src clen
  | case7 fuel w dest src len c cs hc hm clen r h0 ih => exact (steal_res w dest src clen).trans ih

theorem toTempfilesWith_res {inner : World → Cq → Cq → Nat → World × Cq × Cq × Bool} (hi : SwRes inner) :
    ToTempRes (toTempfilesWith inner) := by
  intro w dest
  unfold toTempfilesWith
  dsimp only
  have h1 := hi w { dest with chunks := [], bytesIn := dest.bytesIn - dest.length.toNat } dest dest.length.toNat
  simp only [List.nil_append] at h1
  refine h1.trans ?_
  have h2 := (releaseAll_conserve
    (inner w { dest with chunks := [], bytesIn := dest.bytesIn - dest.length.toNat } dest dest.length.toNat).1
    (inner w { dest with chunks := [], bytesIn := dest.bytesIn - dest.length.toNat } dest
      dest.length.toNat).2.2.1.chunks).frame_left
    (inner w { dest with chunks := [], bytesIn := dest.bytesIn - dest.length.toNat } dest dest.length.toNat).2.1.chunks
  simpa using h2

theorem toTempStub_res : ToTempRes toTempStub := fun w q => Conserve.refl w _
theorem swInner_res : SwRes swInner := fun w dest src len => swLoop_res toTempStub_res _ w dest src len
theorem toTempfiles_res : ToTempRes toTempfiles := toTempfilesWith_res swInner_res
theorem stealWithTempfiles_res : SwRes stealWithTempfiles :=
  fun w dest src len => swLoop_res toTempfiles_res _ w dest src len

theorem appendMemToTempfile_res (w : World) (q : Cq) (d : Bytes) :
    CStep w q ((appendMemToTempfile w q d).1, (appendMemToTempfile w q d).2.1) := by
  unfold appendMemToTempfile
  have hpre : Conserve w q.chunks (if firstIsMem q = true then toTempfiles w q else (w, q, true)).1
      (if firstIsMem q = true then toTempfiles w q else (w, q, true)).2.1.chunks := by
    split
    · exact toTempfiles_res w q
    · exact Conserve.refl w _
  split
  · rename_i w1 q1 heq
    rw [heq] at hpre
    exact hpre
  · rename_i w1 q1 heq
    rw [heq] at hpre
    exact Conserve.trans hpre (mtLoop_res _ w1 q1 d)

/-! ## the closed system -/

/-- all chunks of the system -/
def Sys.chunks (s : Sys) : List Chunk := s.q0.chunks ++ s.q1.chunks

theorem sys_single {s s' : Sys} (i : Bool) {w' : World} {q' : Cq}
    (hs : s' = ({ s with w := w' } : Sys).set i q') (h : CStep s.w (s.get i) (w', q')) :
    Conserve s.w s.chunks s'.w s'.chunks := by
  subst hs
  cases i
  · exact Conserve.frame_right h s.q1.chunks
  · exact Conserve.frame_left h s.q0.chunks

theorem sys_pair {s s' : Sys} (i : Bool) {w' : World} {d' o' : Cq}
    (hs : s' = (({ s with w := w' } : Sys).set i d').set (!i) o')
    (h : Conserve s.w ((s.get i).chunks ++ (s.get (!i)).chunks) w' (d'.chunks ++ o'.chunks)) :
    Conserve s.w s.chunks s'.w s'.chunks := by
  subst hs
  cases i
  · exact h
  · intro k f
    have := h k f
    simp only [Sys.chunks, Sys.get, Sys.set, csum_append] at this ⊢
    simp only [Bool.not_true, if_true, if_false, Bool.false_eq_true] at this ⊢
    omega

/-- every operation conserves descriptors and temp-file names, whatever the
    fault schedule: nothing leaks, nothing is released twice -/
theorem step_conserve (s : Sys) (op : Op) : Conserve s.w s.chunks (step s op).1.w (step s op).1.chunks := by
  cases op with
  | appendMem qi d => exact sys_single qi rfl (appendMem_res s.w (s.get qi) d)
  | appendMemMin qi d => exact sys_single qi rfl (appendMemMin_res s.w (s.get qi) d)
  | appendBuffer qi d => exact sys_single qi rfl (appendBuffer_res s.w (s.get qi) d)
  | appendBufferOpen qi d => exact sys_single qi rfl (appendBufferOpen_res s.w (s.get qi) d)
  | getUseMemory qi req d => exact sys_single qi rfl (getUseMemory_res s.w (s.get qi) req d)
  | appendFile qi fid off len fd => exact sys_single qi rfl (appendFile_res s.w (s.get qi) fid off len fd)
  | appendChunkqueue qi =>
    exact sys_pair (w' := s.w) qi rfl (appendChunkqueue_res s.w (s.get qi) (s.get (!qi)))
  | appendMemToTempfile qi d => exact sys_single qi rfl (appendMemToTempfile_res s.w (s.get qi) d)
  | steal qi n => exact sys_pair qi rfl (steal_res s.w (s.get qi) (s.get (!qi)) n)
  | stealWithTempfiles qi n => exact sys_pair qi rfl (stealWithTempfiles_res s.w (s.get qi) (s.get (!qi)) n)
  | appendCqRange qi self off len =>
    cases self
    · simp only [step, Bool.false_eq_true, ↓reduceIte]
      exact sys_single qi rfl (rangeLoop_res s.w (s.get qi) (s.get (!qi)).chunks off len)
    · simp only [step, ↓reduceIte]
      split
      · exact Conserve.refl _ _
      · exact sys_single qi rfl (rangeLoop_res s.w (s.get qi) (s.get qi).chunks off len)
  | markWritten qi n =>
    simp only [step]
    split
    · exact sys_single qi rfl (markWritten_res s.w (s.get qi) n)
    · exact Conserve.refl _ _
  | removeFinished qi => exact sys_single qi rfl (removeFinished_res s.w (s.get qi))
  | removeEmpty qi => exact sys_single qi rfl (removeEmpty_res s.w (s.get qi))
  | compactMem qi clen =>
    simp only [step]
    split
    · exact sys_single qi rfl (compactMem_res s.w (s.get qi) clen)
    · exact Conserve.refl _ _
  | compactMemOffset qi =>
    simp only [step]
    split
    · exact Conserve.refl _ _
    · exact sys_single (w' := s.w) qi rfl
        (Conserve.of_csum (SameRes.refl s.w) (compactMemOffset_csum (s.get qi)))
  | peekData qi n => exact sys_single qi rfl (peekData_res s.w (s.get qi) n)
  | readData qi n => exact sys_single qi rfl (readData_res (w := s.w) (q := s.get qi) (n := n) rfl)
  | readSquash qi => exact sys_single qi rfl (readSquash_res (w := s.w) (q := s.get qi) rfl)
  | reset qi => exact sys_single qi rfl (reset_res s.w (s.get qi))

theorem run_conserve (s : Sys) (ops : List Op) : Conserve s.w s.chunks (run s ops).w (run s ops).chunks := by
  induction ops generalizing s with
  | nil => exact Conserve.refl _ _
  | cons op ops ih => exact (step_conserve s op).trans (ih (step s op).1)


/-- a well-accounted system: every open descriptor is held by a chunk, and
    apart from the `base f` names that exist independently of the queues (1 for
    a source file) a file's name exists iff a temp chunk owns it -/
def Acct (base : Nat → Int) (s : Sys) : Prop :=
  ∀ f, (s.w.files f).nfd = csum .fd f s.chunks ∧ (s.w.files f).nlink = base f + csum .name f s.chunks ∧
    (s.w.files f).tl = csum .tlen f s.chunks

theorem Acct.of_conserve {base : Nat → Int} {s s' : Sys} (h : Acct base s)
    (hc : Conserve s.w s.chunks s'.w s'.chunks) : Acct base s' := by
  intro f
  have h0 := hc .fd f
  have h1 := hc .name f
  have h2 := hc .tlen f
  obtain ⟨a, b, c⟩ := h f
  simp only [wres] at h0 h1 h2
  exact ⟨by omega, by omega, by omega⟩

end LtVerif.Cq
