/-
  Helper lemmas for the chunk-queue model (C17).
  Part 2: resources — every descriptor and every temp-file name the world
          knows of is held by exactly the chunks that the model says hold it
          (`Conserve`), through every operation and every fault schedule.
-/
import LtVerif.Proofs.Cq
namespace LtVerif.Cq

/-- descriptors chunk `c` holds on file `f` -/
def Chunk.fdOn (f : Nat) : Chunk → Int
  | .file fid _ _ _ fd => if fid = f ∧ fd.isOpen = true then 1 else 0
  | .mem .. => 0

/-- 1 if `c` is the temp chunk that owns the name of file `f` -/
def Chunk.tmpOn (f : Nat) : Chunk → Int
  | .file fid _ _ t _ => if fid = f ∧ t = true then 1 else 0
  | .mem .. => 0

/-- the two kinds of resource: `false` = descriptors, `true` = names of temp files -/
def cres (k : Bool) (f : Nat) (c : Chunk) : Int := if k then c.tmpOn f else c.fdOn f

def csum (k : Bool) (f : Nat) : List Chunk → Int
  | [] => 0
  | c :: cs => cres k f c + csum k f cs

def wres (k : Bool) (w : World) (f : Nat) : Int := if k then (w.files f).nlink else (w.files f).nfd

/-- conservation: what the world holds beyond what the chunks account for
    does not change (in a well-accounted system that difference is 0 for
    descriptors, and 1 name for every source file) -/
def Conserve (w : World) (cs : List Chunk) (w' : World) (cs' : List Chunk) : Prop :=
  ∀ k f, wres k w' f - csum k f cs' = wres k w f - csum k f cs

@[simp] theorem csum_nil (k : Bool) (f : Nat) : csum k f [] = 0 := rfl
@[simp] theorem csum_cons (k : Bool) (f : Nat) (c : Chunk) (cs : List Chunk) :
    csum k f (c :: cs) = cres k f c + csum k f cs := rfl

@[simp] theorem csum_append (k : Bool) (f : Nat) (a b : List Chunk) :
    csum k f (a ++ b) = csum k f a + csum k f b := by
  induction a with
  | nil => simp
  | cons c cs ih => simp [ih, Int.add_assoc]

@[simp] theorem cres_mem (k : Bool) (f : Nat) (d : Bytes) (off cap : Nat) : cres k f (.mem d off cap) = 0 := by
  cases k <;> rfl

theorem Conserve.refl (w : World) (cs : List Chunk) : Conserve w cs w cs := fun _ _ => rfl

theorem Conserve.trans {w1 w2 w3 : World} {a b c : List Chunk} (h1 : Conserve w1 a w2 b)
    (h2 : Conserve w2 b w3 c) : Conserve w1 a w3 c := fun k f => (h2 k f).trans (h1 k f)

theorem Conserve.frame_right {w w' : World} {a a' : List Chunk} (h : Conserve w a w' a') (x : List Chunk) :
    Conserve w (a ++ x) w' (a' ++ x) := by
  intro k f
  have := h k f
  simp only [csum_append]
  omega

theorem Conserve.frame_left {w w' : World} {a a' : List Chunk} (h : Conserve w a w' a') (x : List Chunk) :
    Conserve w (x ++ a) w' (x ++ a') := by
  intro k f
  have := h k f
  simp only [csum_append]
  omega

/-- the world's counters did not change -/
def SameRes (w w' : World) : Prop := ∀ f, (w'.files f).nfd = (w.files f).nfd ∧ (w'.files f).nlink = (w.files f).nlink

theorem SameRes.refl (w : World) : SameRes w w := fun _ => ⟨rfl, rfl⟩

theorem SameRes.trans {a b c : World} (h1 : SameRes a b) (h2 : SameRes b c) : SameRes a c :=
  fun f => ⟨(h2 f).1.trans (h1 f).1, (h2 f).2.trans (h1 f).2⟩

theorem SameRes.wres {w w' : World} (h : SameRes w w') (k : Bool) (f : Nat) : wres k w' f = wres k w f := by
  cases k
  · exact (h f).1
  · exact (h f).2

theorem SameRes.conserve {w w' : World} (h : SameRes w w') (cs : List Chunk) : Conserve w cs w' cs :=
  fun k f => by rw [h.wres]

/-- same resources held, chunk by chunk (data, offsets, lengths may differ) -/
theorem Conserve.of_csum {w w' : World} {cs cs' : List Chunk} (hw : SameRes w w')
    (hc : ∀ k f, csum k f cs' = csum k f cs) : Conserve w cs w' cs' :=
  fun k f => by rw [hw.wres, hc]

theorem pushOversized_res (w : World) (n : Nat) : SameRes w (pushOversized w n) := by
  unfold pushOversized
  split
  · exact SameRes.refl w
  · split
    · split
      · exact fun _ => ⟨rfl, rfl⟩
      · exact SameRes.refl w
    · exact SameRes.refl w

theorem acquire_res (w : World) (n : Nat) : SameRes w (acquire w n).1 := by
  unfold acquire
  split
  · exact SameRes.refl w
  · split
    · dsimp only
      split
      · exact fun _ => ⟨rfl, rfl⟩
      · exact SameRes.refl w
    · exact SameRes.refl w

theorem popM_res (w : World) : SameRes w (popM w).1 := by
  unfold popM; split <;> exact fun _ => ⟨rfl, rfl⟩

theorem popW_res (w : World) : SameRes w (popW w).1 := by
  unfold popW; split <;> exact fun _ => ⟨rfl, rfl⟩

theorem pwrite_res (w : World) (fid pos : Nat) (d : Bytes) : SameRes w (w.pwrite fid pos d) := by
  intro f
  by_cases h : f = fid
  · subst h; simp [World.pwrite]
  · simp [World.pwrite, setFile_files_other w _ h]

theorem wres_openFd (k : Bool) (w : World) (fid f : Nat) :
    wres k (w.openFd fid) f = wres k w f + (if fid = f ∧ k = false then 1 else 0) := by
  by_cases h : f = fid
  · subst h; cases k <;> simp [wres, World.openFd]
  · have h' : ¬ fid = f := fun e => h e.symm
    cases k <;> simp [wres, World.openFd, setFile_files_other w _ h, h']

theorem wres_closeFd (k : Bool) (w : World) (fid f : Nat) :
    wres k (w.closeFd fid) f = wres k w f - (if fid = f ∧ k = false then 1 else 0) := by
  by_cases h : f = fid
  · subst h; cases k <;> simp [wres, World.closeFd]
  · have h' : ¬ fid = f := fun e => h e.symm
    cases k <;> simp [wres, World.closeFd, setFile_files_other w _ h, h']

theorem wres_unlink (k : Bool) (w : World) (fid f : Nat) :
    wres k (w.unlink fid) f = wres k w f - (if fid = f ∧ k = true then 1 else 0) := by
  by_cases h : f = fid
  · subst h; cases k <;> simp [wres, World.unlink]
  · have h' : ¬ fid = f := fun e => h e.symm
    cases k <;> simp [wres, World.unlink, setFile_files_other w _ h, h']

theorem cres_file (k : Bool) (f fid off len : Nat) (t : Bool) (fd : Fd) :
    cres k f (.file fid off len t fd) =
      if k then (if fid = f ∧ t = true then 1 else 0) else (if fid = f ∧ fd.isOpen = true then 1 else 0) := by
  cases k <;> rfl

/-- chunk_release() gives back exactly what the chunk holds -/
theorem wres_release (k : Bool) (w : World) (c : Chunk) (f : Nat) :
    wres k (release w c) f = wres k w f - cres k f c := by
  cases c with
  | mem d off cap =>
    simp only [release, cres_mem, Int.sub_zero]
    split
    · rfl
    · split
      · exact (pushOversized_res w cap).wres k f
      · rfl
  | file fid off len t fd =>
    simp only [release, cres_file]
    cases t <;> cases hfd : fd.isOpen <;> cases k <;>
      simp [wres_closeFd, wres_unlink, hfd] <;> split <;> omega

theorem release_conserve (w : World) (c : Chunk) : Conserve w [c] (release w c) [] := by
  intro k f
  rw [wres_release]
  simp

theorem wres_releaseAll (k : Bool) (w : World) (cs : List Chunk) (f : Nat) :
    wres k (releaseAll w cs) f = wres k w f - csum k f cs := by
  induction cs generalizing w with
  | nil => simp [releaseAll]
  | cons c cs ih =>
    simp only [releaseAll, csum_cons]
    rw [ih, wres_release]
    omega

theorem releaseAll_conserve (w : World) (cs : List Chunk) : Conserve w cs (releaseAll w cs) [] := by
  intro k f
  rw [wres_releaseAll]
  simp

end LtVerif.Cq
