/-
  Helper lemmas for the chunk-queue model (C17).
  Part 3: the spill paths — every write to a temp file is an append at its
          end through the one chunk that owns it (`GI`), so spilling is
          invisible in the queued bytes and a failed spill keeps a prefix.
-/
import LtVerif.Proofs.CqRes
namespace LtVerif.Cq

/-! ## file contents only grow at the end -/

def Ext (w w' : World) : Prop := ∀ f, (w.files f).content <+: (w'.files f).content

theorem Ext.refl (w : World) : Ext w w := fun _ => List.prefix_refl _

theorem Ext.trans {a b c : World} (h1 : Ext a b) (h2 : Ext b c) : Ext a c :=
  fun f => List.IsPrefix.trans (h1 f) (h2 f)

theorem SameFiles.ext {w w' : World} (h : SameFiles w w') : Ext w w' :=
  fun f => by rw [h.content f]; exact List.prefix_refl _

theorem content_ext {w w' : World} {c : Chunk} (hv : c.Valid w) (he : Ext w w') : c.content w' = c.content w := by
  cases c with
  | mem d off cap => rfl
  | file fid off len t fd =>
    obtain ⟨t', ht⟩ := he fid
    simp only [Chunk.Valid, sz] at hv
    simp only [Chunk.content, ← ht, List.drop_append, List.take_append, List.length_drop]
    have h0 : len - off - ((w.files fid).content.length - off) = 0 := by omega
    simp [h0]

theorem absChunks_ext {w w' : World} {cs : List Chunk} (hv : ValidAll w cs) (he : Ext w w') :
    absChunks w' cs = absChunks w cs := by
  induction cs with
  | nil => rfl
  | cons c cs ih => simp [ih hv.tail, content_ext hv.head he]

/-! ## names, ghost, and the global invariant -/

/-- world-only invariant: a file has at most one name beyond its `base` ones;
    unused ids have none; while the extra name exists the ghost equals the size -/
structure WI (base : Nat → Int) (w : World) : Prop where
  nb : ∀ f, (w.files f).nlink ≤ base f + 1
  unused : ∀ f, w.nfiles ≤ f →
    (w.files f).nlink ≤ 0 ∧ base f = 0 ∧ ((w.files f).nlink = 0 → (w.files f).tl = 0)
  full : ∀ f, base f + 1 ≤ (w.files f).nlink → (w.files f).tl = sz w f

theorem SameFiles.wi {base : Nat → Int} {w w' : World} (h : SameFiles w w') (hw : WI base w) : WI base w' := by
  refine ⟨fun f => ?_, fun f hle => ?_, fun f hge => ?_⟩
  · rcases h.own f with ⟨a, _⟩ | a
    · rw [a]; exact hw.nb f
    · have := hw.nb f; omega
  · rw [h.nfiles] at hle
    obtain ⟨u1, u2, u3⟩ := hw.unused f hle
    rcases h.own f with ⟨a, b⟩ | a
    · rw [a, b]; exact ⟨u1, u2, u3⟩
    · exact ⟨by omega, u2, fun e => by omega⟩
  · rcases h.own f with ⟨a, b⟩ | a
    · rw [a] at hge; rw [b, h.sz]; exact hw.full f hge
    · have := hw.nb f; omega

theorem createTemp_wi {base : Nat → Int} {w : World} (dir : Nat) (hf : Fresh w) (hw : WI base w) :
    WI base (createTemp w dir).1 := by
  obtain ⟨u1, u2, u3⟩ := hw.unused w.nfiles (Nat.le_refl _)
  have hsz := hf w.nfiles (Nat.le_refl _)
  have key : ∀ f, f ≠ w.nfiles → (createTemp w dir).1.files f = w.files f := by
    intro f hne; simp [createTemp, World.addFile, hne]
  have knew : ((createTemp w dir).1.files w.nfiles).nlink = (w.files w.nfiles).nlink + 1 ∧
      ((createTemp w dir).1.files w.nfiles).tl = (w.files w.nfiles).tl ∧
      sz (createTemp w dir).1 w.nfiles = 0 := by
    simp [createTemp, World.addFile, sz]
  refine ⟨fun f => ?_, fun f hle => ?_, fun f hge => ?_⟩
  · by_cases hne : f = w.nfiles
    · subst hne; rw [knew.1]; omega
    · rw [key f hne]; exact hw.nb f
  · have hle' : w.nfiles + 1 ≤ f := hle
    rw [key f (by omega)]
    exact hw.unused f (by omega)
  · by_cases hne : f = w.nfiles
    · subst hne
      rw [knew.1] at hge
      rw [knew.2.1, knew.2.2]
      exact u3 (by omega)
    · rw [key f hne] at hge ⊢
      have : sz (createTemp w dir).1 f = sz w f := by simp [sz, key f hne]
      rw [this]; exact hw.full f hge

theorem cres_nonneg (k : Kind) (f : Nat) (c : Chunk) : 0 ≤ cres k f c := by
  cases c with
  | mem d off cap => simp
  | file fid off len t fd =>
    rw [cres_file]
    have h1 : ∀ k0, 0 ≤ hit k k0 fid f ∧ hit k k0 fid f ≤ 1 := fun k0 => by unfold hit; split <;> omega
    have a := h1 .fd; have b := h1 .name; have c := h1 .tlen
    have hm : 0 ≤ (len : Int) * hit k .tlen fid f := Int.mul_nonneg (Int.natCast_nonneg _) c.1
    split <;> split <;> omega

theorem csum_nonneg (k : Kind) (f : Nat) (cs : List Chunk) : 0 ≤ csum k f cs := by
  induction cs with
  | nil => simp
  | cons c cs ih => have := cres_nonneg k f c; simp only [csum_cons]; omega

theorem cres_le_csum {k : Kind} {f : Nat} {c : Chunk} {cs : List Chunk} (h : c ∈ cs) :
    cres k f c ≤ csum k f cs := by
  induction cs with
  | nil => cases h
  | cons x xs ih =>
    simp only [csum_cons]
    cases h with
    | head => have := csum_nonneg k f xs; omega
    | tail _ h => have := ih h; have := cres_nonneg k f x; omega

/-- if the names of `f` held by `cs` add up to 1 and `c` holds one, `c`'s
    length is the whole ghost sum -/
theorem tlen_of_unique {f : Nat} {c : Chunk} {cs : List Chunk} (h : c ∈ cs) (hc : cres .name f c = 1)
    (hu : csum .name f cs = 1) : csum .tlen f cs = cres .tlen f c := by
  have zero_of : ∀ (xs : List Chunk), csum .name f xs = 0 → csum .tlen f xs = 0 := by
    intro xs
    induction xs with
    | nil => intro _; rfl
    | cons x xs ih =>
      intro h0
      simp only [csum_cons] at h0 ⊢
      have a := cres_nonneg .name f x
      have b := csum_nonneg .name f xs
      have hx : cres .name f x = 0 := by omega
      have : cres .tlen f x = 0 := by
        cases x with
        | mem => simp
        | file fid off len t fd =>
          rw [cres_file] at hx ⊢
          unfold hit at hx ⊢
          by_cases h1 : fid = f <;> cases t <;> simp_all
      rw [this, ih (by omega)]; rfl
  induction cs with
  | nil => cases h
  | cons x xs ih =>
    simp only [csum_cons] at hu ⊢
    cases h with
    | head =>
      rw [zero_of xs (by omega)]; omega
    | tail _ h =>
      have a := cres_nonneg .name f x
      have b := cres_le_csum (k := .name) (f := f) h
      have hx : cres .name f x = 0 := by omega
      have : cres .tlen f x = 0 := by
        cases x with
        | mem => simp
        | file fid off len t fd =>
          rw [cres_file] at hx ⊢
          unfold hit at hx ⊢
          by_cases h1 : fid = f <;> cases t <;> simp_all
      rw [this, ih h (by omega)]; omega

/-- the global invariant over all chunks `L` of the system -/
structure GI (base : Nat → Int) (w : World) (L : List Chunk) : Prop where
  fresh : Fresh w
  wi : WI base w
  valid : ValidAll w L
  acct : ∀ f, (w.files f).nlink = base f + csum .name f L ∧ (w.files f).tl = csum .tlen f L

/-- a temp chunk spans its whole file: the next write through it is an append -/
theorem GI.full_of_mem {base : Nat → Int} {w : World} {L : List Chunk} (h : GI base w L)
    {fid off len : Nat} {fd : Fd} (hm : Chunk.file fid off len true fd ∈ L) : len = sz w fid := by
  obtain ⟨a, b⟩ := h.acct fid
  have hc : cres .name fid (.file fid off len true fd) = 1 := by rw [cres_file]; simp [hit]
  have hle := cres_le_csum (k := .name) (f := fid) hm
  have hnb := h.wi.nb fid
  have hu : csum .name fid L = 1 := by omega
  have ht := tlen_of_unique hm hc hu
  have hfull := h.wi.full fid (by omega)
  have : cres .tlen fid (.file fid off len true fd) = len := by rw [cres_file]; simp [hit]
  have : ((sz w fid : Nat) : Int) = len := by omega
  omega

theorem GI.step {base : Nat → Int} {w w' : World} {a a' X : List Chunk} (h : GI base w (a ++ X))
    (hc : Conserve w a w' a') (hg : Grows w w') (hf : Fresh w') (hw : WI base w') (hv : ValidAll w' a') :
    GI base w' (a' ++ X) := by
  refine ⟨hf, hw, ValidAll.append hv (h.valid.right.mono hg), fun f => ?_⟩
  obtain ⟨p, q⟩ := h.acct f
  have c1 := hc .name f
  have c2 := hc .tlen f
  simp only [wres, csum_append] at *
  exact ⟨by omega, by omega⟩

/-! ## spill steps -/

/-- a step from queue `q` in world `w` to `q'` in `w'`, the rest of the system
    being `X`; `R` relates the queued bytes before and after -/
def Spill (base : Nat → Int) (X : List Chunk) (w : World) (q : Cq) (w' : World) (q' : Cq)
    (R : Bytes → Bytes → Prop) : Prop :=
  QV w q → GI base w (q.chunks ++ X) →
    QV w' q' ∧ GI base w' (q'.chunks ++ X) ∧ Ext w w' ∧ R (q.abs w) (q'.abs w')

/-- the bytes are unchanged -/
def Same (a a' : Bytes) : Prop := a' = a

theorem Spill.refl (base : Nat → Int) (X : List Chunk) (w : World) (q : Cq) : Spill base X w q w q Same :=
  fun hq hg => ⟨hq, hg, Ext.refl w, rfl⟩

theorem Spill.same_then {base : Nat → Int} {X : List Chunk} {w w1 w2 : World} {q q1 q2 : Cq}
    {R : Bytes → Bytes → Prop} (h1 : Spill base X w q w1 q1 Same) (h2 : Spill base X w1 q1 w2 q2 R) :
    Spill base X w q w2 q2 R := by
  intro hq hg
  obtain ⟨a1, a2, a3, a4⟩ := h1 hq hg
  obtain ⟨b1, b2, b3, b4⟩ := h2 a1 a2
  refine ⟨b1, b2, a3.trans b3, ?_⟩
  rw [← a4]; exact b4

/-- a step that leaves file contents alone and the queued bytes unchanged -/
theorem Spill.of_same {base : Nat → Int} {X : List Chunk} {w w' : World} {q q' : Cq}
    (hs : QStep w q (w', q')) (hc : Conserve w q.chunks w' q'.chunks)
    (ha : QV w q → q'.abs w = q.abs w) : Spill base X w q w' q' Same := by
  intro hq hg
  have hq' := hs.2 hq
  refine ⟨hq', hg.step hc hs.1.grows (hs.1.fresh hg.fresh) (hs.1.wi hg.wi) hq'.valid, hs.1.ext, ?_⟩
  simp only [Same, Cq.abs] at *
  rw [absChunks_same hs.1]; exact ha hq

theorem popW_spill (base : Nat → Int) (X : List Chunk) (w : World) (q : Cq) :
    Spill base X w q (popW w).1 q Same :=
  Spill.of_same (QStep.mk' (popW_same w) fun hq => hq.mono (popW_same w).grows)
    ((popW_res w).conserve _) fun _ => rfl

theorem tempfileErr_abs {w : World} {q : Cq} {e : Bool} {w' : World} {q' : Cq} {r : Bool}
    (h : tempfileErr w q e = (w', q', r)) (hq : QV w q) : q'.abs w = q.abs w := by
  unfold tempfileErr at h
  split at h
  rename_i w1 q1 heq
  simp only [Prod.mk.injEq] at h
  obtain ⟨rfl, rfl, rfl⟩ := h
  have hb : QV w (bumpDir w q e).1 := bumpDir_qv hq
  have hbc : (bumpDir w q e).1.abs w = q.abs w := by simp [Cq.abs, bumpDir_chunks]
  rw [← hbc]
  unfold dropOrCloseLast at heq
  split at heq
  · rename_i c hl
    split at heq
    · have := removeEmpty_abs w (bumpDir w q e).1 hb
      have hs := (removeEmpty_spec w (bumpDir w q e).1).1
      rw [heq] at this hs
      simp only [Cq.abs] at this ⊢
      rw [← absChunks_same hs]; exact this
    · split at heq
      · split at heq
        · simp only [Prod.mk.injEq] at heq
          obtain ⟨rfl, rfl⟩ := heq
          simp only [Cq.abs]
          exact abs_setLast hl (x := []) (by simp [Chunk.content]) |>.trans (by simp)
        · simp only [Prod.mk.injEq] at heq; obtain ⟨rfl, rfl⟩ := heq; rfl
      · simp only [Prod.mk.injEq] at heq; obtain ⟨rfl, rfl⟩ := heq; rfl
  · simp only [Prod.mk.injEq] at heq; obtain ⟨rfl, rfl⟩ := heq; rfl

theorem tempfileErr_spill {base : Nat → Int} {X : List Chunk} {w : World} {q : Cq} {e : Bool}
    {w' : World} {q' : Cq} {r : Bool} (h : tempfileErr w q e = (w', q', r)) :
    Spill base X w q w' q' Same :=
  Spill.of_same (tempfileErr_spec h) (tempfileErr_res h) (tempfileErr_abs h)

/-! ### creating temp files -/

theorem createTemp_ext {w : World} (dir : Nat) (hf : Fresh w) : Ext w (createTemp w dir).1 := by
  intro f
  by_cases h : f = w.nfiles
  · subst h
    have : (w.files w.nfiles).content = [] := List.eq_nil_of_length_eq_zero (hf _ (Nat.le_refl _))
    rw [this]; exact List.nil_prefix
  · simp [createTemp, World.addFile, h]

theorem mkstempDirs_world {base : Nat → Int} (fuel : Nat) (w : World) (idx : Nat) (hf : Fresh w)
    (hw : WI base w) : Ext w (mkstempDirs fuel w idx).1 ∧ WI base (mkstempDirs fuel w idx).1 := by
  induction fuel generalizing w idx with
  | zero => exact ⟨Ext.refl w, hw⟩
  | succ fuel ih =>
    simp only [mkstempDirs]
    split
    · have hp := popM_same w
      split
      · obtain ⟨a, b⟩ := ih (popM w).1 (idx + 1) (hp.fresh hf) (hp.wi hw)
        exact ⟨hp.ext.trans a, b⟩
      · exact ⟨hp.ext.trans (createTemp_ext idx (hp.fresh hf)), createTemp_wi idx (hp.fresh hf) (hp.wi hw)⟩
    · exact ⟨Ext.refl w, hw⟩

theorem newTempfile_world {base : Nat → Int} {w : World} {q : Cq} {w' : World} {q' : Cq} {ok : Bool}
    (h : newTempfile w q = (w', q', ok)) (hf : Fresh w) (hw : WI base w) : Ext w w' ∧ WI base w' := by
  unfold newTempfile at h
  split at h
  · have hm := mkstempDirs_world (base := base) (w.ndirs - q.tdIdx + 1) w q.tdIdx hf hw
    split at h <;> rename_i heq <;> rw [heq] at hm <;> simp only [Prod.mk.injEq] at h <;>
      obtain ⟨rfl, rfl, rfl⟩ := h <;> exact hm
  · split at h
    rename_i w1 fails hpm
    have hp := popM_same w
    rw [hpm] at hp
    split at h
    · simp only [Prod.mk.injEq] at h
      obtain ⟨rfl, rfl, rfl⟩ := h
      exact ⟨hp.ext, hp.wi hw⟩
    · split at h
      rename_i w2 fid hct
      simp only [Prod.mk.injEq] at h
      obtain ⟨rfl, rfl, rfl⟩ := h
      have h1 := createTemp_ext 0 (hp.fresh hf)
      have h2 := createTemp_wi 0 (hp.fresh hf) (hp.wi hw)
      rw [hct] at h1 h2
      exact ⟨hp.ext.trans h1, h2⟩

/-- chunk lists that differ only in descriptors and in empty chunks at the end
    hold the same bytes, in every world -/
theorem newTempfile_shape {w : World} {q : Cq} {w' : World} {q' : Cq} {ok : Bool}
    (h : newTempfile w q = (w', q', ok)) :
    (∀ w0, absChunks w0 q'.chunks = absChunks w0 q.chunks) ∧
      (ok = true → ∃ fid, q'.chunks.getLast? = some (.file fid 0 0 true .rw)) := by
  cases ok with
  | true =>
    obtain ⟨fid, hc, _, _⟩ := newTempfile_chunks h
    exact ⟨fun w0 => by rw [hc]; simp [Chunk.content], fun _ => ⟨fid, by rw [hc]; simp⟩⟩
  | false =>
    refine ⟨fun w0 => ?_, fun h0 => by cases h0⟩
    unfold newTempfile at h
    split at h
    · split at h
      · simp at h
      · simp only [Prod.mk.injEq] at h; obtain ⟨_, rfl, _⟩ := h; rfl
    · split at h
      split at h
      · simp only [Prod.mk.injEq] at h; obtain ⟨_, rfl, _⟩ := h; rfl
      · split at h; simp at h

theorem getAppendTempfile_shape {w : World} {q : Cq} {w' : World} {q' : Cq} {ok : Bool}
    (h : getAppendTempfile w q = (w', q', ok)) :
    (∀ w0, absChunks w0 q'.chunks = absChunks w0 q.chunks) ∧
      (ok = true → ∃ fid off len fd, q'.chunks.getLast? = some (.file fid off len true fd)) := by
  unfold getAppendTempfile at h
  split at h
  · rename_i fid off len fd hl
    split at h
    · split at h
      · simp only [Prod.mk.injEq] at h
        obtain ⟨rfl, rfl, rfl⟩ := h
        exact ⟨fun _ => rfl, fun _ => ⟨fid, off, len, fd, hl⟩⟩
      · obtain ⟨a, b⟩ := newTempfile_shape h
        refine ⟨fun w0 => ?_, fun hok => ?_⟩
        · rw [a w0]
          exact (abs_setLast hl (x := []) (by simp [Chunk.content])).trans (by simp)
        · obtain ⟨f2, hf2⟩ := b hok
          exact ⟨f2, 0, 0, .rw, hf2⟩
    · obtain ⟨a, b⟩ := newTempfile_shape h
      exact ⟨a, fun hok => by obtain ⟨f2, hf2⟩ := b hok; exact ⟨f2, 0, 0, .rw, hf2⟩⟩
  · obtain ⟨a, b⟩ := newTempfile_shape h
    exact ⟨a, fun hok => by obtain ⟨f2, hf2⟩ := b hok; exact ⟨f2, 0, 0, .rw, hf2⟩⟩

theorem getAppendTempfile_world {base : Nat → Int} {w : World} {q : Cq} {w' : World} {q' : Cq} {ok : Bool}
    (h : getAppendTempfile w q = (w', q', ok)) (hf : Fresh w) (hw : WI base w) : Ext w w' ∧ WI base w' := by
  unfold getAppendTempfile at h
  split at h
  · rename_i fid off len fd hl
    split at h
    · split at h
      · simp only [Prod.mk.injEq] at h
        obtain ⟨rfl, rfl, rfl⟩ := h
        exact ⟨Ext.refl w, hw⟩
      · have hc := closeFd_same w fid
        obtain ⟨a, b⟩ := newTempfile_world h (hc.fresh hf) (hc.wi hw)
        exact ⟨hc.ext.trans a, b⟩
    · exact newTempfile_world h hf hw
  · exact newTempfile_world h hf hw

theorem getAppendTempfile_spill {base : Nat → Int} {X : List Chunk} {w : World} {q : Cq}
    {w' : World} {q' : Cq} {ok : Bool} (h : getAppendTempfile w q = (w', q', ok)) :
    Spill base X w q w' q' Same := by
  intro hq hg
  obtain ⟨f1, g1, q1⟩ := getAppendTempfile_spec h hg.fresh hq
  obtain ⟨e1, w1⟩ := getAppendTempfile_world h hg.fresh hg.wi
  refine ⟨q1, hg.step (getAppendTempfile_res h) g1 f1 w1 q1.valid, e1, ?_⟩
  simp only [Same, Cq.abs]
  rw [(getAppendTempfile_shape h).1 w', absChunks_ext hq.valid e1]

/-! ### the write itself -/

/-- `d` was appended to the queue -/
def App (d : Bytes) (a a' : Bytes) : Prop := a' = a ++ d

theorem writeAt_end (c : Bytes) (d : Bytes) : writeAt c c.length d = c ++ d := by
  simp [writeAt, List.drop_of_length_le]

theorem writeGrow_spill {base : Nat → Int} {X : List Chunk} {w : World} {q : Cq} (d : Bytes)
    {fid off len : Nat} {fd : Fd} (hl : q.chunks.getLast? = some (.file fid off len true fd)) :
    Spill base X w q (writeLast w q d) (growLast q d.length) (App d) := by
  intro hq hg
  obtain ⟨f1, g1, q1⟩ := writeGrow_spec w q d hg.fresh hq
  have hmem : Chunk.file fid off len true fd ∈ q.chunks ++ X :=
    List.mem_append_left _ (by rw [split_last hl]; simp)
  have hfull := hg.full_of_mem hmem
  have hv := valid_last hq.valid hl
  simp only [Chunk.Valid] at hv
  -- the world after the write
  have hw' : writeLast w q d = (w.pwrite fid len d).addTl fid d.length := by
    simp [writeLast, hl]
  have hcont : ∀ f, ((writeLast w q d).files f).content =
      if f = fid then (w.files fid).content ++ d else (w.files f).content := by
    intro f
    rw [hw']
    by_cases hf : f = fid
    · subst hf
      simp only [World.addTl, World.pwrite, setFile_files_same, if_true]
      rw [hfull]; exact writeAt_end _ _
    · simp [World.addTl, World.pwrite, setFile_files_other _ _ hf, hf]
  have hext : Ext w (writeLast w q d) := by
    intro f
    rw [hcont f]
    split
    · rename_i h; subst h; exact List.prefix_append _ _
    · exact List.prefix_refl _
  have hres : ∀ f, ((writeLast w q d).files f).nlink = (w.files f).nlink ∧
      ((writeLast w q d).files f).tl = (w.files f).tl + (if f = fid then (d.length : Int) else 0) := by
    intro f
    rw [hw']
    by_cases hf : f = fid
    · subst hf; simp [World.addTl, World.pwrite]
    · simp [World.addTl, World.pwrite, setFile_files_other _ _ hf, hf]
  have hsz : ∀ f, sz (writeLast w q d) f = sz w f + (if f = fid then d.length else 0) := by
    intro f
    simp only [sz, hcont f]
    split <;> simp_all
  have hwi : WI base (writeLast w q d) := by
    have hnf : (writeLast w q d).nfiles = w.nfiles := by rw [hw']; rfl
    refine ⟨fun f => by rw [(hres f).1]; exact hg.wi.nb f, fun f hle => ?_, fun f hge => ?_⟩
    · rw [hnf] at hle
      have hne : f ≠ fid := by omega
      rw [(hres f).1, (hres f).2]
      simp only [hne, if_false, Int.add_zero]
      exact hg.wi.unused f hle
    · rw [(hres f).1] at hge
      rw [(hres f).2, hsz f, hg.wi.full f hge]
      split <;> simp
  refine ⟨q1, hg.step (writeGrow_res w q d) g1 f1 hwi q1.valid, hext, ?_⟩
  -- the bytes
  simp only [App, Cq.abs]
  have hgl : (growLast q d.length).chunks = setLast q.chunks (.file fid off (len + d.length) true fd) := by
    simp [growLast, hl]
  rw [hgl]
  have hpre : absChunks (writeLast w q d) q.chunks.dropLast = absChunks w q.chunks.dropLast :=
    absChunks_ext hq.valid.dropLast hext
  conv => rhs; rw [split_last hl]
  simp only [setLast, absChunks_append, absChunks_cons, absChunks_nil, List.append_nil, hpre,
    List.append_assoc]
  congr 1
  simp only [Chunk.content, hcont fid, if_true]
  have hlen : (w.files fid).content.length = len := by simp only [sz] at hfull; omega
  rw [List.drop_append_of_le_length (by omega), List.take_append]
  simp only [List.length_drop, hlen]
  have e1 : len + d.length - off - (len - off) = d.length := by omega
  rw [e1, List.take_of_length_le (l := List.drop off _) (by simp [hlen]; omega),
    List.take_of_length_le (Nat.le_refl _), List.take_of_length_le (by simp [hlen])]

/-! ### chunkqueue_append_mem_to_tempfile() -/

/-- on success exactly `d` was appended; on failure a prefix of that -/
def AppOrPrefix (ok : Bool) (d : Bytes) (a a' : Bytes) : Prop :=
  if ok then a' = a ++ d else a' <+: a ++ d

theorem Spill.app_then {base : Nat → Int} {X : List Chunk} {w w1 w2 : World} {q q1 q2 : Cq}
    {d1 d2 : Bytes} {ok : Bool} (h1 : Spill base X w q w1 q1 (App d1))
    (h2 : Spill base X w1 q1 w2 q2 (AppOrPrefix ok d2)) :
    Spill base X w q w2 q2 (AppOrPrefix ok (d1 ++ d2)) := by
  intro hq hg
  obtain ⟨a1, a2, a3, a4⟩ := h1 hq hg
  obtain ⟨b1, b2, b3, b4⟩ := h2 a1 a2
  refine ⟨b1, b2, a3.trans b3, ?_⟩
  simp only [App] at a4
  simp only [AppOrPrefix, a4, List.append_assoc] at b4 ⊢
  exact b4

theorem Spill.same_fail {base : Nat → Int} {X : List Chunk} {w w' : World} {q q' : Cq} {d : Bytes}
    (h : Spill base X w q w' q' Same) : Spill base X w q w' q' (AppOrPrefix false d) := by
  intro hq hg
  obtain ⟨a1, a2, a3, a4⟩ := h hq hg
  refine ⟨a1, a2, a3, ?_⟩
  simp only [Same] at a4
  simp only [AppOrPrefix, a4, Bool.false_eq_true, if_false]
  exact List.prefix_append _ _

theorem Spill.app_ok {base : Nat → Int} {X : List Chunk} {w w' : World} {q q' : Cq} {d : Bytes}
    (h : Spill base X w q w' q' (App d)) : Spill base X w q w' q' (AppOrPrefix true d) := by
  intro hq hg
  obtain ⟨a1, a2, a3, a4⟩ := h hq hg
  exact ⟨a1, a2, a3, by simpa [AppOrPrefix, App] using a4⟩

theorem mtLoop_spill (base : Nat → Int) (X : List Chunk) (fuel : Nat) (w : World) (q : Cq) (d : Bytes) :
    Spill base X w q (mtLoop fuel w q d).1 (mtLoop fuel w q d).2.1 (AppOrPrefix (mtLoop fuel w q d).2.2 d) := by
  fun_induction mtLoop fuel w q d with
  | case1 w q d => exact (Spill.refl base X w q).same_fail
  | case2 fuel w q d w1 q1 hg => exact (getAppendTempfile_spill hg).same_fail
  | case3 fuel w q d w1 q1 hg h0 =>
    have hd : d = [] := List.eq_nil_of_length_eq_zero h0
    subst hd
    intro hq hgi
    obtain ⟨a1, a2, a3, a4⟩ := getAppendTempfile_spill (base := base) (X := X) hg hq hgi
    exact ⟨a1, a2, a3, by simpa [AppOrPrefix, Same] using a4⟩
  | case4 fuel w q d w1 q1 hg h0 p he =>
    obtain ⟨fid, off, len, fd, hl⟩ := (getAppendTempfile_shape hg).2 rfl
    exact (getAppendTempfile_spill hg).same_then
      ((popW_spill base X w1 q1).same_then (writeGrow_spill d hl).app_ok)
  | case5 fuel w q d w1 q1 hg h0 p a he hge =>
    obtain ⟨fid, off, len, fd, hl⟩ := (getAppendTempfile_shape hg).2 rfl
    exact (getAppendTempfile_spill hg).same_then
      ((popW_spill base X w1 q1).same_then (writeGrow_spill d hl).app_ok)
  | case6 fuel w q d w1 q1 hg h0 p a he hlt ih =>
    obtain ⟨fid, off, len, fd, hl⟩ := (getAppendTempfile_shape hg).2 rfl
    have hw := writeGrow_spill (base := base) (X := X) (w := p.1) (d.take a) hl
    have hlen : (d.take a).length = a := by rw [List.length_take]; omega
    rw [hlen] at hw
    have := hw.app_then ih
    rw [List.take_append_drop] at this
    exact (getAppendTempfile_spill hg).same_then ((popW_spill base X w1 q1).same_then this)
  | case7 fuel w q d w1 q1 hg h0 p he ih =>
    exact (getAppendTempfile_spill hg).same_then ((popW_spill base X w1 q1).same_then ih)
  | case8 fuel w q d w1 q1 hg h0 p he w2 q2 ht ih =>
    exact (getAppendTempfile_spill hg).same_then
      ((popW_spill base X w1 q1).same_then ((tempfileErr_spill ht).same_then ih))
  | case9 fuel w q d w1 q1 hg h0 p he w2 q2 ht =>
    exact (getAppendTempfile_spill hg).same_then
      ((popW_spill base X w1 q1).same_then (tempfileErr_spill ht).same_fail)
  | case10 fuel w q d w1 q1 hg h0 p he w2 q2 ht ih =>
    exact (getAppendTempfile_spill hg).same_then
      ((popW_spill base X w1 q1).same_then ((tempfileErr_spill ht).same_then ih))
  | case11 fuel w q d w1 q1 hg h0 p he w2 q2 ht =>
    exact (getAppendTempfile_spill hg).same_then
      ((popW_spill base X w1 q1).same_then (tempfileErr_spill ht).same_fail)

/-! ### chunkqueue_append_cqmem_to_tempfile() -/

/-- on success nothing changed, on failure a prefix is left -/
def KeepOrPrefix (ok : Bool) (a a' : Bytes) : Prop := if ok then a' = a else a' <+: a

/-- what chunkqueue_to_tempfiles() has to deliver -/
def ToTempSpill (base : Nat → Int) (toTemp : World → Cq → World × Cq × Bool) : Prop :=
  ∀ X w q, Spill base X w q (toTemp w q).1 (toTemp w q).2.1 (KeepOrPrefix (toTemp w q).2.2)

/-- `rc >= 0`: the first `rc` bytes of `sb` were added to `B`; `rc < 0`: a prefix of `B` is left -/
def Moved (rc : Int) (sb B a' : Bytes) : Prop :=
  if 0 ≤ rc then a' = B ++ sb.take rc.toNat else a' <+: B

/-- a spill step on dest described relative to explicit byte strings -/
structure SOut (base : Nat → Int) (X : List Chunk) (w : World) (r : SwOut) (sb B : Bytes) : Prop where
  qv : QV r.w r.dest
  gi : GI base r.w (r.dest.chunks ++ X)
  ext : Ext w r.w
  moved : Moved r.rc sb B (r.dest.abs r.w)

theorem mwLoop_same (w : World) (cs : List Chunk) (n : Nat) : SameFiles w (mwLoop w cs n).1 :=
  (mwLoop_spec w cs n).1

theorem cqmemPartial_spill {base : Nat → Int} {toTemp : World → Cq → World × Cq × Bool}
    (ht : ToTempSpill base toTemp) {X : List Chunk} {w : World} {dest : Cq} {wr : Nat}
    {pre : List Chunk} {c : Chunk} (sb : Bytes) (hc : dest.chunks = pre ++ [c]) (hwr : wr ≤ remSum pre)
    (hcont : c.content w = (absChunks w pre).take wr) (hq : QV w dest) (hg : GI base w (dest.chunks ++ X)) :
    SOut base X w (cqmemPartial toTemp w dest wr) sb (absChunks w pre) := by
  have hl : dest.chunks.getLast? = some c := by rw [hc]; simp
  have hdl : dest.chunks.dropLast = pre := by rw [hc]; simp
  -- the state handed to chunkqueue_to_tempfiles()
  have hval := hq.valid
  rw [hc] at hval
  obtain ⟨hs, hv⟩ := mwLoop_spec w pre wr
  obtain ⟨v1, v2⟩ := hv hval.left
  have hlen := hq.len
  rw [hc] at hlen
  simp only [remSum_append, remSum_cons, remSum_nil] at hlen
  let w1 := (mwLoop w pre wr).1
  let d2 : Cq := { dest with chunks := c :: (mwLoop w pre wr).2, bytesIn := dest.bytesIn - wr,
                             bytesOut := dest.bytesOut - wr + wr }
  have hq2 : QV w1 d2 := by
    refine ⟨ValidAll.cons ((hval.right.head).mono hs.grows) v1, ?_⟩
    simp only [d2, remSum_cons, v2]
    omega
  have hcons : Conserve w dest.chunks w1 d2.chunks := by
    have h1 : Conserve w (pre ++ [c]) w1 ((mwLoop w pre wr).2 ++ [c]) := (mwLoop_res w pre wr).frame_right [c]
    rw [← hc] at h1
    refine h1.trans (Conserve.of_csum (SameRes.refl _) fun k f => ?_)
    simp only [d2, csum_cons, csum_append, csum_nil]
    omega
  have hg2 : GI base w1 (d2.chunks ++ X) := hg.step hcons hs.grows (hs.fresh hg.fresh) (hs.wi hg.wi) hq2.valid
  have habs2 : d2.abs w1 = absChunks w pre := by
    simp only [Cq.abs, d2, absChunks_cons]
    rw [absChunks_same hs, content_same hs, hcont, mwLoop_abs w pre wr hval.left, List.take_append_drop]
  obtain ⟨a1, a2, a3, a4⟩ := ht X w1 d2 hq2 hg2
  have hunf : cqmemPartial toTemp w dest wr =
      { w := (toTemp w1 d2).1, dest := (toTemp w1 d2).2.1, rc := if (toTemp w1 d2).2.2 then 0 else -1 } := by
    unfold cqmemPartial
    rw [hl]
    simp only [markWritten, hdl]
    rfl
  rw [hunf]
  refine ⟨a1, a2, hs.ext.trans a3, ?_⟩
  simp only [KeepOrPrefix, habs2] at a4
  simp only [Moved]
  split
  · rename_i hok
    simp only [hok, if_true] at a4 ⊢
    simp [a4]
  · rename_i hok
    simp only [hok] at a4 ⊢
    simpa using a4

theorem cqmemWritten_spill {base : Nat → Int} {toTemp : World → Cq → World × Cq × Bool}
    (ht : ToTempSpill base toTemp) {X : List Chunk} {w : World} {dest : Cq} {dlen wr : Nat} {sb B : Bytes}
    (hq : QV w dest) (hg : GI base w (dest.chunks ++ X))
    (h0 : dlen = 0 → dest.abs w = B ++ sb.take wr)
    (h1 : dlen ≠ 0 → ∃ pre c, dest.chunks = pre ++ [c] ∧ dlen = remSum pre ∧ absChunks w pre = B ∧
      c.content w = (B ++ sb).take wr) :
    SOut base X w (cqmemWritten toTemp w dest dlen wr) sb B := by
  unfold cqmemWritten
  split
  · rename_i hz
    exact ⟨hq, hg, Ext.refl w, by simp [Moved, h0 hz]⟩
  · rename_i hz
    obtain ⟨pre, c, hc, hd, hB, hcont⟩ := h1 hz
    have hval := hq.valid
    rw [hc] at hval
    have hlB : B.length = dlen := by rw [← hB, absChunks_length hval.left, hd]
    split
    · rename_i hlt
      have hcont' : c.content w = (absChunks w pre).take wr := by
        rw [hcont, hB, List.take_append_of_le_length (by omega)]
      have := cqmemPartial_spill ht sb hc (by omega) hcont' hq hg
      rw [hB] at this
      exact this
    · rename_i hge
      dsimp only
      have hm := markWritten_spec w { dest with bytesIn := dest.bytesIn - dlen, bytesOut := dest.bytesOut - dlen } dlen
      have hlen := hq.len
      have hq1 : QV w { dest with bytesIn := dest.bytesIn - dlen, bytesOut := dest.bytesOut - dlen } :=
        ⟨hq.valid, by simp only; omega⟩
      have hle : dlen ≤ remSum dest.chunks := by rw [hc]; simp only [remSum_append]; omega
      have hq' := hm.2 hq1 hle
      have hcons : Conserve w dest.chunks (mwLoop w dest.chunks dlen).1 (mwLoop w dest.chunks dlen).2 :=
        mwLoop_res w dest.chunks dlen
      refine ⟨hq', hg.step hcons hm.1.grows (hm.1.fresh hg.fresh) (hm.1.wi hg.wi) hq'.valid, hm.1.ext, ?_⟩
      have habs := markWritten_abs w { dest with bytesIn := dest.bytesIn - dlen, bytesOut := dest.bytesOut - dlen }
        dlen hq1
      simp only [Moved, Int.natCast_nonneg, if_true, Int.toNat_natCast]
      rw [habs]
      simp only [Cq.abs, hc, absChunks_append, absChunks_cons, absChunks_nil, List.append_nil, hB, hcont]
      rw [List.drop_append, hlB, Nat.sub_self, List.drop_zero, List.drop_of_length_le (by omega),
        List.nil_append, List.take_append, hlB, List.take_of_length_le (by omega)]

theorem cqmemWrite_spill {base : Nat → Int} {toTemp : World → Cq → World × Cq × Bool}
    (ht : ToTempSpill base toTemp) {X : List Chunk} {w : World} {dest : Cq} {dbytes sbytes : Bytes}
    (hq : QV w dest) (hg : GI base w (dest.chunks ++ X))
    (hlast : ∃ fid off len fd, dest.chunks.getLast? = some (.file fid off len true fd))
    (h1 : dbytes.length ≠ 0 → ∃ pre fid, dest.chunks = pre ++ [.file fid 0 0 true .rw] ∧
      dbytes.length = remSum pre ∧ absChunks w pre = dbytes) :
    SOut base X w (cqmemWrite toTemp w dest dbytes sbytes) sbytes
      (if dbytes.length = 0 then dest.abs w else dbytes) := by
  obtain ⟨fid, off, len, fd, hl⟩ := hlast
  unfold cqmemWrite
  dsimp only
  obtain ⟨p1, p2, p3, p4⟩ := popW_spill base X w dest hq hg
  -- after `tot` reached the temp file
  have written : ∀ (tot : Bytes), tot <+: dbytes ++ sbytes →
      SOut base X w (cqmemWritten toTemp (writeLast (popW w).1 dest tot) (growLast dest tot.length)
        dbytes.length tot.length) sbytes (if dbytes.length = 0 then dest.abs w else dbytes) := by
    intro tot htot
    obtain ⟨a1, a2, a3, a4⟩ := writeGrow_spill (base := base) (X := X) (w := (popW w).1) tot hl p1 p2
    simp only [App, Same] at a4 p4
    have htake : tot = (dbytes ++ sbytes).take tot.length := by
      obtain ⟨t, ht'⟩ := htot
      rw [← ht', List.take_append_of_le_length (Nat.le_refl _), List.take_of_length_le (Nat.le_refl _)]
    have := cqmemWritten_spill ht (sb := sbytes) (B := if dbytes.length = 0 then dest.abs w else dbytes)
      (dlen := dbytes.length) (wr := tot.length) a1 a2
      (fun hz => by
        have hd : dbytes = [] := List.eq_nil_of_length_eq_zero hz
        rw [a4, p4]
        simp only [hz, if_true]
        rw [htake, hd]; simp)
      (fun hz => by
        obtain ⟨pre, f0, hc, hd, hB⟩ := h1 hz
        refine ⟨pre, _, growLast_concat dest pre f0 0 0 true .rw tot.length hc, hd, ?_, ?_⟩
        · simp only [hz, if_false]
          have hv : ValidAll w pre := by have := hq.valid; rw [hc] at this; exact this.left
          rw [absChunks_ext hv (p3.trans a3), hB]
        · simp only [hz, if_false]
          -- the new chunk holds exactly `tot`
          have hfull : (growLast dest tot.length).abs (writeLast (popW w).1 dest tot) =
              dest.abs (popW w).1 ++ tot := a4
          simp only [Cq.abs, growLast_concat dest pre f0 0 0 true .rw tot.length hc, hc, absChunks_append,
            absChunks_cons, absChunks_nil, List.append_nil] at hfull
          have hv : ValidAll (popW w).1 pre := by have := p1.valid; rw [hc] at this; exact this.left
          rw [absChunks_ext hv a3] at hfull
          have hnil : Chunk.content (popW w).1 (Chunk.file f0 0 0 true Fd.rw) = [] := by simp [Chunk.content]
          rw [hnil, List.append_nil] at hfull
          have := List.append_cancel_left hfull
          rw [this]; exact htake)
    exact ⟨this.qv, this.gi, (p3.trans a3).trans this.ext, this.moved⟩
  have hB0 : (if dbytes.length = 0 then dest.abs w else dbytes) = dest.abs w := by
    split
    · rfl
    · rename_i hz
      obtain ⟨pre, f0, hc, hd, hB⟩ := h1 hz
      simp [Cq.abs, hc, Chunk.content, hB]
  have errOut : ∀ (e : Bool), SOut base X w
      { w := (tempfileErr (popW w).1 dest e).1, dest := (tempfileErr (popW w).1 dest e).2.1,
        rc := if (tempfileErr (popW w).1 dest e).2.2 = true then 0 else -1 } sbytes
      (if dbytes.length = 0 then dest.abs w else dbytes) := by
    intro e
    have ht2 := tempfileErr_spill (base := base) (X := X) (w := (popW w).1) (q := dest) (e := e)
      (w' := (tempfileErr (popW w).1 dest e).1) (q' := (tempfileErr (popW w).1 dest e).2.1)
      (r := (tempfileErr (popW w).1 dest e).2.2) rfl
    obtain ⟨b1, b2, b3, b4⟩ := ht2 p1 p2
    refine ⟨b1, b2, p3.trans b3, ?_⟩
    simp only [Same] at b4 p4
    rw [hB0]
    dsimp only
    rw [b4, p4]
    simp only [Moved]
    split
    · split <;> simp_all
    · exact List.prefix_refl _
  split
  · exact written _ (List.prefix_refl _)
  · exact written _ (List.take_prefix _ _)
  · -- EINTR: nothing happened
    refine ⟨p1, p2, p3, ?_⟩
    simp only [Same] at p4
    rw [hB0]
    dsimp only
    rw [p4]
    simp [Moved]
  · exact errOut true
  · exact errOut false

theorem gatherSrc_prefix {w : World} (cs : List Chunk) (slots len : Nat) :
    gatherSrc cs slots len <+: absChunks w cs := by
  fun_induction gatherSrc cs slots len with
  | case1 => exact List.nil_prefix
  | case2 => exact List.nil_prefix
  | case3 rest slots len d off cap clen piece h0 =>
    simp only [absChunks_cons, Chunk.content]
    exact List.IsPrefix.trans (List.take_prefix _ _) (List.prefix_append _ _)
  | case4 rest slots len d off cap clen piece h0 ih =>
    simp only [absChunks_cons, Chunk.content]
    have hfull : piece = d.drop off := by
      simp only [piece, clen]
      refine List.take_of_length_le ?_
      simp only [List.length_drop]
      simp only [clen] at h0
      omega
    rw [hfull]
    exact (List.prefix_append_right_inj _).mpr ih
  | case5 => exact List.nil_prefix

theorem cqmemPre_bytes {toTemp : World → Cq → World × Cq × Bool} (w : World) (dest : Cq)
    (h0 : (cqmemPre toTemp w dest).2.2.2.1.length ≠ 0) :
    (cqmemPre toTemp w dest).2.2.2.1 = absChunks w dest.chunks := by
  revert h0
  unfold cqmemPre
  dsimp only
  split
  · intro h; exact absurd rfl h
  · rename_i hcond
    intro h0
    have hle := leadingMem_length_le dest.chunks
    have hk : (leadingMem dest.chunks).length = dest.chunks.length := by
      by_cases hk1 : (leadingMem dest.chunks).length ≥ 1
      · simp only [Bool.and_eq_true, Bool.or_eq_true, decide_eq_true_eq, not_and, not_or] at hcond
        by_cases hlt : (leadingMem dest.chunks).length < dest.chunks.length
        · exact absurd hk1 (hcond (Or.inr hlt))
        · omega
      · have : leadingMem dest.chunks = [] := List.eq_nil_of_length_eq_zero (by omega)
        rw [this] at h0
        simp at h0
    rw [(leadingMem_all hk).1]

theorem cqmemPre_fallback {toTemp : World → Cq → World × Cq × Bool} (w : World) (dest : Cq) :
    ((cqmemPre toTemp w dest).1 = (toTemp w dest).1 ∧ (cqmemPre toTemp w dest).2.1 = (toTemp w dest).2.1 ∧
      (cqmemPre toTemp w dest).2.2.1 = (toTemp w dest).2.2 ∧ (cqmemPre toTemp w dest).2.2.2.1 = []) ∨
    ((cqmemPre toTemp w dest).1 = w ∧ (cqmemPre toTemp w dest).2.1 = dest ∧
      (cqmemPre toTemp w dest).2.2.1 = true) := by
  unfold cqmemPre
  dsimp only
  split
  · exact Or.inl ⟨rfl, rfl, rfl, rfl⟩
  · exact Or.inr ⟨rfl, rfl, rfl⟩

theorem Moved.widen {rc : Int} {sb sb' B a' : Bytes} (h : Moved rc sb B a') (hp : sb <+: sb')
    (hb : rc ≤ sb.length) : Moved rc sb' B a' := by
  unfold Moved at *
  split
  · rename_i h0
    simp only [h0, if_true] at h
    obtain ⟨t, ht⟩ := hp
    rw [h, ← ht, List.take_append_of_le_length (by omega)]
  · rename_i h0
    simpa [h0] using h

theorem cqmem_spill {base : Nat → Int} {toTemp : World → Cq → World × Cq × Bool}
    (ht : ToTempSpill base toTemp) (hto : ToTempOK toTemp) {X : List Chunk} {w : World} {dest : Cq}
    (src : List Chunk) (len : Nat) (hq : QV w dest) (hg : GI base w (dest.chunks ++ X)) :
    SOut base X w (cqmemToTempfile toTemp w dest src len) (absChunks w src) (dest.abs w) := by
  have hshape := (cqmemPre_spec hto w dest).2 hq
  have hbytes := cqmemPre_bytes (toTemp := toTemp) w dest
  have hfb := cqmemPre_fallback (toTemp := toTemp) w dest
  have hpre : Spill base X w dest (cqmemPre toTemp w dest).1 (cqmemPre toTemp w dest).2.1
      (KeepOrPrefix (cqmemPre toTemp w dest).2.2.1) := by
    rcases hfb with ⟨e1, e2, e3, _⟩ | ⟨e1, e2, e3⟩
    · rw [e1, e2, e3]; exact ht X w dest
    · rw [e1, e2, e3]
      intro a b
      exact ⟨a, b, Ext.refl w, rfl⟩
  unfold cqmemToTempfile
  split
  · rename_i w1 dest1 dbytes iov0 heq
    rw [heq] at hpre
    obtain ⟨a1, a2, a3, a4⟩ := hpre hq hg
    refine ⟨a1, a2, a3, ?_⟩
    simp only [KeepOrPrefix, Bool.false_eq_true, if_false] at a4
    simpa [Moved] using a4
  · rename_i w1 dest1 dbytes iov0 heq
    rw [heq] at hpre hshape hbytes
    obtain ⟨a1, a2, a3, a4⟩ := hpre hq hg
    simp only [KeepOrPrefix, if_true] at a4
    split
    · exact ⟨a1, a2, a3, by simp [Moved, a4]⟩
    · split
      · rename_i w2 dest2 hga
        obtain ⟨b1, b2, b3, b4⟩ := getAppendTempfile_spill (base := base) (X := X) hga a1 a2
        refine ⟨b1, b2, a3.trans b3, ?_⟩
        simp only [Same] at b4
        simp only [Moved]
        rw [b4, a4]
        simp
      · rename_i w2 dest2 hga
        obtain ⟨b1, b2, b3, b4⟩ := getAppendTempfile_spill (base := base) (X := X) hga a1 a2
        simp only [Same] at b4
        have hlast := (getAppendTempfile_shape hga).2 rfl
        have hsh : dbytes.length ≠ 0 → ∃ pre fid, dest2.chunks = pre ++ [.file fid 0 0 true .rw] ∧
            dbytes.length = remSum pre ∧ absChunks w2 pre = dbytes := by
          intro h0
          obtain ⟨e1, e2, e3, e4⟩ := hshape h0
          have e5 := hbytes h0
          simp only at e1 e2 e4 e5
          subst e1 e2
          rw [getAppendTempfile_of_mem e3] at hga
          obtain ⟨fid, hc, _, _⟩ := newTempfile_chunks hga
          refine ⟨dest1.chunks, fid, hc, e4, ?_⟩
          rw [absChunks_ext hq.valid b3, e5]
        have hw := cqmemWrite_spill ht (sbytes := gatherSrc src (16 - iov0) len) b1 b2 hlast hsh
        have hB : (if dbytes.length = 0 then dest2.abs w2 else dbytes) = dest.abs w := by
          split
          · rw [b4, a4]
          · rename_i h0
            obtain ⟨e1, e2, e3, e4⟩ := hshape h0
            have e5 := hbytes h0
            simp only at e1 e2 e5
            subst e1 e2
            exact e5
        rw [hB] at hw
        have hbound := (cqmemWrite_spec hto w2 dest2 dbytes (gatherSrc src (16 - iov0) len)
          (fun h0 => by obtain ⟨pre, fid, hc, hd, _⟩ := hsh h0; exact ⟨pre, fid, hc, hd⟩)).2
        exact ⟨hw.qv, hw.gi, (a3.trans b3).trans hw.ext,
          hw.moved.widen (gatherSrc_prefix src _ len) hbound⟩

/-! ### chunkqueue_steal_with_tempfiles() -/

theorem GI.swap {base : Nat → Int} {w : World} {A B X : List Chunk} (h : GI base w (A ++ (B ++ X))) :
    GI base w (B ++ (A ++ X)) := by
  refine ⟨h.fresh, h.wi, ?_, fun f => ?_⟩
  · intro c hc
    apply h.valid c
    simp only [List.mem_append] at hc ⊢
    rcases hc with h1 | h1 | h1
    · exact Or.inr (Or.inl h1)
    · exact Or.inl h1
    · exact Or.inr (Or.inr h1)
  · obtain ⟨p, q⟩ := h.acct f
    simp only [csum_append] at p q ⊢
    exact ⟨by omega, by omega⟩

/-- the transfer relation of one call: `k` bytes left src; on success they are
    exactly the first min(len, |src|) and dest received them in order; on
    failure dest holds a prefix of what it should -/
def Transfer (ok : Bool) (len : Nat) (d s d' s' : Bytes) : Prop :=
  ∃ k, k ≤ len ∧ k ≤ s.length ∧ s' = s.drop k ∧
    (if ok then k = min len s.length ∧ d' = d ++ s.take k else d' <+: d ++ s.take k)

def SwSpill (base : Nat → Int) (f : World → Cq → Cq → Nat → World × Cq × Cq × Bool) : Prop :=
  ∀ X w dest src len, QV w dest → QV w src → GI base w (dest.chunks ++ (src.chunks ++ X)) →
    QV (f w dest src len).1 (f w dest src len).2.1 ∧ QV (f w dest src len).1 (f w dest src len).2.2.1 ∧
    GI base (f w dest src len).1 ((f w dest src len).2.1.chunks ++ ((f w dest src len).2.2.1.chunks ++ X)) ∧
    Ext w (f w dest src len).1 ∧
    Transfer (f w dest src len).2.2.2 len (dest.abs w) (src.abs w)
      ((f w dest src len).2.1.abs (f w dest src len).1) ((f w dest src len).2.2.1.abs (f w dest src len).1)

theorem Transfer.compose {ok : Bool} {len k1 : Nat} {d s d1 s1 d2 s2 : Bytes} (hk : k1 ≤ len)
    (hks : k1 ≤ s.length) (h1d : d1 = d ++ s.take k1) (h1s : s1 = s.drop k1)
    (h2 : Transfer ok (len - k1) d1 s1 d2 s2) : Transfer ok len d s d2 s2 := by
  obtain ⟨k2, a, b, c, e⟩ := h2
  subst h1d h1s
  rw [List.length_drop] at b
  refine ⟨k1 + k2, by omega, by omega, by rw [c, List.drop_drop], ?_⟩
  have htake : (d ++ s.take k1) ++ (s.drop k1).take k2 = d ++ s.take (k1 + k2) := by
    rw [List.append_assoc, List.take_add]
  split
  · rename_i hok
    simp only [hok, if_true, List.length_drop] at e
    exact ⟨by omega, by rw [e.2, htake]⟩
  · rename_i hok
    simp only [hok] at e
    rw [← htake]; exact e

theorem swLoop_spill {base : Nat → Int} {toTemp : World → Cq → World × Cq × Bool}
    (ht : ToTempSpill base toTemp) (hto : ToTempOK toTemp) (fuel : Nat) : SwSpill base (swLoop toTemp fuel) := by
  intro X w dest src len
  fun_induction swLoop toTemp fuel w dest src len with
  | case1 w dest src len =>
    intro hd hs hg
    exact ⟨hd, hs, hg, Ext.refl w, 0, Nat.zero_le _, Nat.zero_le _, rfl, by simp⟩
  | case2 fuel w dest src len hnil =>
    intro hd hs hg
    refine ⟨hd, hs, hg, Ext.refl w, 0, Nat.zero_le _, Nat.zero_le _, rfl, ?_⟩
    simp [Cq.abs, hnil]
  | case3 fuel w dest src len c cs hc hm r hneg =>
    intro hd hs hg
    have ho : SOut base (src.chunks ++ X) w r (absChunks w src.chunks) (dest.abs w) :=
      cqmem_spill ht hto (X := src.chunks ++ X) src.chunks len hd hg
    have hsabs : src.abs r.w = src.abs w := absChunks_ext hs.valid ho.ext
    have hgr : Grows w r.w := (cqmem_spec hto w dest src.chunks len hg.fresh hd).2.1
    refine ⟨ho.qv, hs.mono hgr, ho.gi, ho.ext,
      0, Nat.zero_le _, Nat.zero_le _, by simpa using hsabs, ?_⟩
    have hmv := ho.moved
    unfold Moved at hmv
    rw [if_neg (by omega)] at hmv
    simpa using hmv
  | case4 fuel w dest src len c cs hc hm r hneg m h0 =>
    intro hd hs hg
    have ho : SOut base (src.chunks ++ X) w r (absChunks w src.chunks) (dest.abs w) :=
      cqmem_spill ht hto (X := src.chunks ++ X) src.chunks len hd hg
    obtain ⟨f1, g1, q1, hb⟩ : Fresh r.w ∧ Grows w r.w ∧ QV r.w r.dest ∧
        r.rc ≤ (min len (remSum src.chunks) : Nat) := cqmem_spec hto w dest src.chunks len hg.fresh hd
    have hs1 : QV r.w src := hs.mono g1
    have hsabs : src.abs r.w = src.abs w := absChunks_ext hs.valid ho.ext
    have hl := absChunks_length hs.valid
    have hmw := markWritten_spec r.w src r.rc.toNat
    have hle : r.rc.toNat ≤ remSum src.chunks := by
      have : r.rc ≤ (min len (remSum src.chunks) : Nat) := hb
      omega
    have hs2 := hmw.2 hs1 hle
    have hgi : GI base m.1 (r.dest.chunks ++ (m.2.chunks ++ X)) :=
      (ho.gi.swap.step (markWritten_res r.w src r.rc.toNat) hmw.1.grows (hmw.1.fresh f1)
        (hmw.1.wi ho.gi.wi) hs2.valid).swap
    have hdabs : r.dest.abs m.1 = r.dest.abs r.w := absChunks_same hmw.1 _
    have hmv := ho.moved
    unfold Moved at hmv
    rw [if_pos (by omega)] at hmv
    refine ⟨ho.qv.mono hmw.1.grows, hs2, hgi, ho.ext.trans hmw.1.ext, r.rc.toNat, by omega,
      by simp only [Cq.abs]; omega, ?_, ?_⟩
    · have := markWritten_abs r.w src r.rc.toNat hs1
      simp only [Cq.abs] at this hsabs ⊢
      rw [absChunks_same hmw.1] at this
      rw [absChunks_same hmw.1, this, hsabs]
    · simp only [if_true]
      refine ⟨by simp only [Cq.abs]; omega, ?_⟩
      rw [hdabs, hmv]; rfl
  | case5 fuel w dest src len c cs hc hm r hneg m h0 ih =>
    intro hd hs hg
    have ho : SOut base (src.chunks ++ X) w r (absChunks w src.chunks) (dest.abs w) :=
      cqmem_spill ht hto (X := src.chunks ++ X) src.chunks len hd hg
    obtain ⟨f1, g1, q1, hb⟩ : Fresh r.w ∧ Grows w r.w ∧ QV r.w r.dest ∧
        r.rc ≤ (min len (remSum src.chunks) : Nat) := cqmem_spec hto w dest src.chunks len hg.fresh hd
    have hs1 : QV r.w src := hs.mono g1
    have hsabs : src.abs r.w = src.abs w := absChunks_ext hs.valid ho.ext
    have hl := absChunks_length hs.valid
    have hmw := markWritten_spec r.w src r.rc.toNat
    have hle : r.rc.toNat ≤ remSum src.chunks := by
      have : r.rc ≤ (min len (remSum src.chunks) : Nat) := hb
      omega
    have hs2 := hmw.2 hs1 hle
    have hgi : GI base m.1 (r.dest.chunks ++ (m.2.chunks ++ X)) :=
      (ho.gi.swap.step (markWritten_res r.w src r.rc.toNat) hmw.1.grows (hmw.1.fresh f1)
        (hmw.1.wi ho.gi.wi) hs2.valid).swap
    have hdabs : r.dest.abs m.1 = r.dest.abs r.w := absChunks_same hmw.1 _
    have hmv := ho.moved
    unfold Moved at hmv
    rw [if_pos (by omega)] at hmv
    obtain ⟨i1, i2, i3, i4, i5⟩ := ih (ho.qv.mono hmw.1.grows) hs2 hgi
    refine ⟨i1, i2, i3, (ho.ext.trans hmw.1.ext).trans i4, ?_⟩
    refine Transfer.compose (k1 := r.rc.toNat) (by omega) (by simp only [Cq.abs]; omega) ?_ ?_ i5
    · rw [hdabs, hmv]; rfl
    · have := markWritten_abs r.w src r.rc.toNat hs1
      simp only [Cq.abs] at this hsabs ⊢
      rw [absChunks_same hmw.1] at this
      rw [absChunks_same hmw.1, this, hsabs]
  | case6 fuel w dest src len c cs hc hm clen h0 =>
    intro hd hs hg
    obtain ⟨s1, s2⟩ := steal_spec w dest src clen
    obtain ⟨a, b, e1, e2⟩ := s2 hd hs
    have hl := absChunks_length hs.valid
    have hrem : c.rem ≤ remSum src.chunks := by rw [hc]; simp
    have hgi : GI base (steal w dest src clen).1
        ((steal w dest src clen).2.1.chunks ++ ((steal w dest src clen).2.2.chunks ++ X)) := by
      have hg' : GI base w ((dest.chunks ++ src.chunks) ++ X) := by rw [List.append_assoc]; exact hg
      have := hg'.step (steal_res w dest src clen) s1.grows (s1.fresh hg.fresh) (s1.wi hg.wi)
        (ValidAll.append a.valid b.valid)
      rw [List.append_assoc] at this; exact this
    refine ⟨a, b, hgi, s1.ext, clen, by omega, by simp only [Cq.abs]; omega, ?_, ?_⟩
    · simp only [Cq.abs] at e2 ⊢; rw [absChunks_same s1]; exact e2
    · simp only [if_true]
      refine ⟨by simp only [Cq.abs]; omega, ?_⟩
      simp only [Cq.abs] at e1 ⊢; rw [absChunks_same s1]; exact e1
  | case7 fuel w dest src len c cs hc hm clen r h0 ih =>
    intro hd hs hg
    obtain ⟨s1, s2⟩ := steal_spec w dest src clen
    obtain ⟨a, b, e1, e2⟩ := s2 hd hs
    have hl := absChunks_length hs.valid
    have hrem : c.rem ≤ remSum src.chunks := by rw [hc]; simp
    have hgi : GI base r.1 (r.2.1.chunks ++ (r.2.2.chunks ++ X)) := by
      have hg' : GI base w ((dest.chunks ++ src.chunks) ++ X) := by rw [List.append_assoc]; exact hg
      have := hg'.step (steal_res w dest src clen) s1.grows (s1.fresh hg.fresh) (s1.wi hg.wi)
        (ValidAll.append a.valid b.valid)
      rw [List.append_assoc] at this; exact this
    obtain ⟨i1, i2, i3, i4, i5⟩ := ih a b hgi
    refine ⟨i1, i2, i3, s1.ext.trans i4, ?_⟩
    refine Transfer.compose (k1 := clen) (by omega) (by simp only [Cq.abs]; omega) ?_ ?_ i5
    · simp only [Cq.abs] at e1 ⊢; rw [absChunks_same s1]; exact e1
    · simp only [Cq.abs] at e2 ⊢; rw [absChunks_same s1]; exact e2

theorem toTempfilesWith_spill {base : Nat → Int} {inner : World → Cq → Cq → Nat → World × Cq × Cq × Bool}
    (hi : SwSpill base inner) : ToTempSpill base (toTempfilesWith inner) := by
  intro X w q hq hg
  have hlen := hq.len
  have habsl := absChunks_length hq.valid
  have hq0 : QV w { q with chunks := [], bytesIn := q.bytesIn - q.length.toNat } := by
    refine ⟨ValidAll.nil w, ?_⟩
    simp only [Cq.length, remSum_nil]
    omega
  obtain ⟨a1, a2, a3, a4, a5⟩ := hi X w { q with chunks := [], bytesIn := q.bytesIn - q.length.toNat } q
    q.length.toNat hq0 hq (by simpa using hg)
  unfold toTempfilesWith
  dsimp only
  have hr := releaseAll_same (inner w { q with chunks := [], bytesIn := q.bytesIn - q.length.toNat } q
    q.length.toNat).1 (inner w { q with chunks := [], bytesIn := q.bytesIn - q.length.toNat } q
    q.length.toNat).2.2.1.chunks
  have hgi := (a3.swap.step (releaseAll_conserve _ _) hr.grows (hr.fresh a3.fresh) (hr.wi a3.wi)
    (ValidAll.nil _))
  simp only [List.nil_append] at hgi
  refine ⟨a1.mono hr.grows, hgi, a4.trans hr.ext, ?_⟩
  obtain ⟨k, k1, k2, k3, k4⟩ := a5
  have hcq : q.length.toNat = (q.abs w).length := by simp only [Cq.abs, Cq.length]; omega
  have habs' : ∀ (c : Cq), c.abs (releaseAll (inner w { q with chunks := [], bytesIn := q.bytesIn - q.length.toNat }
      q q.length.toNat).1 (inner w { q with chunks := [], bytesIn := q.bytesIn - q.length.toNat } q
      q.length.toNat).2.2.1.chunks) = c.abs (inner w { q with chunks := [], bytesIn := q.bytesIn - q.length.toNat }
      q q.length.toNat).1 := fun c => absChunks_same hr _
  rw [habs']
  simp only [KeepOrPrefix]
  have hd0 : ({ q with chunks := [], bytesIn := q.bytesIn - q.length.toNat } : Cq).abs w = [] := rfl
  rw [hd0] at k4
  split
  · rename_i hok
    simp only [hok, if_true, List.nil_append] at k4
    rw [k4.2, k4.1, hcq, Nat.min_self, List.take_of_length_le (Nat.le_refl _)]
  · rename_i hok
    simp only [hok, List.nil_append] at k4
    exact List.IsPrefix.trans k4 (List.take_prefix _ _)

theorem toTempStub_spill (base : Nat → Int) : ToTempSpill base toTempStub := by
  intro X w q hq hg
  exact ⟨hq, hg, Ext.refl w, by simp [KeepOrPrefix, toTempStub]⟩

theorem swInner_spill (base : Nat → Int) : SwSpill base swInner :=
  fun X w dest src len => swLoop_spill (toTempStub_spill base) toTempStub_ok _ X w dest src len

theorem toTempfiles_spill (base : Nat → Int) : ToTempSpill base toTempfiles :=
  toTempfilesWith_spill (swInner_spill base)

/-- chunkqueue_steal_with_tempfiles(), all fault schedules -/
theorem stealWithTempfiles_spill (base : Nat → Int) : SwSpill base stealWithTempfiles :=
  fun X w dest src len => swLoop_spill (toTempfiles_spill base) toTempfiles_ok _ X w dest src len

/-- chunkqueue_append_mem_to_tempfile(), all fault schedules -/
theorem appendMemToTempfile_spill (base : Nat → Int) (X : List Chunk) (w : World) (q : Cq) (d : Bytes) :
    Spill base X w q (appendMemToTempfile w q d).1 (appendMemToTempfile w q d).2.1
      (AppOrPrefix (appendMemToTempfile w q d).2.2 d) := by
  unfold appendMemToTempfile
  have hpre : Spill base X w q (if firstIsMem q = true then toTempfiles w q else (w, q, true)).1
      (if firstIsMem q = true then toTempfiles w q else (w, q, true)).2.1
      (KeepOrPrefix (if firstIsMem q = true then toTempfiles w q else (w, q, true)).2.2) := by
    split
    · exact toTempfiles_spill base X w q
    · intro a b; exact ⟨a, b, Ext.refl w, rfl⟩
  split
  · rename_i w1 q1 heq
    rw [heq] at hpre
    intro hq hg
    obtain ⟨a1, a2, a3, a4⟩ := hpre hq hg
    refine ⟨a1, a2, a3, ?_⟩
    simp only [KeepOrPrefix, AppOrPrefix, Bool.false_eq_true, if_false] at a4 ⊢
    exact List.IsPrefix.trans a4 (List.prefix_append _ _)
  · rename_i w1 q1 heq
    rw [heq] at hpre
    have hsame : Spill base X w q w1 q1 Same := by
      intro hq hg
      obtain ⟨a1, a2, a3, a4⟩ := hpre hq hg
      exact ⟨a1, a2, a3, by simpa [KeepOrPrefix, Same] using a4⟩
    exact hsame.same_then (mtLoop_spill base X _ w1 q1 d)

/-! ## the closed system -/

theorem GI.comm {base : Nat → Int} {w : World} {A B : List Chunk} (h : GI base w (A ++ B)) :
    GI base w (B ++ A) := by
  have h' : GI base w (A ++ (B ++ [])) := by simpa using h
  simpa using h'.swap

/-- the full invariant of the two-queue system -/
structure FInv (base : Nat → Int) (s : Sys) : Prop where
  inv : Inv s
  gi : GI base s.w s.chunks
  /-- `base f` counts the names of `f` that do not belong to the queues: never
      negative, and the files the application hands in by name have one -/
  src : ∀ f, 0 ≤ base f ∧ (f < s.w.nsrc → 1 ≤ base f)

/-- operations that do not write temp files leave all file contents alone -/
theorem Sys.set_w (s : Sys) (i : Bool) (q : Cq) : (s.set i q).w = s.w := by cases i <;> rfl

theorem step_same (s : Sys) (op : Op) (hns : op.spills = false) : SameFiles s.w (step s op).1.w := by
  cases op with
  | appendMem qi d => simp only [step, Sys.set_w]; exact (appendMem_spec s.w (s.get qi) d).1
  | appendMemMin qi d => simp only [step, Sys.set_w]; exact (appendMemMin_spec s.w (s.get qi) d).1
  | appendBuffer qi d => simp only [step, Sys.set_w]; exact (appendBuffer_spec s.w (s.get qi) d).1
  | appendBufferOpen qi d => simp only [step, Sys.set_w]; exact (appendBufferOpen_spec s.w (s.get qi) d).1
  | getUseMemory qi req d => simp only [step, Sys.set_w]; exact (getUseMemory_spec s.w (s.get qi) req d).1
  | appendFile qi fid off len fd =>
    simp only [step, Sys.set_w]; exact (appendFile_spec s.w (s.get qi) fid off len fd).1
  | appendChunkqueue qi => simp only [step, Sys.set_w]; exact SameFiles.refl s.w
  | appendMemToTempfile qi d => cases hns
  | steal qi n => simp only [step, Sys.set_w]; exact (steal_spec s.w (s.get qi) (s.get (!qi)) n).1
  | stealWithTempfiles qi n => cases hns
  | appendCqRange qi self off len =>
    cases self
    · simp only [step, Bool.false_eq_true, ↓reduceIte, Sys.set_w]
      exact (rangeLoop_spec s.w (s.get qi) (s.get (!qi)).chunks off len).1
    · simp only [step, ↓reduceIte]
      split
      · exact SameFiles.refl s.w
      · simp only [Sys.set_w]; exact (rangeLoop_spec s.w (s.get qi) (s.get qi).chunks off len).1
  | markWritten qi n =>
    simp only [step]
    split
    · simp only [Sys.set_w]; exact (markWritten_spec s.w (s.get qi) n).1
    · exact SameFiles.refl s.w
  | removeFinished qi => simp only [step, Sys.set_w]; exact (removeFinished_spec s.w (s.get qi)).1
  | removeEmpty qi => simp only [step, Sys.set_w]; exact (removeEmpty_spec s.w (s.get qi)).1
  | compactMem qi clen =>
    simp only [step]
    split
    · simp only [Sys.set_w]; exact (compactMem_spec s.w (s.get qi) clen).1
    · exact SameFiles.refl s.w
  | compactMemOffset qi =>
    simp only [step]
    split
    · exact SameFiles.refl s.w
    · simp only [Sys.set_w]; exact SameFiles.refl s.w
  | peekData qi n => simp only [step, Sys.set_w]; exact (peekData_spec s.w (s.get qi) n).1
  | readData qi n =>
    simp only [step, Sys.set_w]; exact (readData_spec (w := s.w) (q := s.get qi) (n := n) rfl).1
  | readSquash qi => simp only [step, Sys.set_w]; exact (readSquash_spec (w := s.w) (q := s.get qi) rfl).1
  | reset qi => simp only [step, Sys.set_w]; exact (reset_spec s.w (s.get qi)).1

/-- no operation changes which files are the application's -/
theorem step_nsrc (s : Sys) (op : Op) (h : Inv s) : (step s op).1.w.nsrc = s.w.nsrc := by
  by_cases hns : op.spills = false
  · exact (step_same s op hns).nsrc
  · cases op with
    | appendMemToTempfile qi d =>
      have := (appendMemToTempfile_spec s.w (s.get qi) d h.fresh (h.get qi)).2.1.nsrc
      simpa only [step, Sys.set_w] using this
    | stealWithTempfiles qi n =>
      have := (stealWithTempfiles_spec s.w (s.get qi) (s.get (!qi)) n h.fresh (h.get qi) (h.get (!qi))).2.1.nsrc
      simpa only [step, Sys.set_w] using this
    | _ => exact absurd rfl hns

theorem Inv.valid_chunks {s : Sys} (h : Inv s) : ValidAll s.w s.chunks :=
  ValidAll.append h.q0.valid h.q1.valid

/-- what one spilling operation does to the two queues -/
def SpillRes (s : Sys) (op : Op) : Prop :=
  match op, (step s op).2 with
  | .appendMemToTempfile qi d, .rc ok =>
    AppOrPrefix ok d (s.abs qi) ((step s op).1.abs qi) ∧ (step s op).1.abs (!qi) = s.abs (!qi)
  | .stealWithTempfiles qi n, .rc ok =>
    Transfer ok n (s.abs qi) (s.abs (!qi)) ((step s op).1.abs qi) ((step s op).1.abs (!qi))
  | _, _ => True

theorem step_finv {base : Nat → Int} (s : Sys) (op : Op) (h : FInv base s) (hop : OpOK s op) :
    FInv base (step s op).1 ∧ SpillRes s op := by
  have hinv := step_inv s op h.inv hop
  have hsrc : ∀ f, 0 ≤ base f ∧ (f < (step s op).1.w.nsrc → 1 ≤ base f) := by
    rw [step_nsrc s op h.inv]; exact h.src
  by_cases hns : op.spills = false
  · have hs := step_same s op hns
    refine ⟨⟨hinv, ?_, hsrc⟩, ?_⟩
    · have hg : GI base s.w (s.chunks ++ []) := by simpa using h.gi
      have := hg.step (step_conserve s op) hs.grows hinv.fresh (hs.wi h.gi.wi) hinv.valid_chunks
      simpa using this
    · cases op <;> first | trivial | cases hns
  · cases op with
    | appendMemToTempfile qi d =>
      cases qi
      · obtain ⟨a1, a2, a3, a4⟩ := appendMemToTempfile_spill base s.q1.chunks s.w s.q0 d h.inv.q0 h.gi
        refine ⟨⟨hinv, a2, hsrc⟩, a4, ?_⟩
        exact absChunks_ext h.inv.q1.valid a3
      · obtain ⟨a1, a2, a3, a4⟩ := appendMemToTempfile_spill base s.q0.chunks s.w s.q1 d h.inv.q1 h.gi.comm
        refine ⟨⟨hinv, a2.comm, hsrc⟩, a4, ?_⟩
        exact absChunks_ext h.inv.q0.valid a3
    | stealWithTempfiles qi n =>
      cases qi
      · have hg : GI base s.w (s.q0.chunks ++ (s.q1.chunks ++ [])) := by simpa [Sys.chunks] using h.gi
        obtain ⟨a1, a2, a3, a4, a5⟩ := stealWithTempfiles_spill base [] s.w s.q0 s.q1 n h.inv.q0 h.inv.q1 hg
        refine ⟨⟨hinv, ?_, hsrc⟩, a5⟩
        have : GI base (stealWithTempfiles s.w s.q0 s.q1 n).1
            ((stealWithTempfiles s.w s.q0 s.q1 n).2.1.chunks ++ (stealWithTempfiles s.w s.q0 s.q1 n).2.2.1.chunks) := by
          simpa using a3
        exact this
      · have hg : GI base s.w (s.q1.chunks ++ (s.q0.chunks ++ [])) := by
          have : GI base s.w (s.q0.chunks ++ s.q1.chunks) := h.gi
          simpa using this.comm
        obtain ⟨a1, a2, a3, a4, a5⟩ := stealWithTempfiles_spill base [] s.w s.q1 s.q0 n h.inv.q1 h.inv.q0 hg
        refine ⟨⟨hinv, ?_, hsrc⟩, a5⟩
        have : GI base (stealWithTempfiles s.w s.q1 s.q0 n).1
            ((stealWithTempfiles s.w s.q1 s.q0 n).2.1.chunks ++ (stealWithTempfiles s.w s.q1 s.q0 n).2.2.1.chunks) := by
          simpa using a3
        exact this.comm
    | _ => exact absurd rfl hns

theorem run_finv {base : Nat → Int} (s : Sys) (ops : List Op) (h : FInv base s)
    (hops : ∀ (pre : List Op) (op : Op) (post : List Op), ops = pre ++ op :: post → OpOK (run s pre) op) :
    FInv base (run s ops) := by
  induction ops generalizing s with
  | nil => exact h
  | cons op ops ih =>
    simp only [run]
    refine ih (step s op).1 (step_finv s op h (hops [] op ops rfl)).1 ?_
    intro pre op' post e
    have := hops (op :: pre) op' post (by rw [e]; rfl)
    simpa [run] using this

end LtVerif.Cq
