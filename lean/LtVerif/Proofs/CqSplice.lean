/-
  C17 — the splice() path (chunkqueue_append_splice_pipe_tempfile, Model/CqSplice.lean):
  with no scripted write result pending it is the pwrite() path
  (chunkqueue_append_mem_to_tempfile) — same file position `c->file.length`, same
  accounting, same error handling — so every theorem about `.appendMemToTempfile`
  transfers to it.
-/
import LtVerif.Model.CqSplice
import LtVerif.Proofs.CqFuel
namespace LtVerif.Cq

theorem Calm.ws_nil {w w' : World} (h : Calm w w') (hw : w.wsched = []) : w'.wsched = [] := by
  have := h.ws
  rw [hw] at this
  exact List.suffix_nil.mp this

theorem popW_nil {w : World} (hw : w.wsched = []) : popW w = (w, .ok) := by
  unfold popW
  rw [hw]

/-- one turn of the pwrite() loop with an empty schedule, spelled out -/
theorem mtLoop_one_nil (w : World) (q : Cq) (d : Bytes) (hw : w.wsched = []) :
    mtLoop 1 w q d =
      (match getAppendTempfile w q with
       | (w, q, false) => (w, q, false)
       | (w, q, true) =>
         if d.length = 0 then (w, q, true)
         else if lastReadOnly q then
           match tempfileErr w q false with
           | (w, q, _) => (w, q, false)
         else (writeLast w q d, growLast q d.length, true)) := by
  have hc := getAppendTempfile_calm w q
  unfold mtLoop
  rcases hg : getAppendTempfile w q with ⟨w2, q2, ok⟩
  rw [hg] at hc
  have h2 : w2.wsched = [] := hc.ws_nil hw
  cases ok
  · rfl
  · simp only []
    by_cases hd : d.length = 0
    · simp only [hd, ↓reduceIte]
    · simp only [hd, ↓reduceIte, popW_nil h2, effFault]
      by_cases hro : lastReadOnly q2 = true
      · simp only [hro, ↓reduceIte]
        rcases tempfileErr w2 q2 false with ⟨a, b, c⟩
        cases c <;> simp [mtLoop]
      · simp only [hro]
        simp

theorem appendSplice_eq (w : World) (q : Cq) (d : Bytes) (hw : w.wsched = []) :
    appendSplice w q d = appendMemToTempfile w q d := by
  unfold appendSplice appendMemToTempfile
  have hc : Calm w (if firstIsMem q = true then toTempfiles w q else (w, q, true)).1 := by
    split
    · exact toTempfiles_calm w q
    · exact Calm.refl w
  rcases hp : (if firstIsMem q = true then toTempfiles w q else (w, q, true)) with ⟨w1, q1, ok⟩
  rw [hp] at hc
  have h1 : w1.wsched = [] := hc.ws_nil hw
  cases ok
  · rfl
  · simp only [h1, List.length_nil, Nat.zero_add]
    exact (mtLoop_one_nil w1 q1 d h1).symm

end LtVerif.Cq
