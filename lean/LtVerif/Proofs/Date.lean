/-
  Helper lemmas for Model/Date.lean: the civil-date/day-number bijection
  (arithmetic proof: monotonicity of the year formula + a 400-entry table
  checked by the kernel), digit rendering/parsing, and the byte-level shape
  of the three rendered date formats.
-/
import LtVerif.Model.Date
set_option linter.unusedSimpArgs false
set_option linter.unusedVariables false
namespace LtVerif
namespace Date
open B

/-! ### year-of-era formula -/

/-- numerator of the year-of-era formula of civil_from_days -/
def gY (x : Int) : Int := x - x / 1460 + x / 36524 - x / 146096
/-- first day-of-era of year-of-era `y` -/
def startY (y : Int) : Int := 365 * y + y / 4 - y / 100

theorem gY_step (a : Int) : gY a ≤ gY (a + 1) := by
  unfold gY; omega

theorem gY_mono (a b : Int) (h : a ≤ b) : gY a ≤ gY b := by
  obtain ⟨n, rfl⟩ : ∃ n : Nat, b = a + n := ⟨(b - a).toNat, by omega⟩
  clear h
  induction n with
  | zero => simp
  | succ k ih =>
    have h1 := gY_step (a + k)
    have e : a + ((k + 1 : Nat) : Int) = a + k + 1 := by omega
    rw [e]; omega

theorem year_table : ∀ Y : Nat, Y < 400 →
    gY (startY Y) / 365 = Y ∧ gY (startY (Y + 1) - 1) / 365 = Y := by
  decide +kernel

theorem div365_mono {a b : Int} (h : a ≤ b) : a / 365 ≤ b / 365 := by omega

/-- the year-of-era formula is exact on a whole 400-year era -/
theorem yoe_ok (doe : Int) (h0 : 0 ≤ doe) (h1 : doe ≤ 146096) :
    0 ≤ gY doe / 365 ∧ gY doe / 365 ≤ 399 ∧ startY (gY doe / 365) ≤ doe ∧
    doe ≤ startY (gY doe / 365) + 365 := by
  have hlo : (0 : Int) ≤ gY doe / 365 := by
    have := div365_mono (gY_mono 0 doe h0)
    have e : gY 0 / 365 = 0 := by decide
    omega
  have hhi : gY doe / 365 ≤ 399 := by
    have := div365_mono (gY_mono doe 146096 h1)
    have e : gY 146096 / 365 = 399 := by decide
    omega
  obtain ⟨Y, hY⟩ : ∃ Y : Nat, gY doe / 365 = Y := ⟨(gY doe / 365).toNat, by omega⟩
  have hY400 : Y < 400 := by omega
  refine ⟨hlo, hhi, ?_, ?_⟩
  · -- doe < startY Y would give a smaller year
    rw [hY]
    apply Classical.byContradiction
    intro hlt
    have hlt : doe ≤ startY Y - 1 := by omega
    have hYpos : 0 < Y := by
      apply Classical.byContradiction
      intro h; have : Y = 0 := by omega
      subst this
      have : startY ((0 : Nat) : Int) = 0 := by decide
      omega
    obtain ⟨Z, rfl⟩ : ∃ Z, Y = Z + 1 := ⟨Y - 1, by omega⟩
    have ht := (year_table Z (by omega)).2
    have hm := div365_mono (gY_mono doe (startY ((Z : Int) + 1) - 1) (by
      have : ((Z + 1 : Nat) : Int) = (Z : Int) + 1 := by omega
      rw [this] at hlt; exact hlt))
    have : ((Z + 1 : Nat) : Int) = (Z : Int) + 1 := by omega
    omega
  · rw [hY]
    by_cases hlast : Y = 399
    · subst hlast
      have : startY ((399 : Nat) : Int) = 145731 := by decide
      omega
    · apply Classical.byContradiction
      intro hge
      have hstep : startY ((Y : Int) + 1) ≤ startY (Y : Int) + 366 := by
        unfold startY; omega
      have hge : startY ((Y : Int) + 1) ≤ doe := by omega
      have ht := (year_table (Y + 1) (by omega)).1
      have hm := div365_mono (gY_mono (startY ((Y : Int) + 1)) doe hge)
      have : ((Y + 1 : Nat) : Int) = (Y : Int) + 1 := by omega
      rw [this] at ht
      omega

/-! ### civil-date bijection -/

/-- components of civil_from_days, named -/
theorem civil_facts (z : Int) :
    ∃ era yoe doy mp : Int,
      0 ≤ yoe ∧ yoe ≤ 399 ∧ 0 ≤ doy ∧ doy ≤ 365 ∧ 0 ≤ mp ∧ mp ≤ 11 ∧
      mp = (5 * doy + 2) / 153 ∧
      z + 719468 = era * 146097 + (365 * yoe + yoe / 4 - yoe / 100) + doy ∧
      civilFromDays z =
        (if (if mp < 10 then mp + 3 else mp - 9) ≤ 2 then yoe + era * 400 + 1 else yoe + era * 400,
         if mp < 10 then mp + 3 else mp - 9,
         doy - (153 * mp + 2) / 5 + 1) := by
  have hdoe0 : 0 ≤ (z + 719468) - (z + 719468) / 146097 * 146097 := by omega
  have hdoe1 : (z + 719468) - (z + 719468) / 146097 * 146097 ≤ 146096 := by omega
  have hy := yoe_ok _ hdoe0 hdoe1
  refine ⟨(z + 719468) / 146097,
          gY ((z + 719468) - (z + 719468) / 146097 * 146097) / 365,
          ((z + 719468) - (z + 719468) / 146097 * 146097)
            - startY (gY ((z + 719468) - (z + 719468) / 146097 * 146097) / 365),
          (5 * (((z + 719468) - (z + 719468) / 146097 * 146097)
            - startY (gY ((z + 719468) - (z + 719468) / 146097 * 146097) / 365)) + 2) / 153,
          hy.1, hy.2.1, ?_, ?_, ?_, ?_, rfl, ?_, ?_⟩
  · have := hy.2.2.1; omega
  · have := hy.2.2.2; omega
  · have := hy.2.2.1; omega
  · have := hy.2.2.2; omega
  · unfold startY; omega
  · rfl

theorem civil_roundtrip (z : Int) :
    daysFromCivil (civilFromDays z).1 (civilFromDays z).2.1 (civilFromDays z).2.2 = z := by
  obtain ⟨era, yoe, doy, mp, h0, h1, h2, h3, h4, h5, hmp, hz, hc⟩ := civil_facts z
  rw [hc]
  simp only [daysFromCivil]
  by_cases hm : mp < 10
  · simp only [hm, if_true]
    have e1 : ¬ (mp + 3 ≤ 2) := by omega
    have e2 : mp + 3 > 2 := by omega
    simp only [e1, e2, if_true, if_false]
    have e3 : (yoe + era * 400) / 400 = era := by omega
    have e4 : yoe + era * 400 - era * 400 = yoe := by omega
    have e5 : mp + 3 - 3 = mp := by omega
    rw [e3, e4, e5]
    omega
  · simp only [hm, if_false]
    have e1 : mp - 9 ≤ 2 := by omega
    have e2 : ¬ (mp - 9 > 2) := by omega
    simp only [e1, e2, if_true, if_false]
    have e3 : (yoe + era * 400 + 1 - 1) / 400 = era := by omega
    have e4 : yoe + era * 400 + 1 - 1 - era * 400 = yoe := by omega
    have e5 : mp - 9 + 9 = mp := by omega
    rw [e3, e4, e5]
    omega

theorem civil_month_day (z : Int) :
    1 ≤ (civilFromDays z).2.1 ∧ (civilFromDays z).2.1 ≤ 12 ∧
    1 ≤ (civilFromDays z).2.2 ∧ (civilFromDays z).2.2 ≤ 31 := by
  obtain ⟨era, yoe, doy, mp, h0, h1, h2, h3, h4, h5, hmp, hz, hc⟩ := civil_facts z
  rw [hc]
  simp only
  refine ⟨?_, ?_, ?_, ?_⟩
  · split <;> omega
  · split <;> omega
  · omega
  · omega

/-- days_from_civil is linear in the day of month -/
theorem daysFromCivil_day (y m d : Int) :
    daysFromCivil y m 1 + (d - 1) = daysFromCivil y m d := by
  simp only [daysFromCivil]; omega

/-- a day number below 10000-01-01 has a year below 10000 -/
theorem civil_year_le (z : Int) (h : z ≤ 2932896) : (civilFromDays z).1 ≤ 9999 := by
  have hr := civil_roundtrip z
  have hmd := civil_month_day z
  generalize (civilFromDays z).1 = y at *
  generalize (civilFromDays z).2.1 = m at *
  generalize (civilFromDays z).2.2 = d at *
  apply Classical.byContradiction
  intro hy
  simp only [daysFromCivil] at hr
  by_cases hm : m ≤ 2
  · have e2 : ¬ (m > 2) := by omega
    simp only [hm, e2, if_true, if_false] at hr
    omega
  · have e2 : m > 2 := by omega
    simp only [hm, e2, if_true, if_false] at hr
    omega

/-- a day number from 1970-01-01 on has a year from 1970 on -/
theorem civil_year_ge (z : Int) (h : 0 ≤ z) : 1970 ≤ (civilFromDays z).1 := by
  have hr := civil_roundtrip z
  have hmd := civil_month_day z
  generalize (civilFromDays z).1 = y at *
  generalize (civilFromDays z).2.1 = m at *
  generalize (civilFromDays z).2.2 = d at *
  apply Classical.byContradiction
  intro hy
  simp only [daysFromCivil] at hr
  by_cases hm : m ≤ 2
  · have e2 : ¬ (m > 2) := by omega
    simp only [hm, e2, if_true, if_false] at hr
    omega
  · have e2 : m > 2 := by omega
    simp only [hm, e2, if_true, if_false] at hr
    omega

/-- a day number from 1000-01-01 on has a year from 1000 on (four digits) -/
theorem civil_year_ge1000 (z : Int) (h : -354285 ≤ z) : 1000 ≤ (civilFromDays z).1 := by
  have hr := civil_roundtrip z
  have hmd := civil_month_day z
  generalize (civilFromDays z).1 = y at *
  generalize (civilFromDays z).2.1 = m at *
  generalize (civilFromDays z).2.2 = d at *
  apply Classical.byContradiction
  intro hy
  simp only [daysFromCivil] at hr
  by_cases hm : m ≤ 2
  · have e2 : ¬ (m > 2) := by omega
    simp only [hm, e2, if_true, if_false] at hr
    omega
  · have e2 : m > 2 := by omega
    simp only [hm, e2, if_true, if_false] at hr
    omega

/-! ### digits -/

theorem digit_facts : ∀ k : Nat, k < 10 →
    isDigit (digit k) = true ∧ dv (digit k) = k ∧ digit k ≠ 32 := by
  decide

theorem d2_ok (n : Int) (h0 : 0 ≤ n) (h1 : n ≤ 99) :
    ∃ a b, d2 n = [a, b] ∧ isDigit a = true ∧ isDigit b = true ∧ num2 a b = n := by
  refine ⟨_, _, rfl, ?_, ?_, ?_⟩
  · exact (digit_facts _ (by omega)).1
  · exact (digit_facts _ (by omega)).1
  · simp only [num2]
    rw [(digit_facts (n.toNat / 10) (by omega)).2.1, (digit_facts (n.toNat % 10) (by omega)).2.1]
    omega

theorem d2sp_ok (n : Int) (h0 : 0 ≤ n) (h1 : n ≤ 99) :
    ∃ a b, d2sp n = [a, b] ∧ (a = 32 ∨ isDigit a = true) ∧ isDigit b = true ∧
      (if a = 32 then 0 else 10 * dv a) + dv b = n := by
  refine ⟨_, _, rfl, ?_, ?_, ?_⟩
  · by_cases h : n.toNat < 10
    · simp [h]
    · simp only [h, if_false]
      right; exact (digit_facts _ (by omega)).1
  · exact (digit_facts _ (by omega)).1
  · by_cases h : n.toNat < 10
    · simp only [h, if_true]
      rw [(digit_facts (n.toNat % 10) (by omega)).2.1]
      omega
    · simp only [h, if_false]
      have hne := (digit_facts (n.toNat / 10) (by omega)).2.2
      simp only [hne, if_false]
      rw [(digit_facts (n.toNat / 10) (by omega)).2.1, (digit_facts (n.toNat % 10) (by omega)).2.1]
      omega

theorem natDec4 (n : Nat) (h0 : 1000 ≤ n) (h1 : n ≤ 9999) :
    natDec n = [digit (n / 1000), digit (n / 100 % 10), digit (n / 10 % 10), digit (n % 10)] := by
  obtain ⟨f, hf⟩ : ∃ f, n + 1 = f + 4 := ⟨n - 3, by omega⟩
  unfold natDec
  rw [hf]
  have a1 : ¬ n < 10 := by omega
  have a2 : ¬ n / 10 < 10 := by omega
  have a3 : ¬ n / 10 / 10 < 10 := by omega
  have a4 : n / 10 / 10 / 10 < 10 := by omega
  simp only [natDecAux, a1, a2, a3, a4, if_true, if_false, List.cons_append, List.nil_append]
  have e1 : n / 10 / 10 / 10 = n / 1000 := by omega
  have e2 : n / 10 / 10 % 10 = n / 100 % 10 := by omega
  rw [e1, e2]

theorem year4_ok (y : Int) (h0 : 1000 ≤ y) (h1 : y ≤ 9999) :
    ∃ a b c d, yearStr y = [a, b, c, d] ∧ isDigit a = true ∧ isDigit b = true ∧ isDigit c = true ∧
      isDigit d = true ∧ num2 a b * 100 + num2 c d = y := by
  have hn : ¬ y < 0 := by omega
  refine ⟨digit (y.toNat / 1000), digit (y.toNat / 100 % 10), digit (y.toNat / 10 % 10),
          digit (y.toNat % 10), ?_, ?_, ?_, ?_, ?_, ?_⟩
  · simp only [yearStr, hn, if_false]
    exact natDec4 y.toNat (by omega) (by omega)
  · exact (digit_facts _ (by omega)).1
  · exact (digit_facts _ (by omega)).1
  · exact (digit_facts _ (by omega)).1
  · exact (digit_facts _ (by omega)).1
  · simp only [num2]
    rw [(digit_facts (y.toNat / 1000) (by omega)).2.1, (digit_facts (y.toNat / 100 % 10) (by omega)).2.1,
        (digit_facts (y.toNat / 10 % 10) (by omega)).2.1, (digit_facts (y.toNat % 10) (by omega)).2.1]
    omega

theorem digit_toNat (k : Nat) (h : k < 10) : (digit k).toNat = 48 + k := by
  have := (digit_facts k h).2.1
  simp only [dv] at this
  omega

theorem decVal_snoc (ds : Bytes) (d : UInt8) : decVal (ds ++ [d]) = decVal ds * 10 + (d.toNat - 48) := by
  simp [decVal, List.foldl_append]

theorem natDecAux_spec (f n : Nat) (h : n < f) :
    decVal (natDecAux f n) = n ∧ natDecAux f n ≠ [] ∧ ∀ d ∈ natDecAux f n, isDigit d = true := by
  induction f generalizing n with
  | zero => omega
  | succ f ih =>
    unfold natDecAux
    split
    · rename_i h10
      refine ⟨?_, by simp, ?_⟩
      · simp [decVal, digit_toNat n h10]
      · intro d hd
        simp only [List.mem_singleton] at hd
        rw [hd]; exact (digit_facts n h10).1
    · rename_i h10
      obtain ⟨h1, h2, h3⟩ := ih (n / 10) (by omega)
      refine ⟨?_, by simp, ?_⟩
      · rw [decVal_snoc, h1, digit_toNat (n % 10) (by omega)]; omega
      · intro d hd
        simp only [List.mem_append, List.mem_singleton] at hd
        rcases hd with e | e
        · exact h3 d e
        · rw [e]; exact (digit_facts (n % 10) (by omega)).1

/-- the decimal rendering denotes the number: reading it back gives `n` -/
theorem decVal_natDec (n : Nat) : decVal (natDec n) = n := (natDecAux_spec (n + 1) n (by omega)).1

theorem natDec_digits (n : Nat) : natDec n ≠ [] ∧ ∀ d ∈ natDec n, isDigit d = true :=
  (natDecAux_spec (n + 1) n (by omega)).2

/-! ### names -/

theorem wday_ok (w : Int) (h0 : 0 ≤ w) (h1 : w ≤ 6) :
    ∃ a b c, wdayAbbr w = [a, b, c] ∧ isWday a b c = true ∧
      (wdayRest w).dropWhile (fun b => b ≠ 44) = [] ∧ 3 ≤ (wdayRest w).length := by
  have : w = 0 ∨ w = 1 ∨ w = 2 ∨ w = 3 ∨ w = 4 ∨ w = 5 ∨ w = 6 := by omega
  rcases this with h | h | h | h | h | h | h <;> subst h <;>
    exact ⟨_, _, _, rfl, by decide, by decide, by decide⟩

theorem mon_ok (m : Int) (h0 : 0 ≤ m) (h1 : m ≤ 11) :
    ∃ a b c, monAbbr m = [a, b, c] ∧ monIdx a b c = some m := by
  have : m = 0 ∨ m = 1 ∨ m = 2 ∨ m = 3 ∨ m = 4 ∨ m = 5 ∨ m = 6 ∨ m = 7 ∨ m = 8 ∨ m = 9 ∨
      m = 10 ∨ m = 11 := by omega
  rcases this with h | h | h | h | h | h | h | h | h | h | h | h <;> subst h <;>
    exact ⟨_, _, _, rfl, by decide⟩

/-! ### gmtime / timegm -/

/-- field ranges of gmtime for instants in the four-digit-year range -/
theorem gmtime_fields (t : Int) (h0 : -30610224000 ≤ t) (h1 : t ≤ 253402300799) :
    let tm := (gmtime t).1
    1000 ≤ tm.year ∧ tm.year ≤ 9999 ∧ 0 ≤ tm.mon ∧ tm.mon ≤ 11 ∧ 1 ≤ tm.mday ∧ tm.mday ≤ 31 ∧
    0 ≤ tm.hour ∧ tm.hour ≤ 23 ∧ 0 ≤ tm.min ∧ tm.min ≤ 59 ∧ 0 ≤ tm.sec ∧ tm.sec ≤ 59 ∧
    0 ≤ (gmtime t).2 ∧ (gmtime t).2 ≤ 6 := by
  have hmd := civil_month_day (t / 86400)
  have hy1 := civil_year_le (t / 86400) (by omega)
  have hy0 := civil_year_ge1000 (t / 86400) (by omega)
  simp only [gmtime]
  refine ⟨hy0, hy1, ?_, ?_, hmd.2.2.1, hmd.2.2.2, ?_, ?_, ?_, ?_, ?_, ?_, ?_, ?_⟩ <;> omega

theorem timegm_gmtime (t : Int) : timegm (gmtime t).1 = t := by
  have hr := civil_roundtrip (t / 86400)
  simp only [gmtime, timegm]
  have e : (civilFromDays (t / 86400)).2.1 - 1 + 1 = (civilFromDays (t / 86400)).2.1 := by omega
  rw [e, daysFromCivil_day, hr]
  omega

/-! ### byte-level round trips -/

theorem imf_roundtrip (now t : Int) (h0 : -30610224000 ≤ t) (h1 : t ≤ 253402300799) :
    (renderIMF t).length = 29 ∧ dateToTime now (renderIMF t) = some t := by
  obtain ⟨hy0, hy1, hm0, hm1, hd0, hd1, hh0, hh1, hi0, hi1, hs0, hs1, hw0, hw1⟩ := gmtime_fields t h0 h1
  obtain ⟨w0, w1, w2, hw, hwd, -, -⟩ := wday_ok (gmtime t).2 hw0 hw1
  obtain ⟨m0, m1, m2, hm, hmi⟩ := mon_ok (gmtime t).1.mon hm0 hm1
  obtain ⟨d1, d0, hd, hdd1, hdd0, hdv⟩ := d2_ok (gmtime t).1.mday (by omega) (by omega)
  obtain ⟨y3, y2, y1, y0, hy, hyd3, hyd2, hyd1, hyd0, hyv⟩ := year4_ok (gmtime t).1.year (by omega) hy1
  obtain ⟨H1, H0, hH, hHd1, hHd0, hHv⟩ := d2_ok (gmtime t).1.hour hh0 (by omega)
  obtain ⟨I1, I0, hI, hId1, hId0, hIv⟩ := d2_ok (gmtime t).1.min hi0 (by omega)
  obtain ⟨S1, S0, hS, hSd1, hSd0, hSv⟩ := d2_ok (gmtime t).1.sec hs0 (by omega)
  have hr : renderIMF t = [w0, w1, w2, 44, 32, d1, d0, 32, m0, m1, m2, 32, y3, y2, y1, y0, 32,
      H1, H0, 58, I1, I0, 58, S1, S0, 32, 71, 77, 84] := by
    simp only [renderIMF, hmsStr, gmtStr, hw, hd, hm, hy, hH, hI, hS]
    rfl
  refine ⟨by rw [hr]; rfl, ?_⟩
  rw [dateToTime, strToTm, hr]
  simp only [List.length_cons, List.length_nil, if_true, parseIMF, hwd, hmi, hdd1, hdd0,
    hyd3, hyd2, hyd1, hyd0, hHd1, hHd0, hId1, hId0, hSd1, hSd0, Bool.and_self, decide_true,
    Bool.and_true, if_true, Option.map_some, hdv, hyv, hHv, hIv, hSv]
  exact congrArg some (timegm_gmtime t)

theorem asctime_roundtrip (now t : Int) (h0 : -30610224000 ≤ t) (h1 : t ≤ 253402300799) :
    (renderAsctime t).length = 24 ∧ dateToTime now (renderAsctime t) = some t := by
  obtain ⟨hy0, hy1, hm0, hm1, hd0, hd1, hh0, hh1, hi0, hi1, hs0, hs1, hw0, hw1⟩ := gmtime_fields t h0 h1
  obtain ⟨w0, w1, w2, hw, hwd, -, -⟩ := wday_ok (gmtime t).2 hw0 hw1
  obtain ⟨m0, m1, m2, hm, hmi⟩ := mon_ok (gmtime t).1.mon hm0 hm1
  obtain ⟨d1, d0, hd, hdd1, hdd0, hdv⟩ := d2sp_ok (gmtime t).1.mday (by omega) (by omega)
  obtain ⟨y3, y2, y1, y0, hy, hyd3, hyd2, hyd1, hyd0, hyv⟩ := year4_ok (gmtime t).1.year (by omega) hy1
  obtain ⟨H1, H0, hH, hHd1, hHd0, hHv⟩ := d2_ok (gmtime t).1.hour hh0 (by omega)
  obtain ⟨I1, I0, hI, hId1, hId0, hIv⟩ := d2_ok (gmtime t).1.min hi0 (by omega)
  obtain ⟨S1, S0, hS, hSd1, hSd0, hSv⟩ := d2_ok (gmtime t).1.sec hs0 (by omega)
  have hr : renderAsctime t = [w0, w1, w2, 32, m0, m1, m2, 32, d1, d0, 32, H1, H0, 58, I1, I0, 58,
      S1, S0, 32, y3, y2, y1, y0] := by
    simp only [renderAsctime, hmsStr, hw, hd, hm, hy, hH, hI, hS]
    rfl
  refine ⟨by rw [hr]; rfl, ?_⟩
  have hdd1' : (decide (d1 = 32) || isDigit d1) = true := by
    rcases hdd1 with h | h
    · simp [h]
    · simp [h]
  have hl : (renderAsctime t).length = 24 := by rw [hr]; rfl
  have hne : ¬ (renderAsctime t).length = 29 := by omega
  have hng : ¬ (renderAsctime t).length > 29 := by omega
  rw [dateToTime, strToTm]
  simp only [hne, hng, if_false]
  rw [hr]
  simp only [parseAsctime, hwd, hmi, hdd0, hdd1',
    hyd3, hyd2, hyd1, hyd0, hHd1, hHd0, hId1, hId0, hSd1, hSd0, Bool.and_self, decide_true,
    Bool.and_true, Bool.true_and, if_true, Option.map_some, hdv, hyv, hHv, hIv, hSv]
  exact congrArg some (timegm_gmtime t)

/-- the years an RFC 850 date can denote for the code: at most 49 years back,
    at most 50 years ahead, and not beyond the end of the current century -/
def InWindow850 (cur year : Int) : Prop :=
  cur - 49 ≤ year ∧ year ≤ cur + 50 ∧ year ≤ cur - cur % 100 + 99

theorem year850_ok (cur year : Int) (h : InWindow850 cur year) :
    year850 cur (year % 100) = year := by
  obtain ⟨h1, h2, h3⟩ := h
  simp only [year850]
  split <;> omega

theorem rfc850_roundtrip (now t : Int) (h0 : -30610224000 ≤ t) (h1 : t ≤ 253402300799)
    (hwin : InWindow850 (yearOf now) (gmtime t).1.year) :
    (renderRFC850 t).length > 29 ∧ dateToTime now (renderRFC850 t) = some t := by
  obtain ⟨hy0, hy1, hm0, hm1, hd0, hd1, hh0, hh1, hi0, hi1, hs0, hs1, hw0, hw1⟩ := gmtime_fields t h0 h1
  obtain ⟨w0, w1, w2, hw, hwd, hrest, hrlen⟩ := wday_ok (gmtime t).2 hw0 hw1
  obtain ⟨m0, m1, m2, hm, hmi⟩ := mon_ok (gmtime t).1.mon hm0 hm1
  obtain ⟨d1, d0, hd, hdd1, hdd0, hdv⟩ := d2_ok (gmtime t).1.mday (by omega) (by omega)
  obtain ⟨y1, y0, hy, hyd1, hyd0, hyv⟩ := d2_ok ((gmtime t).1.year % 100) (by omega) (by omega)
  obtain ⟨H1, H0, hH, hHd1, hHd0, hHv⟩ := d2_ok (gmtime t).1.hour hh0 (by omega)
  obtain ⟨I1, I0, hI, hId1, hId0, hIv⟩ := d2_ok (gmtime t).1.min hi0 (by omega)
  obtain ⟨S1, S0, hS, hSd1, hSd0, hSv⟩ := d2_ok (gmtime t).1.sec hs0 (by omega)
  have hr : renderRFC850 t = w0 :: w1 :: w2 :: (wdayRest (gmtime t).2 ++
      [44, 32, d1, d0, 45, m0, m1, m2, 45, y1, y0, 32, H1, H0, 58, I1, I0, 58, S1, S0, 32, 71, 77, 84]) := by
    simp only [renderRFC850, hmsStr, gmtStr, hw, hd, hm, hy, hH, hI, hS]
    simp
  have hdw : ∀ l : Bytes, (wdayRest (gmtime t).2 ++ 44 :: l).dropWhile (fun b => b ≠ 44) = 44 :: l := by
    intro l
    generalize wdayRest (gmtime t).2 = r at hrest
    induction r with
    | nil => simp
    | cons x xs ih =>
      simp only [List.dropWhile_cons] at hrest
      split at hrest
      · rename_i hx
        simp only [List.cons_append, List.dropWhile_cons, hx, if_true]
        exact ih hrest
      · simp at hrest
  have hlen : (renderRFC850 t).length > 29 := by
    rw [hr]; simp only [List.length_cons, List.length_append, List.length_nil]; omega
  refine ⟨hlen, ?_⟩
  have hne : ¬ (renderRFC850 t).length = 29 := by omega
  rw [dateToTime, strToTm]
  simp only [hne, hlen, if_true, if_false]
  rw [hr]
  simp only [parseRFC850, hwd, if_true, hdw]
  simp only [hmi, hdd1, hdd0, hyd1, hyd0, hHd1, hHd0, hId1, hId0, hSd1, hSd0, Bool.and_self,
    decide_true, Bool.and_true, if_true, Option.map_some, hdv, hyv, hHv, hIv, hSv,
    year850_ok _ _ hwin]
  exact congrArg some (timegm_gmtime t)

theorem httpDateSz_fits : 29 < Extracted.httpDateSz := by decide

/-- http_date_time_to_str() emits the IMF-fixdate unabridged for four-digit years -/
theorem timeToStr_eq (t : Int) (h0 : -30610224000 ≤ t) (h1 : t ≤ 253402300799) :
    timeToStr t = renderIMF t := by
  have hl := (imf_roundtrip 0 t h0 h1).1
  have := httpDateSz_fits
  simp only [timeToStr, hl, this, if_true]

end Date
end LtVerif
