/-
  C18 — helper lemmas about the tree model (Model/Dav.lean): lookup after set / erase /
  copyTree / moveTree, the path walk, frame properties of the merge loop.
-/
import LtVerif.Model.Dav

namespace LtVerif.Dav
open LtVerif

theorem under_iff {p q : Path} : under p q = true ↔ p <+: q := by
  unfold under
  exact List.isPrefixOf_iff_prefix

theorem under_refl (p : Path) : under p p = true := under_iff.2 (List.prefix_refl p)

theorem under_trans {p q r : Path} (h1 : under p q = true) (h2 : under q r = true) : under p r = true :=
  under_iff.2 (List.IsPrefix.trans (under_iff.1 h1) (under_iff.1 h2))

theorem under_append (p r : Path) : under p (p ++ r) = true := under_iff.2 (List.prefix_append p r)

/-- `p ≤ q` gives `q = p ++ q.drop p.length` -/
theorem under_split {p q : Path} (h : under p q = true) : q = p ++ q.drop p.length := by
  obtain ⟨r, hr⟩ := under_iff.1 h
  subst hr
  simp

theorem not_under_of_not_under_prefix {p p' q : Path} (hp : under p p' = true) (h : under p q = false) :
    under p' q = false := by
  cases h' : under p' q with
  | false => rfl
  | true => rw [under_trans hp h'] at h; exact absurd h (by simp)

theorem get_set (p : Path) (n : Node) (t : Tree) (q : Path) :
    get (set p n t) q = if p = q then some n else get t q := by
  simp [set, get]

theorem get_erase (p : Path) (t : Tree) (q : Path) :
    get (erase p t) q = if under p q then none else get t q := by
  induction t with
  | nil => simp [erase, get]
  | cons e t ih =>
    obtain ⟨k, n⟩ := e
    unfold erase at ih ⊢
    rw [List.filter_cons]
    by_cases hk : under p k = true
    · simp only [hk, Bool.not_true, Bool.false_eq_true, ↓reduceIte]
      rw [ih]
      by_cases hq : under p q = true
      · simp [hq]
      · simp only [hq, Bool.false_eq_true, ↓reduceIte, get]
        have : k ≠ q := by
          intro e; subst e; exact hq hk
        simp [this]
    · simp only [hk, Bool.not_false, ↓reduceIte, get]
      by_cases hkq : k = q
      · subst hkq
        simp [hk]
      · simp only [hkq, ↓reduceIte]
        exact ih

theorem get_append (a b : Tree) (q : Path) :
    get (a ++ b) q = match get a q with
      | some n => some n
      | none => get b q := by
  induction a with
  | nil => simp [get]
  | cons e a ih =>
    obtain ⟨k, n⟩ := e
    simp only [List.cons_append, get]
    by_cases hkq : k = q
    · simp [hkq]
    · simp only [hkq, ↓reduceIte]
      exact ih

/-- lookup in the rebased image of the subtree at `src` -/
theorem get_image (src dst : Path) (t : Tree) (q : Path) :
    get (image src dst t) q = if under dst q then get t (src ++ q.drop dst.length) else none := by
  induction t with
  | nil => simp [image, get]
  | cons e t ih =>
    obtain ⟨k, n⟩ := e
    unfold image at ih ⊢
    rw [List.filter_cons]
    by_cases hk : under src k = true
    · simp only [hk, ↓reduceIte, List.map_cons, rebase, get]
      by_cases hq : under dst q = true
      · simp only [hq, ↓reduceIte]
        by_cases he : dst ++ k.drop src.length = q
        · have hk' : k = src ++ q.drop dst.length := by
            rw [← he]
            simp only [List.drop_left]
            exact under_split hk
          rw [if_pos he, if_pos hk']
        · have hk' : k ≠ src ++ q.drop dst.length := by
            intro e2
            apply he
            rw [e2]
            simp only [List.drop_left]
            exact (under_split hq).symm
          rw [if_neg he, if_neg hk', ih]
          simp [hq]
      · have he : dst ++ k.drop src.length ≠ q := by
          intro e2
          apply hq
          rw [← e2]
          exact under_append _ _
        rw [if_neg he, ih]
        simp [hq]
    · simp only [hk, Bool.false_eq_true, ↓reduceIte]
      rw [ih]
      by_cases hq : under dst q = true
      · simp only [hq, ↓reduceIte, get]
        have : k ≠ src ++ q.drop dst.length := by
          intro e2
          apply hk
          rw [e2]
          exact under_append _ _
        simp [this]
      · simp [hq]

theorem get_copyTree (src dst : Path) (t : Tree) (q : Path) :
    get (copyTree src dst t) q = if under dst q then get t (src ++ q.drop dst.length) else get t q := by
  unfold copyTree
  rw [get_append, get_image, get_erase]
  by_cases hq : under dst q = true
  · simp only [hq, ↓reduceIte]
    split <;> simp_all
  · simp [hq]

theorem get_moveTree (src dst : Path) (t : Tree) (q : Path) :
    get (moveTree src dst t) q =
      if under dst q then get t (src ++ q.drop dst.length)
      else if under src q then none else get t q := by
  unfold moveTree
  rw [get_append, get_image, get_erase, get_erase]
  by_cases hq : under dst q = true
  · simp only [hq, ↓reduceIte]
    split <;> simp_all
  · simp [hq]

/-! ### the path walk -/

def St.ofNode : Node → St
  | .dir => .isdir
  | .file c => .isfile c

theorem walk_isfile {t : Tree} {c : Bytes} : ∀ {rest cur : Path},
    walk t cur rest = .isfile c → get t (cur ++ rest) = some (.file c)
  | [], cur, h => by
    simp only [walk] at h
    split at h <;> simp_all
  | s :: rest, cur, h => by
    simp only [walk] at h
    split at h
    · have := walk_isfile (rest := rest) h
      simpa using this
    · simp at h
    · simp at h

theorem walk_isdir {t : Tree} : ∀ {rest cur : Path},
    walk t cur rest = .isdir → get t (cur ++ rest) = some .dir
  | [], cur, h => by
    simp only [walk] at h
    split at h <;> simp_all
  | s :: rest, cur, h => by
    simp only [walk] at h
    split at h
    · have := walk_isdir (rest := rest) h
      simpa using this
    · simp at h
    · simp at h

/-- every existing non-root path has a directory as parent -/
def WF (t : Tree) : Prop := ∀ p s n, get t (p ++ [s]) = some n → get t p = some .dir

theorem WF.ancestor {t : Tree} (h : WF t) : ∀ (r : Path) {p : Path} {n : Node}, r ≠ [] →
    get t (p ++ r) = some n → get t p = some .dir
  | [], _, _, hne, _ => absurd rfl hne
  | s :: r', p, n, _, hg => by
    by_cases hr : r' = []
    · subst hr; exact h _ _ _ hg
    · have hg' : get t ((p ++ [s]) ++ r') = some n := by simpa using hg
      have hd := WF.ancestor h r' hr hg'
      exact h _ _ _ hd

/-- under WF, an entry below a non-directory does not exist -/
theorem WF.no_child_of_nondir {t : Tree} (h : WF t) {p r : Path} (hr : r ≠ []) (hp : get t p ≠ some .dir) :
    get t (p ++ r) = none := by
  cases hg : get t (p ++ r) with
  | none => rfl
  | some n => exact absurd (h.ancestor r hr hg) hp

theorem walk_enoent {t : Tree} (h : WF t) : ∀ {rest cur : Path},
    walk t cur rest = .enoent → get t (cur ++ rest) = none
  | [], cur, hw => by
    simp only [walk] at hw
    split at hw <;> simp_all
  | s :: rest, cur, hw => by
    simp only [walk] at hw
    split at hw
    · have := walk_enoent h (rest := rest) hw
      simpa using this
    · simp at hw
    · rename_i hc
      exact h.no_child_of_nondir (by simp) (by simp [hc])

theorem walk_enotdir {t : Tree} (h : WF t) : ∀ {rest cur : Path},
    walk t cur rest = .enotdir → get t (cur ++ rest) = none
  | [], cur, hw => by
    simp only [walk] at hw
    split at hw <;> simp_all
  | s :: rest, cur, hw => by
    simp only [walk] at hw
    split at hw
    · have := walk_enotdir h (rest := rest) hw
      simpa using this
    · rename_i c hc
      exact h.no_child_of_nondir (by simp) (by simp [hc])
    · simp at hw

/-- with the ancestors in place the walk reports what is stored -/
theorem walk_of_get {t : Tree} (h : WF t) : ∀ {rest cur : Path} {n : Node},
    get t (cur ++ rest) = some n → walk t cur rest = St.ofNode n
  | [], cur, n, hg => by
    simp only [List.append_nil] at hg
    simp only [walk, hg]
    cases n <;> rfl
  | s :: rest, cur, n, hg => by
    have hd : get t cur = some .dir := h.ancestor (s :: rest) (by simp) hg
    simp only [walk, hd]
    apply walk_of_get h
    simpa using hg

theorem parentIsDir_get {t : Tree} {p : Path} (h : parentIsDir t p = true) :
    p ≠ [] ∧ get t p.dropLast = some .dir := by
  unfold parentIsDir at h
  simp only [Bool.and_eq_true, bne_iff_ne, ne_eq, beq_iff_eq] at h
  exact ⟨h.1, by simpa using walk_isdir h.2⟩

end LtVerif.Dav
