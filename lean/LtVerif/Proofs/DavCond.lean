/-
  Helper lemmas for Model/DavCond.lean: the entity tag mod_webdav computes is a strong RFC 9110
  entity-tag whose opaque part is a decimal number, so the list theorem of C15
  (`Cond.etagMatches_list`) applies to it; case analysis of `precond`.
-/
import LtVerif.Model.DavCond
import LtVerif.Proofs.Cond304
set_option linter.unusedSimpArgs false
set_option linter.unusedVariables false
namespace LtVerif
namespace DavCond
open B Date Cond

/-- the current validator as an entity-tag: strong, opaque part = decimal digits of the hash -/
def curTag (st : Stat) (flags : Nat) : ETag := ⟨false, natDec (etagHash st flags).toNat⟩

theorem etagCreate_text (st : Stat) (flags : Nat) (h : flags ≠ 0) :
    etagCreate st flags = (curTag st flags).text := by
  simp [etagCreate, h, curTag, ETag.text]

theorem digit_not_delim (b : UInt8) (h : isDigit b = true) : isDelim b = false := by
  simp only [isDigit, Bool.and_eq_true, decide_eq_true_eq] at h
  simp only [isDelim, Bool.or_eq_false_iff, decide_eq_false_iff_not]
  obtain ⟨h1, h2⟩ := h
  refine ⟨⟨?_, ?_⟩, ?_⟩ <;> (intro e; subst e; revert h1; decide)

theorem digit_not_quote (b : UInt8) (h : isDigit b = true) : b ≠ 34 := by
  simp only [isDigit, Bool.and_eq_true, decide_eq_true_eq] at h
  obtain ⟨h1, h2⟩ := h
  intro e; subst e; revert h1; decide

theorem curTag_wf (st : Stat) (flags : Nat) : (curTag st flags).WF := by
  intro hmem
  exact digit_not_quote 34 ((natDec_digits _).2 34 hmem) rfl

theorem curTag_noDelim (st : Stat) (flags : Nat) : (curTag st flags).NoDelim := by
  intro b hb
  exact digit_not_delim b ((natDec_digits _).2 b hb)

theorem single_text (t : ETag) : etagListText [] [(t, [])] = t.text := by
  simp [etagListText, itemsText]

theorem single_ok (st : Stat) (flags : Nat) : ItemsOk [(curTag st flags, ([] : Bytes))] := by
  refine ⟨curTag_wf st flags, curTag_noDelim st flags, ?_, ?_, trivial⟩
  · intro b hb; cases hb
  · intro h; exact absurd rfl h

theorem allDelim_nil : AllDelim [] := by intro b hb; cases hb

/-- comparing the current tag with the tag computed for another stat record -/
theorem etagMatches_cur (st st0 : Stat) (flags : Nat) (hf : flags ≠ 0) (w : Bool) :
    etagMatches (etagCreate st flags) (etagCreate st0 flags) w =
      decide (etagCreate st flags = etagCreate st0 flags) := by
  rw [etagCreate_text st flags hf, etagCreate_text st0 flags hf]
  have := etagMatches_list (curTag st flags) (curTag_wf st flags) w [] [(curTag st0 flags, [])]
    allDelim_nil (single_ok st0 flags)
  rw [single_text] at this
  rw [this]
  simp only [List.any_cons, List.any_nil, Bool.or_false, ETag.cmp, curTag, Bool.not_false,
    Bool.and_self, Bool.or_true, Bool.and_true, ETag.text]
  by_cases h : natDec (etagHash st flags).toNat = natDec (etagHash st0 flags).toNat
  · simp [h]
  · simp [h]

theorem imFails_none (flags : Nat) (lk : Lk) : imFails flags none lk = false := by cases lk <;> rfl
theorem inmFails_none (flags : Nat) (lk : Lk) : inmFails flags none lk = false := by cases lk <;> rfl
theorem iusFails_none (now : Int) (lk : Lk) : iusFails now none lk = false := by cases lk <;> rfl

theorem ite_chain (c0 a b c : Bool) (h : c0 = true → a = false ∧ b = false ∧ c = false) :
    (if c0 = true then 0 else if a = true then 412 else if b = true then 412
      else if c = true then 412 else 0) = (0 : Nat) ↔ (a = false ∧ b = false ∧ c = false) := by
  cases a <;> cases b <;> cases c <;> cases c0 <;> simp_all

/-- with entity tags enabled the function answers 0 exactly when none of the three tests fails -/
theorem precond_zero_iff (now : Int) (flags : Nat) (im inm ius : Option Bytes) (lk : Lk)
    (hf : flags ≠ 0) :
    precond now flags im inm ius lk = 0 ↔
      (imFails flags im lk = false ∧ inmFails flags inm lk = false ∧ iusFails now ius lk = false) := by
  unfold precond
  simp only [hf, if_false]
  apply ite_chain
  intro h
  simp only [Bool.and_eq_true, Option.isNone_iff_eq_none] at h
  obtain ⟨⟨h1, h2⟩, h3⟩ := h
  subst h1; subst h2; subst h3
  exact ⟨imFails_none _ _, inmFails_none _ _, iusFails_none _ _⟩

/-- entity tags disabled: only If-Unmodified-Since is evaluated -/
theorem precond_flags0 (now : Int) (im inm ius : Option Bytes) (lk : Lk) :
    precond now 0 im inm ius lk = if iusFails now ius lk then 412 else 0 := by
  unfold precond
  simp only [if_true, imFails_none, inmFails_none, Bool.false_eq_true, if_false, Option.isNone_none,
    Bool.true_and]
  cases ius with
  | none => simp [iusFails_none]
  | some d => simp

end DavCond
end LtVerif
