/-
  C18 — the Destination header: whatever mod_webdav_copymove_b accepts is a canonical absolute path
  (no empty, "." or ".." segment), so the physical destination is the document root followed by clean
  segments.
-/
import LtVerif.Proofs.Path
import LtVerif.Model.Dav

namespace LtVerif.Dav
open LtVerif LtVerif.B

theorem urldecodePath_head {b : UInt8} (hb : b ≠ pct) (rest : Bytes) :
    (urldecodePath (b :: rest)).head? = some b := by
  match rest with
  | [] => simp [urldecodePath]
  | [x] => simp [urldecodePath]
  | h :: l :: r => simp [urldecodePath, hb]

theorem idxOf_drop_head {b : UInt8} : ∀ {l : Bytes} {i : Nat}, idxOf b l = some i → (l.drop i).head? = some b
  | [], _, h => by simp [idxOf] at h
  | x :: xs, i, h => by
    simp only [idxOf] at h
    split at h
    · rename_i hx
      simp only [Option.some.injEq] at h
      subst h
      simp [hx]
    · cases hr : idxOf b xs with
      | none => simp [hr] at h
      | some j =>
        simp only [hr, Option.map_some, Option.some.injEq] at h
        subst h
        simpa using idxOf_drop_head hr

theorem pathSimplify_canonical (s : Bytes) (h : s.head? = some slash) : CanonicalAbs (pathSimplify s) := by
  cases s with
  | nil => simp at h
  | cons x t =>
    simp only [List.head?_cons, Option.some.injEq] at h
    subst h
    rw [pathSimplify_abs]
    obtain ⟨st', tr, hc, hrel, heq⟩ :=
      simpRun_spec (st := { rel := false, stack := [] }) (segs := splitOn slash t)
        (splitOn_ne_nil _ _) (by intro seg hs; simp at hs) (splitOn_mem_nosep _ _)
    rw [heq]
    exact render_abs_canonical (hrel rfl) hc tr

theorem destPath_canonical {start p : Bytes} (hs : start.head? = some slash) (h : destPath start = .ok p) :
    CanonicalAbs p := by
  unfold destPath at h
  dsimp only at h
  split at h
  · simp at h
  split at h
  · simp at h
  simp only [Except.ok.injEq] at h
  subst h
  apply pathSimplify_canonical
  cases start with
  | nil => simp at hs
  | cons x t =>
    simp only [List.head?_cons, Option.some.injEq] at hs
    subst hs
    have : (slash != qmark) = true := by decide
    rw [List.takeWhile_cons, if_pos this]
    exact urldecodePath_head (by decide) _

theorem parseDest_canonical {scheme authority raw p : Bytes} (h : parseDest scheme authority raw = .ok p) :
    CanonicalAbs p := by
  unfold parseDest at h
  split at h
  · rename_i hh
    exact destPath_canonical (by simpa using hh) h
  dsimp only at h
  split at h
  · simp at h
  split at h
  · simp at h
  rename_i i hi
  have hhead := idxOf_drop_head hi
  split at h
  · exact destPath_canonical hhead h
  split at h
  · simp at h
  split at h
  · exact destPath_canonical hhead h
  · simp at h

/-- the segments of a canonical absolute path are clean -/
theorem toRPath_clean {p : Bytes} (h : CanonicalAbs p) : AllClean (toRPath p).segs := by
  obtain ⟨stack, hc, hs⟩ := canonical_split h
  unfold toRPath
  rcases hs with hs | ⟨hne, hs⟩
  · simp only [hs, List.cons_append, List.drop_succ_cons, List.drop_zero]
    simp only [List.getLast?_append, List.getLast?_singleton, Option.some_or]
    simpa using hc
  · simp only [hs, List.drop_succ_cons, List.drop_zero]
    cases hl : stack.getLast? with
    | none =>
      simp [List.getLast?_eq_none_iff] at hl
      exact absurd hl hne
    | some x =>
      have hcl := (hc _ (List.mem_of_getLast? hl)).1
      split
      · rename_i heq
        simp only [Option.some.injEq] at heq
        exact absurd heq hcl
      · exact hc
      · rename_i heq; simp at heq

end LtVerif.Dav
