/-
  C18 — concrete trees, requests and PUT runs used by the non-vacuity examples of Props/C18.lean.
-/
import LtVerif.Model.Dav
import LtVerif.Model.DavPut

namespace LtVerif.Dav.Ex
open LtVerif LtVerif.B LtVerif.Dav

def sg (s : String) : Seg := ofString s
/-- the WebDAV root (document root) -/
def R : Path := [sg "R"]
def p (l : List String) : Path := R ++ l.map sg

/-- /R/a (file "old"), /R/d/ with /R/d/x, /R/e/ with /R/e/x/ (a collection!) and /R/e/y; a canary outside -/
def t0 : Tree :=
  [([], .dir), (R, .dir), (p ["a"], .file (ofString "old")), (p ["d"], .dir), (p ["d", "x"], .file (ofString "dx")),
   (p ["e"], .dir), (p ["e", "x"], .dir), (p ["e", "y"], .file (ofString "ey")),
   ([sg "canary"], .file (ofString "C"))]

def putA : Req := { m := .put, src := ⟨p ["a"], false⟩, body := ofString "new" }
def putBad : Req := { m := .put, src := ⟨p ["nx", "f"], false⟩, body := ofString "new" }
def mkcolB : Req := { m := .mkcol, src := ⟨p ["b"], true⟩ }
def delD : Req := { m := .delete, src := ⟨p ["d"], true⟩ }
def copyDtoF : Req := { m := .copy, src := ⟨p ["d"], true⟩, dst := .ok ⟨p ["f"], false⟩ }
def moveAtoDz : Req := { m := .move, src := ⟨p ["a"], false⟩, dst := .ok ⟨p ["d", "z"], false⟩, ow := .f }
/-- collection onto an existing non-empty collection: lighttpd merges (documented non-conformance) -/
def copyDtoE : Req := { m := .copy, src := ⟨p ["d"], true⟩, dst := .ok ⟨p ["e"], true⟩ }
def moveDtoE : Req := { m := .move, src := ⟨p ["d"], true⟩, dst := .ok ⟨p ["e"], true⟩ }

def seq1 : List Req := [putA, putBad, mkcolB, copyDtoF, moveAtoDz, delD]

/-- a URL space narrower than the document root in which WebDAV is enabled: /R/d/ -/
def scope : Path := p ["d"]
/-- request inside the scope whose Destination names a resource outside of it (but inside the root) -/
def copyDxToA : Req := { m := .copy, src := ⟨p ["d", "x"], false⟩, dst := .ok ⟨p ["a"], false⟩ }

end LtVerif.Dav.Ex

namespace LtVerif.DavPut.Ex
open LtVerif LtVerif.B LtVerif.DavPut

def cNew : Cfg := { kind := .full, old := none, body := ofString "hello" }
def cRepl : Cfg := { kind := .full, old := some (ofString "old"), body := ofString "hello" }
def cPart : Cfg := { kind := .part 1, old := some (ofString "0123"), body := ofString "AB" }
def e (s : Sys) (ok : Bool := true) (n : Nat := 0) : Ev := { sys := s, ok := ok, n := n }

/-- the normal run: O_TMPFILE, two writes, linkat, renameat2 fails (EEXIST), rename, close -/
def runRepl : List Ev :=
  [e .openTmpfile, e .write true 2, e .write true 3, e .link, e .renameNr false, e .rename, e .close]
/-- the second write fails with ENOSPC -/
def runEnospc : List Ev := [e .openTmpfile, e .write true 2, e .write false, e .close]
/-- the client goes away after two bytes -/
def runAbort : List Ev := [e .openTmpfile, e .write true 2, e .close]
/-- linkat() fails: staged by name -/
def runByName : List Ev :=
  [e .openTmpfile, e .write true 5, e .link false, e .openTmpExcl, e .write true 5, e .close, e .closeTmp, e .rename]
/-- Content-Range: copy, patch, close, rename -/
def runPart : List Ev := [e .openOld, e .openTmpExcl, e .copyOld true 4, e .write true 2, e .closeTmp, e .rename]
/-- Content-Range with a failed write: the staged copy is unlinked, never renamed -/
def runPartFail : List Ev :=
  [e .openOld, e .openTmpExcl, e .copyOld true 4, e .write true 1, e .write false, e .unlinkTmp, e .closeTmp]
/-- Content-Range with a failed close() (deferred write error): unlinked, never renamed -/
def runPartCloseFail : List Ev :=
  [e .openOld, e .openTmpExcl, e .copyOld true 4, e .write true 2, e .closeTmp false, e .unlinkTmp]
/-- rename after the failed write (what the code as found did): not a word of the protocol -/
def runPartBug : List Ev :=
  [e .openOld, e .openTmpExcl, e .copyOld true 4, e .write true 1, e .write false, e .rename, e .closeTmp]
/-- rename before close (what the code as found did; a close() error then comes too late): not a word -/
def runPartBug2 : List Ev :=
  [e .openOld, e .openTmpExcl, e .copyOld true 4, e .write true 2, e .rename, e .closeTmp]
/-- zero-length PUT over an existing file: O_EXCL fails, an empty staged file is renamed into place -/
def cZero : Cfg := { kind := .zero, old := some (ofString "old"), body := [] }
def runZero : List Ev := [e .openExcl false, e .openTmpExcl, e .closeTmp, e .rename]
/-- truncating in place (what the code as found did): not a word of the protocol -/
def runZeroBug : List Ev := [e .openExcl false, e .openTrunc, e .close]
/-- a schedule for the generator: the 2nd call fails, writes transfer 2 bytes at a time -/
def sched (k : Nat) : Res := { ok := k != 1, n := 2 }

end LtVerif.DavPut.Ex
