/-
  C18 — invariant of the PUT system-call protocol (Model/DavPut.lean).
-/
import LtVerif.Model.DavPut

namespace LtVerif.DavPut
open LtVerif

/-- `a` is the first `a.length` bytes of `src` -/
def IsPrefix (a src : Bytes) : Prop := a = src.take a.length

theorem extend_prefix {src a : Bytes} {n : Nat} (h : IsPrefix a src) (hn : a.length + n ≤ src.length) :
    extend src a n = src.take (a.length + n) ∧ (extend src a n).length = a.length + n := by
  unfold IsPrefix at h
  have e : extend src a n = src.take (a.length + n) := by
    unfold extend
    rw [List.take_add]
    congr 1
  refine ⟨e, ?_⟩
  rw [e, List.length_take]
  omega

theorem extend_isPrefix {src a : Bytes} {n : Nat} (h : IsPrefix a src) (hn : a.length + n ≤ src.length) :
    IsPrefix (extend src a n) src := by
  obtain ⟨e, l⟩ := extend_prefix h hn
  unfold IsPrefix
  rw [l, e]

theorem prefix_full {src a : Bytes} (h : IsPrefix a src) (hl : a.length = src.length) : a = src := by
  unfold IsPrefix at h
  rw [h, hl, List.take_length]

theorem isPrefix_nil (src : Bytes) : IsPrefix [] src := by simp [IsPrefix]

/-- per-state invariant on the staged name and the anonymous staging file -/
def InvPc (c : Cfg) (target tmp anon : Option Bytes) : Pc → Prop
  | .start => target = c.old ∧ tmp = none ∧ anon = none
  | .start2 => tmp = none ∧ anon = none ∧ c.kind = .full
  | .start3 => tmp = some [] ∧ anon = some [] ∧ c.kind = .full
  | .recv => tmp = none ∧ c.kind = .full ∧ ∃ a, anon = some a ∧ IsPrefix a c.body
  | .linked => tmp = some c.new
  | .needRename => tmp = some c.new
  | .cleanup => True
  | .closing => tmp = none
  | .byName => tmp = none ∧ c.kind = .full
  | .byNameW => c.kind = .full ∧ ∃ a, tmp = some a ∧ IsPrefix a c.body
  | .byNameC => tmp = some c.new
  | .byNameF => True
  | .zTrunc => tmp = none ∧ anon = none ∧ c.kind = .zero
  | .zStaged => tmp = some [] ∧ anon = none ∧ c.kind = .zero
  | .zRen => tmp = some [] ∧ anon = none ∧ c.kind = .zero
  | .pExcl => tmp = none ∧ anon = none ∧ ∃ off o, c.kind = .part off ∧ c.old = some o
  | .pCopy => anon = none ∧ ∃ off o a, c.kind = .part off ∧ c.old = some o ∧ tmp = some a ∧ IsPrefix a o
  | .pPatch j => anon = none ∧ j ≤ c.body.length ∧ ∃ off o, c.kind = .part off ∧ c.old = some o ∧
      tmp = some (Dav.patch o off (c.body.take j))
  | .pRen => anon = none ∧ tmp = some c.new
  | .pFail cl u => anon = none ∧ (u = false → tmp = none) ∧ (cl = true ∨ u = true)
  | .done => tmp = none ∧ anon = none

def Inv (c : Cfg) (s : PSt) : Prop :=
  (s.target = c.old ∨ s.target = some c.new) ∧ InvPc c s.target s.tmp s.anon s.pc

theorem patch_nil (o : Bytes) (off : Nat) : Dav.patch o off [] = o := by
  simp [Dav.patch]

theorem inv_init (c : Cfg) : Inv c (init c) := by
  simp [Inv, InvPc, init]

theorem new_full {c : Cfg} (h : c.kind = .full) : c.new = c.body := by simp [Cfg.new, h]
theorem new_zero {c : Cfg} (h : c.kind = .zero) : c.new = [] := by simp [Cfg.new, h]
theorem new_part {c : Cfg} {off : Nat} {o : Bytes} (h : c.kind = .part off) (ho : c.old = some o) :
    c.new = Dav.patch o off c.body := by simp [Cfg.new, h, ho]

theorem inv_step {c : Cfg} {s s' : PSt} {ev : Ev} (hi : Inv c s) (hs : stepEv c s ev = some s') :
    Inv c s' := by
  obtain ⟨pc, target, tmp, anon, status⟩ := s
  obtain ⟨sys, ok, n⟩ := ev
  obtain ⟨ht, hp⟩ := hi
  simp only at ht hp
  unfold stepEv at hs
  simp only at hs
  split at hs
  all_goals (first | (simp at hs; done) | skip)
  all_goals (repeat' split at hs)
  all_goals (first | (simp at hs; done) | skip)
  all_goals (simp only [Option.some.injEq] at hs; subst hs; simp only [Inv, InvPc, fin] at hp ⊢)
  all_goals (first | (simp_all; done) | skip)
  all_goals (first | (cases anon <;> simp_all <;> done) | skip)
  all_goals (first
    | (simp_all [isPrefix_nil, new_zero, patch_nil]; done)
    | (obtain ⟨h1, h2, a, ha, hpre⟩ := hp; cases ha
       first
       | exact ⟨ht, h1, h2, _, rfl, extend_isPrefix hpre (by assumption)⟩
       | (refine ⟨ht, ?_⟩; rw [new_full h2]; congr 1; exact prefix_full hpre (by simp_all)))
    | (obtain ⟨h2, a, ha, hpre⟩ := hp; cases ha
       first
       | exact ⟨ht, h2, _, rfl, extend_isPrefix hpre (by assumption)⟩
       | (refine ⟨ht, ?_⟩; rw [new_full h2]; congr 1; exact prefix_full hpre (by simp_all)))
    | skip)
  -- start → pExcl
  · rename_i off hk _ hsome
    obtain ⟨h1, h2, h3⟩ := hp
    subst h1
    cases ho : c.old with
    | none => simp [ho] at hsome
    | some o => exact ⟨Or.inl rfl, h2, h3, off, o, hk, rfl⟩
  -- pExcl → pPatch 0 (old content is empty)
  · rename_i hemp
    obtain ⟨_, h2, off, o, hk, ho⟩ := hp
    refine ⟨ht, h2, Nat.zero_le _, off, o, hk, ho, ?_⟩
    have : o = [] := by simpa [ho] using hemp
    simp [patch_nil, this]
  -- pCopy → pPatch 0 (copy complete)
  · rename_i a0 o0 heq _ hle hlen
    obtain ⟨h1, off, o, a, hk, ho, ha, hpre⟩ := hp
    cases ha
    have e : o = o0 := Option.some.inj (ho.symm.trans heq)
    subst e
    refine ⟨ht, h1, Nat.zero_le _, off, o, hk, ho, ?_⟩
    have hl : (extend o a0 n).length = o.length := by simpa using hlen
    rw [List.take_zero, patch_nil, prefix_full (extend_isPrefix hpre hle) hl]
  -- pCopy → pCopy
  · rename_i a0 o0 heq _ hle _
    obtain ⟨h1, off, o, a, hk, ho, ha, hpre⟩ := hp
    cases ha
    have e : o = o0 := Option.some.inj (ho.symm.trans heq)
    subst e
    exact ⟨ht, h1, off, o, _, hk, ho, rfl, extend_isPrefix hpre hle⟩
  -- pPatch → pRen (closed without error)
  · rename_i j hjb _
    obtain ⟨h1, _, off, o, hk, ho, htmp⟩ := hp
    have hj : j = c.body.length := by simpa using hjb
    refine ⟨ht, h1, ?_⟩
    rw [htmp, new_part hk ho, hj, List.take_length]


/-- status bookkeeping: success is decided exactly when the new content has been published -/
def InvS (c : Cfg) (s : PSt) : Prop :=
  (s.status = 2 → s.target = some c.new ∧ (s.pc = .closing ∨ s.pc = .done)) ∧
  (s.status ≠ 2 → s.target = c.old)

theorem invS_init (c : Cfg) : InvS c (init c) := by
  simp [InvS, init]

theorem invS_step {c : Cfg} {s s' : PSt} {ev : Ev} (hi : Inv c s) (h2 : InvS c s)
    (hs : stepEv c s ev = some s') : InvS c s' := by
  obtain ⟨pc, target, tmp, anon, status⟩ := s
  obtain ⟨sys, ok, n⟩ := ev
  obtain ⟨ht, hp⟩ := hi
  obtain ⟨ha, hb⟩ := h2
  simp only at ht hp ha hb
  unfold stepEv at hs
  simp only at hs
  split at hs
  all_goals (first | (simp at hs; done) | skip)
  all_goals (repeat' split at hs)
  all_goals (first | (simp at hs; done) | skip)
  all_goals (simp only [Option.some.injEq] at hs; subst hs; simp only [InvS, InvPc, fin] at hp ⊢)
  all_goals (first | (simp_all; done) | skip)
  all_goals (first | (cases anon <;> simp_all <;> done) | skip)
  all_goals (first | (simp_all [new_zero]; done) | skip)

theorem inv_run {c : Cfg} : ∀ {evs : List Ev} {s s' : PSt}, Inv c s → InvS c s → runEvs c s evs = some s' →
    Inv c s' ∧ InvS c s'
  | [], s, s', hi, h2, h => by
    simp [runEvs] at h; subst h; exact ⟨hi, h2⟩
  | e :: es, s, s', hi, h2, h => by
    simp only [runEvs] at h
    split at h
    · simp at h
    · rename_i s1 hs1
      exact inv_run (inv_step hi hs1) (invS_step hi h2 hs1) h

/-- acceptance is prefix closed: every crash point of an accepted run is a reachable state -/
theorem runEvs_take {c : Cfg} : ∀ {evs : List Ev} {s s' : PSt} (k : Nat), runEvs c s evs = some s' →
    ∃ s'', runEvs c s (evs.take k) = some s''
  | [], s, _, k, _ => ⟨s, by simp [runEvs]⟩
  | e :: es, s, s', 0, _ => ⟨s, by simp [runEvs]⟩
  | e :: es, s, s', k + 1, h => by
    simp only [runEvs] at h
    split at h
    · simp at h
    · rename_i s1 hs1
      obtain ⟨s2, h2⟩ := runEvs_take (evs := es) k h
      exact ⟨s2, by simp [runEvs, hs1, h2]⟩

/-! ### the generator reading: progress -/

theorem remaining_lt_span (c : Cfg) (s : PSt) : remaining c s < span c := by
  unfold remaining span
  split <;> omega

theorem next_none {c : Cfg} {s : PSt} (h : next c s = none) : s.pc = .done ∨ s.pc = .pFail false false := by
  obtain ⟨pc, target, tmp, anon, status⟩ := s
  cases pc with
  | pFail cl u => cases cl <;> cases u <;> simp [next] at h ⊢
  | recv => simp only [next] at h; split at h <;> simp at h
  | byNameW => simp only [next] at h; split at h <;> simp at h
  | pPatch j => simp only [next] at h; split at h <;> simp at h
  | done => simp
  | _ => simp [next] at h

theorem gen_none {c : Cfg} {s : PSt} {r : Res} (hi : Inv c s) (hg : genEv c s r = none) : s.pc = .done := by
  have hn : next c s = none := by
    unfold genEv at hg
    split at hg
    · assumption
    · split at hg <;> simp at hg
  rcases next_none hn with h | h
  · exact h
  · have := hi.2
    rw [h] at this
    simp [InvPc] at this

theorem isPrefix_length_le {a src : Bytes} (h : IsPrefix a src) : a.length ≤ src.length := by
  unfold IsPrefix at h
  have := congrArg List.length h
  rw [List.length_take] at this
  omega

theorem gen_step {c : Cfg} {s : PSt} {r : Res} {ev : Ev} (hi : Inv c s) (hg : genEv c s r = some ev) :
    ∃ s', stepEv c s ev = some s' ∧ rank c s' < rank c s := by
  obtain ⟨pc, target, tmp, anon, status⟩ := s
  obtain ⟨rok, rn, rab⟩ := r
  obtain ⟨ht, hp⟩ := hi
  simp only at ht hp
  have hsp : 0 < span c := by unfold span; omega
  cases pc
  case recv =>
    simp only [InvPc] at hp
    obtain ⟨h1, h2, a, ha, hpre⟩ := hp
    subst ha
    have hle := isPrefix_length_le hpre
    by_cases hab : rab = true
    · obtain ⟨sy, hsy⟩ : ∃ sy, next c { pc := Pc.recv, target := target, tmp := tmp, anon := some a, status := status }
          = some sy := by
        simp only [next]; split <;> exact ⟨_, rfl⟩
      simp [genEv, hsy, hab] at hg
      subst hg
      refine ⟨_, by simp [stepEv]; rfl, ?_⟩
      simp [rank, stage, remaining]; omega
    · by_cases hlt : a.length < c.body.length
      · simp [genEv, next, hab, hlt, remaining] at hg
        subst hg
        have hn : a.length + min (max rn 1) (c.body.length - a.length) ≤ c.body.length := by omega
        cases rok
        · refine ⟨_, by simp [stepEv]; rfl, ?_⟩
          simp [rank, stage, remaining]; omega
        · have hl := (extend_prefix hpre hn).2
          refine ⟨_, by simp [stepEv, hn]; rfl, ?_⟩
          simp [rank, stage, remaining, hl]; omega
      · simp [genEv, next, hab, hlt, remaining] at hg
        subst hg
        have he : a.length = c.body.length := by omega
        cases rok
        · refine ⟨_, by simp [stepEv, he]; rfl, ?_⟩
          simp [rank, stage, remaining]; omega
        · refine ⟨_, by simp [stepEv, he]; rfl, ?_⟩
          simp [rank, stage, remaining]; omega
  case byNameW =>
    simp only [InvPc] at hp
    obtain ⟨h2, a, ha, hpre⟩ := hp
    subst ha
    have hle := isPrefix_length_le hpre
    by_cases hlt : a.length < c.body.length
    · simp [genEv, next, hlt, remaining] at hg
      subst hg
      have hn : a.length + min (max rn 1) (c.body.length - a.length) ≤ c.body.length := by omega
      cases rok
      · refine ⟨_, by simp [stepEv]; rfl, ?_⟩
        simp [rank, stage, remaining]; omega
      · have hl := (extend_prefix hpre hn).2
        refine ⟨_, by simp [stepEv, hn]; rfl, ?_⟩
        simp [rank, stage, remaining, hl]; omega
    · simp [genEv, next, hlt, remaining] at hg
      subst hg
      have he : a.length = c.body.length := by omega
      cases rok
      · refine ⟨_, by simp [stepEv, he]; rfl, ?_⟩
        simp [rank, stage, remaining]; omega
      · refine ⟨_, by simp [stepEv, he]; rfl, ?_⟩
        simp [rank, stage, remaining]; omega
  case pPatch j =>
    simp only [InvPc] at hp
    obtain ⟨h1, hjle, off, o, hk, ho, htmp⟩ := hp
    by_cases hlt : j < c.body.length
    · simp [genEv, next, hlt, remaining] at hg
      subst hg
      have hn : j + min (max rn 1) (c.body.length - j) ≤ c.body.length := by omega
      cases rok
      · refine ⟨_, by simp [stepEv, hk, ho]; rfl, ?_⟩
        simp [rank, stage, remaining]; omega
      · refine ⟨_, by simp [stepEv, hk, ho, hn]; rfl, ?_⟩
        simp [rank, stage, remaining]; omega
    · simp [genEv, next, hlt, remaining] at hg
      subst hg
      have he : j = c.body.length := by omega
      cases rok
      · refine ⟨_, by simp [stepEv, he]; rfl, ?_⟩
        simp [rank, stage, remaining]; omega
      · refine ⟨_, by simp [stepEv, he]; rfl, ?_⟩
        simp [rank, stage, remaining]; omega
  case pCopy =>
    simp only [InvPc] at hp
    obtain ⟨h1, off, o, a, hk, ho, ha, hpre⟩ := hp
    subst ha
    have hle := isPrefix_length_le hpre
    simp [genEv, next, remaining, ho] at hg
    subst hg
    have hn : a.length + min (max rn 1) (o.length - a.length) ≤ o.length := by omega
    cases rok
    · refine ⟨_, by simp [stepEv, ho]; rfl, ?_⟩
      simp [rank, stage, remaining]; omega
    · have hl := (extend_prefix hpre hn).2
      by_cases hfull : (extend o a (min (max rn 1) (o.length - a.length))).length = o.length
      · refine ⟨_, by simp [stepEv, ho, hn, hfull]; rfl, ?_⟩
        simp [rank, stage, remaining, span, ho]; omega
      · refine ⟨_, by simp [stepEv, ho, hn, hfull]; rfl, ?_⟩
        simp [rank, stage, remaining, ho, hl]; omega
  case pFail cl u =>
    cases cl <;> cases u
    all_goals (simp only [genEv, next, InvPc] at hg hp)
    all_goals (try (repeat' split at hg))
    all_goals (try (simp at hg))
    all_goals (try subst hg)
    all_goals (try (simp only [stepEv]))
    all_goals (try (repeat' split))
    all_goals (try (refine ⟨_, rfl, ?_⟩))
    all_goals (try (simp_all [rank, stage, remaining, span, fin, InvPc]; done))
    all_goals (try (simp_all [rank, stage, remaining, span, fin, InvPc]; omega))
    all_goals (try (cases anon <;> simp_all [rank, stage, remaining, span, fin, InvPc] <;> omega))
  all_goals (simp only [genEv, next, InvPc] at hg hp)
  all_goals (try (repeat' split at hg))
  all_goals (try (simp at hg))
  all_goals (try subst hg)
  all_goals (try (simp only [stepEv]))
  all_goals (try (repeat' split))
  all_goals (try (refine ⟨_, rfl, ?_⟩))
  all_goals (try (simp_all [rank, stage, remaining, span, fin, InvPc]; done))
  all_goals (try (simp_all [rank, stage, remaining, span, fin, InvPc]; omega))
  all_goals (try (cases anon <;> simp_all [rank, stage, remaining, span, fin, InvPc] <;> omega))

theorem runGen_done {c : Cfg} (res : Nat → Res) : ∀ (fuel k : Nat) (s : PSt), Inv c s → InvS c s →
    rank c s < fuel → ∃ s', runGen c res fuel k s = some s' ∧ s'.pc = .done ∧ Inv c s' ∧ InvS c s'
  | 0, _, _, _, _, h => absurd h (Nat.not_lt_zero _)
  | fuel + 1, k, s, hi, h2, hr => by
    simp only [runGen]
    cases hg : genEv c s (res k) with
    | none => exact ⟨s, rfl, gen_none hi hg, hi, h2⟩
    | some ev =>
      obtain ⟨s1, hs1, hlt⟩ := gen_step hi hg
      simp only [hs1]
      exact runGen_done res fuel (k + 1) s1 (inv_step hi hs1) (invS_step hi h2 hs1) (by omega)

theorem rank_init (c : Cfg) : rank c (init c) < 21 * span c := by
  simp [rank, init, stage, remaining, span]

end LtVerif.DavPut
