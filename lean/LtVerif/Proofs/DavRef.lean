/-
  C18 — the implementation model against the RFC 4918 reference (`rfcEffect`).
-/
import LtVerif.Proofs.DavStep

namespace LtVerif.Dav
open LtVerif

theorem lstat_isfile {t : Tree} {p : RPath} {c : Bytes} (h : lstat t p = .isfile c) :
    get t p.segs = some (.file c) := by
  unfold lstat at h
  split at h
  · rename_i c' hw
    split at h
    · simp at h
    · simp only [St.isfile.injEq] at h
      subst h
      simpa using walk_isfile hw
  · simpa using walk_isfile h

theorem lstat_isdir {t : Tree} {p : RPath} (h : lstat t p = .isdir) : get t p.segs = some .dir := by
  unfold lstat at h
  split at h
  · split at h <;> simp at h
  · simpa using walk_isdir h

theorem lstat_enoent {t : Tree} (hwf : WF t) {p : RPath} (h : lstat t p = .enoent) : get t p.segs = none := by
  unfold lstat at h
  split at h
  · split at h <;> simp at h
  · simpa using walk_enoent hwf h

theorem hasChild_false {t : Tree} {p q : Path} (h : hasChild p t = false) (hu : under p q = true) (hne : q ≠ p) :
    get t q = none := by
  induction t with
  | nil => rfl
  | cons e t ih =>
    obtain ⟨k, n⟩ := e
    simp only [hasChild, List.any_cons, Bool.or_eq_false_iff, Bool.and_eq_false_iff] at h
    simp only [get]
    by_cases hk : k = q
    · subst hk
      rcases h.1 with h1 | h1
      · rw [hu] at h1; simp at h1
      · simp only [bne_eq_false_iff_eq] at h1
        exfalso
        apply hne
        have := under_split hu
        rw [this]
        have hl : (List.drop p.length k).length = 0 := by
          simp only [List.length_drop]; omega
        have : List.drop p.length k = [] := List.eq_nil_of_length_eq_zero hl
        simp [this]
    · simp only [hk, ↓reduceIte]
      exact ih h.2

/-- below a path that is absent or a file there is nothing (WF) -/
theorem below_nondir {t : Tree} (hwf : WF t) {p q : Path} (hp : get t p ≠ some .dir) (hu : under p q = true)
    (hne : q ≠ p) : get t q = none := by
  have hq := under_split hu
  rw [hq]
  apply hwf.no_child_of_nondir _ hp
  intro e
  apply hne
  rw [hq, e]
  simp

theorem isEmpty_eq_nil {b : Bytes} (h : b.isEmpty = true) : b = [] := by
  cases b <;> simp_all

theorem doPut_effect {t : Tree} {r : Req} {s : Nat} {t' : Tree} (h : doPut t r = (s, t')) (hs : Success s)
    (hm : r.m = .put) : ∀ q, get t' q = rfcEffect (get t) r q := by
  intro q
  unfold doPut at h
  dsimp only at h
  repeat' split at h
  all_goals (simp only [Prod.mk.injEq] at h; obtain ⟨rfl, rfl⟩ := h)
  all_goals (first | (exact absurd hs (by decide)) | skip)
  all_goals (simp only [rfcEffect, hm, get_set, putContent])
  all_goals (
    by_cases hq : q = r.src.segs
    · subst hq
      first
      | (have hg := lstat_isfile (by assumption); simp_all [isEmpty_eq_nil]; done)
      | (simp_all [isEmpty_eq_nil]; done)
    · have hq' : r.src.segs ≠ q := fun e => hq e.symm
      simp [hq, hq'])

theorem doMkcol_effect {t : Tree} {r : Req} {s : Nat} {t' : Tree} (h : doMkcol t r = (s, t')) (hs : Success s)
    (hm : r.m = .mkcol) : ∀ q, get t' q = rfcEffect (get t) r q := by
  intro q
  unfold doMkcol at h
  repeat' split at h
  all_goals (simp only [Prod.mk.injEq] at h; obtain ⟨rfl, rfl⟩ := h)
  all_goals (first | (exact absurd hs (by decide)) | skip)
  all_goals (simp only [rfcEffect, hm, get_set])
  all_goals (
    by_cases hq : q = r.src.segs
    · subst hq; simp
    · have hq' : r.src.segs ≠ q := fun e => hq e.symm
      simp [hq, hq'])

theorem doDelete_effect {t : Tree} {r : Req} {s : Nat} {t' : Tree} (h : doDelete t r = (s, t')) (hs : Success s)
    (hm : r.m = .delete) : ∀ q, get t' q = rfcEffect (get t) r q := by
  intro q
  unfold doDelete at h
  repeat' split at h
  all_goals (simp only [Prod.mk.injEq] at h; obtain ⟨rfl, rfl⟩ := h)
  all_goals (first | (exact absurd hs (by decide)) | skip)
  all_goals (simp only [rfcEffect, hm, get_erase])

/-- a file at `d` replaced / created, `src` untouched: the RFC effect of COPY for a file source -/
theorem copy_file_effect {t : Tree} (hwf : WF t) {src d : Path} {c : Bytes} (hsrc : get t src = some (.file c))
    (hd : get t d ≠ some .dir) (q : Path) :
    get (set d (.file c) t) q = if under d q then get t (src ++ q.drop d.length) else get t q := by
  rw [get_set]
  by_cases hq : d = q
  · subst hq
    simp [under_refl, hsrc]
  · simp only [hq, ↓reduceIte]
    by_cases hu : under d q = true
    · simp only [hu, ↓reduceIte]
      rw [below_nondir hwf hd hu (fun e => hq e.symm)]
      symm
      apply hwf.no_child_of_nondir _ (by simp [hsrc])
      intro e
      apply hq
      rw [under_split hu, e]
      simp
    · simp [hu]

theorem move_file_effect {t : Tree} (hwf : WF t) {src d : Path} {c : Bytes} (hsrc : get t src = some (.file c))
    (hd : get t d ≠ some .dir) (q : Path) :
    get (set d (.file c) (erase src t)) q =
      if under d q then get t (src ++ q.drop d.length) else if under src q then none else get t q := by
  rw [get_set, get_erase]
  by_cases hq : d = q
  · subst hq
    simp [under_refl, hsrc]
  · simp only [hq, ↓reduceIte]
    by_cases hu : under d q = true
    · simp only [hu, ↓reduceIte]
      have h1 : get t (src ++ List.drop d.length q) = none := by
        apply hwf.no_child_of_nondir _ (by simp [hsrc])
        intro e
        apply hq
        rw [under_split hu, e]
        simp
      rw [h1, below_nondir hwf hd hu (fun e => hq e.symm)]
      simp
    · simp [hu]

theorem cmFile_effect {t : Tree} {r : Req} {move : Bool} {src dst : RPath} {c : Bytes} {s : Nat} {t' : Tree}
    (hwf : WF t) (h : cmFile t r move src dst c = (s, t')) (hs : Success s)
    (hsrc : get t src.segs = some (.file c)) (hnd : get t dst.segs ≠ some .dir) (q : Path) :
    get t' q = if move then
        (if under dst.segs q then get t (src.segs ++ q.drop dst.segs.length)
         else if under src.segs q then none else get t q)
      else (if under dst.segs q then get t (src.segs ++ q.drop dst.segs.length) else get t q) := by
  have hl : (lstat t dst == St.isdir) = false := by
    cases hb : (lstat t dst == St.isdir) with
    | false => rfl
    | true => exact absurd (lstat_isdir (by simpa using hb)) hnd
  unfold cmFile cmDone at h
  simp only [cmFileTarget, hl, Bool.false_and, Bool.false_eq_true, ↓reduceIte] at h
  repeat' split at h
  all_goals (simp only [Prod.mk.injEq] at h; obtain ⟨rfl, rfl⟩ := h)
  all_goals (first | (exact absurd hs (by decide)) | skip)
  all_goals (first
    | (simp only [↓reduceIte]; exact move_file_effect hwf hsrc hnd q)
    | (simp only [Bool.false_eq_true, ↓reduceIte]; exact copy_file_effect hwf hsrc hnd q)
    | (rename_i hmv; simp only [hmv, ↓reduceIte]; exact move_file_effect hwf hsrc hnd q)
    | (rename_i hmv; simp only [hmv, Bool.false_eq_true, ↓reduceIte]; exact copy_file_effect hwf hsrc hnd q)
    | skip)

theorem copymoveDir_effect {t : Tree} {move ow : Bool} {src dst : Path} {t' : Tree} {f : Bool}
    (h : copymoveDir move ow src dst t = some (t', f))
    (hconf : get t dst = some .dir → hasChild dst t = false) (q : Path) :
    get t' q = if move then
        (if under dst q then get t (src ++ q.drop dst.length) else if under src q then none else get t q)
      else (if under dst q then get t (src ++ q.drop dst.length) else get t q) := by
  unfold copymoveDir at h
  split at h
  · -- source and destination are the same path: nothing happens
    rename_i heq
    have heq : src = dst := by simpa using heq
    subst heq
    split at h
    · simp only [Option.some.injEq, Prod.mk.injEq] at h
      obtain ⟨rfl, rfl⟩ := h
      by_cases hu : under src q = true
      · have := (under_split hu).symm
        cases move <;> simp [hu, this]
      · cases move <;> simp [hu]
    · simp at h
  · repeat' split at h
    all_goals (first | (simp at h; done) | skip)
    all_goals (simp only [Option.some.injEq, Prod.mk.injEq] at h)
    all_goals (first
      | (obtain ⟨rfl, rfl⟩ := h; simp only [↓reduceIte]; exact get_moveTree _ _ _ _)
      | (obtain ⟨rfl, rfl⟩ := h; simp only [Bool.false_eq_true, ↓reduceIte]; exact get_copyTree _ _ _ _)
      | (obtain ⟨rfl, rfl⟩ := h; rename_i hmv; simp only [hmv, ↓reduceIte]; exact get_moveTree _ _ _ _)
      | (obtain ⟨rfl, rfl⟩ := h; rename_i hmv; simp only [hmv, Bool.false_eq_true, ↓reduceIte]; exact get_copyTree _ _ _ _)
      | skip)
    -- the merge loop is only entered for a non-empty destination collection
    all_goals (
      rename_i hw _ hc
      have := hconf (by simpa using walk_isdir hw)
      simp [this] at hc)

theorem cmCollection_effect {t : Tree} {r : Req} {move : Bool} {src dst : RPath} {s : Nat} {t' : Tree}
    (hwf : WF t) (h : cmCollection t r move src dst = (s, t')) (hs : Success s) (h207 : s ≠ 207)
    (hconf : get t dst.segs = some .dir → hasChild dst.segs t = false) (q : Path) :
    get t' q = if move then
        (if under dst.segs q then get t (src.segs ++ q.drop dst.segs.length)
         else if under src.segs q then none else get t q)
      else if r.depth = .zero then
        (if q = dst.segs then some .dir else if under dst.segs q then none else get t q)
      else (if under dst.segs q then get t (src.segs ++ q.drop dst.segs.length) else get t q) := by
  unfold cmCollection at h
  split at h
  · simp only [Prod.mk.injEq] at h; obtain ⟨rfl, rfl⟩ := h; exact absurd hs (by decide)
  split at h
  · simp only [Prod.mk.injEq] at h; obtain ⟨rfl, rfl⟩ := h; exact absurd hs (by decide)
  rename_i hone
  split at h
  · -- Depth: 0
    rename_i hzero
    have hz : r.depth = .zero := by simpa using hzero
    split at h
    · simp only [Prod.mk.injEq] at h; obtain ⟨rfl, rfl⟩ := h; exact absurd hs (by decide)
    rename_i hmv
    have hmv : move = false := by simpa using hmv
    subst hmv
    simp only [Bool.false_eq_true, ↓reduceIte, hz]
    split at h
    · -- destination collection exists (and is empty)
      rename_i hl
      simp only [Prod.mk.injEq] at h; obtain ⟨rfl, rfl⟩ := h
      have hd := lstat_isdir hl
      simp only at hd
      by_cases hq : q = dst.segs
      · simp [hq, hd]
      · simp only [hq, ↓reduceIte]
        by_cases hu : under dst.segs q = true
        · simp only [hu, ↓reduceIte]
          exact hasChild_false (hconf hd) hu hq
        · simp [hu]
    · simp only [Prod.mk.injEq] at h; obtain ⟨rfl, rfl⟩ := h; exact absurd hs (by decide)
    · simp only [Prod.mk.injEq] at h; obtain ⟨rfl, rfl⟩ := h; exact absurd hs (by decide)
    · rename_i hl
      have hd := lstat_enoent hwf hl
      simp only at hd
      split at h
      · simp only [Prod.mk.injEq] at h; obtain ⟨rfl, rfl⟩ := h
        rw [get_set]
        by_cases hq : q = dst.segs
        · simp [hq]
        · have hq' : dst.segs ≠ q := fun e => hq e.symm
          simp only [hq, hq', ↓reduceIte]
          by_cases hu : under dst.segs q = true
          · simp only [hu, ↓reduceIte]
            exact below_nondir hwf (by simp [hd]) hu hq
          · simp [hu]
      · simp only [Prod.mk.injEq] at h; obtain ⟨rfl, rfl⟩ := h; exact absurd hs (by decide)
  · -- Depth: infinity
    rename_i hzero
    have hz : r.depth ≠ .zero := by simpa using hzero
    split at h
    · simp only [Prod.mk.injEq] at h; obtain ⟨rfl, rfl⟩ := h; exact absurd rfl h207
    · rename_i t2 failed hcm
      simp only [Prod.mk.injEq] at h
      obtain ⟨hst, rfl⟩ := h
      have := copymoveDir_effect hcm hconf q
      rw [this]
      cases move <;> simp [hz]

theorem doCopyMove_effect {t : Tree} {r : Req} {s : Nat} {t' : Tree} (hwf : WF t) (hc : Conforming t r)
    (h : doCopyMove t r = (s, t')) (hs : Success s) (h207 : s ≠ 207) (hm : r.m = .copy ∨ r.m = .move) :
    ∀ q, get t' q = rfcEffect (get t) r q := by
  intro q
  unfold doCopyMove at h
  split at h
  · simp only [Prod.mk.injEq] at h; obtain ⟨rfl, rfl⟩ := h; exact absurd hs (by decide)
  split at h
  · simp only [Prod.mk.injEq] at h; obtain ⟨rfl, rfl⟩ := h; exact absurd hs (by decide)
  split at h
  · simp only [Prod.mk.injEq] at h; obtain ⟨rfl, rfl⟩ := h; exact absurd hs (by decide)
  · simp only [Prod.mk.injEq] at h; obtain ⟨rfl, rfl⟩ := h
    exact absurd hs (by unfold Success; omega)
  rename_i dst hdst
  have hdo : destOf r = dst.segs := by simp [destOf, hdst]
  split at h
  · simp only [Prod.mk.injEq] at h; obtain ⟨rfl, rfl⟩ := h; exact absurd hs (by decide)
  split at h
  · simp only [Prod.mk.injEq] at h; obtain ⟨rfl, rfl⟩ := h; exact absurd hs (by decide)
  · simp only [Prod.mk.injEq] at h; obtain ⟨rfl, rfl⟩ := h; exact absurd hs (by decide)
  · -- the source is a collection
    rename_i hl
    have hsrc := lstat_isdir hl
    split at h
    · simp only [Prod.mk.injEq] at h; obtain ⟨rfl, rfl⟩ := h; exact absurd hs (by decide)
    have hconf : get t dst.segs = some .dir → hasChild dst.segs t = false := by
      intro hd
      have := hc hm (by rw [hdo]; exact hd)
      rw [hdo] at this
      exact this.2
    have := cmCollection_effect hwf h hs h207 hconf q
    rw [this]
    rcases hm with hm | hm
    · by_cases hz : r.depth = .zero <;> simp [rfcEffect, hm, hdo, hsrc, hz]
    · simp [rfcEffect, hm, hdo]
  · -- the source is a file
    rename_i c hl
    have hsrc := lstat_isfile hl
    split at h
    · simp only [Prod.mk.injEq] at h; obtain ⟨rfl, rfl⟩ := h; exact absurd hs (by decide)
    have hnd : get t dst.segs ≠ some .dir := by
      intro hd
      have := (hc hm (by rw [hdo]; exact hd)).1
      rw [hsrc] at this
      simp at this
    have := cmFile_effect hwf h hs hsrc hnd q
    rw [this]
    rcases hm with hm | hm
    · simp [rfcEffect, hm, hdo, hsrc]
    · simp [rfcEffect, hm, hdo]

/-- success (2xx other than 207 Multi-Status) means exactly the RFC 4918 effect -/
theorem step_effect {t : Tree} {r : Req} (hwf : WF t) (hc : Conforming t r)
    (hs : Success (step t r).1) (h207 : (step t r).1 ≠ 207) :
    ∀ q, get (step t r).2 q = rfcEffect (get t) r q := by
  unfold step at hs h207 ⊢
  cases hm : r.m <;> simp only [hm] at hs h207 ⊢
  · exact doPut_effect rfl hs hm
  · exact doDelete_effect rfl hs hm
  · exact doMkcol_effect rfl hs hm
  · exact doCopyMove_effect hwf hc rfl hs h207 (Or.inl hm)
  · exact doCopyMove_effect hwf hc rfl hs h207 (Or.inr hm)
  · intro q; simp [rfcEffect, hm]

end LtVerif.Dav
