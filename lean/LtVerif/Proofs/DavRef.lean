/-
  C18 — the implementation model against the RFC 4918 reference (`rfcEffect`).
-/
import LtVerif.Proofs.DavStep

namespace LtVerif.Dav
open LtVerif

theorem lstat_isfile {t : Tree} {p : RPath} {c : Bytes} (h : lstat t p = .isfile c) :
    get t p.segs = some (.file c) := by
  unfold lstat at h
  split at h
  · rename_i c' hw
    split at h
    · simp at h
    · simp only [St.isfile.injEq] at h
      subst h
      simpa using walk_isfile hw
  · simpa using walk_isfile h

theorem lstat_isdir {t : Tree} {p : RPath} (h : lstat t p = .isdir) : get t p.segs = some .dir := by
  unfold lstat at h
  split at h
  · split at h <;> simp at h
  · simpa using walk_isdir h

theorem lstat_enoent {t : Tree} (hwf : WF t) {p : RPath} (h : lstat t p = .enoent) : get t p.segs = none := by
  unfold lstat at h
  split at h
  · split at h <;> simp at h
  · simpa using walk_enoent hwf h

theorem hasChild_false {t : Tree} {p q : Path} (h : hasChild p t = false) (hu : under p q = true) (hne : q ≠ p) :
    get t q = none := by
  induction t with
  | nil => rfl
  | cons e t ih =>
    obtain ⟨k, n⟩ := e
    simp only [hasChild, List.any_cons, Bool.or_eq_false_iff, Bool.and_eq_false_iff] at h
    simp only [get]
    by_cases hk : k = q
    · subst hk
      rcases h.1 with h1 | h1
      · rw [hu] at h1; simp at h1
      · simp only [bne_eq_false_iff_eq] at h1
        exfalso
        apply hne
        have := under_split hu
        rw [this]
        have hl : (List.drop p.length k).length = 0 := by
          simp only [List.length_drop]; omega
        have : List.drop p.length k = [] := List.eq_nil_of_length_eq_zero hl
        simp [this]
    · simp only [hk, ↓reduceIte]
      exact ih h.2

/-- below a path that is absent or a file there is nothing (WF) -/
theorem below_nondir {t : Tree} (hwf : WF t) {p q : Path} (hp : get t p ≠ some .dir) (hu : under p q = true)
    (hne : q ≠ p) : get t q = none := by
  have hq := under_split hu
  rw [hq]
  apply hwf.no_child_of_nondir _ hp
  intro e
  apply hne
  rw [hq, e]
  simp

end LtVerif.Dav
