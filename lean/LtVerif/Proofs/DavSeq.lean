/-
  C18 — request sequences: reference tree, confinement.
-/
import LtVerif.Proofs.DavStatus

namespace LtVerif.Dav
open LtVerif

theorem isSuccess_iff {s : Nat} : isSuccess s = true ↔ Success s ∧ s ≠ 207 := by
  unfold isSuccess Success
  simp only [Bool.and_eq_true, decide_eq_true_eq, bne_iff_ne, ne_eq]

/-- one request against the reference, as functions -/
theorem step_matches {t : Tree} {r : Req} (hwf : WF t) (hc : Conforming t r) (h207 : (step t r).1 ≠ 207) :
    get (step t r).2 = if isSuccess (step t r).1 then rfcEffect (get t) r else get t := by
  by_cases hs : Success (step t r).1
  · have : isSuccess (step t r).1 = true := isSuccess_iff.2 ⟨hs, h207⟩
    rw [this, if_pos rfl]
    funext q
    exact step_effect hwf hc hs h207 q
  · have : isSuccess (step t r).1 = false := by
      cases h : isSuccess (step t r).1 with
      | false => rfl
      | true => exact absurd (isSuccess_iff.1 h).1 hs
    rw [this, step_error hs]
    simp

theorem run_matches : ∀ (reqs : List Req) (t : Tree), WF t → ConformingRun t reqs →
    get (run t reqs) = refRun (get t) reqs ((statuses t reqs).map isSuccess)
  | [], t, _, _ => rfl
  | r :: rs, t, hwf, hc => by
    obtain ⟨h1, h2, h3⟩ := hc
    simp only [run, statuses, List.map_cons, refRun]
    rw [run_matches rs (step t r).2 (step_wf hwf h1) h3, step_matches hwf h1 h2]

theorem run_wf : ∀ (reqs : List Req) (t : Tree), WF t → ConformingRun t reqs → WF (run t reqs)
  | [], _, hwf, _ => hwf
  | r :: rs, t, hwf, hc => by
    obtain ⟨h1, _, h3⟩ := hc
    exact run_wf rs _ (step_wf hwf h1) h3

/-- one covered request against the reference, success decided by the reference (`rfcPre`) -/
theorem step_matches_pre {t : Tree} {r : Req} (hwf : WF t) (hc : Conforming t r) :
    get (step t r).2 = if rfcPre (get t) r then rfcEffect (get t) r else get t := by
  by_cases hg : r.m = .get
  · have h1 : (step t r).2 = t := by simp [step, hg]
    have h2 : rfcEffect (get t) r = get t := by simp [rfcEffect, hg]
    rw [h1, h2]; simp
  · rw [← step_status hwf hc hg]
    cases hs : isSuccess (step t r).1 with
    | true =>
      obtain ⟨h1, h2⟩ := isSuccess_iff.1 hs
      simp only [↓reduceIte]
      funext q
      exact step_effect hwf hc h1 h2 q
    | false =>
      simp only [Bool.false_eq_true, ↓reduceIte]
      by_cases h207 : (step t r).1 = 207
      · rw [step_207_unchanged hc h207]
      · have : ¬ Success (step t r).1 := by
          intro h
          have := isSuccess_iff.2 ⟨h, h207⟩
          rw [hs] at this
          simp at this
        rw [step_error this]

theorem run_matches_pre : ∀ (reqs : List Req) (t : Tree), WF t → CoveredRun t reqs →
    get (run t reqs) = refRunPre (get t) reqs ∧ WF (run t reqs)
  | [], _, hwf, _ => ⟨rfl, hwf⟩
  | r :: rs, t, hwf, hc => by
    obtain ⟨h1, h3⟩ := hc
    simp only [run, refRunPre]
    rw [← step_matches_pre hwf h1]
    exact run_matches_pre rs (step t r).2 (step_wf hwf h1) h3

theorem run_decisions : ∀ (reqs : List Req) (t : Tree), WF t → CoveredRun t reqs → (∀ r ∈ reqs, r.m ≠ .get) →
    (statuses t reqs).map isSuccess = refDecisions (get t) reqs
  | [], _, _, _, _ => rfl
  | r :: rs, t, hwf, hc, hg => by
    obtain ⟨h1, h3⟩ := hc
    simp only [statuses, List.map_cons, refDecisions]
    rw [step_status hwf h1 (hg r (List.mem_cons_self ..)), ← step_matches_pre hwf h1,
      run_decisions rs (step t r).2 (step_wf hwf h1) h3 (fun r' hr' => hg r' (List.mem_cons_of_mem _ hr'))]

/-- requests addressed below `root` -/
def Below (root : Path) (r : Req) : Prop :=
  under root r.src.segs = true ∧ ∀ d, r.dst = .ok d → under root d.segs = true

theorem step_confined {root : Path} {t : Tree} {r : Req} (hb : Below root r) {q : Path}
    (hq : under root q = false) : get (step t r).2 q = get t q :=
  step_frame (not_under_of_not_under_prefix hb.1 hq)
    (fun d hd => not_under_of_not_under_prefix (hb.2 d hd) hq)

theorem run_confined {root : Path} : ∀ (reqs : List Req) (t : Tree), (∀ r ∈ reqs, Below root r) →
    ∀ {q : Path}, under root q = false → get (run t reqs) q = get t q
  | [], _, _, _, _ => rfl
  | r :: rs, t, hb, q, hq => by
    simp only [run]
    rw [run_confined rs _ (fun r' hr' => hb r' (List.mem_cons_of_mem _ hr')) hq]
    exact step_confined (hb r (List.mem_cons_self ..)) hq

theorem mkDest_below {root : Path} {scheme authority : Bytes} {raw : Option Bytes} {d : RPath}
    (h : mkDest root scheme authority raw = .ok d) : under root d.segs = true := by
  unfold mkDest at h
  split at h
  · simp at h
  split at h
  · simp at h
  · simp only [Dest.ok.injEq] at h
    subst h
    exact under_append _ _

/-! ### executable checks of the hypotheses (for the non-vacuity examples) -/

def wfb (t : Tree) : Bool := t.all fun e => e.1.isEmpty || get t e.1.dropLast == some .dir

theorem get_some_mem {t : Tree} {k : Path} {n : Node} (h : get t k = some n) : (k, n) ∈ t := by
  induction t with
  | nil => simp [get] at h
  | cons e t ih =>
    obtain ⟨q, m⟩ := e
    simp only [get] at h
    split at h
    · rename_i hq
      simp only [Option.some.injEq] at h
      subst hq; subst h
      exact List.mem_cons_self ..
    · exact List.mem_cons_of_mem _ (ih h)

theorem wfb_sound {t : Tree} (h : wfb t = true) : WF t := by
  intro p s n hg
  have hm := get_some_mem hg
  have := (List.all_eq_true.1 h) _ hm
  simpa using this

instance (t : Tree) (r : Req) : Decidable (Conforming t r) := by
  unfold Conforming; exact inferInstance

instance decCoveredRun : (t : Tree) → (rs : List Req) → Decidable (CoveredRun t rs)
  | _, [] => isTrue trivial
  | t, r :: rs =>
    have := decCoveredRun (step t r).2 rs
    by unfold CoveredRun; exact inferInstance

end LtVerif.Dav
