/-
  C18 — which status must occur: the model's success/failure decision against `rfcPre`.
-/
import LtVerif.Proofs.DavWF

namespace LtVerif.Dav
open LtVerif

theorem walk_append_isdir {t : Tree} {b : Path} : ∀ {a cur : Path}, walk t cur a = .isdir →
    walk t cur (a ++ b) = walk t (cur ++ a) b
  | [], cur, _ => by simp
  | s :: a, cur, h => by
    simp only [walk] at h
    split at h
    · rename_i hc
      simp only [List.cons_append, walk, hc]
      rw [walk_append_isdir h]
      simp
    · simp at h
    · simp at h

/-- what the kernel's walk reports, in terms of the lookup function -/
theorem walk_spec {t : Tree} (hwf : WF t) (p : Path) :
    (get t p = some .dir ∧ walk t [] p = .isdir) ∨
    (∃ c, get t p = some (.file c) ∧ walk t [] p = .isfile c) ∨
    (get t p = none ∧ (walk t [] p = .enoent ∨ walk t [] p = .enotdir) ∧
      (parentColl (get t) p = true → walk t [] p = .enoent)) := by
  cases hg : get t p with
  | some n =>
    have := walk_of_get hwf (cur := []) (rest := p) (by simpa using hg)
    cases n with
    | dir => left; exact ⟨rfl, this⟩
    | file c => right; left; exact ⟨c, rfl, this⟩
  | none =>
    right; right
    refine ⟨rfl, ?_, ?_⟩
    · cases hw : walk t [] p with
      | enoent => left; rfl
      | enotdir => right; rfl
      | isdir => have := walk_isdir hw; simp [hg] at this
      | isfile c => have := walk_isfile hw; simp [hg] at this
    · intro hpc
      simp only [parentColl, Bool.and_eq_true, bne_iff_ne, ne_eq, beq_iff_eq] at hpc
      obtain ⟨hne, hd⟩ := hpc
      have hsplit := List.dropLast_concat_getLast hne
      have hwq : walk t [] p.dropLast = .isdir := walk_of_get hwf (cur := []) (by simpa using hd)
      rw [← hsplit, walk_append_isdir hwq]
      simp only [List.nil_append, walk, hd]
      rw [hsplit, hg]

theorem parentIsDir_eq {t : Tree} (hwf : WF t) (p : Path) : parentIsDir t p = parentColl (get t) p := by
  unfold parentIsDir parentColl
  cases hne : (p != []) with
  | false => simp
  | true =>
    simp only [Bool.true_and]
    rcases walk_spec hwf p.dropLast with ⟨hg, hw⟩ | ⟨c, hg, hw⟩ | ⟨hg, hw, _⟩
    · simp [hg, hw]
    · have h1 : (St.isfile c == St.isdir) = false := beq_false_of_ne (by intro h; cases h)
      have h2 : (Node.file c == Node.dir) = false := beq_false_of_ne (by intro h; cases h)
      simp [hg, hw, h1, h2]
    · rcases hw with hw | hw <;> simp [hg, hw]

/-- lstat() in terms of the lookup function -/
theorem lstat_spec {t : Tree} (hwf : WF t) (p : RPath) :
    (get t p.segs = some .dir ∧ lstat t p = .isdir) ∨
    (∃ c, get t p.segs = some (.file c) ∧ p.slash = false ∧ lstat t p = .isfile c) ∨
    (∃ c, get t p.segs = some (.file c) ∧ p.slash = true ∧ lstat t p = .enotdir) ∨
    (get t p.segs = none ∧ (lstat t p = .enoent ∨ lstat t p = .enotdir) ∧
      (parentColl (get t) p.segs = true → lstat t p = .enoent)) := by
  unfold lstat
  rcases walk_spec hwf p.segs with ⟨hg, hw⟩ | ⟨c, hg, hw⟩ | ⟨hg, hw, hp⟩
  · left; simp [hg, hw]
  · cases hs : p.slash with
    | false => right; left; exact ⟨c, hg, rfl, by simp [hw, hs]⟩
    | true => right; right; left; exact ⟨c, hg, rfl, by simp [hw, hs]⟩
  · right; right; right
    refine ⟨hg, ?_, ?_⟩
    · rcases hw with hw | hw <;> simp [hw]
    · intro h; simp [hp h]

theorem node_file_ne_dir (c : Bytes) : (some (Node.file c) == some Node.dir) = false :=
  beq_false_of_ne (by intro h; cases h)

theorem doMkcol_status {t : Tree} {r : Req} (hwf : WF t) (hm : r.m = .mkcol) :
    isSuccess (doMkcol t r).1 = rfcPre (get t) r := by
  unfold doMkcol mkdirRes
  rw [parentIsDir_eq hwf]
  simp only [rfcPre, hm]
  cases hb : r.body.isEmpty <;> simp only [Bool.not_false, Bool.not_true, ↓reduceIte, Bool.false_and, Bool.true_and]
  · rfl
  · rcases walk_spec hwf r.src.segs with ⟨hg, hw⟩ | ⟨c, hg, hw⟩ | ⟨hg, hw, hp⟩
    · simp [hg, hw, isSuccess]
    · simp [hg, hw, isSuccess]
    · cases hpc : parentColl (get t) r.src.segs with
      | true => simp [hg, hp hpc, hpc, isSuccess]
      | false => rcases hw with hw | hw <;> simp [hg, hw, hpc, isSuccess]

theorem doDelete_status {t : Tree} {r : Req} (hwf : WF t) (hm : r.m = .delete) :
    isSuccess (doDelete t r).1 = rfcPre (get t) r := by
  unfold doDelete
  simp only [rfcPre, hm, isColl, isFileAt]
  cases hb : r.body.isEmpty <;> simp only [Bool.not_false, Bool.not_true, ↓reduceIte, Bool.false_and, Bool.true_and]
  · rfl
  cases hf : r.frag with
  | true => simp [isSuccess]
  | false =>
    simp only [Bool.not_false, Bool.true_and, Bool.false_eq_true, ↓reduceIte]
    rcases lstat_spec hwf r.src with ⟨hg, hl⟩ | ⟨c, hg, hs, hl⟩ | ⟨c, hg, hs, hl⟩ | ⟨hg, hl, _⟩
    · cases hp : r.pre.holds true <;> cases hd : r.depth <;> simp [hg, hl, hp, hd, isSuccess]
    · cases hp : r.pre.holds true <;> simp [hg, hl, hp, hs, isSuccess, node_file_ne_dir]
    · simp [hg, hl, hs, isSuccess, node_file_ne_dir]
    · rcases hl with hl | hl <;> simp [hg, hl, isSuccess]

theorem doPut_status {t : Tree} {r : Req} (hwf : WF t) (hm : r.m = .put) :
    isSuccess (doPut t r).1 = rfcPre (get t) r := by
  unfold doPut
  simp only [rfcPre, hm, isColl, isFileAt]
  rw [parentIsDir_eq hwf]
  cases hs : r.src.slash with
  | true => simp [isSuccess]
  | false =>
    simp only [Bool.false_eq_true, ↓reduceIte, Bool.not_false, Bool.true_and]
    rcases lstat_spec hwf r.src with ⟨hg, hl⟩ | ⟨c, hg, _, hl⟩ | ⟨c, hg, hs', hl⟩ | ⟨hg, hl, hp⟩
    · -- a collection
      cases hr : r.range with
      | some rg =>
        cases rg <;> cases hh : r.pre.holds true <;> simp [hg, hl, hh, St.exists, isSuccess]
      | none =>
        cases hb : r.body.isEmpty <;> cases hh : r.pre.holds true <;>
          cases hpc : parentColl (get t) r.src.segs <;> simp [hg, hl, hh, hb, hpc, St.exists, isSuccess]
    · -- a file
      cases hr : r.range with
      | some rg =>
        cases rg <;> cases hh : r.pre.holds true <;> simp [hg, hl, hh, St.exists, isSuccess]
      | none =>
        have hpar : parentColl (get t) r.src.segs = true ∨ r.src.segs = [] := by
          by_cases hne : r.src.segs = []
          · right; exact hne
          · left
            simp only [parentColl, Bool.and_eq_true, bne_iff_ne, ne_eq, beq_iff_eq]
            exact ⟨hne, parent_of_exists hwf hg hne⟩
        cases hb : r.body.isEmpty <;> cases hh : r.pre.holds true <;>
          cases hpc : parentColl (get t) r.src.segs <;>
          simp [hg, hl, hh, hb, hpc, St.exists, isSuccess, node_file_ne_dir]
    · rw [hs] at hs'; simp at hs'
    · -- nothing there
      cases hr : r.range with
      | some rg =>
        rcases hl with hl | hl <;> cases rg <;> cases hh : r.pre.holds false <;>
          simp [hg, hl, hh, St.exists, isSuccess]
      | none =>
        cases hpc : parentColl (get t) r.src.segs with
        | true =>
          have hl := hp hpc
          cases hb : r.body.isEmpty <;> cases hh : r.pre.holds false <;>
            simp [hg, hl, hh, hb, hpc, St.exists, isSuccess]
        | false =>
          rcases hl with hl | hl <;> cases hb : r.body.isEmpty <;> cases hh : r.pre.holds false <;>
            simp [hg, hl, hh, hb, hpc, St.exists, isSuccess]

theorem cmFile_status {t : Tree} {r : Req} {move : Bool} {src d : RPath} {c : Bytes} (hwf : WF t)
    (hnd : get t d.segs ≠ some .dir) :
    isSuccess (cmFile t r move src d c).1 =
      (!d.slash && destFree (get t) d.segs (r.ow.overwrite && isFileAt (get t) d.segs)) := by
  have hl0 : (lstat t d == St.isdir) = false := by
    cases hb : (lstat t d == St.isdir) with
    | false => rfl
    | true => exact absurd (lstat_isdir (by simpa using hb)) hnd
  unfold cmFile cmDone
  simp only [cmFileTarget, hl0, Bool.false_and, Bool.false_eq_true, ↓reduceIte, destFree, isFileAt]
  rw [parentIsDir_eq hwf]
  rcases lstat_spec hwf d with ⟨hg, _⟩ | ⟨c', hg, hs, hl⟩ | ⟨c', hg, hs, hl⟩ | ⟨hg, hl, hp⟩
  · exact absurd hg hnd
  · cases ho : r.ow.overwrite <;> simp [hg, hl, hs, ho, isSuccess]
  · simp [hg, hl, hs, isSuccess]
  · cases hpc : parentColl (get t) d.segs with
    | true => cases hs : d.slash <;> simp [hg, hp hpc, hpc, hs, isSuccess]
    | false => rcases hl with hl | hl <;> cases hs : d.slash <;> simp [hg, hl, hpc, hs, isSuccess]

theorem copymoveDir_status {t : Tree} {move ow : Bool} {src d : Path} (hwf : WF t)
    (hconf : get t d = some .dir → hasChild d t = false) :
    (match copymoveDir move ow src d t with
      | none => false
      | some (_, failed) => !failed) =
      (if src == d then ow else destFree (get t) d ow) := by
  unfold copymoveDir
  cases he : (src == d) with
  | true => cases ow <;> simp
  | false =>
    simp only [Bool.false_eq_true, ↓reduceIte, destFree]
    rw [parentIsDir_eq hwf]
    rcases walk_spec hwf d with ⟨hg, hw⟩ | ⟨c, hg, hw⟩ | ⟨hg, hw, hp⟩
    · have := hconf hg
      cases ow <;> simp [hg, hw, this]
    · cases ow <;> simp [hg, hw]
    · cases hpc : parentColl (get t) d with
      | true => simp [hg, hp hpc, hpc]
      | false => rcases hw with hw | hw <;> simp [hg, hw, hpc]

theorem cmCollection_status {t : Tree} {r : Req} {move : Bool} {src d : RPath} (hwf : WF t)
    (hconf : get t d.segs = some .dir → hasChild d.segs t = false) :
    isSuccess (cmCollection t r move src d).1 =
      (src.slash && r.depth != .one &&
        (if r.depth == .zero then !move && (isColl (get t) d.segs || (get t d.segs).isNone && parentColl (get t) d.segs)
         else if src.segs == d.segs then r.ow.overwrite else destFree (get t) d.segs r.ow.overwrite)) := by
  unfold cmCollection
  cases hs : src.slash with
  | false => simp [isSuccess]
  | true =>
    simp only [Bool.not_true, Bool.false_eq_true, ↓reduceIte, Bool.true_and]
    cases hd1 : (r.depth == Depth.one) with
    | true =>
      have : r.depth = Depth.one := by simpa using hd1
      simp [isSuccess, this]
    | false =>
      simp only [Bool.false_eq_true, ↓reduceIte, bne, hd1, Bool.not_false, Bool.true_and]
      cases hd0 : (r.depth == Depth.zero) with
      | true =>
        simp only [↓reduceIte]
        cases move with
        | true => simp [isSuccess]
        | false =>
          simp only [Bool.false_eq_true, ↓reduceIte, Bool.not_false, Bool.true_and, isColl]
          rw [parentIsDir_eq hwf]
          rcases lstat_spec hwf ⟨d.segs, true⟩ with ⟨hg, hl⟩ | ⟨c, _, hs', _⟩ | ⟨c, hg, _, hl⟩ | ⟨hg, hl, hp⟩
          · simp only at hg
            simp [hg, hl, isSuccess]
          · simp at hs'
          · simp only at hg
            simp [hg, hl, isSuccess, node_file_ne_dir]
          · simp only at hg hp
            cases hpc : parentColl (get t) d.segs with
            | true => simp [hg, hp hpc, hpc, isSuccess]
            | false => rcases hl with hl | hl <;> simp [hg, hl, hpc, isSuccess]
      | false =>
        simp only [Bool.false_eq_true, ↓reduceIte]
        rw [← copymoveDir_status (move := move) hwf hconf]
        cases copymoveDir move r.ow.overwrite src.segs d.segs t with
        | none => simp [isSuccess]
        | some x =>
          obtain ⟨t', failed⟩ := x
          cases failed <;> simp [isSuccess]

theorem isSuccess_max (s : Nat) : isSuccess (max s 400) = false := by
  unfold isSuccess
  have : ¬ (max s 400 < 300) := by omega
  simp [this]

theorem doCopyMove_status {t : Tree} {r : Req} (hwf : WF t) (hc : Conforming t r)
    (hm : r.m = .copy ∨ r.m = .move) : isSuccess (doCopyMove t r).1 = rfcPre (get t) r := by
  have hpre : rfcPre (get t) r = (match r.dst with
      | .ok d =>
        r.body.isEmpty && r.ow != .bad && !nested r.src d && r.pre.holds true &&
        (if isColl (get t) r.src.segs then
           r.src.slash && r.depth != .one &&
           (if r.depth == .zero then r.m == .copy &&
              (isColl (get t) d.segs || (get t d.segs).isNone && parentColl (get t) d.segs)
            else if r.src.segs == d.segs then r.ow.overwrite else destFree (get t) d.segs r.ow.overwrite)
         else isFileAt (get t) r.src.segs && !r.src.slash && !d.slash &&
           destFree (get t) d.segs (r.ow.overwrite && isFileAt (get t) d.segs))
      | _ => false) := by
    rcases hm with hm | hm <;> simp only [rfcPre, hm] <;> cases r.dst <;> rfl
  rw [hpre]
  unfold doCopyMove
  cases hb : r.body.isEmpty with
  | false => cases r.dst <;> simp [isSuccess]
  | true =>
    simp only [Bool.not_true, Bool.false_eq_true, ↓reduceIte, Bool.true_and]
    cases hob : (r.ow == Ow.bad) with
    | true => cases r.dst <;> simp [isSuccess, bne, hob]
    | false =>
      simp only [Bool.false_eq_true, ↓reduceIte, bne, hob, Bool.not_false, Bool.true_and]
      cases hdst : r.dst with
      | absent => simp [isSuccess]
      | bad s => simp [isSuccess_max]
      | ok d =>
        simp only
        have hdo : destOf r = d.segs := by simp [destOf, hdst]
        cases hn : nested r.src d with
        | true => simp [isSuccess]
        | false =>
          simp only [Bool.false_eq_true, ↓reduceIte, Bool.not_false, Bool.true_and]
          rcases lstat_spec hwf r.src with ⟨hg, hl⟩ | ⟨c, hg, hs, hl⟩ | ⟨c, hg, hs, hl⟩ | ⟨hg, hl, _⟩
          · -- a collection
            have hconf : get t d.segs = some .dir → hasChild d.segs t = false := by
              intro hd
              have := hc hm (by rw [hdo]; exact hd)
              rw [hdo] at this
              exact this.2
            have hmv : (!(r.m == Method.move)) = (r.m == Method.copy) := by
              rcases hm with hm | hm <;> simp [hm]
            cases hp : r.pre.holds true with
            | false => simp [hl, isSuccess]
            | true =>
              simp only [hl, Bool.not_true, Bool.false_eq_true, ↓reduceIte, Bool.true_and]
              rw [cmCollection_status hwf hconf, hmv]
              simp [isColl, hg, bne]
          · -- a file
            have hnd : get t d.segs ≠ some .dir := by
              intro hd
              have := (hc hm (by rw [hdo]; exact hd)).1
              rw [hg] at this
              simp at this
            cases hp : r.pre.holds true with
            | false => simp [hl, isSuccess]
            | true =>
              simp only [hl, Bool.not_true, Bool.false_eq_true, ↓reduceIte, Bool.true_and]
              rw [cmFile_status hwf hnd]
              simp [isColl, isFileAt, hg, hs, node_file_ne_dir]
          · simp [hl, isSuccess, isColl, isFileAt, hg, hs, node_file_ne_dir]
          · rcases hl with hl | hl <;> simp [hl, isSuccess, isColl, isFileAt, hg]

/-- which status must occur: a covered request is answered with success exactly when the RFC 4918
    preconditions (`rfcPre`, stated on the lookup function alone) hold -/
theorem step_status {t : Tree} {r : Req} (hwf : WF t) (hc : Conforming t r) (hg : r.m ≠ .get) :
    isSuccess (step t r).1 = rfcPre (get t) r := by
  unfold step
  cases hm : r.m <;> simp only
  · exact doPut_status hwf hm
  · exact doDelete_status hwf hm
  · exact doMkcol_status hwf hm
  · exact doCopyMove_status hwf hc (Or.inl hm)
  · exact doCopyMove_status hwf hc (Or.inr hm)
  · exact absurd hm hg

theorem copymoveDir_not_failed {t : Tree} {move ow : Bool} {src d : Path} {t' : Tree} {f : Bool}
    (hconf : get t d = some .dir → hasChild d t = false)
    (h : copymoveDir move ow src d t = some (t', f)) : f = false := by
  unfold copymoveDir at h
  repeat' split at h
  all_goals (first | (simp at h; done) | skip)
  all_goals (simp only [Option.some.injEq, Prod.mk.injEq] at h)
  all_goals (first | (exact h.2.symm) | skip)
  all_goals (
    rename_i hw _ hc
    have := hconf (by simpa using walk_isdir hw)
    simp [this] at hc)

theorem cmCollection_207 {t : Tree} {r : Req} {move : Bool} {src d : RPath} {t' : Tree}
    (hconf : get t d.segs = some .dir → hasChild d.segs t = false)
    (h : cmCollection t r move src d = (207, t')) : t' = t := by
  unfold cmCollection at h
  repeat' split at h
  all_goals (simp only [Prod.mk.injEq] at h)
  all_goals (first | (exact h.2.symm) | (exact absurd h.1 (by decide)) | skip)
  all_goals (
    rename_i hcm _
    have := copymoveDir_not_failed hconf hcm
    subst this
    contradiction)

theorem cmFile_207 {t : Tree} {r : Req} {move : Bool} {src d : RPath} {c : Bytes} {t' : Tree}
    (h : cmFile t r move src d c = (207, t')) : t' = t := by
  unfold cmFile cmDone at h
  dsimp only at h
  repeat' split at h
  all_goals (simp only [Prod.mk.injEq] at h)
  all_goals (first | (exact h.2.symm) | (exact absurd h.1 (by decide)))

theorem doCopyMove_207 {t : Tree} {r : Req} {s : Nat} {t' : Tree} (hc : Conforming t r)
    (hm : r.m = .copy ∨ r.m = .move) (h : doCopyMove t r = (s, t')) (h207 : s = 207) : t' = t := by
  subst h207
  unfold doCopyMove at h
  split at h
  · simp only [Prod.mk.injEq] at h; exact absurd h.1 (by decide)
  split at h
  · simp only [Prod.mk.injEq] at h; exact absurd h.1 (by decide)
  split at h
  · simp only [Prod.mk.injEq] at h; exact absurd h.1 (by decide)
  · simp only [Prod.mk.injEq] at h; exfalso; have := h.1; omega
  rename_i dst hdst
  have hdo : destOf r = dst.segs := by simp [destOf, hdst]
  split at h
  · simp only [Prod.mk.injEq] at h; exact absurd h.1 (by decide)
  split at h
  · simp only [Prod.mk.injEq] at h; exact absurd h.1 (by decide)
  · simp only [Prod.mk.injEq] at h; exact absurd h.1 (by decide)
  · split at h
    · simp only [Prod.mk.injEq] at h; exact absurd h.1 (by decide)
    refine cmCollection_207 ?_ h
    intro hd
    have := hc hm (by rw [hdo]; exact hd)
    rw [hdo] at this
    exact this.2
  · split at h
    · simp only [Prod.mk.injEq] at h; exact absurd h.1 (by decide)
    exact cmFile_207 h

theorem doPut_207 {t : Tree} {r : Req} {t' : Tree} (h : doPut t r = (207, t')) : t' = t := by
  unfold doPut at h
  dsimp only at h
  repeat' split at h
  all_goals (simp only [Prod.mk.injEq] at h)
  all_goals (first | (exact h.2.symm) | (exact absurd h.1 (by decide)))

theorem doMkcol_207 {t : Tree} {r : Req} {t' : Tree} (h : doMkcol t r = (207, t')) : t' = t := by
  unfold doMkcol at h
  repeat' split at h
  all_goals (simp only [Prod.mk.injEq] at h)
  all_goals (first | (exact h.2.symm) | (exact absurd h.1 (by decide)))

theorem doDelete_207 {t : Tree} {r : Req} {t' : Tree} (h : doDelete t r = (207, t')) : t' = t := by
  unfold doDelete at h
  repeat' split at h
  all_goals (simp only [Prod.mk.injEq] at h)
  all_goals (first | (exact h.2.symm) | (exact absurd h.1 (by decide)))

/-- for a covered request 207 Multi-Status only reports a top-level refusal: nothing changed -/
theorem step_207_unchanged {t : Tree} {r : Req} (hc : Conforming t r) (h : (step t r).1 = 207) :
    (step t r).2 = t := by
  unfold step at h ⊢
  cases hm : r.m <;> simp only [hm] at h ⊢
  · exact doPut_207 (Prod.ext h rfl)
  · exact doDelete_207 (Prod.ext h rfl)
  · exact doMkcol_207 (Prod.ext h rfl)
  · exact doCopyMove_207 hc (Or.inl hm) rfl h
  · exact doCopyMove_207 hc (Or.inr hm) rfl h

end LtVerif.Dav
