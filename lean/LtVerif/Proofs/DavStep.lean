/-
  C18 — per-method lemmas about `step` (Model/Dav.lean): error ⇒ unchanged, frame.
-/
import LtVerif.Proofs.Dav

namespace LtVerif.Dav
open LtVerif

def Success (s : Nat) : Prop := 200 ≤ s ∧ s < 300

instance (s : Nat) : Decidable (Success s) := by unfold Success; exact inferInstance

theorem doPut_error {t : Tree} {r : Req} {s : Nat} {t' : Tree} (h : doPut t r = (s, t')) (he : ¬ Success s) :
    t' = t := by
  unfold doPut at h
  dsimp only at h
  repeat' split at h
  all_goals (simp only [Prod.mk.injEq] at h; obtain ⟨rfl, rfl⟩ := h)
  all_goals (first | rfl | (exact absurd (by decide) he))

theorem doMkcol_error {t : Tree} {r : Req} {s : Nat} {t' : Tree} (h : doMkcol t r = (s, t')) (he : ¬ Success s) :
    t' = t := by
  unfold doMkcol at h
  repeat' split at h
  all_goals (simp only [Prod.mk.injEq] at h; obtain ⟨rfl, rfl⟩ := h)
  all_goals (first | rfl | (exact absurd (by decide) he))

theorem doDelete_error {t : Tree} {r : Req} {s : Nat} {t' : Tree} (h : doDelete t r = (s, t')) (he : ¬ Success s) :
    t' = t := by
  unfold doDelete at h
  repeat' split at h
  all_goals (simp only [Prod.mk.injEq] at h; obtain ⟨rfl, rfl⟩ := h)
  all_goals (first | rfl | (exact absurd (by decide) he))

theorem cmCollection_error {t : Tree} {r : Req} {move : Bool} {src dst : RPath} {s : Nat} {t' : Tree}
    (h : cmCollection t r move src dst = (s, t')) (he : ¬ Success s) : t' = t := by
  unfold cmCollection at h
  repeat' split at h
  all_goals (simp only [Prod.mk.injEq] at h; obtain ⟨rfl, rfl⟩ := h)
  all_goals (first | rfl | (exact absurd (by decide) he))

theorem cmFile_error {t : Tree} {r : Req} {move : Bool} {src dst : RPath} {c : Bytes} {s : Nat} {t' : Tree}
    (h : cmFile t r move src dst c = (s, t')) (he : ¬ Success s) : t' = t := by
  unfold cmFile cmDone at h
  dsimp only at h
  repeat' split at h
  all_goals (simp only [Prod.mk.injEq] at h; obtain ⟨rfl, rfl⟩ := h)
  all_goals (first | rfl | (exact absurd (by decide) he))

theorem doCopyMove_error {t : Tree} {r : Req} {s : Nat} {t' : Tree} (h : doCopyMove t r = (s, t'))
    (he : ¬ Success s) : t' = t := by
  unfold doCopyMove at h
  repeat' split at h
  all_goals (first | exact cmCollection_error h he | exact cmFile_error h he | skip)
  all_goals (simp only [Prod.mk.injEq] at h; obtain ⟨rfl, rfl⟩ := h)
  all_goals (first | rfl | (exact absurd (by decide) he))

theorem step_error {t : Tree} {r : Req} (he : ¬ Success (step t r).1) : (step t r).2 = t := by
  unfold step at he ⊢
  cases hm : r.m <;> simp only [hm] at he ⊢
  · exact doPut_error rfl he
  · exact doDelete_error rfl he
  · exact doMkcol_error rfl he
  · exact doCopyMove_error rfl he
  · exact doCopyMove_error rfl he

/-! ### frame: only the source and destination subtrees change -/

theorem ne_of_not_under {p q : Path} (h : under p q = false) : p ≠ q := by
  intro e; subst e; rw [under_refl] at h; exact absurd h (by simp)

theorem get_set_frame {p q : Path} (n : Node) (t : Tree) (h : under p q = false) :
    get (set p n t) q = get t q := by
  rw [get_set, if_neg (ne_of_not_under h)]

theorem get_erase_frame {p q : Path} (t : Tree) (h : under p q = false) :
    get (erase p t) q = get t q := by
  rw [get_erase]; simp [h]

theorem get_copyTree_frame {src dst q : Path} (t : Tree) (h : under dst q = false) :
    get (copyTree src dst t) q = get t q := by
  rw [get_copyTree]; simp [h]

theorem get_moveTree_frame {src dst q : Path} (t : Tree) (hs : under src q = false) (h : under dst q = false) :
    get (moveTree src dst t) q = get t q := by
  rw [get_moveTree]; simp [h, hs]

theorem under_child_false {p q : Path} (s : Seg) (h : under p q = false) : under (p ++ [s]) q = false :=
  not_under_of_not_under_prefix (under_append p [s]) h

theorem mergeStep_frame {recur : Path → Path → Tree → Tree × Bool} {q : Path}
    (hrec : ∀ s d t, under s q = false → under d q = false → get (recur s d t).1 q = get t q)
    (move : Bool) {src dst : Path} (acc : Tree × Bool) (e : Seg × Node)
    (hs : under src q = false) (hd : under dst q = false) :
    get (mergeStep recur move src dst acc e).1 q = get acc.1 q := by
  have hs' := under_child_false e.1 hs
  have hd' := under_child_false e.1 hd
  unfold mergeStep
  dsimp only
  repeat' split
  all_goals (first
    | rfl
    | (rw [get_set_frame _ _ hd', get_erase_frame _ hs'])
    | (rw [get_set_frame _ _ hd'])
    | (rw [get_moveTree_frame _ hs' hd'])
    | (rw [get_copyTree_frame _ hd'])
    | (exact hrec _ _ _ hs' hd'))

theorem foldl_mergeStep_frame {recur : Path → Path → Tree → Tree × Bool} {q : Path}
    (hrec : ∀ s d t, under s q = false → under d q = false → get (recur s d t).1 q = get t q)
    (move : Bool) {src dst : Path} (hs : under src q = false) (hd : under dst q = false) :
    ∀ (l : List (Seg × Node)) (acc : Tree × Bool),
      get (l.foldl (mergeStep recur move src dst) acc).1 q = get acc.1 q
  | [], _ => rfl
  | e :: l, acc => by
    rw [List.foldl_cons, foldl_mergeStep_frame hrec move hs hd l, mergeStep_frame hrec move acc e hs hd]

theorem mergeDir_frame : ∀ (fuel : Nat) (move : Bool) (src dst : Path) (t : Tree) (q : Path),
    under src q = false → under dst q = false → get (mergeDir fuel move src dst t).1 q = get t q
  | 0, _, _, _, _, _, _, _ => rfl
  | fuel + 1, move, src, dst, t, q, hs, hd => by
    unfold mergeDir
    dsimp only
    have hf := foldl_mergeStep_frame (recur := mergeDir fuel move) (q := q)
      (fun s d t h1 h2 => mergeDir_frame fuel move s d t q h1 h2) move hs hd (children src t) (t, false)
    split
    · rw [get_erase_frame _ hs]; exact hf
    · exact hf

theorem copymoveDir_frame {move ow : Bool} {src dst : Path} {t t' : Tree} {f : Bool} {q : Path}
    (h : copymoveDir move ow src dst t = some (t', f)) (hs : under src q = false) (hd : under dst q = false) :
    get t' q = get t q := by
  unfold copymoveDir at h
  repeat' split at h
  all_goals (first | (simp at h; done) | skip)
  all_goals (simp only [Option.some.injEq, Prod.mk.injEq] at h)
  all_goals (first
    | (obtain ⟨rfl, rfl⟩ := h; first | rfl | exact get_moveTree_frame _ hs hd | exact get_copyTree_frame _ hd)
    | (have hm := mergeDir_frame (List.length t + 1) move src dst t q hs hd; rw [h] at hm; exact hm)
    | skip)

theorem doPut_frame {t : Tree} {r : Req} {q : Path} (hs : under r.src.segs q = false) :
    get (doPut t r).2 q = get t q := by
  unfold doPut
  dsimp only
  repeat' split
  all_goals (first | rfl | exact get_set_frame _ _ hs)

theorem doMkcol_frame {t : Tree} {r : Req} {q : Path} (hs : under r.src.segs q = false) :
    get (doMkcol t r).2 q = get t q := by
  unfold doMkcol
  repeat' split
  all_goals (first | rfl | exact get_set_frame _ _ hs)

theorem doDelete_frame {t : Tree} {r : Req} {q : Path} (hs : under r.src.segs q = false) :
    get (doDelete t r).2 q = get t q := by
  unfold doDelete
  repeat' split
  all_goals (first | rfl | exact get_erase_frame _ hs)

theorem cmFileTarget_under (t : Tree) (src dst : RPath) :
    under dst.segs (cmFileTarget t src dst).segs = true := by
  unfold cmFileTarget
  split
  · exact under_append _ _
  · exact under_refl _

theorem cmCollection_frame {t : Tree} {r : Req} {move : Bool} {src dst : RPath} {q : Path}
    (hs : under src.segs q = false) (hd : under dst.segs q = false) :
    get (cmCollection t r move src dst).2 q = get t q := by
  unfold cmCollection
  repeat' split
  all_goals (first
    | rfl
    | exact get_set_frame _ _ hd
    | (rename_i h _; exact copymoveDir_frame h hs hd))

theorem cmFile_frame {t : Tree} {r : Req} {move : Bool} {src dst : RPath} {c : Bytes} {q : Path}
    (hs : under src.segs q = false) (hd : under dst.segs q = false) :
    get (cmFile t r move src dst c).2 q = get t q := by
  have hd' := not_under_of_not_under_prefix (cmFileTarget_under t src dst) hd
  unfold cmFile cmDone
  dsimp only
  repeat' split
  all_goals (first
    | rfl
    | (rw [get_set_frame _ _ hd', get_erase_frame _ hs])
    | (rw [get_set_frame _ _ hd']))

theorem doCopyMove_frame {t : Tree} {r : Req} {q : Path} (hs : under r.src.segs q = false)
    (hd : ∀ d, r.dst = .ok d → under d.segs q = false) :
    get (doCopyMove t r).2 q = get t q := by
  unfold doCopyMove
  repeat' split
  all_goals (first
    | rfl
    | (rename_i hdst _ _ _ _; exact cmCollection_frame hs (hd _ hdst))
    | (rename_i hdst _ _ _ _ _; exact cmFile_frame hs (hd _ hdst))
    | skip)

theorem step_frame {t : Tree} {r : Req} {q : Path} (hs : under r.src.segs q = false)
    (hd : ∀ d, r.dst = .ok d → under d.segs q = false) :
    get (step t r).2 q = get t q := by
  unfold step
  cases hm : r.m <;> simp only
  · exact doPut_frame hs
  · exact doDelete_frame hs
  · exact doMkcol_frame hs
  · exact doCopyMove_frame hs hd
  · exact doCopyMove_frame hs hd

end LtVerif.Dav
