/-
  C18 — well-formedness (every entry's parent is a collection) is preserved by every
  request the RFC reference covers.
-/
import LtVerif.Proofs.DavRef

namespace LtVerif.Dav
open LtVerif

theorem dropLast_append_singleton (q : Path) (s : Seg) : (q ++ [s]).dropLast = q := by simp

theorem under_snoc_of_under {p q : Path} (s : Seg) (h : under p q = true) : under p (q ++ [s]) = true :=
  under_trans h (under_append q [s])

/-- a proper extension of `p`: its parent is still under `p` -/
theorem under_parent {p q : Path} {s : Seg} (h : under p (q ++ [s]) = true) (hne : q ++ [s] ≠ p) :
    under p q = true := by
  obtain ⟨r, hr⟩ := under_iff.1 h
  apply under_iff.2
  rcases List.eq_nil_or_concat r with rfl | ⟨r', x, rfl⟩
  · simp at hr; exact absurd hr.symm hne
  · refine ⟨r', ?_⟩
    have : p ++ r' ++ [x] = q ++ [s] := by simpa [List.append_assoc] using hr
    exact (List.append_inj' this rfl).1

theorem drop_snoc {p q : Path} {s : Seg} (h : under p q = true) :
    (q ++ [s]).drop p.length = q.drop p.length ++ [s] := by
  have hl : p.length ≤ q.length := (under_iff.1 h).length_le
  rw [List.drop_append_of_le_length hl]

theorem wf_set {t : Tree} (hwf : WF t) {p : Path} {n : Node}
    (hpar : p ≠ [] → get t p.dropLast = some .dir) (hn : n ≠ .dir → get t p ≠ some .dir) :
    WF (set p n t) := by
  intro q s m hg
  rw [get_set] at hg ⊢
  by_cases hp : p = q ++ [s]
  · have hq : p ≠ q := by
      intro e; rw [e] at hp; simpa using congrArg List.length hp
    rw [if_neg hq]
    have := hpar (by rw [hp]; simp)
    rw [hp, dropLast_append_singleton] at this
    exact this
  · rw [if_neg hp] at hg
    have hd := hwf _ _ _ hg
    by_cases hq : p = q
    · subst hq
      rw [if_pos rfl]
      by_cases hnd : n = .dir
      · rw [hnd]
      · exact absurd hd (hn hnd)
    · rw [if_neg hq]; exact hd

theorem wf_erase {t : Tree} (hwf : WF t) (p : Path) : WF (erase p t) := by
  intro q s m hg
  rw [get_erase] at hg ⊢
  split at hg
  · simp at hg
  · rename_i hu
    have hq : ¬ under p q = true := fun h => hu (under_snoc_of_under s h)
    rw [if_neg hq]
    exact hwf _ _ _ hg

theorem wf_copyTree {t : Tree} (hwf : WF t) {src dst : Path} (hsrc : get t src = some .dir)
    (hpar : dst ≠ [] → get t dst.dropLast = some .dir) : WF (copyTree src dst t) := by
  intro q s m hg
  rw [get_copyTree] at hg ⊢
  by_cases hu : under dst (q ++ [s]) = true
  · rw [if_pos hu] at hg
    by_cases he : q ++ [s] = dst
    · have hq : ¬ under dst q = true := by
        intro h
        have := (under_iff.1 h).length_le
        rw [← he] at this
        simp at this
        omega
      rw [if_neg hq]
      have := hpar (by rw [← he]; simp)
      rw [← he, dropLast_append_singleton] at this
      exact this
    · have hq := under_parent hu he
      rw [if_pos hq]
      rw [drop_snoc hq, ← List.append_assoc] at hg
      exact hwf _ _ _ hg
  · rw [if_neg hu] at hg
    have hq : ¬ under dst q = true := fun h => hu (under_snoc_of_under s h)
    rw [if_neg hq]
    exact hwf _ _ _ hg

theorem wf_moveTree {t : Tree} (hwf : WF t) {src dst : Path} (hsrc : get t src = some .dir)
    (hpar : dst ≠ [] → get t dst.dropLast = some .dir) (hnn : under src dst = false) :
    WF (moveTree src dst t) := by
  intro q s m hg
  rw [get_moveTree] at hg ⊢
  by_cases hu : under dst (q ++ [s]) = true
  · rw [if_pos hu] at hg
    by_cases he : q ++ [s] = dst
    · have hq : ¬ under dst q = true := by
        intro h
        have := (under_iff.1 h).length_le
        rw [← he] at this
        simp at this
        omega
      rw [if_neg hq]
      have hsq : ¬ under src q = true := by
        intro h
        have := under_snoc_of_under s h
        rw [he, hnn] at this
        simp at this
      rw [if_neg hsq]
      have := hpar (by rw [← he]; simp)
      rw [← he, dropLast_append_singleton] at this
      exact this
    · have hq := under_parent hu he
      rw [if_pos hq]
      rw [drop_snoc hq, ← List.append_assoc] at hg
      exact hwf _ _ _ hg
  · rw [if_neg hu] at hg
    have hq : ¬ under dst q = true := fun h => hu (under_snoc_of_under s h)
    rw [if_neg hq]
    split at hg
    · simp at hg
    · rename_i hs
      have hsq : ¬ under src q = true := fun h => hs (under_snoc_of_under s h)
      rw [if_neg hsq]
      exact hwf _ _ _ hg

theorem parent_of_exists {t : Tree} (hwf : WF t) {p : Path} {n : Node} (hg : get t p = some n) (hne : p ≠ []) :
    get t p.dropLast = some .dir := by
  have := List.dropLast_concat_getLast hne
  rw [← this] at hg
  exact hwf _ _ _ hg

/-- nothing that exists lies strictly below (or at) a file, as far as collections are concerned -/
theorem not_under_file {t : Tree} (hwf : WF t) {src x : Path} {c : Bytes} (hs : get t src = some (.file c))
    (hx : get t x = some .dir) : under src x = false := by
  cases hu : under src x with
  | false => rfl
  | true =>
    exfalso
    have hsp := under_split hu
    by_cases hr : x.drop src.length = []
    · rw [hr] at hsp
      simp at hsp
      rw [hsp, hs] at hx
      simp at hx
    · have := hwf.no_child_of_nondir (p := src) hr (by simp [hs])
      rw [← hsp, hx] at this
      simp at this

theorem parentIsDir_of_not {t : Tree} {p : Path} (h : ¬(!parentIsDir t p) = true) : parentIsDir t p = true := by
  simpa using h

theorem doPut_wf {t : Tree} {r : Req} (hwf : WF t) : WF (doPut t r).2 := by
  unfold doPut
  dsimp only
  repeat' split
  all_goals (first | exact hwf | skip)
  all_goals (
    apply wf_set hwf
    · intro hne
      first
      | exact (parentIsDir_get (by assumption)).2
      | exact (parentIsDir_get (parentIsDir_of_not (by assumption))).2
      | exact parent_of_exists hwf (lstat_isfile (by assumption)) hne
    · intro _
      first
      | (rw [lstat_isfile (by assumption)]; simp)
      | (rw [lstat_enoent hwf (by assumption)]; simp))

theorem doMkcol_wf {t : Tree} {r : Req} (hwf : WF t) : WF (doMkcol t r).2 := by
  unfold doMkcol
  repeat' split
  all_goals (first | exact hwf | skip)
  rename_i hm
  unfold mkdirRes at hm
  repeat' split at hm
  all_goals (first | (simp at hm; done) | skip)
  apply wf_set hwf
  · intro _; exact (parentIsDir_get (by assumption)).2
  · intro h; exact absurd rfl h

theorem doDelete_wf {t : Tree} {r : Req} (hwf : WF t) : WF (doDelete t r).2 := by
  unfold doDelete
  repeat' split
  all_goals (first | exact hwf | exact wf_erase hwf _)

theorem cmFile_wf {t : Tree} {r : Req} {move : Bool} {src dst : RPath} {c : Bytes}
    (hwf : WF t) (hsrc : get t src.segs = some (.file c)) (hnd : get t dst.segs ≠ some .dir) :
    WF (cmFile t r move src dst c).2 := by
  have hl : (lstat t dst == St.isdir) = false := by
    cases hb : (lstat t dst == St.isdir) with
    | false => rfl
    | true => exact absurd (lstat_isdir (by simpa using hb)) hnd
  unfold cmFile cmDone
  simp only [cmFileTarget, hl, Bool.false_and, Bool.false_eq_true, ↓reduceIte]
  have hmove : (dst.segs ≠ [] → get t dst.segs.dropLast = some .dir) →
      WF (set dst.segs (.file c) (erase src.segs t)) := by
    intro hpar
    apply wf_set (wf_erase hwf _)
    · intro hne
      rw [get_erase, not_under_file hwf hsrc (hpar hne)]
      simpa using hpar hne
    · intro _
      rw [get_erase]
      split
      · simp
      · exact hnd
  have hcopy : (dst.segs ≠ [] → get t dst.segs.dropLast = some .dir) → WF (set dst.segs (.file c) t) :=
    fun hpar => wf_set hwf hpar (fun _ => hnd)
  repeat' split
  all_goals (first | exact hwf | skip)
  all_goals (
    have hpar : dst.segs ≠ [] → get t dst.segs.dropLast = some .dir := by
      intro hne
      first
      | exact (parentIsDir_get (by assumption)).2
      | exact parent_of_exists hwf (lstat_isfile (by assumption)) hne
    first | exact hmove hpar | exact hcopy hpar)

theorem copymoveDir_wf {t : Tree} {move ow : Bool} {src dst : Path} {t' : Tree} {f : Bool}
    (hwf : WF t) (hsrc : get t src = some .dir) (hnn : src ≠ dst → under src dst = false)
    (hconf : get t dst = some .dir → hasChild dst t = false)
    (h : copymoveDir move ow src dst t = some (t', f)) : WF t' := by
  unfold copymoveDir at h
  split at h
  · split at h
    · simp only [Option.some.injEq, Prod.mk.injEq] at h; obtain ⟨rfl, rfl⟩ := h; exact hwf
    · simp at h
  rename_i hne
  have hne : src ≠ dst := by simpa using hne
  have hnn := hnn hne
  repeat' split at h
  all_goals (first | (simp at h; done) | skip)
  all_goals (simp only [Option.some.injEq, Prod.mk.injEq] at h)
  all_goals (first
    | (obtain ⟨rfl, rfl⟩ := h
       have hpar : dst ≠ [] → get t dst.dropLast = some .dir := by
         intro hd
         first
         | exact (parentIsDir_get (by assumption)).2
         | exact parent_of_exists hwf (walk_isfile (cur := []) (by assumption)) hd
         | exact parent_of_exists hwf (walk_isdir (cur := []) (by assumption)) hd
       first
       | exact wf_moveTree hwf hsrc hpar hnn
       | exact wf_copyTree hwf hsrc hpar)
    | skip)
  all_goals (
    rename_i hw _ hc
    have := hconf (by simpa using walk_isdir hw)
    simp [this] at hc)

theorem cmCollection_wf {t : Tree} {r : Req} {move : Bool} {src dst : RPath}
    (hwf : WF t) (hsrc : get t src.segs = some .dir) (hnn : src.segs ≠ dst.segs → under src.segs dst.segs = false)
    (hconf : get t dst.segs = some .dir → hasChild dst.segs t = false) :
    WF (cmCollection t r move src dst).2 := by
  unfold cmCollection
  repeat' split
  all_goals (first
    | exact hwf
    | (apply wf_set hwf
       · intro _; exact (parentIsDir_get (by assumption)).2
       · intro h; exact absurd rfl h)
    | (rename_i h _; exact copymoveDir_wf hwf hsrc hnn hconf h)
    | skip)

theorem nested_false {src dst : RPath} (h : ¬ nested src dst = true) (hne : src.segs ≠ dst.segs) :
    under src.segs dst.segs = false := by
  unfold nested at h
  cases hu : under src.segs dst.segs with
  | false => rfl
  | true =>
    exfalso
    apply h
    have : (dst.segs == src.segs) = false := by
      simp only [beq_eq_false_iff_ne, ne_eq]
      exact fun e => hne e.symm
    simp [hu, this]

theorem doCopyMove_wf {t : Tree} {r : Req} (hwf : WF t) (hc : Conforming t r)
    (hm : r.m = .copy ∨ r.m = .move) : WF (doCopyMove t r).2 := by
  unfold doCopyMove
  split
  · exact hwf
  split
  · exact hwf
  split
  · exact hwf
  · exact hwf
  rename_i dst hdst
  have hdo : destOf r = dst.segs := by simp [destOf, hdst]
  split
  · exact hwf
  rename_i hnest
  split
  · exact hwf
  · exact hwf
  · rename_i hl
    have hsrc := lstat_isdir hl
    split
    · exact hwf
    apply cmCollection_wf hwf hsrc (nested_false hnest)
    intro hd
    have := hc hm (by rw [hdo]; exact hd)
    rw [hdo] at this
    exact this.2
  · rename_i c hl
    have hsrc := lstat_isfile hl
    split
    · exact hwf
    apply cmFile_wf hwf hsrc
    intro hd
    have := (hc hm (by rw [hdo]; exact hd)).1
    rw [hsrc] at this
    simp at this

/-- every request covered by the reference keeps the tree well-formed -/
theorem step_wf {t : Tree} {r : Req} (hwf : WF t) (hc : Conforming t r) : WF (step t r).2 := by
  unfold step
  cases hm : r.m <;> simp only
  · exact doPut_wf hwf
  · exact doDelete_wf hwf
  · exact doMkcol_wf hwf
  · exact doCopyMove_wf hwf hc (Or.inl hm)
  · exact doCopyMove_wf hwf hc (Or.inr hm)
  · exact hwf

end LtVerif.Dav
