/-
  Helper lemmas for C19 (Model/Deflate.lean).
-/
import LtVerif.Model.Deflate
namespace LtVerif.Deflate
open LtVerif B

/-! ### codings, sets -/

theorem codingOfToken_label {t : Bytes} {c : Coding} (h : codingOfToken t = some c) : t = c.label := by
  unfold codingOfToken at h
  split at h
  · cases h; assumption
  · split at h
    · cases h; assumption
    · split at h
      · cases h; assumption
      · cases h

theorem mem_insert {s : CSet} {c d : Coding} (h : (s.insert c).mem d = true) : s.mem d = true ∨ c = d := by
  cases c <;> cases d <;> simp_all [CSet.insert, CSet.mem]

theorem mem_inter (a b : CSet) (c : Coding) : (a.inter b).mem c = (a.mem c && b.mem c) := by
  cases c <;> simp [CSet.inter, CSet.mem]

theorem pick_mem {a : CSet} {c : Coding} (h : pick a = some c) : a.mem c = true := by
  unfold pick at h
  split at h
  · cases h; simpa [CSet.mem]
  · split at h
    · cases h; simpa [CSet.mem]
    · split at h
      · cases h; simpa [CSet.mem]
      · cases h

theorem pick_none {a : CSet} (h : pick a = none) : a.isEmpty = true := by
  unfold pick at h
  split at h
  · cases h
  · split at h
    · cases h
    · split at h
      · cases h
      · simp_all [CSet.isEmpty]

theorem mem_empty (c : Coding) : (({} : CSet)).mem c = false := by
  cases c <;> rfl

/-! ### Accept-Encoding scan -/

theorem foldl_acceptStep_mem (es : List Entry) (s : CSet) (c : Coding)
    (h : (es.foldl acceptStep s).mem c = true) :
    s.mem c = true ∨ ∃ e ∈ es, e.q0 = false ∧ codingOfToken e.token = some c := by
  induction es generalizing s with
  | nil => exact Or.inl h
  | cons e es ih =>
    rw [List.foldl_cons] at h
    rcases ih _ h with h1 | ⟨e', he', hq, hc⟩
    · unfold acceptStep at h1
      by_cases hq : e.q0 = true
      · simp [hq] at h1; exact Or.inl h1
      · simp only [hq] at h1
        cases hc : codingOfToken e.token with
        | none => simp [hc] at h1; exact Or.inl h1
        | some d =>
          simp [hc] at h1
          rcases mem_insert h1 with h2 | h2
          · exact Or.inl h2
          · subst h2
            exact Or.inr ⟨e, by simp, by simpa using hq, hc⟩
    · exact Or.inr ⟨e', by simp [he'], hq, hc⟩

theorem acceptSet_mem {hdr : Bytes} {c : Coding} (h : (acceptSet hdr).mem c = true) :
    ∃ e ∈ entries hdr, e.q0 = false ∧ e.token = c.label := by
  rcases foldl_acceptStep_mem _ _ _ h with h1 | ⟨e, he, hq, hc⟩
  · rw [mem_empty] at h1; cases h1
  · exact ⟨e, he, hq, codingOfToken_label hc⟩

theorem chooseSet_spec {allowed : List CSet} {acc : CSet} {c : Coding} (h : chooseSet allowed acc = some c) :
    ∃ pre x post, allowed = pre ++ x :: post ∧ x.mem c = true ∧ acc.mem c = true ∧
      ∀ y ∈ pre, ∀ d, (y.mem d && acc.mem d) = false := by
  unfold chooseSet at h
  split at h
  · rename_i x hx
    have hm := pick_mem h
    rw [mem_inter] at hm
    obtain ⟨_, pre, post, rfl, hpre⟩ := List.find?_eq_some_iff_append.mp hx
    refine ⟨pre, x, post, rfl, ?_, ?_, ?_⟩
    · exact (Bool.and_eq_true _ _ ▸ hm).1
    · exact (Bool.and_eq_true _ _ ▸ hm).2
    · intro y hy d
      have := hpre y hy
      simp only [Bool.not_not, CSet.isEmpty, Bool.not_eq_eq_eq_not, Bool.not_true, Bool.or_eq_false_iff] at this
      rw [← mem_inter]
      cases d <;> simp [CSet.mem, this]
  · cases h

/-! ### splitOn, token search -/

theorem splitOn_ne_nil' (sep : UInt8) (s : Bytes) : splitOn sep s ≠ [] := by
  induction s with
  | nil => simp [splitOn]
  | cons x xs ih =>
    unfold splitOn
    split
    · simp
    · split <;> simp

theorem splitOn_append_sep (sep : UInt8) (a w : Bytes) :
    splitOn sep (a ++ sep :: w) = splitOn sep a ++ splitOn sep w := by
  induction a with
  | nil =>
    show splitOn sep (sep :: w) = splitOn sep [] ++ splitOn sep w
    cases hw : splitOn sep w with
    | nil => exact absurd hw (splitOn_ne_nil' _ _)
    | cons p ps => simp [splitOn, hw]
  | cons x a ih =>
    rw [List.cons_append, splitOn, ih]
    cases ha : splitOn sep a with
    | nil => exact absurd ha (splitOn_ne_nil' _ _)
    | cons p ps =>
      rw [splitOn, ha]
      by_cases hx : x = sep <;> simp [hx]

theorem containsToken_append (v : Bytes) :
    containsToken (v ++ comma :: aeName) aeName = true := by
  unfold containsToken
  rw [splitOn_append_sep, List.any_append]
  have : (splitOn comma aeName).any (elemHasToken aeName) = true := by decide
  simp [this]

theorem varyAdjust_hasToken (v : Option Bytes) : containsToken (varyAdjust v) aeName = true := by
  cases v with
  | none => decide
  | some v =>
    show containsToken (if containsToken v aeName = true then v else v ++ comma :: aeName) aeName = true
    by_cases h : containsToken v aeName = true
    · simp [h]
    · simp [h, containsToken_append]

/-! ### ETag suffix, If-None-Match -/

theorem suffixEtag_length (e label : Bytes) (he : e ≠ []) :
    (suffixEtag e label).length = e.length + label.length + 1 := by
  have : e.length ≥ 1 := by
    cases e with
    | nil => exact absurd rfl he
    | cons _ _ => simp
  simp [suffixEtag, List.length_dropLast]
  omega

theorem label_length_inj {c d : Coding} (h : c.label.length = d.label.length) : c = d := by
  cases c <;> cases d <;> first | rfl | (simp [Coding.label] at h)

theorem label_no_nul (c : Coding) : (0 : UInt8) ∉ c.label := by
  cases c <;> decide

/-- strncmp(a, b, n) = 0 for the first n bytes of two strings with a common prefix of length n -/
theorem cstrTake_prefix (p r : Bytes) : cstrTake (p ++ r) p.length = p := by
  simp [cstrTake]

theorem cstrTake_dropLast (e : Bytes) : cstrTake e (e.length - 1) = e.dropLast := by
  unfold cstrTake
  rw [List.take_append_of_le_length (by omega), List.dropLast_eq_take]

theorem inmMatches_suffix (e : Bytes) (c : Coding) (he : e ≠ []) :
    inmMatches e c.label (suffixEtag e c.label) = true := by
  have hlen : e.length ≥ 1 := by
    cases e with
    | nil => exact absurd rfl he
    | cons _ _ => simp
  have hdl : e.dropLast.length = e.length - 1 := by simp
  unfold inmMatches
  simp only [Bool.and_eq_true, beq_iff_eq]
  refine ⟨⟨?_, ?_⟩, ?_⟩
  · rw [cstrTake_dropLast]
    have : suffixEtag e c.label = e.dropLast ++ (dash :: c.label ++ [dquote]) := by simp [suffixEtag]
    rw [this, ← hdl, cstrTake_prefix]
  · have : suffixEtag e c.label ++ [0] = e.dropLast ++ (dash :: (c.label ++ [dquote] ++ [0])) := by
      simp [suffixEtag]
    rw [this, List.getD_eq_getElem?_getD, List.getElem?_append_right (by omega)]
    simp [hdl]
  · have : suffixEtag e c.label = (e.dropLast ++ [dash]) ++ (c.label ++ [dquote]) := by simp [suffixEtag]
    rw [this, List.drop_append_of_le_length (by simp; omega)]
    have h2 : (e.dropLast ++ [dash]).length = e.length := by simp; omega
    rw [List.drop_of_length_le (by omega), List.nil_append, cstrTake_prefix]

/-! ### cache directory -/

theorem fsGet_del (fs : FS) (n m : Name) : fsGet (fsDel fs n) m = if m = n then none else fsGet fs m := by
  induction fs with
  | nil => simp [fsDel, fsGet]
  | cons e fs ih =>
    obtain ⟨k, v⟩ := e
    unfold fsDel at ih ⊢
    by_cases hk : k = n
    · subst hk
      simp only [List.filter_cons, ne_eq, not_true_eq_false, decide_false, Bool.false_eq_true, ↓reduceIte]
      rw [ih]
      by_cases hm : m = k
      · simp [hm]
      · have : ¬ k = m := fun h => hm h.symm
        simp [hm, fsGet, this]
    · simp only [List.filter_cons, ne_eq, hk, not_false_eq_true, decide_true, ↓reduceIte, fsGet]
      rw [ih]
      by_cases hkm : k = m
      · subst hkm; simp [hk]
      · simp [hkm]

theorem fsGet_set (fs : FS) (n m : Name) (b : Bytes) :
    fsGet (fsSet fs n b) m = if m = n then some b else fsGet fs m := by
  unfold fsSet
  rw [fsGet, fsGet_del]
  by_cases h : n = m
  · subst h; simp
  · have : ¬ m = n := fun h' => h h'.symm
    simp [h, this]

/-! ### the cache writer -/

theorem writeAt_take (F : Bytes) (j off m : Nat) (h1 : off ≤ j) (h2 : j ≤ F.length) (h3 : off + m ≤ F.length) :
    writeAt (F.take j) off ((F.drop off).take m) = F.take (max j (off + m)) := by
  apply List.ext_getElem?
  intro i
  have hl1 : ((F.drop off).take m).length = m := by simp; omega
  have hl2 : ((F.take j).take off).length = off := by simp; omega
  unfold writeAt
  simp only [List.getElem?_append, List.length_append, hl1, hl2, List.getElem?_take, List.getElem?_drop]
  by_cases hi1 : i < off
  · have : i < off + m := by omega
    have : i < j := by omega
    have : i < max j (off + m) := by omega
    simp [*]
  · by_cases hi2 : i < off + m
    · have : i < max j (off + m) := by omega
      have e : off + (i - off) = i := by omega
      have : i - off < m := by omega
      simp [*]
    · have e : off + m + (i - (off + m)) = i := by omega
      simp only [hi2, ↓reduceIte, e]
      by_cases hi3 : i < j
      · have : i < max j (off + m) := by omega
        simp [*]
      · have : ¬ i < max j (off + m) := by omega
        simp [*]

theorem take_isPrefix (F : Bytes) (j : Nat) : F.take j <+: F := List.take_prefix j F

/-- with a temporary file that holds a prefix of `F` the writer can only ever leave a prefix of
    `F` behind, and exactly `F` when it completes -/
theorem writeLoop_spec (F : Bytes) (evs : List WEv) :
    ∀ (cur : Bytes) (off j : Nat), off ≤ j → j ≤ F.length → cur = F.take j →
      match writeLoop F cur off evs with
      | .done c => c = F
      | .failed c => c <+: F
      | .crashed c => c <+: F := by
  induction evs with
  | nil =>
    intro cur off j h1 h2 hc
    subst hc
    unfold writeLoop
    have := writeAt_take F j off (F.length - off) h1 h2 (by omega)
    have e : (F.drop off).take (F.length - off) = F.drop off := by
      apply List.take_of_length_le; simp
    rw [e] at this
    simp only [this]
    have : max j (off + (F.length - off)) = F.length := by omega
    rw [this, List.take_length]
  | cons ev evs ih =>
    intro cur off j h1 h2 hc
    subst hc
    unfold writeLoop
    by_cases hoff : off ≥ F.length
    · have : j = F.length := by omega
      subst this
      simp [hoff]
    · simp only [hoff, ↓reduceIte]
      cases ev with
      | wr n =>
        simp only
        have hm : off + min (n + 1) (F.length - off) ≤ F.length := by omega
        rw [writeAt_take F j off _ h1 h2 hm]
        exact ih _ _ (max j (off + min (n + 1) (F.length - off))) (by omega) (by omega) rfl
      | eintr => exact ih _ _ j h1 h2 rfl
      | fail => exact take_isPrefix F j
      | crash => exact take_isPrefix F j

theorem prefix_eq_take {a F : Bytes} (h : a <+: F) : a = F.take a.length := by
  obtain ⟨t, rfl⟩ := h
  simp

/-! ### converse of the scan lemma (used for the preference-order theorem) -/

theorem mem_insert_self (s : CSet) (c : Coding) : (s.insert c).mem c = true := by
  cases c <;> simp [CSet.insert, CSet.mem]

theorem mem_insert_mono {s : CSet} {c d : Coding} (h : s.mem d = true) : (s.insert c).mem d = true := by
  cases c <;> cases d <;> simp_all [CSet.insert, CSet.mem]

theorem acceptStep_mono {s : CSet} {e : Entry} {c : Coding} (h : s.mem c = true) :
    (acceptStep s e).mem c = true := by
  unfold acceptStep
  split
  · exact h
  · split
    · exact mem_insert_mono h
    · exact h

theorem foldl_acceptStep_mono (es : List Entry) (s : CSet) (c : Coding) (h : s.mem c = true) :
    (es.foldl acceptStep s).mem c = true := by
  induction es generalizing s with
  | nil => exact h
  | cons e es ih => exact ih _ (acceptStep_mono h)

theorem codingOfToken_self (c : Coding) : codingOfToken c.label = some c := by
  cases c <;> decide

theorem foldl_acceptStep_of_mem (es : List Entry) (s : CSet) (c : Coding) (e : Entry) (he : e ∈ es)
    (hq : e.q0 = false) (ht : e.token = c.label) : (es.foldl acceptStep s).mem c = true := by
  induction es generalizing s with
  | nil => cases he
  | cons x es ih =>
    rw [List.foldl_cons]
    rcases List.mem_cons.mp he with rfl | h
    · apply foldl_acceptStep_mono
      unfold acceptStep
      simp [hq, ht, codingOfToken_self, mem_insert_self]
    · exact ih _ h

theorem acceptSet_mem_iff (hdr : Bytes) (c : Coding) :
    (acceptSet hdr).mem c = true ↔ ∃ e ∈ entries hdr, e.q0 = false ∧ e.token = c.label :=
  ⟨acceptSet_mem, fun ⟨e, he, hq, ht⟩ => foldl_acceptStep_of_mem _ _ _ e he hq ht⟩

/-! ### invariant of the cache protocol -/

/-- sources are consistent with the validator assumption -/
def SrcOk (contentOf : Nat → Nat → Bytes) (st : St) : Prop :=
  ∀ p v c, st.src p = some (v, c) → c = contentOf p v

/-- every published file is the complete coded form of the version its name states; every
    temporary file holds a prefix of that form -/
def CacheOk (compress : Coding → Bytes → Bytes) (contentOf : Nat → Nat → Bytes) (fs : FS) : Prop :=
  (∀ k b, fsGet fs (.final k) = some b → b = compress k.coding (contentOf k.path k.validator)) ∧
  (∀ k pid b, fsGet fs (.tmp k pid) = some b → b <+: compress k.coding (contentOf k.path k.validator))

/-- what a served body must be -/
def ObsOk (compress : Coding → Bytes → Bytes) (st : St) : Op → Obs → Prop
  | .request p c _ _, .served body _ => ∃ v content, st.src p = some (v, content) ∧ body = compress c content
  | _, _ => True

theorem cacheOk_del {compress contentOf} {fs : FS} (h : CacheOk compress contentOf fs) (n : Name) :
    CacheOk compress contentOf (fsDel fs n) := by
  constructor
  · intro k b hb
    rw [fsGet_del] at hb
    split at hb
    · cases hb
    · exact h.1 k b hb
  · intro k pid b hb
    rw [fsGet_del] at hb
    split at hb
    · cases hb
    · exact h.2 k pid b hb

theorem cacheOk_set_tmp {compress contentOf} {fs : FS} (h : CacheOk compress contentOf fs) (k : Key) (pid : Pid)
    (cur : Bytes) (hc : cur <+: compress k.coding (contentOf k.path k.validator)) :
    CacheOk compress contentOf (fsSet fs (.tmp k pid) cur) := by
  constructor
  · intro k' b hb
    rw [fsGet_set] at hb
    simp only [reduceCtorEq, ↓reduceIte] at hb
    exact h.1 k' b hb
  · intro k' pid' b hb
    rw [fsGet_set] at hb
    split at hb
    · rename_i heq
      cases heq
      cases hb
      exact hc
    · exact h.2 k' pid' b hb

theorem cacheOk_set_final {compress contentOf} {fs : FS} (h : CacheOk compress contentOf fs) (k : Key)
    (cur : Bytes) (hc : cur = compress k.coding (contentOf k.path k.validator)) :
    CacheOk compress contentOf (fsSet fs (.final k) cur) := by
  constructor
  · intro k' b hb
    rw [fsGet_set] at hb
    split at hb
    · rename_i heq
      cases heq
      cases hb
      exact hc
    · exact h.1 k' b hb
  · intro k' pid' b hb
    rw [fsGet_set] at hb
    simp only [reduceCtorEq, ↓reduceIte] at hb
    exact h.2 k' pid' b hb

/-- stat cache entries of published files hold complete coded forms -/
def ScOk (compress : Coding → Bytes → Bytes) (contentOf : Nat → Nat → Bytes) (sc : FS) : Prop :=
  ∀ k b, fsGet sc (.final k) = some b → b = compress k.coding (contentOf k.path k.validator)

theorem scOk_nil (compress contentOf) : ScOk compress contentOf ([] : FS) := by
  intro k b h; simp [fsGet] at h

theorem scOk_set {compress contentOf} {sc : FS} (h : ScOk compress contentOf sc) (k : Key) (b : Bytes)
    (hb : b = compress k.coding (contentOf k.path k.validator)) :
    ScOk compress contentOf (fsSet sc (.final k) b) := by
  intro k' b' hb'
  rw [fsGet_set] at hb'
  split at hb'
  · rename_i heq
    cases heq
    cases hb'
    exact hb
  · exact h k' b' hb'

theorem serve_ok (compress : Coding → Bytes → Bytes) (contentOf : Nat → Nat → Bytes) (st : St)
    (p : Nat) (c : Coding) (pid : Pid) (plan : Plan)
    (hsrc : SrcOk contentOf st) (hfs : CacheOk compress contentOf st.fs) (hsc : ScOk compress contentOf st.sc) :
    SrcOk contentOf (serve compress st p c pid plan).1 ∧
    CacheOk compress contentOf (serve compress st p c pid plan).1.fs ∧
    ScOk compress contentOf (serve compress st p c pid plan).1.sc ∧
    ObsOk compress st (.request p c pid plan) (serve compress st p c pid plan).2 := by
  unfold serve
  cases hs : st.src p with
  | none => exact ⟨hsrc, hfs, hsc, trivial⟩
  | some vc =>
    obtain ⟨v, content⟩ := vc
    have hcontent : content = contentOf p v := hsrc p v content hs
    simp only
    by_cases hca : plan.cacheable = true
    case neg =>
      simp only [hca, Bool.not_false, ↓reduceIte]
      exact ⟨hsrc, hfs, hsc, v, content, hs, rfl⟩
    simp only [hca, Bool.not_true, Bool.false_eq_true, ↓reduceIte]
    cases hheld : fsGet st.sc (Name.final ⟨p, v, c⟩) with
    | some b =>
      simp only
      refine ⟨hsrc, hfs, hsc, v, content, hs, ?_⟩
      rw [hcontent]
      exact hsc ⟨p, v, c⟩ b hheld
    | none =>
    simp only
    cases hget : fsGet st.fs (Name.final ⟨p, v, c⟩) with
    | some b =>
      simp only
      have hb := hfs.1 ⟨p, v, c⟩ b hget
      split
      · exact ⟨hsrc, hfs, hsc, trivial⟩
      · refine ⟨hsrc, hfs, scOk_set hsc _ _ hb, v, content, hs, ?_⟩
        rw [hcontent]
        exact hb
    | none =>
      simp only
      by_cases hop : plan.openOk = true
      case neg =>
        simp only [hop, Bool.not_false, ↓reduceIte]
        exact ⟨hsrc, hfs, hsc, v, content, hs, rfl⟩
      simp only [hop, Bool.not_true, Bool.false_eq_true, ↓reduceIte]
      -- the temporary file holds a prefix of F (or is new)
      have hold : ∃ j, j ≤ (compress c content).length ∧
          (fsGet st.fs (Name.tmp ⟨p, v, c⟩ pid)).getD [] = (compress c content).take j := by
        cases ht : fsGet st.fs (Name.tmp ⟨p, v, c⟩ pid) with
        | none => exact ⟨0, by omega, by simp⟩
        | some b =>
          have hb := hfs.2 ⟨p, v, c⟩ pid b ht
          simp only at hb
          rw [← hcontent] at hb
          exact ⟨b.length, hb.length_le, by simpa using prefix_eq_take hb⟩
      obtain ⟨j, hj, hjeq⟩ := hold
      have hspec := writeLoop_spec (compress c content) plan.writes _ 0 j (by omega) hj hjeq
      have hF : compress c content = compress (Key.mk p v c).coding (contentOf (Key.mk p v c).path (Key.mk p v c).validator) := by
        simp [hcontent]
      cases hw : writeLoop (compress c content) ((fsGet st.fs (Name.tmp ⟨p, v, c⟩ pid)).getD []) 0 plan.writes with
      | failed cur =>
        simp only
        exact ⟨hsrc, cacheOk_del hfs _, hsc, trivial⟩
      | crashed cur =>
        rw [hw] at hspec
        simp only at hspec ⊢
        exact ⟨hsrc, cacheOk_set_tmp hfs _ _ _ (hF ▸ hspec), scOk_nil _ _, trivial⟩
      | done cur =>
        rw [hw] at hspec
        simp only at hspec ⊢
        subst hspec
        cases plan.rename with
        | ok =>
          simp only
          refine ⟨hsrc, cacheOk_set_final (cacheOk_del hfs _) _ _ hF, hsc, v, content, hs, ?_⟩
          simp
        | fail => exact ⟨hsrc, cacheOk_del hfs _, hsc, trivial⟩
        | crashBefore =>
          exact ⟨hsrc, cacheOk_set_tmp hfs _ _ _ (hF ▸ List.prefix_refl _), scOk_nil _ _, trivial⟩
        | crashAfter =>
          exact ⟨hsrc, cacheOk_set_final (cacheOk_del hfs _) _ _ hF, scOk_nil _ _, trivial⟩

theorem enter_src (st : St) (pid : Pid) : (st.enter pid).src = st.src := by
  unfold St.enter; split <;> rfl

theorem enter_fs (st : St) (pid : Pid) : (st.enter pid).fs = st.fs := by
  unfold St.enter; split <;> rfl

theorem enter_scOk {compress contentOf} {st : St} (h : ScOk compress contentOf st.sc) (pid : Pid) :
    ScOk compress contentOf (st.enter pid).sc := by
  unfold St.enter; split
  · exact h
  · exact scOk_nil _ _

theorem doRequest_ok (compress : Coding → Bytes → Bytes) (contentOf : Nat → Nat → Bytes) (st : St)
    (p : Nat) (c : Coding) (pid : Pid) (plan : Plan)
    (hsrc : SrcOk contentOf st) (hfs : CacheOk compress contentOf st.fs) (hsc : ScOk compress contentOf st.sc) :
    SrcOk contentOf (doRequest compress st p c pid plan).1 ∧
    CacheOk compress contentOf (doRequest compress st p c pid plan).1.fs ∧
    ScOk compress contentOf (doRequest compress st p c pid plan).1.sc ∧
    ObsOk compress st (.request p c pid plan) (doRequest compress st p c pid plan).2 := by
  have hsrc' : SrcOk contentOf (st.enter pid) := by
    intro q v x h; rw [enter_src] at h; exact hsrc q v x h
  have := serve_ok compress contentOf (st.enter pid) p c pid plan hsrc' (by rw [enter_fs]; exact hfs)
    (enter_scOk hsc pid)
  refine ⟨this.1, this.2.1, this.2.2.1, ?_⟩
  have hobs := this.2.2.2
  unfold doRequest
  generalize (serve compress (st.enter pid) p c pid plan).2 = obs at hobs ⊢
  cases obs with
  | served body hit =>
    obtain ⟨v, content, hs, hb⟩ := hobs
    rw [enter_src] at hs
    exact ⟨v, content, hs, hb⟩
  | quiet => trivial
  | error => trivial
  | crashed => trivial

theorem step_ok (compress : Coding → Bytes → Bytes) (contentOf : Nat → Nat → Bytes) (st : St) (op : Op)
    (hsrc : SrcOk contentOf st) (hfs : CacheOk compress contentOf st.fs) (hsc : ScOk compress contentOf st.sc)
    (hop : ∀ p v c, op = .modify p v c → c = contentOf p v) :
    SrcOk contentOf (step compress st op).1 ∧
    CacheOk compress contentOf (step compress st op).1.fs ∧
    ScOk compress contentOf (step compress st op).1.sc ∧
    ObsOk compress st op (step compress st op).2 := by
  cases op with
  | modify p v content =>
    refine ⟨?_, hfs, scOk_nil _ _, trivial⟩
    intro q v' c' hq
    simp only [step] at hq
    split at hq
    · cases hq
      rename_i heq
      subst heq
      exact hop _ _ _ rfl
    · exact hsrc q v' c' hq
  | request p c pid plan => exact doRequest_ok compress contentOf st p c pid plan hsrc hfs hsc
  | evict n => exact ⟨hsrc, cacheOk_del hfs n, hsc, trivial⟩
  | tick => exact ⟨hsrc, hfs, scOk_nil _ _, trivial⟩

theorem run_ok (compress : Coding → Bytes → Bytes) (contentOf : Nat → Nat → Bytes) :
    ∀ (ops : List Op) (st : St), SrcOk contentOf st → CacheOk compress contentOf st.fs →
      ScOk compress contentOf st.sc →
      (∀ p v c, Op.modify p v c ∈ ops → c = contentOf p v) →
      ∀ t ∈ run compress st ops,
        SrcOk contentOf t.1 ∧ CacheOk compress contentOf t.1.fs ∧ ObsOk compress t.1 t.2.1 t.2.2 := by
  intro ops
  induction ops with
  | nil => intro st _ _ _ _ t ht; cases ht
  | cons op ops ih =>
    intro st hsrc hfs hsc hops t ht
    have hstep := step_ok compress contentOf st op hsrc hfs hsc
      (fun p v c h => hops p v c (by simp [h]))
    simp only [run, List.mem_cons] at ht
    rcases ht with rfl | ht
    · exact ⟨hsrc, hfs, hstep.2.2.2⟩
    · exact ih _ hstep.1 hstep.2.1 hstep.2.2.1 (fun p v c h => hops p v c (by simp [h])) t ht

theorem exec_ok (compress : Coding → Bytes → Bytes) (contentOf : Nat → Nat → Bytes) :
    ∀ (ops : List Op) (st : St), SrcOk contentOf st → CacheOk compress contentOf st.fs →
      ScOk compress contentOf st.sc →
      (∀ p v c, Op.modify p v c ∈ ops → c = contentOf p v) →
      SrcOk contentOf (exec compress st ops) ∧ CacheOk compress contentOf (exec compress st ops).fs := by
  intro ops
  induction ops with
  | nil => intro st h1 h2 _ _; exact ⟨h1, h2⟩
  | cons op ops ih =>
    intro st hsrc hfs hsc hops
    have hstep := step_ok compress contentOf st op hsrc hfs hsc
      (fun p v c h => hops p v c (by simp [h]))
    exact ih _ hstep.1 hstep.2.1 hstep.2.2.1 (fun p v c h => hops p v c (by simp [h]))

theorem srcOk_init (contentOf : Nat → Nat → Bytes) : SrcOk contentOf {} := by
  intro p v c h; cases h

theorem cacheOk_init (compress contentOf) : CacheOk compress contentOf ([] : FS) := by
  constructor <;> intros <;> simp [fsGet] at *

/-! ### equations for respStart -/

def encodeOut (cfg : Cfg) (rs : Rs) (c : Coding) : RsOut :=
  ⟨.encode c (cacheEligible cfg rs), rs.status,
   (if rs.etag.getD [] ≠ [] then some (suffixEtag (rs.etag.getD []) c.label) else rs.etag),
   some (varyAdjust rs.vary), some c.label, false⟩

theorem selectCoding_some {cfg : Cfg} {rq : Rq} {rs : Rs} {c : Coding} (h : selectCoding cfg rq rs = some c) :
    eligible cfg rq rs = true ∧ negotiate cfg rq = some c := by
  unfold selectCoding at h
  split at h
  · exact ⟨by assumption, h⟩
  · cases h

theorem selectCoding_none {cfg : Cfg} {rq : Rq} {rs : Rs} (h : selectCoding cfg rq rs = none) :
    eligible cfg rq rs = false ∨ negotiate cfg rq = none := by
  unfold selectCoding at h
  split at h
  · exact Or.inr h
  · exact Or.inl (by simpa using ‹¬eligible cfg rq rs = true›)

theorem respStart_ineligible {cfg : Cfg} {rq : Rq} {rs : Rs} (h : eligible cfg rq rs = false) :
    respStart cfg rq rs = ⟨.pass, rs.status, rs.etag, rs.vary, none, rs.hasCL⟩ := by
  unfold respStart; simp [h]

theorem respStart_identity_eq {cfg : Cfg} {rq : Rq} {rs : Rs} (he : eligible cfg rq rs = true)
    (hn : negotiate cfg rq = none) :
    respStart cfg rq rs = ⟨.pass, rs.status, rs.etag, some (varyAdjust rs.vary), none, rs.hasCL⟩ := by
  unfold respStart; simp [he, hn]

theorem respStart_encode_eq {cfg : Cfg} {rq : Rq} {rs : Rs} {c : Coding}
    (h : selectCoding cfg rq rs = some c) (hi : inmHit rq rs c = false) :
    respStart cfg rq rs = encodeOut cfg rs c := by
  obtain ⟨he, hn⟩ := selectCoding_some h
  unfold respStart encodeOut
  simp only [he, hn, hi, Bool.not_true, Bool.false_eq_true, ↓reduceIte]

theorem respStart_inm_eq {cfg : Cfg} {rq : Rq} {rs : Rs} {c : Coding}
    (h : selectCoding cfg rq rs = some c) (hi : inmHit rq rs c = true) :
    respStart cfg rq rs =
      if rq.method = .other then ⟨.precondFailed, 412, rs.etag, some (varyAdjust rs.vary), none, false⟩
      else ⟨.notModified, 304, some (suffixEtag (rs.etag.getD []) c.label), some (varyAdjust rs.vary), none, false⟩ := by
  obtain ⟨he, hn⟩ := selectCoding_some h
  unfold respStart
  simp only [he, hn, hi, Bool.not_true, Bool.false_eq_true, ↓reduceIte]

theorem respStart_verdict_encode {cfg : Cfg} {rq : Rq} {rs : Rs} {c : Coding} {k : Bool}
    (h : (respStart cfg rq rs).verdict = .encode c k) :
    selectCoding cfg rq rs = some c ∧ inmHit rq rs c = false ∧ k = cacheEligible cfg rs := by
  cases hs : selectCoding cfg rq rs with
  | none =>
    rcases selectCoding_none hs with he | hn
    · rw [respStart_ineligible he] at h; cases h
    · cases he : eligible cfg rq rs with
      | false => rw [respStart_ineligible he] at h; cases h
      | true => rw [respStart_identity_eq he hn] at h; cases h
  | some c' =>
    cases hi : inmHit rq rs c' with
    | true =>
      rw [respStart_inm_eq hs hi] at h
      split at h <;> cases h
    | false =>
      rw [respStart_encode_eq hs hi] at h
      simp only [encodeOut, Verdict.encode.injEq] at h
      obtain ⟨rfl, rfl⟩ := h
      exact ⟨rfl, hi, rfl⟩

/-- the gates, read off the model (validated by the `rs` stream; not a property theorem) -/
theorem eligible_gates {cfg : Cfg} {rq : Rq} {rs : Rs} (h : eligible cfg rq rs = true) :
    rs.finished = true ∧ rq.method ≠ .head ∧ rs.hasTE = false ∧ rs.hasCE = false ∧
    200 ≤ rs.status ∧ rs.status ≠ 204 ∧ rs.status ≠ 205 ∧ rs.status ≠ 304 ∧
    cfg.mimetypes ≠ [] ∧ cfg.minSize < rs.len ∧ (cfg.maxSizeKB = 0 ∨ rs.len ≤ cfg.maxSizeKB * 1024) ∧
    mimeOk cfg.mimetypes rs.contentType = true := by
  unfold eligible at h
  split at h
  · cases h
  rename_i h1
  split at h
  · cases h
  rename_i h2
  split at h
  · cases h
  rename_i h3
  split at h
  · cases h
  rename_i h4
  split at h
  · cases h
  rename_i h5
  simp only [Bool.or_eq_true, Bool.not_eq_true', decide_eq_true_eq, not_or, Bool.not_eq_true] at h1 h2
  simp only [Bool.and_eq_true, ne_eq, decide_eq_true_eq, not_and, Nat.not_lt] at h5
  refine ⟨by simpa using h1.1.1.1, h1.1.1.2, h1.1.2, h1.2, by omega, h2.1.1.2, h2.1.2, h2.2, ?_, by omega, ?_, h⟩
  · intro he; simp [he] at h3
  · by_cases hz : cfg.maxSizeKB = 0
    · exact Or.inl hz
    · exact Or.inr (by have := h5 hz; omega)

/-- eligibility does not look at Accept-Encoding or If-None-Match -/
theorem eligible_congr (cfg : Cfg) (rq rq' : Rq) (rs : Rs) (hm : rq.method = rq'.method) :
    eligible cfg rq rs = eligible cfg rq' rs := by
  unfold eligible; rw [hm]

/-! ### cache file names -/

theorem getLast?_append_ne_nil {α : Type} (l l' : List α) (h : l' ≠ []) : (l ++ l').getLast? = l'.getLast? := by
  rw [List.getLast?_append]
  cases hl : l'.getLast? with
  | none => exact absurd (List.getLast?_eq_none_iff.mp hl) h
  | some x => rfl

theorem decDigits_getLast (n : Nat) : ∃ d, (decDigits n).getLast? = some d ∧ isDigit d = true := by
  have key : ∀ k, k < 10 → isDigit (UInt8.ofNat (48 + k)) = true := by
    intro k hk
    have : k = 0 ∨ k = 1 ∨ k = 2 ∨ k = 3 ∨ k = 4 ∨ k = 5 ∨ k = 6 ∨ k = 7 ∨ k = 8 ∨ k = 9 := by omega
    rcases this with rfl | rfl | rfl | rfl | rfl | rfl | rfl | rfl | rfl | rfl <;> decide
  unfold decDigits
  generalize n = fuel at *
  cases fuel with
  | zero => exact ⟨_, by simp [decDigitsAux], key 0 (by omega)⟩
  | succ f =>
    unfold decDigitsAux
    split
    · rename_i h
      exact ⟨_, by simp, key _ h⟩
    · exact ⟨_, by simp, key ((f + 1) % 10) (Nat.mod_lt _ (by omega))⟩

theorem tmpFileName_getLast (fn : Bytes) (pid : Nat) :
    ∃ d, (tmpFileName fn pid).getLast? = some d ∧ isDigit d = true := by
  obtain ⟨d, hd, hdig⟩ := decDigits_getLast pid
  refine ⟨d, ?_, hdig⟩
  unfold tmpFileName
  have hne : decDigits pid ≠ [] := by
    intro h; rw [h] at hd; simp at hd
  rw [getLast?_append_ne_nil _ _ (by simp), List.getLast?_cons_of_ne_nil hne]
  exact hd

theorem etagInner_suffix (e label : Bytes) :
    ∃ z, ((suffixEtag e label).drop 1).dropLast = z ++ label := by
  unfold suffixEtag
  cases h : e.dropLast with
  | nil =>
    refine ⟨[], ?_⟩
    simp
  | cons x p =>
    refine ⟨p ++ [dash], ?_⟩
    have : (x :: p ++ dash :: label ++ [dquote]).drop 1 = (p ++ dash :: label) ++ [dquote] := by simp
    rw [this, List.dropLast_concat]
    simp

theorem cacheFileName_getLast (dir path e : Bytes) (c : Coding) :
    (cacheFileName dir path (suffixEtag e c.label)).getLast? = c.label.getLast? := by
  obtain ⟨z, hz⟩ := etagInner_suffix e c.label
  unfold cacheFileName
  rw [hz]
  have hl : c.label ≠ [] := by cases c <;> simp [Coding.label]
  have : pathJoin dir path ++ dash :: (z ++ c.label) = (pathJoin dir path ++ dash :: z) ++ c.label := by simp
  rw [this, getLast?_append_ne_nil _ _ hl]


/-! ### injectivity of the cache file name (static files) -/

theorem digits_append_inj : ∀ (r1 r2 a b : Bytes), (∀ x ∈ r1, isDigit x = true) → (∀ x ∈ r2, isDigit x = true) →
    r1 ++ dash :: a = r2 ++ dash :: b → r1 = r2 ∧ a = b := by
  intro r1
  induction r1 with
  | nil =>
    intro r2 a b _ h2 h
    cases r2 with
    | nil => simpa using h
    | cons y r2 =>
      simp only [List.nil_append, List.cons_append, List.cons.injEq] at h
      have := h2 y (by simp)
      rw [← h.1] at this
      exact absurd this (by decide)
  | cons x r1 ih =>
    intro r2 a b h1 h2 h
    cases r2 with
    | nil =>
      simp only [List.nil_append, List.cons_append, List.cons.injEq] at h
      have := h1 x (by simp)
      rw [h.1] at this
      exact absurd this (by decide)
    | cons y r2 =>
      simp only [List.cons_append, List.cons.injEq] at h
      obtain ⟨rfl, h⟩ := h
      obtain ⟨rfl, rfl⟩ := ih r2 a b (fun z hz => h1 z (by simp [hz])) (fun z hz => h2 z (by simp [hz])) h
      exact ⟨rfl, rfl⟩

theorem cacheFileName_static (dir p d : Bytes) (c : Coding) :
    cacheFileName dir p (staticEtag d c) = pathJoin dir p ++ dash :: d ++ dash :: c.label := by
  unfold cacheFileName staticEtag
  have : (dquote :: d ++ dash :: c.label ++ [dquote]).drop 1 = (d ++ dash :: c.label) ++ [dquote] := by simp
  rw [this, List.dropLast_concat]
  simp

theorem cacheFileName_static_inj (dir p1 p2 d1 d2 : Bytes) (c1 c2 : Coding)
    (hn1 : d1 ≠ []) (hn2 : d2 ≠ [])
    (hd1 : ∀ x ∈ d1, isDigit x = true) (hd2 : ∀ x ∈ d2, isDigit x = true)
    (h : cacheFileName dir p1 (staticEtag d1 c1) = cacheFileName dir p2 (staticEtag d2 c2)) :
    pathJoin dir p1 = pathJoin dir p2 ∧ d1 = d2 ∧ c1 = c2 := by
  rw [cacheFileName_static, cacheFileName_static] at h
  have hr := congrArg List.reverse h
  simp only [List.reverse_append, List.reverse_cons, List.append_assoc, List.singleton_append] at hr
  -- reversed digit strings are non-empty digit strings
  have hr1 : ∀ x ∈ d1.reverse, isDigit x = true := fun x hx => hd1 x (List.mem_reverse.mp hx)
  have hr2 : ∀ x ∈ d2.reverse, isDigit x = true := fun x hx => hd2 x (List.mem_reverse.mp hx)
  have hne1 : d1.reverse ≠ [] := by simpa using hn1
  have hne2 : d2.reverse ≠ [] := by simpa using hn2
  have hc : c1 = c2 := by
    cases c1 <;> cases c2 <;> first
      | rfl
      | (exfalso
         simp [Coding.label, dash] at hr
         try (
           cases hx : d1.reverse with
           | nil => exact hne1 hx
           | cons x xs =>
             rw [hx] at hr
             simp at hr
             have := hr1 x (by simp [hx])
             rw [hr.1] at this
             exact absurd this (by decide))
         try (
           cases hx : d2.reverse with
           | nil => exact hne2 hx
           | cons x xs =>
             rw [hx] at hr
             simp at hr
             have := hr2 x (by simp [hx])
             rw [← hr.1] at this
             exact absurd this (by decide)))
  subst hc
  have hr' : d1.reverse ++ dash :: (pathJoin dir p1).reverse = d2.reverse ++ dash :: (pathJoin dir p2).reverse := by
    have := List.append_cancel_left hr
    simpa using this
  obtain ⟨h1, h2⟩ := digits_append_inj _ _ _ _ hr1 hr2 hr'
  exact ⟨List.reverse_inj.mp h2, List.reverse_inj.mp h1, rfl⟩


/-! ### listed tokens occur literally in the header -/

theorem splitOn_spec (sep : UInt8) : ∀ (s : Bytes), ∃ p ps, splitOn sep s = p :: ps ∧ p <+: s ∧ ∀ q ∈ ps, q <:+: s := by
  intro s
  induction s with
  | nil => exact ⟨[], [], by simp [splitOn], List.prefix_refl _, by simp⟩
  | cons x xs ih =>
    obtain ⟨p, ps, hs, hp, hps⟩ := ih
    rw [splitOn, hs]
    by_cases hx : x = sep
    · refine ⟨[], p :: ps, by simp [hx], List.nil_prefix, ?_⟩
      intro q hq
      rcases List.mem_cons.mp hq with rfl | hq
      · exact hp.isInfix.trans (List.suffix_cons _ _).isInfix
      · exact (hps q hq).trans (List.suffix_cons _ _).isInfix
    · refine ⟨x :: p, ps, by simp [hx], ?_, ?_⟩
      · exact List.cons_prefix_cons.mpr ⟨rfl, hp⟩
      · intro q hq
        exact (hps q hq).trans (List.suffix_cons _ _).isInfix

theorem splitOn_mem_infix (sep : UInt8) (s t : Bytes) (ht : t ∈ splitOn sep s) : t <:+: s := by
  obtain ⟨p, ps, hs, hp, hps⟩ := splitOn_spec sep s
  rw [hs] at ht
  rcases List.mem_cons.mp ht with rfl | ht
  · exact hp.isInfix
  · exact hps t ht

theorem splitOn_mem_nosep' (sep : UInt8) : ∀ (s t : Bytes), t ∈ splitOn sep s → sep ∉ t := by
  intro s
  induction s with
  | nil => intro t ht; simp [splitOn] at ht; subst ht; simp
  | cons x xs ih =>
    intro t ht
    rw [splitOn] at ht
    cases hs : splitOn sep xs with
    | nil => exact absurd hs (splitOn_ne_nil' _ _)
    | cons p ps =>
      rw [hs] at ht
      have hp := ih p (by simp [hs])
      have hps : ∀ q ∈ ps, sep ∉ q := fun q hq => ih q (by simp [hs, hq])
      by_cases hx : x = sep
      · simp only [hx, ↓reduceIte, List.mem_cons] at ht
        rcases ht with rfl | rfl | ht
        · simp
        · exact hp
        · exact hps t ht
      · simp only [hx, ↓reduceIte, List.mem_cons] at ht
        rcases ht with rfl | ht
        · intro hmem
          rcases List.mem_cons.mp hmem with h | h
          · exact hx h.symm
          · exact hp h
        · exact hps t ht

def tabToSp (b : UInt8) : UInt8 := if b = ht then sp else b

/-- an infix of `map tabToSp s` that contains no space is an infix of `s` itself -/
theorem infix_map_tabToSp (s t : Bytes) (hns : sp ∉ t) (h : t <:+: s.map tabToSp) : t <:+: s := by
  obtain ⟨a, b, hab⟩ := h
  have h1 : s.map tabToSp = (a ++ t) ++ b := by rw [hab]
  obtain ⟨l1, l2, hs, hl1, _⟩ := List.map_eq_append_iff.mp h1
  obtain ⟨l3, l4, hs', _, hl4⟩ := List.map_eq_append_iff.mp hl1
  have : l4 = t := by
    rw [← hl4]
    have hall : ∀ x ∈ l4, tabToSp x = x := by
      intro x hx
      have hx' : tabToSp x ∈ t := by rw [← hl4]; exact List.mem_map_of_mem hx
      unfold tabToSp at hx' ⊢
      split
      · rename_i hxt
        simp [hxt] at hx'
        exact absurd hx' hns
      · rfl
    calc l4 = l4.map id := by simp
      _ = l4.map tabToSp := by
        apply List.map_congr_left
        intro x hx
        exact (hall x hx).symm
  subst this
  exact ⟨l3, l2, by rw [hs, hs']⟩

theorem markLast_token_mem : ∀ (toks : List Bytes) (q : Bool) (e : Entry), e ∈ markLast toks q → e.token ∈ toks := by
  intro toks
  induction toks with
  | nil => intro q e he; simp [markLast] at he
  | cons t ts ih =>
    intro q e he
    cases ts with
    | nil => simp [markLast] at he; subst he; simp
    | cons t2 ts2 =>
      simp only [markLast, List.mem_cons] at he
      rcases he with rfl | he
      · simp
      · have := ih q e (by simpa [List.mem_cons] using he)
        exact List.mem_cons_of_mem _ this

/-- every listed token that contains no white space occurs literally in the header value -/
theorem entries_token_infix (hdr : Bytes) (e : Entry) (he : e ∈ entries hdr) : e.token <:+: hdr := by
  unfold entries at he
  obtain ⟨el, hel, he⟩ := List.mem_flatMap.mp he
  unfold parseElement at he
  have htok := markLast_token_mem _ _ _ he
  obtain ⟨htok, _⟩ := List.mem_filter.mp htok
  have hns : sp ∉ e.token := splitOn_mem_nosep' sp _ _ htok
  have h1 : e.token <:+: (el.takeWhile (· ≠ semi)).map (fun b => if b = B.ht then sp else b) := splitOn_mem_infix sp _ _ htok
  have h2 : e.token <:+: el.takeWhile (· ≠ semi) := infix_map_tabToSp _ _ hns h1
  have h3 : el.takeWhile (· ≠ semi) <:+: el := (List.takeWhile_prefix _).isInfix
  have h4 : el <:+: cstr hdr := splitOn_mem_infix comma _ _ hel
  have h5 : cstr hdr <:+: hdr := (List.takeWhile_prefix _).isInfix
  exact ((h2.trans h3).trans h4).trans h5


/-! ### byte names of the abstract cache objects -/

theorem nondigit_append_inj (sepb : UInt8) (hs : isDigit sepb = false) : ∀ (r1 r2 a b : Bytes),
    (∀ x ∈ r1, isDigit x = true) → (∀ x ∈ r2, isDigit x = true) →
    r1 ++ sepb :: a = r2 ++ sepb :: b → r1 = r2 ∧ a = b := by
  intro r1
  induction r1 with
  | nil =>
    intro r2 a b _ h2 h
    cases r2 with
    | nil => simpa using h
    | cons y r2 =>
      simp only [List.nil_append, List.cons_append, List.cons.injEq] at h
      have := h2 y (by simp)
      rw [← h.1, hs] at this
      cases this
  | cons x r1 ih =>
    intro r2 a b h1 h2 h
    cases r2 with
    | nil =>
      simp only [List.nil_append, List.cons_append, List.cons.injEq] at h
      have := h1 x (by simp)
      rw [h.1, hs] at this
      cases this
    | cons y r2 =>
      simp only [List.cons_append, List.cons.injEq] at h
      obtain ⟨rfl, h⟩ := h
      obtain ⟨rfl, rfl⟩ := ih r2 a b (fun z hz => h1 z (by simp [hz])) (fun z hz => h2 z (by simp [hz])) h
      exact ⟨rfl, rfl⟩

/-! decimal digits -/

def digitsVal (l : Bytes) : Nat := l.foldl (fun acc d => acc * 10 + (d.toNat - 48)) 0

theorem digitsVal_concat (l : Bytes) (d : UInt8) : digitsVal (l ++ [d]) = digitsVal l * 10 + (d.toNat - 48) := by
  simp [digitsVal, List.foldl_append]

theorem ofNat48_toNat (k : Nat) (hk : k < 10) : (UInt8.ofNat (48 + k)).toNat - 48 = k := by
  have : k = 0 ∨ k = 1 ∨ k = 2 ∨ k = 3 ∨ k = 4 ∨ k = 5 ∨ k = 6 ∨ k = 7 ∨ k = 8 ∨ k = 9 := by omega
  rcases this with rfl | rfl | rfl | rfl | rfl | rfl | rfl | rfl | rfl | rfl <;> decide

theorem ofNat48_digit (k : Nat) (hk : k < 10) : isDigit (UInt8.ofNat (48 + k)) = true := by
  have : k = 0 ∨ k = 1 ∨ k = 2 ∨ k = 3 ∨ k = 4 ∨ k = 5 ∨ k = 6 ∨ k = 7 ∨ k = 8 ∨ k = 9 := by omega
  rcases this with rfl | rfl | rfl | rfl | rfl | rfl | rfl | rfl | rfl | rfl <;> decide

theorem decDigitsAux_spec : ∀ (fuel n : Nat), n ≤ fuel →
    digitsVal (decDigitsAux fuel n) = n ∧ decDigitsAux fuel n ≠ [] ∧ ∀ x ∈ decDigitsAux fuel n, isDigit x = true := by
  intro fuel
  induction fuel with
  | zero =>
    intro n hn
    have : n = 0 := by omega
    subst this
    refine ⟨by decide, by simp [decDigitsAux], ?_⟩
    intro x hx
    rw [show decDigitsAux 0 0 = [UInt8.ofNat (48 + 0 % 10)] from rfl, List.mem_singleton] at hx
    subst hx; decide
  | succ fuel ih =>
    intro n hn
    unfold decDigitsAux
    split
    · rename_i h10
      refine ⟨?_, by simp, ?_⟩
      · show (0 * 10 + ((UInt8.ofNat (48 + n)).toNat - 48)) = n
        rw [ofNat48_toNat n h10]; omega
      · intro x hx; rw [List.mem_singleton] at hx; subst hx; exact ofNat48_digit n h10
    · rename_i h10
      obtain ⟨hv, hne, hd⟩ := ih (n / 10) (by omega)
      have hm : n % 10 < 10 := Nat.mod_lt _ (by omega)
      refine ⟨?_, by simp, ?_⟩
      · rw [digitsVal_concat, hv, ofNat48_toNat _ hm]; omega
      · intro x hx
        rcases List.mem_append.mp hx with hx | hx
        · exact hd x hx
        · rw [List.mem_singleton] at hx; subst hx; exact ofNat48_digit _ hm

theorem decDigits_val (n : Nat) : digitsVal (decDigits n) = n := (decDigitsAux_spec n n (Nat.le_refl _)).1
theorem decDigits_ne_nil (n : Nat) : decDigits n ≠ [] := (decDigitsAux_spec n n (Nat.le_refl _)).2.1
theorem decDigits_digits (n : Nat) : ∀ x ∈ decDigits n, isDigit x = true := (decDigitsAux_spec n n (Nat.le_refl _)).2.2
theorem decDigits_inj {m n : Nat} (h : decDigits m = decDigits n) : m = n := by
  rw [← decDigits_val m, ← decDigits_val n, h]

theorem pathJoin_abs (dir p : Bytes) (hd : dir.getLast? ≠ some slash) (hp : p.head? = some slash) :
    pathJoin dir p = dir ++ p := by
  unfold pathJoin; simp [hd, hp]

theorem tmpFileName_inj {fn1 fn2 : Bytes} {p1 p2 : Nat} (h : tmpFileName fn1 p1 = tmpFileName fn2 p2) :
    fn1 = fn2 ∧ p1 = p2 := by
  unfold tmpFileName at h
  have hr := congrArg List.reverse h
  simp only [List.reverse_append, List.reverse_cons, List.append_assoc, List.singleton_append] at hr
  obtain ⟨h1, h2⟩ := nondigit_append_inj dot (by decide) _ _ _ _
    (fun x hx => decDigits_digits p1 x (List.mem_reverse.mp hx))
    (fun x hx => decDigits_digits p2 x (List.mem_reverse.mp hx)) hr
  exact ⟨List.reverse_inj.mp h2, decDigits_inj (List.reverse_inj.mp h1)⟩

theorem staticEtag_eq_suffix (d : Bytes) (c : Coding) :
    staticEtag d c = suffixEtag (dquote :: d ++ [dquote]) c.label := by
  unfold staticEtag suffixEtag
  rw [show (dquote :: d ++ [dquote]) = (dquote :: d) ++ [dquote] from rfl, List.dropLast_concat]

theorem final_key_inj (dir : Bytes) (pathOf : Nat → Bytes) (hd : dir.getLast? ≠ some slash)
    (habs : ∀ p, (pathOf p).head? = some slash) (hinj : ∀ p q, pathOf p = pathOf q → p = q) (k1 k2 : Key)
    (h : cacheFileName dir (pathOf k1.path) (staticEtag (decDigits k1.validator) k1.coding) =
         cacheFileName dir (pathOf k2.path) (staticEtag (decDigits k2.validator) k2.coding)) : k1 = k2 := by
  obtain ⟨hj, hv, hc⟩ := cacheFileName_static_inj dir _ _ _ _ _ _ (decDigits_ne_nil _) (decDigits_ne_nil _)
    (decDigits_digits _) (decDigits_digits _) h
  rw [pathJoin_abs dir _ hd (habs _), pathJoin_abs dir _ hd (habs _)] at hj
  have hp := hinj _ _ (List.append_cancel_left hj)
  obtain ⟨p1, v1, c1⟩ := k1
  obtain ⟨p2, v2, c2⟩ := k2
  simp only at hp hv hc
  rw [hp, decDigits_inj hv, hc]

theorem nameBytes_inj (dir : Bytes) (pathOf : Nat → Bytes) (hd : dir.getLast? ≠ some slash)
    (habs : ∀ p, (pathOf p).head? = some slash) (hinj : ∀ p q, pathOf p = pathOf q → p = q) :
    ∀ n1 n2, nameBytes dir pathOf n1 = nameBytes dir pathOf n2 → n1 = n2 := by
  intro n1 n2 h
  cases n1 with
  | final k1 =>
    cases n2 with
    | final k2 => rw [final_key_inj dir pathOf hd habs hinj k1 k2 h]
    | tmp k2 pid2 =>
      exfalso
      simp only [nameBytes, staticEtag_eq_suffix] at h
      have h1 := tmpFileName_getLast (cacheFileName dir (pathOf k2.path)
        (suffixEtag (dquote :: decDigits k2.validator ++ [dquote]) k2.coding.label)) pid2
      rw [← h, cacheFileName_getLast] at h1
      obtain ⟨d, hd', hdig⟩ := h1
      cases hc : k1.coding <;> simp [hc, Coding.label] at hd' <;> subst hd' <;> simp [isDigit] at hdig
  | tmp k1 pid1 =>
    cases n2 with
    | final k2 =>
      exfalso
      simp only [nameBytes, staticEtag_eq_suffix] at h
      have h1 := tmpFileName_getLast (cacheFileName dir (pathOf k1.path)
        (suffixEtag (dquote :: decDigits k1.validator ++ [dquote]) k1.coding.label)) pid1
      rw [h, cacheFileName_getLast] at h1
      obtain ⟨d, hd', hdig⟩ := h1
      cases hc : k2.coding <;> simp [hc, Coding.label] at hd' <;> subst hd' <;> simp [isDigit] at hdig
    | tmp k2 pid2 =>
      obtain ⟨hf, hp⟩ := tmpFileName_inj h
      rw [final_key_inj dir pathOf hd habs hinj k1 k2 hf, hp]


end LtVerif.Deflate
