/-
  RFC 9110 12.5.3 / 12.4.2 specification of Accept-Encoding values (token list with weights, rendered with
  arbitrary optional white space) and the proof that the scanner of Model/Deflate.lean reads a rendered
  value exactly as the list it came from.
-/
import LtVerif.Proofs.Deflate
namespace LtVerif.Deflate
open LtVerif B

/-! ### RFC 9110 12.5.3 / 12.4.2: Accept-Encoding values rendered from a token list -/

/-- qvalue = ( "0" [ "." 0*3DIGIT ] ) / ( "1" [ "." 0*3("0") ] ) -/
structure QValue where
  one : Bool                       -- "1" (else "0")
  frac : Option (List UInt8)       -- digits after the ".", if the "." is there
deriving DecidableEq, Repr

def QValue.wf (q : QValue) : Prop :=
  match q.frac with
  | none => True
  | some ds => ds.length ≤ 3 ∧ (∀ d ∈ ds, isDigit d = true) ∧ (q.one = true → ∀ d ∈ ds, d = 48)

/-- weight 0 -/
def QValue.isZero (q : QValue) : Bool :=
  !q.one && (match q.frac with | none => true | some ds => ds.all (· = 48))

def QValue.render (q : QValue) : Bytes :=
  (if q.one then 49 else 48) :: (match q.frac with | none => [] | some ds => dot :: ds)

/-- one element: OWS coding [ OWS ";" OWS "q=" qvalue ] OWS -/
structure AEItem where
  pre : Bytes                      -- optional white space
  coding : Bytes                   -- token (or "*")
  weight : Option (Bytes × Bytes × Bool × QValue)   -- OWS before ';', OWS after ';', upper-case 'Q', value
  post : Bytes
deriving DecidableEq, Repr

def isOws (b : Bytes) : Prop := ∀ x ∈ b, x = sp ∨ x = ht

/-- a token never contains a delimiter the scanner looks at (tchar excludes SP HTAB , ; NUL) -/
def isTokenish (t : Bytes) : Prop := t ≠ [] ∧ ∀ x ∈ t, x ≠ sp ∧ x ≠ ht ∧ x ≠ comma ∧ x ≠ semi ∧ x ≠ 0

def AEItem.wf (it : AEItem) : Prop :=
  isOws it.pre ∧ isOws it.post ∧ isTokenish it.coding ∧
  match it.weight with
  | none => True
  | some (o1, o2, _, q) => isOws o1 ∧ isOws o2 ∧ q.wf

def AEItem.render (it : AEItem) : Bytes :=
  it.pre ++ it.coding ++
    (match it.weight with
     | none => []
     | some (o1, o2, up, q) => o1 ++ semi :: (o2 ++ (if up then 81 else 113) :: 61 :: q.render)) ++ it.post

/-- the client refuses the coding of this element (weight 0) -/
def AEItem.refused (it : AEItem) : Bool :=
  match it.weight with
  | none => false
  | some (_, _, _, q) => q.isZero

def renderAE (l : List AEItem) : Bytes := join comma (l.map AEItem.render)

end LtVerif.Deflate

namespace LtVerif.Deflate
open LtVerif B

/-! #### list lemmas -/

theorem splitOn_nosep (sep : UInt8) : ∀ (p : Bytes), sep ∉ p → splitOn sep p = [p] := by
  intro p
  induction p with
  | nil => intro _; simp [splitOn]
  | cons x xs ih =>
    intro h
    have hx : x ≠ sep := fun e => h (by simp [e])
    have hxs : sep ∉ xs := fun e => h (by simp [e])
    rw [splitOn, ih hxs]
    simp [hx]

theorem splitOn_join (sep : UInt8) : ∀ (ps : List Bytes), ps ≠ [] → (∀ p ∈ ps, sep ∉ p) →
    splitOn sep (join sep ps) = ps := by
  intro ps
  induction ps with
  | nil => intro h; exact absurd rfl h
  | cons p ps ih =>
    intro _ h
    cases ps with
    | nil => simpa [join] using splitOn_nosep sep p (h p (by simp))
    | cons q qs =>
      rw [show join sep (p :: q :: qs) = p ++ sep :: join sep (q :: qs) from rfl,
        splitOn_append_sep, splitOn_nosep sep p (h p (by simp)),
        ih (by simp) (fun x hx => h x (by simp [hx]))]
      simp

theorem mem_join (sep : UInt8) : ∀ (ps : List Bytes) (x : UInt8), x ∈ join sep ps → x = sep ∨ ∃ p ∈ ps, x ∈ p := by
  intro ps
  induction ps with
  | nil => intro x h; simp [join] at h
  | cons p ps ih =>
    intro x h
    cases ps with
    | nil => exact Or.inr ⟨p, by simp, by simpa [join] using h⟩
    | cons q qs =>
      rw [show join sep (p :: q :: qs) = p ++ sep :: join sep (q :: qs) from rfl] at h
      rcases List.mem_append.mp h with h | h
      · exact Or.inr ⟨p, by simp, h⟩
      · rcases List.mem_cons.mp h with h | h
        · exact Or.inl h
        · rcases ih x h with h | ⟨p', hp', hx⟩
          · exact Or.inl h
          · exact Or.inr ⟨p', by simp [hp'], hx⟩

theorem takeWhile_of_all {p : UInt8 → Bool} : ∀ (l : Bytes), (∀ x ∈ l, p x = true) → l.takeWhile p = l := by
  intro l
  induction l with
  | nil => intro _; rfl
  | cons x xs ih => intro h; simp [List.takeWhile, h x (by simp), ih (fun y hy => h y (by simp [hy]))]

theorem dropWhile_of_all {p : UInt8 → Bool} : ∀ (l : Bytes), (∀ x ∈ l, p x = true) → l.dropWhile p = [] := by
  intro l
  induction l with
  | nil => intro _; rfl
  | cons x xs ih => intro h; simp [List.dropWhile, h x (by simp), ih (fun y hy => h y (by simp [hy]))]

theorem takeWhile_append_stop {p : UInt8 → Bool} (a : Bytes) (x : UInt8) (b : Bytes)
    (ha : ∀ y ∈ a, p y = true) (hx : p x = false) : (a ++ x :: b).takeWhile p = a := by
  induction a with
  | nil => simp [hx]
  | cons y ys ih =>
    simp [ha y (by simp), ih (fun z hz => ha z (by simp [hz]))]

theorem dropWhile_append_stop {p : UInt8 → Bool} (a : Bytes) (x : UInt8) (b : Bytes)
    (ha : ∀ y ∈ a, p y = true) (hx : p x = false) : (a ++ x :: b).dropWhile p = x :: b := by
  induction a with
  | nil => simp [hx]
  | cons y ys ih =>
    simp [ha y (by simp), ih (fun z hz => ha z (by simp [hz]))]

theorem dropWhile_append_all {p : UInt8 → Bool} (a b : Bytes) (ha : ∀ y ∈ a, p y = true) :
    (a ++ b).dropWhile p = b.dropWhile p := by
  induction a with
  | nil => rfl
  | cons y ys ih => simp [ha y (by simp), ih (fun z hz => ha z (by simp [hz]))]

/-- all pieces of a string of separators are empty -/
theorem splitOn_all_sep (sep : UInt8) : ∀ (b : Bytes), (∀ x ∈ b, x = sep) → ∀ p ∈ splitOn sep b, p = [] := by
  intro b
  induction b with
  | nil => intro _ p hp; simpa [splitOn] using hp
  | cons x xs ih =>
    intro h p hp
    have hx : x = sep := h x (by simp)
    rw [splitOn] at hp
    cases hs : splitOn sep xs with
    | nil => exact absurd hs (splitOn_ne_nil' _ _)
    | cons q qs =>
      rw [hs] at hp
      simp only [hx, ↓reduceIte, List.mem_cons] at hp
      have ih' := ih (fun y hy => h y (by simp [hy]))
      rcases hp with rfl | rfl | hp
      · rfl
      · exact ih' _ (by simp [hs])
      · exact ih' _ (by simp [hs, hp])

theorem filter_ne_nil_of_all_nil (l : List Bytes) (h : ∀ p ∈ l, p = []) :
    l.filter (fun p => decide (p ≠ [])) = [] := by
  induction l with
  | nil => rfl
  | cons p ps ih =>
    have hp : p = [] := h p (by simp)
    have := ih (fun q hq => h q (by simp [hq]))
    rw [List.filter_cons, this]
    simp [hp]

/-- white space, one token, white space: exactly that token is found -/
theorem tokens_padded (a t b : Bytes) (ha : ∀ x ∈ a, x = sp) (hb : ∀ x ∈ b, x = sp) (hns : sp ∉ t) (hne : t ≠ []) :
    (splitOn sp (a ++ t ++ b)).filter (fun p => decide (p ≠ [])) = [t] := by
  induction a with
  | nil =>
    rw [List.nil_append]
    cases b with
    | nil => simp [splitOn_nosep sp t hns, hne]
    | cons y ys =>
      have hy : y = sp := hb y (by simp)
      subst hy
      rw [splitOn_append_sep, splitOn_nosep sp t hns, List.filter_append,
        filter_ne_nil_of_all_nil _ (splitOn_all_sep sp ys (fun z hz => hb z (by simp [hz])))]
      simp [hne]
  | cons y ys ih =>
    have hy : y = sp := ha y (by simp)
    subst hy
    have : sp :: ys ++ t ++ b = [] ++ sp :: (ys ++ t ++ b) := by simp
    rw [this, splitOn_append_sep, List.filter_append, ih (fun z hz => ha z (by simp [hz]))]
    simp [splitOn]

end LtVerif.Deflate

namespace LtVerif.Deflate
open LtVerif B

theorem map_tab_ows (a : Bytes) (h : isOws a) : ∀ x ∈ a.map (fun b => if b = ht then sp else b), x = sp := by
  intro x hx
  obtain ⟨y, hy, rfl⟩ := List.mem_map.mp hx
  rcases h y hy with rfl | rfl <;> simp [sp, ht]

theorem map_tab_token (t : Bytes) (h : ∀ x ∈ t, x ≠ ht) : t.map (fun b => if b = ht then sp else b) = t := by
  induction t with
  | nil => rfl
  | cons x xs ih =>
    simp [h x (by simp), ih (fun y hy => h y (by simp [hy]))]

theorem ows_not (a : Bytes) (h : isOws a) (c : UInt8) (hc : c ≠ sp ∧ c ≠ ht) : c ∉ a := by
  intro hm; rcases h c hm with e | e
  · exact hc.1 e
  · exact hc.2 e

theorem q0Rest_ows (post : Bytes) (hpost : isOws post) : q0Rest post = true := by
  cases post with
  | nil => rfl
  | cons d r =>
    have hd : d = sp ∨ d = ht := hpost d (by simp)
    rcases hd with rfl | rfl <;> simp [q0Rest, q0End, sp, ht, dot]

theorem q0End_zeros (ds post : Bytes) (hpost : isOws post) (hdig : ∀ d ∈ ds, isDigit d = true) :
    q0End ((ds ++ post).dropWhile (· = 48)) = ds.all (· = 48) := by
  induction ds with
  | nil =>
    simp only [List.nil_append, List.all_nil]
    cases post with
    | nil => rfl
    | cons d r =>
      have hd : d = sp ∨ d = ht := hpost d (by simp)
      rcases hd with rfl | rfl <;> simp [q0End, sp, ht]
  | cons d ds ih =>
    by_cases hd : d = 48
    · subst hd
      simpa using ih (fun x hx => hdig x (by simp [hx]))
    · have hdd := hdig d (by simp)
      have h2 : d ≠ sp ∧ d ≠ ht := by
        constructor <;> intro e <;> subst e <;> simp [isDigit, sp, ht] at hdd
      simp [q0End, h2.1, h2.2, hd]

/-- the scanner's reading of the weight parameter is the RFC reading -/
theorem paramIsQ0_render (o2 post : Bytes) (up : Bool) (q : QValue) (ho2 : isOws o2) (hpost : isOws post)
    (hq : q.wf) :
    paramIsQ0 ((o2 ++ (if up then 81 else 113) :: 61 :: q.render) ++ post) = q.isZero := by
  unfold paramIsQ0
  have hws : ∀ y ∈ o2, (fun b => b = sp || b = ht) y = true := by
    intro y hy; rcases ho2 y hy with rfl | rfl <;> simp
  have hc : (fun b => b = sp || b = ht) (if up then (81 : UInt8) else 113) = false := by
    cases up <;> simp [sp, ht]
  rw [List.append_assoc, List.cons_append, dropWhile_append_stop o2 _ _ hws hc]
  obtain ⟨one, frac⟩ := q
  cases one with
  | true =>
    cases up <;> simp [QValue.render, QValue.isZero]
  | false =>
    cases frac with
    | none =>
      cases up <;> simp [QValue.render, QValue.isZero, q0Rest_ows post hpost]
    | some ds =>
      simp only [QValue.wf] at hq
      obtain ⟨_, hdig, _⟩ := hq
      have key := q0End_zeros ds post hpost hdig
      cases up <;> simp [QValue.render, QValue.isZero, q0Rest, key]

theorem parseElement_render (it : AEItem) (h : it.wf) : parseElement it.render = [⟨it.coding, it.refused⟩] := by
  obtain ⟨pre, coding, weight, post⟩ := it
  obtain ⟨hpre, hpost, ⟨hne, htok⟩, hw⟩ := h
  simp only at hpre hpost hne htok hw
  have hcod_ns : ∀ x ∈ coding, (fun x => decide (x ≠ semi)) x = true := by
    intro x hx; simpa using (htok x hx).2.2.2.1
  have hows_ns : ∀ (a : Bytes), isOws a → ∀ x ∈ a, (fun x => decide (x ≠ semi)) x = true := by
    intro a ha x hx
    rcases ha x hx with rfl | rfl <;> simp [sp, ht, semi]
  have hsp : sp ∉ coding := fun hm => (htok sp hm).1 rfl
  have hht : ∀ x ∈ coding, x ≠ ht := fun x hx => (htok x hx).2.1
  cases weight with
  | none =>
    have hall : ∀ x ∈ pre ++ coding ++ post, (fun x => decide (x ≠ semi)) x = true := by
      intro x hx
      simp only [List.mem_append] at hx
      rcases hx with (hx | hx) | hx
      · exact hows_ns pre hpre x hx
      · exact hcod_ns x hx
      · exact hows_ns post hpost x hx
    unfold parseElement AEItem.render AEItem.refused
    simp only [List.append_nil]
    rw [takeWhile_of_all _ hall, dropWhile_of_all _ hall]
    simp only [List.map_append, map_tab_token coding hht]
    rw [tokens_padded _ coding _ (map_tab_ows pre hpre) (map_tab_ows post hpost) hsp hne]
    rfl
  | some w =>
    obtain ⟨o1, o2, up, q⟩ := w
    obtain ⟨ho1, ho2, hq⟩ := hw
    have hall : ∀ x ∈ pre ++ coding ++ o1, (fun x => decide (x ≠ semi)) x = true := by
      intro x hx
      simp only [List.mem_append] at hx
      rcases hx with (hx | hx) | hx
      · exact hows_ns pre hpre x hx
      · exact hcod_ns x hx
      · exact hows_ns o1 ho1 x hx
    have hshape : AEItem.render ⟨pre, coding, some (o1, o2, up, q), post⟩ =
        (pre ++ coding ++ o1) ++ semi :: ((o2 ++ (if up then 81 else 113) :: 61 :: q.render) ++ post) := by
      simp [AEItem.render]
    unfold parseElement AEItem.refused
    rw [hshape, takeWhile_append_stop _ semi _ hall (by simp), dropWhile_append_stop _ semi _ hall (by simp)]
    simp only [List.map_append, map_tab_token coding hht]
    rw [tokens_padded _ coding _ (map_tab_ows pre hpre) (map_tab_ows o1 ho1) hsp hne]
    -- the single parameter
    have hnosemi : semi ∉ (o2 ++ (if up then 81 else 113) :: 61 :: q.render) ++ post := by
      intro hm
      simp only [List.mem_append, List.mem_cons] at hm
      rcases hm with (hm | hm | hm | hm) | hm
      · exact ows_not o2 ho2 semi (by simp [semi, sp, ht]) hm
      · cases up <;> simp [semi] at hm
      · simp [semi] at hm
      · obtain ⟨one, frac⟩ := q
        simp only [QValue.render, List.mem_cons] at hm
        rcases hm with hm | hm
        · cases one <;> simp [semi] at hm
        · cases frac with
          | none => simp at hm
          | some ds =>
            simp only [List.mem_cons] at hm
            rcases hm with hm | hm
            · simp [semi, dot] at hm
            · have := hq.2.1 semi hm
              simp [isDigit, semi] at this
      · exact ows_not post hpost semi (by simp [semi, sp, ht]) hm
    rw [splitOn_nosep semi _ hnosemi]
    simp only [List.any_cons, List.any_nil, Bool.or_false, paramIsQ0_render o2 post up q ho2 hpost hq, markLast]

end LtVerif.Deflate

namespace LtVerif.Deflate
open LtVerif B

theorem render_mem (it : AEItem) (h : it.wf) (x : UInt8) (hx : x ∈ it.render) : x ≠ comma ∧ x ≠ 0 := by
  obtain ⟨pre, coding, weight, post⟩ := it
  obtain ⟨hpre, hpost, ⟨_, htok⟩, hw⟩ := h
  simp only at hpre hpost htok hw
  have hows : ∀ (a : Bytes), isOws a → x ∈ a → x ≠ comma ∧ x ≠ 0 := by
    intro a ha hm; rcases ha x hm with rfl | rfl <;> simp [sp, ht, comma]
  have hdigit : isDigit x = true → x ≠ comma ∧ x ≠ 0 := by
    intro hd; constructor <;> intro e <;> subst e <;> simp [isDigit, comma] at hd
  simp only [AEItem.render, List.mem_append] at hx
  rcases hx with ((hx | hx) | hx) | hx
  · exact hows pre hpre hx
  · exact ⟨(htok x hx).2.2.1, (htok x hx).2.2.2.2⟩
  · cases weight with
    | none => simp at hx
    | some w =>
      obtain ⟨o1, o2, up, q⟩ := w
      obtain ⟨ho1, ho2, hq⟩ := hw
      simp only [List.mem_append, List.mem_cons] at hx
      rcases hx with hx | hx | hx | hx | hx | hx
      · exact hows o1 ho1 hx
      · subst hx; simp [semi, comma]
      · exact hows o2 ho2 hx
      · subst hx; cases up <;> simp [comma]
      · subst hx; simp [comma]
      · obtain ⟨one, frac⟩ := q
        simp only [QValue.render, List.mem_cons] at hx
        rcases hx with hx | hx
        · subst hx; cases one <;> simp [comma]
        · cases frac with
          | none => simp at hx
          | some ds =>
            simp only [List.mem_cons] at hx
            rcases hx with hx | hx
            · subst hx; simp [dot, comma]
            · exact hdigit (hq.2.1 x hx)
  · exact hows post hpost hx

/-- the scanner reads an RFC 9110 Accept-Encoding value exactly as the list it was rendered from:
    one entry per element, with the element's coding and whether its weight is zero -/
theorem entries_renderAE (l : List AEItem) (hl : ∀ it ∈ l, it.wf) :
    entries (renderAE l) = l.map (fun it => ⟨it.coding, it.refused⟩) := by
  cases l with
  | nil => simp [entries, renderAE, join, cstr, splitOn, parseElement, markLast]
  | cons a l =>
    have hnz : ∀ x ∈ renderAE (a :: l), (fun b => decide (b ≠ 0)) x = true := by
      intro x hx
      rcases mem_join comma _ x hx with rfl | ⟨p, hp, hxp⟩
      · simp [comma]
      · obtain ⟨it, hit, rfl⟩ := List.mem_map.mp hp
        simpa using (render_mem it (hl it hit) x hxp).2
    have hnc : ∀ p ∈ (a :: l).map AEItem.render, comma ∉ p := by
      intro p hp hm
      obtain ⟨it, hit, rfl⟩ := List.mem_map.mp hp
      exact (render_mem it (hl it hit) comma hm).1 rfl
    unfold entries cstr
    rw [takeWhile_of_all _ hnz, renderAE, splitOn_join comma _ (by simp) hnc]
    -- one entry per element
    generalize a :: l = l' at hl
    induction l' with
    | nil => rfl
    | cons b l' ih =>
      simp only [List.map_cons, List.flatMap_cons]
      rw [parseElement_render b (hl b (by simp)), ih (fun it hit => hl it (by simp [hit]))]
      rfl

/-- RFC 9110 12.5.3 reading of the header: the coding is explicitly listed with a non-zero weight -/
def listedAcceptable (l : List AEItem) (c : Coding) : Prop :=
  ∃ it ∈ l, it.coding = c.label ∧ it.refused = false

theorem acceptSet_renderAE (l : List AEItem) (hl : ∀ it ∈ l, it.wf) (c : Coding) :
    (acceptSet (renderAE l)).mem c = true ↔ listedAcceptable l c := by
  rw [acceptSet_mem_iff, entries_renderAE l hl]
  constructor
  · rintro ⟨e, he, hq, ht⟩
    obtain ⟨it, hit, rfl⟩ := List.mem_map.mp he
    exact ⟨it, hit, ht, hq⟩
  · rintro ⟨it, hit, ht, hq⟩
    exact ⟨⟨it.coding, it.refused⟩, List.mem_map.mpr ⟨it, hit, rfl⟩, hq, ht⟩

end LtVerif.Deflate
