/-
  The C pointer loop of mod_deflate_choose_encoding (Model/DeflateScan.lean) computes exactly the
  accept set of the specification-style scanner (Model/Deflate.lean: `acceptSet`), for every
  byte string.
-/
import LtVerif.Model.DeflateScan
import LtVerif.Proofs.DeflateRfc
namespace LtVerif.Deflate
namespace Scan
open LtVerif B

/-! ### small facts -/

theorem cunion_empty (a : CSet) : cunion a {} = a := by cases a; simp [cunion]

theorem encOf_nil : encOf [] = {} := by decide

theorem acceptStep_eq (acc : CSet) (tok : Bytes) (q : Bool) :
    acceptStep acc ⟨tok, q⟩ = cunion acc (if q then {} else encOf tok) := by
  cases q
  · simp only [acceptStep, encOf]
    cases codingOfToken tok with
    | none => simp [cunion_empty]
    | some c => cases c <;> cases acc <;> simp [CSet.insert, cunion]
  · simp [acceptStep, cunion_empty]

/-- `R` is empty or starts with a byte on which `pr` is false -/
def Stop (pr : UInt8 → Bool) (R : Bytes) : Prop := R = [] ∨ ∃ h R', R = h :: R' ∧ pr h = false

theorem dropWhile_stop (pr : UInt8 → Bool) (R : Bytes) (h : Stop pr R) : R.dropWhile pr = R := by
  rcases h with rfl | ⟨h, R', rfl, hh⟩ <;> simp [List.dropWhile, *]

theorem takeWhile_stop (pr : UInt8 → Bool) (R : Bytes) (h : Stop pr R) : R.takeWhile pr = [] := by
  rcases h with rfl | ⟨h, R', rfl, hh⟩ <;> simp [List.takeWhile, *]

theorem dw_app (pr : UInt8 → Bool) (p R : Bytes) (h : Stop pr R) :
    (p ++ R).dropWhile pr = p.dropWhile pr ++ R := by
  induction p with
  | nil => simpa using dropWhile_stop pr R h
  | cons x xs ih =>
    by_cases hx : pr x = true
    · simp [List.dropWhile, hx, ih]
    · simp [List.dropWhile, hx]

theorem tw_app (pr : UInt8 → Bool) (p R : Bytes) (h : Stop pr R) :
    (p ++ R).takeWhile pr = p.takeWhile pr := by
  induction p with
  | nil => simpa using takeWhile_stop pr R h
  | cons x xs ih =>
    by_cases hx : pr x = true
    · simp [List.takeWhile, hx, ih]
    · simp [List.takeWhile, hx]

theorem mem_dropWhile {pr : UInt8 → Bool} {l : Bytes} {b : UInt8} (h : b ∈ l.dropWhile pr) : b ∈ l :=
  (List.dropWhile_suffix pr).subset h

theorem stop_dropWhile (pr : UInt8 → Bool) (l : Bytes) : Stop pr (l.dropWhile pr) := by
  induction l with
  | nil => exact Or.inl rfl
  | cons x xs ih =>
    by_cases hx : pr x = true
    · simpa [List.dropWhile, hx] using ih
    · right; exact ⟨x, xs, by simp [List.dropWhile, hx], by simpa using hx⟩

theorem dropWhile_all (pr : UInt8 → Bool) : ∀ l : Bytes, (∀ b ∈ l, pr b = true) → l.dropWhile pr = []
  | [], _ => rfl
  | x :: xs, h => by
    have hx := h x (by simp)
    simp only [List.dropWhile, hx]
    exact dropWhile_all pr xs (fun b hb => h b (by simp [hb]))

/-! ### the weight test -/

/-- no ';' and no ',' -/
def ParB (p : Bytes) : Prop := ∀ b ∈ p, b ≠ semi ∧ b ≠ comma

/-- empty or starts with ';' or ',' -/
def PEnd (R : Bytes) : Prop := R = [] ∨ ∃ h R', R = h :: R' ∧ (h = semi ∨ h = comma)

theorem pend_stop (pr : UInt8 → Bool) (hs : pr semi = false) (hc : pr comma = false) (R : Bytes)
    (h : PEnd R) : Stop pr R := by
  rcases h with rfl | ⟨h, R', rfl, rfl | rfl⟩
  · exact Or.inl rfl
  · exact Or.inr ⟨_, _, rfl, hs⟩
  · exact Or.inr ⟨_, _, rfl, hc⟩

theorem qZeroAt_pend (R : Bytes) (h : PEnd R) : qZeroAt R = false := by
  rcases h with rfl | ⟨h, R', rfl, hh⟩
  · rfl
  · rcases R' with _ | ⟨a, _ | ⟨b, R''⟩⟩ <;> try rfl
    rcases hh with rfl | rfl <;> simp [qZeroAt, semi, comma]

def q0Head : Bytes → Bool
  | q :: e :: z :: rest => (q = 113 || q = 81) && e = 61 && z = 48 && q0Rest rest
  | _ => false

theorem paramIsQ0_head (p : Bytes) : paramIsQ0 p = q0Head (p.dropWhile isWs) := by
  unfold paramIsQ0
  have : (fun b => decide (b = sp) || decide (b = B.ht)) = isWs := by funext b; rfl
  rw [this]
  rcases List.dropWhile isWs p with _ | ⟨q, _ | ⟨e, _ | ⟨z, rest⟩⟩⟩ <;> rfl

theorem qZeroAt_spec (p' R : Bytes) (hp : ParB p') (hR : PEnd R) :
    qZeroAt (p' ++ R) = q0Head p' := by
  rcases p' with _ | ⟨q, _ | ⟨e, _ | ⟨z, rest⟩⟩⟩
  · simpa [q0Head] using qZeroAt_pend R hR
  · rcases hR with rfl | ⟨h, R', rfl, hh⟩
    · rfl
    · rcases R' with _ | ⟨a, R''⟩
      · rfl
      · rcases hh with rfl | rfl <;> simp [qZeroAt, q0Head, semi, comma]
  · rcases hR with rfl | ⟨h, R', rfl, hh⟩
    · rfl
    · rcases hh with rfl | rfl <;> simp [qZeroAt, q0Head, semi, comma]
  · show qZeroAt (q :: e :: z :: (rest ++ R)) = _
    simp only [qZeroAt]
    by_cases hc : ((q = 113 || q = 81) && e = 61 && z = 48) = true
    · rw [if_pos hc]
      simp only [q0Head, hc, Bool.true_and]
      have hrest : ParB rest := fun b hb => hp b (by simp [hb])
      rcases rest with _ | ⟨d, r'⟩
      · -- nothing behind the "0"
        rcases hR with rfl | ⟨h, R', rfl, hh⟩
        · simp [q0Rest]
        · rcases hh with rfl | rfl <;> simp [q0Rest, semi, comma, dot]
      · have hd := hrest d (by simp)
        by_cases hdd : d = dot
        · subst hdd
          have hst : Stop (fun b => b = (48 : UInt8)) R :=
            pend_stop _ (by decide) (by decide) R hR
          simp only [List.cons_append, if_true, q0Rest]
          rw [dw_app _ r' R hst]
          have hsub : ∀ b ∈ r'.dropWhile (fun b => b = (48 : UInt8)), b ≠ semi ∧ b ≠ comma :=
            fun b hb => hrest b (by simp [mem_dropWhile hb])
          rcases hr : r'.dropWhile (fun b => b = (48 : UInt8)) with _ | ⟨c, r''⟩
          · rcases hR with rfl | ⟨h, R', rfl, hh⟩
            · simp [q0End]
            · rcases hh with rfl | rfl <;> simp [q0End]
          · have hc' := hsub c (by simp [hr])
            simp [q0End, hc'.1, hc'.2]
        · simp [q0Rest, hdd, q0End, hd.1, hd.2]
    · rw [if_neg hc]
      simp only [Bool.not_eq_true] at hc
      simp [q0Head, hc]

theorem paramIsQ0_eq (p R : Bytes) (hp : ParB p) (hR : PEnd R) :
    qZeroAt ((p ++ R).dropWhile isWs) = paramIsQ0 p := by
  have hst : Stop isWs R := pend_stop _ (by decide) (by decide) R hR
  rw [dw_app _ p R hst, qZeroAt_spec _ R (fun b hb => hp b (mem_dropWhile hb)) hR, paramIsQ0_head]

/-! ### the parameter loop -/

theorem split_at (c : UInt8) : ∀ l : Bytes, ∃ p rest, l = p ++ rest ∧ (∀ b ∈ p, b ≠ c) ∧
    (rest = [] ∨ ∃ r', rest = c :: r')
  | [] => ⟨[], [], rfl, by simp, Or.inl rfl⟩
  | x :: xs => by
    by_cases hx : x = c
    · exact ⟨[], x :: xs, rfl, by simp, Or.inr ⟨xs, by rw [hx]⟩⟩
    · obtain ⟨p, rest, h1, h2, h3⟩ := split_at c xs
      refine ⟨x :: p, rest, by simp [h1], ?_, h3⟩
      intro b hb
      rcases List.mem_cons.1 hb with rfl | hb
      · exact hx
      · exact h2 b hb

/-- empty or starts with ',' -/
def CTail (tail : Bytes) : Prop := tail = [] ∨ ∃ s', tail = comma :: s'

theorem paramLoop_done (fuel : Nat) (enc : CSet) (tail : Bytes) (h : CTail tail) :
    paramLoop fuel enc tail = (enc, tail) := by
  rcases h with rfl | ⟨s', rfl⟩
  · cases fuel <;> simp [paramLoop]
  · cases fuel <;> simp [paramLoop, comma, semi]

theorem paramLoop_spec : ∀ (fuel : Nat) (ps tail : Bytes) (enc : CSet),
    (∀ b ∈ ps, b ≠ comma) → CTail tail → ps.length < fuel →
    paramLoop fuel enc (semi :: (ps ++ tail)) =
      (if (splitOn semi ps).any paramIsQ0 then {} else enc, tail) := by
  intro fuel
  induction fuel with
  | zero => intro ps tail enc _ _ h; omega
  | succ fuel ih =>
    intro ps tail enc hps htail hlen
    obtain ⟨p, rest, rfl, hp, hrest⟩ := split_at semi ps
    have hpB : ParB p := fun b hb => ⟨hp b hb, hps b (by simp [hb])⟩
    have hR : PEnd (rest ++ tail) := by
      rcases hrest with rfl | ⟨ps', rfl⟩
      · rcases htail with rfl | ⟨s', rfl⟩
        · exact Or.inl rfl
        · exact Or.inr ⟨comma, s', rfl, Or.inr rfl⟩
      · exact Or.inr ⟨semi, ps' ++ tail, rfl, Or.inl rfl⟩
    have hq : qZeroAt ((p ++ (rest ++ tail)).dropWhile isWs) = paramIsQ0 p := paramIsQ0_eq p _ hpB hR
    have hd : ((p ++ (rest ++ tail)).dropWhile isWs).dropWhile (fun b => !isParamEnd b) = rest ++ tail := by
      rw [dw_app _ p _ (pend_stop isWs (by decide) (by decide) _ hR),
          dw_app _ _ _ (pend_stop (fun b => !isParamEnd b) (by decide) (by decide) _ hR)]
      have : (p.dropWhile isWs).dropWhile (fun b => !isParamEnd b) = [] := by
        apply dropWhile_all
        intro b hb
        have := hpB b (mem_dropWhile hb)
        simp [isParamEnd, this.1, this.2]
      simp [this]
    have hstep : paramLoop (fuel + 1) enc (semi :: (p ++ rest ++ tail)) =
        paramLoop fuel (if paramIsQ0 p then {} else enc) (rest ++ tail) := by
      rw [List.append_assoc]
      simp only [paramLoop, if_true, hq, hd]
    rw [hstep]
    rcases hrest with rfl | ⟨ps', rfl⟩
    · have hns : semi ∉ p := fun hm => hp semi hm rfl
      simp only [List.append_nil, List.nil_append, splitOn_nosep semi p hns, List.any_cons, List.any_nil,
        Bool.or_false]
      exact paramLoop_done fuel _ tail htail
    · have hns : semi ∉ p := fun hm => hp semi hm rfl
      have hlen' : ps'.length < fuel := by simp at hlen; omega
      have hps' : ∀ b ∈ ps', b ≠ comma := fun b hb => hps b (by simp [hb])
      rw [List.cons_append, ih ps' tail _ hps' htail hlen', splitOn_append_sep, splitOn_nosep semi p hns]
      simp only [List.cons_append, List.nil_append, List.any_cons]
      by_cases h1 : paramIsQ0 p = true <;> by_cases h2 : (splitOn semi ps').any paramIsQ0 = true <;>
        simp [h1, h2]

/-! ### the element parser on a token followed by whitespace -/

def toksOf (h : Bytes) : List Bytes :=
  (splitOn sp (h.map fun b => if b = B.ht then sp else b)).filter (· ≠ [])

def q0Of (e : Bytes) : Bool :=
  match e.dropWhile (· ≠ semi) with
  | [] => false
  | _ :: ps => (splitOn semi ps).any paramIsQ0

theorem parseElement_eq (e : Bytes) :
    parseElement e = markLast (toksOf (e.takeWhile (· ≠ semi))) (q0Of e) := rfl

def TokB (t : Bytes) : Prop := ∀ b ∈ t, isTokEnd b = false
def WsB (w : Bytes) : Prop := ∀ b ∈ w, isWs b = true

theorem tokEnd_false {b : UInt8} (h : isTokEnd b = false) :
    b ≠ sp ∧ b ≠ B.ht ∧ b ≠ comma ∧ b ≠ semi := by
  refine ⟨?_, ?_, ?_, ?_⟩ <;> (rintro rfl; exact absurd h (by decide))

theorem ws_cases {w : UInt8} (hw : isWs w = true) : w = sp ∨ w = B.ht := by
  simpa [isWs] using hw

theorem ws_ne_semi {w : UInt8} (hw : isWs w = true) : w ≠ semi := by
  rcases ws_cases hw with rfl | rfl <;> decide

theorem splitOn_cons_sep (sep : UInt8) (m : Bytes) : splitOn sep (sep :: m) = [] :: splitOn sep m := by
  simpa [splitOn] using splitOn_append_sep sep [] m

theorem fws {w : UInt8} (hw : isWs w = true) : (if w = B.ht then sp else w) = sp := by
  rcases ws_cases hw with rfl | rfl
  · decide
  · simp

theorem toksOf_ws (w : UInt8) (h : Bytes) (hw : isWs w = true) : toksOf (w :: h) = toksOf h := by
  simp only [toksOf, List.map_cons, fws hw, splitOn_cons_sep]
  simp

theorem toksOf_wss : ∀ (wss h : Bytes), WsB wss → toksOf (wss ++ h) = toksOf h
  | [], _, _ => rfl
  | w :: wss, h, hw => by
    rw [List.cons_append, toksOf_ws w _ (hw w (by simp))]
    exact toksOf_wss wss h (fun b hb => hw b (by simp [hb]))

theorem map_tok : ∀ (t : Bytes), TokB t → t.map (fun b => if b = B.ht then sp else b) = t
  | [], _ => rfl
  | x :: xs, h => by
    have hx := (tokEnd_false (h x (by simp))).2.1
    simp only [List.map_cons, if_neg hx]
    rw [map_tok xs (fun b hb => h b (by simp [hb]))]

theorem toksOf_nil : toksOf [] = [] := by decide

theorem toksOf_tok (t h : Bytes) (ht' : TokB t) (hne : t ≠ []) (hh : Stop (fun b => !isWs b) h) :
    toksOf (t ++ h) = t :: toksOf h := by
  have hsp : sp ∉ t := fun hm => (tokEnd_false (ht' sp hm)).1 rfl
  rcases hh with rfl | ⟨w, h', rfl, hw⟩
  · simp only [List.append_nil, toksOf, map_tok t ht', List.map_nil]
    rw [splitOn_nosep sp t hsp]
    simp [splitOn, hne]
  · have hw' : isWs w = true := by simpa using hw
    rw [toksOf_ws w h' hw']
    simp only [toksOf, List.map_append, map_tok t ht', List.map_cons, fws hw']
    rw [splitOn_append_sep, splitOn_nosep sp t hsp]
    simp [hne]

theorem toksOf_cons_ne_nil (c : UInt8) (y : Bytes) (hc : isWs c = false) : toksOf (c :: y) ≠ [] := by
  have h1 : c ≠ sp := by rintro rfl; exact absurd hc (by decide)
  have h2 : c ≠ B.ht := by rintro rfl; exact absurd hc (by decide)
  simp only [toksOf, List.map_cons, if_neg h2]
  unfold splitOn
  cases hm : splitOn sp (y.map fun b => if b = B.ht then sp else b) with
  | nil => exact absurd hm (splitOn_ne_nil' _ _)
  | cons p ps => simp [h1]

theorem tw_pre (pr : UInt8 → Bool) : ∀ (pre x : Bytes), (∀ b ∈ pre, pr b = true) →
    (pre ++ x).takeWhile pr = pre ++ x.takeWhile pr
  | [], _, _ => rfl
  | a :: pre, x, h => by
    have ha := h a (by simp)
    simp only [List.cons_append, List.takeWhile, ha]
    rw [tw_pre pr pre x (fun b hb => h b (by simp [hb]))]

theorem dw_pre (pr : UInt8 → Bool) : ∀ (pre x : Bytes), (∀ b ∈ pre, pr b = true) →
    (pre ++ x).dropWhile pr = x.dropWhile pr
  | [], _, _ => rfl
  | a :: pre, x, h => by
    have ha := h a (by simp)
    simp only [List.cons_append, List.dropWhile, ha]
    exact dw_pre pr pre x (fun b hb => h b (by simp [hb]))

theorem markLast_cons_ne (t : Bytes) (l : List Bytes) (q : Bool) (h : l ≠ []) :
    markLast (t :: l) q = ⟨t, false⟩ :: markLast l q := by
  cases l with
  | nil => exact absurd rfl h
  | cons a l => rfl

theorem pe_gen (t wss x : Bytes) (ht' : TokB t) (hne : t ≠ []) (hws : WsB wss)
    (hx : wss = [] → Stop (fun b => decide (b ≠ semi)) x) :
    parseElement (t ++ wss ++ x) = markLast (t :: toksOf (x.takeWhile (· ≠ semi))) (q0Of x) := by
  have hpre : ∀ b ∈ t ++ wss, (fun b => decide (b ≠ semi)) b = true := by
    intro b hb
    rcases List.mem_append.1 hb with hb | hb
    · simpa using (tokEnd_false (ht' b hb)).2.2.2
    · simpa using ws_ne_semi (hws b hb)
  rw [parseElement_eq]
  have h1 : (t ++ wss ++ x).takeWhile (· ≠ semi) = t ++ (wss ++ x.takeWhile (· ≠ semi)) := by
    rw [tw_pre _ (t ++ wss) x hpre, List.append_assoc]
  have h2 : q0Of (t ++ wss ++ x) = q0Of x := by
    unfold q0Of
    rw [dw_pre _ (t ++ wss) x hpre]
  rw [h1, h2]
  congr 1
  cases wss with
  | nil =>
    have := takeWhile_stop _ x (hx rfl)
    rw [this]
    simpa using toksOf_tok t [] ht' hne (Or.inl rfl)
  | cons w wss' =>
    rw [toksOf_tok t _ ht' hne (Or.inr ⟨w, _, List.cons_append, by simp [hws w (by simp)]⟩)]
    rw [toksOf_wss (w :: wss') _ hws]

theorem pe_semi0 (ps : Bytes) : parseElement (semi :: ps) = [] := by
  rw [parseElement_eq]
  simp [List.takeWhile, toksOf_nil, markLast]

theorem q0Of_semi (ps : Bytes) : q0Of (semi :: ps) = (splitOn semi ps).any paramIsQ0 := by
  simp [q0Of, List.dropWhile]

theorem pe_ws (w : UInt8) (e : Bytes) (hw : isWs w = true) : parseElement (w :: e) = parseElement e := by
  have hne : decide (w ≠ semi) = true := by simpa using ws_ne_semi hw
  rw [parseElement_eq, parseElement_eq]
  simp only [List.takeWhile, hne, toksOf_ws w _ hw, q0Of, List.dropWhile]

/-! ### the whole value -/

def ents (s : Bytes) : List Entry := (splitOn comma s).flatMap parseElement
def G (acc : CSet) (s : Bytes) : CSet := (ents s).foldl acceptStep acc

theorem pe_nil : parseElement [] = [] := by decide

theorem ents_nocomma (e : Bytes) (he : ∀ b ∈ e, b ≠ comma) : ents e = parseElement e := by
  have : comma ∉ e := fun hm => he comma hm rfl
  simp [ents, splitOn_nosep comma e this]

theorem ents_comma (e s' : Bytes) (he : ∀ b ∈ e, b ≠ comma) :
    ents (e ++ comma :: s') = parseElement e ++ ents s' := by
  have : comma ∉ e := fun hm => he comma hm rfl
  simp [ents, splitOn_append_sep, splitOn_nosep comma e this]

theorem G_nil (acc : CSet) : G acc [] = acc := by simp [G, ents, splitOn, pe_nil]

theorem G_comma (acc : CSet) (s' : Bytes) : G acc (comma :: s') = G acc s' := by
  have := ents_comma [] s' (by simp)
  simp only [List.nil_append, pe_nil] at this
  simp [G, this]

theorem G_split (acc : CSet) (e tail : Bytes) (he : ∀ b ∈ e, b ≠ comma) (ht : CTail tail) :
    G acc (e ++ tail) = G ((parseElement e).foldl acceptStep acc) tail := by
  rcases ht with rfl | ⟨s', rfl⟩
  · have h0 : ents [] = [] := by simp [ents, splitOn, pe_nil]
    simp [G, ents_nocomma e he, h0]
  · rw [G_comma]; simp [G, ents_comma e s' he, List.foldl_append]

theorem ws_ne_comma {w : UInt8} (hw : isWs w = true) : w ≠ comma := by
  rcases ws_cases hw with rfl | rfl <;> decide

theorem G_ws (acc : CSet) (w : UInt8) (s : Bytes) (hw : isWs w = true) : G acc (w :: s) = G acc s := by
  obtain ⟨e, tail, rfl, he, ht⟩ := split_at comma s
  have he' : ∀ b ∈ w :: e, b ≠ comma := by
    intro b hb
    rcases List.mem_cons.1 hb with rfl | hb
    · exact ws_ne_comma hw
    · exact he b hb
  rw [← List.cons_append, G_split acc (w :: e) tail he' ht, pe_ws w e hw, ← G_split acc e tail he ht]

theorem G_dropSep (acc : CSet) : ∀ s : Bytes, G acc s = G acc (s.dropWhile isSep)
  | [] => rfl
  | c :: s => by
    by_cases hc : isSep c = true
    · simp only [List.dropWhile, hc]
      rw [← G_dropSep acc s]
      by_cases hcc : c = comma
      · subst hcc; exact G_comma acc s
      · have : isWs c = true := by
          simp only [isSep, Bool.or_eq_true, decide_eq_true_eq] at hc
          rcases hc with (h | h) | h
          · simp [isWs, h]
          · simp [isWs, h]
          · exact absurd h hcc
        exact G_ws acc c s this
    · simp [List.dropWhile, hc]

theorem paramLoop_nosemi (fuel : Nat) (enc : CSet) (c : UInt8) (r : Bytes) (h : c ≠ semi) :
    paramLoop fuel enc (c :: r) = (enc, c :: r) := by
  cases fuel <;> simp [paramLoop, h]

theorem stop_head {pr : UInt8 → Bool} {c : UInt8} {r : Bytes} (h : Stop pr (c :: r)) : pr c = false := by
  rcases h with h | ⟨h, R', heq, hh⟩
  · exact absurd h (by simp)
  · simp only [List.cons.injEq] at heq
    rw [heq.1]; exact hh

theorem nocomma3 (t wss x : Bytes) (hTok : TokB t) (hws : WsB wss) (hx : ∀ b ∈ x, b ≠ comma) :
    ∀ b ∈ t ++ wss ++ x, b ≠ comma := by
  intro b hb
  rcases List.mem_append.1 hb with hb | hb
  · rcases List.mem_append.1 hb with hb | hb
    · exact (tokEnd_false (hTok b hb)).2.2.1
    · exact ws_ne_comma (hws b hb)
  · exact hx b hb

theorem iter_core (acc : CSet) (t wss v2 : Bytes) (hTok : TokB t) (hws : WsB wss)
    (hv : Stop isSep (t ++ (wss ++ v2))) (hs2 : Stop (fun b => !isTokEnd b) (wss ++ v2))
    (hv2 : Stop isWs v2) :
    G acc (t ++ (wss ++ v2)) =
        G (cunion acc (paramLoop v2.length (encOf t) v2).1) (paramLoop v2.length (encOf t) v2).2
    ∧ (paramLoop v2.length (encOf t) v2).2.length ≤ v2.length
    ∧ (t = [] → v2 ≠ [] → (paramLoop v2.length (encOf t) v2).2.length < v2.length) := by
  obtain ⟨x, tail, rfl, hxc, htail⟩ := split_at comma v2
  by_cases ht0 : t = []
  · subst ht0
    have hwss : wss = [] := by
      cases wss with
      | nil => rfl
      | cons w wss' =>
        have h1 : isSep w = false := stop_head (by simpa using hv)
        have h2 := hws w (by simp)
        rcases ws_cases h2 with rfl | rfl <;> exact absurd h1 (by decide)
    subst hwss
    simp only [List.nil_append] at hv hs2 ⊢
    cases x with
    | nil =>
      rcases htail with rfl | ⟨s', rfl⟩
      · simp [paramLoop, encOf_nil, cunion_empty]
      · exact absurd (stop_head (by simpa using hv)) (by decide)
    | cons c0 x' =>
      have hc0 : c0 = semi := by
        have h1 : isSep c0 = false := stop_head (by simpa using hv)
        have h2 : (!isTokEnd c0) = false := stop_head (by simpa using hs2)
        simp only [isSep, Bool.or_eq_false_iff, decide_eq_false_iff_not] at h1
        simp only [isTokEnd, Bool.not_eq_false', Bool.or_eq_true, decide_eq_true_eq] at h2
        rcases h2 with ((h | h) | h) | h
        · exact absurd h h1.1.1
        · exact absurd h h1.1.2
        · exact absurd h h1.2
        · exact h
      subst hc0
      have hx' : ∀ b ∈ x', b ≠ comma := fun b hb => hxc b (by simp [hb])
      have hpl := paramLoop_spec (semi :: (x' ++ tail)).length x' tail (encOf []) hx' htail (by simp; omega)
      rw [List.cons_append, hpl]
      refine ⟨?_, by simp; omega, fun _ _ => by simp; omega⟩
      rw [← List.cons_append, G_split acc (semi :: x') tail hxc htail, pe_semi0]
      simp only [encOf_nil, ite_self, cunion_empty, List.foldl_nil]
  · have hte : ∀ b ∈ t ++ wss, b ≠ comma := by
      simpa using nocomma3 t wss [] hTok hws (by simp)
    cases x with
    | nil =>
      simp only [List.nil_append]
      rw [paramLoop_done _ _ tail htail]
      refine ⟨?_, Nat.le_refl _, fun h => absurd h ht0⟩
      have hpe := pe_gen t wss [] hTok ht0 hws (fun _ => Or.inl rfl)
      simp only [List.append_nil] at hpe
      rw [← List.append_assoc, G_split acc (t ++ wss) tail hte htail, hpe]
      simp [List.takeWhile, toksOf_nil, markLast, q0Of, acceptStep_eq]
    | cons c0 x' =>
      by_cases hc0 : c0 = semi
      · subst hc0
        have hx' : ∀ b ∈ x', b ≠ comma := fun b hb => hxc b (by simp [hb])
        have hpl := paramLoop_spec (semi :: (x' ++ tail)).length x' tail (encOf t) hx' htail (by simp; omega)
        rw [List.cons_append, hpl]
        refine ⟨?_, by simp; omega, fun h => absurd h ht0⟩
        have e : t ++ (wss ++ semi :: (x' ++ tail)) = (t ++ wss ++ semi :: x') ++ tail := by simp
        rw [e, G_split acc _ tail (nocomma3 t wss _ hTok hws hxc) htail,
          pe_gen t wss (semi :: x') hTok ht0 hws (fun _ => Or.inr ⟨semi, x', rfl, by simp⟩)]
        simp [List.takeWhile, toksOf_nil, markLast, q0Of_semi, acceptStep_eq]
      · rw [List.cons_append, paramLoop_nosemi _ _ c0 _ hc0]
        refine ⟨?_, Nat.le_refl _, fun h => absurd h ht0⟩
        have hc0ws : isWs c0 = false := stop_head (by simpa using hv2)
        have hc0c : c0 ≠ comma := hxc c0 (by simp)
        have hwne : wss ≠ [] := by
          rintro rfl
          have h2 : (!isTokEnd c0) = false := stop_head (by simpa using hs2)
          simp only [isWs, Bool.or_eq_false_iff, decide_eq_false_iff_not] at hc0ws
          simp only [isTokEnd, Bool.not_eq_false', Bool.or_eq_true, decide_eq_true_eq] at h2
          rcases h2 with ((h | h) | h) | h
          · exact hc0ws.1 h
          · exact hc0ws.2 h
          · exact hc0c h
          · exact hc0 h
        have e : t ++ (wss ++ c0 :: (x' ++ tail)) = (t ++ wss ++ c0 :: x') ++ tail := by simp
        have hne : decide (c0 ≠ semi) = true := by simpa using hc0
        have htk : toksOf ((c0 :: x').takeWhile (· ≠ semi)) ≠ [] := by
          simp only [List.takeWhile, hne]
          exact toksOf_cons_ne_nil c0 _ hc0ws
        rw [e, G_split acc _ tail (nocomma3 t wss _ hTok hws hxc) htail,
          pe_gen t wss (c0 :: x') hTok ht0 hws (fun h => absurd h hwne),
          markLast_cons_ne _ _ _ htk, ← parseElement_eq, List.foldl_cons,
          ← G_split _ (c0 :: x') tail hxc htail, acceptStep_eq]
        simp

theorem dw_len (pr : UInt8 → Bool) (l : Bytes) : (l.dropWhile pr).length ≤ l.length :=
  (List.dropWhile_suffix pr).length_le

theorem mem_takeWhile' {pr : UInt8 → Bool} : ∀ {l : Bytes} {b : UInt8}, b ∈ l.takeWhile pr → pr b = true
  | [], _, h => by simp at h
  | x :: xs, b, h => by
    by_cases hx : pr x = true
    · simp only [List.takeWhile, hx] at h
      rcases List.mem_cons.1 h with rfl | h
      · exact hx
      · exact mem_takeWhile' h
    · simp [List.takeWhile, hx] at h

theorem scanLoop_spec : ∀ (fuel : Nat) (s : Bytes) (acc : CSet), s.length ≤ fuel →
    scanLoop fuel acc s = G acc s := by
  intro fuel
  induction fuel with
  | zero =>
    intro s acc h
    have : s = [] := List.length_eq_zero_iff.1 (by omega)
    subst this; simp [scanLoop, G_nil]
  | succ fuel ih =>
    intro s acc h
    cases s with
    | nil => simp [scanLoop, G_nil]
    | cons c rest =>
      simp only [scanLoop]
      generalize hvdef : (c :: rest).dropWhile isSep = v
      have hvstop : Stop isSep v := hvdef ▸ stop_dropWhile isSep (c :: rest)
      have hvlen : v.length ≤ (c :: rest).length := hvdef ▸ dw_len isSep _
      rw [G_dropSep acc (c :: rest), hvdef]
      generalize htdef : v.takeWhile (fun b => !isTokEnd b) = t
      generalize hs2def : v.dropWhile (fun b => !isTokEnd b) = s2
      generalize hv2def : s2.dropWhile isWs = v2
      have e1 : v = t ++ (s2.takeWhile isWs ++ v2) := by
        rw [← htdef, ← hv2def, List.takeWhile_append_dropWhile, ← hs2def, List.takeWhile_append_dropWhile]
      have hTok : TokB t := fun b hb => by
        rw [← htdef] at hb
        simpa using mem_takeWhile' hb
      have hws : WsB (s2.takeWhile isWs) := fun b hb => mem_takeWhile' hb
      have hs2 : Stop (fun b => !isTokEnd b) (s2.takeWhile isWs ++ v2) := by
        rw [← hv2def, List.takeWhile_append_dropWhile, ← hs2def]; exact stop_dropWhile _ v
      have hv2 : Stop isWs v2 := hv2def ▸ stop_dropWhile _ s2
      obtain ⟨h1, h2, h3⟩ := iter_core acc t (s2.takeWhile isWs) v2 hTok hws (e1 ▸ hvstop) hs2 hv2
      rw [← e1] at h1
      have hl : v.length = t.length + ((s2.takeWhile isWs).length + v2.length) := by
        have := congrArg List.length e1
        simpa using this
      have hlen : (paramLoop v2.length (encOf t) v2).2.length ≤ fuel := by
        simp only [List.length_cons] at hvlen h
        by_cases ht0 : t = []
        · by_cases hv20 : v2 = []
          · subst hv20
            have h2' : (paramLoop ([] : Bytes).length (encOf t) []).2.length ≤ 0 := h2
            omega
          · have := h3 ht0 hv20; omega
        · have : 0 < t.length := List.length_pos_iff.2 ht0
          omega
      rw [ih _ _ hlen, h1]

/-- the C pointer loop computes the accept set of the specification-style scanner -/
theorem scanC_eq_acceptSet (hdr : Bytes) : scanC hdr = acceptSet hdr := by
  unfold scanC acceptSet
  exact scanLoop_spec _ _ _ (Nat.le_succ _)

theorem chooseEncodingC_eq (allowed : List CSet) (hdr : Bytes) :
    chooseEncodingC allowed hdr = chooseEncoding allowed hdr := by
  unfold chooseEncodingC chooseEncoding
  rw [scanC_eq_acceptSet]

end Scan
end LtVerif.Deflate
