/-
  Helper lemmas for the stream-assembly part of C19 (Model/DeflateStream.lean).
-/
import LtVerif.Model.DeflateStream
namespace LtVerif.DeflateStream
open LtVerif

/-- everything the codec has written so far is, in order, in the sink followed by the buffer -/
def Inv (s : St) : Prop := s.sink ++ s.obuf = s.outs.reverse.flatten

theorem append_sink (s : St) : s.append.sink ++ s.append.obuf = s.sink ++ s.obuf := by
  unfold St.append
  split
  · rfl
  · simp

theorem append_fed (s : St) : s.append.fed = s.fed := by
  unfold St.append; split <;> rfl

theorem append_outs (s : St) : s.append.outs = s.outs := by
  unfold St.append; split <;> rfl

theorem append_obuf (s : St) : s.append.obuf = [] := by
  unfold St.append
  split
  · rename_i h; simpa using h
  · rfl

theorem inv_append {s : St} (h : Inv s) : Inv s.append := by
  unfold Inv at *
  rw [append_sink, append_outs]; exact h

theorem inv_appendIf {s : St} (b : Bool) (h : Inv s) : Inv (s.appendIf b) := by
  unfold St.appendIf; split
  · exact inv_append h
  · exact h

theorem appendIf_fed (s : St) (b : Bool) : (s.appendIf b).fed = s.fed := by
  unfold St.appendIf; split
  · exact append_fed s
  · rfl

theorem inv_afterCall {s : St} (r : ZR) (c : Call) (u : Bytes) (h : Inv s) : Inv (s.afterCall r c u) := by
  unfold Inv St.afterCall at *
  simp only [List.reverse_cons, List.flatten_append, List.flatten_cons, List.flatten_nil, List.append_nil]
  rw [← h]; simp

theorem afterCall_fed (s : St) (r : ZR) (c : Call) (u : Bytes) : (s.afterCall r c u).fed = s.fed ++ u := rfl

theorem inv_noteRead {s : St} (a b : Nat) (h : Inv s) : Inv (s.noteRead a b) := h
theorem noteRead_fed (s : St) (a b : Nat) : (s.noteRead a b).fed = s.fed := rfl

theorem inv_init : Inv {} := by simp [Inv]

theorem compressLoop_spec (cap : Nat) : ∀ (zs : List ZR) (inp : Bytes) (s s' : St) (zs' : List ZR),
    compressLoop cap zs inp s = .ok (s', zs') → Inv s → Inv s' ∧ s'.fed = s.fed ++ inp := by
  intro zs
  induction zs with
  | nil => intro inp s s' zs' h; simp [compressLoop] at h
  | cons r rs ih =>
    intro inp s s' zs' h hinv
    rw [compressLoop] at h
    dsimp only at h
    split at h
    · cases h
    split at h
    · cases h
    have hinv2 := inv_appendIf (s := s.afterCall r ⟨inp.length, cap - s.obuf.length, false⟩ (inp.take r.consumed))
      (decide ((s.afterCall r ⟨inp.length, cap - s.obuf.length, false⟩ (inp.take r.consumed)).obuf.length = cap) ||
        !(inp.drop r.consumed).isEmpty) (inv_afterCall _ _ _ hinv)
    split at h
    · rename_i hrest
      simp only [Except.ok.injEq, Prod.mk.injEq] at h
      obtain ⟨rfl, rfl⟩ := h
      refine ⟨hinv2, ?_⟩
      rw [appendIf_fed, afterCall_fed]
      have hd : inp.drop r.consumed = [] := by simpa using hrest
      have h2 := List.take_append_drop r.consumed inp
      rw [hd, List.append_nil] at h2
      rw [h2]
    · obtain ⟨hi, hf⟩ := ih _ _ _ _ h hinv2
      refine ⟨hi, ?_⟩
      rw [hf, appendIf_fed, afterCall_fed, List.append_assoc, List.take_append_drop]

theorem compressBlock_spec (cap : Nat) (zs : List ZR) (inp : Bytes) (s s' : St) (zs' : List ZR)
    (h : compressBlock cap zs inp s = .ok (s', zs')) (hinv : Inv s) : Inv s' ∧ s'.fed = s.fed ++ inp := by
  unfold compressBlock at h
  split at h
  · rename_i he
    simp only [Except.ok.injEq, Prod.mk.injEq] at h
    obtain ⟨rfl, rfl⟩ := h
    have : inp = [] := by simpa using he
    simp [this, hinv]
  · exact compressLoop_spec cap _ _ _ _ _ h hinv

theorem take_take_length (X : Bytes) (lim : Nat) : X.take (X.take lim).length = X.take lim := by
  by_cases h : lim ≤ X.length
  · simp [List.length_take, Nat.min_eq_left h]
  · have h' : X.length ≤ lim := by omega
    rw [List.take_of_length_le h', List.take_of_length_le (Nat.le_refl _)]

theorem take_split (X : Bytes) (lim a : Nat) (hl : lim ≤ a) :
    X.take a = X.take lim ++ (X.drop (X.take lim).length).take (a - (X.take lim).length) := by
  have hlen : (X.take lim).length ≤ lim := by simp [List.length_take]; omega
  have e1 : a = (X.take lim).length + (a - (X.take lim).length) := by omega
  conv => lhs; rw [e1, List.take_add]
  rw [take_take_length]

theorem fileLoop_spec (cap blk : Nat) (content : Bytes) (off insz : Nat) :
    ∀ (fuel n : Nat) (rsz : List Nat) (zs : List ZR) (s s' : St) (rsz' : List Nat) (zs' : List ZR),
      fileLoop cap blk content off insz fuel n rsz zs s = .ok (s', rsz', zs') → insz - n ≤ fuel → Inv s →
      Inv s' ∧ s'.fed = s.fed ++ (content.drop (off + n)).take (insz - n) := by
  intro fuel
  induction fuel with
  | zero =>
    intro n rsz zs s s' rsz' zs' h hf hinv
    simp only [fileLoop, Except.ok.injEq, Prod.mk.injEq] at h
    obtain ⟨rfl, _, _⟩ := h
    have : insz - n = 0 := by omega
    simp [this, hinv]
  | succ fuel ih =>
    intro n rsz zs s s' rsz' zs' h hf hinv
    rw [fileLoop] at h
    dsimp only at h
    by_cases hn : n ≥ insz
    · simp only [hn, ↓reduceIte, Except.ok.injEq, Prod.mk.injEq] at h
      obtain ⟨rfl, _, _⟩ := h
      have : insz - n = 0 := by omega
      simp [this, hinv]
    · simp only [hn, ↓reduceIte] at h
      generalize hlim : readLimit rsz (min (insz - n) (min insz blk)) = lim at h
      have hlimle : lim ≤ insz - n := by
        subst hlim; unfold readLimit; split <;> omega
      by_cases hne : ((content.drop (off + n)).take lim).isEmpty = true
      · simp [hne] at h
      · simp only [hne, Bool.false_eq_true, ↓reduceIte] at h
        cases hcb : compressBlock cap zs ((content.drop (off + n)).take lim)
            (s.noteRead (min (insz - n) (min insz blk)) (off + n)) with
        | error e => simp [hcb] at h
        | ok pr =>
          obtain ⟨s2, zs2⟩ := pr
          simp only [hcb] at h
          obtain ⟨hinv2, hfed2⟩ := compressBlock_spec cap _ _ _ _ _ hcb (inv_noteRead _ _ hinv)
          have hdpos : ((content.drop (off + n)).take lim).length ≥ 1 := by
            cases hd : (content.drop (off + n)).take lim with
            | nil => simp [hd] at hne
            | cons _ _ => simp
          have hdl : ((content.drop (off + n)).take lim).length ≤ lim := by simp [List.length_take]; omega
          obtain ⟨hi, hf'⟩ := ih _ rsz.tail zs2 s2 s' rsz' zs' h (by omega) hinv2
          refine ⟨hi, ?_⟩
          rw [hf', hfed2, noteRead_fed, List.append_assoc]
          congr 1
          rw [take_split (content.drop (off + n)) lim (insz - n) hlimle]
          congr 1
          simp only [List.drop_drop]
          have e1 : insz - n - ((content.drop (off + n)).take lim).length
              = insz - (n + ((content.drop (off + n)).take lim).length) := by omega
          rw [e1]
          congr 2
          omega

theorem feedChunks_spec (cap blk : Nat) : ∀ (cq : List Chunk) (rsz : List Nat) (zs : List ZR) (s s' : St)
    (rsz' : List Nat) (zs' : List ZR),
    feedChunks cap blk cq rsz zs s = .ok (s', rsz', zs') → Inv s → Inv s' ∧ s'.fed = s.fed ++ body cq := by
  intro cq
  induction cq with
  | nil =>
    intro rsz zs s s' rsz' zs' h hinv
    simp only [feedChunks, Except.ok.injEq, Prod.mk.injEq] at h
    obtain ⟨rfl, _, _⟩ := h
    simp [body, hinv]
  | cons c cq ih =>
    intro rsz zs s s' rsz' zs' h hinv
    cases c with
    | mem d =>
      rw [feedChunks] at h
      split at h
      · cases h
      · rename_i s1 zs1 hcb
        obtain ⟨hinv1, hfed1⟩ := compressBlock_spec cap _ _ _ _ _ hcb hinv
        obtain ⟨hi, hf⟩ := ih _ _ _ _ _ _ h hinv1
        refine ⟨hi, ?_⟩
        rw [hf, hfed1]
        simp [body, Chunk.bytes]
    | file content off len =>
      rw [feedChunks] at h
      split at h
      · cases h
      · rename_i s1 rsz1 zs1 hfl
        obtain ⟨hinv1, hfed1⟩ := fileLoop_spec cap blk content off len len 0 rsz zs s s1 rsz1 zs1 hfl (by omega) hinv
        obtain ⟨hi, hf⟩ := ih _ _ _ _ _ _ h hinv1
        refine ⟨hi, ?_⟩
        rw [hf, hfed1]
        simp [body, Chunk.bytes]

theorem finishLoop_spec (cap : Nat) : ∀ (zs : List ZR) (s s' : St) (zs' : List ZR),
    finishLoop cap zs s = .ok (s', zs') → Inv s → Inv s' ∧ s'.fed = s.fed ∧ s'.obuf = [] := by
  intro zs
  induction zs with
  | nil => intro s s' zs' h; simp [finishLoop] at h
  | cons r rs ih =>
    intro s s' zs' h hinv
    rw [finishLoop] at h
    dsimp only at h
    split at h
    · cases h
    split at h
    · cases h
    have hinv2 := inv_append (inv_afterCall r ⟨0, cap - s.obuf.length, true⟩ [] hinv)
    split at h
    · simp only [Except.ok.injEq, Prod.mk.injEq] at h
      obtain ⟨rfl, rfl⟩ := h
      exact ⟨hinv2, by rw [append_fed, afterCall_fed]; simp, append_obuf _⟩
    · obtain ⟨hi, hf, ho⟩ := ih _ _ _ h hinv2
      exact ⟨hi, by rw [hf, append_fed, afterCall_fed]; simp, ho⟩

/-- Assembly: whenever the C reports success, the codec has consumed exactly the identity body
    (every byte once, in order) and the sink holds exactly what the codec wrote (every byte
    once, in order), nothing left in the buffer. -/
theorem compressResponse_spec (cap blk : Nat) (cq : List Chunk) (rsz : List Nat) (zs zs' : List ZR) (s : St)
    (h : compressResponse cap blk cq rsz zs = .ok (s, zs')) :
    s.fed = body cq ∧ s.sink ++ s.obuf = s.outs.reverse.flatten ∧ (body cq ≠ [] → s.obuf = []) := by
  unfold compressResponse at h
  split at h
  · cases h
  · rename_i s1 rsz1 zs1 hfeed
    obtain ⟨hinv1, hfed1⟩ := feedChunks_spec cap blk cq rsz zs {} s1 rsz1 zs1 hfeed inv_init
    split at h
    · rename_i he
      simp only [Except.ok.injEq, Prod.mk.injEq] at h
      obtain ⟨rfl, rfl⟩ := h
      refine ⟨by simpa using hfed1, hinv1, ?_⟩
      intro hne; exact absurd (by simpa using he) hne
    · obtain ⟨hi, hf, ho⟩ := finishLoop_spec cap _ _ _ _ h hinv1
      exact ⟨by rw [hf, hfed1]; simp, hi, fun _ => ho⟩

end LtVerif.DeflateStream
