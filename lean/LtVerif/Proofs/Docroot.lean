/-
  Helper lemmas for the C02 extension (Model/Docroot.lean): segments of concatenated paths,
  path joining, alias remap, host policy, vhost doc roots, X-Sendfile, WebDAV Destination,
  symlink walk.
-/
import LtVerif.Proofs.Path
import LtVerif.Model.Docroot
namespace LtVerif
open B

/-! ### segments of a concatenation -/

/-- no '/'-delimited segment is "." or ".." -/
def NoDotSeg (p : Bytes) : Prop := ∀ seg ∈ splitOn slash p, seg ≠ segDot ∧ seg ≠ segDotDot

/-- the segments of `a ++ b`: those of `a` but the last, the last of `a` glued to the first of `b`,
    the remaining ones of `b` -/
theorem splitOn_append (sep : UInt8) (a b : Bytes) {H : Bytes} {T : List Bytes}
    (hb : splitOn sep b = H :: T) :
    ∃ D L, splitOn sep a = D ++ [L] ∧ splitOn sep (a ++ b) = D ++ (L ++ H) :: T := by
  induction a with
  | nil => exact ⟨[], [], by simp [splitOn], by simpa using hb⟩
  | cons x xs ih =>
    obtain ⟨D, L, h1, h2⟩ := ih
    cases D with
    | nil =>
      simp only [List.nil_append] at h1 h2
      by_cases hx : x = sep
      · refine ⟨[[]], L, ?_, ?_⟩
        · unfold splitOn; simp [h1, hx]
        · simp only [List.cons_append]; unfold splitOn; simp [h2, hx]
      · refine ⟨[], x :: L, ?_, ?_⟩
        · unfold splitOn; simp [h1, hx]
        · simp only [List.cons_append]; unfold splitOn; simp [h2, hx]
    | cons d ds =>
      simp only [List.cons_append] at h1 h2
      by_cases hx : x = sep
      · refine ⟨[] :: d :: ds, L, ?_, ?_⟩
        · unfold splitOn; simp [h1, hx]
        · simp only [List.cons_append]; unfold splitOn; simp [h2, hx]
      · refine ⟨(x :: d) :: ds, L, ?_, ?_⟩
        · unfold splitOn; simp [h1, hx]
        · simp only [List.cons_append]; unfold splitOn; simp [h2, hx]

theorem splitOn_cons_exists (sep : UInt8) (s : Bytes) : ∃ H T, splitOn sep s = H :: T := by
  cases h : splitOn sep s with
  | nil => exact absurd h (splitOn_ne_nil sep s)
  | cons H T => exact ⟨H, T, rfl⟩

/-- the first segment is everything before the first separator -/
theorem splitOn_head (sep : UInt8) (s : Bytes) {H : Bytes} {T : List Bytes}
    (h : splitOn sep s = H :: T) : H = s.takeWhile (· ≠ sep) := by
  induction s generalizing H T with
  | nil => simp [splitOn] at h; simp [h.1]
  | cons x xs ih =>
    obtain ⟨H', T', h'⟩ := splitOn_cons_exists sep xs
    have := ih h'
    unfold splitOn at h
    rw [h'] at h
    by_cases hx : x = sep
    · simp [hx] at h; simp [hx, h.1]
    · simp [hx] at h; simp [hx, ← h.1, this]

/-- a string that is empty or ends in the separator has an empty last segment -/
theorem splitOn_last_nil (sep : UInt8) (s : Bytes) (h : s = [] ∨ s.getLast? = some sep) :
    ∃ D, splitOn sep s = D ++ [[]] := by
  induction s with
  | nil => exact ⟨[], by simp [splitOn]⟩
  | cons x xs ih =>
    have hxs : xs = [] ∨ xs.getLast? = some sep := by
      rcases h with h | h
      · simp at h
      · cases xs with
        | nil => left; rfl
        | cons y ys => right; simpa [List.getLast?_cons_cons] using h
    obtain ⟨D, hD⟩ := ih hxs
    cases D with
    | nil =>
      simp only [List.nil_append] at hD
      by_cases hx : x = sep
      · exact ⟨[[]], by unfold splitOn; simp [hD, hx]⟩
      · -- xs must be empty then, and x = sep: contradiction
        exfalso
        have hxe : xs = [] := by
          have hj := join_splitOn sep xs
          rw [hD] at hj; simpa [join] using hj.symm
        subst hxe
        rcases h with h | h
        · simp at h
        · simp at h; exact hx h
    | cons d ds =>
      simp only [List.cons_append] at hD
      by_cases hx : x = sep
      · exact ⟨[] :: d :: ds, by unfold splitOn; simp [hD, hx]⟩
      · exact ⟨(x :: d) :: ds, by unfold splitOn; simp [hD, hx]⟩

theorem canonical_head {r : Bytes} (h : CanonicalAbs r) : r.head? = some slash := by
  obtain ⟨st, _, hr⟩ := h
  rcases hr with hr | ⟨_, hr⟩ <;> simp [hr]

theorem canonical_ne_nil {r : Bytes} (h : CanonicalAbs r) : r ≠ [] := by
  intro e; have := canonical_head h; simp [e] at this

/-- every segment of a canonical path is empty (first / trailing) or clean -/
theorem canonical_segs {r : Bytes} (h : CanonicalAbs r) :
    ∀ seg ∈ splitOn slash r, seg = [] ∨ Clean seg := by
  obtain ⟨stack, hc, hs⟩ := canonical_split h
  intro seg hseg
  rcases hs with hs | ⟨_, hs⟩ <;> rw [hs] at hseg <;>
    simp only [List.cons_append, List.mem_cons, List.mem_append, List.mem_singleton,
               List.not_mem_nil, or_false] at hseg
  · rcases hseg with e | e | e
    · exact Or.inl e
    · exact Or.inr (hc seg e)
    · exact Or.inl e
  · rcases hseg with e | e
    · exact Or.inl e
    · exact Or.inr (hc seg e)

theorem nil_ne_dots : ([] : Bytes) ≠ segDot ∧ ([] : Bytes) ≠ segDotDot := by
  simp [segDot, segDotDot]

theorem canonical_noDotSeg {r : Bytes} (h : CanonicalAbs r) : NoDotSeg r := by
  intro seg hseg
  rcases canonical_segs h seg hseg with e | e
  · subst e; exact nil_ne_dots
  · exact ⟨e.2.1, e.2.2.1⟩

theorem join_last_suffix (p0 : Bytes) (init : List Bytes) (last : Bytes) :
    ∃ pre, join slash (p0 :: (init ++ [last])) = pre ++ last := by
  induction init generalizing p0 with
  | nil => exact ⟨p0 ++ [slash], by simp [join]⟩
  | cons q qs ih =>
    obtain ⟨pre, hp⟩ := ih q
    refine ⟨p0 ++ slash :: pre, ?_⟩
    simp only [List.cons_append] at hp ⊢
    simp only [join]
    rw [hp]; simp

/-- the last segment of a canonical path: empty iff the path ends in '/' -/
theorem canonical_last {r : Bytes} (h : CanonicalAbs r) :
    ∃ D L, splitOn slash r = D ++ [L] ∧
      ((L = [] ∧ endsWithSlash r = true) ∨ (Clean L ∧ endsWithSlash r = false)) := by
  obtain ⟨stack, hc, hs⟩ := canonical_split h
  have hj := join_splitOn slash r
  rcases hs with hs | ⟨hne, hs⟩
  · refine ⟨[] :: stack, [], by simpa using hs, Or.inl ⟨rfl, ?_⟩⟩
    rw [hs] at hj
    have : ([] :: stack ++ [[]]) = ([] :: stack) ++ [[]] := by simp
    rw [this, join_append_empty slash _ (by simp)] at hj
    unfold endsWithSlash; rw [← hj]; simp
  · obtain ⟨init, last, hil⟩ : ∃ init last, stack = init ++ [last] :=
      ⟨stack.dropLast, stack.getLast hne, (List.dropLast_concat_getLast hne).symm⟩
    have hcl : Clean last := hc last (by simp [hil])
    refine ⟨[] :: init, last, by simp [hs, hil], Or.inr ⟨hcl, ?_⟩⟩
    -- r = join ([] :: init ++ [last]) ends with the last byte of `last`, which is not '/'
    have hr : ∃ pre, r = pre ++ last := by
      rw [hs, hil] at hj
      obtain ⟨pre, hp⟩ := join_last_suffix [] init last
      exact ⟨pre, by rw [← hj]; simpa using hp⟩
    obtain ⟨pre, hp⟩ := hr
    unfold endsWithSlash
    rw [hp, List.getLast?_append]
    cases hl : last.getLast? with
    | none => simp [List.getLast?_eq_none_iff] at hl; exact absurd hl hcl.1
    | some z =>
      simp only [Option.some_or]
      have hz : z ∈ last := List.mem_of_getLast? hl
      have : z ≠ slash := fun e => hcl.2.2.2 (e ▸ hz)
      simp [this]

/-! ### path joining -/

/-- the root without its trailing '/' -/
def stripSlash (root : Bytes) : Bytes := if endsWithSlash root then root.dropLast else root

theorem stripSlash_append_slash {root : Bytes} (h : endsWithSlash root = true) :
    stripSlash root ++ [slash] = root := by
  unfold stripSlash; rw [if_pos h]
  unfold endsWithSlash at h
  have hne : root ≠ [] := by intro e; simp [e] at h
  have := List.dropLast_concat_getLast hne
  rw [List.getLast?_eq_some_getLast hne] at h
  simp only [decide_eq_true_eq, Option.some.injEq] at h
  rw [h] at this; exact this

/-- buffer_append_path_len() with an absolute second part: the parts meet at exactly one '/' -/
theorem pathAppend_abs (root : Bytes) {u : Bytes} (hu : u.head? = some slash) :
    pathAppend root u = stripSlash root ++ u := by
  cases u with
  | nil => simp at hu
  | cons x t =>
    simp only [List.head?_cons, Option.some.injEq] at hu
    subst hu
    unfold pathAppend
    by_cases h : endsWithSlash root = true
    · simp only [h, if_true, List.head?_cons, List.drop_succ_cons, List.drop_zero]
      conv => lhs; rw [← stripSlash_append_slash h]
      simp
    · simp only [h, List.head?_cons]
      unfold stripSlash; simp [h]

/-! ### mod_alias -/

theorem aliasMatch_spec {lc : Bool} {uri : Bytes} {aliases : List (Bytes × Bytes)} {k v : Bytes}
    (h : aliasMatch lc uri aliases = some (k, v)) :
    (k, v) ∈ aliases ∧ k.length ≤ uri.length ∧
      (if lc then eqIcase (uri.take k.length) k = true else uri.take k.length = k) := by
  induction aliases with
  | nil => simp [aliasMatch] at h
  | cons kv rest ih =>
    obtain ⟨k0, v0⟩ := kv
    unfold aliasMatch at h
    by_cases hc : (decide (k0.length ≤ uri.length) &&
        (if lc then eqIcase (uri.take k0.length) k0 else uri.take k0.length == k0)) = true
    · rw [if_pos hc] at h
      simp only [Option.some.injEq, Prod.mk.injEq] at h
      obtain ⟨rfl, rfl⟩ := h
      simp only [Bool.and_eq_true, decide_eq_true_eq] at hc
      refine ⟨by simp, hc.1, ?_⟩
      cases lc
      · simpa using hc.2
      · simpa using hc.2
    · rw [if_neg hc] at h
      obtain ⟨h1, h2⟩ := ih h
      exact ⟨by simp [h1], h2⟩

theorem eqIcase_endsWithSlash {a b : Bytes} (h : eqIcase a b = true) :
    endsWithSlash a = endsWithSlash b := by
  unfold eqIcase at h
  simp only [beq_iff_eq] at h
  unfold endsWithSlash
  have ha : (a.map toLower).getLast? = (b.map toLower).getLast? := by rw [h]
  simp only [List.getLast?_map] at ha
  cases hla : a.getLast? with
  | none =>
    cases hlb : b.getLast? with
    | none => rfl
    | some y => rw [hla, hlb] at ha; simp at ha
  | some x =>
    cases hlb : b.getLast? with
    | none => rw [hla, hlb] at ha; simp at ha
    | some y =>
      rw [hla, hlb] at ha
      simp only [Option.map_some, Option.some.injEq] at ha
      by_cases hx : x = slash
      · subst hx; rw [toLower_slash] at ha
        have := toLower_eq_slash ha.symm; subst this; rfl
      · by_cases hy : y = slash
        · subst hy; rw [toLower_slash] at ha
          exact absurd (toLower_eq_slash ha) hx
        · simp [hx, hy]

theorem eqIcase_nil_iff {a b : Bytes} (h : eqIcase a b = true) : a = [] ↔ b = [] := by
  unfold eqIcase at h
  simp only [beq_iff_eq] at h
  have := congrArg List.length h
  simp only [List.length_map] at this
  constructor
  · intro e; subst e
    cases b with
    | nil => rfl
    | cons y ys => simp at this
  · intro e; subst e
    cases a with
    | nil => rfl
    | cons y ys => simp at this

/-- the guard of mod_alias_remap() fires exactly when the first segment after the matched
    prefix is "." or ".." -/
theorem aliasGuard_of_first_dot {k v after H : Bytes} {T : List Bytes}
    (hs : splitOn slash after = H :: T) (hd : H = segDot ∨ H = segDotDot)
    (hk : k ≠ []) (hks : endsWithSlash k = false) (hv : v ≠ []) (hvs : endsWithSlash v = true) :
    aliasGuard k v after = true := by
  have hH := splitOn_head slash after hs
  have hcfg : (!k.isEmpty && !endsWithSlash k && !v.isEmpty && endsWithSlash v) = true := by
    simp [hks, hvs, hk, hv]
  rcases hd with hd | hd
  · -- after = "." or "./..."
    rw [hd] at hH
    match after, hH with
    | a :: rest, hH =>
      simp only [segDot, List.takeWhile_cons] at hH
      split at hH
      · rename_i ha
        simp only [List.cons.injEq] at hH
        obtain ⟨ha1, hrest⟩ := hH
        subst ha1
        unfold aliasGuard
        have hr : rest = [] ∨ rest.head? = some slash := by
          cases rest with
          | nil => left; rfl
          | cons b bs =>
            right
            simp only [List.takeWhile_cons] at hrest
            split at hrest
            · simp at hrest
            · rename_i hb; simp at hb; simp [hb]
        have hnd : rest.head? ≠ some dot := by
          rcases hr with hr | hr
          · simp [hr]
          · rw [hr]; decide
        simp only [dot] at hnd ⊢
        simp only [hnd, if_false, hcfg, Bool.and_true]
        rcases hr with hr | hr
        · simp [hr]
        · simp [hr]
      · simp at hH
  · rw [hd] at hH
    match after, hH with
    | a :: rest, hH =>
      simp only [segDotDot, List.takeWhile_cons] at hH
      split at hH
      · rename_i ha
        simp only [List.cons.injEq] at hH
        obtain ⟨ha1, hrest⟩ := hH
        subst ha1
        match rest, hrest with
        | b :: rest2, hrest =>
          simp only [List.takeWhile_cons] at hrest
          split at hrest
          · simp only [List.cons.injEq] at hrest
            obtain ⟨hb1, hrest2⟩ := hrest
            subst hb1
            unfold aliasGuard
            have hr : rest2 = [] ∨ rest2.head? = some slash := by
              cases rest2 with
              | nil => left; rfl
              | cons c cs =>
                right
                simp only [List.takeWhile_cons] at hrest2
                split at hrest2
                · simp at hrest2
                · rename_i hc; simp at hc; simp [hc]
            simp only [dot, List.head?_cons, if_true, List.drop_succ_cons, List.drop_zero, hcfg,
                       Bool.and_true]
            rcases hr with hr | hr
            · simp [hr]
            · simp [hr]
          · simp at hrest
      · simp at hH

theorem clean_append_not_dot {c x : Bytes} (hc : Clean c) : c ++ x ≠ segDot ∧ c ++ x ≠ segDotDot := by
  obtain ⟨hne, hd, hdd, _⟩ := hc
  constructor
  · intro e
    cases c with
    | nil => exact hne rfl
    | cons a as =>
      simp only [segDot, List.cons_append, List.cons.injEq, List.append_eq_nil_iff] at e
      exact hd (by simp [segDot, e.1, e.2.1])
  · intro e
    cases c with
    | nil => exact hne rfl
    | cons a as =>
      simp only [segDotDot, List.cons_append, List.cons.injEq] at e
      obtain ⟨ha, hrest⟩ := e
      cases as with
      | nil => exact hd (by simp [segDot, ha, dot])
      | cons b bs =>
        simp only [List.cons_append, List.cons.injEq, List.append_eq_nil_iff] at hrest
        exact hdd (by simp [segDotDot, ha, hrest.1, hrest.2.1])

/-- core of the alias containment argument: value ++ (rest of the url after the matched prefix)
    has no "." / ".." segment unless the guard fires -/
theorem alias_noDotSeg {uri k v : Bytes} (hu : CanonicalAbs uri) (hv : CanonicalAbs v)
    (hkl : k.length ≤ uri.length)
    (hke : (uri.take k.length = []) ↔ k = [])
    (hks : endsWithSlash (uri.take k.length) = endsWithSlash k)
    (hg : aliasGuard k v (uri.drop k.length) = false) :
    NoDotSeg (v ++ uri.drop k.length) := by
  obtain ⟨H, T, hHT⟩ := splitOn_cons_exists slash (uri.drop k.length)
  -- segments of uri through the split take ++ drop
  obtain ⟨Du, Lu, hu1, hu2⟩ := splitOn_append slash (uri.take k.length) (uri.drop k.length) hHT
  rw [List.take_append_drop] at hu2
  have husegs := canonical_segs hu
  -- segments of v ++ after
  obtain ⟨Dv, Lv, hv1, hv2⟩ := splitOn_append slash v (uri.drop k.length) hHT
  obtain ⟨Dv', Lv', hv1', hlast⟩ := canonical_last hv
  have hDL : Dv = Dv' ∧ Lv = Lv' := by
    rw [hv1] at hv1'
    have := List.append_inj' hv1' (by simp)
    exact ⟨this.1, by simpa using this.2⟩
  obtain ⟨rfl, rfl⟩ := hDL
  have hvsegs := canonical_segs hv
  intro seg hseg
  rw [hv2] at hseg
  simp only [List.mem_append, List.mem_cons] at hseg
  rcases hseg with hseg | hseg | hseg
  · -- a segment of v before its last one
    rcases hvsegs seg (by rw [hv1]; simp [hseg]) with e | e
    · subst e; exact nil_ne_dots
    · exact ⟨e.2.1, e.2.2.1⟩
  · -- the junction
    subst hseg
    rcases hlast with ⟨hL, hvs⟩ | ⟨hL, hvs⟩
    · -- v ends in '/': the junction is the first segment after the prefix
      subst hL
      simp only [List.nil_append]
      by_cases hk : k = [] ∨ endsWithSlash k = true
      · -- the prefix ends at a segment boundary: H is a whole segment of uri
        have hT : uri.take k.length = [] ∨ (uri.take k.length).getLast? = some slash := by
          rcases hk with hk | hk
          · left; exact hke.2 hk
          · right; rw [← hks] at hk; unfold endsWithSlash at hk; simpa using hk
        obtain ⟨D, hD⟩ := splitOn_last_nil slash _ hT
        have : Lu = [] := by
          rw [hu1] at hD
          have := List.append_inj' hD (by simp)
          simpa using this.2
        subst this
        rcases husegs H (by rw [hu2]; simp) with e | e
        · subst e; exact nil_ne_dots
        · exact ⟨e.2.1, e.2.2.1⟩
      · -- key does not end in '/', value does: the guard protects
        have hk1 : k ≠ [] := fun e => hk (Or.inl e)
        have hk2 : endsWithSlash k = false := by
          cases h : endsWithSlash k with
          | true => exact absurd (Or.inr h) hk
          | false => rfl
        refine ⟨fun e => ?_, fun e => ?_⟩
        · have := aliasGuard_of_first_dot (k := k) (v := v) hHT (Or.inl e) hk1 hk2
            (canonical_ne_nil hv) hvs
          rw [this] at hg; exact Bool.noConfusion hg
        · have := aliasGuard_of_first_dot (k := k) (v := v) hHT (Or.inr e) hk1 hk2
            (canonical_ne_nil hv) hvs
          rw [this] at hg; exact Bool.noConfusion hg
    · exact clean_append_not_dot hL
  · -- a later segment of the url
    rcases husegs seg (by rw [hu2]; simp [hseg]) with e | e
    · subst e; exact nil_ne_dots
    · exact ⟨e.2.1, e.2.2.1⟩

/-! ### host policy -/

def hostByte (b : UInt8) : Bool := isDigit b || isAlpha b || b == 45 || b == dot

theorem hostByte_ne {b : UInt8} (h : hostByte b = true) : b ≠ slash ∧ b ≠ colon := by
  have := byte_forall (fun b => !hostByte b || (b != slash && b != colon)) (by decide +kernel) b
  simp only [h, Bool.not_true, Bool.false_or, Bool.and_eq_true, bne_iff_ne, ne_eq] at this
  exact this

theorem isDigit_ne {b : UInt8} (h : isDigit b = true) : b ≠ slash ∧ b ≠ colon ∧ b ≠ dot := by
  have := byte_forall (fun b => !isDigit b || (b != slash && b != colon && b != dot)) (by decide +kernel) b
  simp only [h, Bool.not_true, Bool.false_or, Bool.and_eq_true, bne_iff_ne, ne_eq] at this
  exact ⟨this.1.1, this.1.2, this.2⟩

/-- the label scan of request_check_hostname(): accepted bytes, and no empty label -/
theorem hostScan_spec : ∀ (rest : Bytes) (idx ll : Nat) (an nu : Bool) (lv : Nat)
    (r : Nat × Bool × Bool × Nat),
    checkHostnameV4.scan rest idx ll an nu lv = some r →
    (∀ b ∈ rest, hostByte b = true) ∧
    (r.1 ≠ 0 → ∀ H T, splitOn dot rest = H :: T → (ll = 0 → H ≠ []) ∧ ∀ seg ∈ T, seg ≠ []) := by
  intro rest
  induction rest with
  | nil =>
    intro idx ll an nu lv r h
    unfold checkHostnameV4.scan at h
    simp only [Option.some.injEq] at h
    subst h
    refine ⟨by simp, ?_⟩
    intro hr H T hs
    simp [splitOn] at hs
    obtain ⟨rfl, rfl⟩ := hs
    exact ⟨fun e => absurd e hr, by simp⟩
  | cons ch more ih =>
    intro idx ll an nu lv r h
    unfold checkHostnameV4.scan at h
    obtain ⟨Hm, Tm, hm⟩ := splitOn_cons_exists dot more
    simp only at h
    split at h
    · rename_i hd
      obtain ⟨h1, h2⟩ := ih _ _ _ _ _ _ h
      refine ⟨?_, ?_⟩
      · intro b hb
        simp only [List.mem_cons] at hb
        rcases hb with e | e
        · subst e; simp [hostByte, hd]
        · exact h1 b e
      · intro hr H T hs
        have hne : ch ≠ dot := (isDigit_ne hd).2.2
        unfold splitOn at hs
        rw [hm] at hs
        simp only [hne, if_false, List.cons.injEq] at hs
        obtain ⟨rfl, rfl⟩ := hs
        exact ⟨fun _ => by simp, (h2 hr Hm Tm hm).2⟩
    · split at h
      · rename_i hd ha
        obtain ⟨h1, h2⟩ := ih _ _ _ _ _ _ h
        have hb' : hostByte ch = true := by
          simp only [Bool.or_eq_true, Bool.and_eq_true, decide_eq_true_eq] at ha
          rcases ha with ha | ha
          · simp [hostByte, ha]
          · simp [hostByte, ha.1]
        have hne : ch ≠ dot := by
          intro e
          subst e
          simp only [Bool.or_eq_true, Bool.and_eq_true, decide_eq_true_eq] at ha
          rcases ha with ha | ha
          · exact absurd ha (by decide)
          · exact absurd ha.1 (by decide)
        refine ⟨?_, ?_⟩
        · intro b hb
          simp only [List.mem_cons] at hb
          rcases hb with e | e
          · subst e; exact hb'
          · exact h1 b e
        · intro hr H T hs
          unfold splitOn at hs
          rw [hm] at hs
          simp only [hne, if_false, List.cons.injEq] at hs
          obtain ⟨rfl, rfl⟩ := hs
          exact ⟨fun _ => by simp, (h2 hr Hm Tm hm).2⟩
      · split at h
        · rename_i hd ha hdot
          simp only [Bool.and_eq_true, decide_eq_true_eq, bne_iff_ne, ne_eq] at hdot
          obtain ⟨⟨hc, hl⟩, _⟩ := hdot
          obtain ⟨h1, h2⟩ := ih _ _ _ _ _ _ h
          refine ⟨?_, ?_⟩
          · intro b hb
            simp only [List.mem_cons] at hb
            rcases hb with e | e
            · subst e; simp [hostByte, hc]
            · exact h1 b e
          · intro hr H T hs
            unfold splitOn at hs
            rw [hm] at hs
            simp only [hc, if_true, List.cons.injEq] at hs
            obtain ⟨rfl, rfl⟩ := hs
            have := h2 hr Hm Tm hm
            refine ⟨fun e => ?_, ?_⟩
            · omega
            · intro seg hseg
              simp only [List.mem_cons] at hseg
              rcases hseg with e | e
              · subst e; exact this.1 rfl
              · exact this.2 seg e
        · simp at h

theorem findIdx_spec (p : UInt8 → Bool) : ∀ (l : Bytes) (k i : Nat), findIdx p l k = some i →
    k ≤ i ∧ (∀ y ∈ l.take (i - k), p y = false) ∧ ∃ x rest, l.drop (i - k) = x :: rest ∧ p x = true := by
  intro l
  induction l with
  | nil => intro k i h; simp [findIdx] at h
  | cons b rest ih =>
    intro k i h
    unfold findIdx at h
    split at h
    · rename_i hp
      simp only [Option.some.injEq] at h
      subst h
      exact ⟨Nat.le_refl _, by simp, b, rest, by simp, hp⟩
    · rename_i hp
      obtain ⟨h1, h2, x, r, h3, h4⟩ := ih _ _ h
      have : i - k = (i - (k + 1)) + 1 := by omega
      refine ⟨by omega, ?_, x, r, ?_, h4⟩
      · rw [this]
        intro y hy
        simp only [List.take_succ_cons, List.mem_cons] at hy
        rcases hy with e | e
        · subst e; simpa using hp
        · exact h2 y e
      · rw [this]; simpa using h3

theorem findIdx_none (p : UInt8 → Bool) : ∀ (l : Bytes) (k : Nat), findIdx p l k = none →
    ∀ y ∈ l, p y = false := by
  intro l
  induction l with
  | nil => intro k _ y hy; simp at hy
  | cons b rest ih =>
    intro k h y hy
    unfold findIdx at h
    split at h
    · simp at h
    · rename_i hp
      simp only [List.mem_cons] at hy
      rcases hy with e | e
      · subst e; simpa using hp
      · exact ih _ h y e

/-- request_check_hostname() after the host/port split (same code, the split made a parameter) -/
def hostFin (hp port : Bytes) : Option Bytes :=
  match port with
  | [] => some hp
  | _ :: digits =>
    if digits.all isDigit then
      (if digits.isEmpty then some hp else some (hp ++ port))
    else none

def hostCore2 (hp port : Bytes) : Option Bytes :=
  if hp.isEmpty then none else
  match checkHostnameV4.scan hp 0 0 true true 0 with
  | none => none
  | some (labelLen, allnum, numeric, level) =>
    if labelLen = 0 || (numeric && (level ≠ 3 || !allnum)) then none else hostFin hp port

def hostCore (hp0 port : Bytes) : Option Bytes :=
  if hp0.isEmpty then none else
  hostCore2 (if hp0.getLast? = some dot then hp0.dropLast else hp0) port

theorem checkHostnameV4_eq (h : Bytes) :
    checkHostnameV4 h =
      hostCore (match findIdx (· = colon) h 0 with | some i => h.take i | none => h)
               (match findIdx (· = colon) h 0 with | some i => h.drop i | none => []) := by
  unfold checkHostnameV4 hostCore hostCore2 hostFin
  rfl

theorem hostFin_spec {hp port h' : Bytes} (hh : hostFin hp port = some h')
    (hport : port = [] ∨ ∃ ds, port = colon :: ds) :
    ∃ port', h' = hp ++ port' ∧ (port' = [] ∨ ∃ ds, port' = colon :: ds ∧ ds.all isDigit = true) := by
  unfold hostFin at hh
  rcases hport with rfl | ⟨ds, rfl⟩
  · simp only [Option.some.injEq] at hh
    exact ⟨[], by simp [hh], Or.inl rfl⟩
  · simp only at hh
    by_cases hd : ds.all isDigit = true
    · rw [if_pos hd] at hh
      by_cases he : ds.isEmpty = true
      · rw [if_pos he] at hh
        simp only [Option.some.injEq] at hh
        exact ⟨[], by simp [hh], Or.inl rfl⟩
      · rw [if_neg he] at hh
        simp only [Option.some.injEq] at hh
        exact ⟨colon :: ds, hh.symm, Or.inr ⟨ds, rfl, hd⟩⟩
    · rw [if_neg hd] at hh; simp at hh

theorem hostCore2_spec {hp port h' : Bytes} (hh : hostCore2 hp port = some h')
    (hport : port = [] ∨ ∃ ds, port = colon :: ds) :
    ∃ port', h' = hp ++ port' ∧ hp ≠ [] ∧ (∀ b ∈ hp, hostByte b = true) ∧
      (∀ seg ∈ splitOn dot hp, seg ≠ []) ∧
      (port' = [] ∨ ∃ ds, port' = colon :: ds ∧ ds.all isDigit = true) := by
  unfold hostCore2 at hh
  by_cases h1 : hp.isEmpty = true
  · rw [if_pos h1] at hh; simp at hh
  · rw [if_neg h1] at hh
    have hpne : hp ≠ [] := by intro e; simp [e] at h1
    cases hscan : checkHostnameV4.scan hp 0 0 true true 0 with
    | none => rw [hscan] at hh; simp at hh
    | some r =>
      obtain ⟨ll, an, nu, lv⟩ := r
      rw [hscan] at hh
      simp only at hh
      by_cases h3 : (decide (ll = 0) || (nu && (decide (lv ≠ 3) || !an))) = true
      · rw [if_pos h3] at hh; simp at hh
      · rw [if_neg h3] at hh
        have hll : ll ≠ 0 := by intro e; simp [e] at h3
        obtain ⟨hbytes, hlabels⟩ := hostScan_spec _ _ _ _ _ _ _ hscan
        obtain ⟨port', hp', hport'⟩ := hostFin_spec hh hport
        refine ⟨port', hp', hpne, hbytes, ?_, hport'⟩
        obtain ⟨H, T, hs⟩ := splitOn_cons_exists dot hp
        have := hlabels hll H T hs
        intro seg hseg
        rw [hs] at hseg
        simp only [List.mem_cons] at hseg
        rcases hseg with e | e
        · subst e; exact this.1 rfl
        · exact this.2 seg e

/-- what request_check_hostname() lets through (hosts not starting with '[') -/
theorem checkHostnameV4_spec {h h' : Bytes} (hh : checkHostnameV4 h = some h') :
    ∃ hp port, h' = hp ++ port ∧ hp ≠ [] ∧ (∀ b ∈ hp, hostByte b = true) ∧
      (∀ seg ∈ splitOn dot hp, seg ≠ []) ∧
      (port = [] ∨ ∃ ds, port = colon :: ds ∧ ds.all isDigit = true) := by
  rw [checkHostnameV4_eq] at hh
  have hport : (match findIdx (· = colon) h 0 with | some i => h.drop i | none => ([] : Bytes)) = [] ∨
      ∃ ds, (match findIdx (· = colon) h 0 with | some i => h.drop i | none => ([] : Bytes)) = colon :: ds := by
    cases hci : findIdx (· = colon) h 0 with
    | none => left; rfl
    | some i =>
      right
      obtain ⟨_, _, y, r, hd, hy⟩ := findIdx_spec _ _ _ _ hci
      simp only [Nat.sub_zero] at hd
      refine ⟨r, ?_⟩
      simp only [hd, List.cons.injEq, and_true]
      simpa using hy
  generalize (match findIdx (· = colon) h 0 with | some i => h.take i | none => h) = A at hh
  generalize (match findIdx (· = colon) h 0 with | some i => h.drop i | none => ([] : Bytes)) = B at hh hport
  unfold hostCore at hh
  by_cases h1 : A.isEmpty = true
  · rw [if_pos h1] at hh; simp at hh
  · rw [if_neg h1] at hh
    obtain ⟨port', h1, h2, h3, h4, h5⟩ := hostCore2_spec hh hport
    exact ⟨_, port', h1, h2, h3, h4, h5⟩

theorem takeWhile_append_stop {p : UInt8 → Bool} : ∀ (a : Bytes) (x : UInt8) (r : Bytes),
    (∀ b ∈ a, p b = true) → p x = false → (a ++ x :: r).takeWhile p = a := by
  intro a
  induction a with
  | nil => intro x r _ hx; simp [List.takeWhile_cons, hx]
  | cons b bs ih =>
    intro x r ha hx
    simp only [List.cons_append, List.takeWhile_cons, ha b (by simp), if_true]
    rw [ih x r (fun y hy => ha y (by simp [hy])) hx]

theorem takeWhile_all {p : UInt8 → Bool} : ∀ (a : Bytes), (∀ b ∈ a, p b = true) → a.takeWhile p = a := by
  intro a
  induction a with
  | nil => intro _; rfl
  | cons b bs ih =>
    intro ha
    simp only [List.takeWhile_cons, ha b (by simp), if_true]
    rw [ih (fun y hy => ha y (by simp [hy]))]

theorem splitOn_dot_dot : splitOn dot segDot = [[], []] := by decide
theorem splitOn_dot_dotdot : splitOn dot segDotDot = [[], [], []] := by decide

/-- an accepted strict host name is one clean path segment -/
theorem checkHostnameV4_clean {h h' : Bytes} (hh : checkHostnameV4 h = some h') :
    slash ∉ h' ∧ Clean (hostPart h') ∧ ∀ seg ∈ splitOn dot (hostPart h'), seg ≠ [] := by
  obtain ⟨hp, port, rfl, hpne, hbytes, hsegs, hport⟩ := checkHostnameV4_spec hh
  have hhp : hostPart (hp ++ port) = hp := by
    unfold hostPart
    rcases hport with rfl | ⟨ds, rfl, _⟩
    · rw [List.append_nil]
      exact takeWhile_all _ (fun b hb => by simpa using (hostByte_ne (hbytes b hb)).2)
    · exact takeWhile_append_stop _ _ _ (fun b hb => by simpa using (hostByte_ne (hbytes b hb)).2)
        (by simp)
  have hns : slash ∉ hp := fun hm => (hostByte_ne (hbytes _ hm)).1 rfl
  refine ⟨?_, ?_, ?_⟩
  · intro hm
    simp only [List.mem_append] at hm
    rcases hm with hm | hm
    · exact hns hm
    · rcases hport with rfl | ⟨ds, rfl, hds⟩
      · simp at hm
      · simp only [List.mem_cons] at hm
        rcases hm with e | e
        · exact absurd e (by decide)
        · rw [List.all_eq_true] at hds
          exact (isDigit_ne (hds _ e)).1 rfl
  · rw [hhp]
    refine ⟨hpne, ?_, ?_, hns⟩
    · intro e; rw [e, splitOn_dot_dot] at hsegs; exact hsegs [] (by simp) rfl
    · intro e; rw [e, splitOn_dot_dotdot] at hsegs; exact hsegs [] (by simp) rfl
  · rw [hhp]; exact hsegs

def v6Byte (b : UInt8) : Bool := isXDigit b || b == dot || b == colon

theorem v6Byte_ne {b : UInt8} (h : v6Byte b = true) : b ≠ slash := by
  have := byte_forall (fun b => !v6Byte b || b != slash) (by decide +kernel) b
  simpa [h] using this

theorem v6Body_spec : ∀ (t : Bytes) (cnt : Nat), t = (v6Body t cnt).1 ++ (v6Body t cnt).2 ∧
    ∀ b ∈ (v6Body t cnt).1, v6Byte b = true := by
  intro t
  induction t with
  | nil => intro cnt; simp [v6Body]
  | cons b rest ih =>
    intro cnt
    unfold v6Body
    split
    · rename_i hc
      obtain ⟨h1, h2⟩ := ih cnt
      refine ⟨by simp only [List.cons_append]; rw [← h1], ?_⟩
      intro y hy
      simp only [List.mem_cons] at hy
      rcases hy with e | e
      · subst e
        simp only [Bool.or_eq_true, decide_eq_true_eq] at hc
        rcases hc with hc | hc
        · simp [v6Byte, hc]
        · simp [v6Byte, hc]
      · exact h2 y e
    · split
      · rename_i hc
        obtain ⟨h1, h2⟩ := ih (cnt + 1)
        refine ⟨by simp only [List.cons_append]; rw [← h1], ?_⟩
        intro y hy
        simp only [List.mem_cons] at hy
        rcases hy with e | e
        · subst e
          simp only [Bool.and_eq_true, decide_eq_true_eq] at hc
          simp [v6Byte, hc.1]
        · exact h2 y e
      · simp

theorem v6_nomem {body after : Bytes} (hb : slash ∉ body) (ha : slash ∉ after) :
    slash ∉ (91 : UInt8) :: (body ++ 93 :: after) := by
  have h91 : slash ≠ (91 : UInt8) := by decide
  have h93 : slash ≠ (93 : UInt8) := by decide
  simp [h91, h93, hb, ha]

/-- an accepted "[...]" host: starts with '[' and contains no '/' -/
theorem checkHostnameV6_spec {h h' : Bytes} (hh : checkHostnameV6 h = some h') :
    slash ∉ h' ∧ h'.head? = some 91 := by
  unfold checkHostnameV6 at hh
  split at hh
  · rename_i t
    obtain ⟨hsplit, hbody⟩ := v6Body_spec t 0
    generalize v6Body t 0 = br at hh hsplit hbody
    obtain ⟨body, rest⟩ := br
    simp only at hh hsplit hbody
    have hbs : slash ∉ body := fun hm => v6Byte_ne (hbody _ hm) rfl
    split at hh
    · rename_i after
      by_cases hbe : body.isEmpty = true
      · rw [if_pos hbe] at hh; simp at hh
      · rw [if_neg hbe] at hh
        split at hh
        · simp only [Option.some.injEq] at hh
          subst hh
          exact ⟨by rw [hsplit]; exact v6_nomem hbs (by simp), by simp⟩
        · rename_i digits
          by_cases hdig : digits.all isDigit = true
          · rw [if_pos hdig] at hh
            have hds : slash ∉ digits := by
              intro hm; rw [List.all_eq_true] at hdig; exact (isDigit_ne (hdig _ hm)).1 rfl
            by_cases hde : digits.isEmpty = true
            · rw [if_pos hde] at hh
              simp only [Option.some.injEq] at hh
              subst hh
              exact ⟨v6_nomem hbs (by simp), by simp⟩
            · rw [if_neg hde] at hh
              simp only [Option.some.injEq] at hh
              subst hh
              refine ⟨?_, by simp⟩
              rw [hsplit]
              refine v6_nomem hbs ?_
              have h58 : slash ≠ (58 : UInt8) := by decide
              simp [h58, hds]
          · rw [if_neg hdig] at hh; simp at hh
        · simp at hh
    · simp at hh
  · simp at hh

theorem hostPart_subset (a : Bytes) : ∀ b ∈ hostPart a, b ∈ a := by
  intro b hb
  unfold hostPart at hb
  exact (List.takeWhile_sublist _).subset hb

theorem hostPart_head (a : Bytes) : (hostPart a).head? = none ∨ (hostPart a).head? = a.head? := by
  unfold hostPart
  cases a with
  | nil => left; rfl
  | cons x xs =>
    simp only [List.takeWhile_cons]
    split
    · right; simp
    · left; rfl

/-! ### X-Sendfile -/

theorem isPrefixOf_head {lc : Bool} {x p : Bytes} (h : isPrefixOf lc x p = true)
    (hx : x.head? = some slash) : p.head? = some slash := by
  unfold isPrefixOf at h
  simp only [Bool.and_eq_true, decide_eq_true_eq] at h
  obtain ⟨hl, he⟩ := h
  cases x with
  | nil => simp at hx
  | cons a as =>
    simp only [List.head?_cons, Option.some.injEq] at hx
    subst hx
    cases p with
    | nil => simp at hl
    | cons b bs =>
      cases lc
      · simp only [Bool.false_eq_true, if_false, List.length_cons, List.take_succ_cons, beq_iff_eq,
                   List.cons.injEq] at he
        simp [he.1]
      · simp only [if_true, eqIcase, List.length_cons, List.take_succ_cons, List.map_cons, beq_iff_eq,
                   List.cons.injEq, toLower_slash] at he
        simp [toLower_eq_slash he.1]

theorem isPrefixOf_exact {x p : Bytes} (h : isPrefixOf false x p = true) : ∃ rest, p = x ++ rest := by
  unfold isPrefixOf at h
  simp only [Bool.and_eq_true, decide_eq_true_eq, Bool.false_eq_true, if_false, beq_iff_eq] at h
  refine ⟨p.drop x.length, ?_⟩
  have := List.take_append_drop x.length p
  rw [h.2] at this
  exact this.symm

theorem lowerBytes_head_slash {q : Bytes} (h : (lowerBytes q).head? = some slash) : q.head? = some slash := by
  cases q with
  | nil => simp [lowerBytes] at h
  | cons a as =>
    simp only [lowerBytes, List.map_cons, List.head?_cons, Option.some.injEq] at h
    simp [toLower_eq_slash h]

/-! ### symlink walk -/

theorem lastSlashBefore_spec (s : Bytes) : ∀ (n : Nat),
    (∀ j, lastSlashBefore s n = some j → j < n ∧ s.getD j 0 = slash ∧
        ∀ i, i < n → s.getD i 0 = slash → i ≤ j) ∧
    (lastSlashBefore s n = none → ∀ i, i < n → s.getD i 0 ≠ slash) := by
  intro n
  induction n with
  | zero => simp [lastSlashBefore]
  | succ k ih =>
    unfold lastSlashBefore
    split
    · rename_i hk
      refine ⟨?_, by simp⟩
      intro j hj
      simp only [Option.some.injEq] at hj
      subst hj
      exact ⟨by omega, hk, fun i hi _ => by omega⟩
    · rename_i hk
      refine ⟨?_, ?_⟩
      · intro j hj
        obtain ⟨h1, h2, h3⟩ := ih.1 j hj
        refine ⟨by omega, h2, ?_⟩
        intro i hi hs
        by_cases e : i = k
        · subst e; exact absurd hs hk
        · exact h3 i (by omega) hs
      · intro hn i hi
        by_cases e : i = k
        · subst e; exact hk
        · exact ih.2 hn i (by omega)

def fsOk (k : FsKind) : Prop := k ≠ .link ∧ k ≠ .missing

/-- the loop of stat_cache_path_contains_symlink(): result 0 means every probed prefix exists and
    is not a symbolic link; the probed prefixes are the path and its cuts at every '/' but the first -/
theorem symLoop_zero (fs : Bytes → FsKind) : ∀ (n : Nat) (cur : Bytes), cur.length = n →
    symLoop fs cur = 0 →
    fsOk (fs cur) ∧ ∀ i, 0 < i → i < cur.length → cur.getD i 0 = slash → fsOk (fs (cur.take i)) := by
  intro n
  induction n using Nat.strongRecOn with
  | _ n ih =>
    intro cur hlen h
    unfold symLoop at h
    have hk : fsOk (fs cur) := by
      unfold fsOk
      cases hf : fs cur <;> simp [hf] at h <;> simp
    refine ⟨hk, ?_⟩
    have h' : (match lastSlash cur with
        | some j => if _h : 0 < j ∧ j < cur.length then symLoop fs (cur.take j) else 0
        | none => 0) = 0 := by
      cases hf : fs cur <;> simp [hf] at h <;> first | exact h | (exfalso; exact hk.1 hf) | (exfalso; exact hk.2 hf)
    intro i hi0 hil his
    have hspec := lastSlashBefore_spec cur cur.length
    cases hls : lastSlash cur with
    | none =>
      unfold lastSlash at hls
      exact absurd his (hspec.2 hls i hil)
    | some j =>
      have hls' := hls
      unfold lastSlash at hls'
      obtain ⟨hj1, hj2, hj3⟩ := hspec.1 j hls'
      have hij : i ≤ j := hj3 i hil his
      rw [hls] at h'
      simp only at h'
      have hcond : 0 < j ∧ j < cur.length := ⟨by omega, hj1⟩
      rw [dif_pos hcond] at h'
      have hlen' : (cur.take j).length = j := by simp [List.length_take]; omega
      obtain ⟨r1, r2⟩ := ih j (by omega) (cur.take j) hlen' h'
      by_cases e : i = j
      · subst e; exact r1
      · have := r2 i hi0 (by rw [hlen']; omega) (by
          have hlt : i < j := by omega
          simp only [List.getD_eq_getElem?_getD, List.getElem?_take, hlt, if_true] at his ⊢
          exact his)
        rw [List.take_take] at this
        have hmin : min i j = i := by omega
        rw [hmin] at this
        exact this

/-! ### WebDAV Destination -/

theorem canonical_mid_nonempty {r : Bytes} (h : CanonicalAbs r) :
    ∀ seg ∈ ((splitOn slash r).drop 1).dropLast, seg ≠ [] := by
  obtain ⟨stack, hc, hs⟩ := canonical_split h
  intro seg hseg
  rcases hs with hs | ⟨hne, hs⟩ <;> rw [hs] at hseg
  · simp only [List.cons_append, List.drop_succ_cons, List.drop_zero,
               List.dropLast_concat] at hseg
    exact (hc seg hseg).1
  · simp only [List.drop_succ_cons, List.drop_zero] at hseg
    exact (hc seg (List.dropLast_subset _ hseg)).1

theorem getD_split {d : Bytes} {i : Nat} (h : i < d.length) :
    d = d.take i ++ d.getD i 0 :: d.drop (i + 1) := by
  have h1 := List.take_append_drop i d
  have h2 : d.drop i = d[i] :: d.drop (i + 1) := List.drop_eq_getElem_cons h
  have h3 : d.getD i 0 = d[i] := by simp [List.getD_eq_getElem?_getD, List.getElem?_eq_getElem h]
  rw [h3, ← h2, h1]

/-- a canonical path has no "//" -/
theorem canonical_no_double_slash {d : Bytes} (h : CanonicalAbs d) {i : Nat} (h1 : i + 1 < d.length)
    (ha : d.getD i 0 = slash) (hb : d.getD (i + 1) 0 = slash) : False := by
  have e1 := getD_split (d := d) (i := i) (by omega)
  have e2 := getD_split (d := d.drop (i + 1)) (i := 0) (by simp; omega)
  simp only [List.take_zero, List.nil_append, List.drop_drop] at e2
  have hb' : (d.drop (i + 1)).getD 0 0 = slash := by
    simpa [List.getD_eq_getElem?_getD, List.getElem?_drop] using hb
  rw [hb'] at e2
  rw [ha, e2] at e1
  obtain ⟨Hb, Tb, hsb⟩ := splitOn_cons_exists slash (d.drop (i + 1 + (0 + 1)))
  have hss : splitOn slash (slash :: slash :: d.drop (i + 1 + (0 + 1))) = [] :: [] :: Hb :: Tb := by
    rw [splitOn_cons_sep, splitOn_cons_sep, hsb]
  obtain ⟨D, L, _, h2⟩ := splitOn_append slash (d.take i) _ hss
  rw [← e1] at h2
  have hmid := canonical_mid_nonempty h
  rw [h2] at hmid
  cases D with
  | nil =>
    simp only [List.nil_append, List.drop_succ_cons, List.drop_zero] at hmid
    exact hmid [] (by simp [List.dropLast]) rfl
  | cons d0 ds =>
    simp only [List.cons_append, List.drop_succ_cons, List.drop_zero] at hmid
    refine hmid [] ?_ rfl
    rw [List.dropLast_append_of_ne_nil (by simp)]
    simp [List.dropLast]

theorem davDstRel_canonical {lc : Bool} {scheme authority dest d : Bytes}
    (h : davDstRel lc scheme authority dest = .ok d) : CanonicalAbs d := by
  unfold davDstRel at h
  cases hs : davStripOrigin scheme authority dest with
  | error st => rw [hs] at h; simp at h
  | ok p =>
    rw [hs] at h
    simp only at h
    split at h
    · simp at h
    · split at h
      · simp at h
      · split at h
        · simp at h
        · rename_i hhead
          simp only [ne_eq, Decidable.not_not] at hhead
          simp only [Except.ok.injEq] at h
          subst h
          have hc := pathSimplify_head_canonical _ hhead
          cases lc
          · simpa using hc
          · simpa [lowerBytes] using canonical_map_toLower hc

theorem commonLen_le : ∀ (a b : Bytes), commonLen a b ≤ a.length ∧ commonLen a b ≤ b.length := by
  intro a
  induction a with
  | nil => intro b; simp [commonLen]
  | cons x xs ih =>
    intro b
    cases b with
    | nil => simp [commonLen]
    | cons y ys =>
      unfold commonLen
      split
      · have := ih ys; simp only [List.length_cons]; omega
      · simp

theorem commonLen_take : ∀ (a b : Bytes), a.take (commonLen a b) = b.take (commonLen a b) := by
  intro a
  induction a with
  | nil => intro b; simp [commonLen]
  | cons x xs ih =>
    intro b
    cases b with
    | nil => simp [commonLen]
    | cons y ys =>
      unfold commonLen
      split
      · rename_i hxy; subst hxy; simp [ih ys]
      · simp

theorem backToSlash_spec (p : Bytes) : ∀ (c : Nat), backToSlash p c ≤ c ∧
    (backToSlash p c = 0 ∨ (p.getD (backToSlash p c) 0 = slash ∧ backToSlash p c < c)) := by
  intro c
  induction c with
  | zero => simp [backToSlash]
  | succ k ih =>
    unfold backToSlash
    split
    · rename_i hk
      refine ⟨by omega, ?_⟩
      by_cases e : k = 0
      · left; exact e
      · right; exact ⟨hk, by omega⟩
    · obtain ⟨h1, h2⟩ := ih
      refine ⟨by omega, ?_⟩
      rcases h2 with h2 | h2
      · left; exact h2
      · right; exact ⟨h2.1, by omega⟩

theorem drop_len_add (S l : Bytes) (i : Nat) : (S ++ l).drop (S.length + i) = l.drop i := by
  induction S with
  | nil => simp
  | cons x xs ih =>
    have : (x :: xs).length + i = (xs.length + i) + 1 := by simp only [List.length_cons]; omega
    rw [this]; simpa using ih

theorem take_len_add (S l : Bytes) (i : Nat) : (S ++ l).take (S.length + i) = S ++ l.take i := by
  induction S with
  | nil => simp
  | cons x xs ih =>
    have : (x :: xs).length + i = (xs.length + i) + 1 := by simp only [List.length_cons]; omega
    rw [this]; simpa using ih

theorem stripSlash_of_not {X : Bytes} (h : endsWithSlash X = false) : stripSlash X = X := by
  unfold stripSlash; simp [h]

/-- in the plain configuration (physical.path = doc_root + rel_path) the destination is mapped to
    doc_root + destination url-path -/
theorem davDstPath_plain {docroot srcRel S d : Bytes} (hd : CanonicalAbs d)
    (hS : endsWithSlash S = false) :
    davDstPath docroot srcRel (S ++ srcRel) d = S ++ d := by
  unfold davDstPath
  simp only
  have hc := commonLen_le srcRel d
  obtain ⟨hi1, hi2⟩ := backToSlash_spec srcRel (commonLen srcRel d)
  have hidx : davRemapIdx srcRel d = backToSlash srcRel (commonLen srcRel d) := rfl
  generalize hi : davRemapIdx srcRel d = i at *
  rw [← hidx] at hi1 hi2
  have hlen : (S ++ srcRel).length - (srcRel.length - i) = S.length + i := by
    simp only [List.length_append]; omega
  rw [hlen, drop_len_add, take_len_add]
  simp only [if_true]
  have htake : srcRel.take i = d.take i := by
    have := commonLen_take srcRel d
    have h1 : (srcRel.take (commonLen srcRel d)).take i = (d.take (commonLen srcRel d)).take i := by rw [this]
    simp only [List.take_take] at h1
    have hmin : min i (commonLen srcRel d) = i := by omega
    rw [hmin] at h1; exact h1
  rw [htake]
  have hdhead := canonical_head hd
  rcases hi2 with hi2 | ⟨hsl, hlt⟩
  · -- no common directory below "/": doc_root + whole destination path
    rw [hi2]
    simp only [List.take_zero, List.append_nil, List.drop_zero]
    rw [pathAppend_abs S hdhead, stripSlash_of_not hS]
  · -- common directory ends at index i > 0 … or i = 0
    by_cases hi0 : i = 0
    · subst hi0
      simp only [List.take_zero, List.append_nil, List.drop_zero]
      rw [pathAppend_abs S hdhead, stripSlash_of_not hS]
    · have hdi : d.getD i 0 = slash := by
        have h1 : (srcRel.take (commonLen srcRel d)).getD i 0 = (d.take (commonLen srcRel d)).getD i 0 := by
          rw [commonLen_take]
        simp only [List.getD_eq_getElem?_getD, List.getElem?_take, hlt, if_true] at h1
        simp only [List.getD_eq_getElem?_getD] at hsl ⊢
        rw [← h1]; exact hsl
      have hil : i < d.length := by omega
      have hdrop : (d.drop i).head? = some slash := by
        rw [List.drop_eq_getElem_cons hil]
        simp only [List.head?_cons, Option.some.injEq]
        simpa [List.getD_eq_getElem?_getD, List.getElem?_eq_getElem hil] using hdi
      rw [pathAppend_abs _ hdrop]
      obtain ⟨j, rfl⟩ : ∃ j, i = j + 1 := ⟨i - 1, by omega⟩
      have hjl : j < d.length := by omega
      have hnot : endsWithSlash (S ++ d.take (j + 1)) = false := by
        unfold endsWithSlash
        rw [List.take_succ, List.getElem?_eq_getElem hjl]
        simp only [Option.toList_some, ← List.append_assoc, List.getLast?_append,
                   List.getLast?_singleton, Option.some_or, decide_eq_false_iff_not,
                   Option.some.injEq]
        intro e
        exact canonical_no_double_slash hd (i := j) (by omega)
          (by simpa [List.getD_eq_getElem?_getD, List.getElem?_eq_getElem hjl] using e) hdi
      rw [stripSlash_of_not hnot, List.append_assoc, List.take_append_drop]

/-! ### mod_evhost -/

theorem slice_subset {a : Bytes} {i j : Nat} {b : UInt8} (h : b ∈ slice a i j) : b ∈ a := by
  unfold slice at h
  exact (List.take_sublist _ _).subset ((List.drop_sublist _ _).subset h)

theorem mem_slice {a : Bytes} {i j : Nat} {b : UInt8} (h : b ∈ slice a i j) :
    ∃ k, i ≤ k ∧ k < j ∧ a.getD k 0 = b := by
  unfold slice at h
  obtain ⟨m, hm⟩ := List.mem_iff_getElem?.mp h
  rw [List.getElem?_drop, List.getElem?_take] at hm
  split at hm
  · rename_i hlt
    exact ⟨i + m, by omega, hlt, by simp [List.getD_eq_getElem?_getD, hm]⟩
  · simp at hm

theorem slice_ne_nil {a : Bytes} {i j : Nat} (h1 : i < j) (h2 : j ≤ a.length) : slice a i j ≠ [] := by
  intro e
  have := congrArg List.length e
  simp only [slice, List.length_drop, List.length_take, List.length_nil] at this
  omega

/-- every value of the "%n" table is cut out of the authority -/
theorem evLoop2_subset (a : Bytes) : ∀ (p col i : Nat) (acc : List (Nat × Bytes)),
    (∀ e ∈ acc, ∀ b ∈ e.2, b ∈ a) → ∀ e ∈ (evLoop2 a p col i acc).2.2, ∀ b ∈ e.2, b ∈ a := by
  intro p
  induction p with
  | zero => intro col i acc h; simpa [evLoop2] using h
  | succ q ih =>
    intro col i acc h
    unfold evLoop2
    split
    · split
      · apply ih
        intro e he
        simp only [List.mem_append, List.mem_singleton] at he
        rcases he with he | he
        · exact h e he
        · subst he; intro b hb; exact slice_subset hb
      · exact ih _ _ _ h
    · exact ih _ _ _ h

theorem evParseHost_subset (a : Bytes) : ∀ e ∈ evParseHost a, ∀ b ∈ e.2, b ∈ a := by
  unfold evParseHost
  simp only
  split
  · split
    · split
      · simp
      · intro e he b hb
        simp only [List.mem_singleton] at he
        subst he
        exact (List.take_sublist _ _).subset hb
    · intro e he b hb
      simp only [List.mem_singleton] at he
      subst he; exact hb
  · generalize evLoop1 a a.length a.length true = pc
    obtain ⟨ptr, col⟩ := pc
    simp only
    have h0 : ∀ e ∈ [((0 : Nat), slice a (if a.getD ptr 0 = dot then ptr + 1 else ptr) col)],
        ∀ b ∈ e.2, b ∈ a := by
      intro e he b hb
      simp only [List.mem_singleton] at he
      subst he; exact slice_subset hb
    split
    · have h2 := evLoop2_subset a (col - 1) col 1 _ h0
      generalize evLoop2 a (col - 1) col 1 _ = r at h2
      obtain ⟨col2, i, acc⟩ := r
      simp only at h2 ⊢
      split
      · intro e he
        simp only [List.mem_append, List.mem_singleton] at he
        rcases he with he | he
        · exact h2 e he
        · subst he; intro b hb; exact slice_subset hb
      · exact h2
    · exact h0

theorem evLookup_mem {tbl : List (Nat × Bytes)} {n : Nat} {v : Bytes} (h : evLookup tbl n = some v) :
    (n, v) ∈ tbl := by
  unfold evLookup at h
  cases hf : tbl.find? (·.1 = n) with
  | none => simp [hf] at h
  | some e =>
    simp only [hf, Option.map_some, Option.some.injEq] at h
    have hm := List.mem_of_find?_eq_some hf
    have hp := List.find?_some hf
    simp only [decide_eq_true_eq] at hp
    obtain ⟨e1, e2⟩ := e
    simp only at hp h
    subst hp; subst h; exact hm

/-- what a placeholder contributes consists of bytes of the authority (or is "%") -/
theorem evPieceValue_bytes (a : Bytes) (p : EvPiece) (hp : ∀ s, p ≠ .lit s) :
    ∀ b ∈ evPieceValue (evParseHost a) a p, b ∈ a ∨ b = pct := by
  intro b hb
  cases p with
  | lit s => exact absurd rfl (hp s)
  | pct => right; simpa [evPieceValue] using hb
  | fqdn => left; exact hostPart_subset a b (by simpa [evPieceValue] using hb)
  | idx n =>
    left
    simp only [evPieceValue] at hb
    cases hl : evLookup (evParseHost a) n with
    | none => simp [hl] at hb
    | some v =>
      simp only [hl, Option.getD_some] at hb
      exact evParseHost_subset a _ (evLookup_mem hl) b hb
  | sub n m =>
    left
    simp only [evPieceValue] at hb
    cases hl : evLookup (evParseHost a) n with
    | none => simp [hl] at hb
    | some v =>
      have hv := evParseHost_subset a _ (evLookup_mem hl)
      simp only [hl] at hb
      cases m with
      | none => exact hv b hb
      | some k =>
        cases k with
        | zero => exact hv b hb
        | succ k =>
          simp only at hb
          split at hb
          · rename_i hk
            simp only [List.mem_singleton] at hb
            subst hb
            have : k < v.length := by omega
            simp only [List.getD_eq_getElem?_getD, List.getElem?_eq_getElem this, Option.getD_some]
            exact hv _ (List.getElem_mem this)
          · simp at hb

/-- labels %1, %2, ...: non-empty, no '.' - given the authority does not start with '.' -/
theorem evLoop2_labels (a : Bytes) (h0 : a.getD 0 0 ≠ dot) : ∀ (p col i : Nat) (acc : List (Nat × Bytes)),
    p < col → col ≤ a.length → (∀ j, p < j → j < col → a.getD j 0 ≠ dot) → 1 ≤ i →
    (∀ e ∈ acc, 1 ≤ e.1 → e.2 ≠ [] ∧ dot ∉ e.2) →
    (∀ e ∈ (evLoop2 a p col i acc).2.2, 1 ≤ e.1 → e.2 ≠ [] ∧ dot ∉ e.2) ∧
    1 ≤ (evLoop2 a p col i acc).2.1 ∧
    (evLoop2 a p col i acc).1 ≤ a.length ∧ 0 < (evLoop2 a p col i acc).1 ∧
    (∀ j, j < (evLoop2 a p col i acc).1 → a.getD j 0 ≠ dot) := by
  intro p
  induction p with
  | zero =>
    intro col i acc hpc hcl hnd hi hacc
    simp only [evLoop2]
    refine ⟨hacc, hi, hcl, hpc, ?_⟩
    intro j hj
    by_cases e : j = 0
    · subst e; exact h0
    · exact hnd j (by omega) hj
  | succ q ih =>
    intro col i acc hpc hcl hnd hi hacc
    unfold evLoop2
    split
    · rename_i hdot
      split
      · rename_i hne
        apply ih (q + 1) (i + 1) _ (by omega) (by omega) (by intro j h1 h2; omega) (by omega)
        intro e he
        simp only [List.mem_append, List.mem_singleton] at he
        rcases he with he | he
        · exact hacc e he
        · subst he
          intro _
          refine ⟨slice_ne_nil (by omega) hcl, ?_⟩
          intro hm
          obtain ⟨k, hk1, hk2, hk3⟩ := mem_slice hm
          exact hnd k (by omega) hk2 hk3
      · exact ih (q + 1) i acc (by omega) (by omega) (by intro j h1 h2; omega) hi hacc
    · rename_i hdot
      apply ih col i acc (by omega) hcl _ hi hacc
      intro j h1 h2
      by_cases e : j = q + 1
      · subst e; exact hdot
      · exact hnd j (by omega) h2

theorem evLoop1_col (a : Bytes) : ∀ (p col : Nat) (first : Bool), p ≤ a.length → col ≤ a.length →
    (evLoop1 a p col first).2 ≤ a.length := by
  intro p
  induction p with
  | zero => intro col first _ h; simpa [evLoop1] using h
  | succ q ih =>
    intro col first hp hc
    unfold evLoop1
    simp only
    split
    · split
      · exact ih _ _ (by omega) hc
      · exact hc
    · split
      · exact ih _ _ (by omega) (by omega)
      · exact ih _ _ (by omega) hc

theorem evParseHost_labels (a : Bytes) (hd : a.head? ≠ some dot) :
    ∀ e ∈ evParseHost a, 1 ≤ e.1 → e.2 ≠ [] ∧ dot ∉ e.2 := by
  have h0 : a.getD 0 0 ≠ dot := by
    cases a with
    | nil => simp [dot]
    | cons x xs => simpa using hd
  unfold evParseHost
  simp only
  split
  · split
    · split
      · simp
      · intro e he h1; simp only [List.mem_singleton] at he; subst he; simp at h1
    · intro e he h1; simp only [List.mem_singleton] at he; subst he; simp at h1
  · have hcol := evLoop1_col a a.length a.length true (Nat.le_refl _) (Nat.le_refl _)
    generalize evLoop1 a a.length a.length true = pc at hcol
    obtain ⟨ptr, col⟩ := pc
    simp only at hcol ⊢
    have hacc0 : ∀ e ∈ [((0 : Nat), slice a (if a.getD ptr 0 = dot then ptr + 1 else ptr) col)],
        1 ≤ e.1 → e.2 ≠ [] ∧ dot ∉ e.2 := by
      intro e he h1; simp only [List.mem_singleton] at he; subst he; simp at h1
    split
    · rename_i hc0
      have h2 := evLoop2_labels a h0 (col - 1) col 1 _ (by omega) hcol (by intro j h1 h2; omega)
        (Nat.le_refl _) hacc0
      generalize evLoop2 a (col - 1) col 1 _ = r at h2
      obtain ⟨col2, i, acc⟩ := r
      simp only at h2 ⊢
      obtain ⟨g1, g2, g3, g4, g5⟩ := h2
      split
      · intro e he
        simp only [List.mem_append, List.mem_singleton] at he
        rcases he with he | he
        · exact g1 e he
        · subst he
          intro _
          refine ⟨slice_ne_nil g4 g3, ?_⟩
          intro hm
          obtain ⟨k, _, hk2, hk3⟩ := mem_slice hm
          exact g5 k hk2 hk3
      · exact g1
    · exact hacc0

/-- number of '/' the literal parts of an evhost pattern contain -/
def litSlashes (pieces : List EvPiece) : Nat :=
  (pieces.map fun p => match p with | .lit s => s.count slash | _ => 0).sum

/-! ### mod_userdir -/

theorem userdirByte_ne {c : UInt8} (h : (isAlnum c || c == 45 || c == uscore || c == dot) = true) : c ≠ slash := by
  have := byte_forall (fun c => !(isAlnum c || c == 45 || c == uscore || c == dot) || c != slash)
    (by decide +kernel) c
  simpa [h] using this

/-- a user name mod_userdir accepts is one clean path segment -/
theorem userdirNameOk_clean {u : Bytes} (h : userdirNameOk u = true) (hne : u ≠ []) : Clean u := by
  unfold userdirNameOk at h
  rw [Bool.and_eq_true] at h
  obtain ⟨h1, h2⟩ := h
  rw [List.all_eq_true] at h2
  refine ⟨hne, ?_, ?_, ?_⟩
  · intro e; subst e; simp [segDot, dot] at h1
  · intro e; subst e; simp [segDotDot, dot] at h1
  · intro hm
    have := h2 _ hm
    simp only [Bool.or_eq_true, decide_eq_true_eq] at this
    exact userdirByte_ne (c := slash) (by simpa [Bool.or_eq_true] using this) rfl


/-! ### lexical containment -/

/-- `p` lies lexically below the directory `d`: `d` (without its trailing '/') followed by '/'-separated
    segments none of which is "." or ".." -/
def LexBelow (d p : Bytes) : Prop := ∃ r, p = stripSlash d ++ r ∧ r.head? = some slash ∧ NoDotSeg r

theorem lexBelow_of_canonical (d : Bytes) {r : Bytes} (h : CanonicalAbs r) : LexBelow d (stripSlash d ++ r) :=
  ⟨r, rfl, canonical_head h, canonical_noDotSeg h⟩

theorem noDotSeg_cons_slash {t : Bytes} (h : NoDotSeg t) : NoDotSeg (slash :: t) := by
  intro seg hs
  rw [splitOn_cons_sep] at hs
  simp only [List.mem_cons] at hs
  rcases hs with e | e
  · subst e; exact nil_ne_dots
  · exact h seg e

/-- the part behind a prefix that ends at a segment boundary has only segments of the whole -/
theorem noDotSeg_suffix {a b : Bytes} (ha : a = [] ∨ a.getLast? = some slash) (h : NoDotSeg (a ++ b)) :
    NoDotSeg b := by
  obtain ⟨H, T, hb⟩ := splitOn_cons_exists slash b
  obtain ⟨D, L, h1, h2⟩ := splitOn_append slash a b hb
  obtain ⟨D', hD'⟩ := splitOn_last_nil slash a ha
  have hL : L = [] := by
    rw [h1] at hD'
    have := List.append_inj' hD' (by simp)
    simpa using this.2
  subst hL
  intro seg hs
  rw [hb] at hs
  exact h seg (by rw [h2]; simp only [List.nil_append, List.mem_append, List.mem_cons]; right; simpa using hs)

theorem lexBelow_of_prefix_slash {v rest : Bytes} (hv : endsWithSlash v = true) (h : NoDotSeg (v ++ rest)) :
    LexBelow v (v ++ rest) := by
  refine ⟨slash :: rest, ?_, by simp, ?_⟩
  · conv => lhs; rw [← stripSlash_append_slash hv]
    simp
  · exact noDotSeg_cons_slash (noDotSeg_suffix (Or.inr (by unfold endsWithSlash at hv; simpa using hv)) h)

/-! ### Host normalisation keeps the name part -/

theorem natToDec_digits (n : Nat) : ∀ b ∈ natToDec n, isDigit b = true := by
  intro b hb
  unfold natToDec ofString at hb
  simp only [List.mem_map] at hb
  obtain ⟨ch, hch, rfl⟩ := hb
  have hd : ch ∈ Nat.toDigits 10 n := by
    have : (toString n).toList = Nat.toDigits 10 n := by
      rw [Nat.toString_eq_repr, Nat.toList_repr]
    rw [← this]; exact hch
  have := Nat.isDigit_of_mem_toDigits (by decide) (by decide) hd
  unfold Char.isDigit at this
  simp only [Bool.and_eq_true, decide_eq_true_eq] at this
  obtain ⟨h1, h2⟩ := this
  have h1' : 48 ≤ ch.toNat := by
    have : (48 : UInt32) ≤ ch.val := h1
    exact UInt32.le_iff_toNat_le.mp this
  have h2' : ch.toNat ≤ 57 := by
    have : ch.val ≤ (57 : UInt32) := h2
    exact UInt32.le_iff_toNat_le.mp this
  unfold isDigit
  simp only [Bool.and_eq_true, decide_eq_true_eq]
  constructor
  · show (48 : UInt8) ≤ ch.toNat.toUInt8
    rw [UInt8.le_iff_toNat_le]; simp [Nat.toUInt8, UInt8.toNat_ofNat']; omega
  · show ch.toNat.toUInt8 ≤ (57 : UInt8)
    rw [UInt8.le_iff_toNat_le]; simp [Nat.toUInt8, UInt8.toNat_ofNat']; omega


theorem hostPart_takeWhile_prefix {h : Bytes} {ci : Nat} (hci : findIdx (· = colon) h 0 = some ci) :
    hostPart h = h.take ci ∧ colon ∉ h.take ci := by
  obtain ⟨_, hnone, x, r, hd, hx⟩ := findIdx_spec _ _ _ _ hci
  simp only [Nat.sub_zero] at hd hnone
  have hx' : x = colon := by simpa using hx
  have hnc : colon ∉ h.take ci := fun hm => by simpa using hnone _ hm
  refine ⟨?_, hnc⟩
  unfold hostPart
  have hsplit : h = h.take ci ++ colon :: r := by
    rw [← hx', ← hd, List.take_append_drop]
  conv => lhs; rw [hsplit]
  exact takeWhile_append_stop _ _ _ (fun b hb => by
    have : b ≠ colon := fun e => hnc (e ▸ hb)
    simpa using this) (by simp)

theorem hostPart_no_colon {h : Bytes} (hn : findIdx (· = colon) h 0 = none) : hostPart h = h := by
  unfold hostPart
  exact takeWhile_all _ (fun b hb => by simpa using findIdx_none _ _ _ hn b hb)

theorem hostPart_append_colon {hp rest : Bytes} (h : colon ∉ hp) : hostPart (hp ++ colon :: rest) = hp := by
  unfold hostPart
  exact takeWhile_append_stop _ _ _ (fun b hb => by
    have : b ≠ colon := fun e => h (e ▸ hb)
    simpa using this) (by simp)

theorem hostPart_self {hp : Bytes} (h : colon ∉ hp) : hostPart hp = hp := by
  unfold hostPart
  exact takeWhile_all _ (fun b hb => by
    have : b ≠ colon := fun e => h (e ▸ hb)
    simpa using this)

/-- http_request_host_normalize() (hosts not starting with '['): the name part in front of the port is
    kept; what may change is the port (dropped when default or empty, rewritten in decimal) -/
theorem hostNormalizeV4_hostPart {p : Nat} {h a : Bytes} (hh : hostNormalizeV4 p h = some a) :
    hostPart a = hostPart h ∧ ∀ b ∈ a, b ∈ h ∨ b = colon ∨ isDigit b = true := by
  unfold hostNormalizeV4 at hh
  cases hci : findIdx (· = colon) h 0 with
  | none =>
    rw [hci] at hh
    simp only [Option.some.injEq] at hh
    subst hh
    exact ⟨rfl, fun b hb => Or.inl hb⟩
  | some ci =>
    rw [hci] at hh
    obtain ⟨hhp, hnc⟩ := hostPart_takeWhile_prefix hci
    have hsub : ∀ b ∈ h.take ci, b ∈ h := fun b hb => (List.take_sublist _ _).subset hb
    simp only at hh
    split at hh
    · simp at hh
    · split at hh
      · simp only [Option.some.injEq] at hh
        subst hh
        exact ⟨by rw [hhp, hostPart_self hnc], fun b hb => Or.inl (hsub b hb)⟩
      · split at hh
        · simp at hh
        · split at hh
          · split at hh
            · simp only [Option.some.injEq] at hh
              subst hh
              refine ⟨by rw [List.append_assoc, List.singleton_append, hostPart_append_colon hnc, hhp], ?_⟩
              intro b hb
              simp only [List.mem_append, List.mem_singleton] at hb
              rcases hb with (hb | hb) | hb
              · exact Or.inl (hsub b hb)
              · exact Or.inr (Or.inl hb)
              · exact Or.inr (Or.inr (natToDec_digits _ b hb))
            · simp only [Option.some.injEq] at hh
              subst hh
              exact ⟨by rw [hhp, hostPart_self hnc], fun b hb => Or.inl (hsub b hb)⟩
          · simp at hh

theorem colon_ne_slash : colon ≠ slash := by decide

/-- request_check_hostname() (host-strict): no '/', the name part is one clean segment, labels non-empty -/
theorem hostPolicyPlain_strict_spec {h h' : Bytes} (hh : hostPolicyPlain true h = some h') :
    slash ∉ h' ∧ Clean (hostPart h') ∧
    (h'.head? ≠ some 91 → ∀ seg ∈ splitOn dot (hostPart h'), seg ≠ []) := by
  unfold hostPolicyPlain at hh
  simp only [if_true] at hh
  split at hh
  · obtain ⟨h1, h2⟩ := checkHostnameV6_spec hh
    refine ⟨h1, ?_, fun hn => absurd h2 hn⟩
    have hsub := hostPart_subset h'
    have hhead : (hostPart h').head? = some 91 := by
      unfold hostPart
      cases h' with
      | nil => simp at h2
      | cons x xs =>
        simp only [List.head?_cons, Option.some.injEq] at h2
        subst h2
        simp [List.takeWhile_cons, colon]
    refine ⟨?_, ?_, ?_, fun hm => h1 (hsub _ hm)⟩
    · intro e; simp [e] at hhead
    · intro e; rw [e] at hhead; simp [segDot, dot] at hhead
    · intro e; rw [e] at hhead; simp [segDotDot, dot] at hhead
  · obtain ⟨h1, h2, h3⟩ := checkHostnameV4_clean hh
    exact ⟨h1, h2, fun _ => h3⟩

/-- what `authorityOf` (lower-case, policy, normalise) guarantees in strict mode -/
theorem authorityOf_strict {o : Opts} {p : Nat} {raw a : Bytes} (hs : o.hostStrict = true)
    (h : authorityOf o p raw = some a) : slash ∉ a ∧ Clean (hostPart a) ∧ a ≠ [] := by
  unfold authorityOf at h
  cases hp : hostPolicyPlain o.hostStrict (lowerBytes raw) with
  | none => rw [hp] at h; simp at h
  | some h1 =>
    rw [hp] at h
    simp only at h
    rw [hs] at hp
    obtain ⟨g1, g2, _⟩ := hostPolicyPlain_strict_spec hp
    split at h
    · obtain ⟨e1, e2⟩ := hostNormalizeV4_hostPart h
      refine ⟨?_, by rw [e1]; exact g2, ?_⟩
      · intro hm
        rcases e2 _ hm with e | e | e
        · exact g1 e
        · exact colon_ne_slash e.symm
        · exact (isDigit_ne e).1 rfl
      · intro e; rw [e] at e1; rw [← e1] at g2; exact g2.1 (by simp [hostPart])
    · simp only [Option.some.injEq] at h
      subst h
      exact ⟨g1, g2, fun e => g2.1 (by simp [e, hostPart])⟩


/-! ### mod_evhost: %0 never is ".." -/

theorem slice_cons {a : Bytes} {i j : Nat} (h1 : i < j) (h2 : j ≤ a.length) :
    slice a i j = a.getD i 0 :: slice a (i + 1) j := by
  unfold slice
  have hi : i < (a.take j).length := by simp [List.length_take]; omega
  rw [List.drop_eq_getElem_cons hi]
  congr 1
  simp [List.getD_eq_getElem?_getD, List.getElem_take, List.getElem?_eq_getElem (show i < a.length by omega)]

theorem slice_empty {a : Bytes} {i j : Nat} (h : j ≤ i) : slice a i j = [] := by
  unfold slice
  apply List.drop_eq_nil_of_le
  simp [List.length_take]; omega

theorem getD_len (a : Bytes) : a.getD a.length 0 = 0 := by
  simp [List.getD_eq_getElem?_getD]

/-- first loop of mod_evhost_parse_host(): the slice it delimits for %0 holds at most one '.' -/
theorem evLoop1_count (a : Bytes) : ∀ (q col : Nat) (first : Bool), col ≤ a.length → q ≤ col →
    (q = col → q = a.length ∧ first = true) →
    (slice a (q + 1) col).count dot = (if first then 0 else 1) →
    (slice a (if a.getD (evLoop1 a q col first).1 0 = dot then (evLoop1 a q col first).1 + 1
              else (evLoop1 a q col first).1) (evLoop1 a q col first).2).count dot ≤ 1 := by
  intro q
  induction q with
  | zero =>
    intro col first hc _ _ hcnt
    by_cases h0 : a.getD 0 0 = dot
    · simp only [evLoop1, h0, if_true]
      rw [hcnt]; split <;> omega
    · simp only [evLoop1, h0, if_false]
      by_cases hcol : 0 < col
      · rw [slice_cons hcol hc, List.count_cons]
        simp only [beq_iff_eq, h0, if_false, Nat.add_zero]
        rw [hcnt]; split <;> omega
      · rw [slice_empty (by omega)]; simp
  | succ p ih =>
    intro col first hc hq hqc hcnt
    -- the byte examined: a[p+1]; if p+1 = col it is the terminating NUL
    have hstep : p + 1 < col ∨ (p + 1 = col ∧ a.getD (p + 1) 0 = 0 ∧ first = true) := by
      by_cases e : p + 1 = col
      · right
        obtain ⟨e1, e2⟩ := hqc e
        exact ⟨e, by rw [e1]; exact getD_len a, e2⟩
      · left; omega
    unfold evLoop1
    simp only
    by_cases hd : a.getD (p + 1) 0 = dot
    · have hlt : p + 1 < col := by
        rcases hstep with h | ⟨_, h0, _⟩
        · exact h
        · rw [h0] at hd; exact absurd hd (by decide)
      simp only [hd, if_true]
      cases first with
      | true =>
        simp only [if_true]
        apply ih col false hc (by omega) (by intro e; omega)
        rw [slice_cons hlt hc, hd, List.count_cons_self, hcnt]; simp
      | false =>
        simp only [Bool.false_eq_true, if_false, hd, if_true]
        rw [hcnt]; simp
    · simp only [hd, if_false]
      by_cases hco : a.getD (p + 1) 0 = colon
      · simp only [hco, if_true]
        apply ih (p + 1) true (by omega) (by omega) (by intro e; omega)
        rw [slice_empty (Nat.le_refl _)]; simp
      · simp only [hco, if_false]
        apply ih col first hc (by omega) (by intro e; omega)
        rcases hstep with hlt | ⟨e, _, hf⟩
        · rw [slice_cons hlt hc, List.count_cons]
          simp only [beq_iff_eq, hd, if_false, Nat.add_zero]; exact hcnt
        · rw [slice_empty (by omega), hf]; simp

theorem evLoop2_prefix (a : Bytes) : ∀ (p col i : Nat) (acc : List (Nat × Bytes)),
    ∃ more, (evLoop2 a p col i acc).2.2 = acc ++ more ∧ ∀ e ∈ more, i ≤ e.1 := by
  intro p
  induction p with
  | zero => intro col i acc; exact ⟨[], by simp [evLoop2], by simp⟩
  | succ q ih =>
    intro col i acc
    unfold evLoop2
    split
    · split
      · obtain ⟨more, h1, h2⟩ := ih (q + 1) (i + 1) (acc ++ [(i, slice a (q + 2) col)])
        refine ⟨(i, slice a (q + 2) col) :: more, by rw [h1]; simp, ?_⟩
        intro e he
        simp only [List.mem_cons] at he
        rcases he with rfl | he
        · exact Nat.le_refl _
        · have := h2 e he; omega
      · exact ih _ _ _
    · exact ih _ _ _

/-- the value of %0 (domain + tld) is never ".." - for every authority, any mode -/
theorem evParseHost_zero_not_dotdot (a : Bytes) (v : Bytes) (h : evLookup (evParseHost a) 0 = some v) :
    v ≠ segDotDot := by
  unfold evParseHost at h
  simp only at h
  split at h
  · rename_i hb
    -- "[...]" literal: the value starts with '[' or is empty
    have hv : v = [] ∨ v.head? = some 91 := by
      split at h
      · split at h
        · simp [evLookup] at h
        · simp only [evLookup, List.find?_cons_of_pos, decide_true, Option.map_some, Option.some.injEq] at h
          subst h
          cases a with
          | nil => simp at hb
          | cons x xs =>
            cases hn : evScanBack (x :: xs) ((x :: xs).length - 1) with
            | zero => left; simp
            | succ k => right; simpa using hb
      · simp only [evLookup, List.find?_cons_of_pos, decide_true, Option.map_some, Option.some.injEq] at h
        subst h; right; exact hb
    intro e
    rcases hv with hv | hv
    · rw [hv] at e; simp [segDotDot] at e
    · rw [e] at hv; simp [segDotDot, dot] at hv
  · have hcnt := evLoop1_count a a.length a.length true (Nat.le_refl _) (Nat.le_refl _)
      (fun _ => ⟨rfl, rfl⟩) (by rw [slice_empty (by omega)]; simp)
    generalize evLoop1 a a.length a.length true = pc at h hcnt
    obtain ⟨ptr, col⟩ := pc
    simp only at h hcnt
    -- the table starts with the %0 entry in every branch
    have hfirst : ∀ (tbl : List (Nat × Bytes)),
        evLookup ((0, slice a (if a.getD ptr 0 = dot then ptr + 1 else ptr) col) :: tbl) 0
          = some (slice a (if a.getD ptr 0 = dot then ptr + 1 else ptr) col) := by
      intro tbl; simp [evLookup]
    have hv : v = slice a (if a.getD ptr 0 = dot then ptr + 1 else ptr) col := by
      split at h
      · obtain ⟨more, hm, _⟩ := evLoop2_prefix a (col - 1) col 1
          [(0, slice a (if a.getD ptr 0 = dot then ptr + 1 else ptr) col)]
        generalize evLoop2 a (col - 1) col 1 _ = r at h hm
        obtain ⟨col2, i, acc⟩ := r
        simp only at h hm
        subst hm
        split at h
        · rw [List.singleton_append, List.cons_append, hfirst] at h
          exact (Option.some.inj h).symm
        · rw [List.singleton_append, hfirst] at h
          exact (Option.some.inj h).symm
      · rw [hfirst] at h; exact (Option.some.inj h).symm
    intro e
    rw [hv] at e
    rw [e] at hcnt
    simp [segDotDot] at hcnt


/-! ### more on segments -/

theorem noDotSeg_append {x y : Bytes} (hx : NoDotSeg x) (hy : NoDotSeg y) (hh : y.head? = some slash) :
    NoDotSeg (x ++ y) := by
  obtain ⟨H, T, hb⟩ := splitOn_cons_exists slash y
  have hH : H = [] := by
    have := splitOn_head slash y hb
    cases y with
    | nil => simp at hh
    | cons c r => simp at hh; subst hh; simpa [List.takeWhile_cons] using this
  subst hH
  obtain ⟨D, L, h1, h2⟩ := splitOn_append slash x y hb
  intro seg hs
  rw [h2] at hs
  simp only [List.append_nil, List.mem_append, List.mem_cons] at hs
  rcases hs with hs | hs | hs
  · exact hx seg (by rw [h1]; simp [hs])
  · exact hx seg (by rw [h1]; simp [hs])
  · exact hy seg (by rw [hb]; simp [hs])

theorem noDotSeg_nil : NoDotSeg [] := by
  intro seg hs; simp [splitOn] at hs; subst hs; exact nil_ne_dots

/-- dropping a trailing '/' keeps the segments -/
theorem noDotSeg_stripSlash {x : Bytes} (hx : NoDotSeg x) : NoDotSeg (stripSlash x) := by
  unfold stripSlash
  split
  · rename_i he
    have hxe := stripSlash_append_slash he
    unfold stripSlash at hxe; rw [if_pos he] at hxe
    obtain ⟨D, L, h1, h2⟩ := splitOn_append slash x.dropLast [slash] (H := []) (T := [[]])
      (by simp [splitOn])
    rw [hxe] at h2
    intro seg hs
    exact hx seg (by rw [h2]; rw [h1] at hs; simp only [List.mem_append, List.mem_singleton] at hs ⊢
                     rcases hs with hs | hs
                     · left; exact hs
                     · right; simp [hs])
  · exact hx

theorem stripSlash_head {x : Bytes} (h : x.head? = some slash) (hne : stripSlash x ≠ []) :
    (stripSlash x).head? = some slash := by
  unfold stripSlash at hne ⊢
  split
  · rename_i he
    rw [if_pos he] at hne
    cases x with
    | nil => simp at h
    | cons c r =>
      cases r with
      | nil => simp at hne
      | cons c2 r2 => simpa [List.dropLast] using h
  · exact h

/-- the absolute spelling of a configured relative name -/
def absName (v : Bytes) : Bytes := if v.head? = some slash then v else slash :: v

theorem pathAppend_absName (X v : Bytes) : pathAppend X v = stripSlash X ++ absName v := by
  unfold pathAppend absName
  by_cases he : endsWithSlash X = true
  · rw [if_pos he]
    conv => lhs; rw [← stripSlash_append_slash he]
    by_cases hv : v.head? = some slash
    · rw [if_pos hv, if_pos hv]
      cases v with
      | nil => simp at hv
      | cons c r => simp at hv; subst hv; simp
    · rw [if_neg hv, if_neg hv]; simp
  · simp only [he]
    rw [stripSlash_of_not (by simpa using he)]
    by_cases hv : v.head? = some slash
    · simp [hv]
    · simp [hv]

theorem absName_head (v : Bytes) : (absName v).head? = some slash := by
  unfold absName; split
  · assumption
  · simp

/-- appending a configured name to a path below `root` stays below `root` -/
theorem lexBelow_pathAppend {root X v : Bytes} (hX : LexBelow root X)
    (hv : NoDotSeg (absName v)) : LexBelow root (pathAppend X v) := by
  rw [pathAppend_absName]
  obtain ⟨r1, hp, hh, hn⟩ := hX
  -- X = stripSlash root ++ r1
  have hr1 : r1 ≠ [] := by intro e; simp [e] at hh
  have hstrip : stripSlash X = stripSlash root ++ stripSlash r1 := by
    have hend : endsWithSlash X = endsWithSlash r1 := by
      unfold endsWithSlash; rw [hp, List.getLast?_append]
      cases hl : r1.getLast? with
      | none => simp [List.getLast?_eq_none_iff] at hl; exact absurd hl hr1
      | some z => simp
    by_cases he : endsWithSlash r1 = true
    · have h1 : stripSlash X = X.dropLast := by unfold stripSlash; rw [hend, if_pos he]
      have h2 : stripSlash r1 = r1.dropLast := by unfold stripSlash; rw [if_pos he]
      rw [h1, h2, hp, List.dropLast_append_of_ne_nil hr1]
    · have h1 : stripSlash X = X := by unfold stripSlash; rw [hend, if_neg he]
      have h2 : stripSlash r1 = r1 := by unfold stripSlash; rw [if_neg he]
      rw [h1, h2, hp]
  rw [hstrip, List.append_assoc]
  refine ⟨stripSlash r1 ++ absName v, rfl, ?_, noDotSeg_append (noDotSeg_stripSlash hn) hv (absName_head v)⟩
  by_cases he : stripSlash r1 = []
  · rw [he, List.nil_append]; exact absName_head v
  · rw [List.head?_append, stripSlash_head hh he]; rfl

theorem lexBelow_pathAppend_root (root v : Bytes) (hv : NoDotSeg (absName v)) :
    LexBelow root (pathAppend root v) := by
  rw [pathAppend_absName]
  exact ⟨absName v, rfl, absName_head v, hv⟩


/-! ### the roots a configuration designates -/

/-- strict mode: the authority does not start with '.' -/
theorem authorityOf_strict_head {o : Opts} {p : Nat} {raw a : Bytes} (hs : o.hostStrict = true)
    (h : authorityOf o p raw = some a) : a.head? ≠ some dot := by
  obtain ⟨_, hc, hne⟩ := authorityOf_strict hs h
  -- hostPart a is non-empty and (hostPart a).head = a.head
  have hh : (hostPart a).head? = a.head? := by
    rcases hostPart_head a with e | e
    · exact absurd (by simpa [List.head?_eq_none_iff] using e) hc.1
    · exact e
  intro e
  rw [← hh] at e
  -- a name part starting with '.' has an empty first label, or is a "[...]" literal - both excluded
  unfold authorityOf at h
  cases hp : hostPolicyPlain o.hostStrict (lowerBytes raw) with
  | none => rw [hp] at h; simp at h
  | some h1 =>
    rw [hp] at h
    rw [hs] at hp
    obtain ⟨_, g2, g3⟩ := hostPolicyPlain_strict_spec hp
    have hpart : hostPart a = hostPart h1 := by
      simp only at h
      split at h
      · exact (hostNormalizeV4_hostPart h).1
      · simp only [Option.some.injEq] at h; rw [h]
    rw [hpart] at e
    have hh1 : (hostPart h1).head? = h1.head? := by
      rcases hostPart_head h1 with e' | e'
      · exact absurd (by simpa [List.head?_eq_none_iff] using e') g2.1
      · exact e'
    have hnb : h1.head? ≠ some 91 := by rw [← hh1, e]; decide
    obtain ⟨H, T, hsp⟩ := splitOn_cons_exists dot (hostPart h1)
    have hH := splitOn_head dot _ hsp
    have hHne : H ≠ [] := g3 hnb H (by rw [hsp]; simp)
    cases hhp : hostPart h1 with
    | nil => exact g2.1 hhp
    | cons c r =>
      rw [hhp] at e hH
      simp only [List.head?_cons, Option.some.injEq] at e
      subst e
      simp [List.takeWhile_cons] at hH
      exact hHne hH

/-- a placeholder of an evhost pattern never contributes "..", nor a '/' -/
theorem evPieceValue_safe (a : Bytes) (hd : a.head? ≠ some dot) (hs : slash ∉ a) (p : EvPiece)
    (hp : ∀ s, p ≠ .lit s) :
    evPieceValue (evParseHost a) a p ≠ segDotDot ∧ slash ∉ evPieceValue (evParseHost a) a p := by
  refine ⟨?_, ?_⟩
  · have hlabel : ∀ n v, evLookup (evParseHost a) n = some v → v ≠ segDotDot := by
      intro n v hl
      cases n with
      | zero => exact evParseHost_zero_not_dotdot a v hl
      | succ k =>
        have := (evParseHost_labels a hd _ (evLookup_mem hl) (by simp)).2
        intro e; exact this (by simp [e, segDotDot])
    cases p with
    | lit s => exact absurd rfl (hp s)
    | pct => simp [evPieceValue, segDotDot, pct, dot]
    | fqdn =>
      simp only [evPieceValue]
      intro e
      rcases hostPart_head a with e' | e'
      · rw [e] at e'; simp [segDotDot] at e'
      · rw [e] at e'; exact hd (by rw [← e']; simp [segDotDot])
    | idx n =>
      simp only [evPieceValue]
      cases hl : evLookup (evParseHost a) n with
      | none => simp [segDotDot]
      | some v => simpa using hlabel n v hl
    | sub n m =>
      simp only [evPieceValue]
      cases hl : evLookup (evParseHost a) n with
      | none => simp [segDotDot]
      | some v =>
        simp only
        cases m with
        | none => exact hlabel n v hl
        | some k =>
          cases k with
          | zero => exact hlabel n v hl
          | succ k => simp only; split <;> simp [segDotDot]
  · intro hm
    rcases evPieceValue_bytes a p hp slash hm with e | e
    · exact hs e
    · exact absurd e (by decide)

/-- what the handle_docroot hooks may leave as doc root -/
inductive VhostRootOk (docroot : Bytes) (a : Bytes) : VhostCfg → Bytes → Prop
  | configured (vh : VhostCfg) : VhostRootOk docroot a vh docroot
  | simpleHost (sroot : Bytes) (defhost droot : Option Bytes) :
      (hostPart a = [] ∨ Clean (hostPart a)) →
      VhostRootOk docroot a (.simple sroot defhost droot) (svhostPath sroot (some a) droot)
  | simpleDefault (sroot : Bytes) (defhost droot : Option Bytes) :
      VhostRootOk docroot a (.simple sroot defhost droot) (svhostPath sroot defhost droot)
  | evhost (pieces : List EvPiece) :
      (∀ p ∈ pieces, (∀ s, p ≠ .lit s) →
        evPieceValue (evParseHost a) a p ≠ segDotDot ∧ slash ∉ evPieceValue (evParseHost a) a p) →
      VhostRootOk docroot a (.evhost pieces) (evBuildPath pieces a)

theorem guard_lenient {a : Bytes} (hg : svhostGuard false a = true) :
    a.head? ≠ some dot ∧ slash ∉ a := by
  unfold svhostGuard at hg
  rw [Bool.and_eq_true] at hg
  obtain ⟨_, hg2⟩ := hg
  simp only [Bool.false_or] at hg2
  rw [Bool.and_eq_true] at hg2
  exact ⟨of_decide_eq_true hg2.1, by simpa using hg2.2⟩

theorem vhostRoot_ok {o : Opts} {raw a docroot : Bytes} {vh : VhostCfg} {isdir : Bytes → Bool}
    (ha : authorityOf o 80 raw = some a) :
    VhostRootOk docroot a vh (vhostRoot o.hostStrict docroot vh isdir a) := by
  -- facts about the authority once a module's guard let it through
  have hfacts : ∀ g : Bool, (g = svhostGuard o.hostStrict a) → g = true →
      a.head? ≠ some dot ∧ slash ∉ a := by
    intro g hg hgt
    cases hs : o.hostStrict with
    | true =>
      exact ⟨authorityOf_strict_head hs ha, (authorityOf_strict hs ha).1⟩
    | false => rw [hs] at hg; exact guard_lenient (hg ▸ hgt)
  cases vh with
  | none => exact .configured _
  | simple sroot defhost droot =>
    unfold vhostRoot svhostDocroot
    simp only
    split
    · rename_i d sn heq
      split at heq
      · rename_i hc
        simp only [Option.some.injEq, Prod.mk.injEq] at heq
        rw [← heq.1]
        rw [Bool.and_eq_true] at hc
        obtain ⟨hd, hsl⟩ := hfacts _ rfl hc.1
        apply VhostRootOk.simpleHost
        by_cases he : hostPart a = []
        · left; exact he
        · right
          have hsub := hostPart_subset a
          have hh : (hostPart a).head? ≠ some dot := by
            rcases hostPart_head a with e | e
            · rw [e]; simp
            · rw [e]; exact hd
          refine ⟨he, ?_, ?_, fun hm => hsl (hsub _ hm)⟩
          · intro e; rw [e] at hh; simp [segDot] at hh
          · intro e; rw [e] at hh; simp [segDotDot] at hh
      · split at heq
        · simp only [Option.some.injEq, Prod.mk.injEq] at heq
          rw [← heq.1]; exact .simpleDefault _ _ _
        · simp at heq
    · exact .configured _
  | evhost pieces =>
    unfold vhostRoot evhostDocroot
    simp only
    split
    · rename_i d heq
      split at heq
      · simp at heq
      · rename_i hg
        split at heq
        · simp only [Option.some.injEq] at heq
          rw [← heq]
          have hg' : evhostGuard o.hostStrict a = true := by simpa using hg
          obtain ⟨hd, hsl⟩ := hfacts _ (by unfold svhostGuard evhostGuard; rfl) hg'
          exact .evhost pieces (fun p _ hp => evPieceValue_safe a hd hsl p hp)
        · simp at heq
    · exact .configured _


/-! ### mod_alias, mod_userdir, whole request -/

theorem aliasRemap_spec (lc : Bool) (aliases : List (Bytes × Bytes)) (basedir uri : Bytes)
    (hu : CanonicalAbs uri) (hwf : ∀ kv ∈ aliases, CanonicalAbs kv.2) :
    aliasRemap lc aliases basedir (stripSlash basedir ++ uri) = .forbidden ∨
    aliasRemap lc aliases basedir (stripSlash basedir ++ uri) = .go (stripSlash basedir ++ uri) basedir ∨
    ∃ k v, (k, v) ∈ aliases ∧
      aliasRemap lc aliases basedir (stripSlash basedir ++ uri) = .go (v ++ uri.drop k.length) v ∧
      NoDotSeg (v ++ uri.drop k.length) ∧ (v ++ uri.drop k.length).head? = some slash := by
  have hlen : (if endsWithSlash basedir then basedir.length - 1 else basedir.length)
      = (stripSlash basedir).length := by
    unfold stripSlash; split <;> simp
  have hune := canonical_ne_nil hu
  unfold aliasRemap
  simp only [hlen, List.drop_left]
  have hnot : ((stripSlash basedir ++ uri).length = 0 ||
      (stripSlash basedir ++ uri).length < (stripSlash basedir).length) = false := by
    have : 0 < uri.length := List.length_pos_iff.mpr hune
    simp only [List.length_append, Bool.or_eq_false_iff, decide_eq_false_iff_not]
    omega
  simp only [hnot, Bool.false_eq_true, if_false]
  cases hm : aliasMatch lc uri aliases with
  | none => right; left; rfl
  | some kv =>
    obtain ⟨k, v⟩ := kv
    simp only
    obtain ⟨hmem, hkl, heq⟩ := aliasMatch_spec hm
    have hv := hwf _ hmem
    cases hg : aliasGuard k v (uri.drop k.length) with
    | true => left; simp
    | false =>
      right; right
      refine ⟨k, v, hmem, by simp, ?_, ?_⟩
      · have hke : (uri.take k.length = []) ↔ k = [] := by
          cases lc
          · simp only [Bool.false_eq_true, if_false] at heq; rw [heq]
          · simp only [if_true] at heq; exact eqIcase_nil_iff heq
        have hks : endsWithSlash (uri.take k.length) = endsWithSlash k := by
          cases lc
          · simp only [Bool.false_eq_true, if_false] at heq; rw [heq]
          · simp only [if_true] at heq; exact eqIcase_endsWithSlash heq
        exact alias_noDotSeg hu hv hkl hke hks hg
      · have := canonical_head hv
        cases v with
        | nil => simp at this
        | cons x xs => simpa using this


theorem appendSlash_eq {b : Bytes} (hb : b ≠ []) : appendSlash b = stripSlash b ++ [slash] := by
  unfold appendSlash
  by_cases he : endsWithSlash b = true
  · simp only [he, Bool.not_true, Bool.false_eq_true, and_false, if_false]
    exact (stripSlash_append_slash he).symm
  · have he' : endsWithSlash b = false := by simpa using he
    simp only [he', Bool.not_false, and_true, hb, ne_eq, not_false_eq_true, if_true]
    rw [stripSlash_of_not he']

theorem dropWhile_head_stop (p : UInt8 → Bool) : ∀ (l : Bytes) (x : UInt8) (t : Bytes),
    l.dropWhile p = x :: t → p x = false := by
  intro l
  induction l with
  | nil => intro x t h; simp at h
  | cons c r ih =>
    intro x t h
    simp only [List.dropWhile_cons] at h
    split at h
    · exact ih x t h
    · rename_i hc
      simp only [List.cons.injEq] at h
      rw [← h.1]; simpa using hc

theorem pathAppend_ne_nil (X v : Bytes) : pathAppend X v ≠ [] := by
  rw [pathAppend_absName]
  intro e
  have := absName_head v
  simp only [List.append_eq_nil_iff] at e
  rw [e.2] at this; simp at this

/-- mod_userdir: the home directory is built from one clean segment, and the physical path lies
    lexically below it -/
theorem userdirRemap_spec {lc lh : Bool} {basepath upath uriPath relPath p b : Bytes}
    (hrel : NoDotSeg relPath)
    (h : userdirRemap lc lh basepath upath uriPath relPath = .go p b) :
    (∃ name, Clean name ∧
      b = pathAppend (pathAppend (if lh then pathAppend basepath (name.take 1) else basepath) name) upath) ∧
    LexBelow b p := by
  unfold userdirRemap at h
  split at h
  · rename_i rest
    dsimp only at h
    split at h
    · split at h <;> simp at h
    · split at h
      · simp at h
      · rename_i hne
        split at h
        · simp at h
        · split at h
          · simp at h
          · rename_i hok
            simp only [Bool.not_eq_true, Bool.not_eq_false'] at hok
            have hne' : rest.takeWhile (· ≠ slash) ≠ [] := by
              intro e; exact hne (by rw [e]; rfl)
            have hc := userdirNameOk_clean hok hne'
            have hc' : Clean (if lc then lowerBytes (rest.takeWhile (· ≠ slash)) else rest.takeWhile (· ≠ slash)) := by
              cases lc
              · simpa using hc
              · simpa [lowerBytes] using clean_map_toLower hc
            generalize (if lc then lowerBytes (rest.takeWhile (· ≠ slash)) else rest.takeWhile (· ≠ slash)) = u' at h hc'
            split at h
            · simp at h
            · simp only [UserdirRes.go.injEq] at h
              obtain ⟨hp, hb⟩ := h
              refine ⟨⟨u', hc', hb.symm⟩, ?_⟩
              have hbne : b ≠ [] := by rw [← hb]; exact pathAppend_ne_nil _ _
              rw [hb] at hp
              -- the tail of rel_path behind "/~user/"
              cases htl : List.dropWhile (fun x => decide (x ≠ slash)) (List.drop 2 relPath) with
              | nil =>
                rw [htl] at hp
                simp only at hp
                rw [← hp, appendSlash_eq hbne]
                exact ⟨[slash], rfl, by simp, noDotSeg_cons_slash noDotSeg_nil⟩
              | cons x t =>
                rw [htl] at hp
                simp only at hp
                have hx : x = slash := by
                  have := dropWhile_head_stop _ _ _ _ htl
                  simpa using this
                subst hx
                -- relPath = prefix ending in '/' ++ t
                have hsplit : relPath = (relPath.take 2 ++ (relPath.drop 2).takeWhile (fun x => decide (x ≠ slash)) ++ [slash]) ++ t := by
                  have h1 := List.take_append_drop 2 relPath
                  have h2 := List.takeWhile_append_dropWhile (p := fun x => decide (x ≠ slash)) (l := relPath.drop 2)
                  rw [htl] at h2
                  conv => lhs; rw [← h1, ← h2]
                  simp
                have ht : NoDotSeg t := by
                  rw [hsplit] at hrel
                  exact noDotSeg_suffix (Or.inr (by simp)) hrel
                rw [← hp, appendSlash_eq hbne, List.append_assoc]
                exact ⟨slash :: t, by simp, by simp, noDotSeg_cons_slash ht⟩
  · simp at h

/-- the roots a configuration designates for a request whose authority is `a` -/
inductive DesignatedRoot (cfg : ServeCfg) (a : Bytes) : Bytes → Prop
  | vhost {dr : Bytes} : VhostRootOk cfg.docroot a cfg.vh dr → DesignatedRoot cfg a dr
  | alias {k v : Bytes} : (k, v) ∈ cfg.aliases → DesignatedRoot cfg a v
  | userdir {u : UserdirCfg} {name : Bytes} : cfg.userdir = some u → Clean name →
      DesignatedRoot cfg a
        (pathAppend (pathAppend (if u.letterhomes then pathAppend u.basepath (name.take 1) else u.basepath) name) u.path)

theorem servePath_spec {o : Opts} {lc : Bool} {docroot : Bytes} {vh : VhostCfg} {isdir : Bytes → Bool}
    {aliases : List (Bytes × Bytes)} {raw target p d : Bytes}
    (hal : ∀ kv ∈ aliases, CanonicalAbs kv.2)
    (h : servePath o lc docroot vh isdir aliases raw target = .path p d) :
    ∃ a t, authorityOf o 80 raw = some a ∧ parseTarget o false target = .ok t ∧
      ((d = vhostRoot o.hostStrict docroot vh isdir a ∧ LexBelow d p) ∨
       (∃ k v, (k, v) ∈ aliases ∧ d = v ∧ ∃ rest, p = v ++ rest ∧ NoDotSeg p ∧ p.head? = some slash)) := by
  unfold servePath at h
  cases ht : parseTarget o false target with
  | error e => simp [ht] at h
  | ok t =>
    simp only [ht] at h
    cases ha : authorityOf o 80 raw with
    | none => simp [ha] at h
    | some a =>
      simp only [ha] at h
      refine ⟨a, t, rfl, rfl, ?_⟩
      have hcan : CanonicalAbs t.path := by
        -- (the statement of c02_uri_path_canonical)
        unfold parseTarget at ht
        simp only [Bool.false_eq_true, ↓reduceIte] at ht
        split at ht
        · simp at ht
        · split at ht <;>
          · split at ht
            · rename_i hhead
              simp only [Except.ok.injEq] at ht
              subst ht
              exact pathSimplify_head_canonical _ hhead
            · simp at ht
      have hr : CanonicalAbs (if lc then lowerBytes t.path else t.path) := by
        cases lc
        · simpa using hcan
        · simpa [lowerBytes] using canonical_map_toLower hcan
      have hphys : physicalPath lc (vhostRoot o.hostStrict docroot vh isdir a) t.path
          = stripSlash (vhostRoot o.hostStrict docroot vh isdir a) ++ (if lc then lowerBytes t.path else t.path) := by
        unfold physicalPath; exact pathAppend_abs _ (canonical_head hr)
      rw [hphys] at h
      split at h
      · simp only [ServeRes.path.injEq] at h
        left
        exact ⟨h.2.symm, by rw [← h.1, ← h.2]; exact lexBelow_of_canonical _ hr⟩
      · rcases aliasRemap_spec lc aliases (vhostRoot o.hostStrict docroot vh isdir a) _ hr hal with hf | hg | ⟨k, v, hm, hg, hn, hh⟩
        · rw [hf] at h; simp at h
        · rw [hg] at h
          simp only [ServeRes.path.injEq] at h
          left
          exact ⟨h.2.symm, by rw [← h.1, ← h.2]; exact lexBelow_of_canonical _ hr⟩
        · rw [hg] at h
          simp only [ServeRes.path.injEq] at h
          right
          exact ⟨k, v, hm, h.2.symm, _, h.1.symm, by rw [← h.1]; exact hn, by rw [← h.1]; exact hh⟩


/-- index resolution keeps a path below its root (relative names) or puts it below the doc root
    (names starting with '/') -/
theorem index_below {exists_ : Bytes → Bool} {dr p root : Bytes} {names : List Bytes}
    (hidx : ∀ v ∈ names, NoDotSeg (absName v)) (hp : LexBelow root p) :
    LexBelow root (indexResolve exists_ dr p names) ∨ LexBelow dr (indexResolve exists_ dr p names) := by
  induction names with
  | nil => left; exact hp
  | cons v rest ih =>
    unfold indexResolve
    dsimp only
    by_cases he : exists_ (pathAppend (if v.head? = some slash then dr else p) v) = true
    · rw [if_pos he]
      by_cases hv : v.head? = some slash
      · right; rw [if_pos hv]; exact lexBelow_pathAppend_root dr v (hidx v (by simp))
      · left; rw [if_neg hv]; exact lexBelow_pathAppend hp (hidx v (by simp))
    · rw [if_neg he]; exact ih (fun w hw => hidx w (by simp [hw]))

/-- the same for a path that only has the alias target as a string prefix (target without trailing '/') -/
theorem index_prefix {exists_ : Bytes → Bool} {dr p v : Bytes} {names : List Bytes}
    (hidx : ∀ w ∈ names, NoDotSeg (absName w)) (hv : endsWithSlash v = false) (hvne : v ≠ [])
    (hp : ∃ rest, p = v ++ rest ∧ NoDotSeg p) :
    (∃ rest, indexResolve exists_ dr p names = v ++ rest ∧ NoDotSeg (indexResolve exists_ dr p names)) ∨
    LexBelow dr (indexResolve exists_ dr p names) := by
  induction names with
  | nil => left; exact hp
  | cons w rest ih =>
    unfold indexResolve
    dsimp only
    by_cases he : exists_ (pathAppend (if w.head? = some slash then dr else p) w) = true
    · rw [if_pos he]
      by_cases hw : w.head? = some slash
      · right; rw [if_pos hw]; exact lexBelow_pathAppend_root dr w (hidx w (by simp))
      · left; rw [if_neg hw, pathAppend_absName]
        obtain ⟨r0, hr0, hn⟩ := hp
        have hstrip : ∃ r1, stripSlash p = v ++ r1 := by
          unfold stripSlash
          split
          · rename_i hpe
            by_cases hr : r0 = []
            · subst hr; rw [List.append_nil] at hr0; rw [hr0, hv] at hpe; exact absurd hpe (by simp)
            · exact ⟨r0.dropLast, by rw [hr0, List.dropLast_append_of_ne_nil hr]⟩
          · exact ⟨r0, hr0⟩
        obtain ⟨r1, hr1⟩ := hstrip
        exact ⟨r1 ++ absName w, by rw [hr1, List.append_assoc],
               noDotSeg_append (noDotSeg_stripSlash hn) (hidx w (by simp)) (absName_head w)⟩
    · rw [if_neg he]; exact ih (fun x hx => hidx x (by simp [hx]))


theorem serveRequest_spec {o : Opts} {cfg : ServeCfg} {isdir exists_ : Bytes → Bool} {special : Bool}
    {raw target p d : Bytes}
    (hal : ∀ kv ∈ cfg.aliases, CanonicalAbs kv.2)
    (hidx : ∀ v ∈ cfg.index, NoDotSeg (absName v))
    (h : serveRequest o cfg isdir exists_ special raw target = .file p d) :
    special = false ∧ ∃ a, authorityOf o 80 raw = some a ∧ DesignatedRoot cfg a d ∧
      ∃ root, DesignatedRoot cfg a root ∧
        (LexBelow root p ∨
         (∃ k v, (k, v) ∈ cfg.aliases ∧ root = v ∧ endsWithSlash v = false ∧ ∃ rest, p = v ++ rest ∧ NoDotSeg p)) := by
  unfold serveRequest at h
  cases special with
  | true => simp at h
  | false =>
    refine ⟨rfl, ?_⟩
    simp only [Bool.false_eq_true, ↓reduceIte] at h
    cases ht : parseTarget o false target with
    | error e => rw [ht] at h; simp at h
    | ok t =>
      cases ha : authorityOf o 80 raw with
      | none => rw [ht, ha] at h; simp at h
      | some a =>
        rw [ht, ha] at h
        simp only at h
        refine ⟨a, rfl, ?_⟩
        have hdr : DesignatedRoot cfg a (vhostRoot o.hostStrict cfg.docroot cfg.vh isdir a) :=
          .vhost (vhostRoot_ok ha)
        cases hsp : servePath o cfg.lc cfg.docroot cfg.vh isdir cfg.aliases raw target with
        | reject st => rw [hsp] at h; simp at h
        | path p0 d0 =>
          rw [hsp] at h
          simp only at h
          obtain ⟨a', t', ha', ht', hcases⟩ := servePath_spec hal hsp
          rw [ha] at ha'; rw [ht] at ht'
          simp only [Option.some.injEq, Except.ok.injEq] at ha' ht'
          subst ha'; subst ht'
          -- the state after mod_alias: basedir d0 designated, p0 below it (or prefixed by it)
          have hd0 : DesignatedRoot cfg a d0 := by
            rcases hcases with ⟨e, _⟩ | ⟨k, v, hm, e, _⟩
            · rw [e]; exact hdr
            · rw [e]; exact .alias hm
          have hcan : CanonicalAbs t.path := by
            unfold parseTarget at ht
            simp only [Bool.false_eq_true, ↓reduceIte] at ht
            split at ht
            · simp at ht
            · split at ht <;>
              · split at ht
                · rename_i hhead
                  simp only [Except.ok.injEq] at ht
                  subst ht
                  exact pathSimplify_head_canonical _ hhead
                · simp at ht
          have hrel : NoDotSeg (if cfg.lc then lowerBytes t.path else t.path) := by
            cases cfg.lc
            · simpa using canonical_noDotSeg hcan
            · simpa [lowerBytes] using canonical_noDotSeg (canonical_map_toLower hcan)
          -- after mod_userdir
          generalize hud : userdirStep cfg t.path = ud at h
          have hstate : DesignatedRoot cfg a (afterUserdir ud p0 d0).2 ∧
              (LexBelow (afterUserdir ud p0 d0).2 (afterUserdir ud p0 d0).1 ∨
               (∃ k v, (k, v) ∈ cfg.aliases ∧ (afterUserdir ud p0 d0).2 = v ∧ endsWithSlash v = false ∧
                  ∃ rest, (afterUserdir ud p0 d0).1 = v ++ rest ∧ NoDotSeg (afterUserdir ud p0 d0).1)) := by
            have hkeep : DesignatedRoot cfg a d0 ∧
                (LexBelow d0 p0 ∨
                 (∃ k v, (k, v) ∈ cfg.aliases ∧ d0 = v ∧ endsWithSlash v = false ∧ ∃ rest, p0 = v ++ rest ∧ NoDotSeg p0)) := by
              refine ⟨hd0, ?_⟩
              rcases hcases with ⟨_, hb⟩ | ⟨k, v, hm, e, rest, hp, hn, hh⟩
              · exact Or.inl hb
              · by_cases hv : endsWithSlash v = true
                · left; rw [e, hp]; exact lexBelow_of_prefix_slash hv (hp ▸ hn)
                · right; exact ⟨k, v, hm, e, by simpa using hv, rest, hp, hn⟩
            cases ud with
            | go p' b =>
              simp only [afterUserdir]
              unfold userdirStep at hud
              cases hu : cfg.userdir with
              | none => rw [hu] at hud; simp at hud
              | some u =>
                rw [hu] at hud
                simp only at hud
                obtain ⟨⟨name, hcl, hb⟩, hbelow⟩ := userdirRemap_spec hrel hud
                exact ⟨by rw [hb]; exact .userdir hu hcl, Or.inl hbelow⟩
            | pass => simpa [afterUserdir] using hkeep
            | redirect => simpa [afterUserdir] using hkeep
          generalize afterUserdir ud p0 d0 = pd at h hstate
          obtain ⟨hd1, hb1⟩ := hstate
          split at h
          · simp at h
          · split at h
            · simp only [ServeOut.file.injEq] at h
              obtain ⟨rfl, rfl⟩ := h
              refine ⟨hd1, ?_⟩
              rcases hb1 with hb1 | ⟨k, v, hm, e, hv, hrest⟩
              · rcases index_below (exists_ := exists_) (dr := vhostRoot o.hostStrict cfg.docroot cfg.vh isdir a) hidx hb1 with hx | hx
                · exact ⟨_, hd1, Or.inl hx⟩
                · exact ⟨_, hdr, Or.inl hx⟩
              · have hvne : v ≠ [] := canonical_ne_nil (hal _ hm)
                rcases index_prefix (exists_ := exists_) (dr := vhostRoot o.hostStrict cfg.docroot cfg.vh isdir a) hidx hv hvne hrest with hx | hx
                · exact ⟨_, hd1, Or.inr ⟨k, v, hm, e, hv, hx⟩⟩
                · exact ⟨_, hdr, Or.inl hx⟩
            · simp only [ServeOut.file.injEq] at h
              obtain ⟨rfl, rfl⟩ := h
              exact ⟨hd1, _, hd1, hb1⟩


/-- buffer_append_slash() on a canonical path: canonical, ends in '/' -/
theorem canonical_appendSlash {r : Bytes} (h : CanonicalAbs r) :
    CanonicalAbs (appendSlash r) ∧ endsWithSlash (appendSlash r) = true := by
  have hne := canonical_ne_nil h
  by_cases he : endsWithSlash r = true
  · have : appendSlash r = r := by unfold appendSlash; simp [he]
    rw [this]; exact ⟨h, he⟩
  · have he' : endsWithSlash r = false := by simpa using he
    have ha : appendSlash r = r ++ [slash] := by unfold appendSlash; simp [he', hne]
    rw [ha]
    refine ⟨?_, by simp [endsWithSlash]⟩
    obtain ⟨stack, hc, hr⟩ := h
    rcases hr with hr | ⟨_, hr⟩
    · have hsne : stack ≠ [] := by
        intro e; subst e; rw [hr] at he'; simp [join, endsWithSlash] at he'
      exact ⟨stack, hc, Or.inr ⟨hsne, by rw [hr]; simp⟩⟩
    · exfalso
      rw [hr] at he'
      have : (slash :: (join slash stack ++ [slash])) = (slash :: join slash stack) ++ [slash] := by simp
      rw [this] at he'
      unfold endsWithSlash at he'
      rw [List.getLast?_concat] at he'
      simp at he'

/-! ### bytes of a simplified path -/

def SegsFrom (s : Bytes) (st : SimpSt) : Prop := ∀ seg ∈ st.stack, ∀ b ∈ seg, b ∈ s

theorem pop_from {s : Bytes} {st : SimpSt} (h : SegsFrom s st) : SegsFrom s st.pop := by
  unfold SimpSt.pop
  split
  · intro seg hs; simp at hs
  · intro seg hs; exact h seg (List.dropLast_subset _ (by simpa using hs))

theorem simpMid_from {s : Bytes} {st : SimpSt} {seg : Bytes} (h : SegsFrom s st) (hs : ∀ b ∈ seg, b ∈ s) :
    SegsFrom s (simpMid st seg) := by
  unfold simpMid
  split
  · exact h
  · split
    · exact pop_from h
    · intro x hx
      simp only [SimpSt.push, List.mem_append, List.mem_singleton] at hx
      rcases hx with hx | hx
      · exact h x hx
      · subst hx; exact hs

theorem simpLast_from {s : Bytes} {st : SimpSt} {seg : Bytes} (h : SegsFrom s st) (hs : ∀ b ∈ seg, b ∈ s) :
    SegsFrom s (simpLast st seg).1 := by
  unfold simpLast
  split
  · exact h
  · split
    · exact pop_from h
    · intro x hx
      simp only [SimpSt.push, List.mem_append, List.mem_singleton] at hx
      rcases hx with hx | hx
      · exact h x hx
      · subst hx; exact hs

theorem foldl_simpMid_from {s : Bytes} (segs : List Bytes) : ∀ {st : SimpSt}, SegsFrom s st →
    (∀ seg ∈ segs, ∀ b ∈ seg, b ∈ s) → SegsFrom s (segs.foldl simpMid st) := by
  induction segs with
  | nil => intro st h _; simpa
  | cons x xs ih =>
    intro st h hn
    simp only [List.foldl_cons]
    exact ih (simpMid_from h (hn x (by simp))) (fun sg hs => hn sg (by simp [hs]))

theorem join_mem {l : List Bytes} {b : UInt8} (h : b ∈ join slash l) : b = slash ∨ ∃ seg ∈ l, b ∈ seg := by
  induction l with
  | nil => simp [join] at h
  | cons p ps ih =>
    cases ps with
    | nil => simp only [join] at h; right; exact ⟨p, by simp, h⟩
    | cons q qs =>
      simp only [join, List.mem_append, List.mem_cons] at h
      rcases h with h | h | h
      · right; exact ⟨p, by simp, h⟩
      · left; exact h
      · rcases ih h with e | ⟨seg, hs, hb⟩
        · left; exact e
        · right; exact ⟨seg, by simp [hs], hb⟩

theorem render_from {s : Bytes} {st : SimpSt} (h : SegsFrom s st) (tr : Bool) :
    ∀ b ∈ st.render tr, b = slash ∨ b ∈ s := by
  intro b hb
  have hbody : ∀ b ∈ join slash st.stack, b = slash ∨ b ∈ s := by
    intro b hb
    rcases join_mem hb with e | ⟨seg, hs, hm⟩
    · left; exact e
    · right; exact h seg hs b hm
  have hsub : ∀ b ∈ st.render tr, b = slash ∨ b ∈ join slash st.stack := by
    intro b hb
    unfold SimpSt.render at hb
    cases hrel : st.rel <;> by_cases hc : (tr && !st.stack.isEmpty) = true <;>
      simp only [hrel, hc, Bool.false_eq_true, if_false, if_true, List.nil_append, List.mem_append,
                 List.mem_singleton, List.mem_cons, List.not_mem_nil, or_false, false_or] at hb <;>
      (first | exact Or.inr hb | (rcases hb with hb | hb <;> first | exact Or.inl hb | exact Or.inr hb) |
             (rcases hb with (hb | hb) | hb <;> first | exact Or.inl hb | exact Or.inr hb))
  rcases hsub b hb with e | e
  · left; exact e
  · exact hbody b e

theorem mem_join_of (sep : UInt8) : ∀ (l : List Bytes) (seg : Bytes) (b : UInt8), seg ∈ l → b ∈ seg →
    b ∈ join sep l := by
  intro l
  induction l with
  | nil => intro seg b hs; simp at hs
  | cons p ps ih =>
    intro seg b hs hb
    simp only [List.mem_cons] at hs
    cases ps with
    | nil =>
      rcases hs with e | e
      · subst e; simpa [join] using hb
      · simp at e
    | cons q qs =>
      simp only [join, List.mem_append, List.mem_cons]
      rcases hs with e | e
      · subst e; left; exact hb
      · right; right; exact ih seg b (by simpa using e) hb

theorem splitOn_mem_sub (sep : UInt8) (s : Bytes) : ∀ seg ∈ splitOn sep s, ∀ b ∈ seg, b ∈ s := by
  intro seg hs b hb
  have := mem_join_of sep _ seg b hs hb
  rwa [join_splitOn] at this

theorem simpRun_from {s : Bytes} {st : SimpSt} {segs : List Bytes} (h : SegsFrom s st)
    (hn : ∀ seg ∈ segs, ∀ b ∈ seg, b ∈ s) : ∀ b ∈ simpRun st segs, b = slash ∨ b ∈ s := by
  unfold simpRun
  cases hl : segs.getLast? with
  | none => exact render_from h false
  | some last =>
    have hlast : last ∈ segs := List.mem_of_getLast? hl
    have hmid : ∀ seg ∈ segs.dropLast, ∀ b ∈ seg, b ∈ s := fun sg hs => hn sg (List.dropLast_subset _ hs)
    exact render_from (simpLast_from (foldl_simpMid_from _ h hmid) (hn last hlast)) _

/-- buffer_path_simplify() invents no byte: every byte of the result is a '/' or a byte of the input -/
theorem pathSimplify_bytes (s : Bytes) : ∀ b ∈ pathSimplify s, b = slash ∨ b ∈ s := by
  have hsub := splitOn_mem_sub slash s
  have h0 : SegsFrom s { rel := false, stack := [] } := by intro seg hs; simp at hs
  unfold pathSimplify
  cases s with
  | nil => simp
  | cons c t =>
    simp only
    cases hsp : splitOn slash (c :: t) with
    | nil => simp
    | cons f rest =>
      rw [hsp] at hsub
      have hf : ∀ b ∈ f, b ∈ c :: t := hsub f (by simp)
      have hr : ∀ seg ∈ rest, ∀ b ∈ seg, b ∈ c :: t := fun sg hs => hsub sg (by simp [hs])
      simp only
      split
      · exact simpRun_from h0 hr
      · cases rest with
        | nil => simp only; split
                 · simp
                 · intro b hb; right; exact hf b hb
        | cons r rs =>
          simp only
          split
          · exact simpRun_from h0 hr
          · exact simpRun_from (st := { rel := true, stack := [f] })
              (by intro seg hs; simp at hs; subst hs; exact hf) hr

end LtVerif
