/-
  Helper lemmas for the C02 extension (Model/Docroot.lean): segments of concatenated paths,
  path joining, alias remap, host policy, vhost doc roots, X-Sendfile, WebDAV Destination,
  symlink walk.
-/
import LtVerif.Proofs.Path
import LtVerif.Model.Docroot
namespace LtVerif
open B

/-! ### segments of a concatenation -/

/-- no '/'-delimited segment is "." or ".." -/
def NoDotSeg (p : Bytes) : Prop := ∀ seg ∈ splitOn slash p, seg ≠ segDot ∧ seg ≠ segDotDot

/-- the segments of `a ++ b`: those of `a` but the last, the last of `a` glued to the first of `b`,
    the remaining ones of `b` -/
theorem splitOn_append (sep : UInt8) (a b : Bytes) {H : Bytes} {T : List Bytes}
    (hb : splitOn sep b = H :: T) :
    ∃ D L, splitOn sep a = D ++ [L] ∧ splitOn sep (a ++ b) = D ++ (L ++ H) :: T := by
  induction a with
  | nil => exact ⟨[], [], by simp [splitOn], by simpa using hb⟩
  | cons x xs ih =>
    obtain ⟨D, L, h1, h2⟩ := ih
    cases D with
    | nil =>
      simp only [List.nil_append] at h1 h2
      by_cases hx : x = sep
      · refine ⟨[[]], L, ?_, ?_⟩
        · unfold splitOn; simp [h1, hx]
        · simp only [List.cons_append]; unfold splitOn; simp [h2, hx]
      · refine ⟨[], x :: L, ?_, ?_⟩
        · unfold splitOn; simp [h1, hx]
        · simp only [List.cons_append]; unfold splitOn; simp [h2, hx]
    | cons d ds =>
      simp only [List.cons_append] at h1 h2
      by_cases hx : x = sep
      · refine ⟨[] :: d :: ds, L, ?_, ?_⟩
        · unfold splitOn; simp [h1, hx]
        · simp only [List.cons_append]; unfold splitOn; simp [h2, hx]
      · refine ⟨(x :: d) :: ds, L, ?_, ?_⟩
        · unfold splitOn; simp [h1, hx]
        · simp only [List.cons_append]; unfold splitOn; simp [h2, hx]

theorem splitOn_cons_exists (sep : UInt8) (s : Bytes) : ∃ H T, splitOn sep s = H :: T := by
  cases h : splitOn sep s with
  | nil => exact absurd h (splitOn_ne_nil sep s)
  | cons H T => exact ⟨H, T, rfl⟩

/-- the first segment is everything before the first separator -/
theorem splitOn_head (sep : UInt8) (s : Bytes) {H : Bytes} {T : List Bytes}
    (h : splitOn sep s = H :: T) : H = s.takeWhile (· ≠ sep) := by
  induction s generalizing H T with
  | nil => simp [splitOn] at h; simp [h.1]
  | cons x xs ih =>
    obtain ⟨H', T', h'⟩ := splitOn_cons_exists sep xs
    have := ih h'
    unfold splitOn at h
    rw [h'] at h
    by_cases hx : x = sep
    · simp [hx] at h; simp [hx, h.1]
    · simp [hx] at h; simp [hx, ← h.1, this]

/-- a string that is empty or ends in the separator has an empty last segment -/
theorem splitOn_last_nil (sep : UInt8) (s : Bytes) (h : s = [] ∨ s.getLast? = some sep) :
    ∃ D, splitOn sep s = D ++ [[]] := by
  induction s with
  | nil => exact ⟨[], by simp [splitOn]⟩
  | cons x xs ih =>
    have hxs : xs = [] ∨ xs.getLast? = some sep := by
      rcases h with h | h
      · simp at h
      · cases xs with
        | nil => left; rfl
        | cons y ys => right; simpa [List.getLast?_cons_cons] using h
    obtain ⟨D, hD⟩ := ih hxs
    cases D with
    | nil =>
      simp only [List.nil_append] at hD
      by_cases hx : x = sep
      · exact ⟨[[]], by unfold splitOn; simp [hD, hx]⟩
      · -- xs must be empty then, and x = sep: contradiction
        exfalso
        have hxe : xs = [] := by
          have hj := join_splitOn sep xs
          rw [hD] at hj; simpa [join] using hj.symm
        subst hxe
        rcases h with h | h
        · simp at h
        · simp at h; exact hx h
    | cons d ds =>
      simp only [List.cons_append] at hD
      by_cases hx : x = sep
      · exact ⟨[] :: d :: ds, by unfold splitOn; simp [hD, hx]⟩
      · exact ⟨(x :: d) :: ds, by unfold splitOn; simp [hD, hx]⟩

theorem canonical_head {r : Bytes} (h : CanonicalAbs r) : r.head? = some slash := by
  obtain ⟨st, _, hr⟩ := h
  rcases hr with hr | ⟨_, hr⟩ <;> simp [hr]

theorem canonical_ne_nil {r : Bytes} (h : CanonicalAbs r) : r ≠ [] := by
  intro e; have := canonical_head h; simp [e] at this

/-- every segment of a canonical path is empty (first / trailing) or clean -/
theorem canonical_segs {r : Bytes} (h : CanonicalAbs r) :
    ∀ seg ∈ splitOn slash r, seg = [] ∨ Clean seg := by
  obtain ⟨stack, hc, hs⟩ := canonical_split h
  intro seg hseg
  rcases hs with hs | ⟨_, hs⟩ <;> rw [hs] at hseg <;>
    simp only [List.cons_append, List.mem_cons, List.mem_append, List.mem_singleton,
               List.not_mem_nil, or_false] at hseg
  · rcases hseg with e | e | e
    · exact Or.inl e
    · exact Or.inr (hc seg e)
    · exact Or.inl e
  · rcases hseg with e | e
    · exact Or.inl e
    · exact Or.inr (hc seg e)

theorem nil_ne_dots : ([] : Bytes) ≠ segDot ∧ ([] : Bytes) ≠ segDotDot := by
  simp [segDot, segDotDot]

theorem canonical_noDotSeg {r : Bytes} (h : CanonicalAbs r) : NoDotSeg r := by
  intro seg hseg
  rcases canonical_segs h seg hseg with e | e
  · subst e; exact nil_ne_dots
  · exact ⟨e.2.1, e.2.2.1⟩

theorem join_last_suffix (p0 : Bytes) (init : List Bytes) (last : Bytes) :
    ∃ pre, join slash (p0 :: (init ++ [last])) = pre ++ last := by
  induction init generalizing p0 with
  | nil => exact ⟨p0 ++ [slash], by simp [join]⟩
  | cons q qs ih =>
    obtain ⟨pre, hp⟩ := ih q
    refine ⟨p0 ++ slash :: pre, ?_⟩
    simp only [List.cons_append] at hp ⊢
    simp only [join]
    rw [hp]; simp

/-- the last segment of a canonical path: empty iff the path ends in '/' -/
theorem canonical_last {r : Bytes} (h : CanonicalAbs r) :
    ∃ D L, splitOn slash r = D ++ [L] ∧
      ((L = [] ∧ endsWithSlash r = true) ∨ (Clean L ∧ endsWithSlash r = false)) := by
  obtain ⟨stack, hc, hs⟩ := canonical_split h
  have hj := join_splitOn slash r
  rcases hs with hs | ⟨hne, hs⟩
  · refine ⟨[] :: stack, [], by simpa using hs, Or.inl ⟨rfl, ?_⟩⟩
    rw [hs] at hj
    have : ([] :: stack ++ [[]]) = ([] :: stack) ++ [[]] := by simp
    rw [this, join_append_empty slash _ (by simp)] at hj
    unfold endsWithSlash; rw [← hj]; simp
  · obtain ⟨init, last, hil⟩ : ∃ init last, stack = init ++ [last] :=
      ⟨stack.dropLast, stack.getLast hne, (List.dropLast_concat_getLast hne).symm⟩
    have hcl : Clean last := hc last (by simp [hil])
    refine ⟨[] :: init, last, by simp [hs, hil], Or.inr ⟨hcl, ?_⟩⟩
    -- r = join ([] :: init ++ [last]) ends with the last byte of `last`, which is not '/'
    have hr : ∃ pre, r = pre ++ last := by
      rw [hs, hil] at hj
      obtain ⟨pre, hp⟩ := join_last_suffix [] init last
      exact ⟨pre, by rw [← hj]; simpa using hp⟩
    obtain ⟨pre, hp⟩ := hr
    unfold endsWithSlash
    rw [hp, List.getLast?_append]
    cases hl : last.getLast? with
    | none => simp [List.getLast?_eq_none_iff] at hl; exact absurd hl hcl.1
    | some z =>
      simp only [Option.some_or]
      have hz : z ∈ last := List.mem_of_getLast? hl
      have : z ≠ slash := fun e => hcl.2.2.2 (e ▸ hz)
      simp [this]

/-! ### path joining -/

/-- the root without its trailing '/' -/
def stripSlash (root : Bytes) : Bytes := if endsWithSlash root then root.dropLast else root

theorem stripSlash_append_slash {root : Bytes} (h : endsWithSlash root = true) :
    stripSlash root ++ [slash] = root := by
  unfold stripSlash; rw [if_pos h]
  unfold endsWithSlash at h
  have hne : root ≠ [] := by intro e; simp [e] at h
  have := List.dropLast_concat_getLast hne
  rw [List.getLast?_eq_some_getLast hne] at h
  simp only [decide_eq_true_eq, Option.some.injEq] at h
  rw [h] at this; exact this

/-- buffer_append_path_len() with an absolute second part: the parts meet at exactly one '/' -/
theorem pathAppend_abs (root : Bytes) {u : Bytes} (hu : u.head? = some slash) :
    pathAppend root u = stripSlash root ++ u := by
  cases u with
  | nil => simp at hu
  | cons x t =>
    simp only [List.head?_cons, Option.some.injEq] at hu
    subst hu
    unfold pathAppend
    by_cases h : endsWithSlash root = true
    · simp only [h, if_true, List.head?_cons, List.drop_succ_cons, List.drop_zero]
      conv => lhs; rw [← stripSlash_append_slash h]
      simp
    · simp only [h, List.head?_cons]
      unfold stripSlash; simp [h]

/-! ### mod_alias -/

theorem aliasMatch_spec {lc : Bool} {uri : Bytes} {aliases : List (Bytes × Bytes)} {k v : Bytes}
    (h : aliasMatch lc uri aliases = some (k, v)) :
    (k, v) ∈ aliases ∧ k.length ≤ uri.length ∧
      (if lc then eqIcase (uri.take k.length) k = true else uri.take k.length = k) := by
  induction aliases with
  | nil => simp [aliasMatch] at h
  | cons kv rest ih =>
    obtain ⟨k0, v0⟩ := kv
    unfold aliasMatch at h
    by_cases hc : (decide (k0.length ≤ uri.length) &&
        (if lc then eqIcase (uri.take k0.length) k0 else uri.take k0.length == k0)) = true
    · rw [if_pos hc] at h
      simp only [Option.some.injEq, Prod.mk.injEq] at h
      obtain ⟨rfl, rfl⟩ := h
      simp only [Bool.and_eq_true, decide_eq_true_eq] at hc
      refine ⟨by simp, hc.1, ?_⟩
      cases lc
      · simpa using hc.2
      · simpa using hc.2
    · rw [if_neg hc] at h
      obtain ⟨h1, h2⟩ := ih h
      exact ⟨by simp [h1], h2⟩

theorem eqIcase_endsWithSlash {a b : Bytes} (h : eqIcase a b = true) :
    endsWithSlash a = endsWithSlash b := by
  unfold eqIcase at h
  simp only [beq_iff_eq] at h
  unfold endsWithSlash
  have ha : (a.map toLower).getLast? = (b.map toLower).getLast? := by rw [h]
  simp only [List.getLast?_map] at ha
  cases hla : a.getLast? with
  | none =>
    cases hlb : b.getLast? with
    | none => rfl
    | some y => rw [hla, hlb] at ha; simp at ha
  | some x =>
    cases hlb : b.getLast? with
    | none => rw [hla, hlb] at ha; simp at ha
    | some y =>
      rw [hla, hlb] at ha
      simp only [Option.map_some, Option.some.injEq] at ha
      by_cases hx : x = slash
      · subst hx; rw [toLower_slash] at ha
        have := toLower_eq_slash ha.symm; subst this; rfl
      · by_cases hy : y = slash
        · subst hy; rw [toLower_slash] at ha
          exact absurd (toLower_eq_slash ha) hx
        · simp [hx, hy]

theorem eqIcase_nil_iff {a b : Bytes} (h : eqIcase a b = true) : a = [] ↔ b = [] := by
  unfold eqIcase at h
  simp only [beq_iff_eq] at h
  have := congrArg List.length h
  simp only [List.length_map] at this
  constructor
  · intro e; subst e
    cases b with
    | nil => rfl
    | cons y ys => simp at this
  · intro e; subst e
    cases a with
    | nil => rfl
    | cons y ys => simp at this

/-- the guard of mod_alias_remap() fires exactly when the first segment after the matched
    prefix is "." or ".." -/
theorem aliasGuard_of_first_dot {k v after H : Bytes} {T : List Bytes}
    (hs : splitOn slash after = H :: T) (hd : H = segDot ∨ H = segDotDot)
    (hk : k ≠ []) (hks : endsWithSlash k = false) (hv : v ≠ []) (hvs : endsWithSlash v = true) :
    aliasGuard k v after = true := by
  have hH := splitOn_head slash after hs
  have hcfg : (!k.isEmpty && !endsWithSlash k && !v.isEmpty && endsWithSlash v) = true := by
    simp [hks, hvs, hk, hv]
  rcases hd with hd | hd
  · -- after = "." or "./..."
    rw [hd] at hH
    match after, hH with
    | a :: rest, hH =>
      simp only [segDot, List.takeWhile_cons] at hH
      split at hH
      · rename_i ha
        simp only [List.cons.injEq] at hH
        obtain ⟨ha1, hrest⟩ := hH
        subst ha1
        unfold aliasGuard
        have hr : rest = [] ∨ rest.head? = some slash := by
          cases rest with
          | nil => left; rfl
          | cons b bs =>
            right
            simp only [List.takeWhile_cons] at hrest
            split at hrest
            · simp at hrest
            · rename_i hb; simp at hb; simp [hb]
        have hnd : rest.head? ≠ some dot := by
          rcases hr with hr | hr
          · simp [hr]
          · rw [hr]; decide
        simp only [dot] at hnd ⊢
        simp only [hnd, if_false, hcfg, Bool.and_true]
        rcases hr with hr | hr
        · simp [hr]
        · simp [hr]
      · simp at hH
  · rw [hd] at hH
    match after, hH with
    | a :: rest, hH =>
      simp only [segDotDot, List.takeWhile_cons] at hH
      split at hH
      · rename_i ha
        simp only [List.cons.injEq] at hH
        obtain ⟨ha1, hrest⟩ := hH
        subst ha1
        match rest, hrest with
        | b :: rest2, hrest =>
          simp only [List.takeWhile_cons] at hrest
          split at hrest
          · simp only [List.cons.injEq] at hrest
            obtain ⟨hb1, hrest2⟩ := hrest
            subst hb1
            unfold aliasGuard
            have hr : rest2 = [] ∨ rest2.head? = some slash := by
              cases rest2 with
              | nil => left; rfl
              | cons c cs =>
                right
                simp only [List.takeWhile_cons] at hrest2
                split at hrest2
                · simp at hrest2
                · rename_i hc; simp at hc; simp [hc]
            simp only [dot, List.head?_cons, if_true, List.drop_succ_cons, List.drop_zero, hcfg,
                       Bool.and_true]
            rcases hr with hr | hr
            · simp [hr]
            · simp [hr]
          · simp at hrest
      · simp at hH

theorem clean_append_not_dot {c x : Bytes} (hc : Clean c) : c ++ x ≠ segDot ∧ c ++ x ≠ segDotDot := by
  obtain ⟨hne, hd, hdd, _⟩ := hc
  constructor
  · intro e
    cases c with
    | nil => exact hne rfl
    | cons a as =>
      simp only [segDot, List.cons_append, List.cons.injEq, List.append_eq_nil_iff] at e
      exact hd (by simp [segDot, e.1, e.2.1])
  · intro e
    cases c with
    | nil => exact hne rfl
    | cons a as =>
      simp only [segDotDot, List.cons_append, List.cons.injEq] at e
      obtain ⟨ha, hrest⟩ := e
      cases as with
      | nil => exact hd (by simp [segDot, ha, dot])
      | cons b bs =>
        simp only [List.cons_append, List.cons.injEq, List.append_eq_nil_iff] at hrest
        exact hdd (by simp [segDotDot, ha, hrest.1, hrest.2.1])

/-- core of the alias containment argument: value ++ (rest of the url after the matched prefix)
    has no "." / ".." segment unless the guard fires -/
theorem alias_noDotSeg {uri k v : Bytes} (hu : CanonicalAbs uri) (hv : CanonicalAbs v)
    (hkl : k.length ≤ uri.length)
    (hke : (uri.take k.length = []) ↔ k = [])
    (hks : endsWithSlash (uri.take k.length) = endsWithSlash k)
    (hg : aliasGuard k v (uri.drop k.length) = false) :
    NoDotSeg (v ++ uri.drop k.length) := by
  obtain ⟨H, T, hHT⟩ := splitOn_cons_exists slash (uri.drop k.length)
  -- segments of uri through the split take ++ drop
  obtain ⟨Du, Lu, hu1, hu2⟩ := splitOn_append slash (uri.take k.length) (uri.drop k.length) hHT
  rw [List.take_append_drop] at hu2
  have husegs := canonical_segs hu
  -- segments of v ++ after
  obtain ⟨Dv, Lv, hv1, hv2⟩ := splitOn_append slash v (uri.drop k.length) hHT
  obtain ⟨Dv', Lv', hv1', hlast⟩ := canonical_last hv
  have hDL : Dv = Dv' ∧ Lv = Lv' := by
    rw [hv1] at hv1'
    have := List.append_inj' hv1' (by simp)
    exact ⟨this.1, by simpa using this.2⟩
  obtain ⟨rfl, rfl⟩ := hDL
  have hvsegs := canonical_segs hv
  intro seg hseg
  rw [hv2] at hseg
  simp only [List.mem_append, List.mem_cons] at hseg
  rcases hseg with hseg | hseg | hseg
  · -- a segment of v before its last one
    rcases hvsegs seg (by rw [hv1]; simp [hseg]) with e | e
    · subst e; exact nil_ne_dots
    · exact ⟨e.2.1, e.2.2.1⟩
  · -- the junction
    subst hseg
    rcases hlast with ⟨hL, hvs⟩ | ⟨hL, hvs⟩
    · -- v ends in '/': the junction is the first segment after the prefix
      subst hL
      simp only [List.nil_append]
      by_cases hk : k = [] ∨ endsWithSlash k = true
      · -- the prefix ends at a segment boundary: H is a whole segment of uri
        have hT : uri.take k.length = [] ∨ (uri.take k.length).getLast? = some slash := by
          rcases hk with hk | hk
          · left; exact hke.2 hk
          · right; rw [← hks] at hk; unfold endsWithSlash at hk; simpa using hk
        obtain ⟨D, hD⟩ := splitOn_last_nil slash _ hT
        have : Lu = [] := by
          rw [hu1] at hD
          have := List.append_inj' hD (by simp)
          simpa using this.2
        subst this
        rcases husegs H (by rw [hu2]; simp) with e | e
        · subst e; exact nil_ne_dots
        · exact ⟨e.2.1, e.2.2.1⟩
      · -- key does not end in '/', value does: the guard protects
        have hk1 : k ≠ [] := fun e => hk (Or.inl e)
        have hk2 : endsWithSlash k = false := by
          cases h : endsWithSlash k with
          | true => exact absurd (Or.inr h) hk
          | false => rfl
        refine ⟨fun e => ?_, fun e => ?_⟩
        · have := aliasGuard_of_first_dot (k := k) (v := v) hHT (Or.inl e) hk1 hk2
            (canonical_ne_nil hv) hvs
          rw [this] at hg; exact Bool.noConfusion hg
        · have := aliasGuard_of_first_dot (k := k) (v := v) hHT (Or.inr e) hk1 hk2
            (canonical_ne_nil hv) hvs
          rw [this] at hg; exact Bool.noConfusion hg
    · exact clean_append_not_dot hL
  · -- a later segment of the url
    rcases husegs seg (by rw [hu2]; simp [hseg]) with e | e
    · subst e; exact nil_ne_dots
    · exact ⟨e.2.1, e.2.2.1⟩

end LtVerif
