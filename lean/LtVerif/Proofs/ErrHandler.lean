/- helper lemmas for the error-handler theorems of C08 (Model/ErrHandler.lean) -/
import LtVerif.Model.ErrHandler
namespace LtVerif.ErrH

/-- two states that differ at most in the carried member error_handler_saved_method, and agree
    on it as soon as error_handler_saved_status > 0 makes it valid -/
def Rel (s t : EhSt) : Prop :=
  s.obs = t.obs ∧ (s.savedStatus > 0 → s.savedMethod = t.savedMethod)

/-- what the theorems assume of the work of one pass (modules, http_response_prepare,
    http_response_comeback): it neither reads nor writes error_handler_saved_method and does
    not write error_handler_saved_status (in src/ only response.c and reqpool.c name them) -/
structure PrepOk (prep : Nat → EhSt → EhSt) : Prop where
  blind : ∀ k s m, prep k { s with savedMethod := m } = { prep k s with savedMethod := m }
  keeps : ∀ k s, (prep k s).savedStatus = s.savedStatus

/-- once error_handler_saved_status is set, no error handler is installed again -/
theorem hasErrorHandler_saved (c : Cfg) (s : EhSt) (h : s.savedStatus ≠ 0) :
    (hasErrorHandler c s).2 = false := by
  cases s with
  | mk st me ve ss sm hmod rbl bi ka tg rs rc up h2 pp ww ro bl rbf =>
  cases c with
  | mk e1 e2 e3 =>
  simp only at h
  by_cases a0 : ss > 0 <;> cases hmod <;> cases e3 <;> simp [hasErrorHandler, *]

theorem call_true (s : EhSt) (m : Int) :
    callErrorHandler true { s with savedMethod := m } = callErrorHandler true s := by
  cases s with
  | mk st me ve ss sm hmod rbl bi ka tg rs rc up h2 pp ww ro bl rbf =>
  by_cases d : ve = -1 <;> by_cases a : rbl = 0
  · subst a; simp [callErrorHandler, errdocInit, *]
  · by_cases b : rbl = bi
    · subst b; simp [callErrorHandler, errdocInit, *]
    · simp [callErrorHandler, errdocInit, *]
  · subst a; simp [callErrorHandler, errdocInit, *]
  · by_cases b : rbl = bi
    · subst b; simp [callErrorHandler, errdocInit, *]
    · simp [callErrorHandler, errdocInit, *]

theorem call_false (s : EhSt) (m : Int) :
    callErrorHandler false { s with savedMethod := m } = { callErrorHandler false s with savedMethod := m } := by
  cases s with
  | mk st me ve ss sm hmod rbl bi ka tg rs rc up h2 pp ww ro bl rbf =>
  by_cases d : ve = -1 <;> simp [callErrorHandler, errdocInit, *]

theorem call_false_saved (s : EhSt) : (callErrorHandler false s).savedStatus = -s.status := by
  cases s with
  | mk st me ve ss sm hmod rbl bi ka tg rs rc up h2 pp ww ro bl rbf =>
  by_cases d : ve = -1 <;> simp [callErrorHandler, errdocInit, *]

theorem call_true_saved (s : EhSt) : (callErrorHandler true s).savedStatus = s.status := by
  cases s with
  | mk st me ve ss sm hmod rbl bi ka tg rs rc up h2 pp ww ro bl rbf =>
  by_cases d : ve = -1 <;> by_cases a : rbl = 0
  · subst a; simp [callErrorHandler, errdocInit, *]
  · by_cases b : rbl = bi
    · subst b; simp [callErrorHandler, errdocInit, *]
    · simp [callErrorHandler, errdocInit, *]
  · subst a; simp [callErrorHandler, errdocInit, *]
  · by_cases b : rbl = bi
    · subst b; simp [callErrorHandler, errdocInit, *]
    · simp [callErrorHandler, errdocInit, *]

theorem call_true_method (s : EhSt) : (callErrorHandler true s).savedMethod = s.method := by
  cases s with
  | mk st me ve ss sm hmod rbl bi ka tg rs rc up h2 pp ww ro bl rbf =>
  by_cases d : ve = -1 <;> by_cases a : rbl = 0
  · subst a; simp [callErrorHandler, errdocInit, *]
  · by_cases b : rbl = bi
    · subst b; simp [callErrorHandler, errdocInit, *]
    · simp [callErrorHandler, errdocInit, *]
  · subst a; simp [callErrorHandler, errdocInit, *]
  · by_cases b : rbl = bi
    · subst b; simp [callErrorHandler, errdocInit, *]
    · simp [callErrorHandler, errdocInit, *]


theorem Rel.refl (s : EhSt) : Rel s s := ⟨rfl, fun _ => rfl⟩

/-- the branch of http_response_has_error_handler() taken once error_handler_saved_status < 0 -/
def negBranch (s : EhSt) : EhSt :=
  let s1 := if s.status = 404 then { s with status := -s.savedStatus } else s
  if 200 ≤ s.status && s.status ≤ 299 then { s1 with savedStatus := 65535 } else s1

theorem hEH_eq (c : Cfg) (s : EhSt) (hs : ¬ s.savedStatus > 0) :
    hasErrorHandler c s =
      if (!s.handlerModule || c.errorIntercept) = true then
        if s.savedStatus ≠ 0 then (negBranch s, false)
        else if s.status ≥ 400 then
          if c.errorHandler = true then (callErrorHandler true s, true)
          else if (s.status = 404 && c.errorHandler404) = true then (callErrorHandler false s, true)
          else (s, false)
        else (s, false)
      else (s, false) := by
  simp only [hasErrorHandler, hs, if_false, negBranch]

theorem hasErrorHandler_step (c : Cfg) (s : EhSt) (m : Int) (hs : ¬ s.savedStatus > 0) :
    (hasErrorHandler c { s with savedMethod := m }).2 = (hasErrorHandler c s).2 ∧
    (hasErrorHandler c { s with savedMethod := m }).1.obs = (hasErrorHandler c s).1.obs ∧
    ((hasErrorHandler c s).2 = true →
       Rel (hasErrorHandler c s).1 (hasErrorHandler c { s with savedMethod := m }).1) := by
  rw [hEH_eq c s hs, hEH_eq c { s with savedMethod := m } hs]
  simp only [call_true, call_false]
  by_cases c1 : (!s.handlerModule || c.errorIntercept) = true
  · by_cases c2 : s.savedStatus = 0
    · by_cases c3 : s.status ≥ 400
      · by_cases c4 : c.errorHandler = true
        · simp [c1, c2, c3, c4, Rel.refl]
        · by_cases c5 : (s.status = 404 && c.errorHandler404) = true
          · simp [c1, c2, c3, c4, c5, call_false_saved, EhSt.obs, Rel]
            intro h; omega
          · simp [c1, c2, c3, c4, c5, EhSt.obs]
      · simp [c1, c2, c3, EhSt.obs]
    · by_cases c6 : s.status = 404 <;> by_cases c7 : (200 ≤ s.status && s.status ≤ 299) = true <;>
        simp [negBranch, c1, c2, c6, c7, EhSt.obs]
  · simp [c1, EhSt.obs]

theorem eq_of_obs {s t : EhSt} (h : s.obs = t.obs) : t = { s with savedMethod := t.savedMethod } := by
  cases s; cases t; simp only [EhSt.obs, EhSt.mk.injEq] at h; simp [h]

theorem PrepOk.savedMethod {prep} (h : PrepOk prep) (k s) : (prep k s).savedMethod = s.savedMethod := by
  have h1 := h.blind k s s.savedMethod
  have e : ({ s with savedMethod := s.savedMethod } : EhSt) = s := by cases s; rfl
  rw [e] at h1
  have h2 := congrArg EhSt.savedMethod h1
  exact h2

theorem PrepOk.rel {prep} (h : PrepOk prep) (k) {s t} (r : Rel s t) : Rel (prep k s) (prep k t) := by
  obtain ⟨ho, hm⟩ := r
  obtain ⟨m, rfl⟩ : ∃ m, t = { s with savedMethod := m } := ⟨_, eq_of_obs ho⟩
  refine ⟨?_, ?_⟩
  · rw [h.blind k s m]; simp [EhSt.obs]
  · intro hs
    rw [h.keeps] at hs
    have h1 : s.savedMethod = m := hm hs
    rw [h.blind k s m, h.savedMethod]
    exact h1

theorem norm200_rel {s t} (r : Rel s t) : Rel (norm200 s) (norm200 t) := by
  obtain ⟨ho, hm⟩ := r
  obtain ⟨m, rfl⟩ : ∃ m, t = { s with savedMethod := m } := ⟨_, eq_of_obs ho⟩
  have hm' : s.savedStatus > 0 → s.savedMethod = m := hm
  by_cases h0 : s.status = 0 <;> simp [norm200, h0, Rel, EhSt.obs] <;> exact hm'

theorem hasErrorHandler_rel (c : Cfg) {s t : EhSt} (r : Rel s t) :
    (hasErrorHandler c s).2 = (hasErrorHandler c t).2 ∧
    (hasErrorHandler c s).1.obs = (hasErrorHandler c t).1.obs ∧
    ((hasErrorHandler c s).2 = true → Rel (hasErrorHandler c s).1 (hasErrorHandler c t).1) := by
  obtain ⟨ho, hm⟩ := r
  obtain ⟨m, rfl⟩ : ∃ m, t = { s with savedMethod := m } := ⟨_, eq_of_obs ho⟩
  by_cases hs : s.savedStatus > 0
  · have h1 : s.savedMethod = m := hm hs
    subst h1
    have e : ({ s with savedMethod := s.savedMethod } : EhSt) = s := by cases s; rfl
    rw [e]
    exact ⟨rfl, rfl, fun _ => Rel.refl _⟩
  · have h := hasErrorHandler_step c s m hs
    exact ⟨h.1.symm, h.2.1.symm, h.2.2⟩

def obsOf (o : Option (EhSt × Nat)) : Option (EhSt × Nat) := o.map fun r => (r.1.obs, r.2)

theorem handle_succ (c prep n k s) : handle c prep (n + 1) k s =
    (if ((norm200 (prep k s)).status < 400 && (norm200 (prep k s)).savedStatus = 0) = true
     then some (norm200 (prep k s), k)
     else if (hasErrorHandler c (norm200 (prep k s))).2 = true
          then handle c prep n (k + 1) (hasErrorHandler c (norm200 (prep k s))).1
          else some ((hasErrorHandler c (norm200 (prep k s))).1, k)) := rfl

theorem handle_rel (c : Cfg) {prep} (hp : PrepOk prep) :
    ∀ fuel k s t, Rel s t → obsOf (handle c prep fuel k s) = obsOf (handle c prep fuel k t) := by
  intro fuel
  induction fuel with
  | zero => intro k s t _; rfl
  | succ n ih =>
    intro k s t r
    have r2 := norm200_rel (hp.rel k r)
    rw [handle_succ, handle_succ]
    generalize norm200 (prep k s) = s' at r2 ⊢
    generalize norm200 (prep k t) = t' at r2 ⊢
    have hst : s'.status = t'.status := by
      have := congrArg EhSt.status r2.1; simpa [EhSt.obs] using this
    have hsv : s'.savedStatus = t'.savedStatus := by
      have := congrArg EhSt.savedStatus r2.1; simpa [EhSt.obs] using this
    have hh := hasErrorHandler_rel c r2
    rw [← hst, ← hsv, ← hh.1]
    split
    · simp [obsOf, r2.1]
    · split
      · rename_i hb; exact ih _ _ _ (hh.2.2 hb)
      · simp [obsOf, hh.2.1]
theorem hasErrorHandler_comeback (c : Cfg) (s : EhSt) (h : (hasErrorHandler c s).2 = true) :
    (hasErrorHandler c s).1.savedStatus ≠ 0 := by
  by_cases hs0 : s.savedStatus = 0
  · have hs : ¬ s.savedStatus > 0 := by omega
    rw [hEH_eq c s hs] at h ⊢
    by_cases c1 : (!s.handlerModule || c.errorIntercept) = true
    · by_cases c3 : s.status ≥ 400
      · by_cases c4 : c.errorHandler = true
        · simp [c1, hs0, c3, c4, call_true_saved]; omega
        · by_cases c5 : (s.status = 404 && c.errorHandler404) = true
          · simp [c1, hs0, c3, c4, c5, call_false_saved]; omega
          · simp [c1, hs0, c3, c4, c5] at h
      · simp [c1, hs0, c3] at h
    · simp [c1] at h
  · rw [hasErrorHandler_saved c s hs0] at h; cases h

theorem norm200_saved (s : EhSt) : (norm200 s).savedStatus = s.savedStatus := by
  simp only [norm200]; split <;> rfl

/-- a pass that starts with error_handler_saved_status set is the last one -/
theorem handle_saved_last (c : Cfg) {prep} (hp : PrepOk prep) (n k : Nat) (x : EhSt) (hx : x.savedStatus ≠ 0) :
    handle c prep (n + 1) k x = some ((hasErrorHandler c (norm200 (prep k x))).1, k) := by
  have h1 : (norm200 (prep k x)).savedStatus ≠ 0 := by rw [norm200_saved, hp.keeps]; exact hx
  rw [handle_succ]
  simp [h1, hasErrorHandler_saved c _ h1]

theorem handle_two_passes (c : Cfg) {prep} (hp : PrepOk prep) (n : Nat) (s : EhSt) :
    handle c prep (n + 2) 0 s = handle c prep 2 0 s ∧ (handle c prep 2 0 s).isSome = true := by
  rw [handle_succ c prep (n + 1), handle_succ c prep 1]
  split
  · exact ⟨rfl, rfl⟩
  · split
    · rename_i hb
      have hx := hasErrorHandler_comeback c _ hb
      rw [handle_saved_last c hp n 1 _ hx, handle_saved_last c hp 0 1 _ hx]
      exact ⟨rfl, rfl⟩
    · exact ⟨rfl, rfl⟩
end LtVerif.ErrH
