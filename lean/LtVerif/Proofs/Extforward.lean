/-
  Helper lemmas for Props/C03.lean about Model/Extforward.lean: the right-to-left search of
  X-Forwarded-For (`lastNotIn`) and the walk over the Forwarded params (`fwdWalkGroups`).
-/
import LtVerif.Model.Extforward
namespace LtVerif.Extforward
open LtVerif B

/-! ### X-Forwarded-For -/

theorem lastNotIn_some (f : Forwarder) (chain : List Bytes) (a : Bytes) (h : lastNotIn f chain = some a) :
    isProxyTrusted f a = false ∧
      ∃ pre post, chain = pre ++ a :: post ∧ ∀ x ∈ post, isProxyTrusted f x = true := by
  unfold lastNotIn at h
  rw [List.find?_eq_some_iff_append] at h
  obtain ⟨ha, as, bs, hrev, has⟩ := h
  refine ⟨by simpa using ha, bs.reverse, as.reverse, ?_, ?_⟩
  · have := congrArg List.reverse hrev
    simpa using this
  · intro x hx
    have := has x (by simpa using hx)
    simpa using this

theorem lastNotIn_none (f : Forwarder) (chain : List Bytes) :
    lastNotIn f chain = none ↔ ∀ x ∈ chain, isProxyTrusted f x = true := by
  unfold lastNotIn
  rw [List.find?_eq_none]
  constructor
  · intro h x hx
    have := h x (by simpa using hx)
    simpa using this
  · intro h x hx
    have := h x (by simpa using hx)
    simpa using this

theorem lastNotIn_exact (f : Forwarder) (pre post : List Bytes) (a : Bytes)
    (ha : isProxyTrusted f a = false) (hpost : ∀ x ∈ post, isProxyTrusted f x = true) :
    lastNotIn f (pre ++ a :: post) = some a := by
  unfold lastNotIn
  rw [List.find?_eq_some_iff_append]
  refine ⟨by simpa using ha, post.reverse, pre.reverse, by simp, ?_⟩
  intro x hx
  have := hpost x (by simpa using hx)
  simpa using this

/-! ### extract_forward_array() as a left fold; what an appended element does -/

/-- one step of the scanner: (token being collected (reversed), finished tokens (reversed)) -/
def exStep (st : Option Bytes × List Bytes) (c : UInt8) : Option Bytes × List Bytes :=
  match st.1 with
  | none => if isHexColon c then (some [c], st.2) else (none, st.2)
  | some cur => if isHexColon c || c = dot then (some (c :: cur), st.2) else (none, cur.reverse :: st.2)

def exClose (st : Option Bytes × List Bytes) : List Bytes :=
  match st.1 with
  | none => st.2
  | some cur => cur.reverse :: st.2

theorem extractGo_fold (P : Bytes) (cur : Option Bytes) (acc : List Bytes) :
    extractGo P cur acc = (exClose (P.foldl exStep (cur, acc))).reverse := by
  induction P generalizing cur acc with
  | nil => cases cur <;> simp [extractGo, exClose]
  | cons c rest ih =>
    cases cur with
    | none =>
      by_cases h : isHexColon c = true
      · simp [extractGo, exStep, h, ih]
      · simp [extractGo, exStep, h, ih]
    | some cur =>
      by_cases h : (isHexColon c || c = dot) = true
      · simp only [extractGo, h, ↓reduceIte, List.foldl_cons, exStep, ih]
      · simp only [extractGo, h, Bool.false_eq_true, ↓reduceIte, List.foldl_cons, exStep, ih]

theorem fold_token (a : Bytes) (h : ∀ c ∈ a, (isHexColon c || c = dot) = true) (cur : Bytes)
    (acc : List Bytes) : a.foldl exStep (some cur, acc) = (some (a.reverse ++ cur), acc) := by
  induction a generalizing cur with
  | nil => simp
  | cons c rest ih =>
    have hc := h c (by simp)
    simp only [List.foldl_cons, exStep, hc, ↓reduceIte]
    rw [ih (fun x hx => h x (by simp [hx]))]
    simp

/-- whatever precedes it, an element appended after ", " is the last token of the chain -/
theorem extract_append (P a : Bytes) (ht : tokenLike a) :
    extractForwardArray (P ++ [44, 32] ++ a) = extractForwardArray P ++ [a] := by
  obtain ⟨⟨c, rest, rfl, hc⟩, hall⟩ := ht
  unfold extractForwardArray
  rw [extractGo_fold, extractGo_fold, List.foldl_append, List.foldl_append]
  generalize P.foldl exStep (none, []) = st
  obtain ⟨cur, acc⟩ := st
  have hsep : ([44, 32] : Bytes).foldl exStep (cur, acc) = (none, exClose (cur, acc)) := by
    cases cur <;> simp [exStep, exClose, isHexColon, isXDigit, isDigit, colon, dot]
  rw [hsep]
  simp only [List.foldl_cons, exStep, hc, ↓reduceIte]
  rw [fold_token rest (fun x hx => hall x (by simp [hx]))]
  simp [exClose]

/-! ### Forwarded: the capacity of offsets[] -/

theorem slots_append (a b : List Item) : slots (a ++ b) = slots a + slots b := by
  simp [slots, List.sum_append]

/-- the tokenizer only ever adds entries -/
theorem fwdTokGo_mono (s : Bytes) (fuel i : Nat) (items r : List Item)
    (h : fwdTokGo s fuel i items = .ok r) : slots items ≤ slots r := by
  induction fuel generalizing i items with
  | zero => simp only [fwdTokGo, TokRes.ok.injEq] at h; subst h; exact Nat.le_refl _
  | succ fuel ih =>
    simp only [fwdTokGo] at h
    split at h
    · simp only [TokRes.ok.injEq] at h; subst h; exact Nat.le_refl _
    · split at h
      · simp only [TokRes.ok.injEq] at h; subst h; exact Nat.le_refl _
      · split at h
        · exact ih _ _ h
        · split at h
          · split at h
            · simp only [TokRes.ok.injEq] at h; subst h; exact Nat.le_refl _
            · have := ih _ _ h
              rw [slots_append] at this; omega
          · split at h
            · simp at h
            · split at h
              · exact ih _ _ h
              · split at h
                · simp at h
                · split at h
                  · exact ih _ _ h
                  · split at h
                    · simp only [TokRes.ok.injEq] at h; subst h; exact Nat.le_refl _
                    · have := ih _ _ h
                      rw [slots_append] at this; omega

/-- if the bounded tokenizer ends below the capacity it never hit the limit: its result is the
    complete token list of the header -/
theorem fwdTokGo_complete (s : Bytes) (fuel i : Nat) (items r : List Item)
    (h : fwdTokGo s fuel i items = .ok r) (hr : slots r < 253) : fwdTokGoU s fuel i items = .ok r := by
  induction fuel generalizing i items with
  | zero => simpa [fwdTokGo, fwdTokGoU] using h
  | succ fuel ih =>
    simp only [fwdTokGo] at h
    simp only [fwdTokGoU]
    by_cases h1 : i ≥ s.length
    · simp only [h1, ↓reduceIte] at h ⊢; exact h
    · simp only [h1, ↓reduceIte] at h ⊢
      generalize i + ((s.drop i).takeWhile (fun c => c = sp || c = ht)).length = i' at h ⊢
      cases hc : s[i']? with
      | none => simp only [hc] at h ⊢; exact h
      | some c =>
        simp only [hc] at h ⊢
        by_cases h3 : c = 59
        · simp only [h3, ↓reduceIte] at h ⊢; exact ih _ _ h
        · simp only [h3, ↓reduceIte] at h ⊢
          by_cases h4 : c = 44
          · simp only [h4, ↓reduceIte] at h ⊢
            by_cases h5 : slots items ≥ 256
            · simp only [h5, ↓reduceIte, TokRes.ok.injEq] at h; subst h; omega
            · simp only [h5, ↓reduceIte] at h; exact ih _ _ h
          · simp only [h4, ↓reduceIte] at h ⊢
            cases hf : findNext true s i' (s.length + 1) with
            | none => simp [hf] at h
            | some i1 =>
              simp only [hf] at h ⊢
              by_cases h6 : s[i1]? ≠ some 61
              · rw [if_pos h6] at h ⊢; exact ih _ _ h
              · rw [if_neg h6] at h ⊢
                cases hg : findNext false s (i1 + 1) (s.length + 1) with
                | none => simp [hg] at h
                | some i2 =>
                  simp only [hg] at h ⊢
                  by_cases h8 : i1 - i' = 0
                  · simp only [h8, ↓reduceIte] at h ⊢; exact ih _ _ h
                  · simp only [h8, ↓reduceIte] at h ⊢
                    by_cases h9 : slots items ≥ 253
                    · simp only [h9, ↓reduceIte, TokRes.ok.injEq] at h; subst h; omega
                    · simp only [h9, ↓reduceIte] at h; exact ih _ _ h

/-! ### Forwarded -/

/-- Safety of the walk: the identifier it returns is the for= value of some proxy, it is
    usable as an address, and every proxy the walk went past before (= to its right in the
    header) reported a trusted identifier or none. -/
theorem fwdWalk_safe (f : Forwarder) (s : Bytes) (gs : List (List Item)) (ofor : Option Bytes) (a : Bytes)
    (h : fwdWalkGroups f s gs ofor = .addr (some a)) :
    ofor = some a ∨
      ∃ pre g post, gs = pre ++ g :: post ∧ (∀ g' ∈ pre, Passes f s g') ∧
        groupVal s g = some (.val a) ∧ a ≠ [] ∧ usable a = true := by
  induction gs generalizing ofor with
  | nil =>
    simp only [fwdWalkGroups, WalkRes.addr.injEq] at h
    exact Or.inl h
  | cons g gs ih =>
    simp only [fwdWalkGroups] at h
    -- going on to the remaining proxies keeps the claim, with `g` added to the ones passed
    have lift : ∀ ofor', Passes f s g → (ofor' = some a ∨ ∃ pre g0 post, gs = pre ++ g0 :: post ∧
          (∀ g' ∈ pre, Passes f s g') ∧ groupVal s g0 = some (.val a) ∧ a ≠ [] ∧ usable a = true) →
        (ofor' = some a ∨ ∃ pre g0 post, g :: gs = pre ++ g0 :: post ∧
          (∀ g' ∈ pre, Passes f s g') ∧ groupVal s g0 = some (.val a) ∧ a ≠ [] ∧ usable a = true) := by
      intro ofor' hp hr
      rcases hr with hr | ⟨pre, g0, post, h1, h2, h3⟩
      · exact Or.inl hr
      · refine Or.inr ⟨g :: pre, g0, post, by simp [h1], ?_, h3⟩
        intro g' hg'
        rcases List.mem_cons.1 hg' with rfl | hg'
        · exact hp
        · exact h2 g' hg'
    cases hv : groupVal s g with
    | none =>
      simp only [hv] at h
      exact lift ofor (Or.inl hv) (ih ofor h)
    | some v =>
      cases v with
      | bad => simp [hv] at h
      | junk => simp [hv] at h
      | val x =>
        simp only [hv] at h
        by_cases hx : x.isEmpty = true
        · simp only [hx, ↓reduceIte] at h
          have hx' : x = [] := by simpa using hx
          exact lift ofor (Or.inr ⟨x, hv, Or.inl hx'⟩) (ih ofor h)
        · simp only [hx, Bool.false_eq_true, ↓reduceIte] at h
          have hne : x ≠ [] := by simpa using hx
          -- the identifier of `g` becomes the candidate if it is usable
          have cand : ∀ (o : Option Bytes), o = (if usable x = true then some x else ofor) → o = some a →
              (ofor = some a ∨ ∃ pre g0 post, g :: gs = pre ++ g0 :: post ∧
                (∀ g' ∈ pre, Passes f s g') ∧ groupVal s g0 = some (.val a) ∧ a ≠ [] ∧ usable a = true) := by
            intro o ho hoa
            by_cases hu : usable x = true
            · simp only [hu, ↓reduceIte] at ho
              rw [ho] at hoa
              injection hoa with hxa
              subst hxa
              exact Or.inr ⟨[], g, gs, by simp, by simp, hv, hne, hu⟩
            · simp only [hu, Bool.false_eq_true, ↓reduceIte] at ho
              rw [ho] at hoa
              exact Or.inl hoa
          by_cases ht : isProxyTrusted f x = true
          · simp only [ht, ↓reduceIte] at h
            rcases ih _ h with hr | hr
            · exact cand _ rfl hr
            · rcases lift none (Or.inr ⟨x, hv, Or.inr ht⟩) (Or.inr hr) with hr' | hr'
              · simp at hr'
              · exact Or.inr hr'
          · simp only [ht, Bool.false_eq_true, ↓reduceIte, WalkRes.addr.injEq] at h
            exact cand _ rfl h

/-- Exactness of the walk in the normal case: if the right-most proxy whose identifier is not
    trusted reports a usable identifier, that identifier is the result. -/
theorem fwdWalk_exact (f : Forwarder) (s : Bytes) (pre : List (List Item)) (g : List Item)
    (post : List (List Item)) (ofor : Option Bytes) (a : Bytes)
    (hpre : ∀ g' ∈ pre, Passes f s g') (hg : groupVal s g = some (.val a)) (hne : a ≠ [])
    (hu : usable a = true) (hnt : isProxyTrusted f a = false) :
    fwdWalkGroups f s (pre ++ g :: post) ofor = .addr (some a) := by
  induction pre generalizing ofor with
  | nil =>
    have he : a.isEmpty = false := by simpa using hne
    simp [fwdWalkGroups, hg, he, hu, hnt]
  | cons p ps ih =>
    have hp := hpre p (by simp)
    have hps : ∀ g' ∈ ps, Passes f s g' := fun g' hg' => hpre g' (by simp [hg'])
    simp only [List.cons_append, fwdWalkGroups]
    rcases hp with hp | ⟨x, hx, hx'⟩
    · simp only [hp]
      exact ih ofor hps
    · simp only [hx]
      rcases hx' with rfl | ht
      · simp only [List.isEmpty_nil, ↓reduceIte]
        exact ih ofor hps
      · by_cases he : x.isEmpty = true
        · simp only [he, ↓reduceIte]
          exact ih ofor hps
        · simp only [he, Bool.false_eq_true, ↓reduceIte, ht]
          exact ih _ hps

/-! ### only addresses that parse are used -/

theorem setAddr_some (parse : Bytes → Option SockAddr) (a b : Bytes) (sb : SockAddr)
    (h : setAddr parse a = some (b, sb)) : b = a ∧ parse a = some sb := by
  unfold setAddr at h
  cases hp : parse a with
  | none => simp [hp] at h
  | some sa =>
    simp only [hp, Option.some.injEq, Prod.mk.injEq] at h
    exact ⟨h.1.symm, by rw [h.2]⟩

theorem xffAddr_set (parse : Bytes → Option SockAddr) (f : Forwarder) (hdr a : Bytes) (sa : SockAddr)
    (h : xffAddr parse f hdr = some (a, sa)) : parse a = some sa := by
  unfold xffAddr at h
  cases hl : lastNotIn f (extractForwardArray hdr) with
  | none => simp [hl] at h
  | some a0 =>
    simp only [hl] at h
    obtain ⟨rfl, hp⟩ := setAddr_some parse a0 a sa h
    exact hp

theorem forwardedAddr_set (bf : Bool) (parse : Bytes → Option SockAddr) (f : Forwarder) (hdr a : Bytes)
    (sa : SockAddr) (h : forwardedAddr bf parse f hdr = .set a sa) : parse a = some sa := by
  unfold forwardedAddr at h
  cases ht : fwdTokens hdr with
  | bad => simp [ht] at h
  | ok items =>
    simp only [ht] at h
    by_cases h1 : slots items ≥ 253
    · simp [h1] at h
    · simp only [h1, ↓reduceIte] at h
      by_cases h2 : items.isEmpty = true
      · simp [h2] at h
      · simp only [h2, Bool.false_eq_true, ↓reduceIte] at h
        cases hw : (if bf = true then fwdWalkBeforeFix f hdr items else fwdWalk f hdr items) with
        | bad => simp [hw] at h
        | junk => simp [hw] at h
        | addr o =>
          cases o with
          | none => simp [hw] at h
          | some a0 =>
            simp only [hw] at h
            cases hs : setAddr parse a0 with
            | none => simp [hs] at h
            | some p =>
              obtain ⟨b, sb⟩ := p
              simp only [hs, FwdRes.set.injEq] at h
              obtain ⟨rfl, rfl⟩ := h
              exact (setAddr_some parse a0 b sb hs).2 ▸ (by
                have := (setAddr_some parse a0 b sb hs).1
                subst this
                rfl)

/-! ### trust of the TCP peer -/

theorem remoteAddr_untrusted (bf : Bool) (parse : Bytes → Option SockAddr) (c : ExtConf) (peer : Bytes)
    (hdrs : List (Bytes × Bytes))
    (h : ∀ f, c.forwarder = some f → isConnectionTrusted f peer = false) :
    remoteAddr bf parse c peer hdrs = .unchanged := by
  unfold remoteAddr
  cases hf : c.forwarder with
  | none => rfl
  | some f =>
    simp only
    cases pickHeader c.headers hdrs with
    | none => rfl
    | some nv => simp [h f hf]

end LtVerif.Extforward
