/-
  Helper lemmas for C09: FastCGI record / name-value coding round trips and the
  invariant of the STDIN framing loop (Model/Fcgi.lean).
-/
import LtVerif.Model.Fcgi
namespace LtVerif.Fcgi
open LtVerif B

theorem toNat_toUInt8 {n : Nat} (h : n < 256) : n.toUInt8.toNat = n := by
  simp [Nat.toUInt8, UInt8.toNat_ofNat']; omega

/-! ### records -/

/-- the encoder's view of a record list -/
def wire (recs : List Rec) : Bytes := recs.flatMap fun r => record r.type r.reqId r.content

def Rec.ok (r : Rec) : Prop := r.type < 256 ∧ r.reqId < 65536 ∧ r.content.length ≤ 65535

theorem Nat.div_mod_256 (n : Nat) (h : n < 65536) : n / 256 % 256 * 256 + n % 256 = n := by omega

theorem record_length (t rid : Nat) (c : Bytes) : (record t rid c).length = 8 + c.length := by
  simp [record, header]; omega

theorem decodeRecords_record (fuel t rid : Nat) (c rest : Bytes)
    (ht : t < 256) (hid : rid < 65536) (hc : c.length ≤ 65535) :
    decodeRecords (fuel + 1) (record t rid c ++ rest) =
      match decodeRecords fuel rest with
      | some rs => some ({ type := t, reqId := rid, content := c } :: rs)
      | none => none := by
  have hlen : c.length / 256 % 256 * 256 + c.length % 256 = c.length := by omega
  have hidv : rid / 256 % 256 * 256 + rid % 256 = rid := Nat.div_mod_256 rid hid
  have hv : Extracted.C09.fcgiVersion = 1 := rfl
  have h1 : (c.length / 256 % 256).toUInt8.toNat = c.length / 256 % 256 := toNat_toUInt8 (by omega)
  have h2 : (c.length % 256).toUInt8.toNat = c.length % 256 := toNat_toUInt8 (by omega)
  have h3 : (rid / 256 % 256).toUInt8.toNat = rid / 256 % 256 := toNat_toUInt8 (by omega)
  have h4 : (rid % 256).toUInt8.toNat = rid % 256 := toNat_toUInt8 (by omega)
  have h5 : t.toUInt8.toNat = t := toNat_toUInt8 ht
  simp only [record, header, List.cons_append, List.nil_append, decodeRecords, hv]
  simp only [h1, h2, h3, h4, h5, hlen, hidv]
  have h0 : (0 : Nat).toUInt8.toNat = 0 := rfl
  have h1' : (1 : Nat).toUInt8.toNat = 1 := rfl
  simp only [h0, h1', Nat.add_zero, List.length_append, ne_eq, not_true_eq_false, ↓reduceIte]
  have : ¬ (c.length + rest.length < c.length) := by omega
  simp only [this, ↓reduceIte, List.drop_left, List.take_left]
  rfl

theorem wire_length_ge (recs : List Rec) : recs.length ≤ (wire recs).length := by
  induction recs with
  | nil => simp [wire]
  | cons r rs ih =>
    simp only [wire, List.flatMap_cons, List.length_append, List.length_cons] at *
    have := record_length r.type r.reqId r.content
    omega

theorem decodeRecords_wire (recs : List Rec) (h : ∀ r ∈ recs, r.ok) :
    ∀ fuel, recs.length ≤ fuel → decodeRecords fuel (wire recs) = some recs := by
  induction recs with
  | nil => intro fuel _; cases fuel <;> simp [wire, decodeRecords]
  | cons r rs ih =>
    intro fuel hf
    cases fuel with
    | zero => simp at hf
    | succ f =>
      have hr := h r (by simp)
      have : wire (r :: rs) = record r.type r.reqId r.content ++ wire rs := by simp [wire]
      rw [this, decodeRecords_record f r.type r.reqId r.content (wire rs) hr.1 hr.2.1 hr.2.2]
      rw [ih (fun x hx => h x (by simp [hx])) f (by simpa using hf)]

/-! ### name-value pairs -/

theorem decLen_lenEnc (n : Nat) (rest : Bytes) (h : n ≤ 0x7fffffff) :
    decLen (lenEnc n ++ rest) = some (n, rest) := by
  unfold lenEnc
  split
  · rename_i hn
    have e0 : (n / 16777216 % 128 + 128).toUInt8.toNat = n / 16777216 % 128 + 128 :=
      toNat_toUInt8 (by omega)
    have e1 : (n / 65536 % 256).toUInt8.toNat = n / 65536 % 256 := toNat_toUInt8 (by omega)
    have e2 : (n / 256 % 256).toUInt8.toNat = n / 256 % 256 := toNat_toUInt8 (by omega)
    have e3 : (n % 256).toUInt8.toNat = n % 256 := toNat_toUInt8 (by omega)
    have hb : ¬ ((n / 16777216 % 128 + 128).toUInt8 < 128) := by
      intro hlt
      have : (n / 16777216 % 128 + 128).toUInt8.toNat < 128 := hlt
      omega
    simp only [List.cons_append, List.nil_append, decLen, hb, ↓reduceIte, e0, e1, e2, e3]
    congr 2
    omega
  · rename_i hn
    have e : n.toUInt8.toNat = n := toNat_toUInt8 (by omega)
    have hb : n.toUInt8 < 128 := by
      show n.toUInt8.toNat < 128
      omega
    simp [decLen, hb, e]

theorem lenEnc_ne_nil (n : Nat) : lenEnc n ≠ [] := by
  unfold lenEnc; split <;> simp

theorem decodeNV_pair (fuel : Nat) (k v rest : Bytes)
    (hk : k.length ≤ 0x7fffffff) (hv : v.length ≤ 0x7fffffff) :
    decodeNV (fuel + 1) (nvPair k v ++ rest) =
      match decodeNV fuel rest with
      | some l => some ((k, v) :: l)
      | none => none := by
  have hne : (nvPair k v ++ rest).isEmpty = false := by
    have := lenEnc_ne_nil k.length
    cases h : lenEnc k.length with
    | nil => exact absurd h this
    | cons a t => simp [nvPair, h]
  have e1 : nvPair k v ++ rest = lenEnc k.length ++ (lenEnc v.length ++ (k ++ (v ++ rest))) := by
    simp [nvPair, List.append_assoc]
  rw [decodeNV]
  simp only [hne, Bool.false_eq_true, ↓reduceIte]
  rw [e1, decLen_lenEnc _ _ hk]
  simp only [decLen_lenEnc _ _ hv]
  have : ¬ ((k ++ (v ++ rest)).length < k.length + v.length) := by
    simp only [List.length_append]; omega
  simp only [this, ↓reduceIte]
  have d1 : (k ++ (v ++ rest)).drop (k.length + v.length) = rest := by
    rw [← List.drop_drop]; simp
  have d2 : (k ++ (v ++ rest)).take k.length = k := by simp
  have d3 : ((k ++ (v ++ rest)).drop k.length).take v.length = v := by simp
  rw [d1, d2, d3]
  rfl

theorem decodeNV_pairs (env : List (Bytes × Bytes))
    (h : ∀ p ∈ env, p.1.length ≤ 0x7fffffff ∧ p.2.length ≤ 0x7fffffff) :
    ∀ fuel, env.length ≤ fuel → decodeNV fuel (nvPairs env) = some env := by
  induction env with
  | nil => intro fuel _; cases fuel <;> simp [nvPairs, decodeNV]
  | cons p ps ih =>
    intro fuel hf
    cases fuel with
    | zero => simp at hf
    | succ f =>
      obtain ⟨k, v⟩ := p
      have hp := h (k, v) (by simp)
      have : nvPairs ((k, v) :: ps) = nvPair k v ++ nvPairs ps := by simp [nvPairs]
      rw [this, decodeNV_pair f k v _ hp.1 hp.2, ih (fun x hx => h x (by simp [hx])) f (by simpa using hf)]

theorem nvPair_length_ge (k v : Bytes) : 2 ≤ (nvPair k v).length := by
  have h1 : 1 ≤ (lenEnc k.length).length := by unfold lenEnc; split <;> simp
  have h2 : 1 ≤ (lenEnc v.length).length := by unfold lenEnc; split <;> simp
  simp only [nvPair, List.length_append]; omega

theorem nvPairs_length_ge (env : List (Bytes × Bytes)) : env.length ≤ (nvPairs env).length := by
  induction env with
  | nil => simp [nvPairs]
  | cons p ps ih =>
    obtain ⟨k, v⟩ := p
    have : nvPairs ((k, v) :: ps) = nvPair k v ++ nvPairs ps := by simp [nvPairs]
    rw [this, List.length_append, List.length_cons]
    have := nvPair_length_ge k v
    omega

/-- fcgi_env_add() succeeds for every pair exactly when the whole PARAMS content fits one
    record; the accumulated bytes are then the concatenated pairs -/
theorem addAll_spec (env : List (Bytes × Bytes)) :
    ∀ acc : Bytes, acc.length ≤ maxLen →
      (addAll acc env = some (acc ++ nvPairs env) ∧ (acc ++ nvPairs env).length ≤ maxLen) ∨
      (addAll acc env = none ∧ maxLen < (acc ++ nvPairs env).length) := by
  induction env with
  | nil => intro acc h; left; simp [addAll, nvPairs, h]
  | cons p ps ih =>
    intro acc hacc
    obtain ⟨k, v⟩ := p
    have hcat : nvPairs ((k, v) :: ps) = nvPair k v ++ nvPairs ps := by simp [nvPairs]
    have hm : maxLen = 65535 := rfl
    have hkl : k.length ≤ (nvPair k v).length := by simp [nvPair, List.length_append]; omega
    have hvl : v.length ≤ (nvPair k v).length := by simp [nvPair, List.length_append]; omega
    simp only [addAll, envAdd]
    by_cases hbig : k.length > 0x7fffffff ∨ v.length > 0x7fffffff
    · right
      simp only [hbig, ↓reduceIte, true_and]
      rw [hcat]; simp only [List.length_append]
      rcases hbig with hb | hb <;> omega
    · simp only [hbig, ↓reduceIte]
      by_cases hfit : (nvPair k v).length > maxLen - acc.length
      · right
        simp only [hfit, ↓reduceIte, true_and]
        rw [hcat]; simp only [List.length_append]; omega
      · simp only [hfit, ↓reduceIte]
        have hacc' : (acc ++ nvPair k v).length ≤ maxLen := by
          simp only [List.length_append]; omega
        rcases ih (acc ++ nvPair k v) hacc' with ⟨h1, h2⟩ | ⟨h1, h2⟩
        · left; rw [hcat, ← List.append_assoc]; exact ⟨h1, h2⟩
        · right; rw [hcat, ← List.append_assoc]; exact ⟨h1, h2⟩

/-! ### chunking -/

theorem chunksOf_flatten (n : Nat) (hn : 0 < n) :
    ∀ fuel (s : Bytes), s.length ≤ fuel → (chunksOf n fuel s).flatten = s := by
  intro fuel
  induction fuel with
  | zero => intro s h; simp at h; simp [chunksOf, h]
  | succ f ih =>
    intro s h
    unfold chunksOf
    by_cases he : s.isEmpty
    · simp [he]; simpa using he
    · simp only [he, Bool.false_eq_true, ↓reduceIte, List.flatten_cons]
      have hs : 0 < s.length := by
        cases s with
        | nil => simp at he
        | cons a t => simp
      rw [ih (s.drop n) (by simp only [List.length_drop]; omega)]
      exact List.take_append_drop n s

theorem chunksOf_bounds (n : Nat) (hn : 0 < n) :
    ∀ fuel (s : Bytes), ∀ c ∈ chunksOf n fuel s, c ≠ [] ∧ c.length ≤ n := by
  intro fuel
  induction fuel with
  | zero => intro s c hc; simp [chunksOf] at hc
  | succ f ih =>
    intro s c hc
    unfold chunksOf at hc
    by_cases he : s.isEmpty
    · simp [he] at hc
    · simp only [he, Bool.false_eq_true, ↓reduceIte, List.mem_cons] at hc
      rcases hc with rfl | hc
      · constructor
        · cases s with
          | nil => simp at he
          | cons a t =>
            cases n with
            | zero => omega
            | succ m => simp
        · simp only [List.length_take]; omega
      · exact ih _ c hc

theorem stdinRecs_append (id : Nat) (a b : List Bytes) :
    stdinRecs id (a ++ b) = stdinRecs id a ++ stdinRecs id b := by
  simp [stdinRecs]

theorem stdinRecs_length (id : Nat) (cs : List Bytes) :
    (stdinRecs id cs).length = 8 * cs.length + cs.flatten.length := by
  induction cs with
  | nil => simp [stdinRecs]
  | cons c t ih =>
    have : stdinRecs id (c :: t) = record tStdin id c ++ stdinRecs id t := by simp [stdinRecs]
    rw [this, List.length_append, ih, record_length]
    simp only [List.length_cons, List.flatten_cons, List.length_append]
    omega

/-! ### streams on the receiving side -/

theorem takeStream_chunks (t id : Nat) (cs : List Bytes) (rest : List Rec)
    (h : ∀ c ∈ cs, c ≠ []) :
    takeStream t (cs.map (fun c => { type := t, reqId := id, content := c }) ++
                  { type := t, reqId := id, content := [] } :: rest) =
      some (cs.flatten, rest) := by
  induction cs with
  | nil => simp [takeStream]
  | cons c tl ih =>
    have hc : c ≠ [] := h c (by simp)
    have hce : c.isEmpty = false := by
      cases c with
      | nil => exact absurd rfl hc
      | cons a b => rfl
    simp only [List.map_cons, List.cons_append, takeStream, ne_eq, not_true_eq_false, ↓reduceIte, hce,
      Bool.false_eq_true]
    rw [ih (fun x hx => h x (by simp [hx]))]
    simp

end LtVerif.Fcgi
