/-
  Helper lemmas for C09: invariant of the FastCGI STDIN framing loop
  (fcgi_stdin_append() driven by fcgi_create_env() and gw_write_refill_wb()).
-/
import LtVerif.Proofs.Fcgi
namespace LtVerif.Fcgi
open LtVerif B

/-- bytes one fcgi_stdin_append() call takes from the request-body queue (responder) -/
def takeN (st : St) : Nat := min st.pending.length Extracted.C09.maxWriteLimit
/-- the pieces it frames them in -/
def newChunks (st : St) : List Bytes := chunksOf maxLen (takeN st) (st.pending.take (takeN st))

theorem stdinAppend_resp (st : St) (h1 : ¬ st.reqlen = -1) (h2 : st.reqlen ≥ 0) :
    stdinAppend false false st =
      if (((st.out ++ stdinRecs 1 (newChunks st)).length : Nat) : Int) =
          st.reqlen + ((8 * (newChunks st).length : Nat) : Int) then
        { out := st.out ++ stdinRecs 1 (newChunks st) ++ header tStdin 1 0 0,
          reqlen := st.reqlen + ((8 * (newChunks st).length : Nat) : Int) + 8,
          pending := st.pending.drop (takeN st) }
      else
        { out := st.out ++ stdinRecs 1 (newChunks st),
          reqlen := st.reqlen + ((8 * (newChunks st).length : Nat) : Int),
          pending := st.pending.drop (takeN st) } := by
  have hk : Extracted.C09.fcgiHeaderLen = 8 := rfl
  simp only [stdinAppend, Bool.false_eq_true, ↓reduceIte, h1, h2, hk, Bool.not_false, and_true,
    newChunks, takeN]
  rfl

/-- responder, no upgrade: state after the chunks `cs` were framed -/
def Open (Hb body : Bytes) (st : St) (cs : List Bytes) : Prop :=
  st.out = Hb ++ stdinRecs 1 cs ∧
  st.reqlen = ((Hb.length + body.length + 8 * cs.length : Nat) : Int)

/-- state after the whole body was framed and the stream closed -/
def Closed (Hb body : Bytes) (st : St) (cs : List Bytes) : Prop :=
  st.out = Hb ++ stdinRecs 1 cs ++ header tStdin 1 0 0 ∧ cs.flatten = body ∧ st.pending = [] ∧
  st.reqlen = (st.out.length : Int)

def ChunksOk (cs : List Bytes) : Prop := ∀ c ∈ cs, c ≠ [] ∧ c.length ≤ maxLen

theorem header_length (t rid l p : Nat) : (header t rid l p).length = 8 := by simp [header]

theorem newChunks_flatten (st : St) : (newChunks st).flatten = st.pending.take (takeN st) := by
  have hmax : 0 < maxLen := by decide
  exact chunksOf_flatten maxLen hmax (takeN st) _ (by simp [List.length_take]; omega)

theorem newChunks_ok (st : St) : ChunksOk (newChunks st) := by
  have hmax : 0 < maxLen := by decide
  exact chunksOf_bounds maxLen hmax (takeN st) _

theorem stdinAppend_step (Hb body : Bytes) (st : St) (cs : List Bytes) (future : Bytes)
    (hcs : ChunksOk cs)
    (hsplit : cs.flatten ++ st.pending ++ future = body)
    (hopen : Open Hb body st cs) :
    ∃ cs', ChunksOk cs' ∧
      cs'.flatten ++ (stdinAppend false false st).pending ++ future = body ∧
      (stdinAppend false false st).pending = st.pending.drop (takeN st) ∧
      ((Open Hb body (stdinAppend false false st) cs' ∧ cs'.flatten.length < body.length) ∨
       Closed Hb body (stdinAppend false false st) cs') := by
  obtain ⟨hout, hreq⟩ := hopen
  have hreqnn : ¬ (st.reqlen = -1) := by rw [hreq]; omega
  have hreqge : st.reqlen ≥ 0 := by rw [hreq]; omega
  have hst := stdinAppend_resp st hreqnn hreqge
  have hflat := newChunks_flatten st
  have hall : (cs ++ newChunks st).flatten ++ (st.pending.drop (takeN st) ++ future) = body := by
    rw [List.flatten_append, hflat, ← hsplit]
    simp only [List.append_assoc]
    congr 1
    rw [← List.append_assoc, List.take_append_drop]
  have hout1 : st.out ++ stdinRecs 1 (newChunks st) = Hb ++ stdinRecs 1 (cs ++ newChunks st) := by
    rw [hout, stdinRecs_append, List.append_assoc]
  have hlen1 : (st.out ++ stdinRecs 1 (newChunks st)).length =
      Hb.length + 8 * (cs ++ newChunks st).length + (cs ++ newChunks st).flatten.length := by
    rw [hout1, List.length_append, stdinRecs_length]; omega
  have hle : (cs ++ newChunks st).flatten.length ≤ body.length := by
    rw [← hall, List.length_append]; omega
  have hpend : (stdinAppend false false st).pending = st.pending.drop (takeN st) := by
    rw [hst]; split <;> rfl
  refine ⟨cs ++ newChunks st, ?_, ?_, hpend, ?_⟩
  · intro c hc
    rcases List.mem_append.mp hc with h | h
    · exact hcs c h
    · exact newChunks_ok st c h
  · rw [hpend, List.append_assoc]; exact hall
  · by_cases hdone : (cs ++ newChunks st).flatten.length = body.length
    · right
      have hcond : (((st.out ++ stdinRecs 1 (newChunks st)).length : Nat) : Int) =
          st.reqlen + ((8 * (newChunks st).length : Nat) : Int) := by
        rw [hlen1, hreq, hdone]
        simp only [List.length_append]
        push_cast
        omega
      rw [if_pos hcond] at hst
      have hrest : st.pending.drop (takeN st) ++ future = [] := by
        have h1 : ((cs ++ newChunks st).flatten ++ (st.pending.drop (takeN st) ++ future)).length =
            body.length := by rw [hall]
        rw [List.length_append, hdone] at h1
        exact List.eq_nil_of_length_eq_zero (by omega)
      have hpd : st.pending.drop (takeN st) = [] := (List.append_eq_nil_iff.mp hrest).1
      refine ⟨?_, ?_, ?_, ?_⟩
      · rw [hst]; simp only; rw [hout1]
      · rw [hrest, List.append_nil] at hall; exact hall
      · rw [hst]; exact hpd
      · rw [hst]
        simp only [List.length_append, header_length]
        have := hcond
        simp only [List.length_append] at this
        push_cast at this ⊢
        omega
    · left
      have hcond : ¬ ((((st.out ++ stdinRecs 1 (newChunks st)).length : Nat) : Int) =
          st.reqlen + ((8 * (newChunks st).length : Nat) : Int)) := by
        rw [hlen1, hreq]
        simp only [List.length_append]
        push_cast
        omega
      rw [if_neg hcond] at hst
      refine ⟨⟨?_, ?_⟩, by omega⟩
      · rw [hst]; exact hout1
      · rw [hst]; simp only; rw [hreq]
        simp only [List.length_append]
        push_cast
        omega

/-! ### the whole run: create_env, arrivals, flush -/

/-- invariant of a responder run without upgrade: `future` = body bytes not yet arrived -/
def RunInv (Hb body : Bytes) (st : St) (future : Bytes) : Prop :=
  ∃ cs, ChunksOk cs ∧ cs.flatten ++ st.pending ++ future = body ∧
    ((Open Hb body st cs ∧ cs.flatten.length < body.length) ∨ Closed Hb body st cs)

theorem runInv_stdinAppend (Hb body : Bytes) (st : St) (future : Bytes)
    (h : RunInv Hb body st future) (hne : st.pending ≠ []) :
    RunInv Hb body (stdinAppend false false st) future ∧
    (stdinAppend false false st).pending.length < st.pending.length := by
  obtain ⟨cs, hcs, hsplit, hshape⟩ := h
  rcases hshape with ⟨hopen, _⟩ | hclosed
  · obtain ⟨cs', h1, h2, h3, h4⟩ := stdinAppend_step Hb body st cs future hcs hsplit hopen
    refine ⟨⟨cs', h1, h2, h4⟩, ?_⟩
    rw [h3, List.length_drop]
    have hpos : 0 < st.pending.length := by
      cases hp : st.pending with
      | nil => exact absurd hp hne
      | cons a t => simp
    have hm : 0 < Extracted.C09.maxWriteLimit := by decide
    simp only [takeN]
    omega
  · exact absurd hclosed.2.2.1 hne

theorem runInv_arrive (Hb body : Bytes) (st : St) (seg future : Bytes)
    (h : RunInv Hb body st (seg ++ future)) :
    RunInv Hb body (arrive false false st seg) future := by
  unfold arrive
  have hinv' : RunInv Hb body { st with pending := st.pending ++ seg } future := by
    obtain ⟨cs, hcs, hsplit, hshape⟩ := h
    refine ⟨cs, hcs, ?_, ?_⟩
    · simp only; rw [← hsplit]; simp only [List.append_assoc]
    · rcases hshape with ⟨hopen, hlt⟩ | hclosed
      · left; exact ⟨hopen, hlt⟩
      · right
        obtain ⟨c1, c2, c3, c4⟩ := hclosed
        -- everything has been consumed already: the arriving segment is empty
        have hseg : seg = [] := by
          rw [c2, c3] at hsplit
          have : (body ++ [] ++ (seg ++ future)).length = body.length := by rw [hsplit]
          simp only [List.length_append, List.length_nil] at this
          exact List.eq_nil_of_length_eq_zero (by omega)
        refine ⟨c1, c2, ?_, c4⟩
        simp only; rw [c3, hseg]; rfl
  by_cases he : ({ st with pending := st.pending ++ seg } : St).pending.isEmpty ∨ (false = true)
  · rw [if_pos he]; exact hinv'
  · rw [if_neg he]
    have hne : ({ st with pending := st.pending ++ seg } : St).pending ≠ [] := by
      intro hc
      apply he; left; simp only at hc ⊢; rw [hc]; rfl
    exact (runInv_stdinAppend Hb body _ future hinv' hne).1

theorem runInv_foldl (Hb body : Bytes) (segs : List Bytes) :
    ∀ (st : St) (future : Bytes), RunInv Hb body st (segs.flatten ++ future) →
      RunInv Hb body (segs.foldl (arrive false false) st) future := by
  induction segs with
  | nil => intro st future h; simpa using h
  | cons s tl ih =>
    intro st future h
    simp only [List.foldl_cons]
    apply ih
    apply runInv_arrive
    simpa [List.append_assoc] using h

theorem runInv_flush (Hb body : Bytes) :
    ∀ (fuel : Nat) (st : St), RunInv Hb body st [] → st.pending.length < fuel →
      RunInv Hb body (flush false false fuel st) [] ∧ (flush false false fuel st).pending = [] := by
  intro fuel
  induction fuel with
  | zero => intro st _ hlt; omega
  | succ f ih =>
    intro st h hlt
    unfold flush
    by_cases he : st.pending.isEmpty ∨ (false = true)
    · rw [if_pos he]
      refine ⟨h, ?_⟩
      rcases he with he | he
      · simpa using he
      · exact absurd he (by simp)
    · rw [if_neg he]
      have hne : st.pending ≠ [] := by
        intro hc; apply he; left; rw [hc]; rfl
      obtain ⟨h1, h2⟩ := runInv_stdinAppend Hb body st [] h hne
      exact ih _ h1 (by omega)

/-- at the end of a complete run the state is closed -/
theorem runInv_final (Hb body : Bytes) (st : St) (h : RunInv Hb body st []) (hp : st.pending = []) :
    ∃ cs, ChunksOk cs ∧ Closed Hb body st cs := by
  obtain ⟨cs, hcs, hsplit, hshape⟩ := h
  rcases hshape with ⟨_, hlt⟩ | hclosed
  · rw [hp] at hsplit
    simp only [List.append_nil] at hsplit
    rw [hsplit] at hlt
    omega
  · exact ⟨cs, hcs, hclosed⟩

/-! ### what the application decodes from a closed stream -/

def mkRec (t : Nat) (c : Bytes) : Rec := { type := t, reqId := 1, content := c }

theorem stdinRecs_wire (cs : List Bytes) : stdinRecs 1 cs = wire (cs.map (mkRec tStdin)) := by
  induction cs with
  | nil => simp [stdinRecs, wire]
  | cons c t ih =>
    simp only [stdinRecs, wire, List.flatMap_cons, List.map_cons, mkRec] at *
    rw [ih]

theorem header_eq_record (t : Nat) : header t 1 0 0 = record t 1 [] := by simp [record]

theorem closed_wire (role : Nat) (params : Bytes) (cs : List Bytes) :
    head role params ++ stdinRecs 1 cs ++ header tStdin 1 0 0 =
      wire (mkRec tBegin (beginBody role) :: mkRec tParams params :: mkRec tParams [] ::
            (cs.map (mkRec tStdin) ++ [mkRec tStdin []])) := by
  rw [stdinRecs_wire]
  simp only [head, header_eq_record, wire, mkRec, List.flatMap_cons, List.flatMap_append, List.flatMap_nil,
    List.append_nil, List.append_assoc]

theorem decode_closed (role : Nat) (hrole : role < 256) (env : List (Bytes × Bytes)) (henv : env ≠ [])
    (hfit : (nvPairs env).length ≤ maxLen) (cs : List Bytes) (hcs : ChunksOk cs) :
    decode (head role (nvPairs env) ++ stdinRecs 1 cs ++ header tStdin 1 0 0) =
      some { role := role, flags := 0, env := env, stdin := cs.flatten } := by
  have hm : maxLen = 65535 := rfl
  rw [closed_wire]
  generalize hrecs : (mkRec tBegin (beginBody role) :: mkRec tParams (nvPairs env) :: mkRec tParams [] ::
            (cs.map (mkRec tStdin) ++ [mkRec tStdin []])) = recs
  have hok : ∀ r ∈ recs, r.ok := by
    intro r hr
    rw [← hrecs] at hr
    simp only [List.mem_cons, List.mem_append, List.mem_map, List.not_mem_nil,
      or_false] at hr
    rcases hr with rfl | rfl | rfl | ⟨c, hc, rfl⟩ | rfl
    · exact ⟨by simp only [mkRec]; decide, by simp only [mkRec]; decide, by simp [mkRec, beginBody]⟩
    · exact ⟨by simp only [mkRec]; decide, by simp only [mkRec]; decide, by simp only [mkRec]; omega⟩
    · exact ⟨by simp only [mkRec]; decide, by simp only [mkRec]; decide, by simp [mkRec]⟩
    · exact ⟨by simp only [mkRec]; decide, by simp only [mkRec]; decide,
             by have := (hcs c hc).2; simp only [mkRec]; omega⟩
    · exact ⟨by simp only [mkRec]; decide, by simp only [mkRec]; decide, by simp [mkRec]⟩
  unfold decode
  rw [decodeRecords_wire recs hok _ (by have := wire_length_ge recs; omega)]
  rw [← hrecs]
  -- the BEGIN_REQUEST checks
  have hall : ((mkRec tBegin (beginBody role) :: mkRec tParams (nvPairs env) :: mkRec tParams [] ::
      (cs.map (mkRec tStdin) ++ [mkRec tStdin []])).any
        (fun r => decide (r.reqId ≠ (mkRec tBegin (beginBody role)).reqId))) = false := by
    rw [List.any_eq_false]
    intro r hr
    simp only [List.mem_cons, List.mem_append, List.mem_map, List.not_mem_nil,
      or_false] at hr
    rcases hr with rfl | rfl | rfl | ⟨c, _, rfl⟩ | rfl <;> simp [mkRec]
  simp only [hall]
  have hb1 : (mkRec tBegin (beginBody role)).type = tBegin := rfl
  have hb2 : (mkRec tBegin (beginBody role)).content.length = 8 := by simp [mkRec, beginBody]
  have hb3 : (mkRec tBegin (beginBody role)).reqId = 1 := rfl
  simp only [hb1, hb2, hb3, ne_eq, not_true_eq_false, Bool.false_eq_true, Nat.one_ne_zero,
    ↓reduceIte, or_self]
  -- PARAMS
  have hpne : nvPairs env ≠ [] := by
    intro h
    have := nvPairs_length_ge env
    rw [h] at this
    cases env with
    | nil => exact henv rfl
    | cons a t => simp at this
  have hparams : takeStream tParams (mkRec tParams (nvPairs env) :: mkRec tParams [] ::
      (cs.map (mkRec tStdin) ++ [mkRec tStdin []])) =
      some (nvPairs env, cs.map (mkRec tStdin) ++ [mkRec tStdin []]) := by
    have := takeStream_chunks tParams 1 [nvPairs env] (cs.map (mkRec tStdin) ++ [mkRec tStdin []])
      (by intro c hc; simp only [List.mem_singleton] at hc; rw [hc]; exact hpne)
    simp only [List.map_cons, List.map_nil, List.cons_append, List.nil_append, List.flatten_cons,
      List.flatten_nil, List.append_nil] at this
    exact this
  rw [hparams]
  simp only
  have hlens : ∀ p ∈ env, p.1.length ≤ 0x7fffffff ∧ p.2.length ≤ 0x7fffffff := by
    intro p hp
    have hsub : (nvPair p.1 p.2).length ≤ (nvPairs env).length := by
      clear hparams hall hok hrecs hpne
      induction env with
      | nil => simp at hp
      | cons q qs ih =>
        have hcat : nvPairs (q :: qs) = nvPair q.1 q.2 ++ nvPairs qs := by simp [nvPairs]
        rw [hcat, List.length_append]
        rcases List.mem_cons.mp hp with rfl | hmem
        · omega
        · have hq : (nvPairs qs).length ≤ maxLen := by
            rw [hcat, List.length_append] at hfit; omega
          by_cases hqs : qs = []
          · rw [hqs] at hmem; simp at hmem
          · have := ih hqs hq hmem; omega
    have h1 : p.1.length ≤ (nvPair p.1 p.2).length := by simp [nvPair, List.length_append]; omega
    have h2 : p.2.length ≤ (nvPair p.1 p.2).length := by simp [nvPair, List.length_append]; omega
    omega
  rw [decodeNV_pairs env hlens _ (by have := nvPairs_length_ge env; omega)]
  have hstdin : takeStream tStdin (cs.map (mkRec tStdin) ++ [mkRec tStdin []]) = some (cs.flatten, []) := by
    exact takeStream_chunks tStdin 1 cs [] (fun c hc => (hcs c hc).1)
  rw [hstdin]
  simp only [mkRec, beginBody, List.getD_cons_zero, List.getD_cons_succ]
  have h0 : (0 : UInt8).toNat = 0 := rfl
  rw [h0, toNat_toUInt8 hrole]
  simp

/-! ### the whole run -/

theorem run_spec (role : Nat) (hresp : role ≠ Extracted.C09.gwAuthorizer)
    (env : List (Bytes × Bytes)) (seg0 : Bytes) (segs : List Bytes) :
    (maxLen < (nvPairs env).length ∧
      run role false env (((seg0 :: segs).flatten.length : Nat) : Int) seg0 segs = none) ∨
    ((nvPairs env).length ≤ maxLen ∧
      ∃ st cs, run role false env (((seg0 :: segs).flatten.length : Nat) : Int) seg0 segs = some st ∧
        ChunksOk cs ∧ Closed (head role (nvPairs env)) (seg0 :: segs).flatten st cs) := by
  have hauth : (decide (role = Extracted.C09.gwAuthorizer)) = false := by simp [hresp]
  rcases addAll_spec env [] (by decide) with ⟨h1, h2⟩ | ⟨h1, h2⟩
  · right
    simp only [List.nil_append] at h1 h2
    refine ⟨h2, ?_⟩
    generalize hbody : (seg0 :: segs).flatten = body
    -- state handed to the first fcgi_stdin_append() call
    let Hb := head role (nvPairs env)
    let st0 : St := { out := Hb, reqlen := ((Hb.length + body.length : Nat) : Int), pending := seg0 }
    have hce : createEnv role false env ((body.length : Nat) : Int) seg0 = some (stdinAppend false false st0) := by
      simp only [createEnv, h1, hauth]
      congr 2
      simp only [st0, Hb]
      congr 1
      by_cases hz : body.length = 0
      · simp [hz]
      · have : ((body.length : Nat) : Int) > 0 := by omega
        have hne : ¬ (((body.length : Nat) : Int) = 0) := by omega
        simp only [ne_eq, hne, not_false_eq_true, Bool.not_false, and_self, ↓reduceIte, this]
        push_cast; rfl
    have hopen0 : Open Hb body st0 [] := by
      refine ⟨by simp [st0, stdinRecs], ?_⟩
      simp [st0]
    have hsplit0 : ([] : List Bytes).flatten ++ st0.pending ++ segs.flatten = body := by
      rw [← hbody]; simp [st0]
    obtain ⟨cs1, hc1, hs1, _, hsh1⟩ :=
      stdinAppend_step Hb body st0 [] segs.flatten (by intro c hc; simp at hc) hsplit0 hopen0
    have hinv1 : RunInv Hb body (stdinAppend false false st0) (segs.flatten ++ []) := by
      rw [List.append_nil]; exact ⟨cs1, hc1, hs1, hsh1⟩
    have hinv2 := runInv_foldl Hb body segs _ [] hinv1
    obtain ⟨hinv3, hp3⟩ := runInv_flush Hb body
      ((segs.foldl (arrive false false) (stdinAppend false false st0)).pending.length + 1) _ hinv2 (by omega)
    obtain ⟨cs, hcs, hclosed⟩ := runInv_final Hb body _ hinv3 hp3
    refine ⟨_, cs, ?_, hcs, hclosed⟩
    simp only [run, hce, hauth]
  · left
    simp only [List.nil_append] at h1 h2
    refine ⟨h2, ?_⟩
    simp only [run, createEnv, h1]

/-! ### a body that is cut short is never framed as complete -/

theorem runInv_flush' (Hb body future : Bytes) :
    ∀ (fuel : Nat) (st : St), RunInv Hb body st future → st.pending.length < fuel →
      RunInv Hb body (flush false false fuel st) future ∧ (flush false false fuel st).pending = [] := by
  intro fuel
  induction fuel with
  | zero => intro st _ hlt; omega
  | succ f ih =>
    intro st h hlt
    unfold flush
    by_cases he : st.pending.isEmpty ∨ (false = true)
    · rw [if_pos he]
      refine ⟨h, ?_⟩
      rcases he with he | he
      · simpa using he
      · exact absurd he (by simp)
    · rw [if_neg he]
      have hne : st.pending ≠ [] := by
        intro hc; apply he; left; rw [hc]; rfl
      obtain ⟨h1, h2⟩ := runInv_stdinAppend Hb body st future h hne
      exact ih _ h1 (by omega)

theorem takeStream_open (t : Nat) (cs : List Bytes) (h : ∀ c ∈ cs, c ≠ []) :
    takeStream t (cs.map (mkRec t)) = none := by
  induction cs with
  | nil => simp [takeStream]
  | cons c tl ih =>
    have hc : c ≠ [] := h c (by simp)
    have hce : c.isEmpty = false := by cases c <;> simp_all
    have e1 : (mkRec t c).type = t := rfl
    have e2 : (mkRec t c).content = c := rfl
    simp only [List.map_cons, takeStream, e1, e2, ne_eq, not_true_eq_false, ↓reduceIte, hce,
      Bool.false_eq_true, ih (fun x hx => h x (by simp [hx]))]

theorem open_wire (role : Nat) (params : Bytes) (cs : List Bytes) :
    head role params ++ stdinRecs 1 cs =
      wire (mkRec tBegin (beginBody role) :: mkRec tParams params :: mkRec tParams [] ::
            cs.map (mkRec tStdin)) := by
  rw [stdinRecs_wire]
  simp only [head, header_eq_record, wire, mkRec, List.flatMap_cons, List.append_assoc]

/-- without the closing empty STDIN record the application does not see a complete request -/
theorem decode_open (role : Nat) (env : List (Bytes × Bytes)) (henv : env ≠ [])
    (hfit : (nvPairs env).length ≤ maxLen) (cs : List Bytes) (hcs : ChunksOk cs) :
    decode (head role (nvPairs env) ++ stdinRecs 1 cs) = none := by
  have hm : maxLen = 65535 := rfl
  rw [open_wire]
  generalize hrecs : (mkRec tBegin (beginBody role) :: mkRec tParams (nvPairs env) :: mkRec tParams [] ::
            cs.map (mkRec tStdin)) = recs
  have hok : ∀ r ∈ recs, r.ok := by
    intro r hr
    rw [← hrecs] at hr
    simp only [List.mem_cons, List.mem_map] at hr
    rcases hr with rfl | rfl | rfl | ⟨c, hc, rfl⟩
    · exact ⟨by simp only [mkRec]; decide, by simp only [mkRec]; decide, by simp [mkRec, beginBody]⟩
    · exact ⟨by simp only [mkRec]; decide, by simp only [mkRec]; decide, by simp only [mkRec]; omega⟩
    · exact ⟨by simp only [mkRec]; decide, by simp only [mkRec]; decide, by simp [mkRec]⟩
    · exact ⟨by simp only [mkRec]; decide, by simp only [mkRec]; decide,
             by have := (hcs c hc).2; simp only [mkRec]; omega⟩
  unfold decode
  rw [decodeRecords_wire recs hok _ (by have := wire_length_ge recs; omega)]
  rw [← hrecs]
  simp only
  split
  · rfl
  · have hpne : nvPairs env ≠ [] := by
      intro h
      have := nvPairs_length_ge env
      rw [h] at this
      cases env with
      | nil => exact henv rfl
      | cons a t => simp at this
    have hparams : takeStream tParams (mkRec tParams (nvPairs env) :: mkRec tParams [] ::
        cs.map (mkRec tStdin)) = some (nvPairs env, cs.map (mkRec tStdin)) := by
      have := takeStream_chunks tParams 1 [nvPairs env] (cs.map (mkRec tStdin))
        (by intro c hc; simp only [List.mem_singleton] at hc; rw [hc]; exact hpne)
      simp only [List.map_cons, List.map_nil, List.cons_append, List.nil_append, List.flatten_cons,
        List.flatten_nil, List.append_nil] at this
      exact this
    rw [hparams]
    simp only
    rw [takeStream_open tStdin cs (fun c hc => (hcs c hc).1)]
    split <;> simp_all

/-- the announced body length is larger than what ever arrives: the stream stays open (no empty
    STDIN record, gateway still expects more) whatever the schedule -/
theorem run_truncated (role : Nat) (hresp : role ≠ Extracted.C09.gwAuthorizer)
    (env : List (Bytes × Bytes)) (henv : env ≠ []) (hfit : (nvPairs env).length ≤ maxLen)
    (seg0 : Bytes) (segs : List Bytes) (bodyLen : Nat)
    (hlt : (seg0 :: segs).flatten.length < bodyLen) :
    ∃ st, run role false env (bodyLen : Int) seg0 segs = some st ∧ decode st.out = none ∧
      st.reqlen ≠ (st.out.length : Int) ∧ st.pending = [] := by
  have hauth : (decide (role = Extracted.C09.gwAuthorizer)) = false := by simp [hresp]
  rcases addAll_spec env [] (by decide) with ⟨h1, _⟩ | ⟨_, h2⟩
  · simp only [List.nil_append] at h1
    generalize hmiss : List.replicate (bodyLen - (seg0 :: segs).flatten.length) (0 : UInt8) = missing
    have hmlen : missing.length = bodyLen - (seg0 :: segs).flatten.length := by rw [← hmiss]; simp
    generalize hbody : (seg0 :: segs).flatten ++ missing = body
    have hblen : body.length = bodyLen := by
      rw [← hbody, List.length_append, hmlen]; omega
    let Hb := head role (nvPairs env)
    let st0 : St := { out := Hb, reqlen := ((Hb.length + body.length : Nat) : Int), pending := seg0 }
    have hce : createEnv role false env (bodyLen : Int) seg0 = some (stdinAppend false false st0) := by
      simp only [createEnv, h1, hauth]
      congr 2
      simp only [st0, Hb]
      congr 1
      have hpos : ((bodyLen : Nat) : Int) > 0 := by omega
      have hne : ¬ (((bodyLen : Nat) : Int) = 0) := by omega
      simp only [ne_eq, hne, not_false_eq_true, Bool.not_false, and_self, ↓reduceIte, hpos]
      rw [hblen]; push_cast; rfl
    have hopen0 : Open Hb body st0 [] := ⟨by simp [st0, stdinRecs], by simp [st0]⟩
    have hsplit0 : ([] : List Bytes).flatten ++ st0.pending ++ (segs.flatten ++ missing) = body := by
      rw [← hbody]; simp [st0, List.append_assoc]
    obtain ⟨cs1, hc1, hs1, _, hsh1⟩ :=
      stdinAppend_step Hb body st0 [] (segs.flatten ++ missing) (by intro c hc; simp at hc) hsplit0 hopen0
    have hinv1 : RunInv Hb body (stdinAppend false false st0) (segs.flatten ++ missing) :=
      ⟨cs1, hc1, hs1, hsh1⟩
    have hinv2 := runInv_foldl Hb body segs _ missing hinv1
    obtain ⟨hinv3, hp3⟩ := runInv_flush' Hb body missing
      ((segs.foldl (arrive false false) (stdinAppend false false st0)).pending.length + 1) _ hinv2 (by omega)
    obtain ⟨cs, hcs, hsplit, hshape⟩ := hinv3
    have hrun : run role false env (bodyLen : Int) seg0 segs =
        some (flush false false
          ((segs.foldl (arrive false false) (stdinAppend false false st0)).pending.length + 1)
          (segs.foldl (arrive false false) (stdinAppend false false st0))) := by
      simp only [run, hce, hauth]
    refine ⟨_, hrun, ?_⟩
    rw [hp3] at hsplit
    simp only [List.append_nil] at hsplit
    have hmne : 0 < missing.length := by rw [hmlen]; omega
    rcases hshape with ⟨⟨ho1, ho2⟩, _⟩ | hclosed
    · refine ⟨?_, ?_, hp3⟩
      · rw [ho1]; exact decode_open role env henv hfit cs hcs
      · rw [ho2, ho1, List.length_append, stdinRecs_length]
        have : cs.flatten.length + missing.length = body.length := by
          rw [← hsplit, List.length_append]
        push_cast
        omega
    · exfalso
      have := hclosed.2.1
      rw [← hsplit] at this
      have h2 : (cs.flatten ++ missing).length = cs.flatten.length := by rw [← this]
      rw [List.length_append] at h2
      omega
  · simp only [List.nil_append] at h2
    omega

/-- authorizer mode: the authorizer gets the variables and an empty, closed STDIN; the request
    body stays in lighttpd (`pending` untouched) for the responder that follows -/
theorem run_authorizer (env : List (Bytes × Bytes)) (henv : env ≠ [])
    (hfit : (nvPairs env).length ≤ maxLen) (bodyLen : Int) (seg0 : Bytes) (segs : List Bytes) :
    ∃ st, run Extracted.C09.gwAuthorizer false env bodyLen seg0 segs = some st ∧
      decode st.out = some { role := Extracted.C09.gwAuthorizer, flags := 0, env := env, stdin := [] } ∧
      st.pending = (seg0 :: segs).flatten := by
  rcases addAll_spec env [] (by decide) with ⟨h1, _⟩ | ⟨_, h2⟩
  · simp only [List.nil_append] at h1
    have hk : Extracted.C09.fcgiHeaderLen = 8 := rfl
    have hce : createEnv Extracted.C09.gwAuthorizer false env bodyLen seg0 =
        some { out := head Extracted.C09.gwAuthorizer (nvPairs env) ++ header tStdin 1 0 0,
               reqlen := ((head Extracted.C09.gwAuthorizer (nvPairs env)).length : Int) + 8,
               pending := seg0 } := by
      simp only [createEnv, h1, decide_true, Bool.not_true, Bool.false_eq_true, and_false, ↓reduceIte]
      simp [stdinAppend, chunksOf, stdinRecs, hk]
    have hfold : ∀ (segs : List Bytes) (st : St),
        (segs.foldl (arrive true false) st) = { st with pending := st.pending ++ segs.flatten } := by
      intro segs
      induction segs with
      | nil => intro st; simp
      | cons s tl ih => intro st; simp [List.foldl_cons, arrive, ih, List.append_assoc]
    have hrun : run Extracted.C09.gwAuthorizer false env bodyLen seg0 segs =
        some { out := head Extracted.C09.gwAuthorizer (nvPairs env) ++ header tStdin 1 0 0,
               reqlen := ((head Extracted.C09.gwAuthorizer (nvPairs env)).length : Int) + 8,
               pending := seg0 ++ segs.flatten } := by
      simp only [run, hce, decide_true, hfold]
      simp [flush]
    refine ⟨_, hrun, ?_, by simp⟩
    have := decode_closed Extracted.C09.gwAuthorizer (by decide) env henv hfit [] (by intro c hc; simp at hc)
    simpa [stdinRecs] using this
  · simp only [List.nil_append] at h2
    omega

end LtVerif.Fcgi
