/-
  Helper lemmas for C11 (backend pool): counting lemmas, the accounting invariant
  `Acct` is preserved by every function of Model/Gw.lean, availability invariant,
  disable window, retry measure.
-/
import LtVerif.Model.Gw
set_option linter.unusedSimpArgs false
set_option linter.unusedVariables false
namespace LtVerif.Gw

theorem sumTo_congr (n : Nat) (f g : Nat → Int) (h : ∀ i, i < n → f i = g i) : sumTo n f = sumTo n g := by
  induction n with
  | zero => rfl
  | succ n ih =>
    simp only [sumTo]
    rw [ih (fun i hi => h i (by omega)), h n (by omega)]

theorem sumTo_update (n s : Nat) (f g : Nat → Int) (hs : s < n) (h : ∀ i, i ≠ s → g i = f i) :
    sumTo n g = sumTo n f - f s + g s := by
  induction n with
  | zero => omega
  | succ n ih =>
    simp only [sumTo]
    by_cases hsn : s = n
    · subst hsn
      rw [sumTo_congr s g f (fun i hi => h i (by omega))]
      omega
    · rw [ih (by omega), h n (by omega)]
      omega

/-- a count over the slots after slot s was rewritten -/
theorem cnt_set (w : World) (s : Nat) (v : Option Ctx) (F : Option Ctx → Int)
    (hr : ∀ i, w.nslots ≤ i → w.slot i = none) (hv : w.nslots ≤ s → F v = F none) :
    sumTo w.nslots (fun i => F (if i = s then v else w.slot i))
      = sumTo w.nslots (fun i => F (w.slot i)) - F (w.slot s) + F v := by
  by_cases hs : s < w.nslots
  · rw [sumTo_update w.nslots s (fun i => F (w.slot i)) _ hs]
    · simp
    · intro i hi; simp [hi]
  · have h1 : w.slot s = none := hr s (by omega)
    rw [sumTo_congr w.nslots _ (fun i => F (w.slot i))]
    · rw [h1, hv (by omega)]; omega
    · intro i hi
      have : i ≠ s := by omega
      simp [this]

/-- master lemma: slot s rewritten from `w.slot s` to `v`, counters moved by the
    difference of the slot's contributions -/
theorem acct_rewrite {w w' : World} {t t' : Option Nat} (s : Nat) (v : Option Ctx)
    (hA : Acct t w)
    (hslot : w'.slot = fun i => if i = s then v else w.slot i)
    (hn : w'.nslots = w.nslots)
    (hv : v.isSome → s < w.nslots)
    (hhl : ∀ h, (w'.host h).load = (w.host h).load - hostC h (w.slot s) + hostC h v)
    (hhs : ∀ h, (w'.host h).statLoad = (w'.host h).load)
    (hpl : ∀ h p, (w'.proc h p).load = (w.proc h p).load - procC h p (w.slot s) + procC h p v)
    (hps : ∀ h p, (w'.proc h p).statLoad = (w'.proc h p).load)
    (hg : w'.globalActive = w.globalActive - anyProcC (w.slot s) + anyProcC v)
    (hf : w'.curFds - w'.pendClose = w.curFds - w.pendClose - fdC (w.slot s) + fdC v)
    (hgh : (w'.opened : Int) - w'.closed - w'.pendClose
            = w.opened - w.closed - w.pendClose - fdC (w.slot s) + fdC v)
    (hok : ∀ c, v = some c → SlotOk (decide (t' = some s)) c)
    (hoth : ∀ i c, i ≠ s → w.slot i = some c → SlotOk (decide (t = some i)) c →
              SlotOk (decide (t' = some i)) c) :
    Acct t' w' := by
  have hnone : ∀ F : Option Ctx → Int, F none = 0 → w.nslots ≤ s → F v = F none := by
    intro F _ hs
    cases hv' : v with
    | none => rfl
    | some c => have := hv (by simp [hv']); omega
  constructor
  · intro h
    rw [hhl, hA.hostLoad]
    simp only [hostCnt, hslot, hn]
    rw [cnt_set w s v (hostC h) hA.range (hnone _ rfl)]
  · exact hhs
  · intro h p
    rw [hpl, hA.procLoad]
    simp only [procCnt, hslot, hn]
    rw [cnt_set w s v (procC h p) hA.range (hnone _ rfl)]
  · exact hps
  · rw [hg, hA.global]
    simp only [anyProcCnt, hslot, hn]
    rw [cnt_set w s v anyProcC hA.range (hnone _ rfl)]
  · have h1 := hA.fds
    have : fdCnt w' = fdCnt w - fdC (w.slot s) + fdC v := by
      simp only [fdCnt, hslot, hn]
      rw [cnt_set w s v fdC hA.range (hnone _ rfl)]
    omega
  · have h1 := hA.ghost
    have : fdCnt w' = fdCnt w - fdC (w.slot s) + fdC v := by
      simp only [fdCnt, hslot, hn]
      rw [cnt_set w s v fdC hA.range (hnone _ rfl)]
    omega
  · intro i c hc
    rw [hslot] at hc
    by_cases hi : i = s
    · subst hi; simp at hc; exact hok c hc
    · simp [hi] at hc; exact hoth i c hi hc (hA.slots i c hc)
  · intro i hi
    rw [hslot]
    by_cases his : i = s
    · subst his
      cases hv' : v with
      | none => simp
      | some c => have := hv (by simp [hv']); omega
    · simp [his]; exact hA.range i (by omega)

/-- frame lemma: nothing the accounting looks at changed -/
theorem acct_frame {w w' : World} {t : Option Nat} (hA : Acct t w)
    (hslot : w'.slot = w.slot) (hn : w'.nslots = w.nslots)
    (hhl : ∀ h, (w'.host h).load = (w.host h).load) (hhs : ∀ h, (w'.host h).statLoad = (w.host h).statLoad)
    (hpl : ∀ h p, (w'.proc h p).load = (w.proc h p).load)
    (hps : ∀ h p, (w'.proc h p).statLoad = (w.proc h p).statLoad)
    (hg : w'.globalActive = w.globalActive) (hf : w'.curFds = w.curFds) (hp : w'.pendClose = w.pendClose)
    (ho : w'.opened = w.opened) (hc : w'.closed = w.closed) : Acct t w' := by
  constructor
  · intro h; rw [hhl, hA.hostLoad]; simp only [hostCnt, hslot, hn]
  · intro h; rw [hhs, hhl, hA.hostStat]
  · intro h p; rw [hpl, hA.procLoad]; simp only [procCnt, hslot, hn]
  · intro h p; rw [hps, hpl, hA.procStat]
  · rw [hg, hA.global]; simp only [anyProcCnt, hslot, hn]
  · rw [hf, hp, hA.fds]; simp only [fdCnt, hslot, hn]
  · rw [ho, hc, hp, hA.ghost]; simp only [fdCnt, hslot, hn]
  · intro s c h; rw [hslot] at h; exact hA.slots s c h
  · intro s h; rw [hslot]; exact hA.range s (by omega)


theorem slot_lt {w : World} {t : Option Nat} (hA : Acct t w) {s : Nat} {c : Ctx} (hs : w.slot s = some c) :
    s < w.nslots := by
  refine Nat.lt_of_not_le fun hle => ?_
  have := hA.range s hle; simp [hs] at this

theorem slotOk_weaken {b : Bool} {c : Ctx} (h : SlotOk false c) : SlotOk b c :=
  ⟨h.1, h.2, fun _ => h.3 rfl⟩

theorem slotOk_relax {b : Bool} {c : Ctx} (h : SlotOk b c) : SlotOk true c :=
  ⟨h.1, h.2, fun hh => by simp at hh⟩

/-- slot s : some c ↦ some c' -/
theorem acct_link {w w' : World} {t t' : Option Nat} (s : Nat) (c c' : Ctx)
    (hA : Acct t w) (hs : w.slot s = some c)
    (hslot : w'.slot = fun i => if i = s then some c' else w.slot i)
    (hn : w'.nslots = w.nslots)
    (hhl : ∀ h, (w'.host h).load = (w.host h).load - hostC h (some c) + hostC h (some c'))
    (hhs : ∀ h, (w'.host h).statLoad = (w'.host h).load)
    (hpl : ∀ h p, (w'.proc h p).load = (w.proc h p).load - procC h p (some c) + procC h p (some c'))
    (hps : ∀ h p, (w'.proc h p).statLoad = (w'.proc h p).load)
    (hg : w'.globalActive = w.globalActive - anyProcC (some c) + anyProcC (some c'))
    (hf : w'.curFds - w'.pendClose = w.curFds - w.pendClose - fdC (some c) + fdC (some c'))
    (hgh : (w'.opened : Int) - w'.closed - w'.pendClose
            = w.opened - w.closed - w.pendClose - fdC (some c) + fdC (some c'))
    (hok : SlotOk (decide (t' = some s)) c')
    (hoth : ∀ i, i ≠ s → t ≠ some i) :
    Acct t' w' := by
  refine acct_rewrite s (some c') hA hslot hn (fun _ => slot_lt hA hs) ?_ hhs ?_ hps ?_ ?_ ?_ ?_ ?_
  · intro h; rw [hs]; exact hhl h
  · intro h p; rw [hs]; exact hpl h p
  · rw [hs]; exact hg
  · rw [hs]; exact hf
  · rw [hs]; exact hgh
  · intro c0 h0; simp at h0; subst h0; exact hok
  · intro i c0 hi _ h0
    have : decide (t = some i) = false := by simpa using hoth i hi
    rw [this] at h0
    exact slotOk_weaken h0

theorem updSlot_some {w : World} {s : Nat} {c : Ctx} (f : Ctx → Ctx) (hs : w.slot s = some c) :
    (w.updSlot s f).slot = fun i => if i = s then some (f c) else w.slot i := by
  simp [World.updSlot, hs]

theorem updSlot_none {w : World} {s : Nat} (f : Ctx → Ctx) (hs : w.slot s = none) :
    w.updSlot s f = w := by
  cases w; simp only [World.updSlot] at *
  congr; funext i; by_cases h : i = s <;> simp [h, hs]

theorem updSlot_id {w : World} {s : Nat} (f : Ctx → Ctx) (h : ∀ c, w.slot s = some c → f c = c) :
    w.updSlot s f = w := by
  cases hs : w.slot s with
  | none => exact updSlot_none f hs
  | some c =>
    have := h c hs
    cases w; simp only [World.updSlot] at *
    congr; funext i; by_cases hi : i = s <;> simp [hi, hs, this]

theorem acct_updAux {w : World} {t : Option Nat} (s : Nat) (f : Aux → Aux) (hA : Acct t w)
    (hoth : ∀ i, i ≠ s → t ≠ some i) :
    Acct t (w.updAux s f) := by
  cases hs : w.slot s with
  | none => rw [World.updAux, updSlot_none _ hs]; exact hA
  | some c =>
    have hok := hA.slots s c hs
    refine acct_link s c { c with aux := f c.aux } hA hs (updSlot_some _ hs) rfl ?_ ?_ ?_ ?_ ?_ ?_ ?_ ?_ ?_
    · intro h; simp [hostC, World.updAux, World.updSlot]
    · intro h; simp [World.updAux, World.updSlot, hA.hostStat]
    · intro h p; simp [procC, World.updAux, World.updSlot]
    · intro h p; simp [World.updAux, World.updSlot, hA.procStat]
    · simp [anyProcC, World.updAux, World.updSlot]
    · simp [fdC, World.updAux, World.updSlot]
    · simp [fdC, World.updAux, World.updSlot]
    · exact ⟨hok.1, hok.2, hok.3⟩
    · exact hoth

/-- `t` relaxes at most the slot being worked on -/
def TOk (t : Option Nat) (s : Nat) : Prop := t = none ∨ t = some s

theorem TOk.oth {t : Option Nat} {s : Nat} (h : TOk t s) : ∀ i, i ≠ s → t ≠ some i := by
  intro i hi; rcases h with h | h <;> simp [h]; omega

theorem tok_none (s : Nat) : TOk none s := Or.inl rfl
theorem tok_some (s : Nat) : TOk (some s) s := Or.inr rfl

theorem acct_relax {w : World} {t : Option Nat} (s : Nat) (hA : Acct t w) (ht : TOk t s) : Acct (some s) w := by
  refine ⟨hA.1, hA.2, hA.3, hA.4, hA.5, hA.6, hA.7, ?_, hA.9⟩
  intro i c hc
  have h0 := hA.slots i c hc
  by_cases hi : i = s
  · subst hi; simp; exact slotOk_relax h0
  · have : decide (t = some i) = false := by simpa using ht.oth i hi
    rw [this] at h0; exact slotOk_weaken h0

/-- leave the relaxed mode once slot s is no longer a dirty GW_STATE_INIT -/
theorem acct_tighten {w : World} {t : Option Nat} (s : Nat) (hA : Acct t w) (ht : TOk t s)
    (h : ∀ c, w.slot s = some c → c.link.state = .init → c.link.proc = none ∧ c.link.fd = false) :
    Acct none w := by
  refine ⟨hA.1, hA.2, hA.3, hA.4, hA.5, hA.6, hA.7, ?_, hA.9⟩
  intro i c hc
  have h0 := hA.slots i c hc
  by_cases hi : i = s
  · subst hi; simp; exact ⟨h0.1, h0.2, fun _ => h c hc⟩
  · have : decide (t = some i) = false := by simpa using ht.oth i hi
    rw [this] at h0; simpa using h0

theorem acct_hstat {w : World} {t : Option Nat} (f : Nat → Int) (hA : Acct t w) : Acct t { w with hstat := f } :=
  acct_frame hA rfl rfl (fun _ => rfl) (fun _ => rfl) (fun _ _ => rfl) (fun _ _ => rfl) rfl rfl rfl rfl rfl

theorem acct_pstat {w : World} {t : Option Nat} (f : Nat → Nat → Int) (hA : Acct t w) : Acct t { w with pstat := f } :=
  acct_frame hA rfl rfl (fun _ => rfl) (fun _ => rfl) (fun _ _ => rfl) (fun _ _ => rfl) rfl rfl rfl rfl rfl

theorem acct_hostAssign {w : World} {t : Option Nat} (s h : Nat) (hA : Acct t w) (ht : TOk t s)
    (hh : ∀ c, w.slot s = some c → c.link.host = none) :
    Acct t (hostAssign w s h) := by
  cases hs : w.slot s with
  | none => simp [hostAssign, hs]; exact hA
  | some c =>
    have hok := hA.slots s c hs
    have hnone := hh c hs
    have hp : c.link.proc = none := by
      cases hp : c.link.proc with
      | none => rfl
      | some p => have := hok.1 (by simp [hp]); simp [hnone] at this
    have e : hostAssign w s h = setHostLoad (w.updLink s fun l => { l with host := some h }) h
        ((w.host h).load + 1) := by simp [hostAssign, hs]
    rw [e]
    unfold setHostLoad
    refine acct_hstat _ ?_
    refine acct_link s c { c with link := { c.link with host := some h } } hA hs ?_ rfl ?_ ?_ ?_ ?_ ?_ ?_ ?_ ?_ ht.oth
    · simp [World.updHost, World.updLink]; exact updSlot_some _ hs
    · intro h'; simp [World.updHost, World.updLink, World.updSlot, hostC, hnone]
      by_cases e : h' = h <;> simp [e] <;> omega
    · intro h'; simp [World.updHost, World.updLink, World.updSlot]
      by_cases e : h' = h <;> simp [e, hA.hostStat]
    · intro h' p; simp [World.updHost, World.updLink, World.updSlot, procC, hnone, hp]
    · intro h' p; simp [World.updHost, World.updLink, World.updSlot, hA.procStat]
    · simp [World.updHost, World.updLink, World.updSlot, anyProcC]
    · simp [World.updHost, World.updLink, World.updSlot, fdC]
    · simp [World.updHost, World.updLink, World.updSlot, fdC]
    · exact ⟨fun _ => by simp, hok.2, hok.3⟩

theorem acct_procAcquire {w : World} {t : Option Nat} (s h p : Nat) (hA : Acct t w) (ht : TOk t s)
    (hh : ∀ c, w.slot s = some c → c.link.host = some h ∧ c.link.proc = none) :
    Acct (some s) (procAcquire w s h p) := by
  cases hs : w.slot s with
  | none => simp [procAcquire, hs]; exact acct_relax s hA ht
  | some c =>
    have hok := hA.slots s c hs
    obtain ⟨hhost, hproc⟩ := hh c hs
    have hfd : c.link.fd = false := by
      cases hf : c.link.fd with
      | false => rfl
      | true => have := hok.2 hf; simp [hproc] at this
    have e : procAcquire w s h p =
        { (setProcLoad (w.updLink s fun l => { l with proc := some p }) h p ((w.proc h p).load + 1)) with
          globalActive := w.globalActive + 1 } := by simp [procAcquire, hs]; rfl
    rw [e]
    refine acct_link s c { c with link := { c.link with proc := some p } } hA hs ?_ rfl ?_ ?_ ?_ ?_ ?_ ?_ ?_ ?_ ht.oth
    all_goals simp only [setProcLoad]
    · simp [World.updProc, World.updLink]; exact updSlot_some _ hs
    · intro h'; simp [World.updProc, World.updLink, World.updSlot, hostC]
    · intro h'; simp [World.updProc, World.updLink, World.updSlot, hA.hostStat]
    · intro h' p'; simp [World.updProc, World.updLink, World.updSlot, procC, hhost, hproc]
      by_cases e : h' = h ∧ p' = p
      · obtain ⟨e1, e2⟩ := e; subst e1; subst e2; simp
      · simp [e]
        have : ¬ (h = h' ∧ p = p') := fun ⟨a, b⟩ => e ⟨a.symm, b.symm⟩
        simp [this]
    · intro h' p'; simp [World.updProc, World.updLink, World.updSlot]
      by_cases e : h' = h ∧ p' = p <;> simp [e, hA.procStat]
    · simp [World.updProc, World.updLink, World.updSlot, anyProcC, hproc]
    · simp [World.updProc, World.updLink, World.updSlot, fdC]
    · simp [World.updProc, World.updLink, World.updSlot, fdC]
    · exact ⟨fun _ => by simp [hhost], fun hf => by simp [hfd] at hf, fun hh => by simp at hh⟩

theorem acct_openFd {w : World} (s : Nat) (hA : Acct (some s) w)
    (hh : ∀ c, w.slot s = some c → c.link.proc.isSome ∧ c.link.fd = false) :
    Acct (some s) (openFd w s) := by
  cases hs : w.slot s with
  | none => simp [openFd, hs]; exact hA
  | some c =>
    have hok := hA.slots s c hs
    obtain ⟨hproc, hfd⟩ := hh c hs
    have e : openFd w s = ({ w with curFds := w.curFds + 1, opened := w.opened + 1 }).updLink s
        fun l => { l with fd := true } := by simp [openFd, hs]
    rw [e]
    refine acct_link s c { c with link := { c.link with fd := true } } hA hs ?_ rfl ?_ ?_ ?_ ?_ ?_ ?_ ?_ ?_ (tok_some s).oth
    · simp [World.updLink]; exact updSlot_some _ hs
    · intro h'; simp [World.updLink, World.updSlot, hostC]
    · intro h'; simp [World.updLink, World.updSlot, hA.hostStat]
    · intro h' p'; simp [World.updLink, World.updSlot, procC]
    · intro h' p'; simp [World.updLink, World.updSlot, hA.procStat]
    · simp [World.updLink, World.updSlot, anyProcC]
    · simp [World.updLink, World.updSlot, fdC, hfd]; omega
    · simp [World.updLink, World.updSlot, fdC, hfd]; omega
    · exact ⟨hok.1, fun _ => hproc, fun hh => by simp at hh⟩

/-- the context left behind by gw_backend_close() -/
def closedCtx (c : Ctx) : Ctx :=
  { link := { c.link with fd := false, proc := none, host := none },
    aux := if c.link.fd then { c.aux with evIn := false, evOut := false, evRdhup := false } else c.aux }

theorem ctx_eta (c : Ctx) : ({ link := c.link, aux := c.aux } : Ctx) = c := by cases c; rfl

/-- the four shapes a context can have (SlotOk) -/
theorem slot_shapes {b : Bool} {c : Ctx} (hok : SlotOk b c) :
    (c.link.host = none ∧ c.link.proc = none ∧ c.link.fd = false) ∨
    (∃ h, c.link.host = some h ∧ c.link.proc = none ∧ c.link.fd = false) ∨
    (∃ h p, c.link.host = some h ∧ c.link.proc = some p ∧ c.link.fd = false) ∨
    (∃ h p, c.link.host = some h ∧ c.link.proc = some p ∧ c.link.fd = true) := by
  cases hp : c.link.proc with
  | none =>
    have hfd : c.link.fd = false := by
      cases hf : c.link.fd with
      | false => rfl
      | true => have := hok.2 hf; simp [hp] at this
    cases hh : c.link.host with
    | none => exact Or.inl ⟨rfl, rfl, hfd⟩
    | some h => exact Or.inr (Or.inl ⟨h, rfl, rfl, hfd⟩)
  | some p =>
    have := hok.1 (by simp [hp])
    cases hh : c.link.host with
    | none => simp [hh] at this
    | some h =>
      cases hf : c.link.fd with
      | false => exact Or.inr (Or.inr (Or.inl ⟨h, p, rfl, rfl, rfl⟩))
      | true => exact Or.inr (Or.inr (Or.inr ⟨h, p, rfl, rfl, rfl⟩))

theorem backendClose_slot {w : World} {t : Option Nat} (s : Nat) (c : Ctx) (hA : Acct t w)
    (hs : w.slot s = some c) :
    (backendClose w s).slot = fun i => if i = s then some (closedCtx c) else w.slot i := by
  have hok := hA.slots s c hs
  funext i
  rcases slot_shapes hok with ⟨hh, hp, hfd⟩ | ⟨h, hh, hp, hfd⟩ | ⟨h, p, hh, hp, hfd⟩ | ⟨h, p, hh, hp, hfd⟩ <;>
    simp [backendClose, setHostLoad, setProcLoad, hs, hfd, hh, hp, World.updLink, World.updAux, World.updSlot,
      World.updHost, World.updProc, closedCtx] <;>
    by_cases hi : i = s <;> simp [hi, hs]
  cases c; rename_i l a; cases l; simp_all

theorem backendClose_none {w : World} (s : Nat) (hs : w.slot s = none) : backendClose w s = w := by
  simp [backendClose, hs]

theorem acct_backendClose {w : World} {t : Option Nat} (s : Nat) (hA : Acct t w) (ht : TOk t s) :
    Acct none (backendClose w s) := by
  cases hs : w.slot s with
  | none => rw [backendClose_none s hs]; exact acct_tighten s hA ht (by simp [hs])
  | some c =>
    have hok := hA.slots s c hs
    refine acct_link s c (closedCtx c) hA hs (backendClose_slot s c hA hs) ?_ ?_ ?_ ?_ ?_ ?_ ?_ ?_ ?_ ht.oth
    all_goals
      rcases slot_shapes hok with ⟨hh, hp, hfd⟩ | ⟨h, hh, hp, hfd⟩ | ⟨h, p, hh, hp, hfd⟩ | ⟨h, p, hh, hp, hfd⟩
    all_goals (try intro h'); (try intro p')
    all_goals
      simp [backendClose, setHostLoad, setProcLoad, hs, hfd, hh, hp, World.updLink, World.updAux, World.updSlot,
        World.updHost, World.updProc, closedCtx, hostC, procC, anyProcC, fdC, hA.hostStat, hA.procStat]
    all_goals first
      | omega
      | exact ⟨by simp, by simp, by simp⟩
      | (by_cases e : h' = h <;> simp [e, hA.hostStat] <;> omega)
      | (by_cases e : h' = h ∧ p' = p <;> simp [e, hA.procStat] <;> grind)

/-! ### frames -/

theorem acct_script {w : World} {t : Option Nat} (sc : Script) (hA : Acct t w) : Acct t { w with script := sc } :=
  acct_frame hA rfl rfl (fun _ => rfl) (fun _ => rfl) (fun _ _ => rfl) (fun _ _ => rfl) rfl rfl rfl rfl rfl

theorem acct_emit {w : World} {t : Option Nat} (e : Ev) (hA : Acct t w) : Acct t (w.emit e) :=
  acct_frame hA rfl rfl (fun _ => rfl) (fun _ => rfl) (fun _ _ => rfl) (fun _ _ => rfl) rfl rfl rfl rfl rfl

theorem acct_jobs {w : World} {t : Option Nat} (j : List Nat) (hA : Acct t w) : Acct t { w with jobs := j } :=
  acct_frame hA rfl rfl (fun _ => rfl) (fun _ => rfl) (fun _ _ => rfl) (fun _ _ => rfl) rfl rfl rfl rfl rfl

theorem acct_now {w : World} {t : Option Nat} (n : Int) (hA : Acct t w) : Acct t { w with now := n } :=
  acct_frame hA rfl rfl (fun _ => rfl) (fun _ => rfl) (fun _ _ => rfl) (fun _ _ => rfl) rfl rfl rfl rfl rfl

theorem acct_lastUsed {w : World} {t : Option Nat} (n : Int) (hA : Acct t w) : Acct t { w with lastUsed := n } :=
  acct_frame hA rfl rfl (fun _ => rfl) (fun _ => rfl) (fun _ _ => rfl) (fun _ _ => rfl) rfl rfl rfl rfl rfl

theorem acct_noteSent {w : World} {t : Option Nat} (b : Bool) (hA : Acct t w) : Acct t { w with noteSent := b } :=
  acct_frame hA rfl rfl (fun _ => rfl) (fun _ => rfl) (fun _ _ => rfl) (fun _ _ => rfl) rfl rfl rfl rfl rfl

theorem acct_updHost {w : World} {t : Option Nat} (h : Nat) (f : Host → Host) (hA : Acct t w)
    (hf : ∀ H, (f H).load = H.load ∧ (f H).statLoad = H.statLoad) : Acct t (w.updHost h f) := by
  refine acct_frame hA rfl rfl ?_ ?_ (fun _ _ => rfl) (fun _ _ => rfl) rfl rfl rfl rfl rfl
  · intro h'; simp only [World.updHost]; by_cases e : h' = h <;> simp [e, (hf _).1]
  · intro h'; simp only [World.updHost]; by_cases e : h' = h <;> simp [e, (hf _).2]

theorem acct_updProc {w : World} {t : Option Nat} (h p : Nat) (f : Proc → Proc) (hA : Acct t w)
    (hf : ∀ P, (f P).load = P.load ∧ (f P).statLoad = P.statLoad) : Acct t (w.updProc h p f) := by
  refine acct_frame hA rfl rfl (fun _ => rfl) (fun _ => rfl) ?_ ?_ rfl rfl rfl rfl rfl
  · intro h' p'; simp only [World.updProc]; by_cases e : h' = h ∧ p' = p <;> simp [e, (hf _).1]
  · intro h' p'; simp only [World.updProc]; by_cases e : h' = h ∧ p' = p <;> simp [e, (hf _).2]

theorem popConn_eq (w : World) : ∃ sc, (popConn w).2 = { w with script := sc } := by
  unfold popConn; split
  · exact ⟨w.script, rfl⟩
  · exact ⟨_, rfl⟩
theorem popSock_eq (w : World) : ∃ sc, (popSock w).2 = { w with script := sc } := by
  unfold popSock; split
  · exact ⟨w.script, rfl⟩
  · exact ⟨_, rfl⟩
theorem popStat_eq (w : World) : ∃ sc, (popStat w).2 = { w with script := sc } := by
  unfold popStat; split
  · exact ⟨w.script, rfl⟩
  · exact ⟨_, rfl⟩
theorem popWr_eq (w : World) : ∃ sc, (popWr w).2 = { w with script := sc } := by
  unfold popWr; split
  · exact ⟨w.script, rfl⟩
  · exact ⟨_, rfl⟩
theorem popRd_eq (w : World) : ∃ sc, (popRd w).2 = { w with script := sc } := by
  unfold popRd; split
  · exact ⟨w.script, rfl⟩
  · exact ⟨_, rfl⟩
theorem popEnv_eq (w : World) : ∃ sc, (popEnv w).2 = { w with script := sc } := by
  unfold popEnv; split
  · exact ⟨w.script, rfl⟩
  · exact ⟨_, rfl⟩

/-! ### availability functions do not touch the accounting -/

theorem acct_setPState {w : World} {t : Option Nat} (h p : Nat) (st : PState) (hA : Acct t w) :
    Acct t (setPState w h p st) := by
  unfold setPState
  split
  · exact hA
  · dsimp only
    refine acct_updProc _ _ _ ?_ (fun _ => ⟨rfl, rfl⟩)
    split
    · exact acct_updHost _ _ hA (fun _ => ⟨rfl, rfl⟩)
    · split
      · exact acct_updHost _ _ hA (fun _ => ⟨rfl, rfl⟩)
      · exact hA

theorem acct_connectError {w : World} {t : Option Nat} (h p pid : Nat) (hA : Acct t w) :
    Acct t (connectError w h p pid) := by
  unfold connectError
  split
  · exact acct_setPState _ _ _ (acct_updProc _ _ _ hA (fun _ => ⟨rfl, rfl⟩))
  · exact hA

theorem acct_checkEnable {w : World} {t : Option Nat} (h p : Nat) (hA : Acct t w) :
    Acct t (checkEnable w h p) := by
  unfold checkEnable
  split
  · exact hA
  · split
    · exact hA
    · exact acct_setPState _ _ _ hA

theorem acct_restartDeadProc {w : World} {t : Option Nat} (h : Nat) (tr : Bool) (p : Nat) (hA : Acct t w) :
    Acct t (restartDeadProc w h tr p) := by
  unfold restartDeadProc
  split
  · exact hA
  · exact acct_checkEnable _ _ hA
  · split
    · exact acct_updProc _ _ _ hA (fun _ => ⟨rfl, rfl⟩)
    · exact hA
  · exact hA
  · exact hA

theorem foldl_inv {α β : Type} (P : β → Prop) (f : β → α → β) (l : List α) (b : β)
    (hb : P b) (hf : ∀ b a, P b → P (f b a)) : P (l.foldl f b) := by
  induction l generalizing b with
  | nil => exact hb
  | cons a l ih => exact ih _ (hf _ _ hb)

theorem acct_restartDeadProcs {w : World} {t : Option Nat} (h : Nat) (tr : Bool) (hA : Acct t w) :
    Acct t (restartDeadProcs w h tr) := by
  unfold restartDeadProcs
  exact foldl_inv (Acct t) _ _ _ hA (fun _ _ hb => acct_restartDeadProc _ _ _ hb)

theorem acct_checkOverloaded {w : World} {t : Option Nat} (h : Nat) (hA : Acct t w) :
    Acct t (checkOverloaded w h) := by
  unfold checkOverloaded
  refine foldl_inv (Acct t) _ _ _ hA (fun b a hb => ?_)
  split
  · exact acct_checkEnable _ _ hb
  · exact hb

/-! ### the link part of a slot through the primitives -/

/-- link of slot s, if the slot is in use -/
def lk (w : World) (s : Nat) : Option Link := (w.slot s).map Ctx.link

theorem lk_some {w : World} {s : Nat} {c : Ctx} (h : w.slot s = some c) : lk w s = some c.link := by
  simp [lk, h]

theorem lk_updAux (w : World) (s : Nat) (f : Aux → Aux) (i : Nat) : lk (w.updAux s f) i = lk w i := by
  simp only [lk, World.updAux, World.updSlot]
  by_cases h : i = s
  · subst h; cases w.slot i <;> simp
  · simp [h]

theorem lk_updLink (w : World) (s : Nat) (f : Link → Link) (i : Nat) :
    lk (w.updLink s f) i = if i = s then (lk w s).map f else lk w i := by
  simp only [lk, World.updLink, World.updSlot]
  by_cases h : i = s
  · subst h; cases w.slot i <;> simp
  · simp [h]

@[simp] theorem lk_updHost (w : World) (h : Nat) (f : Host → Host) (i : Nat) : lk (w.updHost h f) i = lk w i := rfl
@[simp] theorem lk_updProc (w : World) (h p : Nat) (f : Proc → Proc) (i : Nat) : lk (w.updProc h p f) i = lk w i := rfl
@[simp] theorem lk_emit (w : World) (e : Ev) (i : Nat) : lk (w.emit e) i = lk w i := rfl

theorem lk_setPState (w : World) (h p : Nat) (st : PState) (i : Nat) : lk (setPState w h p st) i = lk w i := by
  unfold setPState; split
  · rfl
  · dsimp only; split
    · rfl
    · split <;> rfl

theorem lk_connectError (w : World) (h p pid : Nat) (i : Nat) : lk (connectError w h p pid) i = lk w i := by
  unfold connectError; split
  · rw [lk_setPState]; rfl
  · rfl

theorem hostGet_snd (w : World) (s : Nat) :
    (hostGet w s).2 = { w with lastUsed := (hostPick w (w.auxOf s).key).2 } ∨
    (hostGet w s).2 = { ({ w with lastUsed := (hostPick w (w.auxOf s).key).2 }).updAux s
        (fun a => { a with status := 503, handler := false }) with noteSent := true } := by
  unfold hostGet; dsimp only; split
  · exact Or.inl rfl
  · exact Or.inr rfl

theorem acct_hostGet {w : World} {t : Option Nat} (s : Nat) (hA : Acct t w) (ht : TOk t s) :
    Acct t (hostGet w s).2 := by
  rcases hostGet_snd w s with h | h <;> rw [h]
  · exact acct_lastUsed _ hA
  · exact acct_noteSent _ (acct_updAux _ _ (acct_lastUsed _ hA) ht.oth)

theorem lk_hostGet (w : World) (s i : Nat) : lk (hostGet w s).2 i = lk w i := by
  rcases hostGet_snd w s with h | h <;> rw [h]
  · rfl
  · simp only [lk, World.updAux, World.updSlot]
    by_cases e : i = s
    · subst e; cases w.slot i <;> simp
    · simp [e]

theorem lk_hostAssign (w : World) (s h : Nat) :
    lk (hostAssign w s h) s = (lk w s).map fun l => { l with host := some h } := by
  unfold hostAssign
  cases hs : w.slot s with
  | none => simp [lk, hs]
  | some c =>
    have : ∀ (W : World) (v : Int), lk (setHostLoad W h v) s = lk W s := fun _ _ => rfl
    simp [this, lk_updLink]

theorem lk_backendClose {w : World} {t : Option Nat} (s : Nat) (hA : Acct t w) :
    lk (backendClose w s) s = (lk w s).map fun l => { l with fd := false, proc := none, host := none } := by
  cases hs : w.slot s with
  | none => rw [backendClose_none s hs]; simp [lk, hs]
  | some c => simp [lk, backendClose_slot s c hA hs, hs, closedCtx]

theorem acct_setState {w : World} {t : Option Nat} (s : Nat) (st : CState) (hA : Acct t w) (ht : TOk t s)
    (h : st = .init → ∀ l, lk w s = some l → l.proc = none ∧ l.fd = false) :
    Acct t (w.updLink s fun l => { l with state := st }) := by
  cases hs : w.slot s with
  | none => rw [World.updLink, updSlot_none _ hs]; exact hA
  | some c =>
    have hok := hA.slots s c hs
    refine acct_link s c { c with link := { c.link with state := st } } hA hs (updSlot_some _ hs) rfl
      ?_ ?_ ?_ ?_ ?_ ?_ ?_ ?_ ht.oth
    · intro h'; simp [World.updLink, World.updSlot, hostC]
    · intro h'; simp [World.updLink, World.updSlot, hA.hostStat]
    · intro h' p'; simp [World.updLink, World.updSlot, procC]
    · intro h' p'; simp [World.updLink, World.updSlot, hA.procStat]
    · simp [World.updLink, World.updSlot, anyProcC]
    · simp [World.updLink, World.updSlot, fdC]
    · simp [World.updLink, World.updSlot, fdC]
    · refine ⟨hok.1, hok.2, fun hr hst => ?_⟩
      by_cases e : st = .init
      · exact h e c.link (lk_some hs)
      · simp at hst; exact absurd hst e

theorem acct_setHctx {w : World} {t : Option Nat} (s : Nat) (b : Bool) (hA : Acct t w) (ht : TOk t s) :
    Acct t (w.updLink s fun l => { l with hctx := b }) := by
  cases hs : w.slot s with
  | none => rw [World.updLink, updSlot_none _ hs]; exact hA
  | some c =>
    have hok := hA.slots s c hs
    refine acct_link s c { c with link := { c.link with hctx := b } } hA hs (updSlot_some _ hs) rfl
      ?_ ?_ ?_ ?_ ?_ ?_ ?_ ?_ ht.oth
    · intro h'; simp [World.updLink, World.updSlot, hostC]
    · intro h'; simp [World.updLink, World.updSlot, hA.hostStat]
    · intro h' p'; simp [World.updLink, World.updSlot, procC]
    · intro h' p'; simp [World.updLink, World.updSlot, hA.procStat]
    · simp [World.updLink, World.updSlot, anyProcC]
    · simp [World.updLink, World.updSlot, fdC]
    · simp [World.updLink, World.updSlot, fdC]
    · exact ⟨hok.1, hok.2, hok.3⟩

theorem acct_reconnect {w : World} {t : Option Nat} (s : Nat) (hA : Acct t w) (ht : TOk t s) :
    Acct none (reconnect w s).2 := by
  have A1 := acct_backendClose s hA ht
  have L1 := lk_backendClose s hA
  have A2 := acct_hostGet s A1 (tok_none s)
  have L2 := lk_hostGet (backendClose w s) s s
  unfold reconnect
  dsimp only
  split
  · exact A2
  · rename_i h _
    refine acct_setState s .init (acct_hostAssign s h A2 (tok_none s) ?_) (tok_none s) ?_
    · intro c hc
      have := lk_some hc
      rw [L2, L1] at this
      cases hl : lk w s <;> simp [hl] at this
      rw [← this]
    · intro _ l hl
      rw [lk_hostAssign, L2, L1] at hl
      cases hl' : lk w s <;> simp [hl'] at hl
      rw [← hl]; simp

/-! ### closing, errors, the response reader -/

theorem acct_backendDone {w : World} {t : Option Nat} (s : Nat) (hA : Acct t w) (ht : TOk t s) :
    Acct t (backendDone w s) := by
  unfold backendDone; exact acct_updAux _ _ hA ht.oth

theorem acct_connectionClose {w : World} {t : Option Nat} (s : Nat) (hA : Acct t w) (ht : TOk t s) :
    Acct none (connectionClose w s) := by
  have A1 := acct_setHctx s false (acct_backendClose s hA ht) (tok_none s)
  unfold connectionClose; dsimp only; split
  · exact acct_backendDone s A1 (tok_none s)
  · exact A1

theorem acct_backendError {w : World} {t : Option Nat} (s : Nat) (hA : Acct t w) (ht : TOk t s) :
    Acct none (backendError w s).2 := by
  unfold backendError; dsimp only
  exact acct_connectionClose s (acct_updAux _ _ hA ht.oth) ht

theorem acct_recvResponseError {w : World} {t : Option Nat} (s : Nat) (hA : Acct t w) (ht : TOk t s) :
    Acct none (recvResponseError w s).2 := by
  unfold recvResponseError; dsimp only
  split
  · split
    · exact acct_reconnect s (acct_updAux _ _ hA ht.oth) ht
    · exact acct_backendError s (acct_updAux _ _ hA ht.oth) ht
  · exact acct_backendError s hA ht

theorem acct_recvResponse {w : World} (s : Nat) (hA : Acct none w) : Acct none (recvResponse w s).2 := by
  obtain ⟨sc, e⟩ := popRd_eq w
  have A1 : Acct none (popRd w).2 := by rw [e]; exact acct_script _ hA
  unfold recvResponse; dsimp only
  split
  · (try dsimp only); exact A1
  · split
    · (try dsimp only); exact acct_updAux _ _ A1 (tok_none s).oth
    · split
      · (try dsimp only); exact acct_recvResponseError s A1 (tok_none s)
      · (try dsimp only); exact acct_connectionClose s A1 (tok_none s)

theorem acct_drain (n : Nat) {w : World} (s : Nat) (hA : Acct none w) : Acct none (drain n w s).2 := by
  induction n generalizing w with
  | zero => exact hA
  | succ n ih =>
    unfold drain; dsimp only
    split
    · exact ih (acct_recvResponse s hA)
    · exact acct_recvResponse s hA

/-- close a goal `Acct t (… updates of slot s …)` from `hA : Acct t w`, `hto : ∀ i, i ≠ s → t ≠ some i`,
    `ht : TOk t s` -/
macro "acct_close" : tactic => `(tactic| repeat (first
   | assumption
   | (refine acct_updAux _ _ ?_ (by assumption))
   | (refine acct_setState _ _ ?_ (by assumption) (by intro h; cases h))
   | (refine acct_script _ ?_)
   | (refine acct_emit _ ?_)
   | (refine acct_jobs _ ?_)
   | (refine acct_connectError _ _ _ ?_)))

theorem acct_wrWrite {w : World} {t : Option Nat} (s : Nat) (hA : Acct t w) (ht : TOk t s) :
    Acct t (wrWrite w s).2 := by
  have hto := ht.oth
  obtain ⟨sc, e⟩ := popWr_eq w
  unfold wrWrite; dsimp only
  repeat' split
  all_goals (try dsimp only)
  all_goals (try rw [e])
  all_goals acct_close

theorem acct_wrPrepare {w : World} {t : Option Nat} (s : Nat) (hA : Acct t w) (ht : TOk t s) :
    Acct t (wrPrepare w s).2 := by
  have hto := ht.oth
  obtain ⟨sc, e⟩ := popEnv_eq w
  unfold wrPrepare; dsimp only
  rw [e]
  have A1 : Acct t { w with script := sc } := acct_script _ hA
  split
  · dsimp only; acct_close
  · split
    · dsimp only; acct_close
    · refine acct_wrWrite s ?_ ht
      acct_close

theorem acct_wrConnected {w : World} {t : Option Nat} (s : Nat) (hA : Acct t w) (ht : TOk t s) :
    Acct t (wrConnected w s).2 := by
  have hto := ht.oth
  unfold wrConnected
  refine acct_wrPrepare s ?_ ht
  acct_close

theorem acct_slotConnectError {w : World} {t : Option Nat} (s : Nat) (hA : Acct t w) :
    Acct t (slotConnectError w s) := by
  unfold slotConnectError
  split
  · split
    · exact acct_connectError _ _ _ hA
    · exact hA
  · exact hA

theorem acct_wrDelayed {w : World} {t : Option Nat} (s : Nat) (hA : Acct t w) (ht : TOk t s) :
    Acct t (wrDelayed w s).2 := by
  have hto := ht.oth
  obtain ⟨sc, e⟩ := popStat_eq w
  unfold wrDelayed; dsimp only
  rw [e]
  have A1 : Acct t { w with script := sc } := acct_script _ hA
  split
  · exact hA
  · split
    · exact acct_slotConnectError s A1
    · refine acct_wrConnected s ?_ ht
      acct_close

theorem acct_tighten' {w : World} {t : Option Nat} (s : Nat) (hA : Acct t w) (ht : TOk t s)
    (h : ∀ l, lk w s = some l → l.state ≠ .init) : Acct none w := by
  refine acct_tighten s hA ht ?_
  intro c hc hst
  exact absurd hst (h c.link (lk_some hc))

theorem lk_script (w : World) (sc : Script) (i : Nat) : lk { w with script := sc } i = lk w i := rfl

theorem lk_procAcquire (w : World) (s h p : Nat) :
    lk (procAcquire w s h p) s = (lk w s).map fun l => { l with proc := some p } := by
  unfold procAcquire
  cases hs : w.slot s with
  | none => simp [lk, hs]
  | some c => simp [lk, hs, setProcLoad, World.updLink, World.updSlot, World.updProc]

theorem lk_openFd (w : World) (s : Nat) :
    lk (openFd w s) s = (lk w s).map fun l => { l with fd := true } := by
  unfold openFd
  cases hs : w.slot s with
  | none => simp [lk, hs]
  | some c => simp [lk, hs, World.updLink, World.updSlot]

theorem acct_wrRegister {w : World} (s h p : Nat) (hA : Acct (some s) w)
    (hh : ∀ c, w.slot s = some c → c.link.proc.isSome ∧ c.link.fd = false) :
    Acct (some s) (wrRegister w s h p) := by
  have hto := (tok_some s).oth
  unfold wrRegister; dsimp only
  exact acct_updHost _ _ (acct_updAux _ _ (acct_openFd s hA hh) hto) (fun _ => ⟨rfl, rfl⟩)

theorem acct_wrConnect {w : World} (s h p : Nat) (hA : Acct (some s) w) :
    Acct (some s) (wrConnect w s h p).2 ∧ ((wrConnect w s h p).1 ≠ .error → Acct none (wrConnect w s h p).2) := by
  have hto := (tok_some s).oth
  have ht := tok_some s
  obtain ⟨sc, e⟩ := popConn_eq w
  unfold wrConnect; dsimp only
  rw [e]
  have A1 : Acct (some s) (({ w with script := sc }.emit (.dispatch s h p)).updAux s
      fun a => { a with dispatched := a.dispatched + 1 }) :=
    acct_updAux _ _ (acct_emit _ (acct_script _ hA)) hto
  generalize (({ w with script := sc }.emit (.dispatch s h p)).updAux s
      fun a => { a with dispatched := a.dispatched + 1 }) = W at A1 ⊢
  split
  · -- connected at once: state leaves INIT before anything else happens
    unfold wrConnected
    have A2 : Acct none (W.updLink s fun l => { l with state := .prepareWrite }) := by
      refine acct_tighten' s (t := some s) ?_ ht ?_
      · acct_close
      · intro l hl
        rw [lk_updLink] at hl
        simp at hl
        obtain ⟨a, _, ha⟩ := hl
        rw [← ha]; simp
    have A3 := acct_wrPrepare s A2 (tok_none s)
    exact ⟨acct_relax s A3 (tok_none s), fun _ => A3⟩
  · have A2 : Acct none ((W.updAux s fun a => { a with evOut := true }).updLink s
        fun l => { l with state := .connectDelayed }) := by
      refine acct_tighten' s (t := some s) ?_ ht ?_
      · acct_close
      · intro l hl
        rw [lk_updLink] at hl
        simp at hl
        obtain ⟨a, _, ha⟩ := hl
        rw [← ha]; simp
    exact ⟨acct_relax s A2 (tok_none s), fun _ => A2⟩
  · exact ⟨acct_connectError _ _ _ A1, fun hne => absurd rfl hne⟩

theorem acct_wrInit {w : World} (s : Nat) (hA : Acct none w) (hst : (w.linkOf s).state = .init) :
    Acct (some s) (wrInit w s).2 ∧ ((wrInit w s).1 ≠ .error → Acct none (wrInit w s).2) := by
  have hR := acct_relax s hA (tok_none s)
  have hto := (tok_some s).oth
  unfold wrInit
  cases hs : w.slot s with
  | none =>
    have : (w.linkOf s).host = none := by simp [World.linkOf, hs]
    simp only [this]
    exact ⟨hR, fun _ => hA⟩
  | some c =>
    have hl : w.linkOf s = c.link := by simp [World.linkOf, hs]
    rw [hl] at hst
    have hclean := (hA.slots s c hs).3 (by simp) hst
    rw [hl]
    cases hh : c.link.host with
    | none => exact ⟨hR, fun _ => hA⟩
    | some h =>
      dsimp only
      have e0 : (w.updLink s fun l => { l with proc := none }) = w := by
        apply updSlot_id
        intro c' hc'
        rw [hs] at hc'; cases hc'
        cases c; rename_i l a; cases l; simp_all
      rw [e0]
      cases hp : pickProc w h with
      | none => exact ⟨hR, fun _ => hA⟩
      | some p =>
        dsimp only
        have A1 : Acct (some s) (procAcquire w s h p) :=
          acct_procAcquire s h p hA (tok_none s) (by intro c' hc'; rw [hs] at hc'; cases hc'; exact ⟨hh, hclean.1⟩)
        have L1 : lk (procAcquire w s h p) s = some { c.link with proc := some p } := by
          rw [lk_procAcquire, lk_some hs]; rfl
        obtain ⟨sc, e⟩ := popSock_eq (procAcquire w s h p)
        rw [e]
        have A2 : Acct (some s) { procAcquire w s h p with script := sc } := acct_script _ A1
        have L2 : lk { procAcquire w s h p with script := sc } s = some { c.link with proc := some p } := L1
        split
        · exact ⟨A2, fun hne => absurd rfl hne⟩
        · refine acct_wrConnect s h p (acct_wrRegister s h p A2 ?_)
          intro c' hc'
          have := lk_some hc'
          rw [L2] at this
          simp only [Option.some.injEq] at this
          rw [← this]
          simp [hclean.2]

theorem acct_writeRequest {w : World} (s : Nat) (hA : Acct none w) :
    Acct (some s) (writeRequest w s).2 ∧ ((writeRequest w s).1 ≠ .error → Acct none (writeRequest w s).2) := by
  have hR := acct_relax s hA (tok_none s)
  unfold writeRequest
  split
  · rename_i hst; exact acct_wrInit s hA hst
  · exact ⟨acct_wrDelayed s hR (tok_some s), fun _ => acct_wrDelayed s hA (tok_none s)⟩
  · exact ⟨acct_wrPrepare s hR (tok_some s), fun _ => acct_wrPrepare s hA (tok_none s)⟩
  · exact ⟨acct_wrWrite s hR (tok_some s), fun _ => acct_wrWrite s hA (tok_none s)⟩
  · exact ⟨hR, fun _ => hA⟩

theorem lk_linkOf {w : World} {s : Nat} {l : Link} (h : lk w s = some l) : w.linkOf s = l := by
  unfold lk at h; unfold World.linkOf
  cases hs : w.slot s <;> simp [hs] at h ⊢
  exact h

theorem acct_writeErrorTail {w : World} {t : Option Nat} (s : Nat) (hA : Acct t w) (ht : TOk t s) :
    Acct none (writeErrorTail w s).2 := by
  unfold writeErrorTail; dsimp only
  apply acct_backendError s _ ht
  split
  · exact acct_updAux _ _ hA ht.oth
  · exact hA

theorem acct_restartIfLocal {w : World} {t : Option Nat} (s : Nat) (hA : Acct t w) :
    Acct t (restartIfLocal w s) := by
  unfold restartIfLocal
  split
  · split
    · exact acct_restartDeadProcs _ _ hA
    · exact hA
  · exact hA

theorem acct_writeError {w : World} (s : Nat) (hA : Acct (some s) w) : Acct none (writeError w s).2 := by
  have ht := tok_some s
  have hto := ht.oth
  unfold writeError; dsimp only
  split
  · have A1 := acct_restartIfLocal s hA
    split
    · exact acct_reconnect s (acct_updAux _ _ A1 hto) ht
    · exact acct_writeErrorTail s (acct_updAux _ _ A1 hto) ht
  · rename_i hst
    have A0 : Acct none w := by
      refine acct_tighten' s hA ht ?_
      intro l hl e
      rw [lk_linkOf hl] at hst
      exact hst (Or.inl e)
    have A1 := acct_recvResponse s A0
    split
    · exact A1
    · exact acct_writeErrorTail s A1 (tok_none s)

theorem acct_sendRequest {w : World} (s : Nat) (hA : Acct none w) : Acct none (sendRequest w s).2 := by
  have h := acct_writeRequest s hA
  unfold sendRequest; dsimp only
  split
  · rename_i hne; exact h.2 hne
  · exact acct_writeError s h.1

theorem acct_processFdevent {w : World} (s rev : Nat) (hA : Acct none w) :
    Acct none (processFdevent w s rev).2 := by
  unfold processFdevent; dsimp only
  have A1 : Acct none (if rev.testBit 0 then recvResponse w s else (Rc.goOn, w)).2 := by
    split
    · exact acct_recvResponse s hA
    · exact hA
  generalize (if rev.testBit 0 then recvResponse w s else (Rc.goOn, w)) = r at A1 ⊢
  split
  · exact A1
  · split
    · exact acct_sendRequest s A1
    · split
      · split
        · exact acct_sendRequest s A1
        · split
          · exact acct_drain _ s A1
          · exact acct_connectionClose s A1 (tok_none s)
      · split
        · exact acct_backendError s A1 (tok_none s)
        · exact A1

theorem acct_subEvents {w : World} (s : Nat) (hA : Acct none w) : Acct none (subEvents w s).2 := by
  unfold subEvents; dsimp only
  split
  · exact acct_processFdevent s _ (acct_updAux _ _ hA (tok_none s).oth)
  · exact hA

theorem acct_subrequest {w : World} (s : Nat) (hA : Acct none w) : Acct none (subrequest w s).2 := by
  unfold subrequest; dsimp only
  have A1 := acct_subEvents s hA
  split
  · exact hA
  · split
    · exact A1
    · split
      · split
        · exact acct_sendRequest s A1
        · exact acct_sendRequest s A1
      · exact A1

/-- a slot whose context holds nothing can be dropped -/
theorem acct_free {w : World} {t : Option Nat} (s : Nat) (hA : Acct t w) (ht : TOk t s)
    (h : ∀ l, lk w s = some l → l.host = none ∧ l.proc = none ∧ l.fd = false) :
    Acct none { w with slot := fun i => if i = s then none else w.slot i } := by
  refine acct_rewrite (t := t) s none hA rfl rfl (by simp) ?_ hA.hostStat ?_ hA.procStat ?_ ?_ ?_ ?_ ?_
  case refine_7 =>
    intro i c hi _ h0
    have : decide (t = some i) = false := by simpa using ht.oth i hi
    rw [this] at h0; simpa using h0
  all_goals (try intro h'); (try intro p')
  all_goals
    cases hs : w.slot s with
    | none => simp_all [hostC, procC, anyProcC, fdC]
    | some c =>
      have := h c.link (lk_some hs)
      simp_all [hostC, procC, anyProcC, fdC]

theorem acct_finish {w : World} {t : Option Nat} (s : Nat) (ab : Bool) (hA : Acct t w) (ht : TOk t s) :
    Acct none (finish w s ab) := by
  unfold finish
  cases hs : w.slot s with
  | none => exact acct_tighten s hA ht (by simp [hs])
  | some c =>
    dsimp only
    have A1 : Acct t (if ab then w else w.emit (finEv s c)) := by
      split
      · exact hA
      · exact acct_emit _ hA
    generalize (if ab then w else w.emit (finEv s c)) = W at A1 ⊢
    refine acct_free s (acct_backendClose s A1 ht) (tok_none s) ?_
    intro l hl
    rw [lk_backendClose s A1] at hl
    cases hl' : lk W s <;> simp [hl'] at hl
    rw [← hl]; simp

theorem acct_runCon (n : Nat) {w : World} (s : Nat) (hA : Acct none w) : Acct none (runCon n w s) := by
  induction n generalizing w with
  | zero => exact acct_finish s true (acct_emit _ hA) (tok_none s)
  | succ n ih =>
    unfold runCon
    cases hs : w.slot s with
    | none => exact hA
    | some c =>
      dsimp only
      have A1 := acct_subrequest s hA
      split
      · exact acct_finish s false hA (tok_none s)
      · split
        · split
          · exact acct_finish s false A1 (tok_none s)
          · exact acct_emit _ A1
        · exact acct_finish s false A1 (tok_none s)
        · exact acct_finish s false A1 (tok_none s)
        · exact ih A1
        · exact acct_finish s true (acct_emit _ A1) (tok_none s)

theorem acct_runJobs {w : World} (hA : Acct none w) : Acct none (runJobs w) := by
  unfold runJobs; dsimp only
  exact foldl_inv (Acct none) _ _ _ (acct_jobs _ hA) (fun _ _ hb => acct_runCon _ _ hb)

theorem acct_fix504 {w : World} {t : Option Nat} (s : Nat) (hA : Acct t w) (ht : TOk t s) :
    Acct t (fix504 w s) := by
  unfold fix504; dsimp only
  split
  · exact acct_updAux _ _ hA ht.oth
  · exact hA

theorem acct_hctxTimeout {w : World} (s kind : Nat) (hA : Acct none w) : Acct none (hctxTimeout w s kind) := by
  have ht := tok_none s
  have hto := ht.oth
  unfold hctxTimeout; dsimp only
  have A0 : Acct none (if w.jobs.contains s then w else { w with jobs := s :: w.jobs }) := by
    split
    · exact hA
    · exact acct_jobs _ hA
  generalize (if w.jobs.contains s then w else { w with jobs := s :: w.jobs }) = W at A0 ⊢
  split
  · have A1 := acct_slotConnectError s A0
    split
    · exact acct_reconnect s (acct_updAux _ _ A1 hto) ht
    · exact acct_fix504 s (acct_backendError s (acct_updAux _ _ (acct_updAux _ _ A1 hto) hto) ht) ht
  · split
    · have A1 := acct_writeError s (acct_relax s A0 ht)
      split
      · exact acct_updAux _ _ A1 hto
      · exact A1
    · exact acct_fix504 s (acct_backendError s A0 ht) ht

theorem acct_timeoutStep {w : World} (h s : Nat) (hA : Acct none w) : Acct none (timeoutStep h w s) := by
  unfold timeoutStep; dsimp only
  split
  · split
    · exact acct_hctxTimeout s 0 hA
    · exact hA
  · split
    · exact acct_hctxTimeout s 1 hA
    · split
      · exact acct_hctxTimeout s 2 hA
      · exact hA

theorem acct_hostTimeouts {w : World} (h : Nat) (hA : Acct none w) : Acct none (hostTimeouts w h) := by
  unfold hostTimeouts; dsimp only
  split
  · exact hA
  · split
    · exact hA
    · exact foldl_inv (Acct none) _ _ _ hA (fun _ _ hb => acct_timeoutStep _ _ hb)

theorem acct_triggerHost {w : World} (h : Nat) (hA : Acct none w) : Acct none (triggerHost w h) := by
  unfold triggerHost; dsimp only
  split
  · exact acct_checkOverloaded _ (acct_hostTimeouts h hA)
  · exact acct_restartDeadProcs _ _ (acct_hostTimeouts h hA)

theorem acct_schedRun {w : World} (hA : Acct none w) : Acct none (schedRun w) := by
  unfold schedRun
  refine ⟨hA.1, hA.2, hA.3, hA.4, hA.5, ?_, ?_, hA.8, hA.9⟩
  · have := hA.fds
    show w.curFds - w.pendClose = fdCnt w + ((0 : Nat) : Int)
    omega
  · have := hA.ghost
    show (w.opened : Int) = ((w.closed + w.pendClose : Nat) : Int) + fdCnt w + ((0 : Nat) : Int)
    omega

/-- a fresh request context (holding nothing) enters a free slot -/
theorem acct_alloc {w : World} (s : Nat) (a : Aux) (hA : Acct none w) (hs : w.slot s = none)
    (hlt : s < w.nslots) :
    Acct none { w with slot := fun i => if i = s then some { aux := a } else w.slot i } := by
  refine acct_rewrite (t := none) s (some { aux := a }) hA rfl rfl (fun _ => hlt) ?_ hA.hostStat ?_
    hA.procStat ?_ ?_ ?_ ?_ ?_
  case refine_6 =>
    intro c hc; simp at hc; subst hc
    exact ⟨by simp, by simp, by simp⟩
  case refine_7 =>
    intro i c hi _ h0; simpa using h0
  all_goals (try intro h'); (try intro p')
  all_goals simp [hs, hostC, procC, anyProcC, fdC]

/-- a link update that moves no host/proc/fd reference -/
theorem acct_updLink {w : World} {t : Option Nat} (s : Nat) (f : Link → Link) (hA : Acct t w) (ht : TOk t s)
    (hf : ∀ l, lk w s = some l → (f l).host = l.host ∧ (f l).proc = l.proc ∧ (f l).fd = l.fd ∧
      ((f l).state = .init → l.proc = none ∧ l.fd = false)) : Acct t (w.updLink s f) := by
  cases hs : w.slot s with
  | none => rw [World.updLink, updSlot_none _ hs]; exact hA
  | some c =>
    have hok := hA.slots s c hs
    obtain ⟨h1, h2, h3, h4⟩ := hf c.link (lk_some hs)
    refine acct_link s c { c with link := f c.link } hA hs (updSlot_some _ hs) rfl
      ?_ ?_ ?_ ?_ ?_ ?_ ?_ ?_ ht.oth
    · intro h'; simp [World.updLink, World.updSlot, hostC, h1]
    · intro h'; simp [World.updLink, World.updSlot, hA.hostStat]
    · intro h' p'; simp [World.updLink, World.updSlot, procC, h1, h2]
    · intro h' p'; simp [World.updLink, World.updSlot, hA.procStat]
    · simp [World.updLink, World.updSlot, anyProcC, h2]
    · simp [World.updLink, World.updSlot, fdC, h3]
    · simp [World.updLink, World.updSlot, fdC, h3]
    · refine ⟨?_, ?_, fun _ hst => ?_⟩
      · simp only [h1, h2]; exact hok.1
      · simp only [h2, h3]; exact hok.2
      · simp only [h2, h3]; exact h4 hst

theorem acct_opArrive {w : World} (s key : Nat) (hA : Acct none w) : Acct none (opArrive w s key) := by
  have ht := tok_none s
  have hto := ht.oth
  unfold opArrive
  split
  · exact acct_emit _ hA
  · rename_i hlt
    split
    · exact acct_emit _ hA
    · rename_i hfree
      have hs : w.slot s = none := by
        cases h : w.slot s with
        | none => rfl
        | some c => simp [h] at hfree
      dsimp only
      have A0 := acct_alloc s { key := key } hA hs (by omega)
      generalize hW : ({ w with slot := fun i => if i = s then some { aux := { key := key } } else w.slot i } : World) = W at A0 ⊢
      have L0 : lk W s = some {} := by rw [← hW]; simp [lk]
      have A1 := acct_hostGet s A0 ht
      have L1 : lk (hostGet W s).2 s = some {} := by rw [lk_hostGet, L0]
      split
      · exact acct_finish s false (acct_emit _ A1) ht
      · rename_i h _
        have L2 : lk ({ (hostGet W s).2 with noteSent := false }) s = some {} := L1
        split
        · exact acct_finish s false (acct_emit _ (acct_updAux _ _ (acct_noteSent false A1) hto)) ht
        refine acct_runCon _ s (acct_emit _ (acct_updAux _ _ (acct_hostAssign s h ?_ ht ?_) hto))
        · refine acct_updLink s _ (acct_noteSent false A1) ht ?_
          intro l hl
          rw [L2] at hl; simp only [Option.some.injEq] at hl; subst hl
          simp
        · intro c hc
          have := lk_some hc
          rw [lk_updLink, L2] at this
          simp at this
          rw [← this]

theorem acct_opEvent {w : World} (s mask : Nat) (hA : Acct none w) : Acct none (opEvent w s mask) := by
  have hto := (tok_none s).oth
  unfold opEvent; dsimp only
  split
  · exact acct_emit _ hA
  · split
    · exact acct_emit _ hA
    · split
      · exact acct_emit _ hA
      · exact acct_runJobs (acct_jobs _ (acct_updAux _ _ (acct_emit _ hA) hto))

theorem acct_opWake {w : World} (s : Nat) (hA : Acct none w) : Acct none (opWake w s) := by
  unfold opWake
  split
  · exact acct_emit _ hA
  · split
    · exact acct_emit _ hA
    · exact acct_runCon _ s (acct_emit _ hA)

theorem acct_opAbort {w : World} (s : Nat) (hA : Acct none w) : Acct none (opAbort w s) := by
  unfold opAbort
  split
  · exact acct_emit _ hA
  · split
    · exact acct_emit _ hA
    · exact acct_finish s true (acct_emit _ hA) (tok_none s)

theorem acct_opTick {w : World} (dt : Nat) (hA : Acct none w) : Acct none (opTick w dt) := by
  unfold opTick; dsimp only
  refine acct_runJobs (foldl_inv (Acct none) _ _ _ (acct_emit _ (acct_now _ hA)) (fun _ _ hb => acct_triggerHost _ hb))

theorem acct_step {w : World} (op : Op) (hA : Acct none w) : Acct none (step w op) := by
  unfold step; dsimp only
  apply acct_schedRun
  cases op with
  | arrive s key sc => exact acct_opArrive s key (acct_script _ hA)
  | event s mask sc => exact acct_opEvent s mask (acct_script _ hA)
  | wake s sc => exact acct_opWake s (acct_script _ hA)
  | abort s => exact acct_opAbort s (acct_script _ hA)
  | tick dt sc => exact acct_opTick dt (acct_script _ hA)

theorem acct_run {w : World} (ops : List Op) (hA : Acct none w) : Acct none (run w ops) := by
  unfold run
  exact foldl_inv (Acct none) _ _ _ hA (fun _ _ hb => acct_step _ hb)

theorem sumTo_zero (n : Nat) : sumTo n (fun _ => 0) = 0 := by
  induction n with
  | zero => rfl
  | succ n ih => simp [sumTo, ih]

theorem acct_init (balance : Nat) (wkr : Bool) (nslots : Nat) (specs : List HostSpec) :
    Acct none (initWorld balance wkr nslots specs) := by
  constructor
  · intro h; simp [initWorld, hostCnt, hostC, sumTo_zero]; cases specs[h]? <;> rfl
  · intro h; simp [initWorld]; cases specs[h]? <;> rfl
  · intro h p; simp [initWorld, procCnt, procC, sumTo_zero]; cases specs[h]? <;> rfl
  · intro h p; simp [initWorld]; cases specs[h]? <;> rfl
  · simp [initWorld, anyProcCnt, anyProcC, sumTo_zero]
  · simp [initWorld, fdCnt, fdC, sumTo_zero]
  · simp [initWorld, fdCnt, fdC, sumTo_zero]
  · intro s c h; simp [initWorld] at h
  · intro s _; simp [initWorld]

end LtVerif.Gw
